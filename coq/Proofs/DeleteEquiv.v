(* Proofs/DeleteEquiv.v — C11, behavioural half: answering a query under a restricting scenario gives the
   same answer as answering it under the all-inclusive scenario on the dataset from which the excluded
   trips were physically removed.  With d' := delete_excluded d s and cs' := conn_set d' (all_inclusive d s):

     C11_calc_single   : wf_data_b d, wf_tables_b d p acc egr, wf_params_b p ->
                         calc_single d (conn_set d s) p acc egr fresh = calc_single d' cs' p acc egr fresh
     C11_alternatives  : same hypotheses -> alternatives d (conn_set d s) p acc egr = alternatives d' cs' p acc egr
     C11_calc_allnodes : wf_data_b d, wf_params_b p, nodup_nat (map fp_node rows) ->
                         calc_allnodes d (conn_set d s) p rows = calc_allnodes d' cs' p rows
     C11_full          : the three together (implies Properties_C11.C11_full_statement)
     find_trip_delete, wf_data_delete, agree_delete, OPT_FUEL_delete_le : what the copy keeps.

   Layers
     1. `delete_excluded` keeps everything the computation reads: nodes, footpaths, paths, lines, the
        record of every enabled trip (`find_trip`), well-formedness (`wf_data_b`), per-trip connection
        lists (`trip_fwd`, `trip_rev`) of enabled trips.  Abstracted as `agree d d' trips`.
     2. congruence of the scans: two calculators that differ only in a pointwise-equal `k_disabled`
        (`kagree`) give EQUAL scan states (Leibniz equality; functional extensionality is not used).
     3. the labels written by the scans, the legs rebuilt from them and the journeys rewritten by
        optimize only mention trips of the connection set (`jgood`).
     4. congruence of leg_summary / leg_range / detect / optimize / emit / count_* / route_lines on
        `jgood` journeys; fuel monotonicity of optimize for every non-hanging result.
     5. calc_reverse, calc_single, calc_allnodes, alternatives: equal unless the calculation on the
        dataset with the smaller OPT_FUEL hangs; for routes it does not (Compose.calc_single_answers).
     6. arrival accessibility maps: their journeys have no access walk, so OptTotal does not apply
        directly; a leading walk is transparent to optimize (`optimize_shift`), the rebuilt legs are a
        valid journey behind a fictitious zero-length access walk (`allnodes_journey_ok`), hence
        calculateAllNodes never hangs on well-formed input (`calc_allnodes_rev_not_hang`).
     7. the combined statement and a computed example. *)
From Coq Require Import List ZArith Bool Arith Lia Sorted.
From TrV Require Import Spec Examples.
From TrV.Proofs Require Import SortFilter RevInv Rewrites OptTotal AltProofs Termination Compose.
Import ListNotations.
Local Open Scope Z_scope.

(* ============================================================================================== *)
(* 1. what delete_excluded keeps                                                                    *)

Lemma find_filter_keep {A} (f g : A -> bool) : forall (l : list A) x,
  find f l = Some x -> g x = true -> find f (filter g l) = Some x.
Proof.
  induction l as [|a l IH]; intros x F G; [discriminate|].
  cbn [find] in F. cbn [filter].
  destruct (f a) eqn:Fa.
  - injection F as <-. rewrite G. cbn [find]. rewrite Fa. reflexivity.
  - destruct (g a).
    + cbn [find]. rewrite Fa. apply IH; assumption.
    + apply IH; assumption.
Qed.

(* an enabled trip is found in the copy exactly as in the original *)
Lemma find_trip_delete_enabled d s t tr :
  find_trip d t = Some tr -> trip_enabled d s tr = true ->
  find_trip (delete_excluded d s) t = Some tr.
Proof.
  intros F E. unfold find_trip, delete_excluded. cbn [d_trips].
  apply find_filter_keep; assumption.
Qed.

Lemma enabled_trip_found d s t :
  nodup_nat (map t_id (d_trips d)) = true -> memb t (enabled_trips d s) = true ->
  exists tr, find_trip d t = Some tr /\ trip_enabled d s tr = true.
Proof.
  intros Hnd M. apply memb_In in M. unfold enabled_trips in M. apply in_map_iff in M.
  destruct M as (tr & Hid & Hf). apply filter_In in Hf. destruct Hf as [Hin Hen]. subst t.
  exists tr. split; [apply (find_trip_in d tr Hnd Hin)|exact Hen].
Qed.

Theorem find_trip_delete d s t :
  nodup_nat (map t_id (d_trips d)) = true -> memb t (enabled_trips d s) = true ->
  find_trip (delete_excluded d s) t = find_trip d t.
Proof.
  intros Hnd M. destruct (enabled_trip_found d s t Hnd M) as (tr & F & E).
  rewrite F. apply (find_trip_delete_enabled d s t tr F E).
Qed.

(* a trip that is not enabled is not found in the copy *)
Lemma find_trip_delete_none d s t :
  nodup_nat (map t_id (d_trips d)) = true -> memb t (enabled_trips d s) = false ->
  find_trip (delete_excluded d s) t = None.
Proof.
  intros Hnd M. destruct (find_trip (delete_excluded d s) t) as [tr|] eqn:F; [|reflexivity].
  exfalso. unfold find_trip, delete_excluded in F. cbn [d_trips] in F.
  apply find_some in F. destruct F as [Hin Hid]. apply Nat.eqb_eq in Hid.
  assert (M' : memb t (enabled_trips d s) = true).
  { apply memb_In. unfold enabled_trips. rewrite <- Hid. apply in_map. exact Hin. }
  congruence.
Qed.

(* --- wf_data_b is preserved ------------------------------------------------------------------- *)

Lemma memb_filter_map {A} (f : A -> nat) (g : A -> bool) x : forall l,
  memb x (map f (filter g l)) = true -> memb x (map f l) = true.
Proof.
  intros l H. apply memb_In in H. apply memb_In. apply in_map_iff in H.
  destruct H as (y & Hy & Hin). apply filter_In in Hin. apply in_map_iff. exists y. tauto.
Qed.

Lemma nodup_nat_filter_map {A} (f : A -> nat) (g : A -> bool) : forall l,
  nodup_nat (map f l) = true -> nodup_nat (map f (filter g l)) = true.
Proof.
  induction l as [|a l IH]; intros H; [reflexivity|].
  cbn [map nodup_nat] in H. apply andb_prop in H. destruct H as [H1 H2].
  cbn [filter]. destruct (g a).
  - cbn [map nodup_nat]. apply andb_true_intro. split; [|apply IH; exact H2].
    apply negb_true_iff. apply negb_true_iff in H1.
    destruct (memb (f a) (map f (filter g l))) eqn:M; [|reflexivity].
    apply memb_filter_map in M. congruence.
  - apply IH. exact H2.
Qed.

Lemma forallb_filter {A} (P g : A -> bool) : forall l, forallb P l = true -> forallb P (filter g l) = true.
Proof.
  intros l H. apply forallb_forall. intros x Hx. apply filter_In in Hx.
  rewrite forallb_forall in H. apply H. tauto.
Qed.

Theorem wf_data_delete d s : wf_data_b d = true -> wf_data_b (delete_excluded d s) = true.
Proof.
  unfold wf_data_b. intros H.
  peel H X10. peel H X9. peel H X8. peel H X7. peel H X6. peel H X5. peel H X4. peel H X3. peel H X2.
  change (d_nodes (delete_excluded d s)) with (d_nodes d).
  change (d_paths (delete_excluded d s)) with (d_paths d).
  change (d_lines (delete_excluded d s)) with (d_lines d).
  change (d_scenarios (delete_excluded d s)) with (d_scenarios d).
  change (d_fp (delete_excluded d s)) with (d_fp d).
  change (d_rfp (delete_excluded d s)) with (d_rfp d).
  change (d_trips (delete_excluded d s)) with (filter (trip_enabled d s) (d_trips d)).
  change (footpaths_ok (delete_excluded d s)) with (footpaths_ok d).
  rewrite H, X3, X4, X5, X6, X7, X8. cbn [andb].
  rewrite (nodup_nat_filter_map t_id (trip_enabled d s) (d_trips d) X2). cbn [andb].
  apply andb_true_intro. split; [exact X9|].
  apply (forallb_filter _ (trip_enabled d s) (d_trips d)). exact X10.
Qed.

(* wf_tables_b only reads the stop list *)
Lemma wf_tables_delete d s p acc egr :
  wf_tables_b (delete_excluded d s) p acc egr = wf_tables_b d p acc egr.
Proof. reflexivity. Qed.

(* --- the abstract relation between the two datasets -------------------------------------------- *)

(* d' agrees with d on everything a calculation over trips `trips` reads *)
Record agree (d d' : data) (trips : list nat) : Prop := {
  ag_nodes : d_nodes d' = d_nodes d;
  ag_fp : d_fp d' = d_fp d;
  ag_rfp : d_rfp d' = d_rfp d;
  ag_lines : d_lines d' = d_lines d;
  ag_paths : d_paths d' = d_paths d;
  ag_trip : forall t, memb t trips = true -> find_trip d' t = find_trip d t;
  ag_tfwd : forall t, memb t trips = true -> trip_fwd d' t = trip_fwd d t;
  ag_trev : forall t, memb t trips = true -> trip_rev d' t = trip_rev d t }.

Lemma filter_filter_trip (en : list nat) t : memb t en = true -> forall l : list conn,
  filter (fun c => Nat.eqb (c_trip c) t) (filter (fun c => memb (c_trip c) en) l) =
  filter (fun c => Nat.eqb (c_trip c) t) l.
Proof.
  intros M. induction l as [|c l IH]; [reflexivity|].
  cbn [filter]. destruct (Nat.eqb (c_trip c) t) eqn:E.
  - apply Nat.eqb_eq in E. rewrite E, M. cbn [filter]. rewrite E, Nat.eqb_refl. f_equal. exact IH.
  - destruct (memb (c_trip c) en); [|exact IH].
    cbn [filter]. rewrite E. exact IH.
Qed.

Lemma trip_fwd_cs d s t : memb t (enabled_trips d s) = true ->
  trip_fwd d t = filter (fun c => Nat.eqb (c_trip c) t) (cs_fwd (conn_set d s)).
Proof.
  intros M. unfold trip_fwd, conn_set, mk_connset. cbn [cs_fwd].
  symmetry. apply filter_filter_trip. exact M.
Qed.

Lemma trip_rev_cs d s t : memb t (enabled_trips d s) = true ->
  trip_rev d t = filter (fun c => Nat.eqb (c_trip c) t) (cs_rev (conn_set d s)).
Proof.
  intros M. unfold trip_rev, conn_set, mk_connset. cbn [cs_rev].
  symmetry. apply filter_filter_trip. exact M.
Qed.

Theorem agree_delete d s : nodup_nat (map t_id (d_trips d)) = true ->
  agree d (delete_excluded d s) (cs_trips (conn_set d s)).
Proof.
  intros Hnd. change (cs_trips (conn_set d s)) with (enabled_trips d s).
  constructor; try reflexivity.
  - intros t M. apply find_trip_delete; assumption.
  - intros t M. rewrite (trip_fwd_cs d s t M).
    rewrite (trip_fwd_cs (delete_excluded d s) (all_inclusive d s) t)
      by (rewrite enabled_trips_delete; exact M).
    rewrite <- (C11_conn_set_delete d s Hnd). reflexivity.
  - intros t M. rewrite (trip_rev_cs d s t M).
    rewrite (trip_rev_cs (delete_excluded d s) (all_inclusive d s) t)
      by (rewrite enabled_trips_delete; exact M).
    rewrite <- (C11_conn_set_delete d s Hnd). reflexivity.
Qed.

Section Agree.
  Variables (d d' : data) (trips : list nat).
  Hypothesis AG : agree d d' trips.

  Lemma ag_fp_of n : fp_of d' n = fp_of d n.
  Proof. unfold fp_of. rewrite (ag_fp _ _ _ AG). reflexivity. Qed.
  Lemma ag_rfp_of n : rfp_of d' n = rfp_of d n.
  Proof. unfold rfp_of. rewrite (ag_rfp _ _ _ AG). reflexivity. Qed.
  Lemma ag_find_path x : find_path d' x = find_path d x.
  Proof. unfold find_path. rewrite (ag_paths _ _ _ AG). reflexivity. Qed.
  Lemma ag_find_line x : find_line d' x = find_line d x.
  Proof. unfold find_line. rewrite (ag_lines _ _ _ AG). reflexivity. Qed.
  Lemma ag_trip_line tr : trip_line d' tr = trip_line d tr.
  Proof. unfold trip_line. rewrite ag_find_path. reflexivity. Qed.
  Lemma ag_trip_mode tr : trip_mode d' tr = trip_mode d tr.
  Proof. unfold trip_mode. rewrite ag_trip_line, ag_find_line. reflexivity. Qed.
  Lemma ag_trip_dists tr : trip_dists d' tr = trip_dists d tr.
  Proof. unfold trip_dists. rewrite ag_find_path. reflexivity. Qed.
  Lemma ag_rebuild_fuel : REBUILD_FUEL d' = REBUILD_FUEL d.
  Proof. unfold REBUILD_FUEL. rewrite (ag_nodes _ _ _ AG). reflexivity. Qed.

  Lemma ag_transferable t : memb t trips = true -> is_transferable_trip d' t = is_transferable_trip d t.
  Proof.
    intros M. unfold is_transferable_trip. rewrite (ag_trip _ _ _ AG t M).
    destruct (find_trip d t) as [tr|]; [|reflexivity]. rewrite ag_trip_mode. reflexivity.
  Qed.

  Lemma ag_dists_of t : memb t trips = true ->
    match find_trip d' t with Some tr => trip_dists d' tr | None => [] end =
    match find_trip d t with Some tr => trip_dists d tr | None => [] end.
  Proof.
    intros M. rewrite (ag_trip _ _ _ AG t M).
    destruct (find_trip d t) as [tr|]; [|reflexivity]. apply ag_trip_dists.
  Qed.

  (* the request's exceptLines filter is the same predicate on both datasets, pointwise on ALL trips *)
  Lemma ag_disabled p cs t : cs_trips cs = trips -> disabled_of d' p cs t = disabled_of d p cs t.
  Proof.
    intros E. unfold disabled_of. destruct (q_except_lines p) as [|x ex]; [reflexivity|].
    rewrite E. destruct (memb t trips) eqn:M; [|reflexivity]. cbn [andb].
    rewrite (ag_trip _ _ _ AG t M).
    destruct (find_trip d t) as [tr|]; [|reflexivity]. rewrite ag_trip_line. reflexivity.
  Qed.
End Agree.

(* ============================================================================================== *)
(* 2. congruence of the scans                                                                       *)

(* two calculators equal in every field but k_disabled, which is pointwise equal *)
Record kagree (k k' : calc) : Prop := {
  ka_dep : k_dep k' = k_dep k;
  ka_arr : k_arr k' = k_arr k;
  ka_minAcc : k_minAcc k' = k_minAcc k;
  ka_maxAcc : k_maxAcc k' = k_maxAcc k;
  ka_minEgr : k_minEgr k' = k_minEgr k;
  ka_maxEgr : k_maxEgr k' = k_maxEgr k;
  ka_accfp : k_accfp k' = k_accfp k;
  ka_egrfp : k_egrfp k' = k_egrfp k;
  ka_tau : k_tau k' = k_tau k;
  ka_taur : k_taur k' = k_taur k;
  ka_fsteps : k_fsteps k' = k_fsteps k;
  ka_rsteps : k_rsteps k' = k_rsteps k;
  ka_ov : k_ov k' = k_ov k;
  ka_set : k_set k' = k_set k;
  ka_dis : forall t, k_disabled k' t = k_disabled k t }.

Lemma kagree_mk_calc d d' p cs acc egr ho hd :
  agree d d' (cs_trips cs) ->
  kagree (mk_calc d p cs acc egr ho hd) (mk_calc d' p cs acc egr ho hd).
Proof.
  intros AG. constructor; try reflexivity.
  intros t. unfold mk_calc. cbn [k_disabled]. apply (ag_disabled d d' (cs_trips cs) AG). reflexivity.
Qed.

Lemma kagree_with_rev k k' arr dep taur ov :
  kagree k k' -> kagree (with_rev k arr dep taur ov) (with_rev k' arr dep taur ov).
Proof.
  intros KA. destruct KA. constructor; unfold with_rev;
    cbn [k_dep k_arr k_minAcc k_maxAcc k_minEgr k_maxEgr k_accfp k_egrfp k_tau k_taur k_fsteps k_rsteps
         k_ov k_set k_disabled]; try reflexivity; assumption.
Qed.

Transparent rev_step rev_fp_step.

Section Scans.
  Variables (d d' : data) (trips : list nat) (p : params) (k k' : calc).
  Hypothesis AG : agree d d' trips.
  Hypothesis KA : kagree k k'.

  Lemma fwd_step_congr a st c : fwd_step d' p k' a st c = fwd_step d p k a st c.
  Proof.
    unfold fwd_step.
    rewrite (ka_dep _ _ KA), (ka_minAcc _ _ KA), (ka_maxEgr _ _ KA), (ka_accfp _ _ KA), (ka_egrfp _ _ KA),
            (ka_dis _ _ KA), (ag_fp_of d d' trips AG).
    reflexivity.
  Qed.

  Lemma rev_step_congr a st c : rev_step d' p k' a st c = rev_step d p k a st c.
  Proof.
    unfold rev_step, rev_fp_step.
    rewrite (ka_dep _ _ KA), (ka_arr _ _ KA), (ka_minEgr _ _ KA), (ka_maxAcc _ _ KA), (ka_accfp _ _ KA),
            (ka_dis _ _ KA), (ag_rfp_of d d' trips AG).
    reflexivity.
  Qed.

  Lemma fwd_fold_congr a : forall l st,
    fold_left (fwd_step d' p k' a) l st = fold_left (fwd_step d p k a) l st.
  Proof.
    induction l as [|c l IH]; intros st; [reflexivity|].
    cbn [fold_left]. rewrite fwd_step_congr. apply IH.
  Qed.

  Lemma rev_fold_congr a : forall l st,
    fold_left (rev_step d' p k' a) l st = fold_left (rev_step d p k a) l st.
  Proof.
    induction l as [|c l IH]; intros st; [reflexivity|].
    cbn [fold_left]. rewrite rev_step_congr. apply IH.
  Qed.

  Lemma fwd_init_congr : fwd_init k' = fwd_init k.
  Proof. unfold fwd_init. rewrite (ka_tau _ _ KA), (ka_fsteps _ _ KA), (ka_ov _ _ KA). reflexivity. Qed.

  Lemma rev_init_congr : rev_init k' = rev_init k.
  Proof. unfold rev_init. rewrite (ka_taur _ _ KA), (ka_rsteps _ _ KA), (ka_ov _ _ KA). reflexivity. Qed.

  Theorem fwd_scan_congr a : fwd_scan d' p k' a = fwd_scan d p k a.
  Proof.
    unfold fwd_scan. rewrite (ka_set _ _ KA), (ka_dep _ _ KA), fwd_init_congr.
    destruct (fwd_entry (k_set k) (hour_of (k_dep k))) as [i|]; [|reflexivity].
    rewrite fwd_fold_congr. reflexivity.
  Qed.

  Theorem rev_scan_congr a : rev_scan d' p k' a = rev_scan d p k a.
  Proof.
    unfold rev_scan. rewrite (ka_set _ _ KA), (ka_arr _ _ KA), rev_init_congr.
    destruct (rev_entry (k_set k) (hour_of (k_arr k) + 1)) as [i|]; [|reflexivity].
    rewrite rev_fold_congr. reflexivity.
  Qed.

  Theorem best_egress_congr st : best_egress p k' st = best_egress p k st.
  Proof. unfold best_egress. rewrite (ka_egrfp _ _ KA), (ka_dep _ _ KA). reflexivity. Qed.

  Theorem best_access_congr st : best_access p k' st = best_access p k st.
  Proof. unfold best_access. rewrite (ka_accfp _ _ KA), (ka_arr _ _ KA). reflexivity. Qed.
End Scans.

(* ============================================================================================== *)
(* 3. every label, leg and journey only mentions trips of the connection set                        *)

Section Good.
  Variable trips : list nat.

  Definition jgood (j : jstep) : Prop :=
    (forall t, js_trip j = Some t -> memb t trips = true) /\
    (forall en, js_enter j = Some en -> memb (c_trip en) trips = true).

  Definition PS (steps : nat -> jstep) : Prop := forall n, jgood (steps n).
  Definition PA (acc : nat -> option jstep) : Prop := forall n j, acc n = Some j -> jgood j.
  Definition FO (ov : nat -> tqd) : Prop := forall t en, o_enter (ov t) = Some en -> memb (c_trip en) trips = true.
  Definition tgood (x : (nat -> Z) * (nat -> jstep) * (nat -> option jstep)) : Prop :=
    PS (snd (fst x)) /\ PA (snd x).

  Lemma jgood_default : jgood js_default.
  Proof. split; intros x H; discriminate. Qed.

  Lemma jgood_walk r : jgood (walk_step r).
  Proof. split; intros x H; discriminate. Qed.

  Lemma jgood_mk_js en ex t w sm dd :
    (forall b, en = Some b -> memb (c_trip b) trips = true) -> memb t trips = true ->
    jgood (mk_js en ex t w sm dd).
  Proof.
    intros Hen Ht. split; cbn [mk_js js_trip js_enter].
    - intros t' E. injection E as <-. exact Ht.
    - exact Hen.
  Qed.

  Lemma jgood_set_walk j w dd : jgood j -> jgood (set_walk j w dd).
  Proof. intros H. exact H. Qed.
  Lemma jgood_set_exit j c : jgood j -> jgood (set_exit j c).
  Proof. intros H. exact H. Qed.
  Lemma jgood_set_enter j c : jgood j -> memb (c_trip c) trips = true -> jgood (set_enter j c).
  Proof.
    intros [H1 H2] Hc. split; cbn [set_enter js_trip js_enter]; [exact H1|].
    intros en E. injection E as <-. exact Hc.
  Qed.

  Lemma PS_upd steps m j : PS steps -> jgood j -> PS (upd steps m j).
  Proof. intros H Hj n. unfold upd. destruct (Nat.eqb n m); [exact Hj|apply H]. Qed.

  Lemma PA_upd acc m j : PA acc -> jgood j -> PA (upd acc m (Some j)).
  Proof.
    intros H Hj n j'. unfold upd. destruct (Nat.eqb n m); [|apply H].
    intros E. injection E as <-. exact Hj.
  Qed.

  Lemma PS_seed rows : PS (seed_steps rows).
  Proof.
    unfold seed_steps.
    assert (G : forall l m, PS m -> PS (fold_left (fun m r => upd m (fp_node r) (walk_step r)) l m)).
    { induction l as [|r l IH]; intros m Hm; [exact Hm|].
      cbn [fold_left]. apply IH. apply PS_upd; [exact Hm|apply jgood_walk]. }
    apply G. intros n. apply jgood_default.
  Qed.

  Lemma PS_const_default : PS (fun _ => js_default).
  Proof. intros n. apply jgood_default. Qed.

  Lemma PA_none : PA (fun _ => None).
  Proof. intros n j H. discriminate. Qed.

  Lemma FO_default : FO (fun _ => tqd_default).
  Proof. intros t en H. discriminate. Qed.

  Lemma FO_set_usable ov : FO ov -> FO (set_usable ov).
  Proof. intros H t en E. unfold set_usable in E. cbn [o_enter] in E. apply (H t en E). Qed.

  (* --- forward ---------------------------------------------------------------------------------- *)

  Lemma fwd_fp_step_good p c enter x r :
    (forall b, enter = Some b -> memb (c_trip b) trips = true) -> memb (c_trip c) trips = true ->
    tgood x -> tgood (fwd_fp_step p c enter x r).
  Proof.
    intros Hen Hc. destruct x as [[tau steps] egr]. intros [HS HA]. cbn [fst snd] in HS, HA.
    assert (J : forall w sm dd, jgood (mk_js enter (Some c) (c_trip c) w sm dd))
      by (intros w sm dd; apply jgood_mk_js; assumption).
    unfold fwd_fp_step.
    destruct (negb (Nat.eqb (c_to c) (fp_node r)) && (tau (fp_node r) <? c_arr c)); [split; assumption|].
    destruct (fp_time r <=? q_maxtr p); [|split; assumption].
    destruct (fp_time r + c_arr c <? tau (fp_node r)).
    - destruct (Nat.eqb (c_to c) (fp_node r) &&
                match egr (fp_node r) with
                | Some j => match js_exit j with Some e => c_arr e >? c_arr c | None => false end
                | None => true
                end); split; cbn [fst snd];
        try (apply PS_upd; [exact HS|apply J]); try (apply PA_upd; [exact HA|apply J]); assumption.
    - destruct (Nat.eqb (c_to c) (fp_node r) &&
                match egr (fp_node r) with
                | Some j => match js_exit j with Some e => c_arr e >? c_arr c | None => false end
                | None => true
                end); split; cbn [fst snd];
        try (apply PA_upd; [exact HA|apply J]); assumption.
  Qed.

  Lemma fwd_fp_fold_good p c enter :
    (forall b, enter = Some b -> memb (c_trip b) trips = true) -> memb (c_trip c) trips = true ->
    forall rows x, tgood x -> tgood (fold_left (fwd_fp_step p c enter) rows x).
  Proof.
    intros Hen Hc. induction rows as [|r rows IH]; intros x Hx; [exact Hx|].
    cbn [fold_left]. apply IH. apply fwd_fp_step_good; assumption.
  Qed.

  Definition fgood (st : fstate) : Prop := PS (f_steps st) /\ PA (f_egr st) /\ FO (f_ov st).

  Lemma FO_upd ov t o : FO ov -> (forall en, o_enter o = Some en -> memb (c_trip en) trips = true) ->
    FO (upd ov t o).
  Proof. intros H Ho t' en. unfold upd. destruct (Nat.eqb t' t); [apply Ho|apply H]. Qed.

  Lemma fwd_step_good d p k a st c : memb (c_trip c) trips = true ->
    fgood st -> fgood (fwd_step d p k a st c).
  Proof.
    intros Hc Hst. pose proof Hst as (HS & HA & HO).
    unfold fwd_step.
    destruct (f_stop st); [exact Hst|].
    destruct (c_dep c >=? k_dep k + k_minAcc k); [|exact Hst].
    destruct (k_disabled k (c_trip c)); [exact Hst|].
    destruct ((negb a && f_reached st && (k_maxEgr k >=? 0) && (f_tent st <? MAX_INT)
               && (c_dep c >? f_tent st + k_maxEgr k)) || (c_dep c - k_dep k >? q_maxtt p));
      [exact Hst|].
    cbv zeta.
    destruct ((is_some (o_enter (f_ov st (c_trip c))) || (f_tau st (c_from c) <=? c_dep c - minw_eff p c))
              && (negb ((q_maxfw p >? 0) &&
                        match row_of (c_from c) (k_accfp k) with Some r => fp_time r >=? 0 | None => false end &&
                        negb (is_some (js_enter (f_steps st (c_from c)))))
                  || (c_dep c - f_tau st (c_from c) <=? q_maxfw p))); [|exact Hst].
    set (ov1 := if c_cb c && negb (is_some (o_enter (f_ov st (c_trip c))))
                then {| o_usable := true; o_enter := Some c; o_enter_w := js_walk (f_steps st (c_from c));
                        o_exit := o_exit (f_ov st (c_trip c)); o_exit_w := o_exit_w (f_ov st (c_trip c)) |}
                else f_ov st (c_trip c)).
    assert (Hov1 : forall en, o_enter ov1 = Some en -> memb (c_trip en) trips = true).
    { subst ov1. destruct (c_cb c && negb (is_some (o_enter (f_ov st (c_trip c))))).
      - cbn [o_enter]. intros en E. injection E as <-. exact Hc.
      - apply HO. }
    assert (HO1 : FO (upd (f_ov st) (c_trip c) ov1)) by (apply FO_upd; assumption).
    destruct (c_cu c && is_some (o_enter ov1)).
    - destruct (negb a && negb (f_reached st) &&
                match row_of (c_to c) (k_egrfp k) with Some r => negb (fp_time r =? -1) | None => false end).
      + pose proof (fwd_fp_fold_good p c (o_enter ov1) Hov1 Hc (fp_of d (c_to c))
                      (f_tau st, f_steps st, f_egr st) (conj HS HA)) as G.
        destruct (fold_left (fwd_fp_step p c (o_enter ov1)) (fp_of d (c_to c)) (f_tau st, f_steps st, f_egr st))
          as [[t1 s1] e1].
        destruct G as [G1 G2]. split; [exact G1|split; [exact G2|exact HO1]].
      + pose proof (fwd_fp_fold_good p c (o_enter ov1) Hov1 Hc (fp_of d (c_to c))
                      (f_tau st, f_steps st, f_egr st) (conj HS HA)) as G.
        destruct (fold_left (fwd_fp_step p c (o_enter ov1)) (fp_of d (c_to c)) (f_tau st, f_steps st, f_egr st))
          as [[t1 s1] e1].
        destruct G as [G1 G2]. split; [exact G1|split; [exact G2|exact HO1]].
    - split; [exact HS|split; [exact HA|exact HO1]].
  Qed.
End Good.

Section GoodRev.
  Variable trips : list nat.

  Lemma rev_fp_step_good p k c minw exitc x r :
    memb (c_trip c) trips = true -> tgood trips x -> tgood trips (rev_fp_step p k c minw exitc x r).
  Proof.
    intros Hc. destruct x as [[taur steps] acc]. intros [HS HA]. cbn [fst snd] in HS, HA.
    destruct (rev_fp_step_cases p k c minw exitc taur steps acc r) as (t' & s' & a' & E & H1 & H2).
    rewrite E. unfold tgood. cbn [fst snd].
    assert (J : forall w sm dd, jgood trips (mk_js (Some c) exitc (c_trip c) w sm dd)).
    { intros w sm dd. apply jgood_mk_js; [|exact Hc]. intros b Eb. injection Eb as <-. exact Hc. }
    split.
    - destruct H1 as [[_ ->]|(_ & _ & _ & ->)]; [exact HS|].
      apply PS_upd; [exact HS|apply J].
    - destruct H2 as [->|(_ & _ & _ & ->)]; [exact HA|].
      apply PA_upd; [exact HA|apply J].
  Qed.

  Lemma rev_fp_fold_good p k c minw exitc : memb (c_trip c) trips = true ->
    forall rows x, tgood trips x -> tgood trips (fold_left (rev_fp_step p k c minw exitc) rows x).
  Proof.
    intros Hc. induction rows as [|r rows IH]; intros x Hx; [exact Hx|].
    cbn [fold_left]. apply IH. apply rev_fp_step_good; assumption.
  Qed.

  Definition rgood (st : rstate) : Prop := PS trips (r_steps st) /\ PA trips (r_acc st).

  Lemma rev_step_good d p k a st c : memb (c_trip c) trips = true ->
    rgood st -> rgood (rev_step d p k a st c).
  Proof.
    intros Hc Hst. pose proof Hst as (HS & HA).
    unfold rev_step.
    destruct (r_stop st); [exact Hst|].
    destruct (c_arr c <=? k_arr k - (if a then 0 else k_minEgr k)); [|exact Hst].
    destruct (o_usable (r_ov st (c_trip c)) && negb (k_disabled k (c_trip c))); [|exact Hst].
    destruct ((negb a && r_reached st && (k_maxAcc k >=? 0) && (c_arr c <? r_tent st - k_maxAcc k))
              || (k_arr k - c_arr c >? q_maxtt p)); [exact Hst|].
    cbv zeta.
    destruct (is_some (o_exit (r_ov st (c_trip c))) || (r_taur st (c_to c) >=? c_arr c)); [|exact Hst].
    match goal with |- context [c_cb c && is_some (o_exit ?X)] => set (ov1 := X) end.
    destruct (c_cb c && is_some (o_exit ov1)); [|exact Hst].
    pose proof (rev_fp_fold_good p k c (minw_eff p c) (o_exit ov1) Hc (rfp_of d (c_from c))
                  (r_taur st, r_steps st, r_acc st) (conj HS HA)) as G.
    destruct (negb a && negb (r_reached st) &&
              match row_of (c_from c) (k_accfp k) with Some r => negb (fp_time r =? -1) | None => false end);
      destruct (fold_left (rev_fp_step p k c (minw_eff p c) (o_exit ov1)) (rfp_of d (c_from c))
                          (r_taur st, r_steps st, r_acc st)) as [[t1 s1] a1];
      exact G.
  Qed.

  Lemma rev_fold_good d p k a : forall l st,
    (forall c, In c l -> memb (c_trip c) trips = true) -> rgood st ->
    rgood (fold_left (rev_step d p k a) l st).
  Proof.
    induction l as [|c l IH]; intros st Hl Hst; [exact Hst|].
    cbn [fold_left]. apply IH; [intros c' Hc'; apply Hl; right; exact Hc'|].
    apply rev_step_good; [apply Hl; left; reflexivity|exact Hst].
  Qed.

  Lemma fwd_fold_good d p k a : forall l st,
    (forall c, In c l -> memb (c_trip c) trips = true) -> fgood trips st ->
    fgood trips (fold_left (fwd_step d p k a) l st).
  Proof.
    induction l as [|c l IH]; intros st Hl Hst; [exact Hst|].
    cbn [fold_left]. apply IH; [intros c' Hc'; apply Hl; right; exact Hc'|].
    apply fwd_step_good; [apply Hl; left; reflexivity|exact Hst].
  Qed.

  Theorem rev_scan_good d p k a st :
    (forall c, In c (cs_rev (k_set k)) -> memb (c_trip c) trips = true) ->
    PS trips (k_rsteps k) -> rev_scan d p k a = Ok st -> rgood st.
  Proof.
    intros Hl Hk. unfold rev_scan.
    destruct (rev_entry (k_set k) (hour_of (k_arr k) + 1)) as [i|]; [|discriminate].
    intros E. injection E as <-. apply rev_fold_good.
    - intros c Hc. apply Hl. apply (in_skipn c i _ Hc).
    - split; [exact Hk|apply PA_none].
  Qed.

  Theorem fwd_scan_good d p k a st :
    (forall c, In c (cs_fwd (k_set k)) -> memb (c_trip c) trips = true) ->
    PS trips (k_fsteps k) -> FO trips (k_ov k) -> fwd_scan d p k a = Ok st -> fgood trips st.
  Proof.
    intros Hl Hk Ho. unfold fwd_scan.
    destruct (fwd_entry (k_set k) (hour_of (k_dep k))) as [i|]; [|discriminate].
    intros E. injection E as <-. apply fwd_fold_good.
    - intros c Hc. apply Hl. apply (in_skipn c i _ Hc).
    - split; [exact Hk|split; [apply PA_none|exact Ho]].
  Qed.

  (* --- rebuild ---------------------------------------------------------------------------------- *)

  Lemma Forall_set_last_walk : forall l w dd, Forall (jgood trips) l -> Forall (jgood trips) (set_last_walk l w dd).
  Proof.
    induction l as [|x l IH]; intros w dd H; [constructor|].
    inversion H as [|x' l' Hx Hl]; subst.
    destruct l as [|y l'].
    - cbn [set_last_walk]. constructor; [apply jgood_set_walk; exact Hx|constructor].
    - change (set_last_walk (x :: y :: l') w dd) with (x :: set_last_walk (y :: l') w dd).
      constructor; [exact Hx|apply IH; exact Hl].
  Qed.

  Lemma rebuild_good steps : PS trips steps -> forall fuel cur acc last legs last',
    jgood trips cur -> Forall (jgood trips) acc ->
    rebuild fuel steps cur acc last = Some (legs, last') -> Forall (jgood trips) legs.
  Proof.
    intros HS. induction fuel as [|f IH]; intros cur acc last legs last' Hcur Hacc H.
    - cbn [rebuild] in H. destruct (js_enter cur); [destruct (js_exit cur)|];
        try discriminate; injection H as <- _; exact Hacc.
    - cbn [rebuild] in H. destruct (js_enter cur) as [b|]; [destruct (js_exit cur) as [e|]|].
      + apply IH in H; [exact H|apply HS|].
        apply Forall_app. split; [|constructor; [exact Hcur|constructor]].
        destruct acc as [|a0 acc0]; [constructor|]. apply Forall_set_last_walk. exact Hacc.
      + injection H as <- _. exact Hacc.
      + injection H as <- _. exact Hacc.
  Qed.
End GoodRev.

(* ============================================================================================== *)
(* 4. optimize / emit on journeys over the connection set's trips                                   *)

Lemma Forall_set_nth {A} (P : A -> Prop) (f : A -> A) : (forall x, P x -> P (f x)) ->
  forall l i, Forall P l -> Forall P (set_nth l i f).
Proof.
  intros Hf. induction l as [|x l IH]; intros i H; [destruct i; constructor|].
  inversion H as [|x' l' Hx Hl]; subst.
  destruct i as [|i]; cbn [set_nth]; constructor; auto.
Qed.

Lemma Forall_firstn {A} (P : A -> Prop) : forall n l, Forall P l -> Forall P (firstn n l).
Proof.
  induction n as [|n IH]; intros l H; [constructor|].
  destruct l as [|x l]; [constructor|]. inversion H; subst. cbn [firstn]. constructor; auto.
Qed.

Lemma Forall_skipn {A} (P : A -> Prop) : forall n l, Forall P l -> Forall P (skipn n l).
Proof.
  induction n as [|n IH]; intros l H; [exact H|].
  destruct l as [|x l]; [constructor|]. inversion H; subst. cbn [skipn]. auto.
Qed.

Lemma Forall_erase_range {A} (P : A -> Prop) l a b : Forall P l -> Forall P (erase_range l a b).
Proof.
  intros H. unfold erase_range. apply Forall_app. split; [apply Forall_firstn|apply Forall_skipn]; exact H.
Qed.

Lemma fold_left_ext_Forall {A B} (P : B -> Prop) (f g : A -> B -> A) :
  (forall a x, P x -> f a x = g a x) -> forall l a, Forall P l -> fold_left f l a = fold_left g l a.
Proof.
  intros H. induction l as [|x l IH]; intros a Hl; [reflexivity|].
  inversion Hl as [|x' l' Hx Hl']; subst. cbn [fold_left]. rewrite (H a x Hx). apply IH. exact Hl'.
Qed.

Lemma rev_range_sub : forall tr sz cnt e r c, rev_range tr sz e cnt = Some r -> In c r -> In c tr.
Proof.
  intros tr sz cnt e r c H Hc. destruct (rev_range_in tr sz cnt e r c H Hc) as (k & _ & Hn).
  apply (nth_error_In _ _ Hn).
Qed.

Lemma leg_range_trip d j rng c : leg_range d j = Some rng -> In c rng ->
  exists t, js_trip j = Some t /\ c_trip c = t.
Proof.
  unfold leg_range. destruct (js_trip j) as [t|]; [|discriminate].
  destruct (js_enter j) as [en|]; [|discriminate]. destruct (js_exit j) as [ex|]; [|discriminate].
  cbv zeta. destruct (Nat.ltb (c_seq ex - 1) (c_seq en - 1)).
  - intros E. injection E as <-. intros [].
  - intros E Hc. exists t. split; [reflexivity|].
    apply (rev_range_sub _ _ _ _ _ c E) in Hc. unfold trip_rev in Hc. apply filter_In in Hc.
    destruct Hc as [_ Hc]. apply Nat.eqb_eq in Hc. exact Hc.
Qed.

(* fuel monotonicity for every result that is not a hang *)
Theorem optimize_fuel_mono_gen : forall f1 f2 d js used ign,
  (f1 <= f2)%nat -> optimize f1 d js used ign <> OptHang ->
  optimize f2 d js used ign = optimize f1 d js used ign.
Proof.
  induction f1 as [|f1 IH]; intros f2 d js used ign Hle H; [exfalso; apply H; reflexivity|].
  destruct f2 as [|f2]; [lia|].
  assert (Hle' : (f1 <= f2)%nat) by lia.
  cbn [optimize] in H |- *.
  destruct (detect d ign js 0 []) as [[[[[cs X] i] j]|]|]; [|reflexivity|reflexivity].
  destruct (Nat.eqb cs 1).
  { destruct (leg_range d (nth_js js i)) as [rng|]; [|reflexivity].
    destruct (find (fun c => Nat.eqb X (c_to c)) rng) as [c|]; [|apply (IH _ _ _ _ _ Hle' H)].
    destruct (negb (c_cu c)); apply (IH _ _ _ _ _ Hle' H). }
  destruct (Nat.eqb cs 2); [reflexivity|].
  destruct (Nat.eqb cs 3).
  { destruct (leg_range d (nth_js js i)) as [rng|]; [|reflexivity].
    destruct (find (fun c => Nat.eqb X (c_to c)) rng) as [c|]; [|apply (IH _ _ _ _ _ Hle' H)].
    destruct (negb (c_cu c)); apply (IH _ _ _ _ _ Hle' H). }
  destruct (leg_range d (nth_js js i)) as [rf|]; [|reflexivity].
  destruct (leg_range d (nth_js js j)) as [rt|]; [|reflexivity].
  cbv zeta in H |- *.
  destruct (css_second X (css_first X rf None) rt js i j used ign) as [[js1 used1] ign1].
  apply (IH _ _ _ _ _ Hle' H).
Qed.

Section Opt.
  Variables (d d' : data) (trips : list nat).
  Hypothesis AG : agree d d' trips.

  Lemma leg_summary_congr j : jgood trips j -> leg_summary d' j = leg_summary d j.
  Proof.
    intros [H1 _]. unfold leg_summary. destruct (js_trip j) as [t|]; [|reflexivity].
    rewrite (ag_tfwd _ _ _ AG t (H1 t eq_refl)). reflexivity.
  Qed.

  Lemma leg_range_congr j : jgood trips j -> leg_range d' j = leg_range d j.
  Proof.
    intros [H1 _]. unfold leg_range. destruct (js_trip j) as [t|]; [|reflexivity].
    rewrite (ag_trev _ _ _ AG t (H1 t eq_refl)). reflexivity.
  Qed.

  Lemma jgood_nth js i : Forall (jgood trips) js -> jgood trips (nth_js js i).
  Proof.
    intros H. unfold nth_js. revert i. induction H as [|x l Hx Hl IH]; intros i.
    - destruct i; apply jgood_default.
    - destruct i as [|i]; [exact Hx|apply IH].
  Qed.

  Lemma detect_congr ign : forall js idx prev, Forall (jgood trips) js ->
    detect d' ign js idx prev = detect d ign js idx prev.
  Proof.
    induction js as [|j js IH]; intros idx prev H; [reflexivity|].
    inversion H as [|j' js' Hj Hjs]; subst. cbn [detect].
    rewrite (leg_summary_congr j Hj).
    destruct (leg_summary d j) as [[sj|]|]; [|apply IH; exact Hjs|reflexivity].
    destruct (detect_inner ign prev 0 sj) as [[[cs n] i]|]; [reflexivity|apply IH; exact Hjs].
  Qed.

  (* the connections a rewrite installs come from the range of a leg of the journey *)
  Lemma leg_range_good js i rng c : Forall (jgood trips) js -> leg_range d (nth_js js i) = Some rng ->
    In c rng -> memb (c_trip c) trips = true.
  Proof.
    intros H E Hc. destruct (leg_range_trip d _ rng c E Hc) as (t & Ht & <-).
    apply (proj1 (jgood_nth js i H) _ Ht).
  Qed.

  Lemma good_shorten js i a b (f : jstep -> jstep) : (forall j, jgood trips j -> jgood trips (f j)) ->
    Forall (jgood trips) js -> Forall (jgood trips) (erase_range (set_nth js i f) a b).
  Proof. intros Hf H. apply Forall_erase_range. apply Forall_set_nth; assumption. Qed.

  Lemma good_css node exitc rng js from to used ign :
    Forall (jgood trips) js -> (forall c, In c rng -> memb (c_trip c) trips = true) ->
    Forall (jgood trips) (fst (fst (css_second node exitc rng js from to used ign))).
  Proof.
    intros H Hr.
    destruct (css_second node exitc rng js from to used ign) as [[js1 used1] ign1] eqn:E. cbn [fst].
    destruct (css_second_spec _ _ _ _ _ _ _ _ _ _ _ E) as [->|(ex & c & _ & Hin & _ & _ & ->)]; [exact H|].
    apply Forall_erase_range. apply Forall_set_nth.
    - intros j Hj. apply jgood_set_enter; [exact Hj|apply Hr; exact Hin].
    - apply Forall_set_nth; [|exact H]. intros j Hj. exact Hj.
  Qed.

  Theorem optimize_congr : forall f js used ign, Forall (jgood trips) js ->
    optimize f d' js used ign = optimize f d js used ign.
  Proof.
    induction f as [|f IH]; intros js used ign H; [reflexivity|].
    cbn [optimize]. rewrite (detect_congr ign js 0%nat [] H).
    destruct (detect d ign js 0 []) as [[[[[cs X] i] j]|]|]; [|reflexivity|reflexivity].
    rewrite !(leg_range_congr _ (jgood_nth js i H)), !(leg_range_congr _ (jgood_nth js j H)).
    destruct (Nat.eqb cs 1).
    { destruct (leg_range d (nth_js js i)) as [rng|]; [|reflexivity].
      destruct (find (fun c => Nat.eqb X (c_to c)) rng) as [c|]; [|apply IH; exact H].
      destruct (negb (c_cu c)); [apply IH; exact H|].
      cbv zeta. apply IH. apply good_shorten; [|exact H]. intros j0 Hj0. exact Hj0. }
    destruct (Nat.eqb cs 2); [reflexivity|].
    destruct (Nat.eqb cs 3).
    { destruct (leg_range d (nth_js js i)) as [rng|]; [|reflexivity].
      destruct (find (fun c => Nat.eqb X (c_to c)) rng) as [c|]; [|apply IH; exact H].
      destruct (negb (c_cu c)); [apply IH; exact H|].
      apply IH. apply good_shorten; [|exact H]. intros j0 Hj0. exact Hj0. }
    destruct (leg_range d (nth_js js i)) as [rf|]; [|reflexivity].
    destruct (leg_range d (nth_js js j)) as [rt|] eqn:Ert; [|reflexivity].
    cbv zeta.
    pose proof (good_css X (css_first X rf None) rt js i j used ign H
                  (fun c Hc => leg_range_good js j rt c H Ert Hc)) as G.
    destruct (css_second X (css_first X rf None) rt js i j used ign) as [[js1 used1] ign1].
    cbn [fst] in G. apply IH. exact G.
  Qed.

  Theorem optimize_good : forall f js used ign js1 used1, Forall (jgood trips) js ->
    optimize f d js used ign = OptDone js1 used1 -> Forall (jgood trips) js1.
  Proof.
    induction f as [|f IH]; intros js used ign js1 used1 H E; [discriminate|].
    cbn [optimize] in E.
    destruct (detect d ign js 0 []) as [[[[[cs X] i] j]|]|]; [|injection E as <- _; exact H|discriminate].
    destruct (Nat.eqb cs 1).
    { destruct (leg_range d (nth_js js i)) as [rng|]; [|discriminate].
      destruct (find (fun c => Nat.eqb X (c_to c)) rng) as [c|]; [|apply (IH _ _ _ _ _ H E)].
      destruct (negb (c_cu c)); [apply (IH _ _ _ _ _ H E)|].
      cbv zeta in E. apply IH in E; [exact E|]. apply good_shorten; [|exact H]. intros j0 Hj0. exact Hj0. }
    destruct (Nat.eqb cs 2).
    { destruct (leg_range d (nth_js js j)) as [rng|] eqn:Er; [|discriminate].
      destruct (find (fun c => Nat.eqb X (c_from c)) rng) as [c|] eqn:Ef; [|injection E as <- _; exact H].
      destruct (negb (c_cb c)); [injection E as <- _; exact H|].
      injection E as <- _. apply Forall_erase_range. apply Forall_set_nth; [intros j0 Hj0; exact Hj0|].
      apply Forall_set_nth; [|exact H]. intros j0 Hj0. apply jgood_set_enter; [exact Hj0|].
      apply find_some in Ef. apply (leg_range_good js j rng c H Er (proj1 Ef)). }
    destruct (Nat.eqb cs 3).
    { destruct (leg_range d (nth_js js i)) as [rng|]; [|discriminate].
      destruct (find (fun c => Nat.eqb X (c_to c)) rng) as [c|]; [|apply (IH _ _ _ _ _ H E)].
      destruct (negb (c_cu c)); [apply (IH _ _ _ _ _ H E)|].
      apply IH in E; [exact E|]. apply good_shorten; [|exact H]. intros j0 Hj0. exact Hj0. }
    destruct (leg_range d (nth_js js i)) as [rf|]; [|discriminate].
    destruct (leg_range d (nth_js js j)) as [rt|] eqn:Ert; [|discriminate].
    cbv zeta in E.
    pose proof (good_css X (css_first X rf None) rt js i j used ign H
                  (fun c Hc => leg_range_good js j rt c H Ert Hc)) as G.
    destruct (css_second X (css_first X rf None) rt js i j used ign) as [[js2 used2] ign2].
    cbn [fst] in G. apply (IH _ _ _ _ _ G E).
  Qed.
End Opt.

Section Emit.
  Variables (d d' : data) (trips : list nat).
  Hypothesis AG : agree d d' trips.

  Lemma emit_step_congr p bd count st i j nxt : jgood trips j ->
    emit_step d' p bd count st i j nxt = emit_step d p bd count st i j nxt.
  Proof.
    intros [H1 H2]. unfold emit_step.
    destruct (js_enter j) as [en|]; [|reflexivity].
    destruct (js_exit j) as [ex|]; [|reflexivity].
    assert (M : memb (match js_trip j with Some t => t | None => c_trip en end) trips = true).
    { destruct (js_trip j) as [t|]; [apply H1; reflexivity|apply H2; reflexivity]. }
    cbv zeta.
    rewrite !(ag_transferable d d' trips AG _ M), !(ag_dists_of d d' trips AG _ M).
    reflexivity.
  Qed.

  Lemma emit_loop_congr p bd count : forall js st i, Forall (jgood trips) js ->
    emit_loop d' p bd count st i js = emit_loop d p bd count st i js.
  Proof.
    induction js as [|j js IH]; intros st i H; [reflexivity|].
    inversion H as [|j' js' Hj Hjs]; subst. cbn [emit_loop].
    rewrite (emit_step_congr p bd count st i j (hd_error js) Hj). apply IH. exact Hjs.
  Qed.

  Theorem emit_congr p bd js : Forall (jgood trips) js -> emit d' p bd js = emit d p bd js.
  Proof. intros H. unfold emit. rewrite (emit_loop_congr p bd (length js) js emit_init 0%nat H). reflexivity. Qed.

  Theorem count_legs_congr js : Forall (jgood trips) js -> count_legs d' js = count_legs d js.
  Proof.
    intros H. unfold count_legs. apply (fold_left_ext_Forall (jgood trips)); [|exact H].
    intros n j [H1 _]. destruct (js_enter j); [|reflexivity]. destruct (js_exit j); [|reflexivity].
    destruct (js_trip j) as [t|]; [|reflexivity].
    rewrite (ag_transferable d d' trips AG t (H1 t eq_refl)). reflexivity.
  Qed.

  Theorem count_transfers_fwd_congr steps : PS trips steps -> forall fuel cur n, jgood trips cur ->
    count_transfers_fwd fuel d' steps cur n = count_transfers_fwd fuel d steps cur n.
  Proof.
    intros HS. induction fuel as [|f IH]; intros cur n [H1 H2]; [reflexivity|].
    cbn [count_transfers_fwd].
    destruct (js_enter cur) as [en|]; [|reflexivity]. destruct (js_exit cur) as [ex|]; [|reflexivity].
    assert (M : memb (match js_trip cur with Some t => t | None => c_trip en end) trips = true).
    { destruct (js_trip cur) as [t|]; [apply H1; reflexivity|apply H2; reflexivity]. }
    rewrite (ag_transferable d d' trips AG _ M). apply IH. apply HS.
  Qed.

  (* boarding steps of an emitted route name trips of the journey *)
  Definition sgood (s : step) : Prop :=
    match s with SBoard t _ _ _ _ _ => memb t trips = true | _ => True end.

  Lemma emit_step_sgood p bd count st i j nxt : jgood trips j ->
    Forall sgood (e_steps st) -> Forall sgood (e_steps (emit_step d p bd count st i j nxt)).
  Proof.
    intros [H1 H2] Hst. unfold emit_step.
    destruct (js_enter j) as [en|].
    - destruct (js_exit j) as [ex|].
      + assert (M : memb (match js_trip j with Some t => t | None => c_trip en end) trips = true).
        { destruct (js_trip j) as [t|]; [apply H1; reflexivity|apply H2; reflexivity]. }
        cbv zeta. destruct (Nat.ltb (S (S i)) count); cbn [e_steps].
        * apply Forall_app. split; [|constructor; [exact I|constructor]].
          apply Forall_app. split; [exact Hst|]. constructor; [exact M|]. constructor; [exact I|constructor].
        * apply Forall_app. split; [exact Hst|]. constructor; [exact M|]. constructor; [exact I|constructor].
      + cbv zeta. destruct (Nat.eqb i 0); cbn [e_steps];
          (apply Forall_app; split; [exact Hst|constructor; [exact I|constructor]]).
    - cbv zeta. destruct (Nat.eqb i 0); cbn [e_steps];
        (apply Forall_app; split; [exact Hst|constructor; [exact I|constructor]]).
  Qed.

  Lemma emit_loop_sgood p bd count : forall js st i, Forall (jgood trips) js ->
    Forall sgood (e_steps st) -> Forall sgood (e_steps (emit_loop d p bd count st i js)).
  Proof.
    induction js as [|j js IH]; intros st i H Hst; [exact Hst|].
    inversion H as [|j' js' Hj Hjs]; subst. cbn [emit_loop].
    apply IH; [exact Hjs|]. apply emit_step_sgood; assumption.
  Qed.

  Theorem emit_sgood p bd js : Forall (jgood trips) js -> Forall sgood (rt_steps (emit d p bd js)).
  Proof.
    intros H. unfold emit. cbn [rt_steps]. apply emit_loop_sgood; [exact H|constructor].
  Qed.

  Theorem route_lines_congr r : Forall sgood (rt_steps r) -> route_lines d' r = route_lines d r.
  Proof.
    unfold route_lines. induction (rt_steps r) as [|s l IH]; intros H; [reflexivity|].
    inversion H as [|s' l' Hs Hl]; subst. cbn [flat_map]. rewrite (IH Hl). f_equal.
    destruct s as [| t a b n dep w |]; [reflexivity| |reflexivity].
    cbn [sgood] in Hs. rewrite (ag_trip _ _ _ AG t Hs).
    destruct (find_trip d t) as [tr|]; [|reflexivity]. rewrite (ag_trip_line d d' trips AG). reflexivity.
  Qed.
End Emit.

(* ============================================================================================== *)
(* 5. the calculations                                                                              *)

Section Calc.
  Variables (d d' : data) (cs : connset).
  Hypothesis AG : agree d d' (cs_trips cs).
  Hypothesis Hrev : forall c, In c (cs_rev cs) -> memb (c_trip c) (cs_trips cs) = true.
  Hypothesis Hfwd : forall c, In c (cs_fwd cs) -> memb (c_trip c) (cs_trips cs) = true.
  Hypothesis Hfuel : (OPT_FUEL d' <= OPT_FUEL d)%nat.

  Let good := jgood (cs_trips cs).

  (* the rewrite loop: the smaller dataset has less fuel; unless it runs out there, both sides agree *)
  Lemma optimize_pair js : Forall good js ->
    optimize (OPT_FUEL d') d' js [] [] <> OptHang ->
    optimize (OPT_FUEL d) d js [] [] = optimize (OPT_FUEL d') d' js [] [].
  Proof.
    intros H NH. rewrite <- (optimize_congr d d' (cs_trips cs) AG (OPT_FUEL d) js [] [] H).
    apply optimize_fuel_mono_gen; assumption.
  Qed.

  Lemma rev_journey_congr p k k' st best :
    kagree k k' -> rgood (cs_trips cs) st ->
    rev_journey d' p k' st best <> Hang ->
    rev_journey d p k st best = rev_journey d' p k' st best.
  Proof.
    intros KA [HS HA] NH. unfold rev_journey in *.
    destruct best as [[bestdep node]|]; [|reflexivity].
    destruct (r_acc st node) as [start|] eqn:Est; [|reflexivity].
    rewrite (ag_rebuild_fuel d d' _ AG) in *.
    destruct (rebuild (REBUILD_FUEL d) (r_steps st) start [] None) as [[legs last]|] eqn:Ereb; [|reflexivity].
    rewrite (ka_accfp _ _ KA), (ka_egrfp _ _ KA) in *.
    destruct (row_of node (k_accfp k)) as [ar|]; [|reflexivity].
    destruct last as [ln|]; [|reflexivity].
    destruct (row_of ln (k_egrfp k)) as [er|]; [|reflexivity].
    assert (Hlegs : Forall good legs).
    { apply (rebuild_good (cs_trips cs) (r_steps st) HS _ _ _ _ _ _ (HA node start Est) (Forall_nil _) Ereb). }
    assert (Hjs : Forall good (walk_step ar :: legs ++ [walk_step er])).
    { constructor; [apply jgood_walk|]. apply Forall_app. split; [exact Hlegs|].
      constructor; [apply jgood_walk|constructor]. }
    rewrite (optimize_pair _ Hjs).
    - destruct (optimize (OPT_FUEL d') d' (walk_step ar :: legs ++ [walk_step er]) [] []) as [js1 used| |] eqn:Eo;
        [|reflexivity|reflexivity].
      rewrite (emit_congr d d' (cs_trips cs) AG p bestdep js1); [reflexivity|].
      apply (optimize_good d' (cs_trips cs) _ _ _ _ _ _ Hjs Eo).
    - intros Eo. rewrite Eo in NH. apply NH. reflexivity.
  Qed.

  Lemma calc_reverse_congr p k k' :
    kagree k k' -> k_set k = cs -> PS (cs_trips cs) (k_rsteps k) ->
    calc_reverse d' p k' <> Hang -> calc_reverse d p k = calc_reverse d' p k'.
  Proof.
    intros KA Eset Hk NH. unfold calc_reverse in *.
    rewrite (rev_scan_congr d d' (cs_trips cs) p k k' AG KA false) in *.
    destruct (rev_scan d p k false) as [st| | | | | | | |] eqn:Escan; try reflexivity.
    cbn [bind] in *.
    destruct (r_count st =? 0); [reflexivity|].
    rewrite (best_access_congr p k k' KA st) in *.
    apply rev_journey_congr; [exact KA| |exact NH].
    apply (rev_scan_good (cs_trips cs) d p k false st); [rewrite Eset; exact Hrev|exact Hk|exact Escan].
  Qed.

  Theorem calc_single_congr p acc egr fresh :
    calc_single d' cs p acc egr fresh <> Hang ->
    calc_single d cs p acc egr fresh = calc_single d' cs p acc egr fresh.
  Proof.
    intros NH. unfold calc_single in *.
    destruct (access_reason (negb fresh || nonempty acc) (negb fresh || nonempty egr)); [reflexivity|].
    cbv zeta in *.
    pose proof (kagree_mk_calc d d' p cs acc egr true true AG) as KA.
    set (k := mk_calc d p cs acc egr true true) in *.
    set (k' := mk_calc d' p cs acc egr true true) in *.
    assert (Hk : PS (cs_trips cs) (k_rsteps k)) by (apply PS_seed).
    rewrite (ka_dep _ _ KA), (ka_arr _ _ KA), (ka_egrfp _ _ KA), (ka_taur _ _ KA), (ka_ov _ _ KA) in *.
    destruct ((k_dep k >? -1) && q_fwd p).
    - rewrite (fwd_scan_congr d d' (cs_trips cs) p k k' AG KA false) in *.
      destruct (fwd_scan d p k false) as [fs| | | | | | | |]; try reflexivity.
      cbn [bind] in *.
      destruct (f_count fs =? 0); [reflexivity|].
      rewrite (best_egress_congr p k k' KA fs) in *.
      destruct (best_egress p k fs) as [[best n0]|]; [|reflexivity].
      apply calc_reverse_congr; [apply kagree_with_rev; exact KA|reflexivity|exact Hk|exact NH].
    - destruct (k_arr k >? -1); [|reflexivity].
      apply calc_reverse_congr; [apply kagree_with_rev; exact KA|reflexivity|exact Hk|exact NH].
  Qed.
End Calc.

(* --- instantiation: d' = delete_excluded d s --------------------------------------------------- *)

Lemma filter_length_le {A} (f : A -> bool) : forall l, (length (filter f l) <= length l)%nat.
Proof.
  induction l as [|x l IH]; [apply le_n|]. cbn [filter]. destruct (f x); cbn [length]; lia.
Qed.

Lemma all_conns_delete_le d s : nodup_nat (map t_id (d_trips d)) = true ->
  (length (all_conns (delete_excluded d s)) <= length (all_conns d))%nat.
Proof.
  intros Hnd. rewrite <- (filter_enabled_all_conns d s Hnd). apply filter_length_le.
Qed.

Lemma OPT_FUEL_delete_le d s : nodup_nat (map t_id (d_trips d)) = true ->
  (OPT_FUEL (delete_excluded d s) <= OPT_FUEL d)%nat.
Proof.
  intros Hnd. unfold OPT_FUEL. change (d_nodes (delete_excluded d s)) with (d_nodes d).
  pose proof (all_conns_delete_le d s Hnd) as H.
  apply Nat.add_le_mono_r. apply Nat.mul_le_mono_l. lia.
Qed.

Lemma cs_fwd_trips d s c : In c (cs_fwd (conn_set d s)) -> memb (c_trip c) (cs_trips (conn_set d s)) = true.
Proof.
  unfold conn_set, mk_connset. cbn [cs_fwd cs_trips]. intros H. apply filter_In in H. exact (proj2 H).
Qed.

Lemma cs_rev_trips d s c : In c (cs_rev (conn_set d s)) -> memb (c_trip c) (cs_trips (conn_set d s)) = true.
Proof.
  unfold conn_set, mk_connset. cbn [cs_rev cs_trips]. intros H. apply filter_In in H. exact (proj2 H).
Qed.

Lemma answers_not_hang {A} (o : outcome A) : answers o -> o <> Hang.
Proof. intros [[x ->]|[r ->]]; discriminate. Qed.

(* C11 for /v2/route without alternatives (and for every recalculation of the alternatives loop):
   status, reason, the whole route record (times, totals, steps) and the list of rewrites are EQUAL *)
Theorem C11_calc_single : forall d s p acc egr fresh,
  wf_data_b d = true -> wf_tables_b d p acc egr = true -> wf_params_b p = true ->
  calc_single d (conn_set d s) p acc egr fresh =
  calc_single (delete_excluded d s) (conn_set (delete_excluded d s) (all_inclusive d s)) p acc egr fresh.
Proof.
  intros d s p acc egr fresh Hwf Htab Hp.
  pose proof (wf_nodup_trips d Hwf) as Hnd.
  pose proof (calc_single_answers (delete_excluded d s) (all_inclusive d s) p acc egr fresh
                (wf_data_delete d s Hwf) Htab Hp) as Hans.
  rewrite <- (C11_conn_set_delete d s Hnd) in Hans |- *.
  apply (calc_single_congr d (delete_excluded d s) (conn_set d s)).
  - apply agree_delete. exact Hnd.
  - apply cs_rev_trips.
  - apply OPT_FUEL_delete_le. exact Hnd.
  - apply answers_not_hang. exact Hans.
Qed.
Print Assumptions C11_calc_single.

(* --- accessibility maps ------------------------------------------------------------------------ *)

Section CalcAll.
  Variables (d d' : data) (cs : connset).
  Hypothesis AG : agree d d' (cs_trips cs).
  Hypothesis Hrev : forall c, In c (cs_rev cs) -> memb (c_trip c) (cs_trips cs) = true.
  Hypothesis Hfwd : forall c, In c (cs_fwd cs) -> memb (c_trip c) (cs_trips cs) = true.
  Hypothesis Hfuel : (OPT_FUEL d' <= OPT_FUEL d)%nat.

  Lemma fwd_allnodes_loop_congr p k k' fs : kagree k k' -> fgood (cs_trips cs) fs ->
    forall nodes, fwd_allnodes_loop d' p k' fs nodes = fwd_allnodes_loop d p k fs nodes.
  Proof.
    intros KA (HS & HA & _). induction nodes as [|n r IH]; [reflexivity|].
    cbn [fwd_allnodes_loop]. rewrite IH.
    destruct (f_egr fs n) as [j|] eqn:Ej; [|reflexivity].
    rewrite (ag_rebuild_fuel d d' _ AG).
    rewrite (count_transfers_fwd_congr d d' (cs_trips cs) AG (f_steps fs) HS _ j (-1) (HA n j Ej)).
    rewrite (ka_dep _ _ KA). reflexivity.
  Qed.

  Lemma rev_allnodes_loop_congr p k k' st : kagree k k' -> rgood (cs_trips cs) st ->
    forall nodes, rev_allnodes_loop d' p k' st nodes <> Hang ->
    rev_allnodes_loop d p k st nodes = rev_allnodes_loop d' p k' st nodes.
  Proof.
    intros KA [HS HA]. induction nodes as [|n r IH]; intros NH; [reflexivity|].
    cbn [rev_allnodes_loop] in *.
    destruct (r_acc st n) as [start|] eqn:Est; [|apply IH; exact NH].
    rewrite (ag_rebuild_fuel d d' _ AG) in *.
    destruct (rebuild (REBUILD_FUEL d) (r_steps st) start [] None) as [[legs last]|] eqn:Ereb; [|reflexivity].
    destruct last as [ln|]; [|reflexivity].
    rewrite (ka_egrfp _ _ KA), (ka_arr _ _ KA) in *.
    destruct (row_of ln (k_egrfp k)) as [er|]; [|reflexivity].
    assert (Hlegs : Forall (jgood (cs_trips cs)) legs).
    { apply (rebuild_good (cs_trips cs) (r_steps st) HS _ _ _ _ _ _ (HA n start Est) (Forall_nil _) Ereb). }
    assert (Hjs : Forall (jgood (cs_trips cs)) (legs ++ [walk_step er])).
    { apply Forall_app. split; [exact Hlegs|]. constructor; [apply jgood_walk|constructor]. }
    rewrite (optimize_pair d d' cs AG Hfuel _ Hjs).
    - destruct (optimize (OPT_FUEL d') d' (legs ++ [walk_step er]) [] []) as [js1 used| |] eqn:Eo;
        [|reflexivity|reflexivity].
      rewrite (count_legs_congr d d' (cs_trips cs) AG js1)
        by (apply (optimize_good d' (cs_trips cs) _ _ _ _ _ _ Hjs Eo)).
      rewrite IH; [reflexivity|].
      intros Er. rewrite Er in NH. apply NH. reflexivity.
    - intros Eo. rewrite Eo in NH. apply NH. reflexivity.
  Qed.

  Theorem calc_allnodes_congr p rows :
    calc_allnodes d' cs p rows <> Hang ->
    calc_allnodes d cs p rows = calc_allnodes d' cs p rows.
  Proof.
    intros NH. unfold calc_allnodes in *. rewrite (ag_nodes _ _ _ AG) in *. cbv zeta in *.
    destruct (q_fwd p).
    - destruct (access_reason (nonempty rows) true); [reflexivity|].
      pose proof (kagree_mk_calc d d' p cs rows [] true false AG) as KA.
      set (k := mk_calc d p cs rows [] true false) in *.
      set (k' := mk_calc d' p cs rows [] true false) in *.
      rewrite (ka_dep _ _ KA) in *.
      destruct (k_dep k >? -1); [|reflexivity].
      rewrite (fwd_scan_congr d d' (cs_trips cs) p k k' AG KA true) in *.
      destruct (fwd_scan d p k true) as [fs| | | | | | | |] eqn:Escan; try reflexivity.
      cbn [bind] in *.
      destruct (f_count fs =? 0); [reflexivity|].
      rewrite (fwd_allnodes_loop_congr p k k' fs KA); [reflexivity|].
      apply (fwd_scan_good (cs_trips cs) d p k true fs); [exact Hfwd|apply PS_seed|apply FO_default|exact Escan].
    - destruct (access_reason true (nonempty rows)); [reflexivity|].
      pose proof (kagree_mk_calc d d' p cs [] rows false true AG) as KA0.
      set (k0 := mk_calc d p cs [] rows false true) in *.
      set (k0' := mk_calc d' p cs [] rows false true) in *.
      rewrite (ka_arr _ _ KA0), (ka_taur _ _ KA0), (ka_ov _ _ KA0) in *.
      pose proof (kagree_with_rev k0 k0' (k_arr k0) (-1) (k_taur k0) (set_usable (k_ov k0)) KA0) as KA.
      set (k := with_rev k0 (k_arr k0) (-1) (k_taur k0) (set_usable (k_ov k0))) in *.
      set (k' := with_rev k0' (k_arr k0) (-1) (k_taur k0) (set_usable (k_ov k0))) in *.
      rewrite (ka_arr _ _ KA) in *.
      destruct (k_arr k >? -1); [|reflexivity].
      rewrite (rev_scan_congr d d' (cs_trips cs) p k k' AG KA true) in *.
      destruct (rev_scan d p k true) as [st| | | | | | | |] eqn:Escan; try reflexivity.
      cbn [bind] in *.
      destruct (r_count st =? 0); [reflexivity|].
      rewrite (rev_allnodes_loop_congr p k k' st KA); [reflexivity| |].
      + apply (rev_scan_good (cs_trips cs) d p k true st); [exact Hrev|apply PS_seed|exact Escan].
      + intros E. rewrite E in NH. apply NH. reflexivity.
  Qed.

  (* forward (departure) accessibility needs no fuel argument: the equality is unconditional *)
  Theorem calc_allnodes_congr_fwd p rows : q_fwd p = true ->
    calc_allnodes d cs p rows = calc_allnodes d' cs p rows.
  Proof.
    intros Hf. unfold calc_allnodes. rewrite (ag_nodes _ _ _ AG). cbv zeta. rewrite Hf.
    destruct (access_reason (nonempty rows) true); [reflexivity|].
    pose proof (kagree_mk_calc d d' p cs rows [] true false AG) as KA.
    set (k := mk_calc d p cs rows [] true false) in *.
    set (k' := mk_calc d' p cs rows [] true false) in *.
    rewrite (ka_dep _ _ KA).
    destruct (k_dep k >? -1); [|reflexivity].
    rewrite (fwd_scan_congr d d' (cs_trips cs) p k k' AG KA true).
    destruct (fwd_scan d p k true) as [fs| | | | | | | |] eqn:Escan; try reflexivity.
    cbn [bind].
    destruct (f_count fs =? 0); [reflexivity|].
    rewrite (fwd_allnodes_loop_congr p k k' fs KA); [reflexivity|].
    apply (fwd_scan_good (cs_trips cs) d p k true fs); [exact Hfwd|apply PS_seed|apply FO_default|exact Escan].
  Qed.
End CalcAll.

(* C11 for accessibility maps.  Departure maps: unconditional.  Arrival maps: every node runs the rewrite
   loop with OPT_FUEL, which is smaller on the copy; the equality holds whenever the copy's calculation
   does not run out of that fuel *)
Theorem C11_calc_allnodes_fwd : forall d s p rows,
  nodup_nat (map t_id (d_trips d)) = true -> q_fwd p = true ->
  calc_allnodes d (conn_set d s) p rows =
  calc_allnodes (delete_excluded d s) (conn_set (delete_excluded d s) (all_inclusive d s)) p rows.
Proof.
  intros d s p rows Hnd Hf. rewrite <- (C11_conn_set_delete d s Hnd).
  apply (calc_allnodes_congr_fwd d (delete_excluded d s) (conn_set d s)).
  - apply agree_delete. exact Hnd.
  - apply cs_fwd_trips.
  - exact Hf.
Qed.
Print Assumptions C11_calc_allnodes_fwd.

Theorem C11_calc_allnodes_cond : forall d s p rows,
  nodup_nat (map t_id (d_trips d)) = true ->
  calc_allnodes (delete_excluded d s) (conn_set (delete_excluded d s) (all_inclusive d s)) p rows <> Hang ->
  calc_allnodes d (conn_set d s) p rows =
  calc_allnodes (delete_excluded d s) (conn_set (delete_excluded d s) (all_inclusive d s)) p rows.
Proof.
  intros d s p rows Hnd NH. rewrite <- (C11_conn_set_delete d s Hnd) in NH |- *.
  apply (calc_allnodes_congr d (delete_excluded d s) (conn_set d s)).
  - apply agree_delete. exact Hnd.
  - apply cs_rev_trips.
  - apply cs_fwd_trips.
  - apply OPT_FUEL_delete_le. exact Hnd.
  - exact NH.
Qed.
Print Assumptions C11_calc_allnodes_cond.

(* --- alternatives ------------------------------------------------------------------------------ *)

Section Alt.
  Variables (d d' : data) (cs : connset).
  Hypothesis AG : agree d d' (cs_trips cs).
  Hypothesis Hrev : forall c, In c (cs_rev cs) -> memb (c_trip c) (cs_trips cs) = true.
  Hypothesis Hfuel : (OPT_FUEL d' <= OPT_FUEL d)%nat.

  (* routes returned by a calculation board trips of the connection set only (stated for any dataset) *)
  Lemma rev_journey_sgood (d0 : data) p k st best r used : rgood (cs_trips cs) st ->
    rev_journey d0 p k st best = Ok (r, used) -> Forall (sgood (cs_trips cs)) (rt_steps r).
  Proof.
    intros [HS HA] E. unfold rev_journey in E.
    destruct best as [[bestdep node]|]; [|discriminate].
    destruct (r_acc st node) as [start|] eqn:Est; [|discriminate].
    destruct (rebuild (REBUILD_FUEL d0) (r_steps st) start [] None) as [[legs last]|] eqn:Ereb; [|discriminate].
    destruct (row_of node (k_accfp k)) as [ar|]; [|discriminate].
    destruct last as [ln|]; [|discriminate].
    destruct (row_of ln (k_egrfp k)) as [er|]; [|discriminate].
    assert (Hlegs : Forall (jgood (cs_trips cs)) legs).
    { apply (rebuild_good (cs_trips cs) (r_steps st) HS _ _ _ _ _ _ (HA node start Est) (Forall_nil _) Ereb). }
    assert (Hjs : Forall (jgood (cs_trips cs)) (walk_step ar :: legs ++ [walk_step er])).
    { constructor; [apply jgood_walk|]. apply Forall_app. split; [exact Hlegs|].
      constructor; [apply jgood_walk|constructor]. }
    destruct (optimize (OPT_FUEL d0) d0 (walk_step ar :: legs ++ [walk_step er]) [] []) as [js1 used1| |] eqn:Eo;
      try discriminate.
    injection E as <- _. apply emit_sgood.
    apply (optimize_good d0 (cs_trips cs) _ _ _ _ _ _ Hjs Eo).
  Qed.

  Lemma calc_reverse_sgood (d0 : data) p k r used : k_set k = cs -> PS (cs_trips cs) (k_rsteps k) ->
    calc_reverse d0 p k = Ok (r, used) -> Forall (sgood (cs_trips cs)) (rt_steps r).
  Proof.
    intros Eset Hk E. unfold calc_reverse in E.
    destruct (rev_scan d0 p k false) as [st| | | | | | | |] eqn:Escan; try discriminate.
    cbn [bind] in E. destruct (r_count st =? 0); [discriminate|].
    apply (rev_journey_sgood d0 p k st (best_access p k st) r used); [|exact E].
    apply (rev_scan_good (cs_trips cs) d0 p k false st); [rewrite Eset; exact Hrev|exact Hk|exact Escan].
  Qed.

  Lemma calc_single_sgood (d0 : data) p acc egr fresh r used :
    calc_single d0 cs p acc egr fresh = Ok (r, used) -> Forall (sgood (cs_trips cs)) (rt_steps r).
  Proof.
    intros E. unfold calc_single in E.
    destruct (access_reason (negb fresh || nonempty acc) (negb fresh || nonempty egr)); [discriminate|].
    cbv zeta in E. set (k := mk_calc d0 p cs acc egr true true) in *.
    assert (Hk : PS (cs_trips cs) (k_rsteps k)) by (apply PS_seed).
    destruct ((k_dep k >? -1) && q_fwd p).
    - destruct (fwd_scan d0 p k false) as [fs| | | | | | | |]; try discriminate.
      cbn [bind] in E. destruct (f_count fs =? 0); [discriminate|].
      destruct (best_egress p k fs) as [[best n0]|]; [|discriminate].
      apply (calc_reverse_sgood d0 p _ r used) in E; [exact E|reflexivity|exact Hk].
    - destruct (k_arr k >? -1); [|discriminate].
      apply (calc_reverse_sgood d0 p _ r used) in E; [exact E|reflexivity|exact Hk].
  Qed.

  (* one iteration of the alternatives loop, with the two successor states named *)
  Definition alt_found (fl : list nat) (st : alt_st) (comb : list nat) (r : route) : alt_st :=
    let st1 :=
      if nonempty fl && negb (mem_list fl (a_found st)) then
        let s1 := {| a_routes := a_routes st ++ [r]; a_all := a_all st; a_failed := a_failed st;
                     a_calculated := a_calculated st; a_found := a_found st ++ [fl];
                     a_seq := a_seq st; a_count := a_count st |} in
        let s2 := push_combs s1 fl comb in
        {| a_routes := a_routes s2; a_all := a_all s2; a_failed := a_failed s2;
           a_calculated := a_calculated s2; a_found := a_found s2;
           a_seq := a_seq s2 + 1; a_count := a_count s2 |}
      else st in
    {| a_routes := a_routes st1; a_all := a_all st1; a_failed := a_failed st1;
       a_calculated := a_calculated st1; a_found := a_found st1;
       a_seq := a_seq st1; a_count := a_count st1 + 1 |}.

  Definition alt_failed (st : alt_st) (comb : list nat) : alt_st :=
    {| a_routes := a_routes st; a_all := a_all st; a_failed := a_failed st ++ [comb];
       a_calculated := a_calculated st; a_found := a_found st;
       a_seq := a_seq st; a_count := a_count st + 1 |}.

  Lemma alt_loop_S f (d0 : data) p altp acc egr base_ex st i :
    alt_loop (S f) d0 cs p altp acc egr base_ex st i =
    match nth_error (a_all st) i with
    | None => Ok st
    | Some comb =>
        if (a_count st <? MAX_ALTERNATIVES) && (a_seq st - 1 <? MAX_VALID_ALTERNATIVES) then
          match calc_single d0 cs (with_alt p altp (base_ex ++ comb)) acc egr false with
          | Ok (r, _) =>
              alt_loop f d0 cs p altp acc egr base_ex (alt_found (sort_nat (route_lines d0 r)) st comb r) (S i)
          | NoRouting _ => alt_loop f d0 cs p altp acc egr base_ex (alt_failed st comb) (S i)
          | ParamErr c => ParamErr c
          | DataErr c => DataErr c
          | Exn t => Exn t
          | NoReply => NoReply
          | Crash => Crash
          | UB t => UB t
          | Hang => Hang
          end
        else Ok st
    end.
  Proof. reflexivity. Qed.

  Lemma alt_loop_congr p altp acc egr base_ex : forall fuel st i,
    alt_loop fuel d' cs p altp acc egr base_ex st i <> Hang ->
    alt_loop fuel d cs p altp acc egr base_ex st i = alt_loop fuel d' cs p altp acc egr base_ex st i.
  Proof.
    induction fuel as [|f IH]; intros st i NH; [reflexivity|].
    rewrite alt_loop_S in NH. rewrite !alt_loop_S.
    destruct (nth_error (a_all st) i) as [comb|]; [|reflexivity].
    destruct ((a_count st <? MAX_ALTERNATIVES) && (a_seq st - 1 <? MAX_VALID_ALTERNATIVES)); [|reflexivity].
    rewrite (calc_single_congr d d' cs AG Hrev Hfuel (with_alt p altp (base_ex ++ comb)) acc egr false).
    - destruct (calc_single d' cs (with_alt p altp (base_ex ++ comb)) acc egr false)
        as [[r used]|rs|c|c|t| | |t|] eqn:Ec.
      + rewrite <- (route_lines_congr d d' (cs_trips cs) AG r (calc_single_sgood d' _ _ _ _ _ _ Ec)).
        apply IH. exact NH.
      + apply IH. exact NH.
      + reflexivity.
      + reflexivity.
      + reflexivity.
      + reflexivity.
      + reflexivity.
      + reflexivity.
      + reflexivity.
    - intros Ec. rewrite Ec in NH. apply NH. reflexivity.
  Qed.

  Lemma alt_st0_congr r : Forall (sgood (cs_trips cs)) (rt_steps r) -> alt_st0 d' r = alt_st0 d r.
  Proof. intros H. unfold alt_st0. rewrite (route_lines_congr d d' (cs_trips cs) AG r H). reflexivity. Qed.

  Theorem alternatives_congr p acc egr :
    alternatives d' cs p acc egr <> Hang ->
    alternatives d cs p acc egr = alternatives d' cs p acc egr.
  Proof.
    intros NH. rewrite alternatives_unfold in NH. rewrite !alternatives_unfold.
    assert (E1 : calc_single d cs p acc egr true = calc_single d' cs p acc egr true).
    { apply (calc_single_congr d d' cs AG Hrev Hfuel). intros Ec. rewrite Ec in NH. apply NH. reflexivity. }
    rewrite E1.
    destruct (calc_single d' cs p acc egr true) as [[r used]|rs|c|c|t| | |t|] eqn:Ec.
    2-9: cbn [bind]; reflexivity.
    rewrite bind_Ok_eq in NH. rewrite !bind_Ok_eq. cbv beta in NH |- *. cbn [fst] in NH |- *.
    rewrite (alt_st0_congr r (calc_single_sgood d' _ _ _ _ _ _ Ec)) in NH |- *.
    rewrite alt_loop_congr; [reflexivity|].
    intros El. rewrite El in NH. apply NH. reflexivity.
  Qed.
End Alt.

(* C11 for /v2/route with alternatives: the whole list of routes and the number of calculations are EQUAL *)
Theorem C11_alternatives : forall d s p acc egr,
  wf_data_b d = true -> wf_tables_b d p acc egr = true -> wf_params_b p = true ->
  alternatives d (conn_set d s) p acc egr =
  alternatives (delete_excluded d s) (conn_set (delete_excluded d s) (all_inclusive d s)) p acc egr.
Proof.
  intros d s p acc egr Hwf Htab Hp.
  pose proof (wf_nodup_trips d Hwf) as Hnd.
  pose proof (alternatives_outcome (delete_excluded d s) (all_inclusive d s) p acc egr
                (wf_data_delete d s Hwf) Htab Hp) as Hans.
  rewrite <- (C11_conn_set_delete d s Hnd) in Hans |- *.
  apply (alternatives_congr d (delete_excluded d s) (conn_set d s)).
  - apply agree_delete. exact Hnd.
  - apply cs_rev_trips.
  - apply OPT_FUEL_delete_le. exact Hnd.
  - destruct Hans as [(rs & total & ->)|(reason & ->)]; discriminate.
Qed.
Print Assumptions C11_alternatives.

(* ============================================================================================== *)
(* 6. arrival accessibility maps: the rewrite loop never runs out of fuel                           *)

(* 6a. a leading walk is transparent to optimizeJourney: all indices shift by one *)

Definition shift4 (r : option (option (nat * nat * nat * nat))) : option (option (nat * nat * nat * nat)) :=
  match r with
  | Some (Some (cs, n, i, j)) => Some (Some (cs, n, S i, S j))
  | Some None => Some None
  | None => None
  end.

Definition prepend (a : jstep) (r : opt_result) : opt_result :=
  match r with OptDone js u => OptDone (a :: js) u | OptUB => OptUB | OptHang => OptHang end.

Lemma detect_inner_shift ign sj : forall prev i0,
  detect_inner ign prev (S i0) sj =
  match detect_inner ign prev i0 sj with Some (cs, n, i) => Some (cs, n, S i) | None => None end.
Proof.
  induction prev as [|si prev IH]; intros i0; cbn [detect_inner]; [reflexivity|].
  destruct (detect_pair ign si sj) as [[cs n]|]; [reflexivity|]. apply IH.
Qed.

Lemma detect_shift d ign : forall js idx prev,
  detect d ign js (S idx) (empty_sum :: prev) = shift4 (detect d ign js idx prev).
Proof.
  induction js as [|j r IH]; intros idx prev; cbn [detect]; [reflexivity|].
  destruct (leg_summary d j) as [[sj|]|]; [|apply (IH (S idx) (prev ++ [empty_sum]))|reflexivity].
  cbn [detect_inner]. rewrite detect_pair_empty, detect_inner_shift.
  destruct (detect_inner ign prev 0 sj) as [[[cs n] i]|]; [reflexivity|].
  apply (IH (S idx) (prev ++ [sj])).
Qed.

Lemma erase_cons {A} (a : A) l x y : erase_range (a :: l) (S x) (S y) = a :: erase_range l x y.
Proof. reflexivity. Qed.

Lemma css_second_shift a node exitc : forall rng js from to used ign,
  css_second node exitc rng (a :: js) (S from) (S to) used ign =
  let '(js1, u, ig) := css_second node exitc rng js from to used ign in (a :: js1, u, ig).
Proof.
  induction rng as [|c r IH]; intros js from to used ign; cbn [css_second]; [reflexivity|].
  destruct (Nat.eqb node (c_from c)); [|apply IH].
  destruct exitc as [ex|]; [|reflexivity].
  destruct (c_cb c); [|reflexivity].
  cbn [set_nth]. rewrite erase_cons. reflexivity.
Qed.

Theorem optimize_shift d a : leg_summary d a = Some None ->
  forall f js used ign, optimize f d (a :: js) used ign = prepend a (optimize f d js used ign).
Proof.
  intros Ha. induction f as [|f IH]; intros js used ign; [reflexivity|].
  cbn [optimize].
  assert (Ed : detect d ign (a :: js) 0 [] = shift4 (detect d ign js 0 [])).
  { cbn [detect]. rewrite Ha. cbn [app]. apply detect_shift. }
  rewrite Ed.
  destruct (detect d ign js 0 []) as [[[[[cs X] i] j]|]|]; cbn [shift4 prepend]; [|reflexivity|reflexivity].
  change (nth_js (a :: js) (S i)) with (nth_js js i).
  change (nth_js (a :: js) (S j)) with (nth_js js j).
  destruct (Nat.eqb cs 1).
  { destruct (leg_range d (nth_js js i)) as [rng|]; [|reflexivity].
    destruct (find (fun c => Nat.eqb X (c_to c)) rng) as [c|]; [|apply IH].
    destruct (negb (c_cu c)); [apply IH|].
    cbv zeta. cbn [set_nth]. rewrite erase_cons. apply IH. }
  destruct (Nat.eqb cs 2).
  { destruct (leg_range d (nth_js js j)) as [rng|]; [|reflexivity].
    destruct (find (fun c => Nat.eqb X (c_from c)) rng) as [c|]; [|reflexivity].
    destruct (negb (c_cb c)); [reflexivity|].
    cbn [set_nth prepend]. rewrite erase_cons. reflexivity. }
  destruct (Nat.eqb cs 3).
  { destruct (leg_range d (nth_js js i)) as [rng|]; [|reflexivity].
    destruct (find (fun c => Nat.eqb X (c_to c)) rng) as [c|]; [|apply IH].
    destruct (negb (c_cu c)); [apply IH|].
    cbn [set_nth]. rewrite erase_cons. apply IH. }
  destruct (leg_range d (nth_js js i)) as [rf|]; [|reflexivity].
  destruct (leg_range d (nth_js js j)) as [rt|]; [|reflexivity].
  cbv zeta. rewrite css_second_shift.
  destruct (css_second X (css_first X rf None) rt js i j used ign) as [[js1 u1] ig1].
  apply IH.
Qed.

(* 6b. the journey rebuilt for a stop of an arrival map is a valid journey once a (fictitious) zero-length
   access walk to its first boarding stop is put in front *)
Lemma allnodes_journey_ok d s p acc egr k st n start fuel legs last :
  wf_data_b d = true -> wf_params_b p = true -> rev_pre d s p acc egr k ->
  rev_scan d p k true = Ok st -> r_acc st n = Some start ->
  rebuild fuel (r_steps st) start [] None = Some (legs, last) ->
  exists ar er ln bd, last = Some ln /\ row_of ln egr = Some er /\
    journey_ok_b d s p [ar] egr bd (walk_step ar :: legs ++ [walk_step er]) = true.
Proof.
  intros Hwf Hp Hpre Hscan Hstart Hreb.
  destruct (rev_scan_allnodes_sim d p k st Hscan) as (st' & Hscan' & (_ & Esteps & _ & Eacc & _)).
  pose proof (rev_pre_allnodes d s p acc egr k Hpre) as Hpre'.
  pose proof (rev_scan_inv d s p acc egr (allnodes_calc k) st' Hwf Hp Hpre' Hscan') as HI.
  rewrite Esteps in Hreb. rewrite Eacc in Hstart.
  destruct (i_acc _ _ _ _ _ _ _ _ HI n start Hstart) as (b & e0 & HC & Hfrom & Hwalk & Hdep & Hcap).
  pose proof HC as (C1 & C2 & C3 & C4 & C5 & C6 & C7 & C8 & C9 & C10 & C11).
  destruct fuel as [|f]; [rewrite (rebuild_zero _ _ _ _ b e0 C1 C2) in Hreb; discriminate|].
  rewrite (rebuild_step _ _ _ _ _ b e0 C1 C2) in Hreb.
  change (([] : list jstep) ++ [start]) with ([] ++ [start]) in Hreb.
  destruct (rebuild_inv d s p (allnodes_calc k) Hwf (r_taur st') (r_steps st') (r_acc st') (r_ov st')
                        (c_dep b - minw_eff p b + 0) b HI
                        f [] start e0 legs last C2 C11 C5) as (R1 & R2 & R3 & el & R4 & R5 & R6 & R7 & R8).
  - cbn [app forallb]. rewrite (core_jleg d s p Hwf _ _ _ _ HC). reflexivity.
  - cbn [app]. rewrite jchain_one, C1, C2. rewrite andb_true_r. apply Z.leb_le.
    pose proof (RevInv.minw_eff_true p b) as Hmw. lia.
  - cbn [app first_board]. exact C1.
  - exact Hreb.
  - pose proof (i_seed _ _ _ _ _ _ _ _ HI (c_to el) R7) as Hseed.
    rewrite (rp_taur _ _ _ _ _ _ Hpre') in Hseed.
    pose proof (conn_arr_nonneg d el Hwf R6) as Hnn.
    destruct (row_of (c_to el) egr) as [er|] eqn:Eer; [|lia].
    exists {| fp_node := c_from b; fp_time := 0; fp_dist := 0 |}, er, (c_to el), (c_dep b - minw_eff p b).
    split; [exact R5|]. split; [exact Eer|].
    unfold journey_ok_b. rewrite rev_unit. cbv beta iota zeta. rewrite rev_involutive.
    rewrite R1, R3, R4.
    destruct (row_of_some _ _ _ Eer) as [N3 N4].
    cbn [is_walk walk_step js_enter js_exit js_walk is_some negb andb fp_time]. rewrite R2.
    rewrite <- N3, (has_row_intro egr er N4).
    unfold has_row. cbn [existsb fp_node fp_time]. rewrite Nat.eqb_refl. reflexivity.
Qed.

Lemma prepend_not_hang a r js u : prepend a r = OptDone js u -> r <> OptHang.
Proof. intros H E. subst r. discriminate. Qed.

(* 6c. hence the rewrite loop of reverseJourneyStepAllNodes has fuel enough *)
Lemma allnodes_optimize_not_hang d s p acc egr k st n start legs ln er :
  wf_data_b d = true -> wf_params_b p = true -> rev_pre d s p acc egr k ->
  rev_scan d p k true = Ok st -> r_acc st n = Some start ->
  rebuild (REBUILD_FUEL d) (r_steps st) start [] None = Some (legs, Some ln) ->
  row_of ln (k_egrfp k) = Some er ->
  optimize (OPT_FUEL d) d (legs ++ [walk_step er]) [] [] <> OptHang.
Proof.
  intros Hwf Hp Hpre Hscan Hstart Hreb Her.
  destruct (allnodes_journey_ok d s p acc egr k st n start _ legs (Some ln) Hwf Hp Hpre Hscan Hstart Hreb)
    as (ar & er' & ln' & bd & Eln & Her' & Hok).
  injection Eln as <-. rewrite (rp_egr _ _ _ _ _ _ Hpre) in Her. rewrite Her in Her'. injection Her' as <-.
  assert (Hlen : (length legs <= S (S (length (d_nodes d))))%nat).
  { destruct (rev_scan_allnodes_sim d p k st Hscan) as (st' & Hscan' & (_ & Esteps & _)).
    rewrite Esteps in Hreb.
    apply (rebuild_legs_bound d s p acc egr (allnodes_calc k) st' start legs (Some ln) Hwf Hp
             (rev_pre_allnodes d s p acc egr k Hpre) Hscan' Hreb). }
  destruct (optimize_total_wide d s p [ar] egr bd (walk_step ar :: legs ++ [walk_step er])
              Hwf (RevInv.wf_params_minw p Hp) Hok) as (js' & used & Hopt).
  - cbn [length]. rewrite app_length. cbn [length]. lia.
  - rewrite (optimize_shift d (walk_step ar)) in Hopt by (apply leg_summary_walk; reflexivity).
    apply (prepend_not_hang _ _ _ _ Hopt).
Qed.

Lemma rev_allnodes_loop_not_hang d s p acc egr k st nodes :
  wf_data_b d = true -> wf_params_b p = true -> rev_pre d s p acc egr k ->
  rev_scan d p k true = Ok st -> rev_allnodes_loop d p k st nodes <> Hang.
Proof.
  intros Hwf Hp Hpre Hscan H.
  destruct (rev_allnodes_loop_hang_only_optimize d s p acc egr k st Hwf Hp Hpre Hscan nodes H)
    as (n & start & legs & ln & er & _ & Hstart & Hreb & Her & Hopt).
  apply (allnodes_optimize_not_hang d s p acc egr k st n start legs ln er Hwf Hp Hpre Hscan Hstart Hreb Her Hopt).
Qed.

Lemma allnodes_rev_pre d s p rows : nodup_nat (map fp_node rows) = true ->
  let k0 := mk_calc d p (conn_set d s) [] rows false true in
  rev_pre d s p [] rows (with_rev k0 (k_arr k0) (-1) (k_taur k0) (set_usable (k_ov k0))).
Proof.
  intros Hnd k0. constructor; try reflexivity.
  - intros n. unfold with_rev, k0, mk_calc. cbn [k_taur k_arr]. unfold seed_taur.
    rewrite (fold_upd_row_of (fun r => (if q_fwd p then -1 else q_time p) - fp_time r) rows _ n Hnd). reflexivity.
  - left. reflexivity.
Qed.

(* calculateAllNodes for an arrival query never hangs on well-formed input *)
Theorem calc_allnodes_rev_not_hang d s p rows :
  wf_data_b d = true -> wf_params_b p = true -> nodup_nat (map fp_node rows) = true -> q_fwd p = false ->
  calc_allnodes d (conn_set d s) p rows <> Hang.
Proof.
  intros Hwf Hp Hnd Hf. unfold calc_allnodes. cbv zeta. rewrite Hf.
  destruct (access_reason true (nonempty rows)); [discriminate|].
  pose proof (allnodes_rev_pre d s p rows Hnd) as Hpre. cbv zeta in Hpre.
  set (k0 := mk_calc d p (conn_set d s) [] rows false true) in *.
  set (k := with_rev k0 (k_arr k0) (-1) (k_taur k0) (set_usable (k_ov k0))) in *.
  destruct (k_arr k >? -1); [|discriminate].
  destruct (rev_scan d p k true) as [st| | | | | | | |] eqn:Escan; try discriminate.
  - cbn [bind]. destruct (r_count st =? 0); [discriminate|].
    pose proof (rev_allnodes_loop_not_hang d s p [] rows k st (d_nodes d) Hwf Hp Hpre Escan) as NH.
    destruct (rev_allnodes_loop d p k st (d_nodes d)) as [l| | | | | | | |]; cbn [bind]; try discriminate.
    exfalso. apply NH. reflexivity.
  - exfalso. apply (rev_scan_not_hang d p k true Escan).
Qed.
Print Assumptions calc_allnodes_rev_not_hang.

(* C11 for accessibility maps, both directions *)
Theorem C11_calc_allnodes : forall d s p rows,
  wf_data_b d = true -> wf_params_b p = true -> nodup_nat (map fp_node rows) = true ->
  calc_allnodes d (conn_set d s) p rows =
  calc_allnodes (delete_excluded d s) (conn_set (delete_excluded d s) (all_inclusive d s)) p rows.
Proof.
  intros d s p rows Hwf Hp Hnd.
  pose proof (RevInv.wf_nodup_trips d Hwf) as Hndt.
  destruct (q_fwd p) eqn:Hf.
  - apply C11_calc_allnodes_fwd; assumption.
  - apply C11_calc_allnodes_cond; [exact Hndt|].
    apply calc_allnodes_rev_not_hang; [apply wf_data_delete; exact Hwf|exact Hp|exact Hnd|exact Hf].
Qed.
Print Assumptions C11_calc_allnodes.

(* ============================================================================================== *)
(* 7. the property as stated in Properties/Properties_C11.v (C11_full_statement), and more          *)

Lemma wf_tables_nodup_acc d p acc egr : wf_tables_b d p acc egr = true -> nodup_nat (map fp_node acc) = true.
Proof. unfold wf_tables_b. intros H. peel H T6. peel H T5. peel H T4. peel H T3. exact T3. Qed.

(* the three answers of the server (route, route with alternatives, accessibility map with the access
   table as place rows) are equal as outcomes: same status, same reason, same routes field by field,
   same accessibility list and node count.  Neither `find_scenario d (q_scenario p) = Some s` nor
   `q_except_lines p = []` (both in Common.in_domain) is needed. *)
Theorem C11_full : forall d s p acc egr,
  wf_data_b d = true -> wf_tables_b d p acc egr = true -> wf_params_b p = true ->
  let d' := delete_excluded d s in
  let cs' := conn_set d' (all_inclusive d s) in
  calc_single d (conn_set d s) p acc egr true = calc_single d' cs' p acc egr true /\
  alternatives d (conn_set d s) p acc egr = alternatives d' cs' p acc egr /\
  calc_allnodes d (conn_set d s) p acc = calc_allnodes d' cs' p acc.
Proof.
  intros d s p acc egr Hwf Htab Hp d' cs'. subst d' cs'.
  split; [apply C11_calc_single; assumption|].
  split; [apply C11_alternatives; assumption|].
  apply C11_calc_allnodes; [exact Hwf|exact Hp|apply (wf_tables_nodup_acc d p acc egr Htab)].
Qed.
Print Assumptions C11_full.

(* non-vacuity: on the example dataset, the scenario that excepts line 2 leaves one trip; both sides
   answer the same one-boarding route *)
Example C11_example_answers :
  let s := {| s_id := 2; s_services := [1%nat]; s_onlyLines := []; s_onlyModes := []; s_onlyAgencies := [];
              s_onlyNodes := []; s_exceptLines := [2%nat]; s_exceptModes := []; s_exceptAgencies := [];
              s_exceptNodes := [] |} in
  let d' := delete_excluded ex_data s in
  match calc_single ex_data (conn_set ex_data s) (ex_params true 35000) ex_acc [row 3 50 60] true,
        calc_single d' (conn_set d' (all_inclusive ex_data s)) (ex_params true 35000) ex_acc [row 3 50 60] true with
  | Ok (r, _), Ok (r', _) =>
      rt_arr r = rt_arr r' /\ rt_dep r = rt_dep r' /\ rt_nboard r = 1 /\ length (d_trips d') = 1%nat /\
      (OPT_FUEL d' < OPT_FUEL ex_data)%nat
  | _, _ => False
  end.
Proof. vm_compute. repeat (split; [reflexivity|]). lia. Qed.

(* leave the step functions as the imported files left them *)
Opaque rev_step rev_fp_step.

(* OPEN: nothing of the assigned statement is left open.
   Remarks for the record:
   - literal equality of outcomes holds although OPT_FUEL (delete_excluded d s) < OPT_FUEL d in general:
     every rewrite loop that is run terminates within the smaller fuel (OptTotal for routes; section 6
     above for the journeys of arrival accessibility maps, which have no access walk in front), and
     more fuel never changes a non-hanging result (optimize_fuel_mono_gen).
   - the congruence theorems (calc_single_congr, calc_allnodes_congr, alternatives_congr) are stated for
     any two datasets related by `agree`, under the single side condition that the calculation on the
     dataset with the smaller fuel does not hang. *)
