(* Proofs/SortFilter.v — the two connection sorts, and C11 (structural half).

   filter_isort_fwd / filter_isort_rev : filtering a sorted connection list = sorting the filtered list
                                         (insertion sort is stable and the comparators are strict weak orders).
   isort_fwd_sorted / isort_rev_sorted : the sorts deliver the orders the hour index relies on
                                         (Proofs/Index.v: dep_sorted, arr_sorted_desc).
   C11_conn_set_delete                 : the connection set of a scenario is the connection set of the
                                         all-inclusive scenario on the dataset without the excluded trips. *)
From Coq Require Import List ZArith Bool Arith Lia Sorted.
From TrV Require Import Spec.
Import ListNotations.
Local Open Scope Z_scope.

(* ---------------------------------------------------------------------------------------------- *)
(* list helpers                                                                                     *)

Lemma filter_none {A} (f : A -> bool) (l : list A) :
  (forall x, In x l -> f x = false) -> filter f l = [].
Proof.
  induction l as [|a l IH]; intros H; [reflexivity|].
  cbn [filter]. rewrite (H a (or_introl eq_refl)). apply IH. intros x Hx. apply H. right. exact Hx.
Qed.

Lemma filter_all {A} (f : A -> bool) (l : list A) :
  (forall x, In x l -> f x = true) -> filter f l = l.
Proof.
  induction l as [|a l IH]; intros H; [reflexivity|].
  cbn [filter]. rewrite (H a (or_introl eq_refl)). f_equal. apply IH. intros x Hx. apply H. right. exact Hx.
Qed.

Lemma StronglySorted_impl {A} (R R' : A -> A -> Prop) (l : list A) :
  (forall a b, R a b -> R' a b) -> StronglySorted R l -> StronglySorted R' l.
Proof.
  intros HR H. induction H as [|a l Hl IH Hall]; constructor.
  - exact IH.
  - apply Forall_forall. intros x Hx. apply HR. revert x Hx. apply Forall_forall. exact Hall.
Qed.

(* ---------------------------------------------------------------------------------------------- *)
(* stable insertion sort under a strict weak order                                                  *)

Section Generic.
  Variable lt : conn -> conn -> bool.
  Hypothesis lt_asym : forall a b, lt a b = true -> lt b a = false.
  Hypothesis lt_negtrans : forall a b c, lt a c = true -> lt a b = true \/ lt b c = true.

  (* "a may stand before b" *)
  Definition le_of (a b : conn) : Prop := lt b a = false.
  Definition sorted_by (l : list conn) : Prop := StronglySorted le_of l.

  Lemma le_of_trans_r x y z : lt z y = false -> lt y x = false -> lt z x = false.
  Proof.
    intros Hzy Hyx. destruct (lt z x) eqn:Hzx; [|reflexivity].
    destruct (lt_negtrans z y x Hzx) as [H|H]; congruence.
  Qed.

  Lemma in_insert x y l : In y (insert lt x l) -> y = x \/ In y l.
  Proof.
    induction l as [|a l IH]; cbn [insert]; intros H.
    - destruct H as [H|[]]. left. symmetry. exact H.
    - destruct (lt a x) eqn:Hax.
      + destruct H as [H|H]; [right; left; exact H|].
        destruct (IH H) as [H'|H']; [left; exact H'|right; right; exact H'].
      + destruct H as [H|H]; [left; symmetry; exact H|right; exact H].
  Qed.

  Lemma insert_sorted x l : sorted_by l -> sorted_by (insert lt x l).
  Proof.
    unfold sorted_by. induction l as [|a l IH]; cbn [insert]; intros Hs.
    - constructor; [constructor|constructor].
    - apply StronglySorted_inv in Hs. destruct Hs as [Hl Hall].
      assert (Hall' : forall z, In z l -> lt z a = false) by (apply Forall_forall; exact Hall).
      destruct (lt a x) eqn:Hax.
      + constructor; [apply IH; exact Hl|].
        apply Forall_forall. intros z Hz. unfold le_of.
        destruct (in_insert x z l Hz) as [Hzx|Hzl]; [subst z; apply lt_asym; exact Hax|apply Hall'; exact Hzl].
      + constructor; [constructor; assumption|].
        apply Forall_forall. intros z [Hz|Hz]; unfold le_of.
        * subst z. exact Hax.
        * apply (le_of_trans_r x a z); [apply Hall'; exact Hz|exact Hax].
  Qed.

  Lemma isort_sorted l : sorted_by (isort lt l).
  Proof.
    induction l as [|a l IH]; cbn [isort fold_right].
    - constructor.
    - apply insert_sorted. exact IH.
  Qed.

  Lemma insert_head x l : (forall z, In z l -> lt z x = false) -> insert lt x l = x :: l.
  Proof.
    destruct l as [|a l]; intros H; [reflexivity|].
    cbn [insert]. rewrite (H a (or_introl eq_refl)). reflexivity.
  Qed.

  Lemma filter_insert_false f x l : f x = false -> filter f (insert lt x l) = filter f l.
  Proof.
    intros Hfx. induction l as [|a l IH]; cbn [insert filter].
    - rewrite Hfx. reflexivity.
    - destruct (lt a x) eqn:Hax; cbn [filter].
      + rewrite IH. reflexivity.
      + rewrite Hfx. reflexivity.
  Qed.

  Lemma filter_insert_true f x l :
    f x = true -> sorted_by l -> filter f (insert lt x l) = insert lt x (filter f l).
  Proof.
    intros Hfx. unfold sorted_by. induction l as [|a l IH]; intros Hs.
    - cbn [insert filter]. rewrite Hfx. reflexivity.
    - apply StronglySorted_inv in Hs. destruct Hs as [Hl Hall].
      assert (Hall' : forall z, In z l -> lt z a = false) by (apply Forall_forall; exact Hall).
      cbn [insert]. destruct (lt a x) eqn:Hax.
      + cbn [filter]. rewrite (IH Hl). destruct (f a) eqn:Hfa; [|reflexivity].
        cbn [insert]. rewrite Hax. reflexivity.
      + rewrite insert_head.
        * change (filter f (x :: a :: l)) with (if f x then x :: filter f (a :: l) else filter f (a :: l)).
          rewrite Hfx. reflexivity.
        * intros z Hz. apply filter_In in Hz. destruct Hz as [[Hz|Hz] _].
          -- subst z. exact Hax.
          -- apply (le_of_trans_r x a z); [apply Hall'; exact Hz|exact Hax].
  Qed.

  Theorem filter_isort f l : filter f (isort lt l) = isort lt (filter f l).
  Proof.
    induction l as [|a l IH]; [reflexivity|].
    change (isort lt (a :: l)) with (insert lt a (isort lt l)).
    cbn [filter]. destruct (f a) eqn:Hfa.
    - rewrite filter_insert_true by (exact Hfa || apply isort_sorted).
      rewrite IH. reflexivity.
    - rewrite filter_insert_false by exact Hfa. exact IH.
  Qed.
End Generic.

(* ---------------------------------------------------------------------------------------------- *)
(* the two comparators are lexicographic orders on (time, trip, sequence)                           *)

Lemma fwd_lt_iff a b :
  fwd_lt a b = true <->
  (c_dep a < c_dep b \/
   (c_dep a = c_dep b /\ ((c_trip a < c_trip b)%nat \/ (c_trip a = c_trip b /\ (c_seq a < c_seq b)%nat)))).
Proof.
  unfold fwd_lt.
  destruct (Z.ltb_spec (c_dep a) (c_dep b)) as [H1|H1]; [split; intros H; [lia|reflexivity]|].
  destruct (Z.gtb_spec (c_dep a) (c_dep b)) as [H2|H2]; [split; intros H; [discriminate|lia]|].
  destruct (Nat.ltb_spec (c_trip a) (c_trip b)) as [H3|H3]; [split; intros H; [lia|reflexivity]|].
  destruct (Nat.ltb_spec (c_trip b) (c_trip a)) as [H4|H4]; [split; intros H; [discriminate|lia]|].
  rewrite Nat.ltb_lt. lia.
Qed.

Lemma rev_lt_iff a b :
  rev_lt a b = true <->
  (c_arr a > c_arr b \/
   (c_arr a = c_arr b /\ ((c_trip b < c_trip a)%nat \/ (c_trip a = c_trip b /\ (c_seq b < c_seq a)%nat)))).
Proof.
  unfold rev_lt.
  destruct (Z.gtb_spec (c_arr a) (c_arr b)) as [H1|H1]; [split; intros H; [lia|reflexivity]|].
  destruct (Z.ltb_spec (c_arr a) (c_arr b)) as [H2|H2]; [split; intros H; [discriminate|lia]|].
  destruct (Nat.ltb_spec (c_trip b) (c_trip a)) as [H3|H3]; [split; intros H; [lia|reflexivity]|].
  destruct (Nat.ltb_spec (c_trip a) (c_trip b)) as [H4|H4]; [split; intros H; [discriminate|lia]|].
  rewrite Nat.ltb_lt. lia.
Qed.

Lemma fwd_lt_irrefl a : fwd_lt a a = false.
Proof. destruct (fwd_lt a a) eqn:E; [|reflexivity]. apply fwd_lt_iff in E. lia. Qed.

Lemma fwd_lt_asym a b : fwd_lt a b = true -> fwd_lt b a = false.
Proof.
  intros H. destruct (fwd_lt b a) eqn:E; [|reflexivity].
  apply fwd_lt_iff in H. apply fwd_lt_iff in E. lia.
Qed.

Lemma fwd_lt_trans a b c : fwd_lt a b = true -> fwd_lt b c = true -> fwd_lt a c = true.
Proof.
  intros H1 H2. apply fwd_lt_iff in H1. apply fwd_lt_iff in H2. apply fwd_lt_iff. lia.
Qed.

Lemma fwd_lt_negtrans a b c : fwd_lt a c = true -> fwd_lt a b = true \/ fwd_lt b c = true.
Proof.
  intros H. destruct (fwd_lt a b) eqn:E1; [left; reflexivity|]. right.
  assert (N1 : ~ fwd_lt a b = true) by congruence.
  rewrite fwd_lt_iff in N1. apply fwd_lt_iff in H. apply fwd_lt_iff. lia.
Qed.

(* total up to the (time, trip, sequence) key *)
Lemma fwd_lt_total a b :
  fwd_lt a b = true \/ fwd_lt b a = true \/
  (c_dep a = c_dep b /\ c_trip a = c_trip b /\ c_seq a = c_seq b).
Proof. rewrite !fwd_lt_iff. lia. Qed.

Lemma rev_lt_irrefl a : rev_lt a a = false.
Proof. destruct (rev_lt a a) eqn:E; [|reflexivity]. apply rev_lt_iff in E. lia. Qed.

Lemma rev_lt_asym a b : rev_lt a b = true -> rev_lt b a = false.
Proof.
  intros H. destruct (rev_lt b a) eqn:E; [|reflexivity].
  apply rev_lt_iff in H. apply rev_lt_iff in E. lia.
Qed.

Lemma rev_lt_trans a b c : rev_lt a b = true -> rev_lt b c = true -> rev_lt a c = true.
Proof.
  intros H1 H2. apply rev_lt_iff in H1. apply rev_lt_iff in H2. apply rev_lt_iff. lia.
Qed.

Lemma rev_lt_negtrans a b c : rev_lt a c = true -> rev_lt a b = true \/ rev_lt b c = true.
Proof.
  intros H. destruct (rev_lt a b) eqn:E1; [left; reflexivity|]. right.
  assert (N1 : ~ rev_lt a b = true) by congruence.
  rewrite rev_lt_iff in N1. apply rev_lt_iff in H. apply rev_lt_iff. lia.
Qed.

Lemma rev_lt_total a b :
  rev_lt a b = true \/ rev_lt b a = true \/
  (c_arr a = c_arr b /\ c_trip a = c_trip b /\ c_seq a = c_seq b).
Proof. rewrite !rev_lt_iff. lia. Qed.

(* ---------------------------------------------------------------------------------------------- *)
(* the four sort theorems                                                                           *)

Theorem filter_isort_fwd : forall f l, filter f (isort fwd_lt l) = isort fwd_lt (filter f l).
Proof. exact (filter_isort fwd_lt fwd_lt_asym fwd_lt_negtrans). Qed.

Theorem filter_isort_rev : forall f l, filter f (isort rev_lt l) = isort rev_lt (filter f l).
Proof. exact (filter_isort rev_lt rev_lt_asym rev_lt_negtrans). Qed.

Theorem isort_fwd_sorted : forall l, StronglySorted (fun a b => c_dep a <= c_dep b) (isort fwd_lt l).
Proof.
  intros l. apply (StronglySorted_impl (le_of fwd_lt)); [|apply (isort_sorted fwd_lt fwd_lt_asym fwd_lt_negtrans)].
  intros a b H. unfold le_of in H.
  destruct (Z_le_gt_dec (c_dep a) (c_dep b)) as [Hle|Hgt]; [exact Hle|].
  assert (E : fwd_lt b a = true) by (apply fwd_lt_iff; lia). congruence.
Qed.

Theorem isort_rev_sorted : forall l, StronglySorted (fun a b => c_arr b <= c_arr a) (isort rev_lt l).
Proof.
  intros l. apply (StronglySorted_impl (le_of rev_lt)); [|apply (isort_sorted rev_lt rev_lt_asym rev_lt_negtrans)].
  intros a b H. unfold le_of in H.
  destruct (Z_le_gt_dec (c_arr b) (c_arr a)) as [Hle|Hgt]; [exact Hle|].
  assert (E : rev_lt b a = true) by (apply rev_lt_iff; lia). congruence.
Qed.

(* the sorts are permutation-free of surprises: same elements *)
Lemma in_isort lt x l : In x (isort lt l) <-> In x l.
Proof.
  induction l as [|a l IH]; [reflexivity|].
  change (isort lt (a :: l)) with (insert lt a (isort lt l)). split.
  - intros H. destruct (in_insert lt a x (isort lt l) H) as [H'|H']; [left; symmetry; exact H'|right; apply IH; exact H'].
  - intros H. assert (G : forall s, x = a \/ In x s -> In x (insert lt a s)).
    { induction s as [|b s IHs]; cbn [insert]; intros [Hx|Hx].
      - left. symmetry. exact Hx.
      - destruct Hx.
      - destruct (lt b a); [right; apply IHs; left; exact Hx|left; symmetry; exact Hx].
      - destruct (lt b a).
        + destruct Hx as [Hx|Hx]; [left; exact Hx|right; apply IHs; right; exact Hx].
        + right. exact Hx. }
    apply G. destruct H as [H|H]; [left; symmetry; exact H|right; apply IH; exact H].
Qed.

(* ---------------------------------------------------------------------------------------------- *)
(* C11, structural half                                                                             *)

Lemma memb_In x l : memb x l = true <-> In x l.
Proof.
  unfold memb. rewrite existsb_exists. split.
  - intros (y & Hy & E). apply Nat.eqb_eq in E. subst y. exact Hy.
  - intros H. exists x. split; [exact H|apply Nat.eqb_refl].
Qed.

Lemma nodup_nat_inj : forall (l : list trip), nodup_nat (map t_id l) = true ->
  forall a b, In a l -> In b l -> t_id a = t_id b -> a = b.
Proof.
  induction l as [|x l IH]; cbn [map nodup_nat]; intros H a b Ha Hb E.
  - destruct Ha.
  - apply andb_prop in H. destruct H as [Hn Hr]. apply negb_true_iff in Hn.
    destruct Ha as [Ha|Ha]; destruct Hb as [Hb|Hb].
    + subst a b. reflexivity.
    + subst a. exfalso.
      assert (M : memb (t_id x) (map t_id l) = true) by (apply memb_In; rewrite E; apply in_map; exact Hb).
      congruence.
    + subst b. exfalso.
      assert (M : memb (t_id x) (map t_id l) = true) by (apply memb_In; rewrite <- E; apply in_map; exact Ha).
      congruence.
    + apply (IH Hr a b Ha Hb E).
Qed.

Lemma mk_conns_trip : forall tid minw nodes seq times c,
  In c (mk_conns tid minw seq nodes times) -> c_trip c = tid.
Proof.
  intros tid minw. induction nodes as [|n0 ns IH]; intros seq times c H.
  - destruct H.
  - destruct ns as [|n1 ns']; [destruct H|].
    destruct times as [|s0 [|s1 ss]]; [destruct H|destruct H|].
    change (mk_conns tid minw seq (n0 :: n1 :: ns') (s0 :: s1 :: ss))
      with ({| c_trip := tid; c_seq := seq; c_from := n0; c_to := n1; c_dep := st_dep s0; c_arr := st_arr s1;
               c_cb := st_cb s0; c_cu := st_cu s1; c_minw := minw |}
            :: mk_conns tid minw (S seq) (n1 :: ns') (s1 :: ss)) in H.
    destruct H as [H|H]; [subst c; reflexivity|].
    apply (IH (S seq) (s1 :: ss) c H).
Qed.

Lemma trip_conns_trip d t c : In c (trip_conns d t) -> c_trip c = t_id t.
Proof. unfold trip_conns. apply mk_conns_trip. Qed.

Lemma filter_flat_map_sel {A B} (P : B -> bool) (g : A -> bool) (tc : A -> list B) (l : list A) :
  (forall t, In t l -> forall c, In c (tc t) -> P c = g t) ->
  filter P (flat_map tc l) = flat_map tc (filter g l).
Proof.
  induction l as [|a l IH]; intros H; [reflexivity|].
  cbn [flat_map filter]. rewrite filter_app.
  rewrite IH by (intros t Ht; apply H; right; exact Ht).
  destruct (g a) eqn:G.
  - cbn [flat_map]. f_equal. apply filter_all. intros c Hc.
    rewrite (H a (or_introl eq_refl) c Hc). exact G.
  - rewrite filter_none; [reflexivity|]. intros c Hc.
    rewrite (H a (or_introl eq_refl) c Hc). exact G.
Qed.

(* the copy resolves trip attributes exactly as the original: only d_trips differs *)
Lemma trip_conns_delete d s t : trip_conns (delete_excluded d s) t = trip_conns d t.
Proof. reflexivity. Qed.

Lemma all_conns_delete d s :
  all_conns (delete_excluded d s) = flat_map (trip_conns d) (filter (trip_enabled d s) (d_trips d)).
Proof. reflexivity. Qed.

Lemma trip_enabled_services d s t : trip_enabled d s t = true -> only_ok (s_services s) (t_service t) = true.
Proof.
  unfold trip_enabled. intros H.
  repeat (apply andb_prop in H; destruct H as [H _]). exact H.
Qed.

Lemma trip_enabled_all_inclusive d s t :
  trip_enabled (delete_excluded d s) (all_inclusive d s) t = only_ok (s_services s) (t_service t).
Proof.
  unfold trip_enabled, all_inclusive.
  cbn [s_services s_onlyLines s_onlyModes s_onlyAgencies s_exceptLines s_exceptModes s_exceptAgencies
       only_ok except_ok].
  rewrite !andb_true_r. reflexivity.
Qed.

Lemma enabled_trips_delete d s :
  enabled_trips (delete_excluded d s) (all_inclusive d s) = enabled_trips d s.
Proof.
  unfold enabled_trips. cbn [d_trips delete_excluded]. f_equal.
  apply filter_all. intros t Ht. apply filter_In in Ht. destruct Ht as [_ Ht].
  rewrite trip_enabled_all_inclusive. apply (trip_enabled_services d s t Ht).
Qed.

(* membership of a trip's id in the enabled list is the enabling rule itself, ids being unique *)
Lemma memb_enabled d s t :
  nodup_nat (map t_id (d_trips d)) = true -> In t (d_trips d) ->
  memb (t_id t) (enabled_trips d s) = trip_enabled d s t.
Proof.
  intros Hnd Ht. unfold enabled_trips. destruct (trip_enabled d s t) eqn:E.
  - apply memb_In. apply in_map. apply filter_In. split; assumption.
  - destruct (memb (t_id t) (map t_id (filter (trip_enabled d s) (d_trips d)))) eqn:M; [|reflexivity].
    apply memb_In in M. apply in_map_iff in M. destruct M as (t' & Hid & Ht').
    apply filter_In in Ht'. destruct Ht' as [Hin' En'].
    assert (t' = t) by (apply (nodup_nat_inj (d_trips d) Hnd); assumption).
    subst t'. congruence.
Qed.

Lemma filter_enabled_all_conns d s :
  nodup_nat (map t_id (d_trips d)) = true ->
  filter (fun c => memb (c_trip c) (enabled_trips d s)) (all_conns d) = all_conns (delete_excluded d s).
Proof.
  intros Hnd. rewrite all_conns_delete. unfold all_conns.
  apply filter_flat_map_sel. intros t Ht c Hc.
  rewrite (trip_conns_trip d t c Hc). apply memb_enabled; assumption.
Qed.

Lemma filter_enabled_all_conns_delete d s :
  filter (fun c => memb (c_trip c) (enabled_trips d s)) (all_conns (delete_excluded d s)) =
  all_conns (delete_excluded d s).
Proof.
  apply filter_all. intros c Hc. rewrite all_conns_delete in Hc.
  apply in_flat_map in Hc. destruct Hc as (t & Ht & Hc).
  rewrite (trip_conns_trip d t c Hc). apply memb_In. unfold enabled_trips. apply in_map. exact Ht.
Qed.

Theorem C11_conn_set_delete : forall d s,
  nodup_nat (map t_id (d_trips d)) = true ->
  conn_set d s = conn_set (delete_excluded d s) (all_inclusive d s).
Proof.
  intros d s Hnd. unfold conn_set. rewrite enabled_trips_delete.
  unfold sorted_fwd, sorted_rev.
  rewrite !filter_isort_fwd, !filter_isort_rev.
  rewrite (filter_enabled_all_conns d s Hnd), (filter_enabled_all_conns_delete d s).
  reflexivity.
Qed.

(* what Proofs/Index.v asks of a connection set holds for every conn_set d s *)
Corollary conn_set_fwd_sorted d s :
  StronglySorted (fun a b => c_dep a <= c_dep b) (cs_fwd (conn_set d s)).
Proof.
  unfold conn_set, mk_connset, sorted_fwd. cbn [cs_fwd]. rewrite filter_isort_fwd. apply isort_fwd_sorted.
Qed.

Corollary conn_set_rev_sorted d s :
  StronglySorted (fun a b => c_arr b <= c_arr a) (cs_rev (conn_set d s)).
Proof.
  unfold conn_set, mk_connset, sorted_rev. cbn [cs_rev]. rewrite filter_isort_rev. apply isort_rev_sorted.
Qed.

Corollary conn_set_indexes d s :
  cs_fidx (conn_set d s) = fwd_index (cs_fwd (conn_set d s)) /\
  cs_ridx (conn_set d s) = rev_index (cs_rev (conn_set d s)).
Proof. split; reflexivity. Qed.


(* the hypothesis is needed: with a duplicated trip id the scenario filter (by id) keeps the
   connections of the excluded twin, while deletion (by record) removes them *)
Definition dup_data : data :=
  {| d_nodes := [0; 1]%nat; d_fp := []; d_rfp := []; d_lines := [ {| l_id := 0; l_agency := 0; l_mode := 0 |} ];
     d_paths := [ {| p_id := 0; p_line := 0; p_nodes := [0; 1]%nat; p_dists := [0; 100] |} ];
     d_trips := [ {| t_id := 7; t_path := 0; t_service := 1;
                     t_times := [ {| st_arr := 0; st_dep := 10; st_cb := true; st_cu := true |};
                                  {| st_arr := 20; st_dep := 20; st_cb := true; st_cu := true |} ] |};
                  {| t_id := 7; t_path := 0; t_service := 2;
                     t_times := [ {| st_arr := 100; st_dep := 110; st_cb := true; st_cu := true |};
                                  {| st_arr := 120; st_dep := 120; st_cb := true; st_cu := true |} ] |} ];
     d_scenarios := [] |}.
Definition dup_scenario : scenario :=
  {| s_id := 0; s_services := [1%nat]; s_onlyLines := []; s_onlyModes := []; s_onlyAgencies := [];
     s_onlyNodes := []; s_exceptLines := []; s_exceptModes := []; s_exceptAgencies := []; s_exceptNodes := [] |}.

Example C11_needs_unique_ids :
  length (cs_fwd (conn_set dup_data dup_scenario)) = 2%nat /\
  length (cs_fwd (conn_set (delete_excluded dup_data dup_scenario) (all_inclusive dup_data dup_scenario))) = 1%nat.
Proof. vm_compute. split; reflexivity. Qed.

Print Assumptions filter_isort_fwd.
Print Assumptions filter_isort_rev.
Print Assumptions isort_fwd_sorted.
Print Assumptions isort_rev_sorted.
Print Assumptions C11_conn_set_delete.
Print Assumptions conn_set_fwd_sorted.
Print Assumptions conn_set_rev_sorted.
