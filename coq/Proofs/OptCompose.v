(* Proofs/OptCompose.v — composition of the optimality results into the last clause of property C10
   ("no alternative arrives earlier (departure queries) / departs later (arrival queries) than routes[0]"),
   plus the regression example of the defect found while composing C03.

   C03_decl_statement / C04_decl_statement / C05_decl_statement themselves are proved in Proofs/RevOptCompose.v
   (C03_decl_proved, C04_decl_proved / C04_decl_strong, C05_decl_proved / C05_decl_strong); nothing of them is
   duplicated here.

   Contents
     1. C03_mixed_wait_regression   the dataset on which calculateSingle used to answer NO_ROUTING_FOUND although an
                                    admissible journey exists (mixed minimum waiting times; the access-based
                                    break of the reverse pass was armed with the departure instead of the
                                    departure minus minimum waiting); now answers the optimal arrival
     2. C10, last clause            alternatives_dep_nonneg, alternatives_journeys_rev, C10_no_better_departure,
                                    C10_no_better_arrival, C10_no_better (C04_decl as a hypothesis),
                                    C10_no_better_proved (with RevOptCompose.C04_decl_strong: no uniform waiting)
   The modules ValidAdm / C03Ok / RevOptCompose are required but not imported (they share lemma names). *)
From Coq Require Import List ZArith Bool Arith Lia.
From TrV Require Import Spec Admissible Optimal.
From TrV Require Import Proofs.Compose Proofs.AltProofs.
From TrV Require Proofs.ValidAdm Proofs.C03Ok Proofs.RevOptCompose.
Import ListNotations.
Local Open Scope Z_scope.

(* ============================================================================================== *)
(* 1. regression example (defect fixed in reverse_calculation.cpp / Scan.rev_step)                  *)

(* Stops 1 (origin, 1000 s walk), 2 (origin, 100 s walk), 3, 4 (destination, 0 s walk); leave at 10000,
   minimum waiting 300 s.
     trip 2 (transferable line, waits 0 s) : 2 -> 3, dep 10100, arr 10150
     trip 1 (ordinary line, waits 300 s)   : 3 -> 1, dep 10500, arr 10600;  1 -> 4, dep 11200, arr 11300
   The only admissible journey: walk to 2, trip 2 to 3, trip 1 from 3 through 1 to 4, arrival 11300.
   Before the fix the reverse pass armed its access-based break at the connection 1 -> 4 with r_tent = 11200
   (although 11200 - 300 - 1000 < 10000: not boardable from the origin in time), the connection of trip 2
   (arrival 10150 < 11200 - 1000) stopped the scan, no access boarding was stored and calculateSingle answered
   NO_ROUTING_FOUND.  With r_tent = departure - minimum waiting (10900) the scan goes on and the route is found. *)
From TrV Require Import Examples.

Definition nu_data : data :=
  {| d_nodes := [1; 2; 3; 4]%nat;
     d_fp := [(1%nat, [row 1 0 0]); (2%nat, [row 2 0 0]); (3%nat, [row 3 0 0]); (4%nat, [row 4 0 0])];
     d_rfp := [(1%nat, [row 1 0 0]); (2%nat, [row 2 0 0]); (3%nat, [row 3 0 0]); (4%nat, [row 4 0 0])];
     d_lines := [{| l_id := 1; l_agency := 1; l_mode := 1 |}; {| l_id := 2; l_agency := 1; l_mode := 0 |}];
     d_paths := [{| p_id := 1; p_line := 1; p_nodes := [3; 1; 4]%nat; p_dists := [500; 500] |};
                 {| p_id := 2; p_line := 2; p_nodes := [2; 3]%nat; p_dists := [900] |}];
     d_trips := [{| t_id := 1; t_path := 1; t_service := 1;
                    t_times := [st 10500 10500; st 10600 11200; st 11300 11300] |};
                 {| t_id := 2; t_path := 2; t_service := 1; t_times := [st 10100 10100; st 10150 10150] |}];
     d_scenarios := [scen_all] |}.
Definition nu_params : params :=
  {| q_scenario := 1; q_time := 10000; q_minw := 300; q_maxtt := 10000; q_maxacc := 1200; q_maxegr := 1200;
     q_maxtr := 1200; q_maxfw := -1; q_fwd := true; q_except_lines := [] |}.
Definition nu_acc : list fprow := [row 1 1000 0; row 2 100 0].
Definition nu_egr : list fprow := [row 4 0 0].
Definition nu_x : conn := {| c_trip := 2; c_seq := 1; c_from := 2; c_to := 3; c_dep := 10100; c_arr := 10150;
                             c_cb := true; c_cu := true; c_minw := 0 |}.
Definition nu_y1 : conn := {| c_trip := 1; c_seq := 1; c_from := 3; c_to := 1; c_dep := 10500; c_arr := 10600;
                              c_cb := true; c_cu := true; c_minw := -1 |}.
Definition nu_y2 : conn := {| c_trip := 1; c_seq := 2; c_from := 1; c_to := 4; c_dep := 11200; c_arr := 11300;
                              c_cb := true; c_cu := true; c_minw := -1 |}.

Example C03_mixed_wait_regression :
  opt_domain nu_data scen_all nu_params nu_acc nu_egr /\ pos_hops_b nu_data = true /\ q_fwd nu_params = true /\
  q_maxfw nu_params <= 0 /\ uniform_wait_b nu_data = false /\
  match route_answer nu_data scen_all nu_params nu_acc nu_egr with
  | Ok (r, _) => rt_arr r = 11300 /\ rt_dep r = 10000
  | _ => False
  end /\
  admissible_fwd nu_data scen_all nu_params nu_acc nu_egr [(nu_x, nu_x); (nu_y1, nu_y2)] 11300.
Proof.
  split; [unfold opt_domain; vm_compute; repeat split; reflexivity|].
  split; [vm_compute; reflexivity|]. split; [reflexivity|]. split; [vm_compute; discriminate|].
  split; [vm_compute; reflexivity|]. split; [vm_compute; split; reflexivity|].
  assert (RX : ride_ok nu_data scen_all nu_params nu_x nu_x).
  { unfold ride_ok. split; [vm_compute; right; right; left; reflexivity|].
    split; [vm_compute; right; right; left; reflexivity|].
    split; [reflexivity|]. split; [apply le_n|]. split; [reflexivity|]. split; [reflexivity|].
    eexists. split; [reflexivity|vm_compute; reflexivity]. }
  assert (RY : ride_ok nu_data scen_all nu_params nu_y1 nu_y2).
  { unfold ride_ok. split; [vm_compute; left; reflexivity|].
    split; [vm_compute; right; left; reflexivity|].
    split; [reflexivity|]. split; [vm_compute; auto|]. split; [reflexivity|]. split; [reflexivity|].
    eexists. split; [reflexivity|vm_compute; reflexivity]. }
  split; [|vm_compute; discriminate].
  exists (row 2 100 0), (row 4 0 0), 4%nat, 11300.
  split; [right; left; reflexivity|]. split; [left; reflexivity|]. split; [|split; reflexivity].
  apply (reaches_cons nu_data scen_all nu_params 2%nat (10000 + 100) nu_x nu_x 0 3%nat [(nu_y1, nu_y2)] 4%nat 11300 RX).
  - reflexivity.
  - vm_compute; discriminate.
  - vm_compute; reflexivity.
  - vm_compute; discriminate.
  - apply (reaches_last nu_data scen_all nu_params 3%nat (10150 + 0) nu_y1 nu_y2 RY);
      [reflexivity|vm_compute; discriminate].
Qed.

(* ============================================================================================== *)
(* 2. C10, last clause: no alternative beats routes[0]                                              *)

(* every route of alternativesRouting leaves at or after 0:00 (each is a calculateSingle answer) *)
Lemma alternatives_dep_nonneg : forall d s p acc egr rs total,
  wf_data_b d = true -> wf_tables_b d p acc egr = true -> wf_params_b p = true ->
  alternatives d (conn_set d s) p acc egr = Ok (rs, total) ->
  forall r, In r rs -> 0 <= rt_dep r.
Proof.
  intros d s p acc egr rs total Hwf Htab Hp H r Hin.
  apply alt_ok_inv in H. destruct H as (r1 & used1 & st & Hc & HI & Hrs & _).
  destruct (inv_routes _ _ _ _ _ _ _ _ _ HI) as (tl1 & Hr & Htl).
  subst rs. rewrite Hr in Hin. destruct Hin as [Heq|Hin].
  - subst r.
    destruct (ValidAdm.calc_single_journey d s p acc egr true r1 used1 Hwf Htab Hp Hc) as (_ & _ & _ & _ & H0 & _).
    exact H0.
  - pose proof (Htl r Hin) as Hrc. unfold recalc in Hrc. destruct Hrc as (comb & used & Hcalc & _).
    destruct (recalc_wf d s p acc egr r1 used1 comb Hwf Htab Hp Hc) as [Htab' Hp'].
    destruct (ValidAdm.calc_single_journey d s _ acc egr false r used Hwf Htab' Hp' Hcalc) as (_ & _ & _ & _ & H0 & _).
    exact H0.
Qed.

(* arrival queries: every route of alternativesRouting is an admissible journey of the ORIGINAL query *)
Theorem alternatives_journeys_rev : forall d s p acc egr rs total,
  wf_data_b d = true -> wf_tables_b d p acc egr = true -> wf_params_b p = true -> q_fwd p = false ->
  alternatives d (conn_set d s) p acc egr = Ok (rs, total) ->
  forall r, In r rs -> exists rides, admissible_rev d s p acc egr (rt_dep r) rides.
Proof.
  intros d s p acc egr rs total Hwf Htab Hp Hf H r Hin.
  destruct (alternatives_all_ok d s p acc egr rs total Hwf Htab Hp H r Hin) as (Hv & Hl & Ht).
  apply (ValidAdm.route_admissible_rev d s p acc egr r Hwf Hv Hl Ht Hf).
  apply (alternatives_dep_nonneg d s p acc egr rs total Hwf Htab Hp H r Hin).
Qed.

(* departure queries: no returned route arrives before routes[0] *)
Theorem C10_no_better_departure : forall d s p acc egr rs total r0,
  opt_domain d s p acc egr -> pos_hops_b d = true -> q_fwd p = true -> q_maxfw p <= 0 ->
  alternatives d (conn_set d s) p acc egr = Ok (rs, total) ->
  forall r, In r rs -> rt_arr (hd r0 rs) <= rt_arr r.
Proof.
  intros d s p acc egr rs total r0 Hdom Hpos Hf Hfw H r Hin.
  pose proof Hdom as (Hwf & _ & Htab & Hp & _).
  destruct (alt_first_is_plain d (conn_set d s) p acc egr rs total H) as (r1 & used & tl1 & Hc & Ers).
  destruct (ValidAdm.alternatives_journeys d s p acc egr rs total Hwf Htab Hp H r Hin) as [_ Hadm].
  destruct (Hadm Hf) as (rides & Hr).
  subst rs. cbn [hd].
  apply (proj2 (C03Ok.C03_ok_case d s p acc egr r1 used Hdom Hpos Hf Hfw Hc) rides (rt_arr r) Hr).
Qed.

(* arrival queries: no returned route leaves after routes[0]; the optimality of the plain answer (C04_decl,
   Proofs/RevOptCompose.v) is an explicit hypothesis here *)
Theorem C10_no_better_arrival : forall d s p acc egr rs total r0,
  opt_domain d s p acc egr -> q_fwd p = false ->
  C04_decl d s p acc egr ->
  alternatives d (conn_set d s) p acc egr = Ok (rs, total) ->
  forall r, In r rs -> rt_dep r <= rt_dep (hd r0 rs).
Proof.
  intros d s p acc egr rs total r0 Hdom Hf HC04 H r Hin.
  pose proof Hdom as (Hwf & _ & Htab & Hp & _).
  destruct (alt_first_is_plain d (conn_set d s) p acc egr rs total H) as (r1 & used & tl1 & Hc & Ers).
  destruct (alternatives_journeys_rev d s p acc egr rs total Hwf Htab Hp Hf H r Hin) as (rides & Hr).
  subst rs. cbn [hd].
  unfold C04_decl, route_answer in HC04. rewrite Hc in HC04. destruct HC04 as [_ Hmax].
  apply (Hmax (rt_dep r) rides Hr).
Qed.

(* the clause as property C10 words it, for both directions, under the domain restrictions of C03 / C04 *)
Theorem C10_no_better : forall d s p acc egr rs total r0,
  opt_domain d s p acc egr -> pos_hops_b d = true ->
  (q_fwd p = true -> q_maxfw p <= 0) ->
  (q_fwd p = false -> C04_decl d s p acc egr) ->
  alternatives d (conn_set d s) p acc egr = Ok (rs, total) ->
  forall r, In r rs ->
    if q_fwd p then rt_arr (hd r0 rs) <= rt_arr r else rt_dep r <= rt_dep (hd r0 rs).
Proof.
  intros d s p acc egr rs total r0 Hdom Hpos Hfw HC04 H r Hin.
  destruct (q_fwd p) eqn:Hf.
  - apply (C10_no_better_departure d s p acc egr rs total r0 Hdom Hpos Hf (Hfw eq_refl) H r Hin).
  - apply (C10_no_better_arrival d s p acc egr rs total r0 Hdom Hf (HC04 eq_refl) H r Hin).
Qed.

(* the same with the optimality of the arrival-time answer discharged (RevOptCompose.C04_decl_strong):
   the clause holds on the whole domain of C03 / C04, whatever the minimum waiting times *)
Theorem C10_no_better_proved : forall d s p acc egr rs total r0,
  opt_domain d s p acc egr -> pos_hops_b d = true ->
  (q_fwd p = true -> q_maxfw p <= 0) ->
  alternatives d (conn_set d s) p acc egr = Ok (rs, total) ->
  forall r, In r rs ->
    if q_fwd p then rt_arr (hd r0 rs) <= rt_arr r else rt_dep r <= rt_dep (hd r0 rs).
Proof.
  intros d s p acc egr rs total r0 Hdom Hpos Hfw H r Hin.
  apply (C10_no_better d s p acc egr rs total r0 Hdom Hpos Hfw); try assumption.
  intros Hf. apply (RevOptCompose.C04_decl_strong d s p acc egr Hdom Hpos Hf).
Qed.

(* ---------------------------------------------------------------------------------------------- *)
(* non-vacuity: the domains are inhabited, calculateSingle answers, alternativesRouting returns two routes
   in both directions (the second one arrives later / leaves no later than the first) *)
Example opt_compose_nonvacuous :
  opt_domain ex_data scen_all (cmp_params true 35000) ex_acc cmp_egr /\
  opt_domain ex_data scen_all (cmp_params false 37500) ex_acc cmp_egr /\
  pos_hops_b ex_data = true /\ uniform_wait_b ex_data = true /\ q_maxfw (cmp_params true 35000) <= 0 /\
  match route_answer ex_data scen_all (cmp_params true 35000) ex_acc cmp_egr with
  | Ok (r, _) => rt_dep r = 35840 /\ rt_arr r = 36750 | _ => False end /\
  match alternatives ex_data (conn_set ex_data scen_all) (cmp_params true 35000) ex_acc cmp_egr with
  | Ok (rs, _) => map rt_arr rs = [36750; 37000] | _ => False end /\
  match alternatives ex_data (conn_set ex_data scen_all) (cmp_params false 37500) ex_acc cmp_egr with
  | Ok (rs, _) => length rs = 2%nat /\
                  forallb (fun r => rt_dep r <=? rt_dep (hd (emit ex_data (cmp_params false 37500) 0 []) rs)) rs = true
  | _ => False end.
Proof. unfold opt_domain. vm_compute. repeat split; try reflexivity; discriminate. Qed.

Print Assumptions C03_mixed_wait_regression.
Print Assumptions alternatives_dep_nonneg.
Print Assumptions alternatives_journeys_rev.
Print Assumptions C10_no_better_departure.
Print Assumptions C10_no_better_arrival.
Print Assumptions C10_no_better.
Print Assumptions C10_no_better_proved.

(* OPEN: nothing of this file's scope is open.  The last clause of C10 holds in both directions under opt_domain,
   pos_hops_b and (departure queries) q_maxfw p <= 0 (C10_no_better_proved); C03 / C04 / C05 are in
   Proofs/RevOptCompose.v.  History: C03_mixed_wait_regression was, before the fix of the access-based break, a
   counterexample to C03_decl_statement (NO_ROUTING_FOUND although the journey shown is admissible). *)
