(* Proofs/Compose.v — the component theorems composed into the top-level statements about
   calculateSingle and alternativesRouting.

     1. calc_single_totals      C06 end to end: every route of calculateSingle has consistent totals
     2. calc_single_outcome     calculateSingle answers a route or a no-routing reason: no exception, no index
                                past a table, no undefined behaviour, no endless loop
     3. alternatives_all_ok     every route alternativesRouting returns is valid (C01), within the limits (C02)
                                and has consistent totals (C06) for the ORIGINAL query
     4. alternatives_outcome    alternativesRouting answers a route list or a no-routing reason (C10 end to end)

   Pieces used: RevInv (what the reverse scan and the rebuild loop hand over), Termination (the rebuild loop
   ends within |stops| + 1 steps), OptTotal (optimizeJourney ends within its fuel and never indexes past a trip),
   Index / SortFilter (the hour index is total for every conn_set), Rewrites / EmitValid / Totals / Limits /
   RouteValid (C01, C02, C06 for one route), AltProofs (the loop invariant of alternativesRouting). *)
From Coq Require Import List ZArith Bool Arith Lia Sorted.
From TrV Require Import Spec Proofs.Totals Proofs.SortFilter Proofs.Index Proofs.EmitValid Proofs.Rewrites Proofs.RevInv
                        Proofs.Termination Proofs.RouteValid Proofs.Limits Proofs.AltProofs Proofs.OptTotal.
Import ListNotations.
Local Open Scope Z_scope.

(* ---------------------------------------------------------------------------------------------- *)
(* 0. helpers                                                                                       *)

Lemma bind_Ok_eq : forall (A B : Type) (x : A) (f : A -> outcome B), bind (Ok x) f = f x.
Proof. intros A B x f. reflexivity. Qed.

Lemma bind_NoRouting_eq : forall (A B : Type) (r : nat) (f : A -> outcome B),
  bind (@NoRouting A r) f = NoRouting r.
Proof. intros A B r f. reflexivity. Qed.

(* an answer is good when it is a result or a no-routing reason *)
Definition answers {A : Type} (o : outcome A) : Prop :=
  (exists x, o = Ok x) \/ (exists reason, o = NoRouting reason).

(* ---------------------------------------------------------------------------------------------- *)
(* 1. totals for every route of calculateSingle                                                     *)

Lemma jleg_ok_in_data : forall d s p j, jleg_ok d s p j = true -> leg_in_data d j = true.
Proof.
  intros d s p j H.
  destruct (jleg_ok_inv d s p j H)
    as (b & e & t & tr & Hb & He & Ht & Tb & Te & Db & De & Ft & Ad & Cb & Cu & Le).
  unfold leg_in_data. rewrite Hb, He, Ht, Tb, Te, Nat.eqb_refl. cbn [andb].
  apply conn_in_data_inv in Db. rewrite Tb in Db. rewrite Db. apply Z.eqb_refl.
Qed.

Lemma journey_ok_shape : forall d s p acc egr bestdep js,
  journey_ok_b d s p acc egr bestdep js = true -> shape_ok d js = true.
Proof.
  intros d s p acc egr bestdep js H.
  destruct (journey_ok_inv d s p acc egr bestdep js H) as (a & legs & e & Ejs & Ha & He & Hall & b1 & el & Hfb & _).
  subst js. unfold shape_ok. rewrite Ha. cbn [andb].
  rewrite rev_unit. rewrite He. cbn [andb].
  assert (Hne : nonempty (rev legs) = true).
  { destruct legs as [|x legs]; [discriminate Hfb|]. cbn [rev].
    destruct (rev legs); reflexivity. }
  rewrite Hne. cbn [andb].
  rewrite forallb_forall in *. intros x Hx. apply (jleg_ok_in_data d s p). apply Hall.
  apply in_rev. exact Hx.
Qed.

Theorem calc_single_totals : forall d s p acc egr fresh r used,
  wf_data_b d = true -> wf_tables_b d p acc egr = true -> wf_params_b p = true ->
  calc_single d (conn_set d s) p acc egr fresh = Ok (r, used) -> totals_ok_b d p r = true.
Proof.
  intros d s p acc egr fresh r used Hwf Htab Hp Hcalc.
  destruct (calc_single_ok d s p acc egr fresh (r, used) Hwf Htab Hp Hcalc)
    as (arr & bestdep & ar & legs & er & el & js1 & used' & Hj & Hopt & Hres & _).
  inversion Hres; subst r used'.
  apply C06_totals. apply (journey_ok_shape d s p acc egr bestdep).
  apply (optimize_preserves (OPT_FUEL d) d s p acc egr bestdep _ js1 used Hwf
           (RouteValid.wf_params_minw p Hp) Hj Hopt).
Qed.

(* ---------------------------------------------------------------------------------------------- *)
(* 2. calculateSingle answers a route or a no-routing reason                                        *)

(* 2a. every connection departs inside the 32-hour clock *)
Lemma times_ok_nth : forall l k s, times_ok l = true -> nth_error l k = Some s ->
  0 <= st_arr s /\ st_arr s <= st_dep s /\ st_dep s < CLOCK_MAX.
Proof.
  induction l as [|s0 l IH]; intros k s H Hk.
  - destruct k; discriminate.
  - cbn [times_ok] in H.
    apply andb_true_iff in H. destruct H as [H Hr].
    apply andb_true_iff in H. destruct H as [H _].
    apply andb_true_iff in H. destruct H as [H H3].
    apply andb_true_iff in H. destruct H as [H1 H2].
    destruct k as [|k]; cbn [nth_error] in Hk.
    + injection Hk as <-. apply Z.leb_le in H1, H2. apply Z.ltb_lt in H3. lia.
    + apply (IH k s Hr Hk).
Qed.

Lemma conn_dep_clock : forall d c, wf_data_b d = true -> In c (all_conns d) -> 0 <= c_dep c < 115200.
Proof.
  intros d c Hwf Hc. destruct (all_conns_in d c Hc) as (tr & Htr & Hin).
  destruct (RevInv.wf_trip d Hwf tr Htr) as (pth & _ & _ & Ht).
  apply In_nth_error in Hin. destruct Hin as (k & Hk). unfold trip_conns in Hk.
  destruct (mk_conns_nth _ _ _ _ _ _ _ Hk) as (_ & _ & _ & _ & s0 & s1 & H0 & _ & Hd & _).
  destruct (times_ok_nth _ _ _ Ht H0) as (A & B & C). unfold CLOCK_MAX in C. lia.
Qed.

Lemma cs_fwd_in : forall d s c, In c (cs_fwd (conn_set d s)) -> In c (all_conns d).
Proof.
  intros d s c. unfold conn_set, mk_connset. cbn [cs_fwd]. intros H. apply filter_In in H. destruct H as [H _].
  unfold sorted_fwd in H. apply in_isort in H. exact H.
Qed.

(* 2b. the rebuild loop: more fuel does not change an answer; an answer has at most acc + fuel legs *)
Lemma set_last_walk_length : forall l w dd, length (set_last_walk l w dd) = length l.
Proof.
  induction l as [|x l IH]; intros w dd; [reflexivity|]. destruct l as [|y l]; [reflexivity|].
  change (set_last_walk (x :: y :: l) w dd) with (x :: set_last_walk (y :: l) w dd).
  cbn [length]. rewrite IH. reflexivity.
Qed.

Lemma rebuild_length : forall f steps cur acc last legs last',
  rebuild f steps cur acc last = Some (legs, last') -> (length legs <= length acc + f)%nat.
Proof.
  induction f as [|f IH]; intros steps cur acc last legs last' H.
  - destruct (js_enter cur) as [b|] eqn:Eb; [destruct (js_exit cur) as [e|] eqn:Ee|].
    + rewrite (rebuild_zero steps cur acc last b e Eb Ee) in H. discriminate.
    + rewrite rebuild_stop in H by (right; exact Ee). inversion H; subst. lia.
    + rewrite rebuild_stop in H by (left; exact Eb). inversion H; subst. lia.
  - destruct (js_enter cur) as [b|] eqn:Eb; [destruct (js_exit cur) as [e|] eqn:Ee|].
    + rewrite (rebuild_step f steps cur acc last b e Eb Ee) in H. apply IH in H.
      rewrite app_length in H. cbn [length] in H.
      assert (E : length (match acc with [] => [] | _ :: _ => set_last_walk acc (js_walk cur) (js_dist cur) end)
                  = length acc).
      { destruct acc; [reflexivity|apply set_last_walk_length]. }
      lia.
    + rewrite rebuild_stop in H by (right; exact Ee). inversion H; subst. lia.
    + rewrite rebuild_stop in H by (left; exact Eb). inversion H; subst. lia.
Qed.

Lemma rebuild_more_fuel : forall f steps cur acc last res,
  rebuild f steps cur acc last = Some res -> forall k, rebuild (f + k) steps cur acc last = Some res.
Proof.
  induction f as [|f IH]; intros steps cur acc last res H k.
  - destruct (js_enter cur) as [b|] eqn:Eb; [destruct (js_exit cur) as [e|] eqn:Ee|].
    + rewrite (rebuild_zero steps cur acc last b e Eb Ee) in H. discriminate.
    + rewrite rebuild_stop in H by (right; exact Ee). rewrite rebuild_stop by (right; exact Ee). exact H.
    + rewrite rebuild_stop in H by (left; exact Eb). rewrite rebuild_stop by (left; exact Eb). exact H.
  - destruct (js_enter cur) as [b|] eqn:Eb; [destruct (js_exit cur) as [e|] eqn:Ee|].
    + change (S f + k)%nat with (S (f + k)).
      rewrite (rebuild_step f steps cur acc last b e Eb Ee) in H.
      rewrite (rebuild_step (f + k) steps cur acc last b e Eb Ee). apply IH. exact H.
    + rewrite rebuild_stop in H by (right; exact Ee). rewrite rebuild_stop by (right; exact Ee). exact H.
    + rewrite rebuild_stop in H by (left; exact Eb). rewrite rebuild_stop by (left; exact Eb). exact H.
Qed.

(* 2c. after a reverse scan the rebuild loop returns at most |stops| + 2 legs (Termination's chain argument:
   the labels followed are pairwise distinct stops of the data) *)
Lemma rebuild_legs_bound : forall d s p acc egr k st start legs last,
  wf_data_b d = true -> wf_params_b p = true -> rev_pre d s p acc egr k ->
  rev_scan d p k false = Ok st ->
  rebuild (REBUILD_FUEL d) (r_steps st) start [] None = Some (legs, last) ->
  (length legs <= S (S (length (d_nodes d))))%nat.
Proof.
  intros d s p acc egr k st start legs last Hwf Hp Hpre Hscan Hreb.
  pose proof (rev_scan_inv d s p acc egr k st Hwf Hp Hpre Hscan) as HI.
  destruct (rev_scan_tinv d s p acc egr k st Hwf Hp Hpre Hscan) as (t & stamp & HT).
  set (n := length (d_nodes d)).
  assert (Hsmall : exists legs' last', rebuild (S (S n)) (r_steps st) start [] None = Some (legs', last')).
  { destruct (js_enter start) as [b0|] eqn:Eb; [|exists [], None; apply rebuild_stop; left; exact Eb].
    destruct (js_exit start) as [e0|] eqn:Ee; [|exists [], None; apply rebuild_stop; right; exact Ee].
    rewrite (rebuild_step _ (r_steps st) start [] None b0 e0 Eb Ee).
    apply (rebuild_fuel_ok (d_nodes d) t (r_taur st) (r_steps st) stamp HT) with (visited := []).
    - intros m b e Hb _. apply (labelled_in_nodes d s p k _ _ _ _ m b Hwf HI Hb).
    - constructor.
    - intros x Hx. destruct Hx.
    - intros b e _ _ v Hv. destruct Hv.
    - cbn [length]. subst n. lia. }
  destruct Hsmall as (legs' & last' & Hs).
  pose proof (rebuild_more_fuel _ _ _ _ _ _ Hs (REBUILD_FUEL d - S (S n))%nat) as Hm.
  replace (S (S n) + (REBUILD_FUEL d - S (S n)))%nat with (REBUILD_FUEL d) in Hm
    by (unfold REBUILD_FUEL; subst n; lia).
  rewrite Hm in Hreb. inversion Hreb; subst legs' last'.
  apply rebuild_length in Hs. cbn [length] in Hs. lia.
Qed.

(* 2d. the reverse calculation: each branch that would throw, index past a table or loop is unreachable *)
Lemma calc_reverse_answers : forall d s p acc egr k,
  wf_data_b d = true -> wf_params_b p = true -> rev_pre d s p acc egr k ->
  answers (calc_reverse d p k).
Proof.
  intros d s p acc egr k Hwf Hp Hpre. unfold calc_reverse.
  destruct (rev_scan_total d p k false) as (st & Hscan).
  - rewrite (rp_set _ _ _ _ _ _ Hpre). unfold arr_sorted_desc. apply conn_set_rev_sorted.
  - rewrite (rp_set _ _ _ _ _ _ Hpre). apply (proj2 (conn_set_indexes d s)).
  - rewrite Hscan, bind_Ok_eq.
    destruct (r_count st =? 0); [right; eexists; reflexivity|].
    unfold rev_journey.
    destruct (best_access p k st) as [[bestdep node]|] eqn:Hbest; [|right; eexists; reflexivity].
    pose proof (best_access_spec p k st) as HB. rewrite Hbest in HB. unfold BA in HB.
    destruct HB as (j & b & ar0 & Bj & _).
    rewrite Bj.
    destruct (rebuild_terminates d s p acc egr k st node j Hwf Hp Hpre Hscan Bj) as (legs & last & Hreb).
    rewrite Hreb.
    destruct (rev_journey_ok_gen_cap d s p acc egr k st bestdep node j (REBUILD_FUEL d) legs last
                                     Hwf Hp Hpre Hscan Hbest Bj Hreb)
      as (ar & er & ln & L1 & L2 & L3 & L4 & _).
    rewrite (rp_acc _ _ _ _ _ _ Hpre), (rp_egr _ _ _ _ _ _ Hpre), L2. subst last. rewrite L3.
    pose proof (rebuild_legs_bound d s p acc egr k st j legs (Some ln) Hwf Hp Hpre Hscan Hreb) as Hlen.
    destruct (optimize_total_wide d s p acc egr bestdep (walk_step ar :: legs ++ [walk_step er])
                                  Hwf (RouteValid.wf_params_minw p Hp) L4) as (js' & used & Hopt).
    + cbn [length]. rewrite app_length. cbn [length]. lia.
    + rewrite Hopt. left. eexists. reflexivity.
Qed.

(* 2e. calculateSingle *)
Lemma calc_single_answers : forall d s p acc egr fresh,
  wf_data_b d = true -> wf_tables_b d p acc egr = true -> wf_params_b p = true ->
  answers (calc_single d (conn_set d s) p acc egr fresh).
Proof.
  intros d s p acc egr fresh Hwf Htab Hp.
  pose proof (wf_params_time p Hp) as Htime.
  unfold calc_single.
  destruct (access_reason (negb fresh || nonempty acc) (negb fresh || nonempty egr)) as [r0|];
    [right; exists r0; reflexivity|].
  cbv zeta. set (k := mk_calc d p (conn_set d s) acc egr true true).
  destruct (q_fwd p) eqn:Hf.
  - assert (Ek : k_dep k = q_time p) by (unfold k, mk_calc; cbn [k_dep]; rewrite Hf; reflexivity).
    assert (Eg : (k_dep k >? -1) = true) by (apply Z.gtb_lt; lia).
    rewrite Eg. cbn [andb].
    destruct (fwd_scan_total d p k false) as (fs & Hscan).
    + unfold dep_sorted. apply conn_set_fwd_sorted.
    + intros c Hc. apply (conn_dep_clock d c Hwf). apply (cs_fwd_in d s). exact Hc.
    + reflexivity.
    + rewrite Hscan, bind_Ok_eq. destruct (f_count fs =? 0); [right; eexists; reflexivity|].
      destruct (best_egress p k fs) as [[best n0]|] eqn:Hbest; [|right; eexists; reflexivity].
      apply (calc_reverse_answers d s p acc egr _ Hwf Hp).
      apply (calc_single_rev_pre_departure d s p acc egr fs best Htab Hf Hscan).
  - rewrite andb_false_r.
    assert (Ek : k_arr k = q_time p) by (unfold k, mk_calc; cbn [k_arr]; rewrite Hf; reflexivity).
    assert (Eg : (k_arr k >? -1) = true) by (apply Z.gtb_lt; lia).
    rewrite Eg.
    apply (calc_reverse_answers d s p acc egr _ Hwf Hp).
    apply (calc_single_rev_pre_arrival d s p acc egr Htab).
Qed.

Theorem calc_single_outcome : forall d s p acc egr fresh,
  wf_data_b d = true -> wf_tables_b d p acc egr = true -> wf_params_b p = true ->
  (exists r used, calc_single d (conn_set d s) p acc egr fresh = Ok (r, used)) \/
  (exists reason, calc_single d (conn_set d s) p acc egr fresh = NoRouting reason).
Proof.
  intros d s p acc egr fresh Hwf Htab Hp.
  destruct (calc_single_answers d s p acc egr fresh Hwf Htab Hp) as [[[r used] E]|[reason E]].
  - left. exists r, used. exact E.
  - right. exists reason. exact E.
Qed.

(* ---------------------------------------------------------------------------------------------- *)
(* 3. alternatives: every returned route is valid, within limits and consistent for the ORIGINAL query *)

Tactic Notation "peelb" hyp(H) ident(W) := apply andb_true_iff in H; destruct H as [H W].

(* 3a. the modified query of a recalculation keeps everything but max_travel_time and the excluded lines *)
Lemma wf_tables_alt : forall d p m ex acc egr,
  wf_tables_b d (with_alt p m ex) acc egr = wf_tables_b d p acc egr.
Proof. intros d p m ex acc egr. reflexivity. Qed.

Lemma wf_params_maxtt : forall p, wf_params_b p = true -> 0 < q_maxtt p.
Proof.
  intros p H. unfold wf_params_b in H.
  peelb H P8. peelb H P7. peelb H P6. peelb H P5. peelb H P4. apply Z.ltb_lt in P4. exact P4.
Qed.

Lemma wf_params_alt : forall p m ex, wf_params_b p = true -> 0 < m -> wf_params_b (with_alt p m ex) = true.
Proof.
  intros p m ex H Hm. unfold wf_params_b in *. unfold with_alt.
  cbn [q_time q_minw q_maxtt q_maxtr q_maxacc q_maxegr q_maxfw].
  peelb H P8. peelb H P7. peelb H P6. peelb H P5. peelb H P4. peelb H P3. peelb H P2.
  apply Z.ltb_lt in Hm. rewrite H, P2, P3, Hm, P5, P6, P7, P8. reflexivity.
Qed.

Lemma trip_admitted_mono : forall d s p m ex t, incl (q_except_lines p) ex ->
  trip_admitted d s (with_alt p m ex) t = true -> trip_admitted d s p t = true.
Proof.
  intros d s p m ex t Hincl H. unfold trip_admitted in *. unfold with_alt in H. cbn [q_except_lines] in H.
  peelb H H2. rewrite H. cbn [andb].
  apply negb_true_iff in H2. apply negb_true_iff.
  destruct (memb (trip_line d t) (q_except_lines p)) eqn:E; [|reflexivity].
  apply memb_In in E. apply Hincl in E. apply memb_In in E. congruence.
Qed.

Lemma leg_ok_mono : forall d s p m ex l, incl (q_except_lines p) ex ->
  leg_ok d s (with_alt p m ex) l = true -> leg_ok d s p l = true.
Proof.
  intros d s p m ex l Hincl H. unfold leg_ok in *.
  destruct (find_trip d (lg_trip l)) as [tr|]; [|discriminate].
  destruct (find_conn d (lg_trip l) (lg_bseq l)) as [b|]; [|discriminate].
  destruct (find_conn d (lg_trip l) (lg_useq l)) as [e|]; [|discriminate].
  peelb H L8. peelb H L7. peelb H L6. peelb H L5. peelb H L4. peelb H L3. peelb H L2.
  rewrite (trip_admitted_mono d s p m ex tr Hincl H), L2, L3, L4, L5, L6, L7, L8. reflexivity.
Qed.

Lemma chain_ok_alt : forall d p m ex l ready,
  chain_ok d (with_alt p m ex) ready l = chain_ok d p ready l.
Proof.
  intros d p m ex. induction l as [|x r IH]; intros ready; [reflexivity|].
  cbn [chain_ok].
  destruct (lg_walk x) as [[w dd]|]; destruct r as [|y r']; try reflexivity.
  rewrite IH. reflexivity.
Qed.

Lemma valid_mono : forall d s p maxtt ex acc egr r, incl (q_except_lines p) ex ->
  valid_itinerary_b d s (with_alt p maxtt ex) acc egr r = true -> valid_itinerary_b d s p acc egr r = true.
Proof.
  intros d s p m ex acc egr r Hincl H. unfold valid_itinerary_b in *.
  destruct (parse_route r) as [[[[aw adep] legs] ew]|]; [|discriminate].
  destruct legs as [|first legs']; [discriminate|].
  destruct (last_leg (first :: legs')) as [lastl|]; [|discriminate].
  peelb H Hc. peelb H Hl. rewrite H. cbn [andb].
  rewrite chain_ok_alt in Hc. rewrite Hc, andb_true_r.
  rewrite forallb_forall in *. intros l Hin. apply (leg_ok_mono d s p m ex l Hincl). apply Hl. exact Hin.
Qed.

Lemma limits_mono : forall d s p maxtt ex r, incl (q_except_lines p) ex -> maxtt <= q_maxtt p ->
  limits_ok_b d s (with_alt p maxtt ex) r = true -> limits_ok_b d s p r = true.
Proof.
  intros d s p m ex r Hincl Hle H. unfold limits_ok_b in *. unfold with_alt in H.
  cbn [q_time q_maxtt q_maxtr q_maxacc q_maxegr q_maxfw q_fwd] in H. fold (with_alt p m ex) in H.
  destruct (parse_route r) as [[[[aw adep] legs] ew]|]; [|discriminate].
  peelb H L6. peelb H L5. peelb H L4. peelb H L3. peelb H L2.
  rewrite L2, L3, L4, L5. rewrite !andb_true_r.
  apply andb_true_iff. split.
  - destruct (q_fwd p).
    + peelb H H2. rewrite H. cbn [andb]. apply Z.leb_le in H2. apply Z.leb_le. lia.
    + peelb H H2. rewrite H. cbn [andb]. apply Z.leb_le in H2. apply Z.leb_le. lia.
  - rewrite forallb_forall in *. intros l Hin. specialize (L6 l Hin).
    destruct (find_trip d (lg_trip l)) as [tr|]; [|discriminate].
    apply (trip_admitted_mono d s p m ex tr Hincl L6).
Qed.

Lemma steps_chain_alt : forall d p m ex l prev bdep first a,
  steps_chain d (with_alt p m ex) prev bdep first l a = steps_chain d p prev bdep first l a.
Proof.
  intros d p m ex. induction l as [|x l IH]; intros prev bdep first a; [reflexivity|].
  destruct x as [k w dist dep arr rdy | t ls ss n dep wait | t ls ss n arr ivt ivd];
    cbn [steps_chain]; rewrite IH; reflexivity.
Qed.

Lemma totals_alt : forall d p m ex r, totals_ok_b d (with_alt p m ex) r = totals_ok_b d p r.
Proof. intros d p m ex r. unfold totals_ok_b. rewrite steps_chain_alt. reflexivity. Qed.

(* 3b. the clock does not go back along a valid chain: a route's travel time is not negative *)
Lemma jchain_time : forall d s p, wf_data_b d = true -> 0 <= q_minw p ->
  forall legs ready el, forallb (jleg_ok d s p) legs = true -> jchain_ok d p ready legs = true ->
  last_alight legs = Some el -> ready <= c_arr el.
Proof.
  intros d s p Hwf Hmw. induction legs as [|x R IH]; intros ready el Hall Hch Hla.
  - unfold last_alight in Hla. cbn [rev] in Hla. discriminate Hla.
  - cbn [forallb] in Hall. peelb Hall HR.
    apply jchain_step in Hch. destruct Hch as (b & e & Hb & He & Hbd & Hrest).
    destruct (jleg_ok_at d s p x Hall) as (b0 & e0 & t & tr & kb & ke & A1 & A2 & A3 & Ft & Pb & Pe & Hk & _).
    rewrite Hb in A1. inversion A1; subst b0. rewrite He in A2. inversion A2; subst e0.
    destruct (at_pos_times d t tr kb ke b e Hwf Ft Pb Pe Hk) as (_ & _ & Hde).
    pose proof (minw_eff_nonneg p b Hmw) as Hm. rewrite minw_eff_true in Hm.
    destruct Hrest as [HRnil|(b' & Hfb & Hl & Hc)].
    + subst R. rewrite last_alight_one, He in Hla. inversion Hla; subst el. lia.
    + assert (HRne : R <> []) by (intros HX; subst R; discriminate Hfb).
      rewrite (last_alight_cons x R HRne) in Hla.
      pose proof (IH _ el HR Hc Hla) as Hih.
      assert (Hw : 0 <= js_walk x).
      { unfold linkb in Hl. peelb Hl Hl2.
        destruct (Nat.eqb (c_to e) (c_from b')).
        - apply Z.eqb_eq in Hl. lia.
        - apply (wf_fp_nonneg d (c_to e) (c_from b') _ Hwf); [|exact Hl].
          apply (at_pos_node d t tr ke e Hwf Ft Pe). }
      lia.
Qed.

Lemma wf_tables_nonneg : forall d p acc egr, wf_tables_b d p acc egr = true ->
  (forall r, In r acc -> 0 <= fp_time r) /\ (forall r, In r egr -> 0 <= fp_time r).
Proof.
  intros d p acc egr H. unfold wf_tables_b in H.
  peelb H T6. peelb H T5. peelb H T4. peelb H T3. peelb H T2.
  unfold rows_ok in H, T2. rewrite forallb_forall in H, T2.
  split; intros r Hr; [specialize (H r Hr); rename H into X|specialize (T2 r Hr); rename T2 into X];
    peelb X X4; peelb X X3; peelb X X2; apply Z.leb_le in X2; exact X2.
Qed.

Lemma emit_ttt : forall d p bd js,
  rt_ttt (emit d p bd js) = rt_arr (emit d p bd js) - rt_dep (emit d p bd js).
Proof. intros d p bd js. reflexivity. Qed.

Theorem calc_single_ttt_nonneg : forall d s p acc egr fresh r used,
  wf_data_b d = true -> wf_tables_b d p acc egr = true -> wf_params_b p = true ->
  calc_single d (conn_set d s) p acc egr fresh = Ok (r, used) -> 0 <= rt_ttt r.
Proof.
  intros d s p acc egr fresh r used Hwf Htab Hp Hcalc.
  destruct (calc_single_ok d s p acc egr fresh (r, used) Hwf Htab Hp Hcalc)
    as (arr & bestdep & ar & legs & er & el & js1 & used' & Hj & Hopt & Hres & _).
  inversion Hres; subst r used'.
  pose proof (RouteValid.wf_params_minw p Hp) as Hmw.
  pose proof (optimize_preserves (OPT_FUEL d) d s p acc egr bestdep _ js1 used Hwf Hmw Hj Hopt) as Hj1.
  destruct (journey_ok_inv d s p acc egr bestdep js1 Hj1)
    as (a & legs1 & e & Ejs & Ha & He & Hall & b1 & el1 & Hfb & Hla & Hra & Hre & Hch).
  subst js1.
  assert (Hlegs : forall j, In j legs1 -> is_leg j).
  { intros j Hj0. rewrite forallb_forall in Hall.
    destruct (jleg_ok_inv d s p j (Hall j Hj0)) as (b & x & t & tr & Hb & Hx & Ht & _).
    exists b, x, t. auto. }
  destruct (emit_shape d p bestdep a legs1 e el1 Ha He Hlegs Hla) as (_ & Hdep & Harr).
  rewrite emit_ttt, Hdep, Harr.
  destruct (wf_tables_nonneg d p acc egr Htab) as [Na Ne].
  destruct (has_row_inv _ _ _ Hra) as (ra & Ia & _ & Ta).
  destruct (has_row_inv _ _ _ Hre) as (re & Ie & _ & Te).
  pose proof (Na ra Ia) as Hwa. pose proof (Ne re Ie) as Hwe.
  pose proof (jchain_time d s p Hwf Hmw legs1 _ el1 Hall Hch Hla) as Hclock. lia.
Qed.

(* 3c. the reduced max_travel_time of the recalculations is positive *)
Lemma alt_maxtt_pos : forall p r, 0 < q_maxtt p -> 0 <= rt_ttt r -> 0 < alt_maxtt p r.
Proof.
  intros p r Hq Ht. unfold alt_maxtt. cbv zeta.
  apply Z.min_glb_lt; [|exact Hq].
  unfold ALT_MIN_MAXTT, GEN_ALT_MIN_MAXTT, ALT_ADDED, GEN_ALT_ADDED.
  match goal with |- 0 < (if ?c then _ else _) => destruct c eqn:E1 end; [lia|].
  match goal with |- 0 < (if ?c then _ else _) => destruct c eqn:E2 end; [lia|].
  apply Z.ltb_ge in E1. lia.
Qed.

(* 3d. the hypotheses of the single-route theorems hold for every recalculation *)
Lemma recalc_wf : forall d s p acc egr r1 used1 comb,
  wf_data_b d = true -> wf_tables_b d p acc egr = true -> wf_params_b p = true ->
  calc_single d (conn_set d s) p acc egr true = Ok (r1, used1) ->
  wf_tables_b d (with_alt p (alt_maxtt p r1) (q_except_lines p ++ comb)) acc egr = true /\
  wf_params_b (with_alt p (alt_maxtt p r1) (q_except_lines p ++ comb)) = true.
Proof.
  intros d s p acc egr r1 used1 comb Hwf Htab Hp Hc. split.
  - rewrite wf_tables_alt. exact Htab.
  - apply wf_params_alt; [exact Hp|].
    apply alt_maxtt_pos; [apply wf_params_maxtt; exact Hp|].
    apply (calc_single_ttt_nonneg d s p acc egr true r1 used1 Hwf Htab Hp Hc).
Qed.

Theorem alternatives_all_ok : forall d s p acc egr rs total,
  wf_data_b d = true -> wf_tables_b d p acc egr = true -> wf_params_b p = true ->
  alternatives d (conn_set d s) p acc egr = Ok (rs, total) ->
  forall r, In r rs ->
    valid_itinerary_b d s p acc egr r = true /\ limits_ok_b d s p r = true /\ totals_ok_b d p r = true.
Proof.
  intros d s p acc egr rs total Hwf Htab Hp H r Hin.
  apply alt_ok_inv in H. destruct H as (r1 & used1 & st & Hc & HI & Hrs & _).
  destruct (inv_routes _ _ _ _ _ _ _ _ _ HI) as (tl1 & Hr & Htl).
  subst rs. rewrite Hr in Hin. destruct Hin as [Heq|Hin].
  - subst r. split; [|split].
    + apply (calc_single_valid d s p acc egr true r1 used1 Hwf Htab Hp Hc).
    + apply (calc_single_limits d s p acc egr true r1 used1 Hwf Htab Hp Hc).
    + apply (calc_single_totals d s p acc egr true r1 used1 Hwf Htab Hp Hc).
  - pose proof (Htl r Hin) as Hrc. unfold recalc in Hrc. destruct Hrc as (comb & used & Hcalc & _).
    destruct (recalc_wf d s p acc egr r1 used1 comb Hwf Htab Hp Hc) as [Htab' Hp'].
    assert (Hle : alt_maxtt p r1 <= q_maxtt p) by (unfold alt_maxtt; apply Z.le_min_r).
    assert (Hincl : incl (q_except_lines p) (q_except_lines p ++ comb)) by (apply incl_appl; apply incl_refl).
    split; [|split].
    + apply (valid_mono d s p (alt_maxtt p r1) (q_except_lines p ++ comb) acc egr r Hincl).
      apply (calc_single_valid d s _ acc egr false r used Hwf Htab' Hp' Hcalc).
    + apply (limits_mono d s p (alt_maxtt p r1) (q_except_lines p ++ comb) r Hincl Hle).
      apply (calc_single_limits d s _ acc egr false r used Hwf Htab' Hp' Hcalc).
    + rewrite <- (totals_alt d p (alt_maxtt p r1) (q_except_lines p ++ comb) r).
      apply (calc_single_totals d s _ acc egr false r used Hwf Htab' Hp' Hcalc).
Qed.

(* ---------------------------------------------------------------------------------------------- *)
(* 4. alternativesRouting answers a route list or a no-routing reason                               *)

Lemma alt_loop_answers : forall d cs p altp acc egr base_ex,
  (forall comb, answers (calc_single d cs (with_alt p altp (base_ex ++ comb)) acc egr false)) ->
  forall fuel st i, exists st', alt_loop fuel d cs p altp acc egr base_ex st i = Ok st'.
Proof.
  intros d cs p altp acc egr base_ex Hall. induction fuel as [|f IH]; intros st i; cbn [alt_loop].
  - eexists. reflexivity.
  - destruct (nth_error (a_all st) i) as [comb|]; [|eexists; reflexivity].
    destruct ((a_count st <? MAX_ALTERNATIVES) && (a_seq st - 1 <? MAX_VALID_ALTERNATIVES));
      [|eexists; reflexivity].
    destruct (Hall comb) as [[[r used] E]|[reason E]]; rewrite E; apply IH.
Qed.

Theorem alternatives_outcome : forall d s p acc egr,
  wf_data_b d = true -> wf_tables_b d p acc egr = true -> wf_params_b p = true ->
  (exists rs total, alternatives d (conn_set d s) p acc egr = Ok (rs, total)) \/
  (exists reason, alternatives d (conn_set d s) p acc egr = NoRouting reason).
Proof.
  intros d s p acc egr Hwf Htab Hp. rewrite alternatives_unfold.
  destruct (calc_single_outcome d s p acc egr true Hwf Htab Hp) as [(r1 & used1 & E)|(reason & E)].
  - left. rewrite E, bind_Ok_eq. cbv beta. cbn [fst].
    destruct (alt_loop_answers d (conn_set d s) p (alt_maxtt p r1) acc egr (q_except_lines p)) with
      (fuel := ALT_FUEL) (st := alt_st0 d r1) (i := 0%nat) as (st' & El).
    + intros comb.
      destruct (recalc_wf d s p acc egr r1 used1 comb Hwf Htab Hp E) as [Htab' Hp'].
      apply (calc_single_answers d s _ acc egr false Hwf Htab' Hp').
    + rewrite El, bind_Ok_eq. eexists. eexists. reflexivity.
  - right. exists reason. rewrite E. apply bind_NoRouting_eq.
Qed.

(* ---------------------------------------------------------------------------------------------- *)
(* non-vacuity: the hypotheses hold; alternativesRouting returns the plain route and one recalculated
   route (line 2 excluded, max_travel_time reduced from 7200 s to 2432 s), both pass the three checkers for the
   original query; a query after the last departure answers a no-routing reason *)
From TrV Require Import Examples.
Definition cmp_params (fwd : bool) (t : Z) : params :=
  {| q_scenario := 1; q_time := t; q_minw := 60; q_maxtt := 7200; q_maxacc := 1200; q_maxegr := 1200;
     q_maxtr := 1200; q_maxfw := -1; q_fwd := fwd; q_except_lines := [] |}.
Definition cmp_egr : list fprow := [row 4 50 60; row 3 100 100].
Example compose_nonvacuous :
  wf_data_b ex_data = true /\ wf_tables_b ex_data (cmp_params true 35000) ex_acc cmp_egr = true /\
  wf_params_b (cmp_params true 35000) = true /\ wf_params_b (cmp_params false 37500) = true /\
  match alternatives ex_data (conn_set ex_data scen_all) (cmp_params true 35000) ex_acc cmp_egr with
  | Ok (rs, total) =>
      map (fun r => (rt_dep r, rt_arr r, route_lines ex_data r)) rs
        = [(35840, 36750, [1; 2]%nat); (35840, 37000, [1%nat])] /\ total = 5 /\
      alt_maxtt (cmp_params true 35000) (hd (emit ex_data (cmp_params true 35000) 0 []) rs) = 2432 /\
      forallb (fun r => valid_itinerary_b ex_data scen_all (cmp_params true 35000) ex_acc cmp_egr r &&
                        limits_ok_b ex_data scen_all (cmp_params true 35000) r &&
                        totals_ok_b ex_data (cmp_params true 35000) r) rs = true
  | _ => False
  end /\
  match alternatives ex_data (conn_set ex_data scen_all) (cmp_params false 37500) ex_acc cmp_egr with
  | Ok (rs, _) => length rs = 2%nat
  | _ => False
  end /\
  alternatives ex_data (conn_set ex_data scen_all) (cmp_params true 37000) ex_acc cmp_egr
    = NoRouting R_NO_SERVICE_FROM_ORIGIN.
Proof. vm_compute. repeat split; reflexivity. Qed.

Print Assumptions journey_ok_shape.
Print Assumptions calc_single_totals.
Print Assumptions calc_single_outcome.
Print Assumptions calc_single_ttt_nonneg.
Print Assumptions valid_mono.
Print Assumptions limits_mono.
Print Assumptions alternatives_all_ok.
Print Assumptions alternatives_outcome.
