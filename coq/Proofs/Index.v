(* Proofs/Index.v — the hour index (connection_set.cpp:32-74) and its use by the scans (C12, index half).

   fwd_index_spec / rev_index_spec : what the two 32-entry tables contain.
   C12_index_fwd / C12_index_rev   : entering the scan through the table does not change its result:
                                     every skipped connection fails the first guard of the step.
   fwd_entry_hour32_oob            : the forward lookup guard lets hour 32 through, which is one past the end
                                     of the table (the defect the 32 h bound on request times hides). *)
From Coq Require Import List ZArith Bool Arith Lia Sorted.
From TrV Require Import Spec.
Import ListNotations.
Local Open Scope Z_scope.

Definition dep_sorted (cs : list conn) : Prop := StronglySorted (fun a b => c_dep a <= c_dep b) cs.
Definition arr_sorted_desc (cs : list conn) : Prop := StronglySorted (fun a b => c_arr b <= c_arr a) cs.

(* number of connections departing before hour h / arriving after hour h *)
Definition cnt_dep_lt (h : Z) (cs : list conn) : nat := length (filter (fun c => c_dep c <? h * 3600) cs).
Definition cnt_arr_gt (h : Z) (cs : list conn) : nat := length (filter (fun c => c_arr c >? h * 3600) cs).

(* the table size: connection_set.cpp:8-9 (the model takes the two constants from the generated
   gen/Consts.v; the proofs below are about these values) *)
Lemma BEGIN_HOUR_val : BEGIN_HOUR = 0. Proof. reflexivity. Qed.
Lemma END_HOUR_val : END_HOUR = 32. Proof. reflexivity. Qed.
Ltac hours := change BEGIN_HOUR with 0; change END_HOUR with 32.

(* ---------------------------------------------------------------------------------------------- *)
(* small instances (sanity checks of the statements, evaluated)                                     *)

Definition mkc (dep arr : Z) : conn :=
  {| c_trip := 0; c_seq := 0; c_from := 0; c_to := 0; c_dep := dep; c_arr := arr;
     c_cb := true; c_cu := true; c_minw := 0 |}.

Example fwd_index_ex1 :
  fwd_index [mkc 0 10; mkc 3599 10; mkc 3600 10; mkc 20000 10; mkc 115199 10] =
  map (fun h => cnt_dep_lt h [mkc 0 10; mkc 3599 10; mkc 3600 10; mkc 20000 10; mkc 115199 10])
      [0;1;2;3;4;5;6;7;8;9;10;11;12;13;14;15;16;17;18;19;20;21;22;23;24;25;26;27;28;29;30;31].
Proof. vm_compute. reflexivity. Qed.

(* without the 32 h bound on departures the forward table grows past 32 entries *)
Example fwd_index_long : length (fwd_index [mkc 120000 120010]) = 34%nat.
Proof. vm_compute. reflexivity. Qed.

Example rev_index_ex1 :
  rev_index [mkc 0 200000; mkc 0 115200; mkc 0 7201; mkc 0 7200; mkc 0 3600; mkc 0 1; mkc 0 0; mkc 0 (-5)] =
  8%nat :: map (fun h => cnt_arr_gt h [mkc 0 200000; mkc 0 115200; mkc 0 7201; mkc 0 7200; mkc 0 3600; mkc 0 1; mkc 0 0; mkc 0 (-5)])
      [1;2;3;4;5;6;7;8;9;10;11;12;13;14;15;16;17;18;19;20;21;22;23;24;25;26;27;28;29;30;31].
Proof. vm_compute. reflexivity. Qed.

(* ---------------------------------------------------------------------------------------------- *)
(* list helpers                                                                                     *)

Lemma filter_none {A} (f : A -> bool) (l : list A) :
  (forall x, In x l -> f x = false) -> filter f l = [].
Proof.
  induction l as [|a l IH]; intros H; [reflexivity|].
  cbn [filter]. rewrite (H a (or_introl eq_refl)). apply IH. intros x Hx. apply H. right. exact Hx.
Qed.

Lemma filter_all {A} (f : A -> bool) (l : list A) :
  (forall x, In x l -> f x = true) -> filter f l = l.
Proof.
  induction l as [|a l IH]; intros H; [reflexivity|].
  cbn [filter]. rewrite (H a (or_introl eq_refl)). f_equal. apply IH. intros x Hx. apply H. right. exact Hx.
Qed.

Lemma cnt_dep_lt_cons_lt h c r : c_dep c < h * 3600 -> cnt_dep_lt h (c :: r) = S (cnt_dep_lt h r).
Proof.
  intros H. unfold cnt_dep_lt. cbn [filter].
  destruct (Z.ltb_spec (c_dep c) (h * 3600)) as [_|Hge]; [reflexivity|lia].
Qed.

Lemma cnt_dep_lt_zero h cs : (forall c, In c cs -> h * 3600 <= c_dep c) -> cnt_dep_lt h cs = 0%nat.
Proof.
  intros H. unfold cnt_dep_lt. rewrite filter_none; [reflexivity|].
  intros x Hx. specialize (H x Hx). apply Z.ltb_ge. exact H.
Qed.

Lemma cnt_dep_lt_all h cs : (forall c, In c cs -> c_dep c < h * 3600) -> cnt_dep_lt h cs = length cs.
Proof.
  intros H. unfold cnt_dep_lt. rewrite filter_all; [reflexivity|].
  intros x Hx. specialize (H x Hx). apply Z.ltb_lt. exact H.
Qed.

Lemma cnt_arr_gt_cons_gt h c r : c_arr c > h * 3600 -> cnt_arr_gt h (c :: r) = S (cnt_arr_gt h r).
Proof.
  intros H. unfold cnt_arr_gt. cbn [filter].
  destruct (Z.gtb_spec (c_arr c) (h * 3600)) as [_|Hle]; [reflexivity|lia].
Qed.

Lemma cnt_arr_gt_zero h cs : (forall c, In c cs -> c_arr c <= h * 3600) -> cnt_arr_gt h cs = 0%nat.
Proof.
  intros H. unfold cnt_arr_gt. rewrite filter_none; [reflexivity|].
  intros x Hx. specialize (H x Hx). destruct (Z.gtb_spec (c_arr x) (h * 3600)); [lia|reflexivity].
Qed.

Lemma cnt_arr_gt_all h cs : (forall c, In c cs -> c_arr c > h * 3600) -> cnt_arr_gt h cs = length cs.
Proof.
  intros H. unfold cnt_arr_gt. rewrite filter_all; [reflexivity|].
  intros x Hx. specialize (H x Hx). destruct (Z.gtb_spec (c_arr x) (h * 3600)); [reflexivity|lia].
Qed.

Lemma dep_sorted_inv c r : dep_sorted (c :: r) -> dep_sorted r /\ forall x, In x r -> c_dep c <= c_dep x.
Proof.
  intros H. apply StronglySorted_inv in H. destruct H as [Hr Hall]. split; [exact Hr|].
  apply Forall_forall. exact Hall.
Qed.

Lemma arr_sorted_desc_inv c r : arr_sorted_desc (c :: r) -> arr_sorted_desc r /\ forall x, In x r -> c_arr x <= c_arr c.
Proof.
  intros H. apply StronglySorted_inv in H. destruct H as [Hr Hall]. split; [exact Hr|].
  apply Forall_forall. exact Hall.
Qed.

(* ---------------------------------------------------------------------------------------------- *)
(* forward table                                                                                    *)

(* how many hours one connection opens *)
Definition fwd_k (c : conn) (cur : Z) : nat :=
  if c_dep c >=? cur * 3600 then Z.to_nat (c_dep c / 3600 - cur + 1) else 0%nat.

Lemma fwd_index_loop_cons c r pos cur acc :
  fwd_index_loop (c :: r) pos cur acc =
  fwd_index_loop r (S pos) (cur + Z.of_nat (fwd_k c cur)) (acc ++ repeat pos (fwd_k c cur)).
Proof. reflexivity. Qed.

Lemma fwd_k_spec c cur :
  0 <= cur ->
  cur <= cur + Z.of_nat (fwd_k c cur) /\
  c_dep c < (cur + Z.of_nat (fwd_k c cur)) * 3600 /\
  (forall h, cur <= h < cur + Z.of_nat (fwd_k c cur) -> h * 3600 <= c_dep c) /\
  (forall B, cur <= B -> c_dep c < B * 3600 -> cur + Z.of_nat (fwd_k c cur) <= B).
Proof.
  intros Hcur. unfold fwd_k.
  destruct (Z.geb_spec (c_dep c) (cur * 3600)) as [Hge|Hlt].
  - pose proof (Z.div_mod (c_dep c) 3600 ltac:(lia)) as Hdm.
    pose proof (Z.mod_pos_bound (c_dep c) 3600 ltac:(lia)) as Hmb.
    set (q := c_dep c / 3600) in *. set (m := c_dep c mod 3600) in *.
    assert (Hq : cur <= q) by lia.
    rewrite Z2Nat.id by lia.
    repeat split; intros; lia.
  - cbn [Z.of_nat]. rewrite Z.add_0_r. repeat split; intros; lia.
Qed.

Lemma fwd_index_loop_spec : forall cs pos cur acc acc' cur',
  dep_sorted cs -> 0 <= cur ->
  fwd_index_loop cs pos cur acc = (acc', cur') ->
  cur <= cur' /\
  (forall c, In c cs -> c_dep c < cur' * 3600) /\
  (forall B, cur <= B -> (forall c, In c cs -> c_dep c < B * 3600) -> cur' <= B) /\
  exists ext, acc' = acc ++ ext /\ length ext = Z.to_nat (cur' - cur) /\
    forall h, cur <= h < cur' -> nth_error ext (Z.to_nat (h - cur)) = Some (pos + cnt_dep_lt h cs)%nat.
Proof.
  induction cs as [|c r IH]; intros pos cur acc acc' cur' Hs Hcur Hloop.
  - cbn [fwd_index_loop] in Hloop. inversion Hloop; subst acc' cur'. clear Hloop.
    split; [lia|]. split; [intros c []|]. split; [intros B HB _; exact HB|].
    exists []. split; [symmetry; apply app_nil_r|]. split; [rewrite Z.sub_diag; reflexivity|].
    intros h Hh. lia.
  - rewrite fwd_index_loop_cons in Hloop.
    destruct (dep_sorted_inv c r Hs) as [Hsr Hmin].
    destruct (fwd_k_spec c cur Hcur) as (Hk1 & Hk2 & Hk3 & Hk4).
    set (k := fwd_k c cur) in *. set (cur1 := cur + Z.of_nat k) in *.
    destruct (IH (S pos) cur1 (acc ++ repeat pos k) acc' cur' Hsr ltac:(lia) Hloop)
      as (I1 & I2 & I3 & ext' & E1 & E2 & E3).
    split; [lia|]. split.
    { intros x [Hx|Hx]; [subst x; lia|apply I2; exact Hx]. }
    split.
    { intros B HB Hall. apply I3.
      - apply Hk4; [exact HB|]. apply Hall. left. reflexivity.
      - intros x Hx. apply Hall. right. exact Hx. }
    exists (repeat pos k ++ ext'). split; [rewrite E1; symmetry; apply app_assoc|]. split.
    { rewrite app_length, repeat_length, E2. unfold cur1. lia. }
    intros h Hh. destruct (Z_lt_le_dec h cur1) as [Hlt|Hge].
    + rewrite nth_error_app1 by (rewrite repeat_length; unfold cur1 in Hlt; lia).
      rewrite nth_error_repeat by (unfold cur1 in Hlt; lia).
      rewrite cnt_dep_lt_zero; [f_equal; lia|].
      assert (Hh' : h * 3600 <= c_dep c) by (apply Hk3; lia).
      intros x [Hx|Hx]; [subst x; exact Hh'|]. specialize (Hmin x Hx). lia.
    + rewrite nth_error_app2 by (rewrite repeat_length; unfold cur1 in Hge; lia).
      rewrite repeat_length.
      replace (Z.to_nat (h - cur) - k)%nat with (Z.to_nat (h - cur1)) by (unfold cur1 in *; lia).
      rewrite E3 by lia. rewrite cnt_dep_lt_cons_lt by lia. f_equal. lia.
Qed.

Lemma fwd_index_general : forall cs,
  dep_sorted cs -> (forall c, In c cs -> c_dep c < 115200) ->
  length (fwd_index cs) = 32%nat /\
  forall h, 0 <= h < 32 -> nth_error (fwd_index cs) (Z.to_nat h) = Some (cnt_dep_lt h cs).
Proof.
  intros cs Hs Hb. unfold fwd_index. hours.
  destruct (fwd_index_loop cs 0 0 []) as [acc cur] eqn:Hloop.
  destruct (fwd_index_loop_spec cs 0%nat 0 [] acc cur Hs ltac:(lia) Hloop)
    as (I1 & I2 & I3 & ext & E1 & E2 & E3).
  cbn [app] in E1. subst acc.
  assert (Hcur : cur <= 32).
  { apply I3; [lia|]. intros c Hc. specialize (Hb c Hc). lia. }
  split.
  - rewrite app_length, repeat_length, E2. lia.
  - intros h Hh. destruct (Z_lt_le_dec h cur) as [Hlt|Hge].
    + rewrite nth_error_app1 by (rewrite E2; lia).
      replace (Z.to_nat h) with (Z.to_nat (h - 0)) by (f_equal; lia).
      rewrite E3 by lia. reflexivity.
    + rewrite nth_error_app2 by (rewrite E2; lia).
      rewrite nth_error_repeat by (rewrite E2; lia).
      rewrite cnt_dep_lt_all; [reflexivity|].
      intros c Hc. specialize (I2 c Hc). lia.
Qed.

Theorem fwd_index_spec : forall cs,
  dep_sorted cs -> (forall c, In c cs -> 0 <= c_dep c < 115200) ->
  length (fwd_index cs) = 32%nat /\
  forall h, 0 <= h < 32 ->
    nth_error (fwd_index cs) (Z.to_nat h) = Some (length (filter (fun c => c_dep c <? h * 3600) cs)).
Proof.
  intros cs Hs Hb. apply fwd_index_general; [exact Hs|].
  intros c Hc. apply (Hb c Hc).
Qed.

(* ---------------------------------------------------------------------------------------------- *)
(* reverse table                                                                                    *)

Definition rev_k (c : conn) (cur : Z) : nat :=
  if (c_arr c <=? cur * 3600) && (cur >? 0)
  then Z.to_nat (cur - Z.max 1 ((c_arr c + 3599) / 3600) + 1) else 0%nat.

Lemma rev_index_loop_cons c r pos cur acc :
  rev_index_loop (c :: r) pos cur acc =
  rev_index_loop r (S pos) (cur - Z.of_nat (rev_k c cur)) (repeat pos (rev_k c cur) ++ acc).
Proof. reflexivity. Qed.

Lemma rev_k_spec c cur :
  0 <= cur ->
  0 <= cur - Z.of_nat (rev_k c cur) <= cur /\
  (forall h, cur - Z.of_nat (rev_k c cur) < h <= cur -> c_arr c <= h * 3600) /\
  (forall h, 1 <= h <= cur - Z.of_nat (rev_k c cur) -> c_arr c > h * 3600).
Proof.
  intros Hcur. unfold rev_k.
  destruct (Z.leb_spec (c_arr c) (cur * 3600)) as [Hle|Hgt];
  destruct (Z.gtb_spec cur 0) as [Hpos|Hnpos]; cbn [andb].
  - pose proof (Z.div_mod (c_arr c + 3599) 3600 ltac:(lia)) as Hdm.
    pose proof (Z.mod_pos_bound (c_arr c + 3599) 3600 ltac:(lia)) as Hmb.
    set (q := (c_arr c + 3599) / 3600) in *. set (m := (c_arr c + 3599) mod 3600) in *.
    assert (Hq : q <= cur) by lia.
    rewrite Z2Nat.id by lia.
    repeat split; intros; lia.
  - cbn [Z.of_nat]. rewrite Z.sub_0_r. repeat split; intros; lia.
  - cbn [Z.of_nat]. rewrite Z.sub_0_r. repeat split; intros; lia.
  - cbn [Z.of_nat]. rewrite Z.sub_0_r. repeat split; intros; lia.
Qed.

Lemma rev_index_loop_spec : forall cs pos cur acc acc' cur',
  arr_sorted_desc cs -> 0 <= cur ->
  rev_index_loop cs pos cur acc = (acc', cur') ->
  0 <= cur' <= cur /\
  (forall h c, 1 <= h <= cur' -> In c cs -> c_arr c > h * 3600) /\
  exists ext, acc' = ext ++ acc /\ length ext = Z.to_nat (cur - cur') /\
    forall h, cur' < h <= cur ->
      nth_error ext (Z.to_nat (h - cur' - 1)) = Some (pos + cnt_arr_gt h cs)%nat.
Proof.
  induction cs as [|c r IH]; intros pos cur acc acc' cur' Hs Hcur Hloop.
  - cbn [rev_index_loop] in Hloop. inversion Hloop; subst acc' cur'. clear Hloop.
    split; [lia|]. split; [intros h c _ []|].
    exists []. split; [reflexivity|]. split; [rewrite Z.sub_diag; reflexivity|].
    intros h Hh. lia.
  - rewrite rev_index_loop_cons in Hloop.
    destruct (arr_sorted_desc_inv c r Hs) as [Hsr Hmax].
    destruct (rev_k_spec c cur Hcur) as (Hk1 & Hk2 & Hk3).
    set (k := rev_k c cur) in *. set (cur1 := cur - Z.of_nat k) in *.
    destruct (IH (S pos) cur1 (repeat pos k ++ acc) acc' cur' Hsr ltac:(lia) Hloop)
      as (I1 & I2 & ext' & E1 & E2 & E3).
    split; [lia|]. split.
    { intros h x Hh [Hx|Hx]; [subst x; apply Hk3; lia|apply I2; assumption]. }
    exists (ext' ++ repeat pos k). split; [rewrite E1; apply app_assoc|]. split.
    { rewrite app_length, repeat_length, E2. unfold cur1. lia. }
    intros h Hh. destruct (Z_le_gt_dec h cur1) as [Hle|Hgt].
    + rewrite nth_error_app1 by (rewrite E2; lia).
      rewrite E3 by lia. rewrite cnt_arr_gt_cons_gt by (apply Hk3; lia). f_equal. lia.
    + rewrite nth_error_app2 by (rewrite E2; lia).
      rewrite E2.
      rewrite nth_error_repeat by (unfold cur1 in *; lia).
      rewrite cnt_arr_gt_zero; [f_equal; lia|].
      assert (Hh' : c_arr c <= h * 3600) by (apply Hk2; lia).
      intros x [Hx|Hx]; [subst x; exact Hh'|]. specialize (Hmax x Hx). lia.
Qed.

Theorem rev_index_spec : forall cs, arr_sorted_desc cs ->
  length (rev_index cs) = 32%nat /\
  nth_error (rev_index cs) 0 = Some (length cs) /\
  forall h, 1 <= h < 32 ->
    nth_error (rev_index cs) (Z.to_nat h) = Some (length (filter (fun c => c_arr c >? h * 3600) cs)).
Proof.
  intros cs Hs. unfold rev_index. hours.
  destruct (rev_index_loop cs 0 (32 - 1) []) as [acc cur] eqn:Hloop.
  destruct (rev_index_loop_spec cs 0%nat (32 - 1) [] acc cur Hs ltac:(lia) Hloop)
    as (I1 & I2 & ext & E1 & E2 & E3).
  rewrite app_nil_r in E1. subst acc.
  split; [|split].
  - rewrite app_length, repeat_length, E2. lia.
  - rewrite nth_error_app1 by (rewrite repeat_length; lia).
    apply nth_error_repeat. lia.
  - intros h Hh. fold (cnt_arr_gt h cs). destruct (Z_le_gt_dec h cur) as [Hle|Hgt].
    + rewrite nth_error_app1 by (rewrite repeat_length; lia).
      rewrite nth_error_repeat by lia.
      rewrite cnt_arr_gt_all; [reflexivity|].
      intros c Hc. apply (I2 h c); [lia|exact Hc].
    + rewrite nth_error_app2 by (rewrite repeat_length; lia).
      rewrite repeat_length.
      replace (Z.to_nat h - Z.to_nat (cur - 0 + 1))%nat with (Z.to_nat (h - cur - 1)) by lia.
      rewrite E3 by lia. reflexivity.
Qed.

(* ---------------------------------------------------------------------------------------------- *)
(* the table positions cut a sorted list exactly at the hour boundary                               *)

Lemma firstn_cnt_dep_lt : forall h cs, dep_sorted cs ->
  forall c, In c (firstn (cnt_dep_lt h cs) cs) -> c_dep c < h * 3600.
Proof.
  intros h. induction cs as [|a r IH]; intros Hs c Hc.
  - unfold cnt_dep_lt in Hc. cbn in Hc. destruct Hc.
  - destruct (dep_sorted_inv a r Hs) as [Hsr Hmin].
    destruct (Z_lt_le_dec (c_dep a) (h * 3600)) as [Hlt|Hge].
    + rewrite cnt_dep_lt_cons_lt in Hc by exact Hlt. cbn [firstn] in Hc.
      destruct Hc as [Hc|Hc]; [subst c; exact Hlt|apply IH; assumption].
    + rewrite cnt_dep_lt_zero in Hc.
      * cbn [firstn] in Hc. destruct Hc.
      * intros x [Hx|Hx]; [subst x; exact Hge|]. specialize (Hmin x Hx). lia.
Qed.

Lemma firstn_cnt_arr_gt : forall h cs, arr_sorted_desc cs ->
  forall c, In c (firstn (cnt_arr_gt h cs) cs) -> c_arr c > h * 3600.
Proof.
  intros h. induction cs as [|a r IH]; intros Hs c Hc.
  - unfold cnt_arr_gt in Hc. cbn in Hc. destruct Hc.
  - destruct (arr_sorted_desc_inv a r Hs) as [Hsr Hmax].
    destruct (Z_le_gt_dec (c_arr a) (h * 3600)) as [Hle|Hgt].
    + rewrite cnt_arr_gt_zero in Hc.
      * cbn [firstn] in Hc. destruct Hc.
      * intros x [Hx|Hx]; [subst x; exact Hle|]. specialize (Hmax x Hx). lia.
    + rewrite cnt_arr_gt_cons_gt in Hc by exact Hgt. cbn [firstn] in Hc.
      destruct Hc as [Hc|Hc]; [subst c; exact Hgt|apply IH; assumption].
Qed.

Lemma fold_left_id {A B} (f : A -> B -> A) (l : list B) (a : A) :
  (forall st x, In x l -> f st x = st) -> fold_left f l a = a.
Proof.
  revert a. induction l as [|x l IH]; intros a H; [reflexivity|].
  cbn [fold_left]. rewrite (H a x (or_introl eq_refl)). apply IH.
  intros st y Hy. apply H. right. exact Hy.
Qed.

Lemma fold_left_skip_prefix {A B} (f : A -> B -> A) (n : nat) (l : list B) (a : A) :
  (forall st x, In x (firstn n l) -> f st x = st) ->
  fold_left f (skipn n l) a = fold_left f l a.
Proof.
  intros H. rewrite <- (firstn_skipn n l) at 2. rewrite fold_left_app.
  rewrite (fold_left_id f (firstn n l) a H). reflexivity.
Qed.

Lemma fwd_step_early d p k all_nodes st c :
  c_dep c < k_dep k + k_minAcc k -> fwd_step d p k all_nodes st c = st.
Proof.
  intros H. unfold fwd_step. destruct (f_stop st) eqn:Hstop; [reflexivity|].
  destruct (Z.geb_spec (c_dep c) (k_dep k + k_minAcc k)) as [Hge|Hlt]; [lia|reflexivity].
Qed.

Lemma rev_step_late d p k (all_nodes : bool) st c :
  c_arr c > k_arr k - (if all_nodes then 0 else k_minEgr k) -> rev_step d p k all_nodes st c = st.
Proof.
  intros H. unfold rev_step. destruct (r_stop st) eqn:Hstop; [reflexivity|].
  destruct (Z.leb_spec (c_arr c) (k_arr k - (if all_nodes then 0 else k_minEgr k))) as [Hle|Hgt];
    [lia|reflexivity].
Qed.

Lemma hour_of_bounds t : 0 <= t < 115200 ->
  0 <= hour_of t < 32 /\ hour_of t * 3600 <= t < (hour_of t + 1) * 3600.
Proof.
  intros Ht. unfold hour_of. rewrite Z.quot_div_nonneg by lia.
  pose proof (Z.div_mod t 3600 ltac:(lia)) as Hdm.
  pose proof (Z.mod_pos_bound t 3600 ltac:(lia)) as Hmb.
  set (q := t / 3600) in *. set (m := t mod 3600) in *. lia.
Qed.

(* ---------------------------------------------------------------------------------------------- *)
(* C12, index half                                                                                  *)

Theorem C12_index_fwd : forall d p k all_nodes,
  dep_sorted (cs_fwd (k_set k)) ->
  (forall c, In c (cs_fwd (k_set k)) -> 0 <= c_dep c < 115200) ->
  cs_fidx (k_set k) = fwd_index (cs_fwd (k_set k)) ->
  0 <= k_dep k < 115200 -> 0 <= k_minAcc k ->
  fwd_scan d p k all_nodes =
  Ok (fold_left (fwd_step d p k all_nodes) (cs_fwd (k_set k)) (fwd_init k)).
Proof.
  intros d p k all_nodes Hs Hb Hidx Hdep Hacc.
  destruct (hour_of_bounds (k_dep k) Hdep) as [Hh Hh2].
  destruct (fwd_index_spec (cs_fwd (k_set k)) Hs Hb) as [_ Hnth].
  unfold fwd_scan, fwd_entry. hours.
  set (h := hour_of (k_dep k)) in *.
  destruct (Z.geb_spec h 32) as [Hgt|_]; [lia|].
  destruct (Z.ltb_spec h 0) as [Hlt|_]; [lia|]. cbn [orb].
  rewrite Hidx, (Hnth h Hh). f_equal.
  apply fold_left_skip_prefix. intros st c Hc.
  apply fwd_step_early.
  pose proof (firstn_cnt_dep_lt h (cs_fwd (k_set k)) Hs c Hc) as Hc'. lia.
Qed.

Theorem C12_index_rev : forall d p k all_nodes,
  arr_sorted_desc (cs_rev (k_set k)) ->
  cs_ridx (k_set k) = rev_index (cs_rev (k_set k)) ->
  0 <= k_arr k < 115200 -> 0 <= k_minEgr k ->
  rev_scan d p k all_nodes =
  Ok (fold_left (rev_step d p k all_nodes) (cs_rev (k_set k)) (rev_init k)).
Proof.
  intros d p k all_nodes Hs Hidx Harr Hegr.
  destruct (hour_of_bounds (k_arr k) Harr) as [Hh Hh2].
  destruct (rev_index_spec (cs_rev (k_set k)) Hs) as (_ & _ & Hnth).
  unfold rev_scan, rev_entry. hours.
  set (h := hour_of (k_arr k)) in *.
  destruct (Z.ltb_spec (h + 1) 0) as [Hlt|_]; [lia|].
  destruct (Z.gtb_spec (h + 1) (32 - 1)) as [Hgt|Hle].
  - cbn [skipn]. reflexivity.
  - rewrite Hidx, (Hnth (h + 1)) by lia. f_equal.
    apply fold_left_skip_prefix. intros st c Hc.
    apply rev_step_late.
    pose proof (firstn_cnt_arr_gt (h + 1) (cs_rev (k_set k)) Hs c Hc) as Hc'.
    destruct all_nodes; lia.
Qed.

(* ---------------------------------------------------------------------------------------------- *)
(* both lookups are total: for EVERY hour (negative, beyond 32, the extremes of int) the guards answer   *)
(* without reading past the 32-entry tables (the forward guard used to let hour 32 through: D4)         *)

Lemma filter_length_le : forall (A : Type) (f : A -> bool) (l : list A), (length (filter f l) <= length l)%nat.
Proof. intros A f l. induction l as [|x r IH]; cbn [filter length]; [apply Nat.le_refl|]. destruct (f x); cbn [length]; lia. Qed.

Theorem fwd_entry_total : forall cs h,
  dep_sorted cs -> (forall c, In c cs -> 0 <= c_dep c < 115200) ->
  exists i, fwd_entry (mk_connset [] cs []) h = Some i /\ (i <= length cs)%nat.
Proof.
  intros cs h Hs Hb. destruct (fwd_index_spec cs Hs Hb) as [Hlen Hnth].
  unfold fwd_entry, mk_connset. hours. cbn [cs_fidx cs_fwd].
  destruct (Z.geb_spec h 32) as [Hge|Hlt32]; cbn [orb].
  - exists (length cs). split; [reflexivity|apply Nat.le_refl].
  - destruct (Z.ltb_spec h 0) as [Hlt|Hge0].
    + exists (length cs). split; [reflexivity|apply Nat.le_refl].
    + rewrite (Hnth h) by lia. eexists. split; [reflexivity|]. apply filter_length_le.
Qed.

Theorem rev_entry_total : forall cs h,
  arr_sorted_desc cs ->
  exists i, rev_entry (mk_connset [] [] cs) h = Some i /\ (i <= length cs)%nat.
Proof.
  intros cs h Hs. destruct (rev_index_spec cs Hs) as (Hlen & H0 & Hnth).
  unfold rev_entry, mk_connset. hours. cbn [cs_ridx cs_rev].
  destruct (Z.ltb_spec h 0) as [Hlt|Hge0].
  - exists (length cs). split; [reflexivity|apply Nat.le_refl].
  - destruct (Z.gtb_spec h (32 - 1)) as [Hgt|Hle].
    + exists 0%nat. split; [reflexivity|apply Nat.le_0_l].
    + destruct (Z.eq_dec h 0) as [->|Hne].
      * change (Z.to_nat 0) with 0%nat. rewrite H0. exists (length cs). split; [reflexivity|apply Nat.le_refl].
      * rewrite (Hnth h) by lia. eexists. split; [reflexivity|]. apply filter_length_le.
Qed.

(* at the scan: any non-negative request time, also in the 33rd hour and at INT_MAX, yields a scan result *)
Theorem fwd_scan_total : forall d p k all_nodes,
  dep_sorted (cs_fwd (k_set k)) ->
  (forall c, In c (cs_fwd (k_set k)) -> 0 <= c_dep c < 115200) ->
  cs_fidx (k_set k) = fwd_index (cs_fwd (k_set k)) ->
  exists st, fwd_scan d p k all_nodes = Ok st.
Proof.
  intros d p k all_nodes Hs Hb Hidx.
  destruct (fwd_index_spec (cs_fwd (k_set k)) Hs Hb) as [Hlen Hnth].
  unfold fwd_scan, fwd_entry. hours.
  set (h := hour_of (k_dep k)) in *.
  destruct (Z.geb_spec h 32) as [Hge|Hlt32]; cbn [orb].
  - eexists. reflexivity.
  - destruct (Z.ltb_spec h 0) as [Hlt|Hge0].
    + eexists. reflexivity.
    + rewrite Hidx, (Hnth h) by lia. eexists. reflexivity.
Qed.

Theorem rev_scan_total : forall d p k all_nodes,
  arr_sorted_desc (cs_rev (k_set k)) ->
  cs_ridx (k_set k) = rev_index (cs_rev (k_set k)) ->
  exists st, rev_scan d p k all_nodes = Ok st.
Proof.
  intros d p k all_nodes Hs Hidx.
  destruct (rev_index_spec (cs_rev (k_set k)) Hs) as (Hlen & H0 & Hnth).
  unfold rev_scan, rev_entry. hours.
  set (h := hour_of (k_arr k) + 1) in *.
  destruct (Z.ltb_spec h 0) as [Hlt|Hge0].
  - eexists. reflexivity.
  - destruct (Z.gtb_spec h (32 - 1)) as [Hgt|Hle].
    + eexists. reflexivity.
    + rewrite Hidx. destruct (Z.eq_dec h 0) as [Hz|Hne].
      * rewrite Hz. change (Z.to_nat 0) with 0%nat. rewrite H0. eexists. reflexivity.
      * rewrite (Hnth h) by lia. eexists. reflexivity.
Qed.

Print Assumptions fwd_index_spec.
Print Assumptions rev_index_spec.
Print Assumptions C12_index_fwd.
Print Assumptions C12_index_rev.
Print Assumptions fwd_entry_total.
Print Assumptions rev_entry_total.
Print Assumptions fwd_scan_total.
Print Assumptions rev_scan_total.
