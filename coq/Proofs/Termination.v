(* Proofs/Termination.v — the itinerary rebuild loop terminates within its fuel.

   The label chain written by the reverse scan is well founded: a label (b, e) is written at stop n only
   when  c_dep b - walk - minw > r_taur n  STRICTLY.  With `>=` (the original source) zero-duration hops
   together with a zero minimum waiting time produced cyclic labels and the C++ rebuild loop
   (reverse_journey.cpp:45-58) ran until memory was exhausted.

   Proof: a second induction over the same scan as RevInv's, with a ghost "time stamp" per stop (the
   number of the scan step that wrote the stop's current label).  Along the chain
       n  --label (b, e)-->  c_to e
   the pair (r_taur, - stamp) increases strictly in the lexicographic order, so no stop repeats; every
   labelled stop is a stop of the data, hence the chain is at most |d_nodes| long (pigeonhole), which is
   below REBUILD_FUEL.  (The stamp plays the role of the scan position of the boarding connection; being
   ghost state, it needs neither an index function nor the pairwise distinctness of the connections.)
   The starting label taken from r_acc needs no ordering: it costs one unit of fuel.

   What the argument needs of the dataset (D13): NOT the whole of wf_data_b, only
     times_monotone d     inside one trip (same c_trip) no connection arrives before an earlier-or-equal one departs
                          and none departs before an earlier one arrived (what the loader's stop-time check gives),
     walks_nonneg d       the reverse footpath rows read by the scan have walking times >= 0,
     rfp_nodes_known d    ... and name stops of d_nodes (the pigeonhole is over d_nodes: REBUILD_FUEL d),
   and 0 <= q_minw p.  The theorems are stated under these (suffix _mono); the wf_data_b versions are corollaries. *)
From Coq Require Import List ZArith Bool Arith Lia Sorted.
From TrV Require Import Spec Proofs.SortFilter Proofs.RevInv.
Import ListNotations.
Local Open Scope Z_scope.

(* ---------------------------------------------------------------------------------------------- *)
(* 1. dataset facts                                                                                 *)

(* inside one trip the vehicle does not travel back in time *)
Lemma conn_dep_le_arr d c e : wf_data_b d = true -> In c (all_conns d) -> In e (all_conns d) ->
  c_trip e = c_trip c -> (c_seq c <= c_seq e)%nat -> c_dep c <= c_arr e.
Proof.
  intros Hwf Hc He Et Hseq.
  destruct (all_conns_in d c Hc) as (trc & Htrc & Hinc).
  destruct (all_conns_in d e He) as (tre & Htre & Hine).
  assert (E : trc = tre).
  { apply (nodup_nat_inj (d_trips d) (wf_nodup_trips d Hwf)); try assumption.
    rewrite <- (trip_conns_trip d trc c Hinc), <- (trip_conns_trip d tre e Hine). symmetry. exact Et. }
  subst tre. destruct (wf_trip d Hwf trc Htrc) as (pth & _ & _ & Ht).
  unfold trip_conns in Hinc, Hine.
  destruct (mk_conns_times _ _ _ _ _ c Ht Hinc) as (_ & Mc & _).
  destruct (mk_conns_times _ _ _ _ _ e Ht Hine) as (_ & Me & _).
  destruct (Nat.eq_dec (c_seq c) (c_seq e)) as [Eq|Ne].
  - pose proof (mk_conns_find _ _ _ _ _ c Hinc) as Fc.
    pose proof (mk_conns_find _ _ _ _ _ e Hine) as Fe.
    rewrite Eq in Fc. rewrite Fc in Fe. inversion Fe; subst e. exact Mc.
  - assert (Hlt : (c_seq c < c_seq e)%nat) by lia.
    pose proof (mk_conns_mono _ _ _ _ _ c e Ht Hinc Hine Hlt) as M. lia.
Qed.

(* reverse footpath rows name stops of the data and have non-negative walking times *)
Lemma wf_rfp_rows d : wf_data_b d = true -> forall n, In n (d_nodes d) -> forall r, In r (rfp_of d n) ->
  In (fp_node r) (d_nodes d) /\ 0 <= fp_time r.
Proof.
  intros H n Hn r Hr. apply wf_data_parts in H. destruct H as (_ & W & _ & _).
  unfold footpaths_ok in W. rewrite forallb_forall in W. specialize (W n Hn).
  peel W F8. peel W F7. peel W F6. peel W F5. peel W F4. peel W F3. peel W F2.
  unfold rows_ok in F2. rewrite forallb_forall in F2. specialize (F2 r Hr).
  peel F2 G4. peel F2 G3. peel F2 G2. apply memb_In in F2. apply Z.leb_le in G2. split; assumption.
Qed.

(* the three dataset conditions the termination argument uses *)
Definition times_monotone (d : data) : Prop :=
  (forall c e, In c (all_conns d) -> In e (all_conns d) -> c_trip e = c_trip c -> (c_seq c <= c_seq e)%nat ->
               c_dep c <= c_arr e) /\
  (forall a b, In a (all_conns d) -> In b (all_conns d) -> c_trip a = c_trip b -> (c_seq a < c_seq b)%nat ->
               c_arr a <= c_dep b).
Definition walks_nonneg (d : data) : Prop :=
  forall c r, In c (all_conns d) -> In r (rfp_of d (c_from c)) -> 0 <= fp_time r.
Definition rfp_nodes_known (d : data) : Prop :=
  forall c r, In c (all_conns d) -> In r (rfp_of d (c_from c)) -> In (fp_node r) (d_nodes d).

Lemma wf_times_monotone d : wf_data_b d = true -> times_monotone d.
Proof.
  intros Hwf. split.
  - intros c e Hc He Et Hseq. exact (conn_dep_le_arr d c e Hwf Hc He Et Hseq).
  - intros a b Ha Hb Et Hlt.
    destruct (all_conns_in d a Ha) as (tra & Htra & Hina).
    destruct (all_conns_in d b Hb) as (trb & Htrb & Hinb).
    assert (E : tra = trb).
    { apply (nodup_nat_inj (d_trips d) (wf_nodup_trips d Hwf)); try assumption.
      rewrite <- (trip_conns_trip d tra a Hina), <- (trip_conns_trip d trb b Hinb). exact Et. }
    subst trb. destruct (wf_trip d Hwf tra Htra) as (pth & _ & _ & Ht).
    unfold trip_conns in Hina, Hinb.
    exact (mk_conns_mono _ _ _ _ _ a b Ht Hina Hinb Hlt).
Qed.

Lemma wf_walks_nonneg d : wf_data_b d = true -> walks_nonneg d.
Proof.
  intros Hwf c r Hc Hr.
  exact (proj2 (wf_rfp_rows d Hwf (c_from c) (conn_from_node d c Hwf Hc) r Hr)).
Qed.

Lemma wf_rfp_nodes_known d : wf_data_b d = true -> rfp_nodes_known d.
Proof.
  intros Hwf c r Hc Hr.
  exact (proj1 (wf_rfp_rows d Hwf (c_from c) (conn_from_node d c Hwf Hc) r Hr)).
Qed.

(* inside one trip the reverse order descends in sequence: needs only times_monotone *)
Lemma conn_seq_order_mono d a b : times_monotone d -> In a (all_conns d) -> In b (all_conns d) ->
  c_trip a = c_trip b -> rev_lt b a = false -> (c_seq b <= c_seq a)%nat.
Proof.
  intros [M1 M2] Ha Hb Et Hlt.
  destruct (le_lt_dec (c_seq b) (c_seq a)) as [Hle|Hgt]; [exact Hle|exfalso].
  pose proof (M2 a b Ha Hb Et Hgt) as M.
  pose proof (M1 b b Hb Hb eq_refl (le_n _)) as Mb.
  assert (T : rev_lt b a = true) by (apply rev_lt_iff; lia).
  congruence.
Qed.

Lemma cs_rev_seq_sorted_mono d s : times_monotone d -> StronglySorted seq_desc (cs_rev (conn_set d s)).
Proof.
  intros Hm.
  apply (StronglySorted_impl_in (le_of rev_lt)).
  - intros a b Ha Hb Hle Et. apply cs_rev_in in Ha. apply cs_rev_in in Hb.
    apply (conn_seq_order_mono d a b Hm (proj1 Ha) (proj1 Hb) Et Hle).
  - unfold conn_set, mk_connset, sorted_rev. cbn [cs_rev]. rewrite filter_isort_rev.
    apply (isort_sorted rev_lt rev_lt_asym rev_lt_negtrans).
Qed.

(* ---------------------------------------------------------------------------------------------- *)
(* 2. the chain invariant                                                                           *)

Section Chain.
  Variables (d : data) (s : scenario) (p : params) (k : calc).
  Hypothesis Hmono : times_monotone d.
  Hypothesis Hwalk : walks_nonneg d.
  Hypothesis Hknown : rfp_nodes_known d.
  Hypothesis Hminw : 0 <= q_minw p.

  (* stamp n = number of the scan step that wrote the label currently stored at n (ghost state);
     t = number of the last step performed *)
  Record TI (t : nat) (taur : nat -> Z) (steps : nat -> jstep) (stamp : nat -> nat) : Prop := {
    ti_le : forall n b e, js_enter (steps n) = Some b -> js_exit (steps n) = Some e ->
              taur n <= taur (c_to e);
    ti_chain : forall n b e b', js_enter (steps n) = Some b -> js_exit (steps n) = Some e ->
              js_enter (steps (c_to e)) = Some b' ->
              taur n < taur (c_to e) \/ (taur n = taur (c_to e) /\ (stamp (c_to e) < stamp n)%nat);
    ti_stamp : forall n b, js_enter (steps n) = Some b -> (stamp n <= t)%nat }.

  Lemma TI_weaken t t' taur steps stamp : (t <= t')%nat -> TI t taur steps stamp -> TI t' taur steps stamp.
  Proof.
    intros Hle [H1 H2 H3]. constructor; [exact H1|exact H2|].
    intros n b Hb. specialize (H3 n b Hb). lia.
  Qed.

  (* inside the footpath loop of step t for connection c with exit e: the stop where e alights is never
     relabelled by this step *)
  Definition FI (t : nat) (e : conn) (taur : nat -> Z) (steps : nat -> jstep) (stamp : nat -> nat) : Prop :=
    TI t taur steps stamp /\ c_arr e <= taur (c_to e) /\
    (forall b', js_enter (steps (c_to e)) = Some b' -> (stamp (c_to e) < t)%nat).

  Lemma FI_upd t c e taur steps stamp r :
    c_dep c <= c_arr e -> 0 <= fp_time r ->
    FI t e taur steps stamp ->
    c_dep c - fp_time r - minw_eff p c > taur (fp_node r) ->
    FI t e (upd taur (fp_node r) (c_dep c - fp_time r - minw_eff p c))
           (upd steps (fp_node r) (new_label c (Some e) r))
           (upd stamp (fp_node r) t).
  Proof.
    intros Hde Hw (HT & Harr & Hst) Hgt.
    pose proof (minw_eff_nonneg p c Hminw) as Hmw.
    set (m := fp_node r) in *. set (v := c_dep c - fp_time r - minw_eff p c) in *.
    assert (Hv : v <= c_dep c) by (subst v; lia).
    assert (Hm : c_to e <> m) by (intros X; rewrite X in Harr; lia).
    pose proof (upd_mono taur m v Hgt) as M.
    destruct HT as [T1 T2 T3].
    split; [constructor|split].
    - (* ti_le *)
      intros n b0 e0 Hb He. destruct (Nat.eq_dec n m) as [En|En].
      + subst n. rewrite upd_same in He. unfold new_label, mk_js in He. cbn [js_exit] in He.
        inversion He; subst e0. rewrite upd_same. rewrite upd_other by exact Hm. lia.
      + rewrite upd_other in Hb, He by exact En. rewrite (upd_other taur m v n En).
        specialize (T1 n b0 e0 Hb He). specialize (M (c_to e0)). lia.
    - (* ti_chain *)
      intros n b0 e0 b' Hb He Hb'. destruct (Nat.eq_dec n m) as [En|En].
      + subst n. rewrite upd_same in He. unfold new_label, mk_js in He. cbn [js_exit] in He.
        inversion He; subst e0. rewrite upd_other in Hb' by exact Hm.
        rewrite !upd_same. rewrite !upd_other by exact Hm.
        specialize (Hst b' Hb'). lia.
      + rewrite upd_other in Hb, He by exact En.
        rewrite (upd_other taur m v n En), (upd_other stamp m t n En).
        destruct (Nat.eq_dec (c_to e0) m) as [Em|Em].
        * rewrite Em, !upd_same. left. specialize (T1 n b0 e0 Hb He). rewrite Em in T1. lia.
        * rewrite upd_other in Hb' by exact Em. rewrite !upd_other by exact Em.
          apply (T2 n b0 e0 b' Hb He Hb').
    - (* ti_stamp *)
      intros n b0 Hb. destruct (Nat.eq_dec n m) as [En|En].
      + subst n. rewrite upd_same. apply le_n.
      + rewrite upd_other in Hb by exact En. rewrite upd_other by exact En. apply (T3 n b0 Hb).
    - specialize (M (c_to e)). lia.
    - intros b' Hb'. rewrite upd_other in Hb' by exact Hm. rewrite upd_other by exact Hm. apply (Hst b' Hb').
  Qed.

  Lemma FI_fold t c e : c_dep c <= c_arr e ->
    forall rows, (forall r, In r rows -> 0 <= fp_time r) ->
    forall taur steps racc stamp, FI t e taur steps stamp ->
    exists stamp',
      FI t e (fst (fst (fold_left (rev_fp_step p k c (minw_eff p c) (Some e)) rows (taur, steps, racc))))
             (snd (fst (fold_left (rev_fp_step p k c (minw_eff p c) (Some e)) rows (taur, steps, racc))))
             stamp'.
  Proof.
    intros Hde. induction rows as [|r rows IH]; intros Hrows taur steps racc stamp HF; cbn [fold_left].
    - exists stamp. exact HF.
    - destruct (rev_fp_step_cases p k c (minw_eff p c) (Some e) taur steps racc r)
        as (t' & s' & a' & E & H1 & _).
      rewrite E.
      assert (Hrows' : forall r0, In r0 rows -> 0 <= fp_time r0) by (intros r0 H0; apply Hrows; right; exact H0).
      destruct H1 as [[E1 E2]|(_ & Hgt & E1 & E2)]; subst t' s'.
      + apply (IH Hrows' taur steps a' stamp HF).
      + apply (IH Hrows' _ _ a' (upd stamp (fp_node r) t)).
        apply FI_upd; try assumption. apply Hrows. left. reflexivity.
  Qed.

  Definition TInv (t : nat) (st : rstate) : Prop := exists stamp, TI t (r_taur st) (r_steps st) stamp.

  (* the footpath loop only raises taur, and labels only stops named by the rows *)
  Lemma fp_fold_taur_mono c e : forall rows taur steps racc n,
    taur n <= fst (fst (fold_left (rev_fp_step p k c (minw_eff p c) (Some e)) rows (taur, steps, racc))) n.
  Proof.
    induction rows as [|r rows IH]; intros taur steps racc n; cbn [fold_left fst]; [lia|].
    destruct (rev_fp_step_cases p k c (minw_eff p c) (Some e) taur steps racc r)
      as (t' & s' & a' & E & H1 & _).
    rewrite E. specialize (IH t' s' a' n).
    destruct H1 as [[E1 E2]|(_ & Hgt & E1 & E2)]; subst t' s'; [exact IH|].
    pose proof (upd_mono taur (fp_node r) _ Hgt n) as M. lia.
  Qed.

  Definition NI (steps : nat -> jstep) : Prop := forall n b, js_enter (steps n) = Some b -> In n (d_nodes d).

  Lemma fp_fold_ni c e : forall rows, (forall r, In r rows -> In (fp_node r) (d_nodes d)) ->
    forall taur steps racc, NI steps ->
    NI (snd (fst (fold_left (rev_fp_step p k c (minw_eff p c) (Some e)) rows (taur, steps, racc)))).
  Proof.
    induction rows as [|r rows IH]; intros Hrows taur steps racc HN; cbn [fold_left fst snd]; [exact HN|].
    destruct (rev_fp_step_cases p k c (minw_eff p c) (Some e) taur steps racc r)
      as (t' & s' & a' & E & H1 & _).
    rewrite E.
    assert (Hrows' : forall r0, In r0 rows -> In (fp_node r0) (d_nodes d)) by (intros r0 H0; apply Hrows; right; exact H0).
    apply (IH Hrows').
    destruct H1 as [[E1 E2]|(_ & _ & E1 & E2)]; subst t' s'; [exact HN|].
    intros n b Hb. destruct (Nat.eq_dec n (fp_node r)) as [En|En].
    - subst n. apply Hrows. left. reflexivity.
    - rewrite upd_other in Hb by exact En. apply (HN n b Hb).
  Qed.

  (* the shape of a label with connections (stop labels and access labels): both connections are connections of the
     data, of the trip named by the label, the boarding one not after the alighting one *)
  Definition lab_struct (j : jstep) : Prop :=
    exists b e, js_enter j = Some b /\ js_exit j = Some e /\ js_trip j = Some (c_trip b) /\
                In b (all_conns d) /\ In e (all_conns d) /\ c_trip e = c_trip b /\ (c_seq b <= c_seq e)%nat.
  Definition LI (steps : nat -> jstep) : Prop := forall n b, js_enter (steps n) = Some b -> lab_struct (steps n).
  Definition AI (racc : nat -> option jstep) : Prop := forall n j, racc n = Some j -> lab_struct j.

  Lemma fp_fold_li c e : In c (all_conns d) -> In e (all_conns d) -> c_trip e = c_trip c -> (c_seq c <= c_seq e)%nat ->
    forall rows taur steps racc, LI steps -> AI racc ->
    LI (snd (fst (fold_left (rev_fp_step p k c (minw_eff p c) (Some e)) rows (taur, steps, racc)))) /\
    AI (snd (fold_left (rev_fp_step p k c (minw_eff p c) (Some e)) rows (taur, steps, racc))).
  Proof.
    intros Hc He Et Hseq.
    assert (Hnew : forall r, lab_struct (new_label c (Some e) r)).
    { intros r. exists c, e. unfold new_label, mk_js. cbn [js_enter js_exit js_trip]. repeat split; assumption. }
    assert (Hacc : lab_struct (acc_label c (Some e))).
    { exists c, e. unfold acc_label, mk_js. cbn [js_enter js_exit js_trip]. repeat split; assumption. }
    induction rows as [|r rows IH]; intros taur steps racc HL HA; cbn [fold_left fst snd]; [split; assumption|].
    destruct (rev_fp_step_cases p k c (minw_eff p c) (Some e) taur steps racc r)
      as (t' & s' & a' & E & H1 & H2).
    rewrite E. apply IH.
    - destruct H1 as [[E1 E2]|(_ & _ & E1 & E2)]; subst t' s'; [exact HL|].
      intros n b Hb. destruct (Nat.eq_dec n (fp_node r)) as [En|En].
      + subst n. rewrite upd_same. apply Hnew.
      + rewrite upd_other in Hb |- * by exact En. apply (HL n b Hb).
    - destruct H2 as [E3|(_ & _ & _ & E3)]; subst a'; [exact HA|].
      intros n j Hj. destruct (Nat.eq_dec n (fp_node r)) as [En|En].
      + subst n. rewrite upd_same in Hj. inversion Hj; subst j. exact Hacc.
      + rewrite upd_other in Hj by exact En. apply (HA n j Hj).
  Qed.

  (* what the scan keeps true of the trip overlays (the part of RevInv's invariant the chain needs; no reference
     to the rest of the dataset): the exit of a trip is a connection of that trip whose arrival stop is reached in
     time, and the connections of the trip still to come lie at or before it *)
  Definition XI (taur : nat -> Z) (ov : nat -> tqd) : Prop :=
    forall t e, o_exit (ov t) = Some e -> In e (all_conns d) /\ c_trip e = t /\ c_arr e <= taur (c_to e).

  Definition SInv (rest : list conn) (st : rstate) : Prop :=
    XI (r_taur st) (r_ov st) /\ ord (r_ov st) rest /\ NI (r_steps st) /\ LI (r_steps st) /\ AI (r_acc st).

  Lemma XI_mono taur taur' ov : (forall x, taur x <= taur' x) -> XI taur ov -> XI taur' ov.
  Proof.
    intros M HX t e He. destruct (HX t e He) as (X1 & X2 & X3).
    split; [exact X1|]. split; [exact X2|]. specialize (M (c_to e)). lia.
  Qed.

  Lemma rev_step_sinv c rest st t :
    In c (all_conns d) -> Forall (seq_desc c) rest -> SInv (c :: rest) st -> TInv t st ->
    SInv rest (rev_step d p k false st c) /\ TInv (S t) (rev_step d p k false st c).
  Proof.
    intros Hc Hsorted (HX & HO & HN & HL & HA) (stamp & HT).
    pose proof (rev_step_spec d p k st c) as S. cbv zeta in S.
    destruct S as [(E1 & E2 & E3 & E4)|(_ & Hq & Eov & Hrest)].
    - split.
      + unfold SInv. rewrite E1, E2, E3, E4. split; [exact HX|]. split; [|repeat split; assumption].
        intros c' e Hc' He. apply (HO c' e); [right; exact Hc'|exact He].
      + exists stamp. rewrite E1, E2. apply (TI_weaken t); [lia|exact HT].
    - pose proof (ov1_exit_cases p st c Hminw Hq) as Hex.
      set (ov1 := ov1_of p st c) in *. set (ovm := upd (r_ov st) (c_trip c) ov1) in *.
      assert (HX1 : XI (r_taur st) ovm).
      { intros t0 e He. subst ovm. destruct (Nat.eq_dec t0 (c_trip c)) as [Et|Et].
        - subst t0. rewrite upd_same in He. destruct Hex as [Hex|(Hex & _ & Harr)].
          + rewrite Hex in He. apply (HX _ _ He).
          + rewrite Hex in He. inversion He; subst e. split; [exact Hc|]. split; [reflexivity|exact Harr].
        - rewrite upd_other in He by exact Et. apply (HX _ _ He). }
      assert (HO1 : ord ovm rest).
      { intros c' e Hc' He. subst ovm. destruct (Nat.eq_dec (c_trip c') (c_trip c)) as [Et|Et].
        - rewrite Et, upd_same in He. destruct Hex as [Hex|(Hex & _ & _)].
          + rewrite Hex, <- Et in He. apply (HO c' e); [right; exact Hc'|exact He].
          + rewrite Hex in He. inversion He; subst e.
            rewrite Forall_forall in Hsorted. apply (Hsorted c' Hc'). symmetry. exact Et.
        - rewrite upd_other in He by exact Et. apply (HO c' e); [right; exact Hc'|exact He]. }
      destruct Hrest as [(E1 & E2 & E4)|(_ & e & Ee & Ef)].
      + split.
        * unfold SInv. rewrite E1, E2, E4, Eov. split; [exact HX1|]. split; [exact HO1|repeat split; assumption].
        * exists stamp. rewrite E1, E2. apply (TI_weaken t); [lia|exact HT].
      + assert (Hovm : o_exit (ovm (c_trip c)) = Some e) by (subst ovm; rewrite upd_same; exact Ee).
        destruct (HX1 _ _ Hovm) as (He & Etrip & Harr).
        assert (Hseq : (c_seq c <= c_seq e)%nat).
        { destruct Hex as [Hex|(Hex & _ & _)].
          - rewrite Hex in Ee. apply (HO c e); [left; reflexivity|exact Ee].
          - rewrite Hex in Ee. inversion Ee; subst e. apply le_n. }
        pose proof (proj1 Hmono c e Hc He Etrip Hseq) as Hde.
        assert (Hrows : forall r, In r (rfp_of d (c_from c)) -> 0 <= fp_time r).
        { intros r Hr. exact (Hwalk c r Hc Hr). }
        assert (Hnodes : forall r, In r (rfp_of d (c_from c)) -> In (fp_node r) (d_nodes d)).
        { intros r Hr. exact (Hknown c r Hc Hr). }
        assert (HF : FI (S t) e (r_taur st) (r_steps st) stamp).
        { split; [apply (TI_weaken t); [lia|exact HT]|]. split; [exact Harr|].
          intros b' Hb'. pose proof (ti_stamp _ _ _ _ HT _ _ Hb'). lia. }
        destruct (FI_fold (S t) c e Hde (rfp_of d (c_from c)) Hrows (r_taur st) (r_steps st) (r_acc st) stamp HF)
          as (stamp' & HF').
        pose proof (fp_fold_taur_mono c e (rfp_of d (c_from c)) (r_taur st) (r_steps st) (r_acc st)) as M.
        pose proof (fp_fold_ni c e (rfp_of d (c_from c)) Hnodes (r_taur st) (r_steps st) (r_acc st) HN) as HN'.
        pose proof (fp_fold_li c e Hc He Etrip Hseq (rfp_of d (c_from c)) (r_taur st) (r_steps st) (r_acc st) HL HA)
          as [HL' HA'].
        rewrite <- Ef in HF', M, HN', HL', HA'. cbn [fst snd] in HF', M, HN', HL', HA'.
        split.
        * unfold SInv. rewrite Eov. split; [apply (XI_mono (r_taur st)); [exact M|exact HX1]|].
          split; [exact HO1|]. split; [exact HN'|]. split; [exact HL'|exact HA'].
        * exists stamp'. exact (proj1 HF').
  Qed.

  Lemma scan_sinv : forall L st t, (forall c, In c L -> In c (all_conns d)) -> StronglySorted seq_desc L ->
    SInv L st -> TInv t st ->
    exists t', SInv [] (fold_left (rev_step d p k false) L st) /\ TInv t' (fold_left (rev_step d p k false) L st).
  Proof.
    induction L as [|c L IH]; intros st t HG HS HR HT; cbn [fold_left]; [exists t; split; assumption|].
    apply StronglySorted_inv in HS. destruct HS as [HS1 HS2].
    destruct (rev_step_sinv c L st t (HG c (or_introl eq_refl)) HS2 HR HT) as [HR' HT'].
    apply (IH _ (S t)); [intros c' Hc'; apply HG; right; exact Hc'|exact HS1|exact HR'|exact HT'].
  Qed.

  (* ---------------------------------------------------------------------------------------------- *)
  (* 3. a well-founded chain inside a finite set of stops is followed to its end                      *)

  Definition klt (taur : nat -> Z) (stamp : nat -> nat) (v n : nat) : Prop :=
    taur v < taur n \/ (taur v = taur n /\ (stamp n < stamp v)%nat).

  Lemma rebuild_fuel_ok nodes t taur steps stamp :
    TI t taur steps stamp ->
    (forall n b e, js_enter (steps n) = Some b -> js_exit (steps n) = Some e -> In n nodes) ->
    forall fuel n visited acc last,
      NoDup visited -> incl visited nodes ->
      (forall b e, js_enter (steps n) = Some b -> js_exit (steps n) = Some e ->
                   forall v, In v visited -> klt taur stamp v n) ->
      (length nodes < fuel + length visited)%nat ->
      exists legs last', rebuild fuel steps (steps n) acc last = Some (legs, last').
  Proof.
    intros HT Hnodes. induction fuel as [|f IH]; intros n visited acc last Hnd Hincl Hlt Hlen.
    - destruct (js_enter (steps n)) as [b|] eqn:Eb;
        [|exists acc, last; apply rebuild_stop; left; exact Eb].
      destruct (js_exit (steps n)) as [e|] eqn:Ee;
        [|exists acc, last; apply rebuild_stop; right; exact Ee].
      exfalso.
      assert (Hnot : ~ In n visited).
      { intros Hin. destruct (Hlt b e eq_refl eq_refl n Hin) as [X|[_ X]]; lia. }
      assert (Hnd' : NoDup (n :: visited)) by (constructor; assumption).
      assert (Hincl' : incl (n :: visited) nodes).
      { intros x [Hx|Hx]; [subst x; apply (Hnodes n b e Eb Ee)|apply Hincl; exact Hx]. }
      pose proof (NoDup_incl_length Hnd' Hincl') as Hl. cbn [length] in Hl. lia.
    - destruct (js_enter (steps n)) as [b|] eqn:Eb;
        [|exists acc, last; apply rebuild_stop; left; exact Eb].
      destruct (js_exit (steps n)) as [e|] eqn:Ee;
        [|exists acc, last; apply rebuild_stop; right; exact Ee].
      assert (Hnot : ~ In n visited).
      { intros Hin. destruct (Hlt b e eq_refl eq_refl n Hin) as [X|[_ X]]; lia. }
      assert (Hnd' : NoDup (n :: visited)) by (constructor; assumption).
      assert (Hincl' : incl (n :: visited) nodes).
      { intros x [Hx|Hx]; [subst x; apply (Hnodes n b e Eb Ee)|apply Hincl; exact Hx]. }
      rewrite (rebuild_step f steps (steps n) acc last b e Eb Ee).
      apply (IH (c_to e) (n :: visited)); [exact Hnd'|exact Hincl'| |cbn [length]; lia].
      intros b' e' Hb' He' v Hv.
      pose proof (ti_chain _ _ _ _ HT n b e b' Eb Ee Hb') as Hstep.
      destruct Hv as [Hv|Hv].
      + subst v. exact Hstep.
      + pose proof (Hlt b e eq_refl eq_refl v Hv) as Hvn. unfold klt in *. lia.
  Qed.

End Chain.

(* ---------------------------------------------------------------------------------------------- *)
(* 4. the theorem                                                                                   *)

(* what the argument needs of the calculator: three fields of RevInv.rev_pre *)
Record rev_pre_chain (d : data) (s : scenario) (k : calc) : Prop := {
  rc_set : k_set k = conn_set d s;
  rc_steps : forall n, js_enter (k_rsteps k n) = None;
  rc_exit : forall t, o_exit (k_ov k t) = None }.

Lemma rev_pre_chain_of d s p acc egr k : rev_pre d s p acc egr k -> rev_pre_chain d s k.
Proof.
  intros Hpre. constructor.
  - exact (rp_set _ _ _ _ _ _ Hpre).
  - intros n. rewrite (rp_steps _ _ _ _ _ _ Hpre). apply seed_steps_enter.
  - exact (rp_exit _ _ _ _ _ _ Hpre).
Qed.

(* the chain invariant holds in the final state of the scan (either kind: rev_step with all_nodes = false); every
   labelled stop is a stop of the data; every stop label and every access label has the shape lab_struct *)
Lemma rev_scan_chain d s p k st :
  times_monotone d -> walks_nonneg d -> rfp_nodes_known d -> 0 <= q_minw p -> rev_pre_chain d s k ->
  rev_scan d p k false = Ok st ->
  (exists t stamp, TI t (r_taur st) (r_steps st) stamp) /\ NI d (r_steps st) /\ LI d (r_steps st) /\ AI d (r_acc st).
Proof.
  intros Hmono Hwalk Hknown Hminw Hpre Hscan.
  unfold rev_scan in Hscan. destruct (rev_entry (k_set k) (hour_of (k_arr k) + 1)) as [i|]; [|discriminate].
  rewrite (rc_set _ _ _ Hpre) in Hscan. inversion Hscan as [Hst]. clear Hscan.
  set (L := skipn i (cs_rev (conn_set d s))).
  assert (HG : forall c, In c L -> In c (all_conns d)).
  { intros c Hc. subst L. apply in_skipn in Hc. apply cs_rev_in in Hc. exact (proj1 Hc). }
  assert (HS : StronglySorted seq_desc L).
  { subst L. apply StronglySorted_skipn. apply cs_rev_seq_sorted_mono. exact Hmono. }
  assert (H0 : SInv d L (rev_init k)).
  { unfold SInv, rev_init. cbn [r_taur r_steps r_acc r_ov]. split; [|split; [|split; [|split]]].
    - intros t e He. rewrite (rc_exit _ _ _ Hpre) in He. discriminate.
    - intros c' e _ He. rewrite (rc_exit _ _ _ Hpre) in He. discriminate.
    - intros n b Hb. rewrite (rc_steps _ _ _ Hpre) in Hb. discriminate.
    - intros n b Hb. rewrite (rc_steps _ _ _ Hpre) in Hb. discriminate.
    - intros n j Hj. discriminate. }
  assert (T0 : TInv 0 (rev_init k)).
  { exists (fun _ => 0%nat). unfold rev_init. cbn [r_taur r_steps].
    constructor; intros n b; rewrite (rc_steps _ _ _ Hpre); discriminate. }
  destruct (scan_sinv d p k Hmono Hwalk Hknown Hminw L (rev_init k) 0%nat HG HS H0 T0)
    as (t' & (_ & _ & HN & HL & HA) & (stamp & HT)).
  split; [exists t', stamp; exact HT|]. split; [exact HN|]. split; [exact HL|exact HA].
Qed.

Lemma rev_scan_tinv_mono d s p acc egr k st :
  times_monotone d -> walks_nonneg d -> rfp_nodes_known d -> 0 <= q_minw p -> rev_pre d s p acc egr k ->
  rev_scan d p k false = Ok st ->
  (exists t stamp, TI t (r_taur st) (r_steps st) stamp) /\ NI d (r_steps st).
Proof.
  intros Hmono Hwalk Hknown Hminw Hpre Hscan.
  destruct (rev_scan_chain d s p k st Hmono Hwalk Hknown Hminw (rev_pre_chain_of d s p acc egr k Hpre) Hscan)
    as (HT & HN & _). split; assumption.
Qed.

Lemma rev_scan_tinv d s p acc egr k st :
  wf_data_b d = true -> wf_params_b p = true -> rev_pre d s p acc egr k ->
  rev_scan d p k false = Ok st ->
  exists t stamp, TI t (r_taur st) (r_steps st) stamp.
Proof.
  intros Hwf Hp Hpre Hscan.
  exact (proj1 (rev_scan_tinv_mono d s p acc egr k st (wf_times_monotone d Hwf) (wf_walks_nonneg d Hwf)
                  (wf_rfp_nodes_known d Hwf) (wf_params_minw p Hp) Hpre Hscan)).
Qed.

(* every stop carrying a label with connections is a stop of the data *)
Lemma labelled_in_nodes d s p k taur steps racc ov n b :
  wf_data_b d = true -> Inv d s p k taur steps racc ov ->
  js_enter (steps n) = Some b -> In n (d_nodes d).
Proof.
  intros Hwf HI Hb.
  destruct (i_lab _ _ _ _ _ _ _ _ HI n b Hb) as (e & HC & (r & R1 & R2 & _) & _).
  destruct HC as (_ & _ & _ & C4 & _).
  pose proof (conn_from_node d b Hwf C4) as Hnode.
  rewrite <- R2. exact (proj1 (wf_rfp_rows d Hwf (c_from b) Hnode r R1)).
Qed.

Lemma REBUILD_FUEL_S d : REBUILD_FUEL d = S (4 * length (d_nodes d) + 63).
Proof. unfold REBUILD_FUEL. lia. Qed.

(* from any starting label, following the stop labels of the final state ends within |d_nodes| + 1 steps *)
Lemma rebuild_terminates_from_mono : forall d s p acc egr k st start acc0 last0,
  times_monotone d -> walks_nonneg d -> rfp_nodes_known d -> 0 <= q_minw p -> rev_pre d s p acc egr k ->
  rev_scan d p k false = Ok st ->
  exists legs last, rebuild (REBUILD_FUEL d) (r_steps st) start acc0 last0 = Some (legs, last).
Proof.
  intros d s p acc egr k st start acc0 last0 Hmono Hwalk Hknown Hminw Hpre Hscan.
  destruct (rev_scan_tinv_mono d s p acc egr k st Hmono Hwalk Hknown Hminw Hpre Hscan) as ((t & stamp & HT) & HN).
  destruct (js_enter start) as [b0|] eqn:Eb;
    [|exists acc0, last0; apply rebuild_stop; left; exact Eb].
  destruct (js_exit start) as [e0|] eqn:Ee;
    [|exists acc0, last0; apply rebuild_stop; right; exact Ee].
  rewrite REBUILD_FUEL_S. rewrite (rebuild_step _ (r_steps st) start acc0 last0 b0 e0 Eb Ee).
  apply (rebuild_fuel_ok (d_nodes d) t (r_taur st) (r_steps st) stamp HT) with (visited := []).
  - intros n b e Hb _. apply (HN n b Hb).
  - constructor.
  - intros x Hx. destruct Hx.
  - intros b e _ _ v Hv. destruct Hv.
  - cbn [length]. lia.
Qed.

Lemma rebuild_terminates_from : forall d s p acc egr k st start acc0 last0,
  wf_data_b d = true -> wf_params_b p = true -> rev_pre d s p acc egr k ->
  rev_scan d p k false = Ok st ->
  exists legs last, rebuild (REBUILD_FUEL d) (r_steps st) start acc0 last0 = Some (legs, last).
Proof.
  intros d s p acc egr k st start acc0 last0 Hwf Hp Hpre Hscan.
  exact (rebuild_terminates_from_mono d s p acc egr k st start acc0 last0 (wf_times_monotone d Hwf)
           (wf_walks_nonneg d Hwf) (wf_rfp_nodes_known d Hwf) (wf_params_minw p Hp) Hpre Hscan).
Qed.

(* D13: termination of the itinerary rebuild from what the loaders guarantee plus non-negative walking times *)
Theorem rebuild_terminates_mono : forall d s p acc egr k st node start,
  times_monotone d -> walks_nonneg d -> rfp_nodes_known d -> 0 <= q_minw p -> rev_pre d s p acc egr k ->
  rev_scan d p k false = Ok st ->
  r_acc st node = Some start ->
  exists legs last, rebuild (REBUILD_FUEL d) (r_steps st) start [] None = Some (legs, last).
Proof.
  intros d s p acc egr k st node start Hmono Hwalk Hknown Hminw Hpre Hscan _.
  apply (rebuild_terminates_from_mono d s p acc egr k st start [] None Hmono Hwalk Hknown Hminw Hpre Hscan).
Qed.

Theorem rebuild_terminates : forall d s p acc egr k st node start,
  wf_data_b d = true -> wf_params_b p = true -> rev_pre d s p acc egr k ->
  rev_scan d p k false = Ok st ->
  r_acc st node = Some start ->
  exists legs last, rebuild (REBUILD_FUEL d) (r_steps st) start [] None = Some (legs, last).
Proof.
  intros d s p acc egr k st node start Hwf Hp Hpre Hscan Hstart.
  exact (rebuild_terminates_mono d s p acc egr k st node start (wf_times_monotone d Hwf)
           (wf_walks_nonneg d Hwf) (wf_rfp_nodes_known d Hwf) (wf_params_minw p Hp) Hpre Hscan Hstart).
Qed.

(* hence the single-route calculation never hangs in the rebuild loop: the only way rev_journey (and
   calc_reverse) can answer Hang is the fuel of optimizeJourney *)
Corollary rev_journey_no_rebuild_hang_mono : forall d s p acc egr k st best,
  times_monotone d -> walks_nonneg d -> rfp_nodes_known d -> 0 <= q_minw p -> rev_pre d s p acc egr k ->
  rev_scan d p k false = Ok st ->
  rev_journey d p k st best = Hang ->
  exists bestdep node start legs ln ar er,
    best = Some (bestdep, node) /\ r_acc st node = Some start /\
    rebuild (REBUILD_FUEL d) (r_steps st) start [] None = Some (legs, Some ln) /\
    row_of node (k_accfp k) = Some ar /\ row_of ln (k_egrfp k) = Some er /\
    optimize (OPT_FUEL d) d (walk_step ar :: legs ++ [walk_step er]) [] [] = OptHang.
Proof.
  intros d s p acc egr k st best Hmono Hwalk Hknown Hminw Hpre Hscan H. unfold rev_journey in H.
  destruct best as [[bestdep node]|]; [|discriminate].
  destruct (r_acc st node) as [start|] eqn:Hstart; [|discriminate].
  destruct (rebuild_terminates_mono d s p acc egr k st node start Hmono Hwalk Hknown Hminw Hpre Hscan Hstart)
    as (legs & last & Hreb).
  rewrite Hreb in H.
  destruct (row_of node (k_accfp k)) as [ar|] eqn:Har; [|discriminate].
  destruct last as [ln|]; [|discriminate].
  destruct (row_of ln (k_egrfp k)) as [er|] eqn:Her; [|discriminate].
  destruct (optimize (OPT_FUEL d) d (walk_step ar :: legs ++ [walk_step er]) [] []) as [js1 used| |] eqn:Hopt;
    try discriminate.
  exists bestdep, node, start, legs, ln, ar, er. repeat split; try assumption; reflexivity.
Qed.

Corollary rev_journey_no_rebuild_hang : forall d s p acc egr k st best,
  wf_data_b d = true -> wf_params_b p = true -> rev_pre d s p acc egr k ->
  rev_scan d p k false = Ok st ->
  rev_journey d p k st best = Hang ->
  exists bestdep node start legs ln ar er,
    best = Some (bestdep, node) /\ r_acc st node = Some start /\
    rebuild (REBUILD_FUEL d) (r_steps st) start [] None = Some (legs, Some ln) /\
    row_of node (k_accfp k) = Some ar /\ row_of ln (k_egrfp k) = Some er /\
    optimize (OPT_FUEL d) d (walk_step ar :: legs ++ [walk_step er]) [] [] = OptHang.
Proof.
  intros d s p acc egr k st best Hwf Hp Hpre Hscan H.
  exact (rev_journey_no_rebuild_hang_mono d s p acc egr k st best (wf_times_monotone d Hwf)
           (wf_walks_nonneg d Hwf) (wf_rfp_nodes_known d Hwf) (wf_params_minw p Hp) Hpre Hscan H).
Qed.

Lemma rev_scan_not_hang d p k a : rev_scan d p k a <> Hang.
Proof. unfold rev_scan. destruct (rev_entry (k_set k) (hour_of (k_arr k) + 1)); discriminate. Qed.

Corollary calc_reverse_hang_only_optimize_mono : forall d s p acc egr k,
  times_monotone d -> walks_nonneg d -> rfp_nodes_known d -> 0 <= q_minw p -> rev_pre d s p acc egr k ->
  calc_reverse d p k = Hang ->
  exists st bestdep node start legs ln ar er,
    rev_scan d p k false = Ok st /\ best_access p k st = Some (bestdep, node) /\
    r_acc st node = Some start /\
    rebuild (REBUILD_FUEL d) (r_steps st) start [] None = Some (legs, Some ln) /\
    row_of node (k_accfp k) = Some ar /\ row_of ln (k_egrfp k) = Some er /\
    optimize (OPT_FUEL d) d (walk_step ar :: legs ++ [walk_step er]) [] [] = OptHang.
Proof.
  intros d s p acc egr k Hmono Hwalk Hknown Hminw Hpre H. unfold calc_reverse in H.
  pose proof (rev_scan_not_hang d p k false) as Hnh.
  destruct (rev_scan d p k false) as [st| | | | | | | |] eqn:Hscan; cbn [bind] in H; try discriminate;
    [|exfalso; apply Hnh; reflexivity].
  destruct (r_count st =? 0); [discriminate|].
  destruct (rev_journey_no_rebuild_hang_mono d s p acc egr k st _ Hmono Hwalk Hknown Hminw Hpre Hscan H)
    as (bestdep & node & start & legs & ln & ar & er & H1 & H2 & H3 & H4 & H5 & H6).
  exists st, bestdep, node, start, legs, ln, ar, er. repeat split; assumption.
Qed.

Corollary calc_reverse_hang_only_optimize : forall d s p acc egr k,
  wf_data_b d = true -> wf_params_b p = true -> rev_pre d s p acc egr k ->
  calc_reverse d p k = Hang ->
  exists st bestdep node start legs ln ar er,
    rev_scan d p k false = Ok st /\ best_access p k st = Some (bestdep, node) /\
    r_acc st node = Some start /\
    rebuild (REBUILD_FUEL d) (r_steps st) start [] None = Some (legs, Some ln) /\
    row_of node (k_accfp k) = Some ar /\ row_of ln (k_egrfp k) = Some er /\
    optimize (OPT_FUEL d) d (walk_step ar :: legs ++ [walk_step er]) [] [] = OptHang.
Proof.
  intros d s p acc egr k Hwf Hp Hpre H.
  exact (calc_reverse_hang_only_optimize_mono d s p acc egr k (wf_times_monotone d Hwf)
           (wf_walks_nonneg d Hwf) (wf_rfp_nodes_known d Hwf) (wf_params_minw p Hp) Hpre H).
Qed.

(* ---------------------------------------------------------------------------------------------- *)
(* 5. the accessibility scan (all_nodes = true)                                                     *)

(* rev_step with all_nodes = true differs from all_nodes = false only in the first guard (minEgr is not
   subtracted), in the break (no access-based cut) and in the reached/tentative bookkeeping: it is the
   single-route step of a calculator with minEgr = 0 and maxAcc = -1, up to r_reached / r_tent / r_count *)
Definition allnodes_calc (k : calc) : calc :=
  {| k_dep := k_dep k; k_arr := k_arr k; k_minAcc := k_minAcc k; k_maxAcc := -1;
     k_minEgr := 0; k_maxEgr := k_maxEgr k; k_accfp := k_accfp k; k_egrfp := k_egrfp k;
     k_tau := k_tau k; k_taur := k_taur k; k_fsteps := k_fsteps k; k_rsteps := k_rsteps k;
     k_ov := k_ov k; k_disabled := k_disabled k; k_set := k_set k |}.

Definition sim (a b : rstate) : Prop :=
  r_taur a = r_taur b /\ r_steps a = r_steps b /\ r_ov a = r_ov b /\ r_acc a = r_acc b /\ r_stop a = r_stop b.

Transparent rev_step rev_fp_step.

Lemma rev_fp_step_allnodes p k : rev_fp_step p (allnodes_calc k) = rev_fp_step p k.
Proof. reflexivity. Qed.

Lemma rev_step_allnodes_sim d p k a b c : sim a b ->
  sim (rev_step d p k true a c) (rev_step d p (allnodes_calc k) false b c).
Proof.
  destruct a as [ta sa oa aa ca ra tea stopa], b as [tb sb ob ab cb rb teb stopb].
  unfold sim. cbn [r_taur r_steps r_ov r_acc r_stop]. intros (E1 & E2 & E3 & E4 & E5). subst tb sb ob ab stopb.
  unfold rev_step. rewrite rev_fp_step_allnodes.
  cbn [r_taur r_steps r_ov r_acc r_stop r_reached r_tent r_count allnodes_calc k_arr k_minEgr k_maxAcc k_disabled k_accfp negb andb orb].
  destruct stopa; [repeat split; reflexivity|].
  destruct (c_arr c <=? k_arr k - 0); [|repeat split; reflexivity].
  destruct (o_usable (oa (c_trip c)) && negb (k_disabled k (c_trip c))); [|repeat split; reflexivity].
  change (-1 >=? 0) with false. rewrite andb_false_r. cbn [andb orb].
  destruct (k_arr k - c_arr c >? q_maxtt p); [repeat split; reflexivity|].
  destruct (is_some (o_exit (oa (c_trip c))) || (ta (c_to c) >=? c_arr c)); [|repeat split; reflexivity].
  set (ov1 := if c_cu c then _ else oa (c_trip c)).
  destruct (c_cb c && is_some (o_exit ov1)); [|repeat split; reflexivity].
  destruct (negb rb && match row_of (c_from c) (k_accfp k) with
                        | Some r => negb (fp_time r =? -1)
                        | None => false
                        end);
    destruct (fold_left (rev_fp_step p k c (minw_eff p c) (o_exit ov1)) (rfp_of d (c_from c)) (ta, sa, aa))
      as [[t1 s1] a1]; repeat split; reflexivity.
Qed.

Opaque rev_step rev_fp_step.

Lemma rev_fold_allnodes_sim d p k : forall L a b, sim a b ->
  sim (fold_left (rev_step d p k true) L a) (fold_left (rev_step d p (allnodes_calc k) false) L b).
Proof.
  induction L as [|c L IH]; intros a b H; cbn [fold_left]; [exact H|].
  apply IH. apply rev_step_allnodes_sim. exact H.
Qed.

Lemma rev_scan_allnodes_sim d p k st : rev_scan d p k true = Ok st ->
  exists st', rev_scan d p (allnodes_calc k) false = Ok st' /\ sim st st'.
Proof.
  unfold rev_scan. change (k_set (allnodes_calc k)) with (k_set k). change (k_arr (allnodes_calc k)) with (k_arr k).
  destruct (rev_entry (k_set k) (hour_of (k_arr k) + 1)) as [i|]; [|discriminate].
  intros H. inversion H as [Hst]. clear H.
  eexists. split; [reflexivity|]. apply rev_fold_allnodes_sim.
  repeat split; reflexivity.
Qed.

Lemma rev_pre_allnodes d s p acc egr k : rev_pre d s p acc egr k -> rev_pre d s p acc egr (allnodes_calc k).
Proof.
  intros H. destruct H. constructor; assumption.   (* every field reads components allnodes_calc keeps *)
Qed.

Theorem rebuild_terminates_allnodes_mono : forall d s p acc egr k st node start,
  times_monotone d -> walks_nonneg d -> rfp_nodes_known d -> 0 <= q_minw p -> rev_pre d s p acc egr k ->
  rev_scan d p k true = Ok st ->
  r_acc st node = Some start ->
  exists legs last, rebuild (REBUILD_FUEL d) (r_steps st) start [] None = Some (legs, last).
Proof.
  intros d s p acc egr k st node start Hmono Hwalk Hknown Hminw Hpre Hscan _.
  destruct (rev_scan_allnodes_sim d p k st Hscan) as (st' & Hscan' & (_ & Esteps & _)).
  rewrite Esteps.
  apply (rebuild_terminates_from_mono d s p acc egr (allnodes_calc k) st' start [] None Hmono Hwalk Hknown Hminw
                                      (rev_pre_allnodes d s p acc egr k Hpre) Hscan').
Qed.

Theorem rebuild_terminates_allnodes : forall d s p acc egr k st node start,
  wf_data_b d = true -> wf_params_b p = true -> rev_pre d s p acc egr k ->
  rev_scan d p k true = Ok st ->
  r_acc st node = Some start ->
  exists legs last, rebuild (REBUILD_FUEL d) (r_steps st) start [] None = Some (legs, last).
Proof.
  intros d s p acc egr k st node start Hwf Hp Hpre Hscan Hstart.
  exact (rebuild_terminates_allnodes_mono d s p acc egr k st node start (wf_times_monotone d Hwf)
           (wf_walks_nonneg d Hwf) (wf_rfp_nodes_known d Hwf) (wf_params_minw p Hp) Hpre Hscan Hstart).
Qed.

(* reverseJourneyStepAllNodes: the loop over the stops can only hang in optimizeJourney *)
Corollary rev_allnodes_loop_hang_only_optimize_mono : forall d s p acc egr k st,
  times_monotone d -> walks_nonneg d -> rfp_nodes_known d -> 0 <= q_minw p -> rev_pre d s p acc egr k ->
  rev_scan d p k true = Ok st ->
  forall nodes, rev_allnodes_loop d p k st nodes = Hang ->
  exists n start legs ln er,
    In n nodes /\ r_acc st n = Some start /\
    rebuild (REBUILD_FUEL d) (r_steps st) start [] None = Some (legs, Some ln) /\
    row_of ln (k_egrfp k) = Some er /\
    optimize (OPT_FUEL d) d (legs ++ [walk_step er]) [] [] = OptHang.
Proof.
  intros d s p acc egr k st Hmono Hwalk Hknown Hminw Hpre Hscan.
  induction nodes as [|n r IH]; intros H; cbn [rev_allnodes_loop] in H; [discriminate|].
  assert (Hrec : rev_allnodes_loop d p k st r = Hang ->
                 exists n0 start legs ln er,
                   In n0 (n :: r) /\ r_acc st n0 = Some start /\
                   rebuild (REBUILD_FUEL d) (r_steps st) start [] None = Some (legs, Some ln) /\
                   row_of ln (k_egrfp k) = Some er /\
                   optimize (OPT_FUEL d) d (legs ++ [walk_step er]) [] [] = OptHang).
  { intros Hr. destruct (IH Hr) as (n0 & start & legs & ln & er & X1 & X2).
    exists n0, start, legs, ln, er. split; [right; exact X1|exact X2]. }
  destruct (r_acc st n) as [start|] eqn:Hstart; [|apply Hrec; exact H].
  destruct (rebuild_terminates_allnodes_mono d s p acc egr k st n start Hmono Hwalk Hknown Hminw Hpre Hscan Hstart)
    as (legs & last & Hreb).
  rewrite Hreb in H.
  destruct last as [ln|]; [|discriminate].
  destruct (row_of ln (k_egrfp k)) as [er|] eqn:Her; [|discriminate].
  destruct (optimize (OPT_FUEL d) d (legs ++ [walk_step er]) [] []) as [js1 used| |] eqn:Hopt;
    [|discriminate|].
  - destruct (rev_allnodes_loop d p k st r) as [rest| | | | | | | |] eqn:Hr; cbn [bind] in H; try discriminate.
    + destruct (js_enter start) as [b|]; [|discriminate].
      destruct (k_arr k - (c_dep b - minw_eff p b) <=? q_maxtt p); discriminate.
    + apply Hrec. reflexivity.
  - exists n, start, legs, ln, er. split; [left; reflexivity|]. repeat split; assumption.
Qed.

Corollary rev_allnodes_loop_hang_only_optimize : forall d s p acc egr k st,
  wf_data_b d = true -> wf_params_b p = true -> rev_pre d s p acc egr k ->
  rev_scan d p k true = Ok st ->
  forall nodes, rev_allnodes_loop d p k st nodes = Hang ->
  exists n start legs ln er,
    In n nodes /\ r_acc st n = Some start /\
    rebuild (REBUILD_FUEL d) (r_steps st) start [] None = Some (legs, Some ln) /\
    row_of ln (k_egrfp k) = Some er /\
    optimize (OPT_FUEL d) d (legs ++ [walk_step er]) [] [] = OptHang.
Proof.
  intros d s p acc egr k st Hwf Hp Hpre Hscan.
  exact (rev_allnodes_loop_hang_only_optimize_mono d s p acc egr k st (wf_times_monotone d Hwf)
           (wf_walks_nonneg d Hwf) (wf_rfp_nodes_known d Hwf) (wf_params_minw p Hp) Hpre Hscan).
Qed.

Print Assumptions rebuild_terminates_mono.
Print Assumptions rev_journey_no_rebuild_hang_mono.
Print Assumptions calc_reverse_hang_only_optimize_mono.
Print Assumptions rebuild_terminates_allnodes_mono.
Print Assumptions rev_allnodes_loop_hang_only_optimize_mono.
Print Assumptions rebuild_terminates.
Print Assumptions rev_journey_no_rebuild_hang.
Print Assumptions calc_reverse_hang_only_optimize.
Print Assumptions rebuild_terminates_allnodes.
Print Assumptions rev_allnodes_loop_hang_only_optimize.

(* ---------------------------------------------------------------------------------------------- *)
(* 6. the historical failure: a zero-duration loop with zero minimum waiting time                   *)

From TrV Require Import Examples.

(* stops 1, 2, 3; trip 1: 1 -> 2 [dep 100, arr 100]; trip 2: 2 -> 1 [100, 100]; trip 3: 1 -> 3 [100, 200] *)
Definition z_data : data :=
  {| d_nodes := [1; 2; 3]%nat;
     d_fp := [(1%nat, [row 1 0 0]); (2%nat, [row 2 0 0]); (3%nat, [row 3 0 0])];
     d_rfp := [(1%nat, [row 1 0 0]); (2%nat, [row 2 0 0]); (3%nat, [row 3 0 0])];
     d_lines := [{| l_id := 1; l_agency := 1; l_mode := 1 |}];
     d_paths := [{| p_id := 1; p_line := 1; p_nodes := [1; 2]%nat; p_dists := [0] |};
                 {| p_id := 2; p_line := 1; p_nodes := [2; 1]%nat; p_dists := [0] |};
                 {| p_id := 3; p_line := 1; p_nodes := [1; 3]%nat; p_dists := [1000] |}];
     d_trips := [{| t_id := 1; t_path := 1; t_service := 1; t_times := [st 100 100; st 100 100] |};
                 {| t_id := 2; t_path := 2; t_service := 1; t_times := [st 100 100; st 100 100] |};
                 {| t_id := 3; t_path := 3; t_service := 1; t_times := [st 100 100; st 200 200] |}];
     d_scenarios := [scen_all] |}.
(* arrival query at 300, minimum waiting time 0 *)
Definition z_params : params :=
  {| q_scenario := 1; q_time := 300; q_minw := 0; q_maxtt := MAX_INT; q_maxacc := 1200; q_maxegr := 1200;
     q_maxtr := 1200; q_maxfw := -1; q_fwd := false; q_except_lines := [] |}.
Definition z_acc : list fprow := [row 1 10 10].
Definition z_egr : list fprow := [row 3 10 10].
(* the calculator state calc_single hands to the reverse scan *)
Definition z_k : calc :=
  let k := mk_calc z_data z_params (conn_set z_data scen_all) z_acc z_egr true true in
  with_rev k (k_arr k) (-1) (k_taur k) (set_usable (k_ov k)).

(* the hypotheses of rebuild_terminates hold on this dataset (rev_pre by calc_single_rev_pre_arrival) *)
Example z_hypotheses :
  wf_data_b z_data = true /\ wf_params_b z_params = true /\ rev_pre z_data scen_all z_params z_acc z_egr z_k.
Proof.
  split; [vm_compute; reflexivity|]. split; [vm_compute; reflexivity|].
  apply (calc_single_rev_pre_arrival z_data scen_all z_params z_acc z_egr). vm_compute. reflexivity.
Qed.

(* the scan keeps trip 3's label at stop 1: trip 1 (scanned last, 100 - 0 - 0 > 100 is false) does not
   overwrite it, so the labels are 1 -> (trip 3) -> 3 and 2 -> (trip 2) -> 1: no cycle.  The access label
   at stop 1 is trip 1's (access labels are replaced on `<=`), so the itinerary rides the zero-duration
   loop 1 -> 2 -> 1 once and then trip 3: three boardings, a valid itinerary, found in 3 rebuild steps. *)
Example z_labels :
  match rev_scan z_data z_params z_k false with
  | Ok s => map (fun n => (r_taur s n, option_map c_trip (js_enter (r_steps s n)))) [1; 2; 3]%nat
              = [(100, Some 3%nat); (100, Some 2%nat); (290, None)] /\
            map (fun n => match r_acc s n with Some j => option_map c_trip (js_enter j) | None => None end)
                [1; 2; 3]%nat = [Some 1%nat; Some 2%nat; None]
  | _ => False
  end.
Proof. vm_compute. split; reflexivity. Qed.

Example z_calc_single_ok :
  match calc_single z_data (conn_set z_data scen_all) z_params z_acc z_egr true with
  | Ok (r, _) => rt_dep r = 90 /\ rt_arr r = 210 /\ rt_nboard r = 3
  | _ => False
  end.
Proof. vm_compute. repeat split; reflexivity. Qed.

(* with `>=` in place of `>` (the source before the fix) the last scanned connection, trip 1, also wrote
   its label at stop 1; these are the labels that scan produced: 1 -> (trip 1) -> 2 -> (trip 2) -> 1.
   Following them never ends: the model's rebuild runs out of any fuel, the C++ loop out of memory. *)
Definition z_c1 : conn := {| c_trip := 1; c_seq := 1; c_from := 1; c_to := 2; c_dep := 100; c_arr := 100;
                             c_cb := true; c_cu := true; c_minw := -1 |}.
Definition z_c2 : conn := {| c_trip := 2; c_seq := 1; c_from := 2; c_to := 1; c_dep := 100; c_arr := 100;
                             c_cb := true; c_cu := true; c_minw := -1 |}.
Definition z_cyclic_steps : nat -> jstep :=
  upd (upd (fun _ => js_default) 1%nat (mk_js (Some z_c1) (Some z_c1) 1 0 true 0))
      2%nat (mk_js (Some z_c2) (Some z_c2) 2 0 true 0).
Example z_cyclic_labels_hang :
  In z_c1 (all_conns z_data) /\ In z_c2 (all_conns z_data) /\
  rebuild (REBUILD_FUEL z_data) z_cyclic_steps (mk_js (Some z_c1) (Some z_c1) 1 0 true 0) [] None = None /\
  rebuild 1000 z_cyclic_steps (mk_js (Some z_c1) (Some z_c1) 1 0 true 0) [] None = None.
Proof. vm_compute. repeat split; auto. Qed.
