(* SummaryTie.v — Render.summary_lines IS what the interpreter of coq/ScenCode.v computes from the visitor, the LineSummary
   constructors and the statement tree of SummaryResultAccumulator::processSingleCalculationResult as tools/gen_scenario.py
   reads them NOW (gen/Scenario.v: gen_summary_visitor, gen_summary_ctor_count, gen_summary_copy, gen_summary_step,
   gen_summary_after).  The part tools/gen_render.py leaves hand-written.

     acc_line_is_map_ops      Render.acc_line k m = (k absent: emplace (k, 1); present: count + 1) on a key-ordered map
     step_is_acc_line         one boarding step through the regenerated statements = acc_line of its line on the member map
     process_is_code          one result through processSingleCalculationResult = the fold of acc_line over Calc.route_lines
     summary_accumulator_is_code    run_summary gen_summary_code d rs = Some (summary_lines d rs)

   What breaks it: a visitor that answers for another step kind, a first count that is not 1, a copy that does not keep
   the count, `count++` replaced by an assignment, the look-up on another key or another map, counting once per route
   (stored change C19_summary_merge_counts_once_per_route: a per-result map merged afterwards). *)
From Coq Require Import List ZArith Bool Arith Lia.
From TrV Require Import Render.
Require Import TrV.ScenCode.
Require TrV.gen.Scenario.
Import ListNotations.
Local Open Scope Z_scope.

Module GS := TrV.gen.Scenario.

Definition gen_summary_code : acc_code :=
  {| ac_visitor := GS.gen_summary_visitor; ac_ctor_count := GS.gen_summary_ctor_count; ac_copy := GS.gen_summary_copy;
     ac_step := GS.gen_summary_step; ac_after := GS.gen_summary_after |}.

Lemma acc_line_is_map_ops : forall k m,
  acc_line k m = match sm_find k m with
                 | None => sm_emplace k 1 m
                 | Some _ => sm_adjust k (fun c => c + 1) m
                 end.
Proof.
  intros k m. induction m as [|[k' c] r IH]; cbn [acc_line sm_find sm_emplace sm_adjust]; [reflexivity|].
  destruct (Nat.eqb k k'); [reflexivity|]. destruct (Nat.ltb k k'); [reflexivity|].
  rewrite IH. destruct (sm_find k r); reflexivity.
Qed.

(* the count a summary has when it reaches the map *)
Lemma gen_init_is_one : acc_init gen_summary_code = 1.
Proof. reflexivity. Qed.

(* which steps the visitor answers for, and with which line *)
Lemma gen_step_line : forall d s,
  step_line (ac_visitor gen_summary_code) d s =
  match s with
  | SBoard t _ _ _ _ _ => option_map (trip_line d) (find_trip d t)
  | _ => None
  end.
Proof. intros d [ | | ]; reflexivity. Qed.

Lemma step_is_acc_line : forall (st : amaps) l,
  aseq (run_astmt (acc_init gen_summary_code) (Some l)) (ac_step gen_summary_code) None st
  = Some (upd st 0%nat (acc_line l (st 0%nat))).
Proof.
  intros st l. rewrite gen_init_is_one. cbn [ac_step gen_summary_code]. unfold GS.gen_summary_step.
  cbn [aseq run_astmt]. rewrite acc_line_is_map_ops.
  destruct (sm_find l (st 0%nat)); cbn [is_some aseq run_astmt]; reflexivity.
Qed.

Lemma after_is_nothing : forall (st : amaps),
  aseq (run_astmt (acc_init gen_summary_code) None) (ac_after gen_summary_code) None st = Some st.
Proof. reflexivity. Qed.

Definition lines_of_step (d : data) (s : Journey.step) : list nat :=
  match s with
  | SBoard t _ _ _ _ _ => match find_trip d t with Some tr => [trip_line d tr] | None => [] end
  | _ => []
  end.

Lemma route_lines_steps : forall d r, route_lines d r = flat_map (lines_of_step d) (rt_steps r).
Proof. reflexivity. Qed.

Lemma steps_fold : forall d steps (st : amaps),
  exists st' : amaps,
    fold_left (fun acc s =>
                 match acc, step_line (ac_visitor gen_summary_code) d s with
                 | Some st, Some l => aseq (run_astmt (acc_init gen_summary_code) (Some l)) (ac_step gen_summary_code) None st
                 | _, _ => acc
                 end) steps (Some st) = Some st' /\
    st' 0%nat = fold_left (fun m l => acc_line l m) (flat_map (lines_of_step d) steps) (st 0%nat).
Proof.
  intros d steps. induction steps as [|s r IH]; intros st; cbn [fold_left flat_map].
  - exists st. split; reflexivity.
  - rewrite gen_step_line. rewrite fold_left_app.
    destruct s as [k a b c e f | t a b c e f | t a b c e f g]; cbn [lines_of_step fold_left]; try apply IH.
    destruct (find_trip d t) as [tr|]; cbn [option_map fold_left]; [|apply IH].
    rewrite step_is_acc_line.
    destruct (IH (upd st 0%nat (acc_line (trip_line d tr) (st 0%nat)))) as (st' & H1 & H2).
    exists st'. split; [exact H1|]. rewrite H2. unfold upd. cbn [Nat.eqb]. reflexivity.
Qed.

Theorem process_is_code : forall d r m0,
  run_process gen_summary_code d r m0 = Some (fold_left (fun m l => acc_line l m) (route_lines d r) m0).
Proof.
  intros d r m0. unfold run_process.
  destruct (steps_fold d (rt_steps r) (fun m => if Nat.eqb m 0 then m0 else [])) as (st' & H1 & H2).
  rewrite H1, after_is_nothing. cbn [option_map]. rewrite H2, route_lines_steps. reflexivity.
Qed.

Theorem summary_accumulator_is_code : forall d rs,
  run_summary gen_summary_code d rs = Some (summary_lines d rs).
Proof.
  intros d rs. unfold run_summary, summary_lines. generalize (@nil (nat * Z)) as m0.
  induction rs as [|r rest IH]; intro m0; cbn [fold_left flat_map]; [reflexivity|].
  rewrite process_is_code, fold_left_app. apply IH.
Qed.

(* the two entry points: every alternative is fed to ONE fresh accumulator / the single result is *)
Corollary summary_of_is_code : forall d a n ls,
  summary_of d a = Some (n, ls) -> run_summary gen_summary_code d (routes_of a) = Some ls.
Proof.
  intros d a n ls H. rewrite summary_accumulator_is_code.
  destruct a as [o|o|o|c]; cbn [summary_of routes_of] in *; try discriminate;
    destruct o as [[x y]| | | | | | | |]; try discriminate; inversion H; reflexivity.
Qed.
