(* Proofs/RevOptCompose.v — the optimality statements of Optimal.v that rest on the reverse scan, assembled:

     C03_decl_proved  : C03_decl_statement   (departure query: success exactly when an admissible journey exists,
                                              the reported arrival is the earliest one; Ok case = C03Ok)
     C04_decl_proved  : C04_decl_statement   (arrival query: success exactly when an admissible journey exists,
                                              the reported departure is the latest one)
     C05_decl_proved  : C05_decl_statement   (departure query: the reported departure is the latest one from which
                                              the reported arrival can be met; with FwdOpt.F_usable_journey)
     C09_decl_proved  : C09_decl_statement   (arrival accessibility map)

   from RevOpt (completeness / soundness of the reverse scan), ValidAdm (the attained halves and the journey
   behind an answer), Compose / OptTotal / Termination (no exception, no endless loop). *)
From Coq Require Import List ZArith Bool Arith Lia Sorted.
From TrV Require Import Spec Admissible Optimal.
From TrV.Proofs Require Import FwdOpt C03Ok.   (* first: FwdOpt's invariant reuses names of RevInv's (Inv, i_acc, ...) *)
From TrV.Proofs Require Import SortFilter Index Totals EmitValid Rewrites RevInv Termination RouteValid Limits
                               Compose OptTotal ValidAdm RevOpt.
Import ListNotations.
Local Open Scope Z_scope.

(* ---------------------------------------------------------------------------------------------- *)
(* 1. C04                                                                                           *)

(* the departure of the route calc_reverse emits is the value best_access selected *)
Lemma calc_reverse_dep d s p acc egr k r used :
  wf_data_b d = true -> wf_params_b p = true -> rev_pre d s p acc egr k ->
  calc_reverse d p k = Ok (r, used) ->
  exists st t n, rev_scan d p k false = Ok st /\ r_count st <> 0 /\ best_access p k st = Some (t, n) /\ rt_dep r = t /\
                 rt_arr r <= k_arr k.
Proof.
  intros Hwf Hp Hpre Hcalc. unfold calc_reverse in Hcalc.
  destruct (rev_scan d p k false) as [st| | | | | | | |] eqn:Hscan; try discriminate.
  cbn [bind] in Hcalc. destruct (r_count st =? 0) eqn:Hcnt; [discriminate|]. apply Z.eqb_neq in Hcnt.
  unfold rev_journey in Hcalc.
  destruct (best_access p k st) as [[bestdep node]|] eqn:Hbest; [|discriminate].
  destruct (r_acc st node) as [start|] eqn:Hstart; [|discriminate].
  destruct (rebuild (REBUILD_FUEL d) (r_steps st) start [] None) as [[legs last0]|] eqn:Hreb; [|discriminate].
  destruct (rev_journey_ok_gen_cap d s p acc egr k st bestdep node start (REBUILD_FUEL d) legs last0
                                   Hwf Hp Hpre Hscan Hbest Hstart Hreb)
    as (ar & er & ln & L1 & L2 & L3 & L4 & L5 & L6 & (el & L7 & L8) & L9 & (b1 & L10 & L11 & L12)).
  rewrite (rp_acc _ _ _ _ _ _ Hpre), (rp_egr _ _ _ _ _ _ Hpre), L1, L2, L3 in Hcalc.
  destruct (optimize (OPT_FUEL d) d (walk_step ar :: legs ++ [walk_step er]) [] []) as [js1 used1| |] eqn:Hopt;
    try discriminate.
  inversion Hcalc; subst r used1. clear Hcalc.
  exists st, bestdep, node. split; [reflexivity|]. split; [exact Hcnt|]. split; [exact Hbest|].
  pose proof (RouteValid.wf_params_minw p Hp) as Hmw.
  destruct (optimize_ends (OPT_FUEL d) d s p acc egr bestdep (walk_step ar) legs (walk_step er) b1 el js1 used
                          Hwf Hmw L4 L10 L7 Hopt)
    as (legs' & el' & Ejs & Hfb' & Hla' & Harr' & _).
  pose proof (optimize_preserves (OPT_FUEL d) d s p acc egr bestdep _ js1 used Hwf Hmw L4 Hopt) as Hj'.
  subst js1.
  pose proof Hj' as Hj2. apply journey_ok_iff in Hj2. destruct Hj2 as (Ha & He & Hall & _).
  assert (Hlegs : forall j, In j legs' -> is_leg j).
  { intros j Hj0. rewrite forallb_forall in Hall.
    destruct (jleg_ok_inv d s p j (Hall j Hj0)) as (b & x & t & tr & Hb & Hx & Ht & _).
    exists b, x, t. auto. }
  destruct (emit_shape d p bestdep (walk_step ar) legs' (walk_step er) el' Ha He Hlegs Hla') as (_ & Hdep & Harr2).
  split; [exact Hdep|]. rewrite Harr2. cbn [walk_step js_walk]. lia.
Qed.

Lemma rev_scan_not_norouting d p k a reason : rev_scan d p k a <> NoRouting reason.
Proof. unfold rev_scan. destruct (rev_entry (k_set k) (hour_of (k_arr k) + 1)); discriminate. Qed.

Theorem C04_bound d s p acc egr r used :
  opt_domain d s p acc egr -> pos_hops_b d = true -> q_fwd p = false ->
  route_answer d s p acc egr = Ok (r, used) ->
  forall dep0 rides, admissible_rev d s p acc egr dep0 rides -> dep0 <= rt_dep r.
Proof.
  intros (Hwf & _ & Htab & Hp & _) Hpos Hf Hans dep0 rides Hadm.
  unfold route_answer, calc_single in Hans.
  destruct (access_reason (negb true || nonempty acc) (negb true || nonempty egr)); [discriminate|].
  cbv zeta in Hans. rewrite Hf, andb_false_r in Hans.
  set (k0 := mk_calc d p (conn_set d s) acc egr true true) in *.
  destruct (k_arr k0 >? -1); [|discriminate].
  pose proof (calc_single_rev_pre_arrival d s p acc egr Htab) as Hpre. cbv zeta in Hpre. fold k0 in Hpre.
  destruct (calc_reverse_dep d s p acc egr _ r used Hwf Hp Hpre Hans) as (st & t & n & Hscan & _ & Hbest & Hdep & _).
  destruct (rev_arrival_optimal d s p acc egr st Hwf Hp Htab Hpos Hf Hscan) as [_ Hopt].
  destruct (Hopt t n Hbest) as [_ Hmax]. rewrite Hdep. apply (Hmax dep0 rides Hadm).
Qed.

Theorem C04_none d s p acc egr reason :
  opt_domain d s p acc egr -> pos_hops_b d = true -> q_fwd p = false ->
  route_answer d s p acc egr = NoRouting reason ->
  forall dep0 rides, ~ admissible_rev d s p acc egr dep0 rides.
Proof.
  intros (Hwf & _ & Htab & Hp & _) Hpos Hf Hans dep0 rides Hadm.
  pose proof Hadm as (arr & (ra & re & m & t' & Hra & Hre & _) & _).
  destruct acc as [|a0 acc']; [destruct Hra|]. destruct egr as [|e0 egr']; [destruct Hre|].
  unfold route_answer, calc_single in Hans.
  change (access_reason (negb true || nonempty (a0 :: acc')) (negb true || nonempty (e0 :: egr'))) with (@None nat) in Hans.
  cbv zeta in Hans. rewrite Hf, andb_false_r in Hans.
  set (k0 := mk_calc d p (conn_set d s) (a0 :: acc') (e0 :: egr') true true) in *.
  destruct (k_arr k0 >? -1); [|discriminate].
  pose proof (calc_single_rev_pre_arrival d s p (a0 :: acc') (e0 :: egr') Htab) as Hpre. cbv zeta in Hpre. fold k0 in Hpre.
  set (k := with_rev k0 (k_arr k0) (-1) (k_taur k0) (set_usable (k_ov k0))) in *.
  unfold calc_reverse in Hans.
  destruct (rev_scan d p k false) as [st| rr | | | | | | |] eqn:Hscan; try discriminate.
  2:{ exfalso. apply (rev_scan_not_norouting d p k false rr Hscan). }
  cbn [bind] in Hans.
  destruct (rev_arrival_optimal d s p (a0 :: acc') (e0 :: egr') st Hwf Hp Htab Hpos Hf Hscan) as [Hnone _].
  fold k0 in Hnone. fold k in Hnone.
  destruct (r_count st =? 0) eqn:Hcnt.
  - apply Z.eqb_eq in Hcnt. apply (Hnone (or_introl Hcnt) dep0 rides Hadm).
  - unfold rev_journey in Hans.
    destruct (best_access p k st) as [[bestdep node]|] eqn:Hbest; [|apply (Hnone (or_intror eq_refl) dep0 rides Hadm)].
    destruct (r_acc st node) as [start|]; [|discriminate].
    destruct (rebuild (REBUILD_FUEL d) (r_steps st) start [] None) as [[legs last0]|]; [|discriminate].
    destruct (row_of node (k_accfp k)) as [ar|]; [|discriminate].
    destruct last0 as [ln|]; [|discriminate].
    destruct (row_of ln (k_egrfp k)) as [er|]; [|discriminate].
    destruct (optimize (OPT_FUEL d) d (walk_step ar :: legs ++ [walk_step er]) [] []); discriminate.
Qed.

(* C04 holds whatever the minimum waiting times of the connections (the statement of Optimal.v restricts the
   domain to uniform waiting, which the corrected access-based break no longer needs) *)
Theorem C04_decl_strong d s p acc egr :
  opt_domain d s p acc egr -> pos_hops_b d = true -> q_fwd p = false -> C04_decl d s p acc egr.
Proof.
  intros Hdom Hpos Hf.
  apply (C04_decl_from_bound d s p acc egr Hdom Hf).
  - intros r used Hans. apply (C04_bound d s p acc egr r used Hdom Hpos Hf Hans).
  - intros reason Hans. apply (C04_none d s p acc egr reason Hdom Hpos Hf Hans).
Qed.

Theorem C04_decl_proved : C04_decl_statement.
Proof. intros d s p acc egr Hdom Hpos _ Hf. apply C04_decl_strong; assumption. Qed.

Print Assumptions C04_decl_strong.
Print Assumptions C04_decl_proved.

(* ---------------------------------------------------------------------------------------------- *)
(* 1b. C05: the reverse scan after the forward scan (with FwdOpt.F_usable_journey for the usable trips) *)

Theorem C05_bound d s p acc egr r used :
  opt_domain d s p acc egr -> pos_hops_b d = true -> q_fwd p = true -> q_maxfw p <= 0 ->
  route_answer d s p acc egr = Ok (r, used) ->
  forall dep0 rides arr, journey d s p acc egr dep0 rides arr -> arr <= rt_arr r -> q_time p <= dep0 ->
                         dep0 <= rt_dep r.
Proof.
  intros (Hwf & _ & Htab & Hp & _) Hpos Hf Hfw Hans dep0 rides arr Hj Harr Hdep.
  pose proof (wf_params_time p Hp) as Htime.
  unfold route_answer, calc_single in Hans.
  destruct (access_reason (negb true || nonempty acc) (negb true || nonempty egr)); [discriminate|].
  cbv zeta in Hans. set (k0 := mk_calc d p (conn_set d s) acc egr true true) in *.
  assert (Ek : k_dep k0 = q_time p) by (unfold k0, mk_calc; cbn [k_dep]; rewrite Hf; reflexivity).
  assert (Eg : (k_dep k0 >? -1) = true) by (apply Z.gtb_lt; lia).
  rewrite Eg, Hf in Hans. cbn [andb] in Hans.
  destruct (fwd_scan d p k0 false) as [fs| | | | | | | |] eqn:Hfscan; try discriminate.
  cbn [bind] in Hans. destruct (f_count fs =? 0); [discriminate|].
  destruct (best_egress p k0 fs) as [[best n0]|] eqn:Hbest; [|discriminate].
  pose proof (calc_single_rev_pre_departure d s p acc egr fs best Htab Hf Hfscan) as Hpre.
  cbv zeta in Hpre. fold k0 in Hpre.
  destruct (calc_reverse_dep d s p acc egr _ r used Hwf Hp Hpre Hans)
    as (st & t & n & Hscan & _ & Hba & Hrd & Hra).
  unfold with_rev in Hra. cbn [k_arr] in Hra.
  pose proof (best_egress_bound p k0 fs best n0 Hbest) as Hbb. rewrite Ek in Hbb.
  destruct (rev_departure_optimal d s p acc egr fs best n0 st t n Hwf Hp Htab Hpos Hf Hfw Hfscan Hbest Hscan Hba)
    as (_ & _ & _ & Hmax).
  rewrite Hrd. apply (Hmax dep0 rides arr Hj); try lia.
  intros b e Hin.
  apply (proj1 (F_usable_journey d s p acc egr fs best n0 dep0 rides arr Hwf Htab Hp Hpos Hf Hfw Hfscan Hbest Hj Hdep
                                 ltac:(lia) b e Hin)).
Qed.

Theorem C05_decl_strong d s p acc egr :
  opt_domain d s p acc egr -> pos_hops_b d = true -> q_fwd p = true -> q_maxfw p <= 0 -> C05_decl d s p acc egr.
Proof.
  intros Hdom Hpos Hf Hfw.
  apply (C05_decl_from_bound d s p acc egr Hdom Hf).
  intros r used Hans. apply (C05_bound d s p acc egr r used Hdom Hpos Hf Hfw Hans).
Qed.

Theorem C05_decl_proved : C05_decl_statement.
Proof. intros d s p acc egr Hdom Hpos _ Hf Hfw. apply C05_decl_strong; assumption. Qed.

Print Assumptions C05_decl_strong.
Print Assumptions C05_decl_proved.

(* ---------------------------------------------------------------------------------------------- *)
(* 1c. C03: a departure query answers a no-routing reason only when no admissible journey exists     *)

(* the forward pass found the optimal arrival `best` (FwdOpt.calc_single_fwd_phase); the journey attaining it
   leaves at the requested time on trips the forward pass boarded (F_usable_journey), so the reverse pass for
   `best` finds a candidate (rev_complete_departure) and answers a route *)
Theorem C03_none d s p acc egr reason :
  opt_domain d s p acc egr -> pos_hops_b d = true -> q_fwd p = true -> q_maxfw p <= 0 ->
  route_answer d s p acc egr = NoRouting reason ->
  forall rides t, ~ admissible_fwd d s p acc egr rides t.
Proof.
  intros (Hwf & _ & Htab & Hp & _) Hpos Hf Hfw Hans rides t Hadm.
  destruct (calc_single_fwd_phase d s p acc egr Hwf Htab Hp Hpos Hf Hfw true rides t Hadm)
    as (fs & best & nb & Hfscan & _ & Hbest & _ & (rides' & Hadm') & _ & Ecalc).
  unfold route_answer in Hans. rewrite Ecalc in Hans. clear Ecalc.
  set (k0 := mk_calc d p (conn_set d s) acc egr true true) in *.
  set (k := with_rev k0 best (k_dep k0)
              (fold_left (fun m r => upd m (fp_node r) (best - fp_time r)) (k_egrfp k0) (k_taur k0)) (f_ov fs)) in *.
  destruct Hadm' as [Hj Hspan].
  pose proof Hj as (ra & re & m & t' & Hra & Hre & Hreach & Hm & Harr).
  destruct (reaches_first_dep _ _ _ _ _ _ _ _ Hreach) as (b & e & rest & Er & Hb).
  destruct (wf_tables_parts d p acc egr Htab) as (Hracc & _ & _ & _).
  pose proof (rows_ok_nonneg d acc ra Hracc Hra) as Hra0.
  assert (Hdp : q_time p <= departure_of p ra rides') by (subst rides'; cbn [departure_of]; lia).
  unfold calc_reverse in Hans.
  destruct (rev_scan d p k false) as [st| rr | | | | | | |] eqn:Hscan; try discriminate.
  2:{ apply (rev_scan_not_norouting d p k false rr Hscan). }
  cbn [bind] in Hans.
  destruct (rev_complete_departure d s p acc egr fs best nb st ra re rides' (q_time p + fp_time ra) m t'
              Hwf Hp Htab Hpos Hf Hfw Hfscan Hbest Hscan Hra Hre Hreach Hm ltac:(lia))
    as (C1 & tb & n & C2 & _).
  - intros b0 e0 Hin.
    apply (proj1 (F_usable_journey d s p acc egr fs best nb (q_time p) rides' best Hwf Htab Hp Hpos Hf Hfw Hfscan Hbest
                                   Hj ltac:(lia) ltac:(lia) b0 e0 Hin)).
  - exact Hdp.
  - lia.
  - fold k0 in C2. fold k in C2.
    destruct (r_count st =? 0) eqn:Hcnt; [apply Z.eqb_eq in Hcnt; contradiction|].
    unfold rev_journey in Hans. rewrite C2 in Hans.
    destruct (r_acc st n) as [start|]; [|discriminate].
    destruct (rebuild (REBUILD_FUEL d) (r_steps st) start [] None) as [[legs last0]|]; [|discriminate].
    destruct (row_of n (k_accfp k)) as [ar|]; [|discriminate].
    destruct last0 as [ln|]; [|discriminate].
    destruct (row_of ln (k_egrfp k)) as [er|]; [|discriminate].
    destruct (optimize (OPT_FUEL d) d (walk_step ar :: legs ++ [walk_step er]) [] []); discriminate.
Qed.

Theorem C03_decl_proved : C03_decl_statement.
Proof.
  intros d s p acc egr Hdom Hpos Hf Hfw.
  apply (C03_decl_from_bound d s p acc egr Hdom Hf).
  - intros r used Hans. apply (proj2 (C03_ok_case d s p acc egr r used Hdom Hpos Hf Hfw Hans)).
  - intros reason Hans. apply (C03_none d s p acc egr reason Hdom Hpos Hf Hfw Hans).
Qed.

Print Assumptions C03_none.
Print Assumptions C03_decl_proved.

(* ---------------------------------------------------------------------------------------------- *)
(* 2. optimizeJourney without the access walk                                                       *)

(* reverseJourneyStepAllNodes hands optimizeJourney the legs and the egress walk only.  A leading walk step
   takes no part in any rewrite, so the two runs agree up to that step: totality (OptTotal, stated for the
   full journey shape) carries over. *)

Definition lift_opt (a : jstep) (r : opt_result) : opt_result :=
  match r with OptDone js u => OptDone (a :: js) u | OptUB => OptUB | OptHang => OptHang end.

Definition shift_det (o : option (option (nat * nat * nat * nat))) : option (option (nat * nat * nat * nat)) :=
  match o with
  | Some (Some (cs, n, i, j)) => Some (Some (cs, n, S i, S j))
  | Some None => Some None
  | None => None
  end.

Lemma detect_pair_empty ign sj : detect_pair ign empty_sum sj = None.
Proof.
  unfold detect_pair, empty_sum. cbn [ls_between ls_last ls_first length Nat.eqb negb andb].
  destruct (ls_last sj) as [lj|]; [|reflexivity].
  destruct (negb (Nat.eqb (length (ls_between sj)) 0)); reflexivity.
Qed.

Lemma detect_inner_shift ign sj : forall prev i,
  detect_inner ign prev (S i) sj =
  match detect_inner ign prev i sj with Some (cs, n, i') => Some (cs, n, S i') | None => None end.
Proof.
  induction prev as [|si prev IH]; intros i; cbn [detect_inner]; [reflexivity|].
  destruct (detect_pair ign si sj) as [[cs n]|]; [reflexivity|]. apply IH.
Qed.

Lemma detect_shift d ign : forall js idx prev,
  detect d ign js (S idx) (empty_sum :: prev) = shift_det (detect d ign js idx prev).
Proof.
  induction js as [|j js IH]; intros idx prev; cbn [detect]; [reflexivity|].
  destruct (leg_summary d j) as [[sj|]|]; [| |reflexivity].
  - cbn [detect_inner]. rewrite detect_pair_empty, detect_inner_shift.
    destruct (detect_inner ign prev 0 sj) as [[[cs n] i]|]; [reflexivity|].
    change ((empty_sum :: prev) ++ [sj]) with (empty_sum :: (prev ++ [sj])). apply IH.
  - change ((empty_sum :: prev) ++ [empty_sum]) with (empty_sum :: (prev ++ [empty_sum])). apply IH.
Qed.

Lemma detect_cons_walk d ign a js : leg_summary d a = Some None ->
  detect d ign (a :: js) 0 [] = shift_det (detect d ign js 0 []).
Proof.
  intros Ha. cbn [detect]. rewrite Ha. change ([] ++ [empty_sum]) with [empty_sum]. apply detect_shift.
Qed.

Lemma erase_range_cons {A} (a : A) l x y : erase_range (a :: l) (S x) (S y) = a :: erase_range l x y.
Proof. reflexivity. Qed.

Lemma css_second_cons node exitc a : forall rng js from to used ign,
  css_second node exitc rng (a :: js) (S from) (S to) used ign =
  let '(js1, u1, i1) := css_second node exitc rng js from to used ign in (a :: js1, u1, i1).
Proof.
  induction rng as [|c rng IH]; intros js from to used ign; cbn [css_second]; [reflexivity|].
  destruct (Nat.eqb node (c_from c)); [|apply IH].
  destruct exitc as [ex|]; [|reflexivity].
  destruct (c_cb c); reflexivity.
Qed.

Lemma optimize_cons_walk d a : leg_summary d a = Some None ->
  forall f js used ign, optimize f d (a :: js) used ign = lift_opt a (optimize f d js used ign).
Proof.
  intros Ha. induction f as [|f IH]; intros js used ign; [reflexivity|].
  cbn [optimize]. rewrite (detect_cons_walk d ign a js Ha).
  destruct (detect d ign js 0 []) as [[[[[cs node] from] to]|]|]; cbn [shift_det]; [|reflexivity|reflexivity].
  change (nth_js (a :: js) (S from)) with (nth_js js from).
  change (nth_js (a :: js) (S to)) with (nth_js js to).
  destruct (Nat.eqb cs 1).
  { destruct (leg_range d (nth_js js from)) as [rng|]; [|reflexivity].
    destruct (find (fun c => Nat.eqb node (c_to c)) rng) as [c|]; [|apply IH].
    destruct (negb (c_cu c)); [apply IH|].
    change (set_nth (a :: js) (S from) (fun j => set_exit (set_walk j (js_walk (nth_js js to)) (js_dist (nth_js js to))) c))
      with (a :: set_nth js from (fun j => set_exit (set_walk j (js_walk (nth_js js to)) (js_dist (nth_js js to))) c)).
    rewrite erase_range_cons. apply IH. }
  destruct (Nat.eqb cs 2).
  { destruct (leg_range d (nth_js js to)) as [rng|]; [|reflexivity].
    destruct (find (fun c => Nat.eqb node (c_from c)) rng) as [c|]; [|reflexivity].
    destruct (negb (c_cb c)); [reflexivity|].
    change (set_nth (set_nth (a :: js) (S to) (fun j => set_enter j c)) (S from) (fun j0 => set_walk j0 0 0))
      with (a :: set_nth (set_nth js to (fun j => set_enter j c)) from (fun j0 => set_walk j0 0 0)).
    rewrite erase_range_cons. reflexivity. }
  destruct (Nat.eqb cs 3).
  { destruct (leg_range d (nth_js js from)) as [rng|]; [|reflexivity].
    destruct (find (fun c => Nat.eqb node (c_to c)) rng) as [c|]; [|apply IH].
    destruct (negb (c_cu c)); [apply IH|].
    change (set_nth (a :: js) (S from) (fun j => set_walk (set_exit j c) 0 0))
      with (a :: set_nth js from (fun j => set_walk (set_exit j c) 0 0)).
    rewrite erase_range_cons. apply IH. }
  destruct (leg_range d (nth_js js from)) as [rf|]; [|reflexivity].
  destruct (leg_range d (nth_js js to)) as [rt|]; [|reflexivity].
  cbv zeta. rewrite css_second_cons.
  destruct (css_second node (css_first node rf None) rt js from to used ign) as [[js1 u1] i1].
  apply IH.
Qed.

(* ---------------------------------------------------------------------------------------------- *)
(* 3. reverseJourneyStepAllNodes: one labelled stop                                                 *)

Lemma leg_summary_walk_step d r : leg_summary d (walk_step r) = Some None.
Proof. reflexivity. Qed.

(* for a labelled stop the three steps of the loop body succeed: the label chain ends at an egress stop, and
   optimizeJourney terminates on the legs followed by the egress walk *)
Lemma allnodes_node_ok d s p acc egr k st n start :
  wf_data_b d = true -> wf_params_b p = true -> rev_pre d s p acc egr k ->
  rev_scan d p k false = Ok st -> r_acc st n = Some start ->
  exists b legs ln er js1 used,
    js_enter start = Some b /\
    rebuild (REBUILD_FUEL d) (r_steps st) start [] None = Some (legs, Some ln) /\
    row_of ln egr = Some er /\
    optimize (OPT_FUEL d) d (legs ++ [walk_step er]) [] [] = OptDone js1 used.
Proof.
  intros Hwf Hp Hpre Hscan Hstart.
  pose proof (RouteValid.wf_params_minw p Hp) as Hmw.
  pose proof (rev_scan_inv d s p acc egr k st Hwf Hp Hpre Hscan) as HI.
  destruct (i_acc _ _ _ _ _ _ _ _ HI n start Hstart) as (b & e0 & HC & Hfrom & _).
  pose proof HC as (C1 & C2 & C3 & C4 & C5 & C6 & C7 & C8 & C9 & C10 & C11).
  destruct (rebuild_terminates d s p acc egr k st n start Hwf Hp Hpre Hscan Hstart) as (legs & last & Hreb).
  pose proof (rebuild_legs_bound d s p acc egr k st start legs last Hwf Hp Hpre Hscan Hreb) as Hlen.
  pose proof Hreb as Hreb2. rewrite REBUILD_FUEL_S in Hreb2.
  rewrite (rebuild_step _ _ _ _ _ b e0 C1 C2) in Hreb2.
  change (([] : list jstep) ++ [start]) with ([] ++ [start]) in Hreb2.
  set (bd := c_dep b - minw_eff p b).
  destruct (rebuild_inv d s p k Hwf (r_taur st) (r_steps st) (r_acc st) (r_ov st) bd b HI
                        (4 * length (d_nodes d) + 63)%nat [] start e0 legs last C2 C11 C5)
    as (R1 & R2 & R3 & el & R4 & R5 & R6 & R7 & R8).
  - cbn [app forallb]. rewrite (core_jleg d s p Hwf _ _ _ _ HC). reflexivity.
  - cbn [app]. rewrite jchain_one, C1, C2. rewrite andb_true_r. apply Z.leb_le.
    subst bd. change (minw_true p b) with (minw_eff p b). lia.
  - cbn [app first_board]. exact C1.
  - exact Hreb2.
  - pose proof (i_seed _ _ _ _ _ _ _ _ HI (c_to el) R7) as Hseed.
    rewrite (rp_taur _ _ _ _ _ _ Hpre) in Hseed.
    pose proof (conn_arr_nonneg d el Hwf R6) as Hnn.
    destruct (row_of (c_to el) egr) as [er|] eqn:Eer; [|lia].
    set (ra := {| fp_node := c_from b; fp_time := 0; fp_dist := 0 |}).
    assert (Hj : journey_ok_b d s p [ra] egr bd (walk_step ra :: legs ++ [walk_step er]) = true).
    { unfold journey_ok_b. rewrite rev_unit. cbv beta iota zeta. rewrite rev_involutive.
      rewrite R1, R3, R4.
      destruct (row_of_some _ _ _ Eer) as [N3 N4].
      cbn [is_walk walk_step js_enter js_exit js_walk is_some negb andb].
      change (fp_time ra) with 0. rewrite Z.add_0_r, R2.
      rewrite <- N3, (has_row_intro egr er N4).
      unfold has_row. cbn [existsb ra fp_node fp_time]. rewrite Nat.eqb_refl. reflexivity. }
    destruct (optimize_total_wide d s p [ra] egr bd (walk_step ra :: legs ++ [walk_step er]) Hwf Hmw Hj)
      as (js' & used & Hopt).
    { cbn [length]. rewrite app_length. cbn [length]. lia. }
    rewrite (optimize_cons_walk d (walk_step ra) (leg_summary_walk_step d ra)) in Hopt.
    destruct (optimize (OPT_FUEL d) d (legs ++ [walk_step er]) [] []) as [js1 u1| |] eqn:Hopt1; try discriminate.
    exists b, legs, (c_to el), er, js1, u1. subst last. repeat split; try assumption.
Qed.

(* ---------------------------------------------------------------------------------------------- *)
(* 4. reverseJourneyStepAllNodes: the loop over the stops                                            *)

Definition an_key (a : accnode) : nat * Z * Z := (an_node a, an_time a, an_ttt a).

(* what the loop contributes for stop n: one entry when the stop is labelled inside the travel-time window *)
Definition node_rows (p : params) (k : calc) (st : rstate) (n : nat) : list (nat * Z * Z) :=
  match r_acc st n with
  | Some start =>
      match js_enter start with
      | Some b => if k_arr k - (c_dep b - minw_eff p b) <=? q_maxtt p
                  then [(n, k_arr k, k_arr k - (c_dep b - minw_eff p b))] else []
      | None => []
      end
  | None => []
  end.

Lemma allnodes_loop_spec d p k st : forall nodes,
  (forall n start, In n nodes -> r_acc st n = Some start ->
     exists legs ln er js1 used,
       rebuild (REBUILD_FUEL d) (r_steps st) start [] None = Some (legs, Some ln) /\
       row_of ln (k_egrfp k) = Some er /\
       optimize (OPT_FUEL d) d (legs ++ [walk_step er]) [] [] = OptDone js1 used) ->
  exists l, rev_allnodes_loop d p k st nodes = Ok l /\ map an_key l = flat_map (node_rows p k st) nodes.
Proof.
  induction nodes as [|n nodes IH]; intros Hok.
  - exists []. split; reflexivity.
  - destruct (IH (fun n0 start H0 => Hok n0 start (or_intror H0))) as (l' & El & Em).
    cbn [rev_allnodes_loop flat_map]. unfold node_rows at 1.
    destruct (r_acc st n) as [start|] eqn:Hstart.
    + destruct (Hok n start (or_introl eq_refl) Hstart) as (legs & ln & er & js1 & used & E1 & E2 & E3).
      rewrite E1, E2, E3, El. cbn [bind].
      destruct (js_enter start) as [b|].
      * destruct (k_arr k - (c_dep b - minw_eff p b) <=? q_maxtt p).
        -- eexists. split; [reflexivity|]. cbn [map app]. rewrite Em. reflexivity.
        -- exists l'. split; [reflexivity|exact Em].
      * exists l'. split; [reflexivity|exact Em].
    + exists l'. split; [exact El|exact Em].
Qed.

Lemma node_rows_in p k st n x : In x (node_rows p k st n) ->
  exists start b, r_acc st n = Some start /\ js_enter start = Some b /\
                  k_arr k - (c_dep b - minw_eff p b) <= q_maxtt p /\
                  x = (n, k_arr k, k_arr k - (c_dep b - minw_eff p b)).
Proof.
  unfold node_rows. intros H.
  destruct (r_acc st n) as [start|] eqn:E1; [|destruct H].
  destruct (js_enter start) as [b|] eqn:E2; [|destruct H].
  destruct (k_arr k - (c_dep b - minw_eff p b) <=? q_maxtt p) eqn:E; [|destruct H].
  destruct H as [H|[]]. apply Z.leb_le in E. exists start, b.
  split; [reflexivity|]. split; [exact E2|]. split; [exact E|]. symmetry. exact H.
Qed.

Lemma node_rows_intro p k st n start b : r_acc st n = Some start -> js_enter start = Some b ->
  k_arr k - (c_dep b - minw_eff p b) <= q_maxtt p ->
  In (n, k_arr k, k_arr k - (c_dep b - minw_eff p b)) (node_rows p k st n).
Proof.
  intros H1 H2 H3. unfold node_rows. rewrite H1, H2. apply Z.leb_le in H3. rewrite H3. left. reflexivity.
Qed.

Lemma nodup_nat_NoDup : forall l, nodup_nat l = true -> NoDup l.
Proof.
  induction l as [|x l IH]; intros H; [constructor|].
  cbn [nodup_nat] in H. apply andb_prop in H. destruct H as [H1 H2]. apply negb_true_iff in H1.
  constructor; [|apply IH; exact H2].
  intros Hin. apply memb_In in Hin. congruence.
Qed.

Lemma node_rows_NoDup p k st : forall nodes, NoDup nodes ->
  NoDup (map (fun x : nat * Z * Z => fst (fst x)) (flat_map (node_rows p k st) nodes)).
Proof.
  induction nodes as [|n nodes IH]; intros Hnd; [constructor|].
  inversion Hnd as [|n' l' Hn Hl]; subst. cbn [flat_map]. rewrite map_app.
  assert (Hrest : ~ In n (map (fun x : nat * Z * Z => fst (fst x)) (flat_map (node_rows p k st) nodes))).
  { intros Hin. apply in_map_iff in Hin. destruct Hin as (x & Ex & Hx).
    apply in_flat_map in Hx. destruct Hx as (n0 & Hn0 & Hx).
    destruct (node_rows_in p k st n0 x Hx) as (start0 & b0 & _ & _ & _ & E). subst x. cbn [fst] in Ex. subst n0.
    contradiction. }
  unfold node_rows at 1.
  destruct (r_acc st n) as [start|]; [|apply IH; exact Hl].
  destruct (js_enter start) as [b|]; [|apply IH; exact Hl].
  destruct (k_arr k - (c_dep b - minw_eff p b) <=? q_maxtt p); [|apply IH; exact Hl].
  cbn [map app fst]. constructor; [exact Hrest|apply IH; exact Hl].
Qed.

(* ---------------------------------------------------------------------------------------------- *)
(* 5. C09                                                                                           *)

Lemma wf_nodup_nodes d : wf_data_b d = true -> nodup_nat (d_nodes d) = true.
Proof.
  unfold wf_data_b. intros H.
  repeat (apply andb_prop in H; destruct H as [H _]). exact H.
Qed.

Theorem C09_decl_proved : C09_decl_statement.
Proof.
  intros d s p rows Hwf _ Htab Hp _ Hpos _ Hf.
  unfold C09_decl, access_answer, calc_allnodes. rewrite Hf.
  destruct (access_reason true (nonempty rows)) as [r0|] eqn:Ea.
  { intros n t (re & rides & m & t' & Hre & _). destruct rows as [|x rows']; [destruct Hre|].
    unfold access_reason, nonempty in Ea. cbn [negb andb] in Ea. discriminate Ea. }
  cbv zeta.
  set (k0 := mk_calc d p (conn_set d s) [] rows false true).
  set (k := with_rev k0 (k_arr k0) (-1) (k_taur k0) (set_usable (k_ov k0))).
  pose proof (calc_allnodes_rev_pre d s p rows Htab) as Hpre. cbv zeta in Hpre. fold k0 in Hpre. fold k in Hpre.
  assert (Ek : k_arr k = q_time p) by (unfold k, k0, with_rev, mk_calc; cbn [k_arr]; rewrite Hf; reflexivity).
  pose proof (wf_params_time p Hp) as Htime.
  assert (Eg : (k_arr k >? -1) = true) by (apply Z.gtb_lt; lia).
  rewrite Eg.
  destruct (rev_scan_total d p k true) as (st & Hscan).
  { rewrite (rp_set _ _ _ _ _ _ Hpre). unfold arr_sorted_desc. apply conn_set_rev_sorted. }
  { rewrite (rp_set _ _ _ _ _ _ Hpre). apply (proj2 (conn_set_indexes d s)). }
  rewrite Hscan, bind_Ok_eq.
  destruct (r_count st =? 0) eqn:Hcnt.
  { apply Z.eqb_eq in Hcnt. intros n t Hb Hspan.
    apply (allnodes_none d s p rows st Hwf Hp Htab Hpos Hf Hscan Hcnt n t Hb Hspan). }
  destruct (rev_scan_allnodes_simc d p k st Hscan) as (st' & Hscan' & ((_ & Esteps & _ & Eacc & _) & _)).
  destruct (allnodes_loop_spec d p k st (d_nodes d)) as (l & El & Em).
  { intros n start _ Hstart. rewrite Eacc in Hstart.
    destruct (allnodes_node_ok d s p [] rows (allnodes_calc k) st' n start Hwf Hp
                               (rev_pre_allnodes d s p [] rows k Hpre) Hscan' Hstart)
      as (b & legs & ln & er & js1 & used & _ & N2 & N3 & N4).
    exists legs, ln, er, js1, used. rewrite Esteps. split; [exact N2|]. split; [exact N3|exact N4]. }
  rewrite El, bind_Ok_eq.
  split; [reflexivity|].
  assert (Hkeys : map an_node l = map (fun x : nat * Z * Z => fst (fst x)) (flat_map (node_rows p k st) (d_nodes d))).
  { rewrite <- Em. rewrite map_map. reflexivity. }
  assert (Hkey_in : forall a, In a l ->
            exists start b, r_acc st (an_node a) = Some start /\ js_enter start = Some b /\
                            k_arr k - (c_dep b - minw_eff p b) <= q_maxtt p /\
                            an_time a = k_arr k /\ an_ttt a = k_arr k - (c_dep b - minw_eff p b)).
  { intros a Ha.
    assert (Hin : In (an_key a) (flat_map (node_rows p k st) (d_nodes d))) by (rewrite <- Em; apply in_map; exact Ha).
    apply in_flat_map in Hin. destruct Hin as (n0 & _ & Hx).
    destruct (node_rows_in p k st n0 (an_key a) Hx) as (start & b & A1 & A2 & A3 & A4).
    pose proof (f_equal (fun x : nat * Z * Z => fst (fst x)) A4) as B1.
    pose proof (f_equal (fun x : nat * Z * Z => snd (fst x)) A4) as B2.
    pose proof (f_equal (fun x : nat * Z * Z => snd x) A4) as B3.
    unfold an_key in B1, B2, B3. cbn [fst snd] in B1, B2, B3.
    exists start, b. rewrite B1. repeat split; assumption. }
  split; [|split].
  - rewrite Hkeys. apply node_rows_NoDup. apply nodup_nat_NoDup. apply wf_nodup_nodes. exact Hwf.
  - intros a Ha. destruct (Hkey_in a Ha) as (_ & _ & _ & _ & _ & T & _). rewrite T. exact Ek.
  - intros n t. split.
    + intros Hin. apply in_map_iff in Hin. destruct Hin as (a & Ea2 & Ha).
      destruct (Hkey_in a Ha) as (start & b & A1 & A2 & A3 & A4 & A5).
      pose proof (f_equal fst Ea2) as B1. pose proof (f_equal snd Ea2) as B2. cbn [fst snd] in B1, B2.
      rewrite B1 in A1.
      assert (Et : t = c_dep b - minw_eff p b) by lia.
      destruct (allnodes_latest d s p rows st n start b Hwf Hp Htab Hpos Hf Hscan A1 A2) as [S1 S2].
      rewrite Ek in A3. split; [split|].
      * rewrite Et. exact S1.
      * intros t1 Ht1. destruct (Z_le_gt_dec (q_time p - t1) (q_maxtt p)) as [Hw|Hw].
        -- rewrite Et. apply (S2 t1 Ht1 Hw).
        -- lia.
      * lia.
    + intros [[Hb Hmax] Hspan].
      destruct (allnodes_complete d s p rows st n t Hwf Hp Htab Hpos Hf Hscan Hb Hspan)
        as (_ & j & b & J1 & J2 & J3 & J4).
      destruct (allnodes_sound d s p rows st n j b Hwf Hp Htab Hf Hscan J1 J2) as [Hn Hs].
      pose proof (Hmax _ Hs) as Hle.
      assert (Et : t = c_dep b - minw_eff p b) by lia.
      assert (Hnode : In n (d_nodes d)) by (rewrite <- Hn; apply (conn_from_node d b Hwf J3)).
      assert (Hw : k_arr k - (c_dep b - minw_eff p b) <= q_maxtt p) by (rewrite Ek; lia).
      pose proof (node_rows_intro p k st n j b J1 J2 Hw) as Hrow.
      assert (Hin : In (n, k_arr k, k_arr k - (c_dep b - minw_eff p b)) (map an_key l)).
      { rewrite Em. apply in_flat_map. exists n. split; [exact Hnode|exact Hrow]. }
      apply in_map_iff in Hin. destruct Hin as (a & Ka & Ha).
      apply in_map_iff. exists a. split; [|exact Ha].
      pose proof (f_equal (fun x : nat * Z * Z => fst (fst x)) Ka) as B1.
      pose proof (f_equal (fun x : nat * Z * Z => snd (fst x)) Ka) as B2.
      pose proof (f_equal (fun x : nat * Z * Z => snd x) Ka) as B3.
      unfold an_key in B1, B2, B3. cbn [fst snd] in B1, B2, B3.
      rewrite B1. f_equal. lia.
Qed.

Print Assumptions C09_decl_proved.

(* ---------------------------------------------------------------------------------------------- *)
(* non-vacuity: the domains of the two statements are inhabited and the router answers               *)
From TrV Require Import Examples.
Example revopt_compose_nonvacuous :
  opt_domain ex_data scen_all (ex_params false 37000) ex_acc ex_egr /\
  pos_hops_b ex_data = true /\ uniform_wait_b ex_data = true /\
  match route_answer ex_data scen_all (ex_params false 37000) ex_acc ex_egr with
  | Ok (r, _) => rt_dep r = 35840 | _ => False end /\
  wf_tables_b ex_data (ex_params false 37000) [] ex_egr = true /\
  match access_answer ex_data scen_all (ex_params false 37000) ex_egr with
  | Ok (l, total) => map (fun a => (an_node a, an_time a - an_ttt a)) l = [(1%nat, 35940); (2%nat, 36540)] /\ total = 4
  | _ => False end.
Proof. unfold opt_domain. vm_compute. repeat split; reflexivity. Qed.

(* regression (the defect behind the r_tent correction, departure direction): with mixed minimum waiting times
   the reverse pass after the forward pass used to stop before the first leg of the only journey and
   calculateSingle answered NO_ROUTING_FOUND although the forward pass had found the arrival.
     stops 1 (origin, 500 s walk), 2 (origin, 0 s), 3 (destination), 4; departure at 880, minimum waiting 180 s
     trip 2 (transferable line, 0 s): 2 -> 4, dep 900, arr 950
     trip 1 (ordinary line)         : 4 -> 1, dep 1130, arr 1140;  1 -> 3, dep 1480, arr 1500
   The boarding of trip 1 at stop 1 armed the break with 1480 (its own candidate 1480 - 180 - 500 = 800 lies
   before the requested time), and trip 2's connection arrives at 950 < 1480 - 500. *)
Definition mx_data : data :=
  {| d_nodes := [1; 2; 3; 4]%nat;
     d_fp := [(1%nat, [row 1 0 0]); (2%nat, [row 2 0 0]); (3%nat, [row 3 0 0]); (4%nat, [row 4 0 0])];
     d_rfp := [(1%nat, [row 1 0 0]); (2%nat, [row 2 0 0]); (3%nat, [row 3 0 0]); (4%nat, [row 4 0 0])];
     d_lines := [{| l_id := 1; l_agency := 1; l_mode := 1 |}; {| l_id := 2; l_agency := 1; l_mode := 0 |}];
     d_paths := [{| p_id := 1; p_line := 1; p_nodes := [4; 1; 3]%nat; p_dists := [500; 500] |};
                 {| p_id := 2; p_line := 2; p_nodes := [2; 4]%nat; p_dists := [900] |}];
     d_trips := [{| t_id := 1; t_path := 1; t_service := 1; t_times := [st 1130 1130; st 1140 1480; st 1500 1500] |};
                 {| t_id := 2; t_path := 2; t_service := 1; t_times := [st 900 900; st 950 950] |}];
     d_scenarios := [scen_all] |}.
Definition mx_params : params :=
  {| q_scenario := 1; q_time := 880; q_minw := 180; q_maxtt := 10000; q_maxacc := 1200; q_maxegr := 1200;
     q_maxtr := 1200; q_maxfw := -1; q_fwd := true; q_except_lines := [] |}.
Definition mx_acc : list fprow := [row 1 500 500; row 2 0 0].
Definition mx_egr : list fprow := [row 3 0 0].

Example C03_mixed_wait_regression :
  opt_domain mx_data scen_all mx_params mx_acc mx_egr /\ pos_hops_b mx_data = true /\
  uniform_wait_b mx_data = false /\
  match route_answer mx_data scen_all mx_params mx_acc mx_egr with
  | Ok (r, _) => rt_dep r = 900 /\ rt_arr r = 1500
  | _ => False
  end.
Proof. unfold opt_domain. vm_compute. repeat split; reflexivity. Qed.

(* OPEN: nothing of this file's scope is open: C03_decl_statement, C04_decl_statement, C05_decl_statement and
   C09_decl_statement are proved in full; C04_decl_strong / C05_decl_strong are the same without uniform_wait_b.
   Remark: C09_decl_proved does not use its hypothesis uniform_wait_b (nor the scenario lookup and the empty
   exceptLines): the accessibility scan has no access-based break. *)
