(* FlowTie.v — the model's top level (Calc.calc_single, Calc.calc_allnodes) computes what the interpreter of Flow.v computes
   on the statement trees tools/gen_loops.py reads from calculateSingle / calculateSingleReverse / calculateAllNodes
   (calculator.cpp) AS THEY ARE NOW, with the exceptions of the callees as the sources write them now (gen/Flow.v).

   `calculate_single_tie`, `calculate_allnodes_tie`: plain equalities, for any values of the locals at the start.
   reset() enters as what Proofs/ResetTie.v shows it to be (`reset_single`, `reset_allnodes`). *)
From Coq Require Import List ZArith Bool Lia ZifyBool.
From TrV Require Import Scan Journey Calc.
Require Import TrV.Flow.
Require TrV.gen.Flow.
Import ListNotations.
Local Open Scope Z_scope.
Local Open Scope bool_scope.

Module GF := TrV.gen.Flow.

Section CrunEq.
  Variables (e : cenv) (R : Type) (kont : cmach -> outcome R) (m : cmach).
  Lemma crun_CNewResult k : crun e (CNewResult k) R kont m = crun e k R kont (cs_result_all None (cs_result None m)). Proof. reflexivity. Qed.
  Lemma crun_CSetZ x f k : crun e (CSetZ x f k) R kont m = crun e k R kont (set_cvar x (f e m) m). Proof. reflexivity. Qed.
  Lemma crun_CSetNode f k : crun e (CSetNode f k) R kont m = crun e k R kont (cs_best_node (f e m) m). Proof. reflexivity. Qed.
  Lemma crun_CMarkUsable k : crun e (CMarkUsable k) R kont m = crun e k R kont (cs_ov (set_usable (c_ov m)) m). Proof. reflexivity. Qed.
  Lemma crun_CIf g th el k : crun e (CIf g th el k) R kont m =
    if g e m then crun e th R (crun e k R kont) m else crun e el R (crun e k R kont) m. Proof. reflexivity. Qed.
  Lemma crun_CSeq a k : crun e (CSeq a k) R kont m = crun e a R (crun e k R kont) m. Proof. reflexivity. Qed.
  Lemma crun_CDone : crun e CDone R kont m = kont m. Proof. reflexivity. Qed.
  Lemma crun_CAssertFalse k : crun e (CAssertFalse k) R kont m = Crash. Proof. reflexivity. Qed.
End CrunEq.

Ltac cstep :=
  repeat first [rewrite crun_CNewResult | rewrite crun_CSetZ | rewrite crun_CSetNode | rewrite crun_CMarkUsable
               | rewrite crun_CSeq | rewrite crun_CDone].
Ltac ccbn :=
  cbn [set_cvar cs_dep cs_arr cs_taur cs_ov cs_k0 cs_best_arr cs_best_dep cs_best_node cs_res cs_fs cs_st cs_row cs_result
       cs_result_all c_dep c_arr c_taur c_ov c_k0 c_best_arr c_best_dep c_best_node c_res c_fs c_st c_row c_result c_result_all
       ce_d ce_p ce_reasons ce_reset ce_egrfp x_res_time x_res_node is_some].

(* the best arrival of the forward pass is a time *)
Lemma best_egress_lt_max : forall p k fs t n, best_egress p k fs = Some (t, n) -> t < MAX_INT.
Proof.
  intros p k fs t n. unfold best_egress.
  set (P := fun o : option (Z * nat) => match o with Some (t0, _) => t0 < MAX_INT | None => True end).
  match goal with
  | |- fold_left ?f _ _ = _ -> _ => assert (G : forall rows best, P best -> P (fold_left f rows best))
  end.
  { induction rows as [|r rows IH]; intros best HB; cbn [fold_left]; [exact HB|].
    apply IH. cbv beta.
    destruct (f_egr fs (fp_node r)) as [j|]; [|exact HB].
    destruct (js_exit j) as [ex|]; [|exact HB].
    destruct (row_of (fp_node r) (k_egrfp k)) as [er|]; [|exact HB].
    cbv zeta.
    match goal with |- P (if ?c then _ else _) => destruct c eqn:Ec end; [|exact HB].
    unfold P. lia. }
  intros H. specialize (G (k_egrfp k) None I). rewrite H in G. exact G.
Qed.

(* the loop over the egress footpaths re-seeds the reverse labels as the model does *)
Lemma egress_reseed (arr0 : Z) : forall rows m, c_arr m = arr0 ->
  let m' := fold_left (fun m1 r => cs_taur (upd (c_taur m1) (fp_node r) (c_arr m1 - fp_time r)) (cs_row r m1)) rows m in
  c_taur m' = fold_left (fun t r => upd t (fp_node r) (arr0 - fp_time r)) rows (c_taur m) /\
  c_dep m' = c_dep m /\ c_arr m' = c_arr m /\ c_ov m' = c_ov m /\ c_k0 m' = c_k0 m /\ c_best_arr m' = c_best_arr m /\
  c_best_dep m' = c_best_dep m /\ c_best_node m' = c_best_node m /\ c_res m' = c_res m /\ c_fs m' = c_fs m /\
  c_st m' = c_st m /\ c_result m' = c_result m /\ c_result_all m' = c_result_all m.
Proof.
  induction rows as [|r rows IH]; intros m Ha; cbn [fold_left].
  - repeat split.
  - cbv zeta in IH.
    destruct (IH (cs_taur (upd (c_taur m) (fp_node r) (c_arr m - fp_time r)) (cs_row r m)))
      as (H1 & H2 & H3 & H4 & H5 & H6 & H7 & H8 & H9 & H10 & H11 & H12 & H13).
    { destruct m; exact Ha. }
    cbv zeta. rewrite H1, H2, H3, H4, H5, H6, H7, H8, H9, H10, H11, H12, H13.
    destruct m as [dp ar ta ov k0 ba bd bn rs fs st rw re ra]. cbn [c_arr] in Ha. subst ar. repeat split.
Qed.

Section Calls.
  Variables (e : cenv) (R : Type) (kont : cmach -> outcome R) (m : cmach).
  Lemma crun_CReverse k : crun e (CReverse k) R kont m =
    match rev_scan (ce_d e) (ce_p e) (cur_calc m) false with
    | Ok st => if r_count st =? 0 then NoRouting (fr_rev_empty (ce_reasons e))
               else crun e k R kont (cs_res (best_access (ce_p e) (cur_calc m) st) (cs_st st m))
    | o => cpass o
    end. Proof. reflexivity. Qed.
  Lemma crun_CForward k : crun e (CForward k) R kont m =
    match fwd_scan (ce_d e) (ce_p e) (cur_calc m) false with
    | Ok fs => if f_count fs =? 0 then NoRouting (fr_fwd_empty (ce_reasons e))
               else crun e k R kont (cs_res (best_egress (ce_p e) (cur_calc m) fs) (cs_ov (f_ov fs) (cs_fs fs m)))
    | o => cpass o
    end. Proof. reflexivity. Qed.
  Lemma crun_CReverseJourney k : crun e (CReverseJourney k) R kont m =
    match c_best_node m with
    | None => NoRouting (fr_rev_journey (ce_reasons e))
    | Some n =>
        match rev_journey (ce_d e) (ce_p e) (cur_calc m) (c_st m) (Some (c_best_dep m, n)) with
        | Ok r => crun e k R kont (cs_result (Some r) m)
        | o => cpass o
        end
    end. Proof. reflexivity. Qed.
  Lemma crun_CForwardJourney k : crun e (CForwardJourney k) R kont m =
    match c_best_node m with None => NoRouting (fr_fwd_journey (ce_reasons e)) | Some _ => Crash end. Proof. reflexivity. Qed.
  Lemma crun_CForEgress key f k : crun e (CForEgress key f k) R kont m =
    crun e k R kont
      (fold_left (fun m1 r => cs_taur (upd (c_taur m1) (key e (cs_row r m1)) (f e (cs_row r m1))) (cs_row r m1)) (ce_egrfp e) m).
  Proof. reflexivity. Qed.
  Lemma crun_CReset k : crun e (CReset k) R kont m =
    match ce_reset e with
    | Ok k0 => crun e k R kont (cs_ov (k_ov k0) (cs_taur (k_taur k0) (cs_arr (k_arr k0) (cs_dep (k_dep k0) (cs_k0 k0 m)))))
    | o => cpass o
    end. Proof. reflexivity. Qed.
  Lemma crun_CForwardAll k : crun e (CForwardAll k) R kont m =
    match fwd_scan (ce_d e) (ce_p e) (cur_calc m) true with
    | Ok fs => if f_count fs =? 0 then NoRouting (fr_fwdall_empty (ce_reasons e)) else crun e k R kont (cs_ov (f_ov fs) (cs_fs fs m))
    | o => cpass o
    end. Proof. reflexivity. Qed.
  Lemma crun_CReverseAll k : crun e (CReverseAll k) R kont m =
    match rev_scan (ce_d e) (ce_p e) (cur_calc m) true with
    | Ok st => if r_count st =? 0 then NoRouting (fr_revall_empty (ce_reasons e)) else crun e k R kont (cs_st st m)
    | o => cpass o
    end. Proof. reflexivity. Qed.
  Lemma crun_CForwardJourneyAll k : crun e (CForwardJourneyAll k) R kont m =
    match fwd_allnodes_loop (ce_d e) (ce_p e) (cur_calc m) (c_fs m) (d_nodes (ce_d e)) with
    | Ok l => crun e k R kont (cs_result_all (Some (l, Z.of_nat (length (d_nodes (ce_d e))))) m)
    | o => cpass o
    end. Proof. reflexivity. Qed.
  Lemma crun_CReverseJourneyAll k : crun e (CReverseJourneyAll k) R kont m =
    match rev_allnodes_loop (ce_d e) (ce_p e) (cur_calc m) (c_st m) (d_nodes (ce_d e)) with
    | Ok l => crun e k R kont (cs_result_all (Some (l, Z.of_nat (length (d_nodes (ce_d e))))) m)
    | o => cpass o
    end. Proof. reflexivity. Qed.
End Calls.

(* calculateSingleReverse is Calc.calc_reverse on the Calculator as it stands *)
Lemma reverse_part e R (kont : cmach -> outcome R) m :
  ce_reasons e = GF.gen_flow_reasons ->
  (forall m1 m2, c_result m1 = c_result m2 -> kont m1 = kont m2) ->
  crun e GF.gen_calculate_single_reverse R kont m =
  match calc_reverse (ce_d e) (ce_p e) (cur_calc m) with
  | Ok r => kont (cs_result (Some r) m)
  | o => cpass o
  end.
Proof.
  intros Hr Hk. unfold GF.gen_calculate_single_reverse, calc_reverse. cstep. rewrite crun_CReverse, Hr.
  destruct m as [dp ar ta ov k0 ba bd bn rs fs st rw re ra]. unfold cur_calc. ccbn.
  destruct (rev_scan (ce_d e) (ce_p e) (with_rev k0 ar dp ta ov) false) as [st'| | | | | | | |]; cbn [bind cpass]; try reflexivity.
  cbn [fr_rev_empty GF.gen_flow_reasons].
  destruct (r_count st' =? 0); [reflexivity|].
  rewrite crun_CIf. ccbn.
  destruct (best_access (ce_p e) (with_rev k0 ar dp ta ov) st') as [[t n]|]; ccbn; cstep; rewrite crun_CReverseJourney, ?Hr; ccbn.
  - unfold cur_calc. ccbn.
    destruct (rev_journey (ce_d e) (ce_p e) (with_rev k0 ar dp ta ov) st' (Some (t, n))) as [r| | | | | | | |]; cbn [cpass]; try reflexivity.
    cstep. apply Hk. reflexivity.
  - reflexivity.
Qed.

(* reset() for a route request and for an accessibility request, as Proofs/ResetTie.v shows it (reasons of
   Calc.access_reason, otherwise the Calculator of Scan.mk_calc) *)
Definition reset_single (d : data) (cs : connset) (p : params) (acc egr : list fprow) (fresh : bool) : outcome calc :=
  match access_reason (negb fresh || nonempty acc) (negb fresh || nonempty egr) with
  | Some r => NoRouting r
  | None => Ok (mk_calc d p cs acc egr true true)
  end.
Definition reset_allnodes (d : data) (cs : connset) (p : params) (rows : list fprow) : outcome calc :=
  if q_fwd p then
    match access_reason (nonempty rows) true with
    | Some r => NoRouting r
    | None => Ok (mk_calc d p cs rows [] true false)
    end
  else
    match access_reason true (nonempty rows) with
    | Some r => NoRouting r
    | None => Ok (mk_calc d p cs [] rows false true)
    end.

Lemma with_rev_id k : with_rev k (k_arr k) (k_dep k) (k_taur k) (k_ov k) = k.
Proof. destruct k. reflexivity. Qed.

(* calculateSingle as it is written now computes Calc.calc_single *)
Theorem calculate_single_tie : forall d cs p acc egr fresh m0,
  run_single GF.gen_calculate_single
    {| ce_d := d; ce_p := p; ce_reasons := GF.gen_flow_reasons; ce_reset := reset_single d cs p acc egr fresh; ce_egrfp := egr |} m0
  = calc_single d cs p acc egr fresh.
Proof.
  intros d cs p acc egr fresh m0. unfold run_single, calc_single, reset_single, GF.gen_calculate_single.
  set (KK := fun m' : cmach => match c_result m' with Some r => Ok r | None => Exn X_BAD_OPTIONAL end).
  assert (HK : forall m1 m2, c_result m1 = c_result m2 -> KK m1 = KK m2) by (intros m1 m2 H; unfold KK; rewrite H; reflexivity).
  rewrite crun_CReset. ccbn.
  destruct (access_reason (negb fresh || nonempty acc) (negb fresh || nonempty egr)) as [r|]; [reflexivity|].
  cbv zeta. set (k := mk_calc d p cs acc egr true true).
  assert (Hegr : k_egrfp k = egr) by reflexivity.
  destruct m0 as [dp ar ta ov k0 ba bd bn rs fs st rw re ra]. cstep. rewrite crun_CIf. ccbn.
  destruct ((k_dep k >? -1) && q_fwd p) eqn:Hc.
  - cstep. rewrite crun_CForward. unfold cur_calc at 1. ccbn. rewrite with_rev_id.
    destruct (fwd_scan d p k false) as [fs'| | | | | | | |]; cbn [bind cpass]; try reflexivity.
    cbn [fr_fwd_empty GF.gen_flow_reasons].
    destruct (f_count fs' =? 0); [reflexivity|].
    unfold cur_calc at 1. ccbn. rewrite with_rev_id.
    rewrite crun_CIf. ccbn.
    destruct (best_egress p k fs') as [[best n]|] eqn:Hb; ccbn; cstep.
    + rewrite crun_CIf. ccbn.
      replace (best <? MAX_INT) with true by (pose proof (best_egress_lt_max p k fs' best n Hb); lia).
      cstep. rewrite crun_CForEgress. ccbn.
      match goal with |- context [fold_left ?f egr ?m1] =>
        destruct (egress_reseed best egr m1 eq_refl) as (H1 & H2 & H3 & H4 & H5 & _);
        remember (fold_left f egr m1) as M eqn:EM; clear EM end.
      cbn [c_dep c_arr c_taur c_ov c_k0 cs_dep cs_arr cs_taur cs_ov cs_k0 cs_best_arr cs_best_dep cs_best_node cs_res cs_fs cs_st
           cs_row cs_result cs_result_all] in H1, H2, H3, H4, H5.
      cstep. rewrite reverse_part by (try reflexivity; exact HK).
      ccbn. unfold cur_calc. rewrite H1, H2, H3, H4, H5. rewrite Hegr.
      destruct (calc_reverse d p (with_rev k best (k_dep k) (fold_left (fun t r => upd t (fp_node r) (best - fp_time r)) egr (k_taur k)) (f_ov fs')))
        as [r| | | | | | | |]; cbn [cpass]; reflexivity.
    + rewrite crun_CIf. ccbn. replace (MAX_INT <? MAX_INT) with false by lia.
      rewrite crun_CForwardJourney. reflexivity.
  - rewrite crun_CIf. ccbn.
    destruct (k_arr k >? -1) eqn:Ha.
    + cstep. rewrite reverse_part by (try reflexivity; exact HK). unfold cur_calc. ccbn.
      destruct (calc_reverse d p (with_rev k (k_arr k) (-1) (k_taur k) (set_usable (k_ov k)))) as [r| | | | | | | |]; cbn [cpass];
        try reflexivity.
    + cstep. reflexivity.
Qed.

(* the forward all-nodes builder reads the departure time of the Calculator only *)
Lemma fwd_allnodes_loop_dep d p k1 k2 fs : k_dep k1 = k_dep k2 ->
  forall nodes, fwd_allnodes_loop d p k1 fs nodes = fwd_allnodes_loop d p k2 fs nodes.
Proof.
  intros H. induction nodes as [|n r IH]; cbn [fwd_allnodes_loop]; [reflexivity|].
  rewrite IH, H. reflexivity.
Qed.

(* calculateAllNodes as it is written now computes Calc.calc_allnodes *)
Theorem calculate_allnodes_tie : forall d cs p rows m0,
  run_allnodes GF.gen_calculate_allnodes
    {| ce_d := d; ce_p := p; ce_reasons := GF.gen_flow_reasons; ce_reset := reset_allnodes d cs p rows; ce_egrfp := [] |} m0
  = calc_allnodes d cs p rows.
Proof.
  intros d cs p rows m0. unfold run_allnodes, calc_allnodes, reset_allnodes, GF.gen_calculate_allnodes.
  rewrite crun_CReset. ccbn.
  destruct m0 as [dp ar ta ov k0 ba bd bn rs fs st rw re ra].
  destruct (q_fwd p) eqn:Hf.
  - destruct (access_reason (nonempty rows) true) as [r|]; [reflexivity|].
    cbv zeta. set (k := mk_calc d p cs rows [] true false). cstep. rewrite crun_CIf. ccbn. rewrite Hf, andb_true_r.
    destruct (k_dep k >? -1) eqn:Hc.
    + rewrite crun_CForwardAll. unfold cur_calc at 1. ccbn. rewrite with_rev_id.
      destruct (fwd_scan d p k true) as [fs'| | | | | | | |]; cbn [bind cpass]; try reflexivity.
      cbn [fr_fwdall_empty GF.gen_flow_reasons]. destruct (f_count fs' =? 0); [reflexivity|].
      rewrite crun_CForwardJourneyAll. unfold cur_calc. ccbn.
      rewrite (fwd_allnodes_loop_dep d p (with_rev k (k_arr k) (k_dep k) (k_taur k) (f_ov fs')) k fs' eq_refl).
      destruct (fwd_allnodes_loop d p k fs' (d_nodes d)) as [l| | | | | | | |]; cbn [bind cpass]; try reflexivity.
    + rewrite crun_CIf. ccbn.
      assert (Ha : k_arr k = -1) by (unfold k, mk_calc; cbn [k_arr]; rewrite Hf; reflexivity).
      rewrite Ha. replace (-1 >? -1) with false by lia. cstep. reflexivity.
  - destruct (access_reason true (nonempty rows)) as [r|]; [reflexivity|].
    cbv zeta. set (k := mk_calc d p cs [] rows false true). cstep. rewrite crun_CIf. ccbn. rewrite Hf, andb_false_r.
    rewrite crun_CIf. ccbn. cbn [k_arr with_rev].
    destruct (k_arr k >? -1) eqn:Hc.
    + cstep. rewrite crun_CReverseAll. unfold cur_calc at 1. ccbn.
      destruct (rev_scan d p (with_rev k (k_arr k) (-1) (k_taur k) (set_usable (k_ov k))) true) as [st'| | | | | | | |];
        cbn [bind cpass]; try reflexivity.
    + cstep. reflexivity.
Qed.
