(* Loader2Proofs.v — theorems about Loader2.v (collection loaders, start-up, refresh).
   0. key-sorted lists (std::map)
   B. robustness for ARBITRARY file states (C17, decoded level)
   A. round trip for healthy files encoding a well-formed dataset (C16, decoded level)
   C. refresh (/updateCache) against restart (C15, loader half) *)
From TrV Require Import Spec Loader Examples Proofs.LoaderProofs Loader2.
From Coq Require Import List ZArith Bool Arith Lia.
Import ListNotations.
Local Open Scope Z_scope.

(* ---------------------------------------------------------------------------------------------- *)
(* 0. key-sorted lists                                                                             *)

Fixpoint ssorted (l : list nat) : Prop :=
  match l with [] => True | x :: r => Forall (fun y => (x < y)%nat) r /\ ssorted r end.

Fixpoint ssorted_b (l : list nat) : bool :=
  match l with [] => true | x :: r => forallb (fun y => Nat.ltb x y) r && ssorted_b r end.

Lemma ssorted_b_true : forall l, ssorted_b l = true -> ssorted l.
Proof.
  induction l as [|x r IHl]; intros Hb.
  - exact I.
  - cbn [ssorted_b] in Hb. apply andb_true_iff in Hb. destruct Hb as [Hall Hr].
    cbn [ssorted]. split; [|apply IHl; exact Hr].
    apply Forall_forall. intros y Hy. rewrite forallb_forall in Hall.
    apply Nat.ltb_lt. apply Hall. exact Hy.
Qed.

Lemma ssorted_nodup : forall l, ssorted l -> NoDup l.
Proof.
  induction l as [|x r IHl]; intros Hs.
  - constructor.
  - cbn [ssorted] in Hs. destruct Hs as [Hall Hr]. constructor; [|apply IHl; exact Hr].
    intros Hin. rewrite Forall_forall in Hall. specialize (Hall x Hin). lia.
Qed.

Section SortedMapFacts.
  Context {A : Type} (kf : A -> nat).

  Lemma ins_first_in : forall x l y, In y (ins_first kf x l) -> y = x \/ In y l.
  Proof.
    intros x. induction l as [|z r IHl]; intros y Hin.
    - cbn [ins_first] in Hin. destruct Hin as [Heq|Hnil]; [left; symmetry; exact Heq|destruct Hnil].
    - cbn [ins_first] in Hin.
      destruct (Nat.ltb (kf x) (kf z)) eqn:Hlt.
      + destruct Hin as [Heq|Hin]; [left; symmetry; exact Heq|right; exact Hin].
      + destruct (Nat.eqb (kf x) (kf z)) eqn:Heqk.
        * right. exact Hin.
        * destruct Hin as [Heq|Hin]; [right; left; exact Heq|].
          apply IHl in Hin. destruct Hin as [Hx|Hin]; [left; exact Hx|right; right; exact Hin].
  Qed.

  Lemma ins_first_keep : forall x l y, In y l -> In y (ins_first kf x l).
  Proof.
    intros x. induction l as [|z r IHl]; intros y Hin.
    - destruct Hin.
    - cbn [ins_first].
      destruct (Nat.ltb (kf x) (kf z)) eqn:Hlt; [right; exact Hin|].
      destruct (Nat.eqb (kf x) (kf z)) eqn:Heqk; [exact Hin|].
      destruct Hin as [Heq|Hin]; [left; exact Heq|right; apply IHl; exact Hin].
  Qed.

  (* the new entry is present unless an entry with its key was there *)
  Lemma ins_first_new : forall x l, (forall y, In y l -> kf y = kf x -> y = x) -> In x (ins_first kf x l).
  Proof.
    intros x. induction l as [|z r IHl]; intros Hinj.
    - left. reflexivity.
    - cbn [ins_first].
      destruct (Nat.ltb (kf x) (kf z)) eqn:Hlt; [left; reflexivity|].
      destruct (Nat.eqb (kf x) (kf z)) eqn:Heqk.
      + apply Nat.eqb_eq in Heqk. left. apply Hinj; [left; reflexivity|symmetry; exact Heqk].
      + right. apply IHl. intros y Hy Hk. apply Hinj; [right; exact Hy|exact Hk].
  Qed.

  Lemma ins_first_sorted : forall x l, ssorted (map kf l) -> ssorted (map kf (ins_first kf x l)).
  Proof.
    intros x. induction l as [|z r IHl]; intros Hs.
    - cbn. split; [constructor|exact I].
    - cbn [ins_first].
      cbn [map ssorted] in Hs. destruct Hs as [Hall Hr].
      destruct (Nat.ltb (kf x) (kf z)) eqn:Hlt.
      + apply Nat.ltb_lt in Hlt. cbn [map ssorted]. split.
        * constructor; [exact Hlt|]. apply Forall_forall. intros y Hy.
          rewrite Forall_forall in Hall. specialize (Hall y Hy). lia.
        * split; assumption.
      + destruct (Nat.eqb (kf x) (kf z)) eqn:Heqk.
        * cbn [map ssorted]. split; assumption.
        * apply Nat.ltb_ge in Hlt. apply Nat.eqb_neq in Heqk.
          cbn [map ssorted]. split; [|apply IHl; exact Hr].
          apply Forall_forall. intros k Hk. apply in_map_iff in Hk. destruct Hk as [y [Hky Hy]].
          apply ins_first_in in Hy. destruct Hy as [Hx|Hy].
          -- subst y. lia.
          -- rewrite Forall_forall in Hall. apply Hall. subst k. apply in_map. exact Hy.
  Qed.

  Lemma ins_first_append : forall x l, Forall (fun y => (kf y < kf x)%nat) l -> ins_first kf x l = l ++ [x].
  Proof.
    intros x. induction l as [|z r IHl]; intros Hall.
    - reflexivity.
    - inversion Hall as [|z' r' Hz Hr]; subst z' r'.
      cbn [ins_first].
      assert (Hlt : Nat.ltb (kf x) (kf z) = false) by (apply Nat.ltb_ge; lia).
      assert (Heqk : Nat.eqb (kf x) (kf z) = false) by (apply Nat.eqb_neq; lia).
      rewrite Hlt, Heqk. rewrite IHl by exact Hr. reflexivity.
  Qed.

  Lemma ins_last_in : forall x l y, In y (ins_last kf x l) -> y = x \/ In y l.
  Proof.
    intros x. induction l as [|z r IHl]; intros y Hin.
    - cbn [ins_last] in Hin. destruct Hin as [Heq|Hnil]; [left; symmetry; exact Heq|destruct Hnil].
    - cbn [ins_last] in Hin.
      destruct (Nat.ltb (kf x) (kf z)) eqn:Hlt.
      + destruct Hin as [Heq|Hin]; [left; symmetry; exact Heq|right; exact Hin].
      + destruct (Nat.eqb (kf x) (kf z)) eqn:Heqk.
        * destruct Hin as [Heq|Hin]; [left; symmetry; exact Heq|right; right; exact Hin].
        * destruct Hin as [Heq|Hin]; [right; left; exact Heq|].
          apply IHl in Hin. destruct Hin as [Hx|Hin]; [left; exact Hx|right; right; exact Hin].
  Qed.

  Lemma ins_last_sorted : forall x l, ssorted (map kf l) -> ssorted (map kf (ins_last kf x l)).
  Proof.
    intros x. induction l as [|z r IHl]; intros Hs.
    - cbn. split; [constructor|exact I].
    - cbn [ins_last].
      cbn [map ssorted] in Hs. destruct Hs as [Hall Hr].
      destruct (Nat.ltb (kf x) (kf z)) eqn:Hlt.
      + apply Nat.ltb_lt in Hlt. cbn [map ssorted]. split.
        * constructor; [exact Hlt|]. apply Forall_forall. intros y Hy.
          rewrite Forall_forall in Hall. specialize (Hall y Hy). lia.
        * split; assumption.
      + destruct (Nat.eqb (kf x) (kf z)) eqn:Heqk.
        * apply Nat.eqb_eq in Heqk. cbn [map ssorted]. rewrite Heqk. split; assumption.
        * apply Nat.ltb_ge in Hlt. apply Nat.eqb_neq in Heqk.
          cbn [map ssorted]. split; [|apply IHl; exact Hr].
          apply Forall_forall. intros k Hk. apply in_map_iff in Hk. destruct Hk as [y [Hky Hy]].
          apply ins_last_in in Hy. destruct Hy as [Hx|Hy].
          -- subst y. lia.
          -- rewrite Forall_forall in Hall. apply Hall. subst k. apply in_map. exact Hy.
  Qed.

  Lemma ins_last_append : forall x l, Forall (fun y => (kf y < kf x)%nat) l -> ins_last kf x l = l ++ [x].
  Proof.
    intros x. induction l as [|z r IHl]; intros Hall.
    - reflexivity.
    - inversion Hall as [|z' r' Hz Hr]; subst z' r'.
      cbn [ins_last].
      assert (Hlt : Nat.ltb (kf x) (kf z) = false) by (apply Nat.ltb_ge; lia).
      assert (Heqk : Nat.eqb (kf x) (kf z) = false) by (apply Nat.eqb_neq; lia).
      rewrite Hlt, Heqk. rewrite IHl by exact Hr. reflexivity.
  Qed.

  Lemma find_key_none : forall x l, Forall (fun y => (kf y < x)%nat) l -> find (fun y => Nat.eqb (kf y) x) l = None.
  Proof.
    intros x. induction l as [|z r IHl]; intros Hall.
    - reflexivity.
    - inversion Hall as [|z' r' Hz Hr]; subst z' r'. cbn [find].
      assert (Hne : Nat.eqb (kf z) x = false) by (apply Nat.eqb_neq; lia).
      rewrite Hne. apply IHl. exact Hr.
  Qed.

  (* two strictly key-sorted lists with the same elements are equal *)
  Lemma ssorted_ext : forall l1 l2, ssorted (map kf l1) -> ssorted (map kf l2) ->
    (forall y, In y l1 <-> In y l2) -> l1 = l2.
  Proof.
    induction l1 as [|a r1 IHl]; intros l2 Hs1 Hs2 Hext.
    - destruct l2 as [|b r2]; [reflexivity|]. exfalso. apply (proj2 (Hext b)). left. reflexivity.
    - destruct l2 as [|b r2]; [exfalso; apply (proj1 (Hext a)); left; reflexivity|].
      cbn [map ssorted] in Hs1, Hs2. destruct Hs1 as [Ha1 Hr1]. destruct Hs2 as [Hb2 Hr2].
      rewrite Forall_forall in Ha1, Hb2.
      assert (Hab : a = b).
      { destruct (proj1 (Hext a) (or_introl eq_refl)) as [Heq|Hin]; [symmetry; exact Heq|].
        destruct (proj2 (Hext b) (or_introl eq_refl)) as [Heq|Hin2]; [exact Heq|].
        pose proof (Hb2 (kf a) (in_map kf _ _ Hin)) as H1.
        pose proof (Ha1 (kf b) (in_map kf _ _ Hin2)) as H2. lia. }
      subst b. f_equal. apply IHl; [exact Hr1|exact Hr2|].
      intros y. split; intros Hy.
      + destruct (proj1 (Hext y) (or_intror Hy)) as [Heq|Hin]; [|exact Hin].
        subst y. pose proof (Ha1 (kf a) (in_map kf _ _ Hy)) as H1. lia.
      + destruct (proj2 (Hext y) (or_intror Hy)) as [Heq|Hin]; [|exact Hin].
        subst y. pose proof (Hb2 (kf a) (in_map kf _ _ Hy)) as H1. lia.
  Qed.

  Lemma fold_ins_first_sorted : forall l acc, ssorted (map kf acc) ->
    ssorted (map kf (fold_left (fun a x => ins_first kf x a) l acc)).
  Proof.
    induction l as [|x r IHl]; intros acc Hs.
    - exact Hs.
    - cbn [fold_left]. apply IHl. apply ins_first_sorted. exact Hs.
  Qed.

  Lemma fold_ins_first_in : forall l acc y, In y (fold_left (fun a x => ins_first kf x a) l acc) -> In y l \/ In y acc.
  Proof.
    induction l as [|x r IHl]; intros acc y Hin.
    - right. exact Hin.
    - cbn [fold_left] in Hin. apply IHl in Hin. destruct Hin as [Hin|Hin].
      + left. right. exact Hin.
      + apply ins_first_in in Hin. destruct Hin as [Heq|Hin]; [left; left; symmetry; exact Heq|right; exact Hin].
  Qed.

  Lemma fold_ins_first_keep : forall l acc y, In y acc -> In y (fold_left (fun a x => ins_first kf x a) l acc).
  Proof.
    induction l as [|x r IHl]; intros acc y Hin.
    - exact Hin.
    - cbn [fold_left]. apply IHl. apply ins_first_keep. exact Hin.
  Qed.

  (* keys injective on everything inserted: every inserted element is present at the end *)
  Lemma fold_ins_first_all : forall l acc y,
    (forall a b, (In a l \/ In a acc) -> (In b l \/ In b acc) -> kf a = kf b -> a = b) ->
    In y l -> In y (fold_left (fun a x => ins_first kf x a) l acc).
  Proof.
    induction l as [|x r IHl]; intros acc y Hinj Hin.
    - destruct Hin.
    - cbn [fold_left]. destruct Hin as [Heq|Hin].
      + subst y. apply fold_ins_first_keep. apply ins_first_new.
        intros z Hz Hk. apply Hinj; [right; exact Hz|left; left; reflexivity|exact Hk].
      + apply IHl; [|exact Hin].
        intros a b Ha Hb Hk. apply Hinj; [| |exact Hk].
        * destruct Ha as [Ha|Ha]; [left; right; exact Ha|].
          apply ins_first_in in Ha. destruct Ha as [Ha|Ha]; [subst a; left; left; reflexivity|right; exact Ha].
        * destruct Hb as [Hb|Hb]; [left; right; exact Hb|].
          apply ins_first_in in Hb. destruct Hb as [Hb|Hb]; [subst b; left; left; reflexivity|right; exact Hb].
  Qed.

  (* inserting a strictly ascending sequence after smaller keys just appends it *)
  Lemma fold_ins_first_ascending : forall l acc, ssorted (map kf (acc ++ l)) ->
    fold_left (fun a x => ins_first kf x a) l acc = acc ++ l.
  Proof.
    induction l as [|x r IHl]; intros acc Hs.
    - rewrite app_nil_r. reflexivity.
    - cbn [fold_left]. rewrite ins_first_append.
      + rewrite IHl; rewrite <- app_assoc; [reflexivity|exact Hs].
      + clear IHl. induction acc as [|a acc IHacc]; [constructor|].
        cbn [app map ssorted] in Hs. destruct Hs as [Hall Hr]. constructor.
        * rewrite Forall_forall in Hall. apply Hall. rewrite map_app. apply in_or_app. right. left. reflexivity.
        * apply IHacc. exact Hr.
  Qed.
End SortedMapFacts.

Lemma ssorted_app_lt : forall l x, ssorted (l ++ [x]) -> Forall (fun y => (y < x)%nat) l.
Proof.
  induction l as [|a l IHl]; intros x Hs; [constructor|].
  cbn [app ssorted] in Hs. destruct Hs as [Hall Hr]. constructor.
  - rewrite Forall_forall in Hall. apply Hall. apply in_or_app. right. left. reflexivity.
  - apply IHl. exact Hr.
Qed.

Lemma ssorted_app_l : forall l1 l2, ssorted (l1 ++ l2) -> ssorted l1.
Proof.
  induction l1 as [|a l1 IHl]; intros l2 Hs; [exact I|].
  cbn [app ssorted] in Hs. destruct Hs as [Hall Hr]. cbn [ssorted]. split.
  - apply Forall_forall. intros y Hy. rewrite Forall_forall in Hall. apply Hall. apply in_or_app. left. exact Hy.
  - exact (IHl l2 Hr).
Qed.

Lemma set_add_sorted : forall x l, ssorted l -> ssorted (set_add x l).
Proof.
  intros x l Hs. unfold set_add.
  pose proof (ins_first_sorted (fun n : nat => n) x l) as H. rewrite !map_id in H. apply H. exact Hs.
Qed.

Lemma set_add_in : forall x l y, In y (set_add x l) -> y = x \/ In y l.
Proof. intros x l y. unfold set_add. apply ins_first_in. Qed.

Lemma memb_true_in : forall x l, memb x l = true -> In x l.
Proof.
  intros x l Hm. unfold memb in Hm. apply existsb_exists in Hm. destruct Hm as [y [Hy Heq]].
  apply Nat.eqb_eq in Heq. subst y. exact Hy.
Qed.

(* ---------------------------------------------------------------------------------------------- *)
(* B. robustness: what holds of the loaded collections for ARBITRARY file states                   *)

Lemma ins_first_Forall : forall (A : Type) (kf : A -> nat) (P : A -> Prop) x l,
  Forall P l -> P x -> Forall P (ins_first kf x l).
Proof.
  intros A kf P x l Hl Hx. apply Forall_forall. intros y Hy.
  apply ins_first_in in Hy. destruct Hy as [Heq|Hy]; [subst y; exact Hx|].
  rewrite Forall_forall in Hl. apply Hl. exact Hy.
Qed.

Lemma ins_last_Forall : forall (A : Type) (kf : A -> nat) (P : A -> Prop) x l,
  Forall P l -> P x -> Forall P (ins_last kf x l).
Proof.
  intros A kf P x l Hl Hx. apply Forall_forall. intros y Hy.
  apply ins_last_in in Hy. destruct Hy as [Heq|Hy]; [subst y; exact Hx|].
  rewrite Forall_forall in Hl. apply Hl. exact Hy.
Qed.

Lemma fold_entries_inv : forall (S M : Type) (P : S -> Prop) (f : S -> M -> S * bool) l s,
  (forall s0 m, P s0 -> P (fst (f s0 m))) -> P s -> P (fst (fold_entries f l s)).
Proof.
  intros S M P f. induction l as [|m r IHl]; intros s Hstep Hs.
  - exact Hs.
  - cbn [fold_entries]. pose proof (Hstep s m Hs) as H1.
    destruct (f s m) as [s1 ok]. cbn [fst] in H1.
    destruct ok; [apply IHl; assumption|exact H1].
Qed.

Lemma load_coll_inv : forall (S M : Type) (P : S -> Prop) (f : S -> M -> S * bool) empty file,
  (forall s0 m, P s0 -> P (fst (f s0 m))) -> P empty -> P (fst (load_coll f empty file)).
Proof.
  intros S M P f empty file Hstep Hempty. unfold load_coll.
  destruct file as [| |pre|msg].
  - exact Hempty.
  - exact Hempty.
  - pose proof (fold_entries_inv S M P f pre empty Hstep Hempty) as H.
    destruct (fold_entries f pre empty) as [s ok]. exact H.
  - pose proof (fold_entries_inv S M P f msg empty Hstep Hempty) as H.
    destruct (fold_entries f msg empty) as [s ok]. exact H.
Qed.

(* the return code is one of the five classes by the type rc; which one, per file state: *)
Lemma load_coll_rc : forall (S M : Type) (f : S -> M -> S * bool) empty file,
  match file with
  | FMissing => load_coll f empty file = (empty, RC_ENOENT)
  | FUnreadable => load_coll f empty file = (empty, RC_EOTHER)
  | FGarbled _ => snd (load_coll f empty file) = RC_EBADMSG \/ snd (load_coll f empty file) = RC_EINVAL
  | FDecoded _ => snd (load_coll f empty file) = RC_OK \/ snd (load_coll f empty file) = RC_EINVAL
  end.
Proof.
  intros S M f empty file. destruct file as [| |pre|msg]; unfold load_coll.
  - reflexivity.
  - reflexivity.
  - destruct (fold_entries f pre empty) as [s ok]. destruct ok; [left|right]; reflexivity.
  - destruct (fold_entries f msg empty) as [s ok]. destruct ok; [left|right]; reflexivity.
Qed.

(* ---- id sets --------------------------------------------------------------------------------------- *)
Lemma load_agencies_sorted : forall f, ssorted (fst (load_agencies f)).
Proof.
  intros f. unfold load_agencies. apply load_coll_inv; [|exact I].
  intros s m Hs. unfold agency_step.
  destruct (am_id m) as [a|]; [|exact Hs].
  destruct (am_rest_ok m); [|exact Hs].
  cbn [fst]. apply set_add_sorted. exact Hs.
Qed.

Lemma load_services_sorted : forall f, ssorted (fst (load_services f)).
Proof.
  intros f. unfold load_services. apply load_coll_inv; [|exact I].
  intros s m Hs. unfold service_step.
  destruct (vm_id m) as [a|]; [|exact Hs].
  destruct (vm_rest_ok m); [|exact Hs].
  cbn [fst]. apply set_add_sorted. exact Hs.
Qed.

Lemma load_nodecoll_sorted : forall f, ssorted (fst (load_nodecoll f)).
Proof.
  intros f. unfold load_nodecoll. apply load_coll_inv; [|exact I].
  intros s m Hs. unfold nodecoll_step.
  destruct m as [n|]; [|exact Hs].
  cbn [fst]. apply set_add_sorted. exact Hs.
Qed.

(* ---- lines ----------------------------------------------------------------------------------------- *)
Definition line_ok (agencies : list nat) (l : line) : Prop :=
  memb (l_agency l) agencies = true /\ mode_known (l_mode l) = true.

Lemma load_lines_ok : forall agencies f,
  ssorted (map l_id (fst (load_lines agencies f))) /\ Forall (line_ok agencies) (fst (load_lines agencies f)).
Proof.
  intros agencies f. unfold load_lines.
  apply (load_coll_inv _ _ (fun s => ssorted (map l_id s) /\ Forall (line_ok agencies) s)).
  - intros s m [Hs Hall]. unfold line_step.
    destruct (lm_id m) as [l|]; [|split; assumption].
    destruct (lm_agency m) as [a|]; [|split; assumption].
    destruct (memb a agencies && mode_known (lm_mode m)) eqn:Hc; [|split; assumption].
    apply andb_true_iff in Hc. destruct Hc as [Ha Hm].
    cbn [fst]. split.
    + apply ins_first_sorted. exact Hs.
    + apply ins_first_Forall; [exact Hall|]. split; cbn [l_agency l_mode]; assumption.
  - split; [exact I|constructor].
Qed.

(* ---- paths ----------------------------------------------------------------------------------------- *)
Definition path_ok (lines nodes : list nat) (p : path) : Prop :=
  memb (p_line p) lines = true /\ Forall (fun n => memb n nodes = true) (p_nodes p) /\
  (length (p_dists p) <= length (p_nodes p))%nat.

Lemma refs_all_known_ok : forall known l v, refs_all_known known l = Some v -> Forall (fun n => memb n known = true) v.
Proof.
  intros known. induction l as [|o r IHl]; intros v Hv.
  - cbn [refs_all_known] in Hv. injection Hv as Hv. subst v. constructor.
  - cbn [refs_all_known] in Hv. destruct o as [n|]; [|discriminate Hv].
    destruct (memb n known) eqn:Hm; [|discriminate Hv].
    destruct (refs_all_known known r) as [t|] eqn:Hr; [|discriminate Hv].
    injection Hv as Hv. subst v. constructor; [exact Hm|apply IHl; reflexivity].
Qed.

Lemma seg_dists_length : forall n l v, seg_dists n l = Some v -> (length v <= n)%nat.
Proof.
  induction n as [|n IHn]; intros l v Hv.
  - cbn [seg_dists] in Hv. injection Hv as Hv. subst v. cbn [length]. lia.
  - cbn [seg_dists] in Hv. destruct l as [|sg r].
    + injection Hv as Hv. subst v. cbn [length]. lia.
    + destruct sg as [|z|].
      * apply IHn in Hv. lia.
      * destruct (seg_dists n r) as [t|] eqn:Hr; [|discriminate Hv].
        injection Hv as Hv. subst v. cbn [length]. specialize (IHn r t Hr). lia.
      * discriminate Hv.
Qed.

Lemma load_paths_ok : forall lines nodes f,
  ssorted (map p_id (fst (load_paths lines nodes f))) /\ Forall (path_ok lines nodes) (fst (load_paths lines nodes f)).
Proof.
  intros lines nodes f. unfold load_paths.
  apply (load_coll_inv _ _ (fun s => ssorted (map p_id s) /\ Forall (path_ok lines nodes) s)).
  - intros s m [Hs Hall]. unfold path_step.
    destruct (pm_id m) as [p|]; [|split; assumption].
    destruct (refs_all_known nodes (pm_nodes m)) as [ns|] eqn:Hns; [|split; assumption].
    destruct (pm_segs m) as [segs|]; [|split; assumption].
    destruct (pm_line m) as [l|]; [|split; assumption].
    destruct (seg_dists (length ns) segs) as [ds|] eqn:Hds; [|split; assumption].
    destruct (memb l lines) eqn:Hl; [|split; assumption].
    cbn [fst]. split.
    + apply ins_first_sorted. exact Hs.
    + apply ins_first_Forall; [exact Hall|]. unfold path_ok. cbn [p_line p_nodes p_dists].
      split; [exact Hl|]. split; [exact (refs_all_known_ok nodes _ ns Hns)|exact (seg_dists_length _ _ _ Hds)].
  - split; [exact I|constructor].
Qed.

(* ---- scenarios ------------------------------------------------------------------------------------- *)
Definition sub_of (known l : list nat) : Prop := Forall (fun n => memb n known = true) l.

Definition scenario_ok (e : scen_env) (c : scenario) : Prop :=
  sub_of (se_services e) (s_services c) /\
  sub_of (se_lines e) (s_onlyLines c) /\ sub_of (se_lines e) (s_exceptLines c) /\
  sub_of (se_agencies e) (s_onlyAgencies c) /\ sub_of (se_agencies e) (s_exceptAgencies c) /\
  sub_of (se_nodes e) (s_onlyNodes c) /\ sub_of (se_nodes e) (s_exceptNodes c) /\
  Forall (fun k => mode_known k = true) (s_onlyModes c) /\ Forall (fun k => mode_known k = true) (s_exceptModes c).

Lemma refs_filter_known_ok : forall known l v, refs_filter_known known l = Some v -> sub_of known v.
Proof.
  intros known. induction l as [|o r IHl]; intros v Hv.
  - cbn [refs_filter_known] in Hv. injection Hv as Hv. subst v. constructor.
  - cbn [refs_filter_known] in Hv. destruct o as [n|]; [|discriminate Hv].
    destruct (refs_filter_known known r) as [t|] eqn:Hr; [|discriminate Hv].
    injection Hv as Hv. subst v.
    destruct (memb n known) eqn:Hm.
    + constructor; [exact Hm|apply IHl; reflexivity].
    + apply IHl. reflexivity.
Qed.

Lemma filter_mode_known_ok : forall l, Forall (fun k => mode_known k = true) (filter mode_known l).
Proof.
  intros l. apply Forall_forall. intros k Hk. apply filter_In in Hk. exact (proj2 Hk).
Qed.

Lemma apply_fields_inv : forall (P : scenario -> Prop) fs c,
  Forall (fun o => forall g, o = Some g -> forall c0, P c0 -> P (g c0)) fs -> P c -> P (fst (apply_fields fs c)).
Proof.
  intros P. induction fs as [|o r IHfs]; intros c Hall Hc.
  - exact Hc.
  - inversion Hall as [|o' r' Ho Hr]; subst o' r'.
    cbn [apply_fields]. destruct o as [g|]; [|exact Hc].
    apply IHfs; [exact Hr|]. apply (Ho g eq_refl). exact Hc.
Qed.

Lemma scenario_fields_ok : forall e m,
  Forall (fun o => forall g, o = Some g -> forall c0, scenario_ok e c0 -> scenario_ok e (g c0)) (scenario_fields e m).
Proof.
  intros e m. unfold scenario_fields.
  repeat (apply Forall_cons || apply Forall_nil).
  - intros g Hg c0 Hc. destruct (cm_sim_ok m); [|discriminate Hg]. injection Hg as Hg. subst g. exact Hc.
  - intros g Hg c0 Hc. destruct (refs_filter_known (se_services e) (cm_services m)) as [v|] eqn:Hv; [|discriminate Hg].
    injection Hg as Hg. subst g. apply refs_filter_known_ok in Hv.
    unfold scenario_ok in *. cbn [set_s_services s_services s_onlyLines s_exceptLines s_onlyAgencies s_exceptAgencies s_onlyNodes s_exceptNodes s_onlyModes s_exceptModes]. tauto.
  - intros g Hg c0 Hc. destruct (refs_filter_known (se_lines e) (cm_onlyLines m)) as [v|] eqn:Hv; [|discriminate Hg].
    injection Hg as Hg. subst g. apply refs_filter_known_ok in Hv.
    unfold scenario_ok in *. cbn [set_s_onlyLines s_services s_onlyLines s_exceptLines s_onlyAgencies s_exceptAgencies s_onlyNodes s_exceptNodes s_onlyModes s_exceptModes]. tauto.
  - intros g Hg c0 Hc. destruct (refs_filter_known (se_agencies e) (cm_onlyAgencies m)) as [v|] eqn:Hv; [|discriminate Hg].
    injection Hg as Hg. subst g. apply refs_filter_known_ok in Hv.
    unfold scenario_ok in *. cbn [set_s_onlyAgencies s_services s_onlyLines s_exceptLines s_onlyAgencies s_exceptAgencies s_onlyNodes s_exceptNodes s_onlyModes s_exceptModes]. tauto.
  - intros g Hg c0 Hc. destruct (refs_filter_known (se_nodes e) (cm_onlyNodes m)) as [v|] eqn:Hv; [|discriminate Hg].
    injection Hg as Hg. subst g. apply refs_filter_known_ok in Hv.
    unfold scenario_ok in *. cbn [set_s_onlyNodes s_services s_onlyLines s_exceptLines s_onlyAgencies s_exceptAgencies s_onlyNodes s_exceptNodes s_onlyModes s_exceptModes]. tauto.
  - intros g Hg c0 Hc. injection Hg as Hg. subst g. pose proof (filter_mode_known_ok (cm_onlyModes m)) as Hv.
    unfold scenario_ok in *. cbn [set_s_onlyModes s_services s_onlyLines s_exceptLines s_onlyAgencies s_exceptAgencies s_onlyNodes s_exceptNodes s_onlyModes s_exceptModes]. tauto.
  - intros g Hg c0 Hc. destruct (refs_filter_known (se_lines e) (cm_exceptLines m)) as [v|] eqn:Hv; [|discriminate Hg].
    injection Hg as Hg. subst g. apply refs_filter_known_ok in Hv.
    unfold scenario_ok in *. cbn [set_s_exceptLines s_services s_onlyLines s_exceptLines s_onlyAgencies s_exceptAgencies s_onlyNodes s_exceptNodes s_onlyModes s_exceptModes]. tauto.
  - intros g Hg c0 Hc. destruct (refs_filter_known (se_agencies e) (cm_exceptAgencies m)) as [v|] eqn:Hv; [|discriminate Hg].
    injection Hg as Hg. subst g. apply refs_filter_known_ok in Hv.
    unfold scenario_ok in *. cbn [set_s_exceptAgencies s_services s_onlyLines s_exceptLines s_onlyAgencies s_exceptAgencies s_onlyNodes s_exceptNodes s_onlyModes s_exceptModes]. tauto.
  - intros g Hg c0 Hc. destruct (refs_filter_known (se_nodes e) (cm_exceptNodes m)) as [v|] eqn:Hv; [|discriminate Hg].
    injection Hg as Hg. subst g. apply refs_filter_known_ok in Hv.
    unfold scenario_ok in *. cbn [set_s_exceptNodes s_services s_onlyLines s_exceptLines s_onlyAgencies s_exceptAgencies s_onlyNodes s_exceptNodes s_onlyModes s_exceptModes]. tauto.
  - intros g Hg c0 Hc. injection Hg as Hg. subst g. pose proof (filter_mode_known_ok (cm_exceptModes m)) as Hv.
    unfold scenario_ok in *. cbn [set_s_exceptModes s_services s_onlyLines s_exceptLines s_onlyAgencies s_exceptAgencies s_onlyNodes s_exceptNodes s_onlyModes s_exceptModes]. tauto.
Qed.

Lemma scenario_blank_ok : forall e id, scenario_ok e (scenario_blank id).
Proof. intros e id. unfold scenario_ok, sub_of, scenario_blank. cbn. repeat split; constructor. Qed.

Lemma load_scenarios_ok : forall e f,
  ssorted (map s_id (fst (load_scenarios e f))) /\ Forall (scenario_ok e) (fst (load_scenarios e f)).
Proof.
  intros e f. unfold load_scenarios.
  apply (load_coll_inv _ _ (fun s => ssorted (map s_id s) /\ Forall (scenario_ok e) s)).
  - intros s m [Hs Hall]. unfold scenario_step.
    destruct (cm_id m) as [id|]; [|split; assumption].
    cbv zeta.
    set (c0 := match find (fun c => Nat.eqb (s_id c) id) s with Some c => c | None => scenario_blank id end).
    assert (Hc0 : scenario_ok e c0).
    { unfold c0. destruct (find (fun c => Nat.eqb (s_id c) id) s) as [c|] eqn:Hf.
      - apply find_some in Hf. rewrite Forall_forall in Hall. apply Hall. exact (proj1 Hf).
      - apply scenario_blank_ok. }
    pose proof (apply_fields_inv (scenario_ok e) (scenario_fields e m) c0 (scenario_fields_ok e m) Hc0) as Hc1.
    destruct (apply_fields (scenario_fields e m) c0) as [c1 ok]. cbn [fst] in Hc1 |- *. split.
    + apply ins_last_sorted. exact Hs.
    + apply ins_last_Forall; assumption.
  - split; [exact I|constructor].
Qed.

(* ---- stops ------------------------------------------------------------------------------------------ *)
Lemma app_at_keys : forall m k rows, map fst (app_at m k rows) = map fst m.
Proof.
  intros m k rows. unfold app_at. rewrite map_map. apply map_ext.
  intros e. destruct (Nat.eqb (fst e) k); reflexivity.
Qed.

Lemma push_rev_keys : forall t rows rfp, map fst (push_rev t rows rfp) = map fst rfp.
Proof.
  intros t. unfold push_rev. induction rows as [|r rows IHrows]; intros rfp.
  - reflexivity.
  - cbn [fold_left]. rewrite IHrows. apply app_at_keys.
Qed.

Lemma node_rows_p_known : forall known l, rows_known known (fst (node_rows_p known l)).
Proof.
  intros known. induction l as [|m r IHl].
  - constructor.
  - cbn [node_rows_p]. destruct (fm_node m) as [n|]; [|constructor].
    destruct (node_rows_p known r) as [rows ok]. cbn [fst] in IHl |- *.
    destruct (memb n known) eqn:Hm; [|exact IHl].
    destruct (0 <=? fm_time m); cbn [andb]; [|exact IHl].
    constructor; [cbn [fp_node]; exact Hm|exact IHl].
Qed.

(* D15: the rows consumed have walking times >= 0 *)
Lemma node_rows_p_nonneg : forall known l, rows_nonneg (fst (node_rows_p known l)).
Proof.
  intros known. induction l as [|m r IHl].
  - constructor.
  - cbn [node_rows_p]. destruct (fm_node m) as [n|]; [|constructor].
    destruct (node_rows_p known r) as [rows ok]. cbn [fst] in IHl |- *.
    destruct (memb n known); cbn [andb]; [|exact IHl].
    destruct (0 <=? fm_time m) eqn:Ht; [|exact IHl].
    apply Z.leb_le in Ht.
    constructor; [cbn [fp_time]; exact Ht|exact IHl].
Qed.

Lemma push_rev_nonneg : forall t rows rfp, rows_nonneg rows -> table_nonneg rfp -> table_nonneg (push_rev t rows rfp).
Proof. intros t rows rfp Hr Hm. unfold push_rev. apply fold_app_at_nonneg; assumption. Qed.

Definition tables_nonneg (fp rfp : list (nat * list fprow)) : Prop := table_nonneg fp /\ table_nonneg rfp.

Lemma load_node_files_p_nonneg : forall known files todo fp rfp,
  tables_nonneg fp rfp ->
  tables_nonneg (fst (fst (load_node_files_p known todo files fp rfp)))
                (snd (fst (load_node_files_p known todo files fp rfp))).
Proof.
  intros known files. induction todo as [|t rest IHtodo]; intros fp rfp Hok.
  - exact Hok.
  - cbn [load_node_files_p]. destruct Hok as [Hfp Hrfp].
    destruct (files t) as [| |pre|msg].
    + apply IHtodo. split; assumption.
    + apply IHtodo. split; assumption.
    + pose proof (node_rows_p_nonneg known pre) as Hrows.
      destruct (node_rows_p known pre) as [rows ok]. cbn [fst snd] in Hrows |- *.
      split; [exact Hfp|apply push_rev_nonneg; assumption].
    + pose proof (node_rows_p_nonneg known msg) as Hrows.
      destruct (node_rows_p known msg) as [rows ok]. cbn [fst] in Hrows.
      destruct ok.
      * apply IHtodo. split.
        -- apply app_at_nonneg; assumption.
        -- apply app_at_nonneg; [apply push_rev_nonneg; assumption|apply self_row_nonneg].
      * cbn [fst snd]. split; [exact Hfp|apply push_rev_nonneg; assumption].
Qed.

(* whatever the collection file and the per-stop files hold: no row of either table has a negative walking time *)
Lemma load_nodes2_nonneg : forall coll files,
  let '((ids, fp, rfp), r) := load_nodes2 coll files in tables_nonneg fp rfp.
Proof.
  intros coll files. unfold load_nodes2.
  destruct (load_nodecoll coll) as [ids r].
  assert (He : tables_nonneg (map (fun n => (n, @nil fprow)) ids) (map (fun n => (n, @nil fprow)) ids))
    by (split; apply empty_table_nonneg).
  destruct r; try exact He.
  pose proof (load_node_files_p_nonneg ids files ids _ _ He) as Hok.
  destruct (load_node_files_p ids ids files (map (fun n => (n, [])) ids) (map (fun n => (n, [])) ids)) as [[fp rfp] r2].
  cbn [fst snd] in Hok. exact Hok.
Qed.

Lemma push_rev_known : forall known t rows rfp,
  memb t known = true -> table_known known rfp -> table_known known (push_rev t rows rfp).
Proof. intros known t rows rfp Ht Hm. unfold push_rev. apply fold_app_at_known; assumption. Qed.

Definition tables_ok (known : list nat) (fp rfp : list (nat * list fprow)) : Prop :=
  map fst fp = known /\ map fst rfp = known /\ table_known known fp /\ table_known known rfp.

Lemma load_node_files_p_ok : forall known files todo fp rfp,
  (forall t, In t todo -> memb t known = true) -> tables_ok known fp rfp ->
  tables_ok known (fst (fst (load_node_files_p known todo files fp rfp)))
                  (snd (fst (load_node_files_p known todo files fp rfp))).
Proof.
  intros known files. induction todo as [|t rest IHtodo]; intros fp rfp Htodo Hok.
  - exact Hok.
  - cbn [load_node_files_p].
    assert (Hrest : forall t', In t' rest -> memb t' known = true) by (intros t' Hin; apply Htodo; right; exact Hin).
    assert (Ht : memb t known = true) by (apply Htodo; left; reflexivity).
    destruct Hok as [Hk1 [Hk2 [Hfp Hrfp]]].
    destruct (files t) as [| |pre|msg].
    + apply IHtodo; [exact Hrest|]. repeat split; assumption.
    + apply IHtodo; [exact Hrest|]. repeat split; assumption.
    + pose proof (node_rows_p_known known pre) as Hrows.
      destruct (node_rows_p known pre) as [rows ok]. cbn [fst snd] in Hrows |- *.
      repeat split; [exact Hk1|rewrite push_rev_keys; exact Hk2|exact Hfp|apply push_rev_known; assumption].
    + pose proof (node_rows_p_known known msg) as Hrows.
      destruct (node_rows_p known msg) as [rows ok]. cbn [fst] in Hrows.
      destruct ok.
      * apply IHtodo; [exact Hrest|]. repeat split.
        -- rewrite app_at_keys. exact Hk1.
        -- rewrite app_at_keys, push_rev_keys. exact Hk2.
        -- apply app_at_known; assumption.
        -- apply app_at_known; [apply push_rev_known; assumption|].
           constructor; [cbn [fp_node]; exact Ht|constructor].
      * cbn [fst snd].
        repeat split; [exact Hk1|rewrite push_rev_keys; exact Hk2|exact Hfp|apply push_rev_known; assumption].
Qed.

Lemma empty_tables_ok : forall ids, tables_ok ids (map (fun n => (n, @nil fprow)) ids) (map (fun n => (n, @nil fprow)) ids).
Proof.
  intros ids. unfold tables_ok.
  assert (Hk : map fst (map (fun n : nat => (n, @nil fprow)) ids) = ids).
  { rewrite map_map. cbn [fst]. apply map_id. }
  repeat split; [exact Hk|exact Hk|apply empty_table_known|apply empty_table_known].
Qed.

(* whatever the collection file and the per-stop files hold: stop ids strictly ascending, both tables have one
   entry per stop in stop order, every row names a loaded stop *)
Lemma load_nodes2_ok : forall coll files,
  let '((ids, fp, rfp), r) := load_nodes2 coll files in ssorted ids /\ tables_ok ids fp rfp.
Proof.
  intros coll files. unfold load_nodes2.
  pose proof (load_nodecoll_sorted coll) as Hs.
  destruct (load_nodecoll coll) as [ids r]. cbn [fst] in Hs.
  pose proof (empty_tables_ok ids) as He.
  destruct r; try (split; [exact Hs|exact He]).
  pose proof (load_node_files_p_ok ids files ids _ _ (fun t Hin => memb_in t ids Hin) He) as Hok.
  destruct (load_node_files_p ids ids files (map (fun n => (n, [])) ids) (map (fun n => (n, [])) ids)) as [[fp rfp] r2].
  cbn [fst snd] in Hok. split; [exact Hs|exact Hok].
Qed.

(* the partial-state loader agrees with Loader.load_node_files whenever that one succeeds *)
Lemma node_rows_p_some : forall known l rows, node_rows known l = Some rows -> node_rows_p known l = (rows, true).
Proof.
  intros known. induction l as [|m r IHl]; intros rows Hr.
  - cbn [node_rows] in Hr. injection Hr as Hr. subst rows. reflexivity.
  - cbn [node_rows] in Hr. cbn [node_rows_p].
    destruct (fm_node m) as [n|]; [|discriminate Hr].
    destruct (node_rows known r) as [rows0|] eqn:Hr0; [|discriminate Hr].
    injection Hr as Hr. subst rows. rewrite (IHl rows0 eq_refl). reflexivity.
Qed.

Lemma load_node_files_p_agrees : forall known files todo fp rfp fp' rfp',
  load_node_files known todo files fp rfp = NLOk fp' rfp' ->
  load_node_files_p known todo files fp rfp = ((fp', rfp'), RC_OK).
Proof.
  intros known files. induction todo as [|t rest IHtodo]; intros fp rfp fp' rfp' Hload.
  - cbn [load_node_files] in Hload. injection Hload as H1 H2. subst fp' rfp'. reflexivity.
  - cbn [load_node_files] in Hload. cbn [load_node_files_p].
    destruct (files t) as [| |pre|msg].
    + apply IHtodo. exact Hload.
    + apply IHtodo. exact Hload.
    + discriminate Hload.
    + destruct (node_rows known msg) as [rows|] eqn:Hrows; [|discriminate Hload].
      rewrite (node_rows_p_some known msg rows Hrows).
      apply IHtodo. exact Hload.
Qed.

(* ---- trips ------------------------------------------------------------------------------------------ *)
Lemma trips_map_sorted : forall raw, ssorted (map t_id (trips_map raw)).
Proof. intros raw. unfold trips_map. apply fold_ins_first_sorted. exact I. Qed.

Lemma trips_map_in : forall raw t, In t (trips_map raw) -> In t raw.
Proof.
  intros raw t Hin. unfold trips_map in Hin. apply fold_ins_first_in in Hin.
  destruct Hin as [Hin|Hnil]; [exact Hin|destruct Hnil].
Qed.

(* ---- the whole state ---------------------------------------------------------------------------------- *)
(* each collection as a function of the files alone, dependencies resolved in load order *)
Definition C_ag (f : fs) : list nat := fst (load_agencies (f_agencies f)).
Definition C_sv (f : fs) : list nat := fst (load_services (f_services f)).
Definition C_nd (f : fs) := fst (load_nodes2 (f_nodes f) (f_stop f)).
Definition C_ids (f : fs) : list nat := fst (fst (C_nd f)).
Definition C_ln (f : fs) : list line := fst (load_lines (C_ag f) (f_lines f)).
Definition C_pt (f : fs) : list path := fst (load_paths (map l_id (C_ln f)) (C_ids f) (f_paths f)).
Definition C_env (f : fs) : scen_env :=
  {| se_services := C_sv f; se_lines := map l_id (C_ln f); se_agencies := C_ag f; se_nodes := C_ids f |}.
Definition C_sc (f : fs) : list scenario := fst (load_scenarios (C_env f) (f_scenarios f)).
Definition C_tr (f : fs) : list trip := trips_map (load_schedules (C_ln f) (C_pt f) (C_sv f) (f_line f)).

Definition full_mem (f : fs) : mem :=
  {| mm_agencies := C_ag f; mm_services := C_sv f; mm_nodes := C_ids f; mm_fp := snd (fst (C_nd f)); mm_rfp := snd (C_nd f);
     mm_lines := C_ln f; mm_paths := C_pt f; mm_scenarios := C_sc f; mm_trips := C_tr f |}.

Lemma fst_reload_nodes : forall f m, fst (reload_nodes f m) =
  {| mm_agencies := mm_agencies m; mm_services := mm_services m; mm_nodes := C_ids f; mm_fp := snd (fst (C_nd f));
     mm_rfp := snd (C_nd f); mm_lines := mm_lines m; mm_paths := mm_paths m; mm_scenarios := mm_scenarios m;
     mm_trips := mm_trips m |}.
Proof.
  intros f m. unfold reload_nodes, C_ids, C_nd.
  destruct (load_nodes2 (f_nodes f) (f_stop f)) as [[[ids fp] rfp] r]. reflexivity.
Qed.
Lemma fst_reload_agencies : forall f m, fst (reload_agencies f m) =
  {| mm_agencies := C_ag f; mm_services := mm_services m; mm_nodes := mm_nodes m; mm_fp := mm_fp m; mm_rfp := mm_rfp m;
     mm_lines := mm_lines m; mm_paths := mm_paths m; mm_scenarios := mm_scenarios m; mm_trips := mm_trips m |}.
Proof. intros f m. unfold reload_agencies, C_ag. destruct (load_agencies (f_agencies f)) as [v r]. reflexivity. Qed.
Lemma fst_reload_services : forall f m, fst (reload_services f m) =
  {| mm_agencies := mm_agencies m; mm_services := C_sv f; mm_nodes := mm_nodes m; mm_fp := mm_fp m; mm_rfp := mm_rfp m;
     mm_lines := mm_lines m; mm_paths := mm_paths m; mm_scenarios := mm_scenarios m; mm_trips := mm_trips m |}.
Proof. intros f m. unfold reload_services, C_sv. destruct (load_services (f_services f)) as [v r]. reflexivity. Qed.
Lemma fst_reload_lines : forall f m, fst (reload_lines f m) =
  {| mm_agencies := mm_agencies m; mm_services := mm_services m; mm_nodes := mm_nodes m; mm_fp := mm_fp m; mm_rfp := mm_rfp m;
     mm_lines := fst (load_lines (mm_agencies m) (f_lines f)); mm_paths := mm_paths m; mm_scenarios := mm_scenarios m;
     mm_trips := mm_trips m |}.
Proof. intros f m. unfold reload_lines. destruct (load_lines (mm_agencies m) (f_lines f)) as [v r]. reflexivity. Qed.
Lemma fst_reload_paths : forall f m, fst (reload_paths f m) =
  {| mm_agencies := mm_agencies m; mm_services := mm_services m; mm_nodes := mm_nodes m; mm_fp := mm_fp m; mm_rfp := mm_rfp m;
     mm_lines := mm_lines m; mm_paths := fst (load_paths (map l_id (mm_lines m)) (mm_nodes m) (f_paths f));
     mm_scenarios := mm_scenarios m; mm_trips := mm_trips m |}.
Proof.
  intros f m. unfold reload_paths. destruct (load_paths (map l_id (mm_lines m)) (mm_nodes m) (f_paths f)) as [v r]. reflexivity.
Qed.
Lemma fst_reload_scenarios : forall f m, fst (reload_scenarios f m) =
  {| mm_agencies := mm_agencies m; mm_services := mm_services m; mm_nodes := mm_nodes m; mm_fp := mm_fp m; mm_rfp := mm_rfp m;
     mm_lines := mm_lines m; mm_paths := mm_paths m; mm_scenarios := fst (load_scenarios (scen_env_of m) (f_scenarios f));
     mm_trips := mm_trips m |}.
Proof.
  intros f m. unfold reload_scenarios. destruct (load_scenarios (scen_env_of m) (f_scenarios f)) as [v r]. reflexivity.
Qed.
Lemma fst_reload_schedules : forall f m, fst (reload_schedules f m) =
  {| mm_agencies := mm_agencies m; mm_services := mm_services m; mm_nodes := mm_nodes m; mm_fp := mm_fp m; mm_rfp := mm_rfp m;
     mm_lines := mm_lines m; mm_paths := mm_paths m; mm_scenarios := mm_scenarios m;
     mm_trips := trips_map (load_schedules (mm_lines m) (mm_paths m) (mm_services m) (f_line f)) |}.
Proof. reflexivity. Qed.

Ltac mem_simpl :=
  cbn [mm_agencies mm_services mm_nodes mm_fp mm_rfp mm_lines mm_paths mm_scenarios mm_trips scen_env_of].

(* reloading every collection in the handler's order, from ANY memory: the result depends on the files only *)
Lemma reload_chain_eq : forall f m, fold_left (fun m k => reload_kind f k m) handler_order m = full_mem f.
Proof.
  intros f m. unfold handler_order. cbn [fold_left reload_kind].
  rewrite fst_reload_schedules, fst_reload_scenarios, fst_reload_paths, fst_reload_lines, fst_reload_nodes,
          fst_reload_services, fst_reload_agencies.
  mem_simpl. reflexivity.
Qed.

Lemma load_full_eq : forall f, load_full f = full_mem f.
Proof. intros f. unfold load_full. apply reload_chain_eq. Qed.

(* ---- start-up = the full load cut at the first fatal return code --------------------------------------- *)
Definition cut (n : nat) (m : mem) : mem :=
  {| mm_agencies := if Nat.leb 2 n then mm_agencies m else [];
     mm_services := if Nat.leb 3 n then mm_services m else [];
     mm_nodes := mm_nodes m; mm_fp := mm_fp m; mm_rfp := mm_rfp m;
     mm_lines := if Nat.leb 4 n then mm_lines m else [];
     mm_paths := if Nat.leb 5 n then mm_paths m else [];
     mm_scenarios := if Nat.leb 6 n then mm_scenarios m else [];
     mm_trips := if Nat.leb 7 n then mm_trips m else [] |}.

(* the stage at which loadAllData stops: 1 stops, 2 agencies, 3 services, 4 lines, 5 paths, 6 scenarios, 7 schedules *)
Definition stop_stage (f : fs) : nat :=
  if rc_fatal (snd (load_nodes2 (f_nodes f) (f_stop f))) then 1
  else if rc_fatal (load_datasources (f_datasources f)) then 1
  else if rc_fatal (snd (load_agencies (f_agencies f))) then 2
  else if rc_fatal (snd (load_services (f_services f))) then 3
  else if rc_fatal (snd (load_lines (C_ag f) (f_lines f))) then 4
  else if rc_fatal (snd (load_paths (map l_id (C_ln f)) (C_ids f) (f_paths f))) then 5
  else if rc_fatal (snd (load_scenarios (C_env f) (f_scenarios f))) then 6
  else 7.

Definition read_error (f : fs) : bool :=
  rc_fatal (snd (load_nodes2 (f_nodes f) (f_stop f))) || rc_fatal (load_datasources (f_datasources f)) ||
  rc_fatal (snd (load_agencies (f_agencies f))) || rc_fatal (snd (load_services (f_services f))) ||
  rc_fatal (snd (load_lines (C_ag f) (f_lines f))) ||
  rc_fatal (snd (load_paths (map l_id (C_ln f)) (C_ids f) (f_paths f))) ||
  rc_fatal (snd (load_scenarios (C_env f) (f_scenarios f))).

Lemma load_steps_eq : forall f, load_steps f = (cut (stop_stage f) (full_mem f), read_error f).
Proof.
  intros f. unfold load_steps, stop_stage, read_error, full_mem, C_sc, C_tr, C_pt, C_env, C_ln, C_ids, C_nd, C_ag, C_sv.
  unfold reload_nodes.
  destruct (load_nodes2 (f_nodes f) (f_stop f)) as [[[ids fp] rfp] r1]. cbn [fst snd].
  destruct (rc_fatal r1); [reflexivity|].
  destruct (rc_fatal (load_datasources (f_datasources f))); [reflexivity|].
  unfold reload_agencies. mem_simpl.
  destruct (load_agencies (f_agencies f)) as [ag r2]. cbn [fst snd].
  destruct (rc_fatal r2); [reflexivity|].
  unfold reload_services. mem_simpl.
  destruct (load_services (f_services f)) as [sv r3]. cbn [fst snd].
  destruct (rc_fatal r3); [reflexivity|].
  unfold reload_lines. mem_simpl.
  destruct (load_lines ag (f_lines f)) as [ln r4]. cbn [fst snd].
  destruct (rc_fatal r4); [reflexivity|].
  unfold reload_paths. mem_simpl.
  destruct (load_paths (map l_id ln) ids (f_paths f)) as [pt r5]. cbn [fst snd].
  destruct (rc_fatal r5); [reflexivity|].
  unfold reload_scenarios, scen_env_of. mem_simpl.
  destruct (load_scenarios {| se_services := sv; se_lines := map l_id ln; se_agencies := ag; se_nodes := ids |} (f_scenarios f))
    as [sc r6]. cbn [fst snd].
  destruct (rc_fatal r6); [reflexivity|].
  reflexivity.
Qed.

(* ---- the invariant the router relies on: no dangling identifier ------------------------------------------ *)
Record mem_ok (m : mem) : Prop := {
  ok_agencies : ssorted (mm_agencies m);
  ok_services : ssorted (mm_services m);
  ok_nodes : ssorted (mm_nodes m);
  ok_tables : tables_ok (mm_nodes m) (mm_fp m) (mm_rfp m);
  ok_lines_sorted : ssorted (map l_id (mm_lines m));
  ok_lines : Forall (line_ok (mm_agencies m)) (mm_lines m);
  ok_paths_sorted : ssorted (map p_id (mm_paths m));
  ok_paths : Forall (path_ok (map l_id (mm_lines m)) (mm_nodes m)) (mm_paths m);
  ok_scen_sorted : ssorted (map s_id (mm_scenarios m));
  ok_scen : Forall (scenario_ok {| se_services := mm_services m; se_lines := map l_id (mm_lines m);
                                   se_agencies := mm_agencies m; se_nodes := mm_nodes m |}) (mm_scenarios m);
  ok_trips_sorted : ssorted (map t_id (mm_trips m));
  ok_trips : Forall (trip_safe (mm_paths m) (mm_services m)) (mm_trips m) }.

Theorem full_mem_ok : forall f, mem_ok (full_mem f).
Proof.
  intros f.
  pose proof (load_nodes2_ok (f_nodes f) (f_stop f)) as Hn.
  assert (Hn' : ssorted (C_ids f) /\ tables_ok (C_ids f) (snd (fst (C_nd f))) (snd (C_nd f))).
  { unfold C_ids, C_nd. destruct (load_nodes2 (f_nodes f) (f_stop f)) as [[[ids fp] rfp] r]. exact Hn. }
  destruct Hn' as [Hids Htab].
  constructor; unfold full_mem; mem_simpl.
  - apply load_agencies_sorted.
  - apply load_services_sorted.
  - exact Hids.
  - exact Htab.
  - exact (proj1 (load_lines_ok (C_ag f) (f_lines f))).
  - exact (proj2 (load_lines_ok (C_ag f) (f_lines f))).
  - exact (proj1 (load_paths_ok (map l_id (C_ln f)) (C_ids f) (f_paths f))).
  - exact (proj2 (load_paths_ok (map l_id (C_ln f)) (C_ids f) (f_paths f))).
  - exact (proj1 (load_scenarios_ok (C_env f) (f_scenarios f))).
  - exact (proj2 (load_scenarios_ok (C_env f) (f_scenarios f))).
  - apply trips_map_sorted.
  - unfold C_tr. apply Forall_forall. intros t Hin. apply trips_map_in in Hin.
    exact (load_schedules_safe _ _ _ _ t Hin).
Qed.

Lemma cut_ok : forall n m, mem_ok m -> mem_ok (cut n m).
Proof.
  intros n m [H1 H2 H3 H4 H5 H6 H7 H8 H9 H10 H11 H12].
  destruct n as [|[|[|[|[|[|[|n]]]]]]]; unfold cut; cbn [Nat.leb];
    (constructor; mem_simpl; cbn [map]; first [assumption | exact I | constructor]).
Qed.

Theorem load_all_ok : forall f, mem_ok (fst (load_all f)).
Proof.
  intros f. unfold load_all. cbn [fst]. rewrite load_steps_eq. cbn [fst].
  apply cut_ok. apply full_mem_ok.
Qed.

Lemma memb_find_key : forall (A : Type) (kf : A -> nat) x (l : list A),
  memb x (map kf l) = true -> exists y, find (fun y => Nat.eqb (kf y) x) l = Some y /\ In y l /\ kf y = x.
Proof.
  intros A kf x. induction l as [|z r IHl]; intros Hm.
  - discriminate Hm.
  - cbn [map] in Hm. rewrite memb_cons in Hm. cbn [find].
    destruct (Nat.eqb (kf z) x) eqn:Hz.
    + exists z. split; [reflexivity|]. split; [left; reflexivity|apply Nat.eqb_eq; exact Hz].
    + rewrite Nat.eqb_sym in Hm. rewrite Hz in Hm. cbn [orb] in Hm.
      destruct (IHl Hm) as [y [Hf [Hin Hk]]]. exists y. split; [exact Hf|]. split; [right; exact Hin|exact Hk].
Qed.

(* every reference the router follows from a loaded trip resolves in the loaded data: trip -> path -> line -> agency,
   the mode is one of the table, the path's stops are loaded stops, the trip has between 2 and |stops| stop times and
   a loaded service *)
Theorem mem_ok_trip_resolves : forall m t, mem_ok m -> In t (mm_trips m) ->
  exists p l,
    find_path (data_of m) (t_path t) = Some p /\ find_line (data_of m) (p_line p) = Some l /\
    memb (l_agency l) (mm_agencies m) = true /\ mode_known (l_mode l) = true /\
    memb (t_service t) (mm_services m) = true /\
    (2 <= length (t_times t) <= length (p_nodes p))%nat /\
    (forall n, In n (p_nodes p) -> In n (mm_nodes m)) /\
    trip_line (data_of m) t = l_id l /\ trip_agency (data_of m) t = l_agency l /\ trip_mode (data_of m) t = l_mode l.
Proof.
  intros m t Hok Hin.
  pose proof (ok_trips m Hok) as Htr. rewrite Forall_forall in Htr. specialize (Htr t Hin).
  destruct Htr as [Hsv [p [Hfp Hlen]]].
  pose proof (find_some _ _ Hfp) as [Hpin _].
  pose proof (ok_paths m Hok) as Hp. rewrite Forall_forall in Hp. specialize (Hp p Hpin).
  destruct Hp as [Hline [Hnodes _]].
  destruct (memb_find_key line l_id (p_line p) (mm_lines m) Hline) as [l [Hfl [Hlin Hlid]]].
  pose proof (ok_lines m Hok) as Hl. rewrite Forall_forall in Hl. specialize (Hl l Hlin). destruct Hl as [Hag Hmode].
  exists p, l.
  assert (Hfp' : find_path (data_of m) (t_path t) = Some p) by exact Hfp.
  assert (Htl : trip_line (data_of m) t = p_line p) by (unfold trip_line; rewrite Hfp'; reflexivity).
  assert (Hfl' : find_line (data_of m) (p_line p) = Some l) by exact Hfl.
  repeat split.
  - exact Hfp'.
  - exact Hfl'.
  - exact Hag.
  - exact Hmode.
  - exact Hsv.
  - exact (proj1 Hlen).
  - exact (proj2 Hlen).
  - intros n Hn. rewrite Forall_forall in Hnodes. apply memb_true_in. apply Hnodes. exact Hn.
  - rewrite Htl. symmetry. exact Hlid.
  - unfold trip_agency. rewrite Htl, Hfl'. reflexivity.
  - unfold trip_mode. rewrite Htl, Hfl'. reflexivity.
Qed.

(* connection construction on the loaded data never indexes past a path's stops, and every connection joins loaded stops *)
Corollary mem_ok_conns_safe : forall m t, mem_ok m -> In t (mm_trips m) ->
  length (trip_conns (data_of m) t) = (length (t_times t) - 1)%nat /\
  forall c, In c (trip_conns (data_of m) t) -> In (c_from c) (mm_nodes m) /\ In (c_to c) (mm_nodes m).
Proof.
  intros m t Hok Hin.
  pose proof (ok_trips m Hok) as Htr. rewrite Forall_forall in Htr. specialize (Htr t Hin).
  destruct (loaded_trip_conns_safe (data_of m) (mm_services m) t Htr) as [Hlen Hstops].
  split; [exact Hlen|].
  intros c Hc. destruct (Hstops c Hc) as [Hf Ht].
  destruct (mem_ok_trip_resolves m t Hok Hin) as [p [l [Hfp [_ [_ [_ [_ [_ [Hnodes _]]]]]]]]].
  unfold trip_nodes in Hf, Ht. rewrite Hfp in Hf, Ht.
  split; apply Hnodes; assumption.
Qed.

(* paths and scenarios, read on their own *)
Theorem mem_ok_path_resolves : forall m p, mem_ok m -> In p (mm_paths m) ->
  (exists l, find_line (data_of m) (p_line p) = Some l /\ memb (l_agency l) (mm_agencies m) = true) /\
  (forall n, In n (p_nodes p) -> In n (mm_nodes m)) /\ (length (p_dists p) <= length (p_nodes p))%nat.
Proof.
  intros m p Hok Hpin.
  pose proof (ok_paths m Hok) as Hp. rewrite Forall_forall in Hp. specialize (Hp p Hpin).
  destruct Hp as [Hline [Hnodes Hd]].
  destruct (memb_find_key line l_id (p_line p) (mm_lines m) Hline) as [l [Hfl [Hlin Hlid]]].
  pose proof (ok_lines m Hok) as Hl. rewrite Forall_forall in Hl. specialize (Hl l Hlin).
  split; [exists l; split; [exact Hfl|exact (proj1 Hl)]|].
  split; [|exact Hd].
  intros n Hn. rewrite Forall_forall in Hnodes. apply memb_true_in. apply Hnodes. exact Hn.
Qed.

Theorem mem_ok_footpaths_known : forall m n rows r, mem_ok m ->
  (assoc n (mm_fp m) = Some rows \/ assoc n (mm_rfp m) = Some rows) -> In r rows -> In (fp_node r) (mm_nodes m).
Proof.
  intros m n rows r Hok Hassoc Hin.
  destruct (ok_tables m Hok) as [_ [_ [Hfp Hrfp]]].
  apply memb_true_in. destruct Hassoc as [Ha|Ha].
  - exact (table_known_assoc _ _ n rows r Hfp Ha Hin).
  - exact (table_known_assoc _ _ n rows r Hrfp Ha Hin).
Qed.

(* ---- start-up: outcome and status --------------------------------------------------------------------------- *)
Theorem startup_not_bad : forall f, is_bad (startup f) = false.
Proof. reflexivity. Qed.

Theorem load_all_status_documented : forall f,
  In (snd (load_all f)) [ST_READY; ST_NO_AGENCIES; ST_NO_SERVICES; ST_NO_NODES; ST_NO_LINES; ST_NO_PATHS; ST_NO_SCENARIOS; ST_NO_SCHEDULES].
Proof. intros f. unfold load_all. cbn [snd]. apply data_status_documented. Qed.

(* the status is READY exactly when all seven collections are non-empty, and otherwise names the FIRST empty one in
   the order agencies, services, stops, lines, paths, scenarios, schedules *)
Theorem load_all_status_ready_iff : forall f, snd (load_all f) = ST_READY <->
  (mm_agencies (fst (load_all f)) <> [] /\ mm_services (fst (load_all f)) <> [] /\ mm_nodes (fst (load_all f)) <> [] /\
   mm_lines (fst (load_all f)) <> [] /\ mm_paths (fst (load_all f)) <> [] /\ mm_scenarios (fst (load_all f)) <> [] /\
   mm_trips (fst (load_all f)) <> []).
Proof.
  intros f. unfold load_all. cbn [fst snd]. rewrite data_status_ready_iff. unfold sizes_of.
  cbn [z_agencies z_services z_nodes z_lines z_paths z_scenarios z_trips].
  rewrite !length_zero_iff_nil. reflexivity.
Qed.

Theorem load_all_status_names_first_empty : forall f,
  let m := fst (load_all f) in let st := snd (load_all f) in
  (st = ST_NO_AGENCIES -> mm_agencies m = []) /\
  (st = ST_NO_SERVICES -> mm_agencies m <> [] /\ mm_services m = []) /\
  (st = ST_NO_NODES -> mm_agencies m <> [] /\ mm_services m <> [] /\ mm_nodes m = []) /\
  (st = ST_NO_LINES -> mm_agencies m <> [] /\ mm_services m <> [] /\ mm_nodes m <> [] /\ mm_lines m = []) /\
  (st = ST_NO_PATHS -> mm_agencies m <> [] /\ mm_services m <> [] /\ mm_nodes m <> [] /\ mm_lines m <> [] /\ mm_paths m = []) /\
  (st = ST_NO_SCENARIOS -> mm_agencies m <> [] /\ mm_services m <> [] /\ mm_nodes m <> [] /\ mm_lines m <> [] /\
                           mm_paths m <> [] /\ mm_scenarios m = []) /\
  (st = ST_NO_SCHEDULES -> mm_agencies m <> [] /\ mm_services m <> [] /\ mm_nodes m <> [] /\ mm_lines m <> [] /\
                           mm_paths m <> [] /\ mm_scenarios m <> [] /\ mm_trips m = []).
Proof.
  intros f m st. subst m st. unfold load_all. cbn [fst snd].
  pose proof (data_status_names_first_empty (sizes_of (fst (load_steps f)))) as H.
  unfold sizes_of in H. cbn [z_agencies z_services z_nodes z_lines z_paths z_scenarios z_trips] in H.
  rewrite !length_zero_iff_nil in H. exact H.
Qed.

(* a start-up that met a read error (loadAllData returned DATA_READ_ERROR) has no trips: every endpoint answers
   data_error, never a route computed on half-loaded data *)
Theorem read_error_not_ready : forall f, snd (load_steps f) = true ->
  mm_trips (fst (load_all f)) = [] /\ snd (load_all f) <> ST_READY.
Proof.
  intros f Herr.
  assert (Htr : mm_trips (fst (load_all f)) = []).
  { unfold load_all. cbn [fst]. rewrite load_steps_eq in Herr |- *. cbn [fst snd] in Herr |- *.
    unfold read_error in Herr. unfold stop_stage.
    destruct (rc_fatal (snd (load_nodes2 (f_nodes f) (f_stop f)))); [reflexivity|].
    destruct (rc_fatal (load_datasources (f_datasources f))); [reflexivity|].
    destruct (rc_fatal (snd (load_agencies (f_agencies f)))); [reflexivity|].
    destruct (rc_fatal (snd (load_services (f_services f)))); [reflexivity|].
    destruct (rc_fatal (snd (load_lines (C_ag f) (f_lines f)))); [reflexivity|].
    destruct (rc_fatal (snd (load_paths (map l_id (C_ln f)) (C_ids f) (f_paths f)))); [reflexivity|].
    destruct (rc_fatal (snd (load_scenarios (C_env f) (f_scenarios f)))); [reflexivity|].
    discriminate Herr. }
  split; [exact Htr|].
  intros Hready. apply load_all_status_ready_iff in Hready. tauto.
Qed.

(* ---------------------------------------------------------------------------------------------- *)
(* A. round trip                                                                                   *)

(* what a dataset must satisfy, beyond wf_data_b, to be the image of the encoding: identifiers listed in uuid order
   (the order of std::map), mode numbers of the mode table, at most one distance per stop of a path, scenario lists
   naming lines / stops / modes that exist (unknown ones would be dropped by the loader) *)
Definition encodable_b (d : data) : bool :=
  ssorted_b (d_nodes d) && ssorted_b (map l_id (d_lines d)) && ssorted_b (map p_id (d_paths d)) &&
  ssorted_b (map t_id (d_trips d)) && ssorted_b (map s_id (d_scenarios d)) &&
  forallb (fun l => mode_known (l_mode l)) (d_lines d) &&
  forallb (fun p => Nat.leb (length (p_dists p)) (length (p_nodes p))) (d_paths d) &&
  forallb (fun c => forallb (fun l => memb l (map l_id (d_lines d))) (s_onlyLines c ++ s_exceptLines c) &&
                    forallb (fun n => memb n (d_nodes d)) (s_onlyNodes c ++ s_exceptNodes c) &&
                    forallb mode_known (s_onlyModes c ++ s_exceptModes c)) (d_scenarios d).

Lemma sorted_prefix_lt : forall (A : Type) (kf : A -> nat) acc x r,
  ssorted (map kf (acc ++ x :: r)) -> Forall (fun y => (kf y < kf x)%nat) acc.
Proof.
  intros A kf. induction acc as [|a acc IHacc]; intros x r Hs; [constructor|].
  cbn [app map ssorted] in Hs. destruct Hs as [Hall Hr]. constructor.
  - rewrite Forall_forall in Hall. apply Hall. rewrite map_app. apply in_or_app. right. left. reflexivity.
  - exact (IHacc x r Hr).
Qed.

(* entries in strictly ascending key order, each of which the step function appends *)
Lemma fold_entries_ascending : forall (A M : Type) (kf : A -> nat) (enc : A -> M) (f : list A -> M -> list A * bool)
  (Q : A -> Prop),
  (forall s x, Q x -> Forall (fun y => (kf y < kf x)%nat) s -> f s (enc x) = (s ++ [x], true)) ->
  forall l acc, Forall Q l -> ssorted (map kf (acc ++ l)) -> fold_entries f (map enc l) acc = (acc ++ l, true).
Proof.
  intros A M kf enc f Q Hstep. induction l as [|x r IHl]; intros acc HQ Hs.
  - rewrite app_nil_r. reflexivity.
  - inversion HQ as [|x' r' Hx Hr]; subst x' r'.
    cbn [map fold_entries]. rewrite (Hstep acc x Hx (sorted_prefix_lt A kf acc x r Hs)).
    rewrite IHl; [rewrite <- app_assoc; reflexivity|exact Hr|rewrite <- app_assoc; exact Hs].
Qed.

Lemma load_coll_ascending : forall (A M : Type) (kf : A -> nat) (enc : A -> M) (f : list A -> M -> list A * bool)
  (Q : A -> Prop) l,
  (forall s x, Q x -> Forall (fun y => (kf y < kf x)%nat) s -> f s (enc x) = (s ++ [x], true)) ->
  Forall Q l -> ssorted (map kf l) -> load_coll f [] (FDecoded (map enc l)) = (l, RC_OK).
Proof.
  intros A M kf enc f Q l Hstep HQ Hs. unfold load_coll.
  rewrite (fold_entries_ascending A M kf enc f Q Hstep l [] HQ Hs). reflexivity.
Qed.

Lemma Forall_True : forall (A : Type) (l : list A), Forall (fun _ => True) l.
Proof. intros A l. apply Forall_forall. intros x Hx. exact I. Qed.

Lemma set_add_append : forall x s, Forall (fun y => (y < x)%nat) s -> set_add x s = s ++ [x].
Proof. intros x s Hs. unfold set_add. apply ins_first_append. exact Hs. Qed.

Lemma map_id_nat : forall l : list nat, map (fun n => n) l = l.
Proof. intros l. apply map_id. Qed.

Lemma load_nodecoll_encode : forall ns, ssorted ns -> load_nodecoll (FDecoded (enc_uref_list ns)) = (ns, RC_OK).
Proof.
  intros ns Hs. unfold load_nodecoll, enc_uref_list.
  apply (load_coll_ascending nat uref (fun n => n) (@Some nat) nodecoll_step (fun _ => True)).
  - intros s x _ Hlt. unfold nodecoll_step. rewrite set_add_append by exact Hlt. reflexivity.
  - apply Forall_True.
  - rewrite map_id_nat. exact Hs.
Qed.

Lemma load_agencies_encode : forall ns, ssorted ns ->
  load_agencies (FDecoded (map (fun a => {| am_id := Some a; am_rest_ok := true |}) ns)) = (ns, RC_OK).
Proof.
  intros ns Hs. unfold load_agencies.
  apply (load_coll_ascending nat agency_msg (fun n => n) _ agency_step (fun _ => True)).
  - intros s x _ Hlt. unfold agency_step. cbn [am_id am_rest_ok]. rewrite set_add_append by exact Hlt. reflexivity.
  - apply Forall_True.
  - rewrite map_id_nat. exact Hs.
Qed.

Lemma load_services_encode : forall ns, ssorted ns ->
  load_services (FDecoded (map (fun a => {| vm_id := Some a; vm_rest_ok := true |}) ns)) = (ns, RC_OK).
Proof.
  intros ns Hs. unfold load_services.
  apply (load_coll_ascending nat service_msg (fun n => n) _ service_step (fun _ => True)).
  - intros s x _ Hlt. unfold service_step. cbn [vm_id vm_rest_ok]. rewrite set_add_append by exact Hlt. reflexivity.
  - apply Forall_True.
  - rewrite map_id_nat. exact Hs.
Qed.

Lemma fold_set_add_sorted : forall l acc, ssorted acc -> ssorted (fold_left (fun a x => set_add x a) l acc).
Proof.
  induction l as [|x r IHl]; intros acc Hs; [exact Hs|].
  cbn [fold_left]. apply IHl. apply set_add_sorted. exact Hs.
Qed.

Lemma set_add_keep : forall x l y, In y l -> In y (set_add x l).
Proof. intros x l y. unfold set_add. apply ins_first_keep. Qed.

Lemma set_add_new : forall x l, In x (set_add x l).
Proof. intros x l. unfold set_add. apply ins_first_new. intros y _ Hk. exact Hk. Qed.

Lemma fold_set_add_in : forall l acc y, In y l \/ In y acc -> In y (fold_left (fun a x => set_add x a) l acc).
Proof.
  induction l as [|x r IHl]; intros acc y Hin.
  - destruct Hin as [Hnil|Hin]; [destruct Hnil|exact Hin].
  - cbn [fold_left]. apply IHl. destruct Hin as [[Heq|Hin]|Hin].
    + subst y. right. apply set_add_new.
    + left. exact Hin.
    + right. apply set_add_keep. exact Hin.
Qed.

Lemma agencies_of_sorted : forall d, ssorted (agencies_of d).
Proof. intros d. unfold agencies_of. apply fold_set_add_sorted. exact I. Qed.
Lemma services_of_sorted : forall d, ssorted (services_of d).
Proof. intros d. unfold services_of. apply fold_set_add_sorted. exact I. Qed.

Lemma agencies_of_line : forall d l, In l (d_lines d) -> memb (l_agency l) (agencies_of d) = true.
Proof.
  intros d l Hin. apply memb_in. unfold agencies_of. apply fold_set_add_in. left.
  apply in_or_app. left. apply in_map. exact Hin.
Qed.
Lemma agencies_of_scenario : forall d c a, In c (d_scenarios d) -> In a (s_onlyAgencies c ++ s_exceptAgencies c) ->
  memb a (agencies_of d) = true.
Proof.
  intros d c a Hc Ha. apply memb_in. unfold agencies_of. apply fold_set_add_in. left.
  apply in_or_app. right. apply in_flat_map. exists c. split; assumption.
Qed.
Lemma services_of_trip : forall d t, In t (d_trips d) -> memb (t_service t) (services_of d) = true.
Proof.
  intros d t Hin. apply memb_in. unfold services_of. apply fold_set_add_in. left.
  apply in_or_app. left. apply in_map. exact Hin.
Qed.
Lemma services_of_scenario : forall d c a, In c (d_scenarios d) -> In a (s_services c) -> memb a (services_of d) = true.
Proof.
  intros d c a Hc Ha. apply memb_in. unfold services_of. apply fold_set_add_in. left.
  apply in_or_app. right. apply in_flat_map. exists c. split; assumption.
Qed.

(* ---- lines, paths -------------------------------------------------------------------------------------- *)
Lemma load_lines_encode : forall agencies ls,
  ssorted (map l_id ls) -> Forall (line_ok agencies) ls ->
  load_lines agencies (FDecoded (map encode_line ls)) = (ls, RC_OK).
Proof.
  intros agencies ls Hs Hok. unfold load_lines.
  apply (load_coll_ascending line line_msg l_id encode_line (line_step agencies) (line_ok agencies)); [|exact Hok|exact Hs].
  intros s x [Ha Hm] Hlt. unfold line_step, encode_line. cbn [lm_id lm_agency lm_mode].
  rewrite Ha, Hm. cbn [andb].
  replace {| l_id := l_id x; l_agency := l_agency x; l_mode := l_mode x |} with x by (destruct x; reflexivity).
  rewrite ins_first_append by exact Hlt. reflexivity.
Qed.

Lemma refs_all_known_encode : forall known l, Forall (fun n => memb n known = true) l ->
  refs_all_known known (enc_uref_list l) = Some l.
Proof.
  intros known. induction l as [|n r IHl]; intros Hall; [reflexivity|].
  inversion Hall as [|n' r' Hn Hr]; subst n' r'.
  unfold enc_uref_list in *. cbn [map refs_all_known]. rewrite Hn. rewrite (IHl Hr). reflexivity.
Qed.

Lemma seg_dists_encode : forall ds n, (length ds <= n)%nat -> seg_dists n (map SDist ds) = Some ds.
Proof.
  induction ds as [|z r IHds]; intros n Hlen.
  - destruct n; reflexivity.
  - destruct n as [|n]; [cbn [length] in Hlen; lia|].
    cbn [map seg_dists]. rewrite IHds by (cbn [length] in Hlen; lia). reflexivity.
Qed.

Lemma load_paths_encode : forall lines nodes ps,
  ssorted (map p_id ps) -> Forall (path_ok lines nodes) ps ->
  load_paths lines nodes (FDecoded (map encode_path ps)) = (ps, RC_OK).
Proof.
  intros lines nodes ps Hs Hok. unfold load_paths.
  apply (load_coll_ascending path path_msg p_id encode_path (path_step lines nodes) (path_ok lines nodes)); [|exact Hok|exact Hs].
  intros s x [Hl [Hn Hd]] Hlt. unfold path_step, encode_path. cbn [pm_id pm_line pm_nodes pm_segs].
  rewrite (refs_all_known_encode nodes (p_nodes x) Hn).
  rewrite (seg_dists_encode (p_dists x) (length (p_nodes x)) Hd). rewrite Hl.
  replace {| p_id := p_id x; p_line := p_line x; p_nodes := p_nodes x; p_dists := p_dists x |} with x by (destruct x; reflexivity).
  rewrite ins_first_append by exact Hlt. reflexivity.
Qed.

(* ---- scenarios ------------------------------------------------------------------------------------------- *)
Lemma refs_filter_known_encode : forall known l, sub_of known l -> refs_filter_known known (enc_uref_list l) = Some l.
Proof.
  intros known. induction l as [|n r IHl]; intros Hall; [reflexivity|].
  inversion Hall as [|n' r' Hn Hr]; subst n' r'.
  unfold enc_uref_list in *. cbn [map refs_filter_known]. rewrite (IHl Hr). rewrite Hn. reflexivity.
Qed.

Lemma filter_mode_known_id : forall l, Forall (fun k => mode_known k = true) l -> filter mode_known l = l.
Proof.
  induction l as [|k r IHl]; intros Hall; [reflexivity|].
  inversion Hall as [|k' r' Hk Hr]; subst k' r'. cbn [filter]. rewrite Hk. rewrite (IHl Hr). reflexivity.
Qed.

Lemma load_scenarios_encode : forall e cs,
  ssorted (map s_id cs) -> Forall (scenario_ok e) cs ->
  load_scenarios e (FDecoded (map encode_scenario cs)) = (cs, RC_OK).
Proof.
  intros e cs Hs Hok. unfold load_scenarios.
  apply (load_coll_ascending scenario scenario_msg s_id encode_scenario (scenario_step e) (scenario_ok e)); [|exact Hok|exact Hs].
  intros s x Hx Hlt. unfold scenario_step. cbn [encode_scenario cm_id].
  rewrite (find_key_none s_id (s_id x) s Hlt).
  destruct Hx as [H1 [H2 [H3 [H4 [H5 [H6 [H7 [H8 H9]]]]]]]].
  unfold scenario_fields, encode_scenario.
  cbn [cm_sim_ok cm_services cm_onlyLines cm_onlyAgencies cm_onlyNodes cm_onlyModes cm_exceptLines cm_exceptAgencies
       cm_exceptNodes cm_exceptModes].
  rewrite (refs_filter_known_encode _ _ H1), (refs_filter_known_encode _ _ H2), (refs_filter_known_encode _ _ H3),
          (refs_filter_known_encode _ _ H4), (refs_filter_known_encode _ _ H5), (refs_filter_known_encode _ _ H6),
          (refs_filter_known_encode _ _ H7), (filter_mode_known_id _ H8), (filter_mode_known_id _ H9).
  cbn [apply_fields]. unfold scenario_blank.
  cbn [set_s_services set_s_onlyLines set_s_onlyModes set_s_onlyAgencies set_s_onlyNodes set_s_exceptLines set_s_exceptModes
       set_s_exceptAgencies set_s_exceptNodes s_id s_services s_onlyLines s_onlyModes s_onlyAgencies s_onlyNodes
       s_exceptLines s_exceptModes s_exceptAgencies s_exceptNodes].
  rewrite ins_last_append by exact Hlt.
  destruct x; reflexivity.
Qed.

(* ---- stops ------------------------------------------------------------------------------------------------ *)
Lemma load_nodes2_encode : forall (nodes : list nat) (fp : nat -> list fprow),
  ssorted nodes -> nodup_nat nodes = true ->
  (forall n r, In n nodes -> In r (fp n) -> memb (fp_node r) nodes = true) ->
  (forall n r, In n nodes -> In r (fp n) -> 0 <= fp_time r) ->
  load_nodes2 (FDecoded (enc_uref_list nodes)) (fun n => FDecoded (map encode_row (fp n)))
  = ((nodes, map (fun n => (n, fp n)) nodes, map (fun n => (n, derive_rfp nodes fp n)) nodes), RC_OK).
Proof.
  intros nodes fp Hs Hnodup Hknown Htime. unfold load_nodes2.
  rewrite (load_nodecoll_encode nodes Hs).
  pose proof (load_nodes_roundtrip nodes fp Hnodup Hknown Htime) as Hrt.
  unfold load_nodes in Hrt. cbv zeta in Hrt.
  apply load_node_files_p_agrees in Hrt.
  unfold encode_row. rewrite Hrt. reflexivity.
Qed.

(* ---- trips ------------------------------------------------------------------------------------------------ *)
(* LoaderProofs.load_scheds_encode for any service collection that contains the services of the trips *)
Lemma load_scheds_encode_sup : forall d services ts acc, wf_data_b d = true ->
  (forall t, In t ts -> In t (d_trips d)) ->
  (forall t, In t (d_trips d) -> memb (t_service t) services = true) ->
  load_scheds (d_paths d) services
              (map (fun t => {| sm_service := Some (t_service t); sm_trips := [encode_trip t] |}) ts) acc
  = (acc ++ ts, true).
Proof.
  intros d services. induction ts as [|t ts IHts]; intros acc Hwf Hsub Hsv.
  - cbn [map load_scheds]. rewrite app_nil_r. reflexivity.
  - assert (Hin : In t (d_trips d)) by (apply Hsub; left; reflexivity).
    destruct (wf_trip_path d t Hwf Hin) as [p [Hfind [Hlen [Hmin Htimes]]]].
    unfold find_path in Hfind.
    cbn [map load_scheds sm_service sm_trips].
    rewrite (Hsv t Hin).
    cbn [load_trips].
    rewrite (load_trip_encode (d_paths d) (t_service t) t p Hfind Hlen Hmin Htimes).
    replace {| t_id := t_id t; t_path := t_path t; t_service := t_service t; t_times := t_times t |} with t
      by (destruct t; reflexivity).
    rewrite IHts; [|exact Hwf|intros t' Hin'; apply Hsub; right; exact Hin'|exact Hsv].
    rewrite <- app_assoc. reflexivity.
Qed.

Lemma load_schedules_encode_sup : forall d services, wf_data_b d = true ->
  (forall t, In t (d_trips d) -> memb (t_service t) services = true) ->
  load_schedules (d_lines d) (d_paths d) services (fun l => FDecoded (encode_line_file d l))
  = flat_map (fun ln => filter (fun t => Nat.eqb (trip_line d t) (l_id ln)) (d_trips d)) (d_lines d).
Proof.
  intros d services Hwf Hsv. unfold load_schedules. apply flat_map_ext. intros ln.
  unfold load_line_file, encode_line_file.
  rewrite (load_scheds_encode_sup d services _ [] Hwf); [reflexivity| |exact Hsv].
  intros t Hin. apply filter_In in Hin. exact (proj1 Hin).
Qed.

Lemma ssorted_keys_inj : forall (A : Type) (kf : A -> nat) (l : list A) a b,
  ssorted (map kf l) -> In a l -> In b l -> kf a = kf b -> a = b.
Proof.
  intros A kf. induction l as [|z r IHl]; intros a b Hs Ha Hb Hk; [destruct Ha|].
  cbn [map ssorted] in Hs. destruct Hs as [Hall Hr]. rewrite Forall_forall in Hall.
  destruct Ha as [Ha|Ha]; destruct Hb as [Hb|Hb].
  - congruence.
  - subst z. pose proof (Hall (kf b) (in_map kf _ _ Hb)) as H. lia.
  - subst z. pose proof (Hall (kf a) (in_map kf _ _ Ha)) as H. lia.
  - exact (IHl a b Hr Ha Hb Hk).
Qed.

(* the trips of the line files, whatever the order in which the lines present them, end up in trip-id order *)
Lemma trips_map_canonical : forall raw ts, ssorted (map t_id ts) -> (forall t, In t raw <-> In t ts) -> trips_map raw = ts.
Proof.
  intros raw ts Hs Hext.
  apply (ssorted_ext t_id); [apply trips_map_sorted|exact Hs|].
  intros t. split; intros Hin.
  - apply Hext. apply trips_map_in. exact Hin.
  - unfold trips_map. apply fold_ins_first_all; [|apply Hext; exact Hin].
    intros a b Ha Hb Hk.
    destruct Ha as [Ha|Hnil]; [|destruct Hnil]. destruct Hb as [Hb|Hnil]; [|destruct Hnil].
    apply (ssorted_keys_inj trip t_id ts a b Hs); [apply Hext; exact Ha|apply Hext; exact Hb|exact Hk].
Qed.

Lemma find_some_key : forall (A : Type) (kf : A -> nat) x (l : list A) y,
  find (fun z => Nat.eqb (kf z) x) l = Some y -> In y l /\ kf y = x.
Proof.
  intros A kf x l y Hf. apply find_some in Hf. destruct Hf as [Hin Hk]. apply Nat.eqb_eq in Hk. split; assumption.
Qed.

Lemma wf_trip_line_known : forall d t, wf_data_b d = true -> In t (d_trips d) ->
  exists ln, In ln (d_lines d) /\ l_id ln = trip_line d t.
Proof.
  intros d t Hwf Hin.
  destruct (wf_trip_path d t Hwf Hin) as [p [Hfind _]].
  assert (Hpaths : forallb (fun p => is_some (find_line d (p_line p)) && forallb (fun n => memb n (d_nodes d)) (p_nodes p)
                    && forallb (fun x => -1 <=? x) (p_dists p)) (d_paths d) = true).
  { unfold wf_data_b in Hwf. apply andb_true_iff in Hwf. destruct Hwf as [Hwf _].
    apply andb_true_iff in Hwf. exact (proj2 Hwf). }
  pose proof (find_some_key path p_id (t_path t) (d_paths d) p Hfind) as [Hpin _].
  rewrite forallb_forall in Hpaths. specialize (Hpaths p Hpin).
  apply andb_true_iff in Hpaths. destruct Hpaths as [Hpaths _].
  apply andb_true_iff in Hpaths. destruct Hpaths as [Hline _].
  unfold trip_line. rewrite Hfind.
  unfold find_line in Hline. destruct (find (fun x => Nat.eqb (l_id x) (p_line p)) (d_lines d)) as [ln|] eqn:Hfl; [|discriminate Hline].
  apply find_some_key in Hfl. exists ln. exact Hfl.
Qed.

Lemma trips_roundtrip : forall d services, wf_data_b d = true -> ssorted (map t_id (d_trips d)) ->
  (forall t, In t (d_trips d) -> memb (t_service t) services = true) ->
  trips_map (load_schedules (d_lines d) (d_paths d) services (fun l => FDecoded (encode_line_file d l))) = d_trips d.
Proof.
  intros d services Hwf Hs Hsv.
  rewrite (load_schedules_encode_sup d services Hwf Hsv).
  apply trips_map_canonical; [exact Hs|].
  intros t. rewrite in_flat_map. split.
  - intros [ln [_ Hin]]. apply filter_In in Hin. exact (proj1 Hin).
  - intros Hin. destruct (wf_trip_line_known d t Hwf Hin) as [ln [Hln Hid]].
    exists ln. split; [exact Hln|]. apply filter_In. split; [exact Hin|].
    apply Nat.eqb_eq. symmetry. exact Hid.
Qed.

(* ---- the parts of wf_data_b and encodable_b used below ------------------------------------------------------ *)
Lemma forallb_Forall : forall (A : Type) (p : A -> bool) l, forallb p l = true -> Forall (fun x => p x = true) l.
Proof. intros A p l H. apply Forall_forall. rewrite forallb_forall in H. exact H. Qed.

Lemma wf_nodes_nodup : forall d, wf_data_b d = true -> nodup_nat (d_nodes d) = true.
Proof.
  intros d Hwf. unfold wf_data_b in Hwf.
  apply andb_true_iff in Hwf. destruct Hwf as [Hwf _]. apply andb_true_iff in Hwf. destruct Hwf as [Hwf _].
  apply andb_true_iff in Hwf. destruct Hwf as [Hwf _]. apply andb_true_iff in Hwf. destruct Hwf as [Hwf _].
  apply andb_true_iff in Hwf. destruct Hwf as [Hwf _]. apply andb_true_iff in Hwf. destruct Hwf as [Hwf _].
  apply andb_true_iff in Hwf. destruct Hwf as [Hwf _]. apply andb_true_iff in Hwf. destruct Hwf as [Hwf _].
  apply andb_true_iff in Hwf. destruct Hwf as [Hwf _]. exact Hwf.
Qed.

Lemma wf_rows_known : forall d n r, wf_data_b d = true -> In n (d_nodes d) -> In r (fp_of d n) ->
  memb (fp_node r) (d_nodes d) = true.
Proof.
  intros d n r Hwf Hn Hr. unfold wf_data_b in Hwf.
  apply andb_true_iff in Hwf. destruct Hwf as [Hwf _]. apply andb_true_iff in Hwf. destruct Hwf as [Hwf _].
  apply andb_true_iff in Hwf. destruct Hwf as [_ Hfp].
  unfold footpaths_ok in Hfp. rewrite forallb_forall in Hfp. specialize (Hfp n Hn).
  apply andb_true_iff in Hfp. destruct Hfp as [Hfp _]. apply andb_true_iff in Hfp. destruct Hfp as [Hfp _].
  apply andb_true_iff in Hfp. destruct Hfp as [Hfp _]. apply andb_true_iff in Hfp. destruct Hfp as [Hfp _].
  apply andb_true_iff in Hfp. destruct Hfp as [Hfp _]. apply andb_true_iff in Hfp. destruct Hfp as [Hfp _].
  apply andb_true_iff in Hfp. destruct Hfp as [Hrows _].
  unfold rows_ok in Hrows. rewrite forallb_forall in Hrows. specialize (Hrows r Hr).
  apply andb_true_iff in Hrows. destruct Hrows as [Hrows _]. apply andb_true_iff in Hrows. destruct Hrows as [Hrows _].
  apply andb_true_iff in Hrows. destruct Hrows as [Hrows _]. exact Hrows.
Qed.

Lemma wf_rows_nonneg : forall d n r, wf_data_b d = true -> In n (d_nodes d) -> In r (fp_of d n) -> 0 <= fp_time r.
Proof.
  intros d n r Hwf Hn Hr. unfold wf_data_b in Hwf.
  apply andb_true_iff in Hwf. destruct Hwf as [Hwf _]. apply andb_true_iff in Hwf. destruct Hwf as [Hwf _].
  apply andb_true_iff in Hwf. destruct Hwf as [_ Hfp].
  unfold footpaths_ok in Hfp. rewrite forallb_forall in Hfp. specialize (Hfp n Hn).
  apply andb_true_iff in Hfp. destruct Hfp as [Hfp _]. apply andb_true_iff in Hfp. destruct Hfp as [Hfp _].
  apply andb_true_iff in Hfp. destruct Hfp as [Hfp _]. apply andb_true_iff in Hfp. destruct Hfp as [Hfp _].
  apply andb_true_iff in Hfp. destruct Hfp as [Hfp _]. apply andb_true_iff in Hfp. destruct Hfp as [Hfp _].
  apply andb_true_iff in Hfp. destruct Hfp as [Hrows _].
  unfold rows_ok in Hrows. rewrite forallb_forall in Hrows. specialize (Hrows r Hr).
  apply andb_true_iff in Hrows. destruct Hrows as [Hrows _]. apply andb_true_iff in Hrows. destruct Hrows as [Hrows _].
  apply andb_true_iff in Hrows. destruct Hrows as [_ Htime]. apply Z.leb_le in Htime. exact Htime.
Qed.

Lemma wf_path_parts : forall d p, wf_data_b d = true -> In p (d_paths d) ->
  memb (p_line p) (map l_id (d_lines d)) = true /\ Forall (fun n => memb n (d_nodes d) = true) (p_nodes p).
Proof.
  intros d p Hwf Hp. unfold wf_data_b in Hwf.
  apply andb_true_iff in Hwf. destruct Hwf as [Hwf _]. apply andb_true_iff in Hwf. destruct Hwf as [_ Hpaths].
  rewrite forallb_forall in Hpaths. specialize (Hpaths p Hp).
  apply andb_true_iff in Hpaths. destruct Hpaths as [Hpaths _].
  apply andb_true_iff in Hpaths. destruct Hpaths as [Hline Hnodes].
  split; [|apply forallb_Forall; exact Hnodes].
  unfold find_line in Hline.
  destruct (find (fun x => Nat.eqb (l_id x) (p_line p)) (d_lines d)) as [ln|] eqn:Hfl; [|discriminate Hline].
  apply find_some_key in Hfl. destruct Hfl as [Hin Hid].
  apply memb_in. rewrite <- Hid. apply in_map. exact Hin.
Qed.

Record encodable (d : data) : Prop := {
  en_nodes : ssorted (d_nodes d);
  en_lines : ssorted (map l_id (d_lines d));
  en_paths : ssorted (map p_id (d_paths d));
  en_trips : ssorted (map t_id (d_trips d));
  en_scens : ssorted (map s_id (d_scenarios d));
  en_modes : forall l, In l (d_lines d) -> mode_known (l_mode l) = true;
  en_dists : forall p, In p (d_paths d) -> (length (p_dists p) <= length (p_nodes p))%nat;
  en_scen_refs : forall c, In c (d_scenarios d) ->
     sub_of (map l_id (d_lines d)) (s_onlyLines c) /\ sub_of (map l_id (d_lines d)) (s_exceptLines c) /\
     sub_of (d_nodes d) (s_onlyNodes c) /\ sub_of (d_nodes d) (s_exceptNodes c) /\
     Forall (fun k => mode_known k = true) (s_onlyModes c) /\ Forall (fun k => mode_known k = true) (s_exceptModes c) }.

Lemma encodable_b_true : forall d, encodable_b d = true -> encodable d.
Proof.
  intros d H. unfold encodable_b in H.
  apply andb_true_iff in H. destruct H as [H Hscen]. apply andb_true_iff in H. destruct H as [H Hdists].
  apply andb_true_iff in H. destruct H as [H Hmodes]. apply andb_true_iff in H. destruct H as [H Hs5].
  apply andb_true_iff in H. destruct H as [H Hs4]. apply andb_true_iff in H. destruct H as [H Hs3].
  apply andb_true_iff in H. destruct H as [Hs1 Hs2].
  constructor; try (apply ssorted_b_true; assumption).
  - intros l Hl. rewrite forallb_forall in Hmodes. exact (Hmodes l Hl).
  - intros p Hp. rewrite forallb_forall in Hdists. apply Nat.leb_le. exact (Hdists p Hp).
  - intros c Hc. rewrite forallb_forall in Hscen. specialize (Hscen c Hc).
    apply andb_true_iff in Hscen. destruct Hscen as [Hscen Hm]. apply andb_true_iff in Hscen. destruct Hscen as [Hl Hn].
    apply forallb_Forall in Hl. apply forallb_Forall in Hn. apply forallb_Forall in Hm.
    apply Forall_app in Hl. apply Forall_app in Hn. apply Forall_app in Hm. unfold sub_of. tauto.
Qed.

(* ---- the round trip --------------------------------------------------------------------------------------- *)
Definition mem_of (d : data) : mem :=
  {| mm_agencies := agencies_of d; mm_services := services_of d; mm_nodes := d_nodes d;
     mm_fp := map (fun n => (n, fp_of d n)) (d_nodes d);
     mm_rfp := map (fun n => (n, derive_rfp (d_nodes d) (fp_of d) n)) (d_nodes d);
     mm_lines := d_lines d; mm_paths := d_paths d; mm_scenarios := d_scenarios d; mm_trips := d_trips d |}.

Ltac esimpl :=
  cbn [encode_all f_nodes f_stop f_datasources f_agencies f_services f_lines f_paths f_scenarios f_line mem_empty
       mm_agencies mm_services mm_nodes mm_fp mm_rfp mm_lines mm_paths mm_scenarios mm_trips].

Theorem load_steps_roundtrip : forall d, wf_data_b d = true -> encodable d ->
  load_steps (encode_all d) = (mem_of d, false).
Proof.
  intros d Hwf Hen. unfold load_steps.
  (* stops *)
  unfold reload_nodes. esimpl.
  rewrite (load_nodes2_encode (d_nodes d) (fp_of d) (en_nodes d Hen) (wf_nodes_nodup d Hwf)
             (fun n r Hn Hr => wf_rows_known d n r Hwf Hn Hr) (fun n r Hn Hr => wf_rows_nonneg d n r Hwf Hn Hr)).
  cbn [rc_fatal]. unfold load_datasources, load_coll. esimpl. cbn [snd rc_fatal].
  (* agencies, services *)
  unfold reload_agencies. esimpl. rewrite (load_agencies_encode _ (agencies_of_sorted d)). cbn [rc_fatal].
  unfold reload_services. esimpl. rewrite (load_services_encode _ (services_of_sorted d)). cbn [rc_fatal].
  mem_simpl.
  (* lines *)
  unfold reload_lines. esimpl. mem_simpl.
  rewrite (load_lines_encode (agencies_of d) (d_lines d) (en_lines d Hen)).
  2:{ apply Forall_forall. intros l Hl. split; [exact (agencies_of_line d l Hl)|exact (en_modes d Hen l Hl)]. }
  cbn [rc_fatal].
  (* paths *)
  unfold reload_paths. esimpl. mem_simpl.
  rewrite (load_paths_encode (map l_id (d_lines d)) (d_nodes d) (d_paths d) (en_paths d Hen)).
  2:{ apply Forall_forall. intros p Hp. destruct (wf_path_parts d p Hwf Hp) as [Hl Hn].
      split; [exact Hl|]. split; [exact Hn|exact (en_dists d Hen p Hp)]. }
  cbn [rc_fatal].
  (* scenarios *)
  unfold reload_scenarios, scen_env_of. esimpl. mem_simpl.
  rewrite (load_scenarios_encode _ (d_scenarios d) (en_scens d Hen)).
  2:{ apply Forall_forall. intros c Hc. destruct (en_scen_refs d Hen c Hc) as [H1 [H2 [H3 [H4 [H5 H6]]]]].
      unfold scenario_ok. cbn [se_services se_lines se_agencies se_nodes].
      assert (Hsv : sub_of (services_of d) (s_services c)).
      { apply Forall_forall. intros a Ha. exact (services_of_scenario d c a Hc Ha). }
      assert (Ha1 : sub_of (agencies_of d) (s_onlyAgencies c)).
      { apply Forall_forall. intros a Ha. apply (agencies_of_scenario d c a Hc). apply in_or_app. left. exact Ha. }
      assert (Ha2 : sub_of (agencies_of d) (s_exceptAgencies c)).
      { apply Forall_forall. intros a Ha. apply (agencies_of_scenario d c a Hc). apply in_or_app. right. exact Ha. }
      tauto. }
  cbn [rc_fatal].
  (* schedules *)
  unfold reload_schedules. esimpl. mem_simpl.
  rewrite (trips_roundtrip d (services_of d) Hwf (en_trips d Hen) (services_of_trip d)).
  reflexivity.
Qed.

Lemma data_of_mem_of : forall d, data_of (mem_of d) = canon d.
Proof. reflexivity. Qed.

Definition nonempty_data_b (d : data) : bool :=
  nonnil (d_nodes d) && nonnil (d_lines d) && nonnil (d_paths d) && nonnil (d_scenarios d) && nonnil (d_trips d).

Lemma nonnil_true : forall (A : Type) (l : list A), nonnil l = true -> l <> [].
Proof. intros A l H. destruct l; [discriminate H|discriminate]. Qed.

Lemma memb_nonnil : forall x l, memb x l = true -> l <> [].
Proof. intros x l H. destruct l; [discriminate H|discriminate]. Qed.

Lemma mem_of_ready : forall d, nonempty_data_b d = true -> data_status (sizes_of (mem_of d)) = ST_READY.
Proof.
  intros d H. unfold nonempty_data_b in H.
  apply andb_true_iff in H. destruct H as [H Ht]. apply andb_true_iff in H. destruct H as [H Hc].
  apply andb_true_iff in H. destruct H as [H Hp]. apply andb_true_iff in H. destruct H as [Hn Hl].
  apply data_status_ready_iff. unfold sizes_of, mem_of.
  cbn [z_agencies z_services z_nodes z_lines z_paths z_scenarios z_trips mm_agencies mm_services mm_nodes mm_lines
       mm_paths mm_scenarios mm_trips].
  rewrite !length_zero_iff_nil.
  apply nonnil_true in Hn, Hp, Hc.
  assert (Hag : agencies_of d <> []).
  { destruct (d_lines d) as [|l r] eqn:Hls; [discriminate Hl|].
    apply (memb_nonnil (l_agency l)). apply agencies_of_line. rewrite Hls. left. reflexivity. }
  assert (Hsv : services_of d <> []).
  { destruct (d_trips d) as [|t r] eqn:Hts; [discriminate Ht|].
    apply (memb_nonnil (t_service t)). apply services_of_trip. rewrite Hts. left. reflexivity. }
  apply nonnil_true in Hl, Ht. tauto.
Qed.

(* C16, decoded level, whole start-up: healthy files encoding a well-formed dataset load back to the dataset itself —
   same stops, lines (agency, mode), paths (line, stops, distances), trips (path, service, stop times, flags; in trip-id
   order whatever the grouping by line file), scenarios (all nine lists as written) — with the footpath tables in the
   loader's layout (forward rows as written, reverse rows derived); the status is READY *)
Theorem load_all_roundtrip : forall d, wf_data_b d = true -> encodable_b d = true ->
  load_all (encode_all d) = (mem_of d, data_status (sizes_of (mem_of d))) /\
  data_of (fst (load_all (encode_all d))) = canon d /\
  snd (load_steps (encode_all d)) = false /\
  (nonempty_data_b d = true -> snd (load_all (encode_all d)) = ST_READY).
Proof.
  intros d Hwf Hen. apply encodable_b_true in Hen.
  pose proof (load_steps_roundtrip d Hwf Hen) as Hrt.
  unfold load_all. rewrite Hrt. cbn [fst snd].
  split; [reflexivity|]. split; [reflexivity|]. split; [reflexivity|].
  apply mem_of_ready.
Qed.

(* everything the router reads except the two footpath tables is untouched by the canonicalisation ... *)
Theorem canon_routing_data : forall d,
  d_nodes (canon d) = d_nodes d /\ d_lines (canon d) = d_lines d /\ d_paths (canon d) = d_paths d /\
  d_trips (canon d) = d_trips d /\ d_scenarios (canon d) = d_scenarios d /\
  all_conns (canon d) = all_conns d /\ sorted_fwd (canon d) = sorted_fwd d /\ sorted_rev (canon d) = sorted_rev d /\
  (forall s, conn_set (canon d) s = conn_set d s) /\
  (forall s, enabled_trips (canon d) s = enabled_trips d s) /\
  (forall sid, find_scenario (canon d) sid = find_scenario d sid).
Proof. intros d. repeat split; reflexivity. Qed.

Lemma assoc_map_key : forall (A : Type) (F : nat -> A) n l, In n l -> assoc n (map (fun k => (k, F k)) l) = Some (F n).
Proof.
  intros A F n. induction l as [|k r IHl]; intros Hin; [destruct Hin|].
  cbn [map assoc]. destruct (Nat.eqb n k) eqn:Hk.
  - apply Nat.eqb_eq in Hk. subst k. reflexivity.
  - destruct Hin as [Heq|Hin]; [subst k; rewrite Nat.eqb_refl in Hk; discriminate Hk|]. apply IHl. exact Hin.
Qed.

(* ... the forward footpaths of every stop are the dataset's, the reverse ones are derive_rfp, i.e. (LoaderProofs.
   derive_rfp_transpose) the transpose of the forward ones plus the self row, which is what wf_data_b asks of d_rfp *)
Theorem canon_footpaths : forall d n, In n (d_nodes d) ->
  fp_of (canon d) n = fp_of d n /\ rfp_of (canon d) n = derive_rfp (d_nodes d) (fp_of d) n.
Proof.
  intros d n Hin. unfold fp_of at 1. unfold rfp_of. cbn [canon d_fp d_rfp].
  rewrite (assoc_map_key _ (fp_of d) n _ Hin).
  rewrite (assoc_map_key _ (derive_rfp (d_nodes d) (fp_of d)) n _ Hin). split; reflexivity.
Qed.

(* a dataset already in the loader's layout is reproduced exactly *)
Corollary load_all_roundtrip_exact : forall d, wf_data_b d = true -> encodable_b d = true ->
  d_fp d = map (fun n => (n, fp_of d n)) (d_nodes d) ->
  d_rfp d = map (fun n => (n, derive_rfp (d_nodes d) (fp_of d) n)) (d_nodes d) ->
  data_of (fst (load_all (encode_all d))) = d.
Proof.
  intros d Hwf Hen Hfp Hrfp.
  destruct (load_all_roundtrip d Hwf Hen) as [_ [Hd _]]. rewrite Hd.
  unfold canon. rewrite <- Hfp, <- Hrfp. destruct d; reflexivity.
Qed.

(* ---------------------------------------------------------------------------------------------- *)
(* C. refresh                                                                                      *)

Lemma update_all_mem_fold : forall f l s,
  sv_mem (fold_left (fun s k => if selects CAll k then update_one f s k else s) l s)
  = fold_left (fun m k => reload_kind f k m) l (sv_mem s).
Proof.
  intros f. induction l as [|k r IHl]; intros s; [reflexivity|].
  cbn [fold_left selects]. rewrite IHl. reflexivity.
Qed.

(* /updateCache?names=all from ANY state: every collection is what the files now on disk give (no early return:
   return codes are ignored by the handler) *)
Theorem update_all_mem : forall f s, sv_mem (update f [CAll] s) = full_mem f.
Proof.
  intros f s. unfold update. cbn [fold_left]. unfold update_name.
  rewrite update_all_mem_fold. apply reload_chain_eq.
Qed.

Corollary update_all_load_full : forall f s, sv_mem (update f [CAll] s) = load_full f.
Proof. intros f s. rewrite load_full_eq. apply update_all_mem. Qed.

Lemma cut7 : forall m, cut 7 m = m.
Proof. intros m. destruct m; reflexivity. Qed.

Lemma no_read_error_stage : forall f, read_error f = false -> stop_stage f = 7%nat.
Proof.
  intros f H. unfold read_error in H. unfold stop_stage.
  apply orb_false_elim in H. destruct H as [H H7]. apply orb_false_elim in H. destruct H as [H H6].
  apply orb_false_elim in H. destruct H as [H H5]. apply orb_false_elim in H. destruct H as [H H4].
  apply orb_false_elim in H. destruct H as [H H3]. apply orb_false_elim in H. destruct H as [H1 H2].
  rewrite H1, H2, H3, H4, H5, H6, H7. reflexivity.
Qed.

(* the loader half of C15: when no file makes a loader return an error other than "missing", a refresh of all caches
   leaves exactly the state (collections and status) of a server freshly started on the files now on disk *)
Theorem update_all_is_restart : forall f s, snd (load_steps f) = false ->
  sv_mem (update f [CAll] s) = fst (load_all f) /\ status_of (update f [CAll] s) = snd (load_all f).
Proof.
  intros f s Hok.
  assert (Hm : sv_mem (update f [CAll] s) = fst (load_all f)).
  { rewrite update_all_mem. unfold load_all. cbn [fst]. rewrite load_steps_eq in Hok |- *. cbn [fst snd] in Hok |- *.
    rewrite (no_read_error_stage f Hok). rewrite cut7. reflexivity. }
  split; [exact Hm|]. unfold status_of. rewrite Hm. reflexivity.
Qed.

(* whatever the files hold, the refreshed state satisfies the no-dangling-identifier invariant *)
Theorem update_all_ok : forall f s, mem_ok (sv_mem (update f [CAll] s)).
Proof. intros f s. rewrite update_all_mem. apply full_mem_ok. Qed.

(* ---- C++ references after a refresh --------------------------------------------------------------------- *)
Definition holders_ge (i : nat) (l : list (kind * kind)) : Prop := Forall (fun p => (i <= kind_idx (fst p))%nat) l.

Lemma holds_refs_order : forall m h t, holds_refs m h t = true -> (kind_idx t < kind_idx h)%nat.
Proof.
  intros m h t H.
  destruct h; destruct t; cbn [holds_refs] in H; try discriminate H; cbn [kind_idx]; lia.
Qed.

Lemma kind_eqb_false_idx : forall a b, kind_eqb a b = false -> kind_idx a <> kind_idx b.
Proof. intros a b H. unfold kind_eqb in H. apply Nat.eqb_neq. exact H. Qed.

Lemma pmemb_holder : forall h t l i, pmemb (h, t) l = true -> holders_ge i l -> (i <= kind_idx h)%nat.
Proof.
  intros h t l i Hm Hge. unfold pmemb in Hm. apply existsb_exists in Hm. destruct Hm as [p [Hp Heq]].
  unfold pair_eqb in Heq. apply andb_true_iff in Heq. destruct Heq as [Heq _]. cbn [fst] in Heq.
  unfold kind_eqb in Heq. apply Nat.eqb_eq in Heq.
  unfold holders_ge in Hge. rewrite Forall_forall in Hge. specialize (Hge p Hp). lia.
Qed.

Lemma update_one_holders : forall f s k, holders_ge (kind_idx k) (sv_dangling s) ->
  holders_ge (S (kind_idx k)) (sv_dangling (update_one f s k)).
Proof.
  intros f s k Hge. unfold update_one. cbv zeta. cbn [sv_dangling]. unfold holders_ge.
  apply Forall_app. split; [|apply Forall_app; split].
  - apply Forall_forall. intros p Hp. apply filter_In in Hp. destruct Hp as [Hp Hne].
    apply negb_true_iff in Hne. apply kind_eqb_false_idx in Hne.
    unfold holders_ge in Hge. rewrite Forall_forall in Hge. specialize (Hge p Hp). lia.
  - apply Forall_forall. intros p Hp. apply in_map_iff in Hp. destruct Hp as [h [Hph Hh]]. subst p. cbn [fst].
    apply filter_In in Hh. destruct Hh as [_ Hh]. apply andb_true_iff in Hh. destruct Hh as [_ Hrefs].
    apply holds_refs_order in Hrefs. lia.
  - destruct k; try (apply Forall_nil).
    destruct (nonnil (mm_trips (reload_kind f KSchedules (sv_mem s)))); [|apply Forall_nil].
    apply Forall_app. split.
    + destruct (pmemb (KLines, KAgencies) (sv_dangling s)) eqn:Hm; [|apply Forall_nil].
      pose proof (pmemb_holder _ _ _ _ Hm Hge) as Hc. cbn [kind_idx] in Hc. lia.
    + destruct (pmemb (KPaths, KNodes) (sv_dangling s)) eqn:Hm; [|apply Forall_nil].
      pose proof (pmemb_holder _ _ _ _ Hm Hge) as Hc. cbn [kind_idx] in Hc. lia.
Qed.

Lemma holders_ge_0 : forall l, holders_ge 0 l.
Proof. intros l. unfold holders_ge. apply Forall_forall. intros p _. lia. Qed.

Lemma kind_idx_lt : forall k, (kind_idx k < 10)%nat.
Proof. intros k. destruct k; cbn [kind_idx]; lia. Qed.

(* after a refresh of ALL caches no object holds a reference to a destroyed object, whatever dangled before: every
   collection is rebuilt after the collections it refers to *)
Theorem update_all_no_dangling : forall f s, sv_dangling (update f [CAll] s) = [].
Proof.
  intros f s. unfold update. cbn [fold_left]. unfold update_name, handler_order. cbn [fold_left selects].
  pose proof (holders_ge_0 (sv_dangling s)) as H0.
  apply (update_one_holders f s KDataSources) in H0.
  apply (update_one_holders f _ KPersons) in H0.
  apply (update_one_holders f _ KOdTrips) in H0.
  apply (update_one_holders f _ KAgencies) in H0.
  apply (update_one_holders f _ KServices) in H0.
  apply (update_one_holders f _ KNodes) in H0.
  apply (update_one_holders f _ KLines) in H0.
  apply (update_one_holders f _ KPaths) in H0.
  apply (update_one_holders f _ KScenarios) in H0.
  apply (update_one_holders f _ KSchedules) in H0.
  cbn [kind_idx] in H0.
  match goal with |- sv_dangling ?x = [] => destruct (sv_dangling x) as [|p r] eqn:Hd end; [reflexivity|].
  exfalso. unfold holders_ge in H0. inversion H0 as [|p' r' Hp Hr]; subst p' r'.
  pose proof (kind_idx_lt (fst p)) as Hlt. lia.
Qed.

Corollary update_all_refs_safe : forall f s, refs_safe (update f [CAll] s) = true.
Proof. intros f s. unfold refs_safe. rewrite update_all_no_dangling. reflexivity. Qed.

(* ---- refresh of the schedules alone, or with the scenarios (the other two cases of C15) ---------------------- *)
Definition with_lines (f : fs) (g : nat -> fstate (list sched_msg)) : fs :=
  {| f_nodes := f_nodes f; f_stop := f_stop f; f_datasources := f_datasources f; f_agencies := f_agencies f;
     f_services := f_services f; f_lines := f_lines f; f_paths := f_paths f; f_scenarios := f_scenarios f; f_line := g |}.
Definition with_scen_lines (f : fs) (sc : fstate (list scenario_msg)) (g : nat -> fstate (list sched_msg)) : fs :=
  {| f_nodes := f_nodes f; f_stop := f_stop f; f_datasources := f_datasources f; f_agencies := f_agencies f;
     f_services := f_services f; f_lines := f_lines f; f_paths := f_paths f; f_scenarios := sc; f_line := g |}.

Ltac upd_simpl :=
  cbn [fold_left selects kind_eqb kind_idx Nat.eqb filter map negb andb orb holds_refs fst snd app pmemb pair_eqb existsb
       sv_mem sv_dangling reload_kind].

Lemma if_same_nil : forall (A : Type) (b : bool), (if b then @nil A else []) = [].
Proof. intros A b. destruct b; reflexivity. Qed.

(* a server whose state is the load of files f0, after the line files changed to g and /updateCache?names=schedules:
   exactly the state of a load of the new files, and nothing dangles *)
Theorem update_schedules_is_reload : forall f0 g s, sv_mem s = full_mem f0 -> sv_dangling s = [] ->
  update (with_lines f0 g) [CName KSchedules] s = {| sv_mem := full_mem (with_lines f0 g); sv_dangling := [] |}.
Proof.
  intros f0 g [m dg] Hm Hd. cbn [sv_mem sv_dangling] in Hm, Hd. subst m dg.
  unfold update, update_name, handler_order. upd_simpl.
  unfold update_one. cbv zeta. upd_simpl. rewrite if_same_nil. reflexivity.
Qed.

Theorem update_scenarios_schedules_is_reload : forall f0 sc g s, sv_mem s = full_mem f0 -> sv_dangling s = [] ->
  update (with_scen_lines f0 sc g) [CName KScenarios; CName KSchedules] s
  = {| sv_mem := full_mem (with_scen_lines f0 sc g); sv_dangling := [] |}.
Proof.
  intros f0 sc g [m dg] Hm Hd. cbn [sv_mem sv_dangling] in Hm, Hd. subst m dg.
  unfold update, update_name, handler_order. upd_simpl.
  unfold update_one. cbv zeta. upd_simpl. rewrite if_same_nil.
  rewrite fst_reload_scenarios. reflexivity.
Qed.

Theorem update_schedules_scenarios_is_reload : forall f0 sc g s, sv_mem s = full_mem f0 -> sv_dangling s = [] ->
  update (with_scen_lines f0 sc g) [CName KSchedules; CName KScenarios] s
  = {| sv_mem := full_mem (with_scen_lines f0 sc g); sv_dangling := [] |}.
Proof.
  intros f0 sc g [m dg] Hm Hd. cbn [sv_mem sv_dangling] in Hm, Hd. subst m dg.
  unfold update, update_name, handler_order. upd_simpl.
  unfold update_one. cbv zeta. upd_simpl. rewrite if_same_nil.
  rewrite fst_reload_scenarios. reflexivity.
Qed.

(* ---------------------------------------------------------------------------------------------- *)
(* D. non-vacuity: the statements above on Examples.ex_data, by computation                        *)

Definition exd : data := Examples.ex_data.
Definition exf : fs := encode_all exd.

Example ex_hypotheses : wf_data_b exd = true /\ encodable_b exd = true /\ nonempty_data_b exd = true.
Proof. vm_compute. auto. Qed.

Example ex_roundtrip : load_all exf = (mem_of exd, ST_READY) /\ data_of (fst (load_all exf)) = canon exd.
Proof. vm_compute. auto. Qed.

Example ex_roundtrip_connset : conn_set (data_of (fst (load_all exf))) scen_all = conn_set exd scen_all.
Proof. vm_compute. reflexivity. Qed.

(* the loaded data answers the example query of Examples.v like the dataset *)
Example ex_roundtrip_route :
  calc_single (data_of (fst (load_all exf))) (conn_set (data_of (fst (load_all exf))) scen_all) (ex_params true 35000) ex_acc ex_egr true
  = calc_single exd ex_cs (ex_params true 35000) ex_acc ex_egr true.
Proof. vm_compute. reflexivity. Qed.

Definition set_f_lines (f : fs) (x : fstate (list line_msg)) : fs :=
  {| f_nodes := f_nodes f; f_stop := f_stop f; f_datasources := f_datasources f; f_agencies := f_agencies f;
     f_services := f_services f; f_lines := x; f_paths := f_paths f; f_scenarios := f_scenarios f; f_line := f_line f |}.
Definition set_f_scenarios (f : fs) (x : fstate (list scenario_msg)) : fs :=
  {| f_nodes := f_nodes f; f_stop := f_stop f; f_datasources := f_datasources f; f_agencies := f_agencies f;
     f_services := f_services f; f_lines := f_lines f; f_paths := f_paths f; f_scenarios := x; f_line := f_line f |}.
Definition set_f_paths (f : fs) (x : fstate (list path_msg)) : fs :=
  {| f_nodes := f_nodes f; f_stop := f_stop f; f_datasources := f_datasources f; f_agencies := f_agencies f;
     f_services := f_services f; f_lines := f_lines f; f_paths := x; f_scenarios := f_scenarios f; f_line := f_line f |}.
Definition fresh_srv : srv := {| sv_mem := mem_empty; sv_dangling := [] |}.
Definition loaded_srv : srv := {| sv_mem := fst (load_all exf); sv_dangling := [] |}.

(* every file missing: no read error (ENOENT is ignored), status NO_AGENCIES *)
Definition f_nothing : fs :=
  {| f_nodes := FMissing; f_stop := fun _ => FMissing; f_datasources := FMissing; f_agencies := FMissing; f_services := FMissing;
     f_lines := FMissing; f_paths := FMissing; f_scenarios := FMissing; f_line := fun _ => FMissing |}.
Example ex_all_missing : load_steps f_nothing = (mem_empty, false) /\ snd (load_all f_nothing) = ST_NO_AGENCIES.
Proof. vm_compute. auto. Qed.

(* a line naming an unknown agency (std::out_of_range from agencies.at, caught): -EINVAL, the lines before it stay,
   loadAllData stops: NO_PATHS when the first line survived, NO_LINES when none did *)
Example ex_line_unknown_agency :
  let f := set_f_lines exf (FDecoded [encode_line {| l_id := 1; l_agency := 1; l_mode := 1 |};
                                      encode_line {| l_id := 2; l_agency := 99; l_mode := 1 |}]) in
  snd (load_lines [1%nat] (f_lines f)) = RC_EINVAL /\ snd (load_steps f) = true /\
  map l_id (mm_lines (fst (load_all f))) = [1%nat] /\ mm_paths (fst (load_all f)) = [] /\ snd (load_all f) = ST_NO_PATHS.
Proof. vm_compute. auto. Qed.

Example ex_line_unknown_mode :
  let f := set_f_lines exf (FDecoded [encode_line {| l_id := 1; l_agency := 1; l_mode := 15 |}]) in
  snd (load_steps f) = true /\ snd (load_all f) = ST_NO_LINES.
Proof. vm_compute. auto. Qed.

(* a path naming an unknown stop *)
Example ex_path_unknown_stop :
  let f := set_f_paths exf (FDecoded [encode_path {| p_id := 1; p_line := 1; p_nodes := [1; 9]%nat; p_dists := [5] |}]) in
  snd (load_steps f) = true /\ snd (load_all f) = ST_NO_PATHS.
Proof. vm_compute. auto. Qed.

(* segment distances are pushed only when present: 3 stops, distances null / 7 / absent *)
Example ex_path_sparse_dists :
  let m := {| pm_id := Some 1%nat; pm_line := Some 1%nat; pm_nodes := enc_uref_list [1; 2; 3]%nat;
              pm_segs := Some [SNull; SDist 7] |} in
  fst (load_paths [1%nat] [1; 2; 3]%nat (FDecoded [m])) = [{| p_id := 1; p_line := 1; p_nodes := [1; 2; 3]%nat; p_dists := [7] |}].
Proof. vm_compute. reflexivity. Qed.

(* REFRESH IS NOT RESTART on a corrupt file: lines file garbled after its first entry.  A restart stops at the lines
   (DATA_READ_ERROR) and answers NO_PATHS; /updateCache?names=all ignores the return code, goes on and ends READY on
   the half of the network that survived (one line, one path, one trip) *)
Definition f_garbled_lines : fs := set_f_lines exf (FGarbled [encode_line {| l_id := 1; l_agency := 1; l_mode := 1 |}]).
Example ex_refresh_differs_from_restart :
  snd (load_steps f_garbled_lines) = true /\ snd (load_all f_garbled_lines) = ST_NO_PATHS /\
  status_of (update f_garbled_lines [CAll] fresh_srv) = ST_READY /\
  map t_id (mm_trips (sv_mem (update f_garbled_lines [CAll] fresh_srv))) = [1%nat] /\
  sv_mem (update f_garbled_lines [CAll] fresh_srv) <> fst (load_all f_garbled_lines).
Proof. vm_compute. repeat split; try reflexivity. intros H. discriminate H. Qed.

(* a scenario with an unparsable uuid in one of its lists: the scenario was inserted before the lists were read and STAYS,
   with the lists assigned so far; the later lists (here: the exclusion of line 2) are lost.  A restart stops there
   (NO_SCHEDULES); after a refresh the scenario is served, wider than written.  (Were the services list the one left empty,
   the request layer would answer EMPTY_SCENARIO: common_parameters.cpp:180.) *)
Definition bad_scenario_msg : scenario_msg :=
  {| cm_id := Some 1%nat; cm_sim_ok := true; cm_services := enc_uref_list [1%nat];
     cm_onlyLines := []; cm_onlyAgencies := [None]; cm_onlyNodes := []; cm_onlyModes := [];
     cm_exceptLines := enc_uref_list [2%nat]; cm_exceptAgencies := []; cm_exceptNodes := []; cm_exceptModes := [] |}.
Definition f_bad_scenario : fs := set_f_scenarios exf (FDecoded [bad_scenario_msg]).
Example ex_half_filled_scenario :
  load_scenarios {| se_services := [1%nat]; se_lines := [1; 2]%nat; se_agencies := [1%nat]; se_nodes := [1; 2; 3; 4]%nat |}
                 (f_scenarios f_bad_scenario) = ([scen_all], RC_EINVAL) /\
  snd (load_all f_bad_scenario) = ST_NO_SCHEDULES /\
  status_of (update f_bad_scenario [CAll] fresh_srv) = ST_READY /\
  mm_scenarios (sv_mem (update f_bad_scenario [CAll] fresh_srv)) = [scen_all] /\
  enabled_trips (data_of (sv_mem (update f_bad_scenario [CAll] fresh_srv))) scen_all = [1; 2; 3]%nat.
Proof. vm_compute. repeat split; reflexivity. Qed.

(* ids unknown to the loaded collections are dropped from scenario lists; a scenario restricted to one unknown line
   therefore loads UNRESTRICTED (an empty list means "no restriction": Data.only_ok) *)
Example ex_unknown_line_dropped :
  let m := {| cm_id := Some 1%nat; cm_sim_ok := true; cm_services := enc_uref_list [1%nat];
              cm_onlyLines := enc_uref_list [77%nat]; cm_onlyAgencies := []; cm_onlyNodes := []; cm_onlyModes := [];
              cm_exceptLines := []; cm_exceptAgencies := []; cm_exceptNodes := []; cm_exceptModes := [] |} in
  let f := set_f_scenarios exf (FDecoded [m]) in
  snd (load_all f) = ST_READY /\ mm_scenarios (fst (load_all f)) = [scen_all] /\
  enabled_trips (data_of (fst (load_all f))) scen_all = [1; 2; 3]%nat.
Proof. vm_compute. repeat split; reflexivity. Qed.

(* PARTIAL REFRESH: /updateCache?names=agencies destroys the Agency objects the lines and trips refer to *)
Example ex_partial_refresh_dangles :
  sv_dangling (update exf [CName KAgencies] loaded_srv) = [(KLines, KAgencies); (KSchedules, KAgencies)] /\
  refs_safe (update exf [CName KAgencies] loaded_srv) = false /\
  sv_mem (update exf [CName KAgencies] loaded_srv) = sv_mem loaded_srv /\
  refs_safe (update exf [CName KLines; CName KAgencies] loaded_srv) = false /\
  refs_safe (update exf [CName KNodes] loaded_srv) = false /\
  refs_safe (update exf [CName KSchedules] loaded_srv) = true /\
  refs_safe (update exf [CName KScenarios; CName KSchedules] loaded_srv) = true /\
  refs_safe (update exf [CName KAgencies; CAll] loaded_srv) = true.
Proof. vm_compute. repeat split; reflexivity. Qed.

(* duplicate trip uuid across line files: trips.emplace keeps the first trip *)
Example ex_duplicate_trip_first_wins :
  map t_times (trips_map [ {| t_id := 5; t_path := 1; t_service := 1; t_times := [st 1 1; st 2 2] |};
                           {| t_id := 5; t_path := 2; t_service := 1; t_times := [st 7 7; st 8 8] |} ])
  = [[st 1 1; st 2 2]].
Proof. vm_compute. reflexivity. Qed.


(* ---- consistency of the line files (where the C++ state is a Data.data) ------------------------------------- *)
Lemma nodup_ids_of_NoDup : forall l, NoDup l -> nodup_ids l = true.
Proof.
  induction l as [|x r IHl]; intros Hnd; [reflexivity|].
  inversion Hnd as [|x' r' Hx Hr]; subst x' r'. cbn [nodup_ids].
  rewrite (IHl Hr). rewrite andb_true_r. apply negb_true_iff.
  destruct (memb x r) eqn:Hm; [|reflexivity]. exfalso. apply Hx. apply memb_true_in. exact Hm.
Qed.

Lemma NoDup_map_filter : forall (A : Type) (kf : A -> nat) (p : A -> bool) l, NoDup (map kf l) -> NoDup (map kf (filter p l)).
Proof.
  intros A kf p. induction l as [|x r IHl]; intros Hnd; [constructor|].
  cbn [map] in Hnd. inversion Hnd as [|x' r' Hx Hr]; subst x' r'. cbn [filter].
  destruct (p x); [|apply IHl; exact Hr].
  cbn [map]. constructor; [|apply IHl; exact Hr].
  intros Hin. apply Hx. apply in_map_iff in Hin. destruct Hin as [y [Hk Hy]].
  apply filter_In in Hy. rewrite <- Hk. apply in_map. exact (proj1 Hy).
Qed.

Lemma NoDup_app_intro : forall (A : Type) (l1 l2 : list A), NoDup l1 -> NoDup l2 ->
  (forall x, In x l1 -> In x l2 -> False) -> NoDup (l1 ++ l2).
Proof.
  intros A. induction l1 as [|a l1 IHl]; intros l2 H1 H2 Hdis; [exact H2|].
  inversion H1 as [|a' l1' Ha Hl1]; subst a' l1'. cbn [app]. constructor.
  - intros Hin. apply in_app_or in Hin. destruct Hin as [Hin|Hin]; [exact (Ha Hin)|].
    apply (Hdis a); [left; reflexivity|exact Hin].
  - apply IHl; [exact Hl1|exact H2|]. intros x Hx1 Hx2. apply (Hdis x); [right; exact Hx1|exact Hx2].
Qed.

Lemma grouped_ids_nodup : forall (ts : list trip) (tl : trip -> nat) (lines : list line),
  ssorted (map t_id ts) -> NoDup (map l_id lines) ->
  NoDup (map t_id (flat_map (fun ln => filter (fun t => Nat.eqb (tl t) (l_id ln)) ts) lines)).
Proof.
  intros ts tl lines Hs. induction lines as [|ln rest IHl]; intros Hnd; [constructor|].
  cbn [map] in Hnd. inversion Hnd as [|x' r' Hx Hr]; subst x' r'.
  cbn [flat_map]. rewrite map_app. apply NoDup_app_intro.
  - apply NoDup_map_filter. apply ssorted_nodup. exact Hs.
  - apply IHl. exact Hr.
  - intros k Hk1 Hk2.
    apply in_map_iff in Hk1. destruct Hk1 as [t1 [Hid1 Ht1]]. apply filter_In in Ht1. destruct Ht1 as [Hin1 Hl1].
    apply in_map_iff in Hk2. destruct Hk2 as [t2 [Hid2 Ht2]]. apply in_flat_map in Ht2. destruct Ht2 as [ln2 [Hln2 Ht2]].
    apply filter_In in Ht2. destruct Ht2 as [Hin2 Hl2].
    assert (Heq : t1 = t2) by (apply (ssorted_keys_inj trip t_id ts t1 t2 Hs Hin1 Hin2); congruence).
    subst t2. apply Nat.eqb_eq in Hl1, Hl2. apply Hx. rewrite <- Hl1, Hl2. apply in_map. exact Hln2.
Qed.

Lemma tagged_ids : forall (ts : list trip) (tl : trip -> nat) (lines : list line),
  map (fun lt : nat * trip => t_id (snd lt))
      (flat_map (fun ln => map (fun t => (l_id ln, t)) (filter (fun t => Nat.eqb (tl t) (l_id ln)) ts)) lines)
  = map t_id (flat_map (fun ln => filter (fun t => Nat.eqb (tl t) (l_id ln)) ts) lines).
Proof.
  intros ts tl. induction lines as [|ln rest IHl]; [reflexivity|].
  cbn [flat_map]. rewrite !map_app. rewrite IHl. f_equal. rewrite map_map. reflexivity.
Qed.

(* healthy files encoding a well-formed dataset are consistent: every trip sits in the file of the line of its path and
   no trip uuid is repeated — so for them the C++ state IS the dataset the model computes *)
Theorem encode_all_schedules_consistent : forall d, wf_data_b d = true -> encodable_b d = true ->
  schedules_consistent (d_paths d)
    (load_schedules_tagged (d_lines d) (d_paths d) (services_of d) (f_line (encode_all d))) = true.
Proof.
  intros d Hwf Hen. apply encodable_b_true in Hen.
  assert (Htag : load_schedules_tagged (d_lines d) (d_paths d) (services_of d) (f_line (encode_all d))
                 = flat_map (fun ln => map (fun t => (l_id ln, t)) (filter (fun t => Nat.eqb (trip_line d t) (l_id ln)) (d_trips d)))
                            (d_lines d)).
  { unfold load_schedules_tagged. apply flat_map_ext. intros ln. f_equal. cbn [encode_all f_line].
    unfold load_line_file, encode_line_file.
    rewrite (load_scheds_encode_sup d (services_of d) _ [] Hwf); [reflexivity| |exact (services_of_trip d)].
    intros t Hin. apply filter_In in Hin. exact (proj1 Hin). }
  rewrite Htag. unfold schedules_consistent. apply andb_true_iff. split.
  - apply nodup_ids_of_NoDup.
    rewrite tagged_ids.
    apply grouped_ids_nodup; [exact (en_trips d Hen)|apply ssorted_nodup; exact (en_lines d Hen)].
  - apply forallb_forall. intros [l t] Hin. cbn [fst snd].
    apply in_flat_map in Hin. destruct Hin as [ln [_ Hin]]. apply in_map_iff in Hin. destruct Hin as [t' [Heq Ht']].
    injection Heq as Hl Ht. subst l t'. apply filter_In in Ht'. destruct Ht' as [Hin Hline].
    destruct (wf_trip_path d t Hwf Hin) as [p [Hfind _]]. unfold find_path in Hfind. rewrite Hfind.
    unfold trip_line, find_path in Hline. rewrite Hfind in Hline. exact Hline.
Qed.

(* a trip stored in the file of ANOTHER line than the line of its path is loaded without complaint.  The C++ Trip then
   carries the line / agency / mode of the FILE's line (trips_and_connections_cache_fetcher.cpp:105-109), whereas
   Data.trip_line reads the line through the path: on such files the model's scenario filtering by line / agency / mode
   and the reported line of a leg follow the path, the implementation follows the file.  The two agree whenever every
   line file only holds trips whose path belongs to that line (true of encode_all: load_all_roundtrip). *)
Example ex_trip_in_foreign_line_file :
  let files := fun l => match l with
                        | 1%nat => FDecoded [ {| sm_service := Some 1%nat;
                                                 sm_trips := [encode_trip {| t_id := 2; t_path := 2; t_service := 1;
                                                                             t_times := [st 36400 36400; st 36700 36700] |}] |} ]
                        | _ => FMissing
                        end in
  let ts := load_schedules (d_lines exd) (d_paths exd) [1%nat] files in
  map t_id ts = [2%nat] /\ map (trip_line exd) ts = [2%nat] /\
  load_schedules_tagged (d_lines exd) (d_paths exd) [1%nat] files = map (fun t => (1%nat, t)) ts /\
  schedules_consistent (d_paths exd) (load_schedules_tagged (d_lines exd) (d_paths exd) [1%nat] files) = false.
Proof. vm_compute. auto. Qed.

Example ex_consistent : schedules_consistent (d_paths exd)
  (load_schedules_tagged (d_lines exd) (d_paths exd) (services_of exd) (f_line exf)) = true.
Proof. vm_compute. reflexivity. Qed.

(* ---------------------------------------------------------------------------------------------- *)
(* OPEN / limits of what is proved here

   OPEN: "refresh of all caches = restart" for files on which some loader returns -EBADMSG / -EINVAL / -errno — FALSE of the
         model (ex_refresh_differs_from_restart) and of the C++ (the handler ignores the return codes, loadAllData stops at
         the first one); proved only under snd (load_steps f) = false (update_all_is_restart).
   OPEN: routing equivalence between d and canon d beyond the connection sets: canon d differs from d in d_rfp (derived
         reverse rows, with one extra self row per stop); what is proved is canon_footpaths + LoaderProofs.derive_rfp_transpose
         (same rows up to multiplicity and order, as wf_data_b demands), not equality of calc_single on the two (checked by
         computation on ex_data only: ex_roundtrip_route).
   OPEN: duplicate trip uuids across line files: trips_map keeps the first trip (as trips.emplace does), but the C++ ALSO appends
         the connections built from the later entry's times to the connection vector, attached to the first Trip object
         (trips_and_connections_cache_fetcher.cpp:105-141); Data.all_conns has no such connections.  Everything above that
         mentions connections (mem_ok_conns_safe, canon_routing_data) is about datasets, i.e. holds of the C++ only when the
         loaded trip uuids are distinct.
   OPEN: trip line taken from the file's line in the C++, from the path in Data.v (ex_trip_in_foreign_line_file).
         Both divergences are excluded by Loader2.schedules_consistent, which holds of every encode_all d
         (encode_all_schedules_consistent); nothing is proved about the C++ state when it is false (both were observed on
         the real binary: the reply names the file's line, and a repeated trip uuid rides the later entry's times).
   NOT MODELLED: persons / odTrips loaders; byte level (Cap'n Proto packing, traversal limits) — FGarbled stands for any
         kj::Exception; per-stop files whose three arrays have different lengths (Loader.fp_msg zips them: with the bounds
         checks of a non-NDEBUG capnp build the short array raises kj::Exception = FGarbled, with NDEBUG it is an out-of-bounds
         read, nodes_cache_fetcher.cpp:146-147). *)

Print Assumptions full_mem_ok.
Print Assumptions load_all_ok.
Print Assumptions mem_ok_trip_resolves.
Print Assumptions mem_ok_conns_safe.
Print Assumptions mem_ok_path_resolves.
Print Assumptions mem_ok_footpaths_known.
Print Assumptions startup_not_bad.
Print Assumptions load_all_status_documented.
Print Assumptions load_all_status_ready_iff.
Print Assumptions load_all_status_names_first_empty.
Print Assumptions read_error_not_ready.
Print Assumptions load_steps_eq.
Print Assumptions load_steps_roundtrip.
Print Assumptions load_all_roundtrip.
Print Assumptions canon_routing_data.
Print Assumptions canon_footpaths.
Print Assumptions load_all_roundtrip_exact.
Print Assumptions update_all_mem.
Print Assumptions update_all_is_restart.
Print Assumptions update_all_ok.
Print Assumptions update_all_no_dangling.
Print Assumptions update_schedules_is_reload.
Print Assumptions update_scenarios_schedules_is_reload.
Print Assumptions update_schedules_scenarios_is_reload.
Print Assumptions encode_all_schedules_consistent.
Print Assumptions ex_refresh_differs_from_restart.
Print Assumptions ex_partial_refresh_dangles.
