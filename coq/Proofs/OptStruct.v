(* Proofs/OptStruct.v — optimizeJourney is total (neither OptUB nor OptHang) on STRUCTURALLY valid journeys:

   OptTotal.optimize_total needs  wf_data_b d  and  journey_ok_b d s p acc egr bestdep js  (a fully valid itinerary:
   admitted trips, boarding / alighting allowed, every transfer a forward footpath row of the data or a zero walk at the
   same stop, all clock conditions).  Data loaded from arbitrary files violates both (LoadedLoops.v, part C).  The
   termination argument itself needs much less:

     data     distinct trip ids; times_monotone d (Termination.v); the arrival stop of every connection in d_nodes
     journey  every element is a walk (no connections) or a ride located in its trip's connection list:
              enter at position kb, exit at position ke of the same trip, kb <= ke, js_trip naming that trip   (sjs)

   The index computations (between_nodes / leg_range) are then total, every detected case finds the connection it looks
   for, every rewrite keeps the structure, and OptTotal's measure decreases.  Same fuel bound as OptTotal. *)
From Coq Require Import List ZArith Bool Arith Lia Sorted.
From TrV Require Import Spec Proofs.SortFilter Proofs.RevInv Proofs.Termination Proofs.EmitValid Proofs.Rewrites Proofs.OptTotal.
Import ListNotations.
Local Open Scope Z_scope.

Definition conn_to_known (d : data) : Prop := forall c, In c (all_conns d) -> In (c_to c) (d_nodes d).

Section Struct.
  Variable d : data.
  Hypothesis Hnd : nodup_nat (map t_id (d_trips d)) = true.
  Hypothesis Hmono : times_monotone d.
  Hypothesis Hnodes : conn_to_known d.

  (* ---- the per-trip lists ---- *)

  Lemma at_pos_all : forall t tr k c, find_trip d t = Some tr -> at_pos d tr k c -> In c (all_conns d).
  Proof.
    intros t tr k c Ft H. destruct (Rewrites.find_trip_some d t tr Ft) as [Hin _].
    unfold all_conns. apply in_flat_map. exists tr. split; [exact Hin|].
    unfold at_pos in H. apply nth_error_In in H. exact H.
  Qed.

  Lemma at_pos_times_mono : forall t tr k1 k2 c1 c2, find_trip d t = Some tr ->
    at_pos d tr k1 c1 -> at_pos d tr k2 c2 -> (k1 < k2)%nat ->
    c_dep c1 <= c_dep c2 /\ c_arr c1 <= c_arr c2.
  Proof.
    intros t tr k1 k2 c1 c2 Ft H1 H2 Hlt.
    pose proof (at_pos_all t tr k1 c1 Ft H1) as A1. pose proof (at_pos_all t tr k2 c2 Ft H2) as A2.
    destruct (at_pos_basic d tr k1 c1 H1) as [T1 S1]. destruct (at_pos_basic d tr k2 c2 H2) as [T2 S2].
    destruct Hmono as [M1 M2].
    pose proof (M2 c1 c2 A1 A2 ltac:(congruence) ltac:(lia)) as X.
    pose proof (M1 c1 c1 A1 A1 eq_refl (le_n _)) as Y1.
    pose proof (M1 c2 c2 A2 A2 eq_refl (le_n _)) as Y2.
    lia.
  Qed.

  Lemma filter_trip_all_conns_s : forall t tr, find_trip d t = Some tr ->
    filter (fun c => Nat.eqb (c_trip c) t) (all_conns d) = trip_conns d tr.
  Proof.
    intros t tr Ft. unfold all_conns.
    rewrite (filter_flat_map_sel (fun c => Nat.eqb (c_trip c) t) (fun x => Nat.eqb (t_id x) t)).
    - unfold find_trip in Ft. rewrite (filter_unique_trip _ t tr Hnd Ft).
      cbn [flat_map]. apply app_nil_r.
    - intros t' _ c Hc. rewrite (trip_conns_trip d t' c Hc). reflexivity.
  Qed.

  Lemma trip_fwd_eq_s : forall t tr, find_trip d t = Some tr -> trip_fwd d t = trip_conns d tr.
  Proof.
    intros t tr Ft. unfold trip_fwd, sorted_fwd.
    rewrite filter_isort_fwd, (filter_trip_all_conns_s t tr Ft).
    apply isort_sorted_id. apply nth_pairs_sorted. intros i j a b Hij Ha Hb.
    destruct (at_pos_basic d tr i a Ha) as [Ta Sa]. destruct (at_pos_basic d tr j b Hb) as [Tb Sb].
    destruct (at_pos_times_mono t tr i j a b Ft Ha Hb Hij) as (Hd & _).
    apply fwd_lt_asym. apply fwd_lt_iff. lia.
  Qed.

  Lemma trip_rev_eq_s : forall t tr, find_trip d t = Some tr -> trip_rev d t = rev (trip_conns d tr).
  Proof.
    intros t tr Ft. unfold trip_rev, sorted_rev.
    rewrite filter_isort_rev, (filter_trip_all_conns_s t tr Ft).
    apply isort_sorted_rev. apply nth_pairs_sorted. intros i j a b Hij Ha Hb.
    destruct (at_pos_basic d tr i a Ha) as [Ta Sa]. destruct (at_pos_basic d tr j b Hb) as [Tb Sb].
    destruct (at_pos_times_mono t tr i j a b Ft Ha Hb Hij) as (_ & Harr).
    apply rev_lt_iff. lia.
  Qed.

  (* ---- a ride located in its trip ---- *)

  Definition sleg (j : jstep) (b e : conn) (t : nat) (tr : trip) (kb ke : nat) : Prop :=
    js_enter j = Some b /\ js_exit j = Some e /\ js_trip j = Some t /\ find_trip d t = Some tr /\
    at_pos d tr kb b /\ at_pos d tr ke e /\ (kb <= ke)%nat.

  Definition selem (j : jstep) : Prop := is_walk j = true \/ exists b e t tr kb ke, sleg j b e t tr kb ke.
  Definition sjs (js : list jstep) : Prop := Forall selem js.

  Lemma leg_summary_sleg : forall j b e t tr kb ke, sleg j b e t tr kb ke ->
    exists sj, leg_summary d j = Some (Some sj) /\
      forall X, In X (ls_between sj) ->
        exists k c, (kb < k <= ke)%nat /\ at_pos d tr k c /\ c_from c = X /\ X <> c_to e.
  Proof.
    intros j b e t tr kb ke (Hb & He & Ht & Ft & Pb & Pe & Hk).
    destruct (at_pos_basic d tr kb b Pb) as [_ Sb]. destruct (at_pos_basic d tr ke e Pe) as [_ Se].
    pose proof (at_pos_len d tr ke e Pe) as Hlen.
    unfold leg_summary. rewrite Ht, Hb, He. cbv zeta.
    rewrite (trip_fwd_eq_s t tr Ft), Sb, Se.
    replace (S kb - 1)%nat with kb by lia. replace (S ke - 1)%nat with ke by lia.
    destruct (between_nodes_total (trip_conns d tr) (ke - kb) (S kb) (c_from b) (c_to e) ltac:(lia)) as [r Hr].
    rewrite Hr. eexists. split; [reflexivity|].
    cbn [ls_between]. intros X HX.
    destruct (between_nodes_in _ _ _ _ _ _ _ Hr HX) as (k & c & Hkr & Hc & Hfrom & _ & Hlast).
    exists k, c. split; [lia|]. auto.
  Qed.

  Lemma leg_range_sleg : forall j b e t tr kb ke, sleg j b e t tr kb ke ->
    exists rng, leg_range d j = Some rng /\
                (forall k c, (kb <= k <= ke)%nat -> at_pos d tr k c -> In c rng) /\
                (forall c, In c rng -> exists k, (kb <= k <= ke)%nat /\ at_pos d tr k c).
  Proof.
    intros j b e t tr kb ke (Hb & He & Ht & Ft & Pb & Pe & Hk).
    destruct (at_pos_basic d tr kb b Pb) as [_ Sb]. destruct (at_pos_basic d tr ke e Pe) as [_ Se].
    pose proof (at_pos_len d tr ke e Pe) as Hlen.
    unfold leg_range. rewrite Hb, He, Ht. cbv zeta.
    rewrite (trip_rev_eq_s t tr Ft), Sb, Se.
    replace (S kb - 1)%nat with kb by lia. replace (S ke - 1)%nat with ke by lia.
    assert (Hlt : Nat.ltb ke kb = false) by (apply Nat.ltb_ge; exact Hk).
    rewrite Hlt, rev_length.
    destruct (rev_range_total (rev (trip_conns d tr)) (length (trip_conns d tr)) (ke - kb + 1) ke
                ltac:(lia) Hlen ltac:(rewrite rev_length; reflexivity)) as (r & Hr & Hall).
    exists r. split; [exact Hr|]. split.
    - intros k c Hkr Pc. apply (Hall k c); [lia|]. apply nth_error_rev_to. exact Pc.
    - intros c Hc. destruct (rev_range_in _ _ _ _ _ c Hr Hc) as (k & Hkr & Hn).
      exists k. split; [lia|]. unfold at_pos. apply nth_error_rev_pos; [lia|exact Hn].
  Qed.

  Lemma sleg_set_walk : forall j w dd b e t tr kb ke, sleg j b e t tr kb ke -> sleg (set_walk j w dd) b e t tr kb ke.
  Proof. intros j w dd b e t tr kb ke H. exact H. Qed.

  Lemma selem_set_walk : forall j w dd, selem j -> selem (set_walk j w dd).
  Proof.
    intros j w dd [H|(b & e & t & tr & kb & ke & H)]; [left; exact H|].
    right. exists b, e, t, tr, kb, ke. exact H.
  Qed.

  (* ---- the loop ---- *)

  Definition sinv (js : list jstep) (ign : list nat) : Prop := sjs js /\ NoDup ign /\ incl ign (d_nodes d).

  Definition smu (js : list jstep) (ign : list nat) : nat := (length (d_nodes d) - length ign + Mjs js)%nat.

  Lemma sinv_add_ign : forall js ign X, sinv js ign -> ~ In X ign -> In X (d_nodes d) ->
    sinv js (ign ++ [X]) /\ (smu js (ign ++ [X]) < smu js ign)%nat.
  Proof.
    intros js ign X (Hok & Hndi & Hincl) HX Hn.
    assert (Hnd' : NoDup (ign ++ [X])) by (apply NoDup_snoc; assumption).
    assert (Hincl' : incl (ign ++ [X]) (d_nodes d)).
    { apply incl_app; [exact Hincl|]. intros z [<-|[]]. exact Hn. }
    split; [unfold sinv; auto|].
    pose proof (NoDup_incl_length Hnd' Hincl') as Hlen.
    unfold smu. rewrite app_length in *. cbn [length] in *. lia.
  Qed.

  Lemma selem_leg : forall x b, selem x -> js_enter x = Some b -> exists b' e t tr kb ke, sleg x b' e t tr kb ke.
  Proof.
    intros x b [Hw|H] Hb; [|exact H].
    apply Totals.is_walk_inv in Hw. destruct Hw as [Hn _]. congruence.
  Qed.

  Lemma sjs_two : forall P x M y S, sjs (P ++ x :: M ++ y :: S) -> sjs P /\ selem x /\ selem y /\ sjs S.
  Proof.
    intros P x M y S H. unfold sjs in *.
    apply Forall_app in H. destruct H as [HP H]. inversion H as [|x' l' Hx H']; subst x' l'.
    apply Forall_app in H'. destruct H' as [_ H']. inversion H' as [|y' l'' Hy HS]; subst y' l''.
    repeat split; assumption.
  Qed.

  Lemma round_struct : forall f js used ign, sinv js ign ->
    (exists js' used', optimize (S f) d js used ign = OptDone js' used') \/
    (exists js' used' ign', optimize (S f) d js used ign = optimize f d js' used' ign' /\
                            sinv js' ign' /\ (smu js' ign' < smu js ign)%nat).
  Proof.
    intros f js used ign Hinv. pose proof Hinv as (Hok & Hndi & Hincl).
    assert (Hsum : forall j0, In j0 js -> leg_summary d j0 <> None).
    { intros j0 Hj0. unfold sjs in Hok. rewrite Forall_forall in Hok.
      destruct (Hok j0 Hj0) as [Hw|(b0 & e0 & t0 & tr0 & kb0 & ke0 & H0)].
      - rewrite (leg_summary_walk d j0 Hw). discriminate.
      - destruct (leg_summary_sleg j0 b0 e0 t0 tr0 kb0 ke0 H0) as (s0 & Hs0 & _). rewrite Hs0. discriminate. }
    cbn [optimize].
    destruct (detect d ign js 0 []) as [[[[[cs X] i] j]|]|] eqn:Hdet.
    3:{ exfalso. apply (detect_total d ign js 0%nat [] Hsum Hdet). }
    2:{ left. eauto. }
    destruct (detect_top d ign js cs X i j Hdet)
      as (Hr & bi & ei & bj & ej & Hbi & Hei & Hbj & Hej & Hcase).
    destruct (detect_full d ign js cs X i j Hdet) as (si & sj & Hsi & Hsj & Hpair).
    clear Hdet Hsum.
    destruct (split_two js i j Hr) as (P & x & M & y & S & EQ & LP & LJ).
    rewrite EQ in Hbi, Hei, Hbj, Hej, Hsi, Hsj.
    rewrite (nth_js_from P M S x y i LP) in Hbi, Hei, Hsi.
    rewrite (nth_js_to P M S x y i j LP LJ) in Hbj, Hej, Hsj.
    subst js.
    destruct (sjs_two P x M y S Hok) as (HP & Hxe & Hye & HS).
    destruct (selem_leg x bi Hxe Hbi) as (bx & ex & tx & trx & kbx & kex & Hatx).
    destruct (selem_leg y bj Hye Hbj) as (by_ & ey & ty & try & kby & key & Haty).
    pose proof Hatx as (Hbx & Hex & Htx & Ftx & Pbx & Pex & Hkx).
    pose proof Haty as (Hby & Hey & Hty & Fty & Pby & Pey & Hky).
    destruct (at_pos_basic d trx kbx bx Pbx) as [_ Sbx]. destruct (at_pos_basic d trx kex ex Pex) as [_ Sex].
    destruct (at_pos_basic d try kby by_ Pby) as [_ Sby]. destruct (at_pos_basic d try key ey Pey) as [_ Sey].
    rewrite Hbx in Hbi. injection Hbi as <-. rewrite Hex in Hei. injection Hei as <-.
    rewrite Hby in Hbj. injection Hbj as <-. rewrite Hey in Hej. injection Hej as <-.
    destruct (leg_summary_sleg x bx ex tx trx kbx kex Hatx) as (si' & Hsi' & Hbetx).
    rewrite Hsi in Hsi'. injection Hsi' as <-.
    destruct (leg_summary_sleg y by_ ey ty try kby key Haty) as (sj' & Hsj' & Hbety).
    rewrite Hsj in Hsj'. injection Hsj' as <-.
    destruct (leg_range_sleg x bx ex tx trx kbx kex Hatx) as (rf & Hrf & Hrfall & Hrfin).
    destruct (leg_range_sleg y by_ ey ty try kby key Haty) as (rt & Hrt & Hrtall & Hrtin).
    assert (Harrives : In X (ls_between si) ->
              In X (d_nodes d) /\ (exists c1, In c1 rf /\ c_to c1 = X) /\
              forall c k, at_pos d trx k c -> (kbx <= k <= kex)%nat -> c_to c = X -> (k < kex)%nat).
    { intros HXi. destruct (Hbetx X HXi) as (k0 & c0 & Hk0 & Pc0 & Hfrom0 & Hnl).
      destruct k0 as [|k0]; [lia|].
      destruct (at_pos_prev d trx k0 c0 Pc0) as (c1 & Pc1 & Hto1).
      split; [|split].
      - rewrite <- Hfrom0, <- Hto1. apply Hnodes. apply (at_pos_all tx trx k0 c1 Ftx Pc1).
      - exists c1. split; [apply (Hrfall k0 c1); [lia|exact Pc1]|congruence].
      - intros c k Pc Hk Hc. destruct (Nat.eq_dec k kex) as [->|Hne]; [|lia].
        exfalso. rewrite (at_pos_fun d trx kex c ex Pc Pex) in Hc. congruence. }
    rewrite !(nth_js_from P M S x y i LP), !(nth_js_to P M S x y i j LP LJ).
    rewrite !Hrf, !Hrt.
    destruct (detect_pair_inv2 ign si sj cs X Hpair)
      as [(-> & HXi & Hni)|[->|[(-> & HXi & Hni)|(-> & HXi & HXj & Hni)]]]; cbn [Nat.eqb].
    - (* CSL *)
      destruct (Harrives HXi) as (HXn & (c1 & Hin1 & Hto1) & Hstrict).
      destruct (find (fun c => Nat.eqb X (c_to c)) rf) as [c|] eqn:Hf.
      2:{ exfalso. pose proof (find_none _ _ Hf c1 Hin1) as Hn. cbv beta in Hn.
          apply Nat.eqb_neq in Hn. congruence. }
      apply find_some in Hf. destruct Hf as [Hin Hc]. apply Nat.eqb_eq in Hc.
      destruct (Hrfin c Hin) as (k & Hk & Pc).
      pose proof (Hstrict c k Pc Hk (eq_sym Hc)) as Hklt.
      destruct (at_pos_basic d trx k c Pc) as [_ Sc].
      right. destruct (c_cu c) eqn:Hcu; cbn [negb].
      + cbv zeta.
        rewrite (surgery_from _ P M S x y i LP).
        rewrite (surgery_erase_closed _ P M S _ y i j LP LJ).
        eexists _, _, _. split; [reflexivity|]. split.
        * split; [|split; assumption].
          unfold sjs. apply Forall_app. split; [exact HP|]. constructor; [|exact HS].
          right. exists bx, c, tx, trx, kbx, k. unfold sleg. cbn [set_exit set_walk js_enter js_exit js_trip].
          repeat split; try assumption. lia.
        * unfold smu. rewrite Mjs_one, Mjs_two.
          rewrite (leg_w_eq x bx ex Hbx Hex).
          rewrite (leg_w_eq (set_exit (set_walk x (js_walk y) (js_dist y)) c) bx c Hbx eq_refl).
          rewrite Sbx, Sex, Sc. lia.
      + exists (P ++ x :: M ++ y :: S), used, (ign ++ [X]). split; [reflexivity|].
        apply sinv_add_ign; assumption.
    - (* BTS *)
      left.
      destruct (find (fun c => Nat.eqb X (c_from c)) rt) as [c|]; [|eexists _, _; reflexivity].
      destruct (negb (c_cb c)); eexists _, _; reflexivity.
    - (* GTF *)
      destruct (Harrives HXi) as (HXn & (c1 & Hin1 & Hto1) & Hstrict).
      destruct (find (fun c => Nat.eqb X (c_to c)) rf) as [c|] eqn:Hf.
      2:{ exfalso. pose proof (find_none _ _ Hf c1 Hin1) as Hn. cbv beta in Hn.
          apply Nat.eqb_neq in Hn. congruence. }
      apply find_some in Hf. destruct Hf as [Hin Hc]. apply Nat.eqb_eq in Hc.
      destruct (Hrfin c Hin) as (k & Hk & Pc).
      pose proof (Hstrict c k Pc Hk (eq_sym Hc)) as Hklt.
      destruct (at_pos_basic d trx k c Pc) as [_ Sc].
      right. destruct (c_cu c) eqn:Hcu; cbn [negb].
      + rewrite (surgery_from _ P M S x y i LP).
        rewrite (surgery_erase_open _ P M S _ y i j LP LJ).
        eexists _, _, _. split; [reflexivity|]. split.
        * split; [|split; assumption].
          unfold sjs. apply Forall_app. split; [exact HP|]. constructor; [|constructor; [exact Hye|exact HS]].
          right. exists bx, c, tx, trx, kbx, k. unfold sleg. cbn [set_exit set_walk js_enter js_exit js_trip].
          repeat split; try assumption. lia.
        * unfold smu. rewrite Mjs_pair, Mjs_two.
          rewrite (leg_w_eq x bx ex Hbx Hex).
          rewrite (leg_w_eq (set_walk (set_exit x c) 0 0) bx c Hbx eq_refl).
          rewrite Sbx, Sex, Sc. lia.
      + exists (P ++ x :: M ++ y :: S), used, (ign ++ [X]). split; [reflexivity|].
        apply sinv_add_ign; assumption.
    - (* CSS *)
      destruct (Harrives HXi) as (HXn & _ & Hstrict).
      assert (Hleaves : exists c, In c rt /\ c_from c = X).
      { destruct (Hbety X HXj) as (k0 & c0 & Hk0 & Pc0 & Hfrom0 & _).
        exists c0. split; [apply (Hrtall k0 c0); [lia|exact Pc0]|exact Hfrom0]. }
      right.
      destruct (css_second_total X (css_first X rf None) rt (P ++ x :: M ++ y :: S) i j used ign Hleaves)
        as [E|(cx & cy & Hfirst & Hin2 & Hfrom & Hcb & E)]; rewrite E; cbv beta iota zeta.
      + exists (P ++ x :: M ++ y :: S), used, (ign ++ [X]). split; [reflexivity|].
        apply sinv_add_ign; assumption.
      + destruct (css_first_in _ _ _ _ Hfirst) as [Hno|(Hin1 & Hto & Hcu)]; [discriminate|].
        rewrite (surgery_from _ P M S x y i LP).
        rewrite (surgery_to _ P M S _ y i j LP LJ).
        rewrite (surgery_erase_open _ P M S _ _ i j LP LJ).
        destruct (Hrfin cx Hin1) as (k1 & Hk1 & Pc1).
        destruct (Hrtin cy Hin2) as (k2 & Hk2 & Pc2).
        pose proof (Hstrict cx k1 Pc1 Hk1 Hto) as Hklt.
        destruct (at_pos_basic d trx k1 cx Pc1) as [_ Sc1].
        destruct (at_pos_basic d try k2 cy Pc2) as [_ Sc2].
        eexists _, _, _. split; [reflexivity|]. split.
        * split; [|split; assumption].
          unfold sjs. apply Forall_app. split; [exact HP|]. constructor; [|constructor; [|exact HS]].
          -- right. exists bx, cx, tx, trx, kbx, k1. unfold sleg. cbn [set_exit set_walk js_enter js_exit js_trip].
             repeat split; try assumption. lia.
          -- right. exists cy, ey, ty, try, k2, key. unfold sleg. cbn [set_enter js_enter js_exit js_trip].
             repeat split; try assumption. lia.
        * unfold smu. rewrite Mjs_pair, Mjs_two.
          rewrite (leg_w_eq x bx ex Hbx Hex), (leg_w_eq y by_ ey Hby Hey).
          rewrite (leg_w_eq (set_walk (set_exit x cx) 0 0) bx cx Hbx eq_refl).
          rewrite (leg_w_eq (set_enter y cy) cy ey eq_refl Hey).
          rewrite Sbx, Sex, Sby, Sey, Sc1, Sc2. lia.
  Qed.

  Lemma optimize_total_struct_gen : forall fuel js used ign, sinv js ign -> (smu js ign < fuel)%nat ->
    exists js' used', optimize fuel d js used ign = OptDone js' used'.
  Proof.
    induction fuel as [|f IH]; intros js used ign Hinv Hlt; [lia|].
    destruct (round_struct f js used ign Hinv) as [H|(js1 & used1 & ign1 & E & Hinv1 & Hmu)]; [exact H|].
    rewrite E. apply IH; [exact Hinv1|lia].
  Qed.

  Lemma selem_w_bound : forall j, selem j -> (leg_w j <= length (all_conns d))%nat.
  Proof.
    intros j [Hw|(b & e & t & tr & kb & ke & Hb & He & _ & Ft & Pb & Pe & Hk)].
    - apply Totals.is_walk_inv in Hw. destruct Hw as [Hn _]. unfold leg_w. rewrite Hn. lia.
    - destruct (at_pos_basic d tr kb b Pb) as [_ Sb]. destruct (at_pos_basic d tr ke e Pe) as [_ Se].
      pose proof (at_pos_len d tr ke e Pe) as Hlen.
      pose proof (trip_conns_le_all d t tr Ft) as Hall.
      rewrite (leg_w_eq j b e Hb He), Sb, Se. lia.
  Qed.

  (* OPT_FUEL is enough for structurally valid journeys of up to 4 * (stops + 1) elements *)
  Theorem optimize_total_struct : forall js, sjs js -> (length js <= 4 * S (length (d_nodes d)))%nat ->
    exists js' used, optimize (OPT_FUEL d) d js [] [] = OptDone js' used.
  Proof.
    intros js Hok Hlen.
    apply (optimize_total_struct_gen (OPT_FUEL d) js [] []).
    - split; [exact Hok|]. split; [constructor|]. intros z [].
    - assert (Hl : (Mjs js <= length js * length (all_conns d))%nat).
      { apply Mjs_le. intros j Hj. apply selem_w_bound. unfold sjs in Hok. rewrite Forall_forall in Hok. apply Hok. exact Hj. }
      unfold smu, OPT_FUEL. cbn [length].
      set (N := length (d_nodes d)) in *. set (C := length (all_conns d)) in *.
      assert (H1 : (length js * C <= (4 * S N) * C)%nat) by (apply Nat.mul_le_mono_r; exact Hlen).
      lia.
  Qed.

  (* ---- labels of the shape Termination.lab_struct are located rides ---- *)

  Lemma lab_struct_selem : forall j, lab_struct d j -> selem j.
  Proof.
    intros j (b & e & Hb & He & Ht & Ab & Ae & Et & Hseq).
    destruct (all_conns_in d b Ab) as (trb & Htrb & Hinb).
    destruct (all_conns_in d e Ae) as (tre & Htre & Hine).
    assert (E : trb = tre).
    { apply (nodup_nat_inj (d_trips d) Hnd); try assumption.
      rewrite <- (trip_conns_trip d trb b Hinb), <- (trip_conns_trip d tre e Hine). symmetry. exact Et. }
    subst tre.
    apply In_nth_error in Hinb. destruct Hinb as (kb & Pb).
    apply In_nth_error in Hine. destruct Hine as (ke & Pe).
    destruct (at_pos_basic d trb kb b Pb) as [Tb Sb]. destruct (at_pos_basic d trb ke e Pe) as [_ Se].
    right. exists b, e, (c_trip b), trb, kb, ke. unfold sleg.
    repeat split; try assumption; [|lia].
    rewrite Tb. apply (find_trip_in d trb Hnd Htrb).
  Qed.

End Struct.

(* the rebuild loop collects labels; a property of labels that set_walk keeps holds of every collected leg *)
Lemma set_last_walk_Forall : forall (P : jstep -> Prop), (forall j w dd, P j -> P (set_walk j w dd)) ->
  forall l w dd, Forall P l -> Forall P (set_last_walk l w dd).
Proof.
  intros P HP. induction l as [|x l IH]; intros w dd H; [constructor|].
  inversion H as [|x' l' Hx Hl]; subst x' l'.
  destruct l as [|y l]; [constructor; [apply HP; exact Hx|constructor]|].
  change (set_last_walk (x :: y :: l) w dd) with (x :: set_last_walk (y :: l) w dd).
  constructor; [exact Hx|apply IH; exact Hl].
Qed.

Lemma rebuild_Forall : forall (P : jstep -> Prop), (forall j w dd, P j -> P (set_walk j w dd)) ->
  forall fuel steps cur acc last legs last',
    (forall n b, js_enter (steps n) = Some b -> P (steps n)) ->
    (forall b, js_enter cur = Some b -> P cur) -> Forall P acc ->
    rebuild fuel steps cur acc last = Some (legs, last') -> Forall P legs.
Proof.
  intros P HP. induction fuel as [|f IH]; intros steps cur acc last legs last' Hsteps Hcur Hacc H.
  - destruct (js_enter cur) as [b|] eqn:Eb; [destruct (js_exit cur) as [e|] eqn:Ee|].
    + rewrite (rebuild_zero steps cur acc last b e Eb Ee) in H. discriminate.
    + rewrite rebuild_stop in H by (right; exact Ee). inversion H; subst. exact Hacc.
    + rewrite rebuild_stop in H by (left; exact Eb). inversion H; subst. exact Hacc.
  - destruct (js_enter cur) as [b|] eqn:Eb; [destruct (js_exit cur) as [e|] eqn:Ee|].
    + rewrite (rebuild_step f steps cur acc last b e Eb Ee) in H.
      eapply IH; [exact Hsteps| | |exact H].
      * intros b' Hb'. apply (Hsteps (c_to e) b' Hb').
      * apply Forall_app. split; [|constructor; [apply (Hcur b eq_refl)|constructor]].
        destruct acc as [|a0 acc0]; [constructor|]. apply set_last_walk_Forall; assumption.
    + rewrite rebuild_stop in H by (right; exact Ee). inversion H; subst. exact Hacc.
    + rewrite rebuild_stop in H by (left; exact Eb). inversion H; subst. exact Hacc.
Qed.

Print Assumptions optimize_total_struct.
Print Assumptions lab_struct_selem.
Print Assumptions rebuild_Forall.
