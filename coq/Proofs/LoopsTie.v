(* LoopsTie.v — the model computes what the interpreters of Rebuild.v / Alt.v compute on the statement trees
   tools/gen_loops.py reads from the sources AS THEY ARE NOW (gen/Rebuild.v, gen/Alt.v; regenerated on every run).

   (A) reverseJourneyStep, the journey rebuild:  `rebuild_step_tie` (one iteration of the generated loop body = one
       iteration of Journey.rebuild), `rebuild_skel_tie` / `rebuild_skel_journey` (declarations, loop - for every fuel -
       and the access / egress pushes = the journey Calc.rev_journey hands to optimizeJourney).
   (B) alternativesRouting:  `alt_maxtt_tie` (the derivation of the maximum travel time of the recalculations =
       Calc.alt_maxtt; the float product is the exact quarter arithmetic of the model, see Alt.v), `alt_body_ok` /
       `alt_body_fail` / `alt_body_error` / `alt_body_nocaps` (one iteration of the loop over the combinations, by the
       outcome of the recalculation = one unfolding of Calc.alt_loop, `alt_loop_S`), `alt_forall_tie` (the loop, for
       every fuel), `alternatives_skel_tie` (the whole function = Calc.alternatives).  Plain equalities.

   What breaks these proofs: the clamp to the request's maximum applied before the floor, a dropped duplicate test, a
   push moved before its test, a counter started elsewhere, `<` turned into `<=` in a cap, a changed operand.  What does
   not: comments, logging, whitespace, harmless arithmetic rewrites (lia closes the leaves). *)
From Coq Require Import List ZArith Bool Lia ZifyBool.
From TrV Require Import gen.Consts Scan Journey Calc.
Require Import TrV.Rebuild TrV.Alt.
Require TrV.gen.Rebuild TrV.gen.Alt.
Import ListNotations.
Local Open Scope Z_scope.
Local Open Scope bool_scope.

Module GR := TrV.gen.Rebuild.

(* ---------------------------------------------------------------------------------------------- *)
(* (A) the journey rebuild of reverseJourneyStep                                                     *)

(* one iteration of the model's loop (Journey.rebuild), on the machine *)
Definition rebuild_step (steps : nat -> jstep) (m : rmach) : rmach :=
  match js_exit (rb_cur m) with
  | Some ex =>
      {| rb_cur := steps (c_to ex);
         rb_journey := match rb_journey m with
                       | [] => []
                       | _ => set_last_walk (rb_journey m) (js_walk (rb_cur m)) (js_dist (rb_cur m))
                       end ++ [rb_cur m];
         rb_best := Some (c_to ex) |}
  | None => m
  end.

Fixpoint rebuild_m (fuel : nat) (steps : nat -> jstep) (m : rmach) : option rmach :=
  if js_has_conns (rb_cur m) then
    match fuel with O => None | S f => rebuild_m f steps (rebuild_step steps m) end
  else Some m.

(* Journey.rebuild is that loop *)
Lemma rebuild_is_rebuild_m : forall fuel steps cur acc last,
  rebuild fuel steps cur acc last =
  option_map (fun m => (rb_journey m, rb_best m)) (rebuild_m fuel steps {| rb_cur := cur; rb_journey := acc; rb_best := last |}).
Proof.
  induction fuel as [|f IH]; intros steps cur acc last.
  - cbn [rebuild rebuild_m rb_cur]. unfold js_has_conns.
    destruct (js_enter cur); [destruct (js_exit cur)|]; reflexivity.
  - cbn [rebuild rebuild_m rb_cur]. unfold js_has_conns, rebuild_step. cbn [rb_cur rb_journey rb_best].
    destruct (js_enter cur) as [en|]; [destruct (js_exit cur) as [ex|]|]; cbn [is_some andb option_map rb_journey rb_best];
      try reflexivity.
    apply IH.
Qed.

Ltac reval :=
  lazy beta iota zeta delta
    [rrun rb_cur rb_journey rb_best x_start x_best x_exit_node x_copy_walk re_steps re_start re_node re_acc re_egr].

(* the generated loop body is one iteration of the model's loop *)
Lemma rebuild_body_tie e fuel R (kk : rmach -> option R) m : js_has_conns (rb_cur m) = true ->
  rrun e fuel GR.gen_rebuild_body R kk m = kk (rebuild_step (re_steps e) m).
Proof.
  intros Hc. destruct m as [cur journey best]. cbn [rb_cur] in Hc.
  unfold js_has_conns in Hc. destruct (js_enter cur) as [en|] eqn:Een; [|discriminate].
  destruct (js_exit cur) as [ex|] eqn:Eex; [|discriminate].
  unfold GR.gen_rebuild_body, rebuild_step. reval. rewrite ?Eex.
  destruct journey as [|j0 jr].
  - cbn [length]. replace (Z.of_nat 0 >? 0) with false by lia. reval. rewrite ?Eex. reflexivity.
  - replace (Z.of_nat (length (j0 :: jr)) >? 0) with true by (cbn [length]; lia). reval. rewrite ?Eex. reflexivity.
Qed.

Theorem rebuild_step_tie e fuel m : js_has_conns (rb_cur m) = true ->
  run_rebuild GR.gen_rebuild_body e fuel m = Some (rebuild_step (re_steps e) m).
Proof. intros H. unfold run_rebuild. apply rebuild_body_tie. exact H. Qed.

(* the generated `while` is the model's loop, for every fuel *)
Lemma rebuild_while_tie e R (after : rmach -> option R) : forall fuel0 fuel m,
  rwhile (fun m' => js_has_conns (rb_cur m')) (fun kk mm => rrun e fuel0 GR.gen_rebuild_body R kk mm) after fuel m =
  match rebuild_m fuel (re_steps e) m with Some m' => after m' | None => None end.
Proof.
  intros fuel0. induction fuel as [|f IH]; intros m; cbn [rwhile rebuild_m].
  - destruct (js_has_conns (rb_cur m)); reflexivity.
  - destruct (js_has_conns (rb_cur m)) eqn:Hc; [|reflexivity].
    rewrite rebuild_body_tie by exact Hc. apply IH.
Qed.

(* the whole region: declarations, loop, the two pushes.  The journey handed to optimizeJourney is the access walk,
   the legs of Journey.rebuild, the egress walk of the stop where the last leg alights *)
Theorem rebuild_skel_tie : forall steps start node acc egr fuel m0,
  option_map rb_journey
    (run_rebuild GR.gen_rebuild_skel {| re_steps := steps; re_start := Some start; re_node := node; re_acc := acc; re_egr := egr |} fuel m0) =
  option_map (fun r : list jstep * option nat =>
                x_walk (x_row_time (row_of node acc)) false (x_row_dist (row_of node acc)) ::
                fst r ++ [x_walk (x_row_time (row_of (match snd r with Some n => n | None => 0%nat end) egr)) false
                                 (x_row_dist (row_of (match snd r with Some n => n | None => 0%nat end) egr))])
             (rebuild fuel steps start [] None).
Proof.
  intros steps start node acc egr fuel m0.
  rewrite rebuild_is_rebuild_m. unfold run_rebuild, GR.gen_rebuild_skel.
  cbn [rrun rb_cur rb_journey rb_best x_start re_start].
  rewrite rebuild_while_tie. cbn [re_steps].
  destruct (rebuild_m fuel steps {| rb_cur := start; rb_journey := []; rb_best := None |}) as [m'|]; [|reflexivity].
  destruct m' as [cur journey best]. reflexivity.
Qed.

(* ... which is the journey Calc.rev_journey builds when the model succeeds *)
Corollary rebuild_skel_journey : forall steps start node acc egr fuel m0 legs ln ar er,
  rebuild fuel steps start [] None = Some (legs, Some ln) ->
  row_of node acc = Some ar -> row_of ln egr = Some er ->
  option_map rb_journey
    (run_rebuild GR.gen_rebuild_skel {| re_steps := steps; re_start := Some start; re_node := node; re_acc := acc; re_egr := egr |} fuel m0) =
  Some (walk_step ar :: legs ++ [walk_step er]).
Proof.
  intros steps start node acc egr fuel m0 legs ln ar er Hr Ha He.
  rewrite rebuild_skel_tie, Hr. cbn [option_map fst snd]. rewrite Ha, He. reflexivity.
Qed.

(* ---------------------------------------------------------------------------------------------- *)
(* (B) alternativesRouting                                                                           *)

Module GA := TrV.gen.Alt.

Ltac aeval :=
  lazy beta iota zeta delta
    [arun set_z set_list push_coll on_st on_l am_st am_l
     ss_a_routes ss_a_all ss_a_failed ss_a_calculated ss_a_found ss_a_seq ss_a_count
     a_routes a_all a_failed a_calculated a_found a_seq a_count
     ls_al_maxtt ls_al_maxalt ls_al_lastfound ls_al_fl ls_al_comb ls_al_nc ls_al_ex ls_al_flag ls_al_first ls_al_res
     ls_al_altp ls_al_i ls_al_total
     al_maxtt al_maxalt al_lastfound al_fl al_comb al_nc al_ex al_flag al_first al_res al_altp al_i al_total
     ae_d ae_cs ae_p ae_acc ae_egr].

Ltac split_ifs :=
  repeat (match goal with
          | |- context [if negb ?a then _ else _] => destruct a eqn:?
          | |- context [if ?a && _ then _ else _] => destruct a eqn:?
          | |- context [if ?c then _ else _] => destruct c eqn:?
          end; cbn [negb andb orb]; try lia).

(* the value the source derives for the maximum travel time of the recalculations is Calc.alt_maxtt, and the
   recalculation parameters are constructed with it *)
Lemma alt_maxtt_tie e fuel R (kont : amach -> outcome R) m :
  arun e fuel GA.gen_alt_maxtt R kont m =
  kont (on_l (fun l => ls_al_altp (alt_maxtt (ae_p e) (al_first l)) (ls_al_maxtt (alt_maxtt (ae_p e) (al_first l)) l)) m).
Proof.
  destruct m as [st l]. destruct l as [mt ma lf fl cb nc ex fg fr rs ap ii tot]. destruct e as [d cs p acc egr].
  unfold GA.gen_alt_maxtt, alt_maxtt, ALT_MIN_MAXTT, ALT_ADDED. aeval.
  Ltac Zify.zify_post_hook ::= Z.to_euclidean_division_equations.
  split_ifs.
  all: f_equal; f_equal; f_equal; lia.
Qed.
Ltac Zify.zify_post_hook ::= idtac.

(* the model's update for one new combination (the function folded by Calc.push_combs) *)
Definition push_step (comb : list nat) (s : alt_st) (nc0 : list nat) : alt_st :=
  let nc := sort_nat (nc0 ++ comb) in
  if mem_list nc (a_calculated s) then s
  else {| a_routes := a_routes s;
          a_all := if matches_failed (a_failed s) nc then a_all s else a_all s ++ [nc];
          a_failed := a_failed s; a_calculated := a_calculated s ++ [nc]; a_found := a_found s;
          a_seq := a_seq s; a_count := a_count s |}.
Lemma push_combs_fold st found comb : push_combs st found comb = fold_left (push_step comb) (all_combs found) st.
Proof. reflexivity. Qed.

Definition comb_run (e : aenv) (fuel : nat) (body : askel) : amach -> outcome amach :=
  fun mm => arun e fuel body amach (fun m2 => Ok m2) mm.

Lemma new_comb_step e fuel m nc0 : exists N F,
  comb_run e fuel GA.gen_alt_new_comb (on_l (ls_al_nc nc0) m) =
  Ok {| am_st := push_step (al_comb (am_l m)) (am_st m) nc0; am_l := ls_al_flag F (ls_al_nc N (am_l m)) |}.
Proof.
  destruct m as [st l]. destruct st as [ro al fa ca fo sq ct]. destruct l as [mt ma lf fl cb nc ex fg fr rs ap ii tot].
  unfold comb_run, GA.gen_alt_new_comb, push_step. aeval.
  destruct (mem_list (sort_nat (nc0 ++ cb)) ca); cbn [negb]; aeval.
  - eexists _, _. reflexivity.
  - destruct (matches_failed fa (sort_nat (nc0 ++ cb))); cbn [negb]; aeval; eexists _, _; reflexivity.
Qed.

Lemma new_comb_fold e fuel : forall l m, exists N F,
  fold_left (acomb_step (comb_run e fuel GA.gen_alt_new_comb)) l (Ok m) =
  Ok {| am_st := fold_left (push_step (al_comb (am_l m))) l (am_st m); am_l := ls_al_flag F (ls_al_nc N (am_l m)) |}.
Proof.
  induction l as [|nc0 l IH]; intros m; cbn [fold_left].
  - exists (al_nc (am_l m)), (al_flag (am_l m)). destruct m as [st lo]. destruct lo. reflexivity.
  - unfold acomb_step at 2. destruct (new_comb_step e fuel m nc0) as (N & F & ->).
    destruct (IH {| am_st := push_step (al_comb (am_l m)) (am_st m) nc0; am_l := ls_al_flag F (ls_al_nc N (am_l m)) |})
      as (N2 & F2 & ->).
    exists N2, F2. destruct m as [st lo]. destruct lo. reflexivity.
Qed.

Lemma init_comb_fold e fuel : forall l m, exists N,
  fold_left (acomb_step (comb_run e fuel GA.gen_alt_init_comb)) l (Ok m) =
  Ok {| am_st := ss_a_calculated (a_calculated (am_st m) ++ map sort_nat l) (ss_a_all (a_all (am_st m) ++ map sort_nat l) (am_st m));
        am_l := ls_al_nc N (am_l m) |}.
Proof.
  induction l as [|nc0 l IH]; intros m; cbn [fold_left map].
  - exists (al_nc (am_l m)). rewrite !app_nil_r. destruct m as [st lo]. destruct st. destruct lo. reflexivity.
  - unfold acomb_step at 2.
    assert (E : comb_run e fuel GA.gen_alt_init_comb (on_l (ls_al_nc nc0) m) =
                Ok {| am_st := ss_a_calculated (a_calculated (am_st m) ++ [sort_nat nc0])
                                 (ss_a_all (a_all (am_st m) ++ [sort_nat nc0]) (am_st m));
                      am_l := ls_al_nc (sort_nat nc0) (am_l m) |}).
    { destruct m as [st lo]. destruct st. destruct lo. reflexivity. }
    rewrite E. destruct (IH {| am_st := ss_a_calculated (a_calculated (am_st m) ++ [sort_nat nc0])
                                 (ss_a_all (a_all (am_st m) ++ [sort_nat nc0]) (am_st m));
                               am_l := ls_al_nc (sort_nat nc0) (am_l m) |}) as (N2 & ->).
    exists N2. destruct m as [st lo]. destruct st. destruct lo.
    aeval. rewrite <- !app_assoc. reflexivity.
Qed.

(* one iteration of the model's loop (Calc.alt_loop) after the caps test, by the outcome of the recalculation *)
Definition alt_step_ok (d : data) (st : alt_st) (r : route) (comb : list nat) : alt_st :=
  let fl := sort_nat (route_lines d r) in
  let st1 :=
    if nonempty fl && negb (mem_list fl (a_found st)) then
      let s1 := {| a_routes := a_routes st ++ [r]; a_all := a_all st; a_failed := a_failed st;
                   a_calculated := a_calculated st; a_found := a_found st ++ [fl];
                   a_seq := a_seq st; a_count := a_count st |} in
      let s2 := push_combs s1 fl comb in
      {| a_routes := a_routes s2; a_all := a_all s2; a_failed := a_failed s2;
         a_calculated := a_calculated s2; a_found := a_found s2;
         a_seq := a_seq s2 + 1; a_count := a_count s2 |}
    else st in
  {| a_routes := a_routes st1; a_all := a_all st1; a_failed := a_failed st1;
     a_calculated := a_calculated st1; a_found := a_found st1;
     a_seq := a_seq st1; a_count := a_count st1 + 1 |}.
Definition alt_step_fail (st : alt_st) (comb : list nat) : alt_st :=
  {| a_routes := a_routes st; a_all := a_all st; a_failed := a_failed st ++ [comb];
     a_calculated := a_calculated st; a_found := a_found st;
     a_seq := a_seq st; a_count := a_count st + 1 |}.
Definition alt_caps (st : alt_st) : bool := (a_count st <? MAX_ALTERNATIVES) && (a_seq st - 1 <? MAX_VALID_ALTERNATIVES).

Lemma alt_loop_S f d cs p altp acc egr base_ex st i :
  alt_loop (S f) d cs p altp acc egr base_ex st i =
  match nth_error (a_all st) i with
  | None => Ok st
  | Some comb =>
      if alt_caps st then
        match calc_single d cs (with_alt p altp (base_ex ++ comb)) acc egr false with
        | Ok (r, _) => alt_loop f d cs p altp acc egr base_ex (alt_step_ok d st r comb) (S i)
        | NoRouting _ => alt_loop f d cs p altp acc egr base_ex (alt_step_fail st comb) (S i)
        | o => pass_error o
        end
      else Ok st
  end.
Proof.
  cbn [alt_loop]. destruct (nth_error (a_all st) i) as [comb|]; [|reflexivity].
  unfold alt_caps. destruct ((a_count st <? MAX_ALTERNATIVES) && (a_seq st - 1 <? MAX_VALID_ALTERNATIVES)); [|reflexivity].
  destruct (calc_single d cs (with_alt p altp (base_ex ++ comb)) acc egr false) as [[r u]| | | | | | | |]; reflexivity.
Qed.

(* the locals the rest of the loop depends on *)
Definition frame_eq (l1 l2 : alocals) : Prop :=
  al_maxalt l1 = al_maxalt l2 /\ al_altp l1 = al_altp l2 /\ al_i l1 = al_i l2.
Definition respects {R} (kk : amach -> outcome R) : Prop :=
  forall st l1 l2, al_maxalt l1 = MAX_ALTERNATIVES -> frame_eq l1 l2 ->
                   kk {| am_st := st; am_l := l1 |} = kk {| am_st := st; am_l := l2 |}.

Lemma kk_frame {R} (kk : amach -> outcome R) st st' l1 l2 :
  respects kk -> st = st' -> al_maxalt l1 = MAX_ALTERNATIVES -> frame_eq l1 l2 ->
  kk {| am_st := st; am_l := l1 |} = kk {| am_st := st'; am_l := l2 |}.
Proof. intros H -> Hm Hf. apply H; assumption. Qed.

Section AltBody.
  Variables (d : data) (cs : connset) (p : params) (acc egr : list fprow) (fuel : nat).
  Notation e := {| ae_d := d; ae_cs := cs; ae_p := p; ae_acc := acc; ae_egr := egr |}.

  Definition cur_comb (m : amach) : list nat := nth (al_i (am_l m)) (a_all (am_st m)) [].
  Definition cur_calc (m : amach) :=
    calc_single d cs (with_alt p (al_altp (am_l m)) (q_except_lines p ++ cur_comb m)) acc egr false.

  (* the caps test of the source is the model's, by arithmetic *)
  Ltac caps_is b :=
    match goal with |- (if ?c then _ else _) = _ =>
      replace c with b by (unfold alt_caps, MAX_ALTERNATIVES, MAX_VALID_ALTERNATIVES in *; cbn [a_count a_seq] in *; lia) end.

  Lemma alt_body_nocaps R (kk : amach -> outcome R) m : al_maxalt (am_l m) = MAX_ALTERNATIVES ->
    alt_caps (am_st m) = false -> arun e fuel GA.gen_alt_body R kk m = kk m.
  Proof.
    intros Hm Hc.
    destruct m as [st l]. destruct st as [ro al fa ca fo sq ct]. destruct l as [mt ma lf fl cb nc ex fg fr rs ap ii tot].
    unfold GA.gen_alt_body. cbn [am_st am_l a_count a_seq al_maxalt] in *. aeval. caps_is false. reflexivity.
  Qed.

  Lemma alt_body_fail R (kk : amach -> outcome R) m reason : respects kk -> al_maxalt (am_l m) = MAX_ALTERNATIVES ->
    alt_caps (am_st m) = true -> cur_calc m = NoRouting reason ->
    arun e fuel GA.gen_alt_body R kk m = kk {| am_st := alt_step_fail (am_st m) (cur_comb m); am_l := am_l m |}.
  Proof.
    intros Hkk Hm Hc Hcalc.
    destruct m as [st l]. destruct st as [ro al fa ca fo sq ct]. destruct l as [mt ma lf fl cb nc ex fg fr rs ap ii tot].
    unfold cur_calc, cur_comb in Hcalc. unfold cur_comb, alt_step_fail, GA.gen_alt_body.
    cbn [am_st am_l a_count a_seq a_all al_maxalt al_altp al_i] in *. aeval. caps_is true. aeval.
    rewrite Hcalc. aeval. apply kk_frame; [exact Hkk | reflexivity | exact Hm | repeat split].
  Qed.

  Lemma alt_body_error R (kk : amach -> outcome R) m : al_maxalt (am_l m) = MAX_ALTERNATIVES ->
    alt_caps (am_st m) = true ->
    match cur_calc m with Ok _ => False | NoRouting _ => False | _ => True end ->
    arun e fuel GA.gen_alt_body R kk m = pass_error (cur_calc m).
  Proof.
    intros Hm Hc Hcalc.
    destruct m as [st l]. destruct st as [ro al fa ca fo sq ct]. destruct l as [mt ma lf fl cb nc ex fg fr rs ap ii tot].
    unfold cur_calc, cur_comb in *. unfold GA.gen_alt_body.
    cbn [am_st am_l a_count a_seq a_all al_maxalt al_altp al_i] in *. aeval. caps_is true. aeval.
    destruct (calc_single d cs (with_alt p ap (q_except_lines p ++ nth ii al [])) acc egr false) as [[r u]| | | | | | | |];
      try contradiction; reflexivity.
  Qed.

  Lemma alt_body_ok R (kk : amach -> outcome R) m r u : respects kk -> al_maxalt (am_l m) = MAX_ALTERNATIVES ->
    alt_caps (am_st m) = true -> cur_calc m = Ok (r, u) ->
    arun e fuel GA.gen_alt_body R kk m = kk {| am_st := alt_step_ok d (am_st m) r (cur_comb m); am_l := am_l m |}.
  Proof.
    intros Hkk Hm Hc Hcalc.
    destruct m as [st l]. destruct st as [ro al fa ca fo sq ct]. destruct l as [mt ma lf fl cb nc ex fg fr rs ap ii tot].
    unfold cur_calc, cur_comb in Hcalc. unfold cur_comb, alt_step_ok, GA.gen_alt_body.
    cbn [am_st am_l a_count a_seq a_all al_maxalt al_altp al_i] in *. aeval. caps_is true. aeval.
    rewrite Hcalc. aeval.
    destruct (sort_nat (route_lines d r)) as [|x0 t0] eqn:Efl.
    - cbn [length nonempty andb]. replace (Z.of_nat 0 >? 0) with false by lia. cbn [andb]. aeval.
      apply kk_frame; [exact Hkk | reflexivity | exact Hm | repeat split].
    - replace (Z.of_nat (length (x0 :: t0)) >? 0) with true by (cbn [length]; lia). cbn [nonempty andb].
      destruct (mem_list (x0 :: t0) fo); cbn [negb].
      + aeval. apply kk_frame; [exact Hkk | reflexivity | exact Hm | repeat split].
      + match goal with |- context [fold_left (acomb_step ?f) ?l (Ok ?m0)] =>
          change f with (comb_run e fuel GA.gen_alt_new_comb); destruct (new_comb_fold e fuel l m0) as (N & F & ->) end.
        rewrite push_combs_fold. aeval.
        apply kk_frame; [exact Hkk | reflexivity | exact Hm | repeat split].
  Qed.

  Lemma alt_loop_nocaps f altp base st j : alt_caps st = false -> alt_loop f d cs p altp acc egr base st j = Ok st.
  Proof.
    intros Hc. destruct f as [|f]; [reflexivity|]. rewrite alt_loop_S, Hc.
    destruct (nth_error (a_all st) j); reflexivity.
  Qed.

  Definition inc_i (m : amach) : amach := on_l (fun l => ls_al_i (S (al_i l)) l) m.

  (* the generated loop over allCombinations is Calc.alt_loop, for every fuel *)
  Lemma alt_forall_tie R (after : amach -> outcome R) (after' : alt_st -> outcome R) :
    (forall m, after m = after' (am_st m)) ->
    forall f m, al_maxalt (am_l m) = MAX_ALTERNATIVES ->
    aforall (fun kk mm => arun e fuel GA.gen_alt_body R kk mm) after f m =
    match alt_loop f d cs p (al_altp (am_l m)) acc egr (q_except_lines p) (am_st m) (al_i (am_l m)) with
    | Ok st' => after' st'
    | o => pass_error o
    end.
  Proof.
    intros Hafter. induction f as [|f IH]; intros m Hm.
    - cbn [aforall alt_loop]. apply Hafter.
    - cbn [aforall]. rewrite alt_loop_S.
      assert (Hkk : respects (fun m' => aforall (fun kk mm => arun e fuel GA.gen_alt_body R kk mm) after f (inc_i m'))).
      { intros st l1 l2 H1 (F1 & F2 & F3).
        rewrite !IH by (cbn [inc_i on_l am_l ls_al_i al_maxalt]; congruence).
        cbn [inc_i on_l am_l am_st ls_al_i al_altp al_i]. rewrite F2, F3. reflexivity. }
      unfold inc_i in Hkk.
      destruct (Nat.ltb (al_i (am_l m)) (length (a_all (am_st m)))) eqn:Hlt.
      + apply Nat.ltb_lt in Hlt.
        rewrite (nth_error_nth' (a_all (am_st m)) [] Hlt). fold (cur_comb m).
        destruct (alt_caps (am_st m)) eqn:Hc.
        * fold (cur_calc m). destruct (cur_calc m) as [[r u]|reason| | | | | | |] eqn:Hcalc.
          -- rewrite (alt_body_ok _ _ m r u Hkk Hm Hc Hcalc). rewrite IH by exact Hm. reflexivity.
          -- rewrite (alt_body_fail _ _ m reason Hkk Hm Hc Hcalc). rewrite IH by exact Hm. reflexivity.
          -- rewrite alt_body_error by (try assumption; rewrite Hcalc; exact I). rewrite Hcalc. reflexivity.
          -- rewrite alt_body_error by (try assumption; rewrite Hcalc; exact I). rewrite Hcalc. reflexivity.
          -- rewrite alt_body_error by (try assumption; rewrite Hcalc; exact I). rewrite Hcalc. reflexivity.
          -- rewrite alt_body_error by (try assumption; rewrite Hcalc; exact I). rewrite Hcalc. reflexivity.
          -- rewrite alt_body_error by (try assumption; rewrite Hcalc; exact I). rewrite Hcalc. reflexivity.
          -- rewrite alt_body_error by (try assumption; rewrite Hcalc; exact I). rewrite Hcalc. reflexivity.
          -- rewrite alt_body_error by (try assumption; rewrite Hcalc; exact I). rewrite Hcalc. reflexivity.
        * rewrite (alt_body_nocaps _ _ m Hm Hc). rewrite IH by exact Hm.
          cbn [inc_i on_l am_l am_st ls_al_i al_altp al_i]. rewrite alt_loop_nocaps by exact Hc. reflexivity.
      + apply Nat.ltb_ge in Hlt. rewrite (proj2 (nth_error_None _ _) Hlt). apply Hafter.
  Qed.
End AltBody.

(* Calc.alternatives with the fuel of its loop as a parameter *)
Definition alternatives_f (fuel : nat) (d : data) (cs : connset) (p : params) (acc egr : list fprow)
  : outcome (list route * Z) :=
  bind (calc_single d cs p acc egr true) (fun first =>
    let r := fst first in
    let altp := alt_maxtt p r in
    let fl := sort_nat (route_lines d r) in
    let combs0 := map sort_nat (all_combs fl) in
    let st0 := {| a_routes := [r]; a_all := combs0; a_failed := []; a_calculated := combs0;
                  a_found := [fl]; a_seq := 2; a_count := 2 |} in
    bind (alt_loop fuel d cs p altp acc egr (q_except_lines p) st0 0%nat)
         (fun st => Ok (a_routes st, a_count st))).
Lemma alternatives_is_f d cs p acc egr : alternatives d cs p acc egr = alternatives_f ALT_FUEL d cs p acc egr.
Proof. reflexivity. Qed.

(* the interpreter, statement by statement (used instead of conversion on the whole tree, which the kernel re-checks slowly) *)
Section ArunEq.
  Variables (e : aenv) (fuel : nat) (R : Type) (kont : amach -> outcome R) (m : amach).
  Lemma arun_ASetZ x f k : arun e fuel (ASetZ x f k) R kont m = arun e fuel k R kont (set_z x (f e m) m). Proof. reflexivity. Qed.
  Lemma arun_ASetList x f k : arun e fuel (ASetList x f k) R kont m = arun e fuel k R kont (set_list x (f e m) m). Proof. reflexivity. Qed.
  Lemma arun_APush c f k : arun e fuel (APush c f k) R kont m = arun e fuel k R kont (push_coll c (f e m) m). Proof. reflexivity. Qed.
  Lemma arun_APushRoute f k : arun e fuel (APushRoute f k) R kont m =
    arun e fuel k R kont (on_st (fun s => ss_a_routes (a_routes s ++ [f e m]) s) m). Proof. reflexivity. Qed.
  Lemma arun_ACalcFirst k : arun e fuel (ACalcFirst k) R kont m =
    match calc_single (ae_d e) (ae_cs e) (ae_p e) (ae_acc e) (ae_egr e) true with
    | Ok (r, _) => arun e fuel k R kont (on_l (fun l => ls_al_res r (ls_al_first r l)) m)
    | o => pass_error o
    end. Proof. reflexivity. Qed.
  Lemma arun_AForCombs src body k : arun e fuel (AForCombs src body k) R kont m =
    match fold_left (acomb_step (comb_run e fuel body)) (all_combs (src e m)) (Ok m) with
    | Ok m' => arun e fuel k R kont m'
    | o => pass_error o
    end. Proof. reflexivity. Qed.
  Lemma arun_AForAll body k : arun e fuel (AForAll body k) R kont m =
    aforall (fun kk mm => arun e fuel body R kk mm) (arun e fuel k R kont) fuel (on_l (ls_al_i 0%nat) m). Proof. reflexivity. Qed.
  Lemma arun_AResultCount f k : arun e fuel (AResultCount f k) R kont m = arun e fuel k R kont (on_l (ls_al_total (f e m)) m).
  Proof. reflexivity. Qed.
  Lemma arun_ASeq a k : arun e fuel (ASeq a k) R kont m = arun e fuel a R (arun e fuel k R kont) m. Proof. reflexivity. Qed.
  Lemma arun_ADone : arun e fuel ADone R kont m = kont m. Proof. reflexivity. Qed.
End ArunEq.

Ltac astep :=
  repeat first [rewrite arun_ASetZ | rewrite arun_ASetList | rewrite arun_APush | rewrite arun_APushRoute
               | rewrite arun_AResultCount | rewrite arun_ADone].
(* machines, without the interpreter *)
Ltac mcbn :=
  cbn [set_z set_list push_coll on_st on_l am_st am_l
     ss_a_routes ss_a_all ss_a_failed ss_a_calculated ss_a_found ss_a_seq ss_a_count
     a_routes a_all a_failed a_calculated a_found a_seq a_count
     ls_al_maxtt ls_al_maxalt ls_al_lastfound ls_al_fl ls_al_comb ls_al_nc ls_al_ex ls_al_flag ls_al_first ls_al_res
     ls_al_altp ls_al_i ls_al_total
     al_maxtt al_maxalt al_lastfound al_fl al_comb al_nc al_ex al_flag al_first al_res al_altp al_i al_total
     ae_d ae_cs ae_p ae_acc ae_egr].

Lemma alternatives_skel_tie_f : forall fuel d cs p acc egr l0,
  run_alt GA.gen_alt_skel {| ae_d := d; ae_cs := cs; ae_p := p; ae_acc := acc; ae_egr := egr |} fuel
          {| am_st := alt_st_empty; am_l := l0 |} = alternatives_f fuel d cs p acc egr.
Proof.
  intros fuel d cs p acc egr l0. unfold run_alt, alternatives_f.
  destruct l0 as [mt ma lf fl cb nc ex fg fr rs ap ii tot].
  unfold GA.gen_alt_skel, alt_st_empty. astep. rewrite arun_ACalcFirst. mcbn.
  destruct (calc_single d cs p acc egr true) as [[r u]| | | | | | | |]; try reflexivity.
  cbn [bind fst]. astep. rewrite arun_ASeq, alt_maxtt_tie. mcbn. astep. rewrite arun_AForCombs. mcbn.
  match goal with |- context [fold_left (acomb_step (comb_run ?e0 ?f0 GA.gen_alt_init_comb)) ?l (Ok ?m0)] =>
    destruct (init_comb_fold e0 f0 l m0) as (N & ->) end.
  rewrite arun_AForAll.
  rewrite (alt_forall_tie d cs p acc egr fuel _ _ (fun st' => Ok (a_routes st', a_count st'))).
  - mcbn. cbn [app]. change (1 + 1) with 2.
    match goal with |- match ?x with _ => _ end = bind ?y _ => change y with x; destruct x; reflexivity end.
  - intros m. astep. destruct m as [st l]. reflexivity.
  - reflexivity.
Qed.

(* the whole function: alternativesRouting as it is written now computes Calc.alternatives, whatever the locals hold at
   the start (the containers are declared empty) *)
Theorem alternatives_skel_tie : forall d cs p acc egr l0,
  run_alt GA.gen_alt_skel {| ae_d := d; ae_cs := cs; ae_p := p; ae_acc := acc; ae_egr := egr |} ALT_FUEL
          {| am_st := alt_st_empty; am_l := l0 |} = alternatives d cs p acc egr.
Proof. intros. rewrite alternatives_is_f. apply alternatives_skel_tie_f. Qed.
