(* Proofs/LoadedLoops.v — every fuel-bounded loop of the calculations, on data a server loaded from ARBITRARY files
   (LoadedTimes.loaded_inv; for optimizeJourney also Loader2Proofs.mem_ok).  Result: no route, alternatives or accessibility
   request with q_minw >= 0 (the parser normalises negative values to 0) is answered Hang by a server after start-up or
   after /updateCache?names=all, whatever the files hold (started_server_never_hangs, refreshed_server_never_hangs).

   A. count_transfers_fwd (forward accessibility, Calc.v:97; forwardJourneyStepAllNodes) terminates within REBUILD_FUEL:
      the forward analogue of Termination.v.  FwdOpt.F_count_terminates proves it under wf_data_b d, pos_hops_b d
      (every hop takes time > 0), q_maxfw p <= 0 and well-formed tables, with a strictly decreasing f_tau along the chain.
      Loaded data can violate wf_data_b and pos_hops_b (section D: the loader admits arr[i+1] = dep[i]).  Here the chain
          n  --label (b, e)-->  c_from b
      is shown well founded in the lexicographic order (f_tau, stamp) — ties in f_tau (zero-duration hop, zero walk, zero
      minimum waiting time) are broken by the ghost time stamp of the scan step that wrote the label — from
          times_monotone d, fwalks_nonneg d (forward rows read by the scan have walking time >= 0),
          ffp_nodes_known d (they name stops of d_nodes), 0 <= q_minw p,
      with NO condition on q_maxfw, the tables, or positive hop durations.  All three dataset conditions follow from
      loaded_inv.
   B. hence calc_allnodes in the forward direction never answers Hang on a loaded state.
   C. the reverse calculation: the rebuild loop (Termination.v) returns at most |stops| + 2 legs, all of them rides located
      in their trip's connection list (Termination.lab_struct, OptStruct.sjs); optimizeJourney is total on such journeys
      (OptStruct.optimize_total_struct: NOT through OptTotal.optimize_total, whose hypotheses wf_data_b d and
      journey_ok_b loaded data can violate, section D); hence calc_reverse, calc_single, alternatives and calc_allnodes
      never answer Hang.
   D. witnesses: loaded states on which wf_data_b (hence every theorem that assumes it, among them the derivation of
      journey_ok_b for the rebuilt journey) and pos_hops_b fail, and the requests are answered.
   E. what is still open. *)
From Coq Require Import List ZArith Bool Arith Lia Sorted.
From TrV Require Import Spec Optimal Examples Proofs.SortFilter Proofs.RevInv Proofs.Termination Proofs.FwdOpt.
From TrV Require Import Proofs.Compose Proofs.OptStruct.
From TrV Require Import Loader Loader2 Proofs.LoaderProofs Proofs.Loader2Proofs Proofs.LoadedTimes.
Import ListNotations.
Local Open Scope Z_scope.

(* ---------------------------------------------------------------------------------------------- *)
(* A1. dataset conditions and the forward order                                                     *)

Definition fwalks_nonneg (d : data) : Prop :=
  forall c r, In c (all_conns d) -> In r (fp_of d (c_to c)) -> 0 <= fp_time r.
Definition ffp_nodes_known (d : data) : Prop :=
  forall c r, In c (all_conns d) -> In r (fp_of d (c_to c)) -> In (fp_node r) (d_nodes d).

Definition seq_asc (a b : conn) : Prop := c_trip a = c_trip b -> (c_seq a <= c_seq b)%nat.

Lemma fwd_seq_order_mono d a b : times_monotone d -> In a (all_conns d) -> In b (all_conns d) ->
  c_trip a = c_trip b -> fwd_lt b a = false -> (c_seq a <= c_seq b)%nat.
Proof.
  intros [M1 M2] Ha Hb Et Hlt.
  destruct (le_lt_dec (c_seq a) (c_seq b)) as [Hle|Hgt]; [exact Hle|exfalso].
  pose proof (M2 b a Hb Ha (eq_sym Et) Hgt) as M.
  pose proof (M1 b b Hb Hb eq_refl (le_n _)) as Mb.
  assert (T : fwd_lt b a = true) by (apply fwd_lt_iff; lia).
  congruence.
Qed.

Lemma cs_fwd_seq_sorted_mono d s : times_monotone d -> StronglySorted seq_asc (cs_fwd (conn_set d s)).
Proof.
  intros Hm.
  apply (StronglySorted_impl_in (le_of fwd_lt)).
  - intros a b Ha Hb Hle Et. apply cs_fwd_iff in Ha. apply cs_fwd_iff in Hb.
    apply (fwd_seq_order_mono d a b Hm (proj1 Ha) (proj1 Hb) Et Hle).
  - apply cs_fwd_lt_sorted.
Qed.

(* ---------------------------------------------------------------------------------------------- *)
(* A2. the forward step, as far as the label chain is concerned (any q_maxfw)                       *)

Lemma fwd_step_tspec d p k all st c :
  let st' := fwd_step d p k all st c in
  (f_tau st' = f_tau st /\ f_steps st' = f_steps st /\ f_ov st' = f_ov st) \/
  ((is_some (o_enter (f_ov st (c_trip c))) = true \/ f_tau st (c_from c) <= c_dep c - minw_eff p c) /\
   f_ov st' = upd (f_ov st) (c_trip c) (ov1_f st c) /\
   ((f_tau st' = f_tau st /\ f_steps st' = f_steps st) \/
    (exists b, o_enter (ov1_f st c) = Some b /\
       (f_tau st', f_steps st', f_egr st') =
       fold_left (fwd_fp_step p c (Some b)) (fp_of d (c_to c)) (f_tau st, f_steps st, f_egr st)))).
Proof.
  intros st'. subst st'. unfold fwd_step. cbv zeta. fold (ov1_f st c).
  destruct (Scan.f_stop st); [left; repeat split; reflexivity|].
  destruct (c_dep c >=? k_dep k + k_minAcc k); [|left; repeat split; reflexivity].
  destruct (k_disabled k (c_trip c)); [left; repeat split; reflexivity|].
  match goal with |- context [if ?b then {| f_tau := f_tau st; f_steps := f_steps st; f_ov := f_ov st; f_egr := f_egr st;
                                           f_count := f_count st; f_reached := f_reached st; f_tent := f_tent st;
                                           Scan.f_stop := true |} else _] => destruct b end;
    [left; cbn [f_tau f_steps f_ov]; repeat split; reflexivity|].
  destruct (is_some (o_enter (f_ov st (c_trip c))) || (f_tau st (c_from c) <=? c_dep c - minw_eff p c)) eqn:Ec;
    cbn [andb]; [|left; repeat split; reflexivity].
  assert (Hc : is_some (o_enter (f_ov st (c_trip c))) = true \/ f_tau st (c_from c) <= c_dep c - minw_eff p c).
  { apply orb_prop in Ec. destruct Ec as [Ec|Ec]; [left; exact Ec|right; apply Z.leb_le; exact Ec]. }
  match goal with |- context [if ?b then _ else st] => destruct b end; [|left; repeat split; reflexivity].
  right. split; [exact Hc|].
  destruct (c_cu c && is_some (o_enter (ov1_f st c))) eqn:E6.
  - apply andb_prop in E6. destruct E6 as [_ E6].
    destruct (o_enter (ov1_f st c)) as [b|] eqn:Eb1; [|discriminate].
    match goal with |- context [let '(_, _) := (if ?b then _ else _) in _] => destruct b end;
      destruct (fold_left (fwd_fp_step p c (Some b)) (fp_of d (c_to c)) (f_tau st, f_steps st, f_egr st))
        as [[t1 s1] e1] eqn:F;
      cbn [f_tau f_steps f_ov f_egr]; (split; [reflexivity|]); right; exists b; (split; [reflexivity|]); symmetry; exact F.
  - cbn [f_tau f_steps f_ov f_egr]. split; [reflexivity|]. left. split; reflexivity.
Qed.

(* ---------------------------------------------------------------------------------------------- *)
(* A3. the chain invariant                                                                          *)

Section FChain.
  Variables (d : data) (s : scenario) (p : params) (k : calc) (all : bool).
  Hypothesis Hmono : times_monotone d.
  Hypothesis Hwalk : fwalks_nonneg d.
  Hypothesis Hknown : ffp_nodes_known d.
  Hypothesis Hminw : 0 <= q_minw p.

  (* stamp n = number of the scan step that wrote the label currently stored at n; t = last step performed *)
  Record FTI (t : nat) (tau : nat -> Z) (steps : nat -> jstep) (stamp : nat -> nat) : Prop := {
    fti_le : forall n b e, js_enter (steps n) = Some b -> js_exit (steps n) = Some e -> tau (c_from b) <= tau n;
    fti_chain : forall n b e b', js_enter (steps n) = Some b -> js_exit (steps n) = Some e ->
                js_enter (steps (c_from b)) = Some b' ->
                tau (c_from b) < tau n \/ (tau (c_from b) = tau n /\ (stamp (c_from b) < stamp n)%nat);
    fti_stamp : forall n b, js_enter (steps n) = Some b -> (stamp n <= t)%nat }.

  Lemma FTI_weaken t t' tau steps stamp : (t <= t')%nat -> FTI t tau steps stamp -> FTI t' tau steps stamp.
  Proof.
    intros Hle [H1 H2 H3]. constructor; [exact H1|exact H2|].
    intros n b Hb. specialize (H3 n b Hb). lia.
  Qed.

  (* inside the footpath loop of step t for connection c boarded at b: the stop where b boards is never relabelled *)
  Definition FFI (t : nat) (b : conn) (tau : nat -> Z) (steps : nat -> jstep) (stamp : nat -> nat) : Prop :=
    FTI t tau steps stamp /\ tau (c_from b) <= c_dep b /\
    (forall b', js_enter (steps (c_from b)) = Some b' -> (stamp (c_from b) < t)%nat).

  Lemma upd_antimono (tau : nat -> Z) m v : v < tau m -> forall x, upd tau m v x <= tau x.
  Proof.
    intros H x. unfold upd. destruct (Nat.eqb x m) eqn:E; [|lia].
    apply Nat.eqb_eq in E. subst x. lia.
  Qed.

  Lemma FFI_upd t c b tau steps stamp r :
    c_dep b <= c_arr c -> 0 <= fp_time r ->
    FFI t b tau steps stamp ->
    fp_time r + c_arr c < tau (fp_node r) ->
    FFI t b (upd tau (fp_node r) (fp_time r + c_arr c))
            (upd steps (fp_node r) (tau_label c (Some b) r))
            (upd stamp (fp_node r) t).
  Proof.
    intros Hde Hw (HT & Hdep & Hst) Hlt.
    set (m := fp_node r) in *. set (v := fp_time r + c_arr c) in *.
    assert (Hv : c_dep b <= v) by (subst v; lia).
    assert (Hm : c_from b <> m) by (intros X; rewrite X in Hdep; lia).
    pose proof (upd_antimono tau m v Hlt) as M.
    destruct HT as [T1 T2 T3].
    split; [constructor|split].
    - (* fti_le *)
      intros n b0 e0 Hb He. destruct (Nat.eq_dec n m) as [En|En].
      + subst n. rewrite upd_same in Hb. unfold tau_label, mk_js in Hb. cbn [js_enter] in Hb.
        inversion Hb; subst b0. rewrite upd_same. rewrite upd_other by exact Hm. lia.
      + rewrite upd_other in Hb, He by exact En. rewrite (upd_other tau m v n En).
        specialize (T1 n b0 e0 Hb He). specialize (M (c_from b0)). lia.
    - (* fti_chain *)
      intros n b0 e0 b' Hb He Hb'. destruct (Nat.eq_dec n m) as [En|En].
      + subst n. rewrite upd_same in Hb. unfold tau_label, mk_js in Hb. cbn [js_enter] in Hb.
        inversion Hb; subst b0. rewrite upd_other in Hb' by exact Hm.
        rewrite !upd_same. rewrite !upd_other by exact Hm.
        specialize (Hst b' Hb'). lia.
      + rewrite upd_other in Hb, He by exact En.
        rewrite (upd_other tau m v n En), (upd_other stamp m t n En).
        destruct (Nat.eq_dec (c_from b0) m) as [Em|Em].
        * rewrite Em, !upd_same. left. specialize (T1 n b0 e0 Hb He). rewrite Em in T1. lia.
        * rewrite upd_other in Hb' by exact Em. rewrite !upd_other by exact Em.
          apply (T2 n b0 e0 b' Hb He Hb').
    - (* fti_stamp *)
      intros n b0 Hb. destruct (Nat.eq_dec n m) as [En|En].
      + subst n. rewrite upd_same. apply le_n.
      + rewrite upd_other in Hb by exact En. rewrite upd_other by exact En. apply (T3 n b0 Hb).
    - specialize (M (c_from b)). lia.
    - intros b' Hb'. rewrite upd_other in Hb' by exact Hm. rewrite upd_other by exact Hm. apply (Hst b' Hb').
  Qed.

  Lemma FFI_fold t c b : c_dep b <= c_arr c ->
    forall rows, (forall r, In r rows -> 0 <= fp_time r) ->
    forall tau steps egr stamp, FFI t b tau steps stamp ->
    exists stamp',
      FFI t b (fst (fst (fold_left (fwd_fp_step p c (Some b)) rows (tau, steps, egr))))
              (snd (fst (fold_left (fwd_fp_step p c (Some b)) rows (tau, steps, egr))))
              stamp'.
  Proof.
    intros Hde. induction rows as [|r rows IH]; intros Hrows tau steps egr stamp HF; cbn [fold_left].
    - exists stamp. exact HF.
    - destruct (fwd_fp_step_cases p c (Some b) tau steps egr r) as (t' & s' & e' & E & H1 & _).
      rewrite E.
      assert (Hrows' : forall r0, In r0 rows -> 0 <= fp_time r0) by (intros r0 H0; apply Hrows; right; exact H0).
      destruct H1 as [[E1 E2]|(_ & Hlt & E1 & E2)]; subst t' s'.
      + apply (IH Hrows' tau steps e' stamp HF).
      + apply (IH Hrows' _ _ e' (upd stamp (fp_node r) t)).
        apply FFI_upd; try assumption. apply Hrows. left. reflexivity.
  Qed.

  Lemma ffp_fold_tau_antimono c b : forall rows tau steps egr n,
    fst (fst (fold_left (fwd_fp_step p c (Some b)) rows (tau, steps, egr))) n <= tau n.
  Proof.
    induction rows as [|r rows IH]; intros tau steps egr n; cbn [fold_left fst]; [lia|].
    destruct (fwd_fp_step_cases p c (Some b) tau steps egr r) as (t' & s' & e' & E & H1 & _).
    rewrite E. specialize (IH t' s' e' n).
    destruct H1 as [[E1 E2]|(_ & Hlt & E1 & E2)]; subst t' s'; [exact IH|].
    pose proof (upd_antimono tau (fp_node r) _ Hlt n) as M. lia.
  Qed.

  Definition FNI (steps : nat -> jstep) : Prop := forall n b, js_enter (steps n) = Some b -> In n (d_nodes d).

  Lemma ffp_fold_ni c b : forall rows, (forall r, In r rows -> In (fp_node r) (d_nodes d)) ->
    forall tau steps egr, FNI steps ->
    FNI (snd (fst (fold_left (fwd_fp_step p c (Some b)) rows (tau, steps, egr)))).
  Proof.
    induction rows as [|r rows IH]; intros Hrows tau steps egr HN; cbn [fold_left fst snd]; [exact HN|].
    destruct (fwd_fp_step_cases p c (Some b) tau steps egr r) as (t' & s' & e' & E & H1 & _).
    rewrite E.
    assert (Hrows' : forall r0, In r0 rows -> In (fp_node r0) (d_nodes d)) by (intros r0 H0; apply Hrows; right; exact H0).
    apply (IH Hrows').
    destruct H1 as [[E1 E2]|(_ & _ & E1 & E2)]; subst t' s'; [exact HN|].
    intros n b0 Hb. destruct (Nat.eq_dec n (fp_node r)) as [En|En].
    - subst n. apply Hrows. left. reflexivity.
    - rewrite upd_other in Hb by exact En. apply (HN n b0 Hb).
  Qed.

  (* the trip overlays: the boarding connection of a trip is a connection of that trip whose departure stop was
     reached in time, and the connections of the trip still to come lie at or after it *)
  Definition FXI (tau : nat -> Z) (ov : nat -> tqd) : Prop :=
    forall t b, o_enter (ov t) = Some b -> In b (all_conns d) /\ c_trip b = t /\ tau (c_from b) <= c_dep b.

  Definition ford (ov : nat -> tqd) (rest : list conn) : Prop :=
    forall c' b, In c' rest -> o_enter (ov (c_trip c')) = Some b -> (c_seq b <= c_seq c')%nat.

  Definition FSInv (rest : list conn) (st : Scan.fstate) : Prop :=
    FXI (f_tau st) (f_ov st) /\ ford (f_ov st) rest /\ FNI (f_steps st).

  Definition FTInv (t : nat) (st : Scan.fstate) : Prop := exists stamp, FTI t (f_tau st) (f_steps st) stamp.

  Lemma FXI_antimono tau tau' ov : (forall x, tau' x <= tau x) -> FXI tau ov -> FXI tau' ov.
  Proof.
    intros M HX t b Hb. destruct (HX t b Hb) as (X1 & X2 & X3).
    split; [exact X1|]. split; [exact X2|]. specialize (M (c_from b)). lia.
  Qed.

  Lemma fwd_step_sinv c rest st t :
    In c (all_conns d) -> Forall (seq_asc c) rest -> FSInv (c :: rest) st -> FTInv t st ->
    FSInv rest (fwd_step d p k all st c) /\ FTInv (S t) (fwd_step d p k all st c).
  Proof.
    intros Hc Hsorted (HX & HO & HN) (stamp & HT).
    pose proof (fwd_step_tspec d p k all st c) as S. cbv zeta in S.
    destruct S as [(E1 & E2 & E3)|(Hq & Eov & Hrest)].
    - split.
      + unfold FSInv. rewrite E1, E2, E3. split; [exact HX|]. split; [|exact HN].
        intros c' b Hc' Hb. apply (HO c' b); [right; exact Hc'|exact Hb].
      + exists stamp. rewrite E1, E2. apply (FTI_weaken t); [lia|exact HT].
    - pose proof (ov1_cases st c) as Hex.
      pose proof (minw_eff_nonneg p c Hminw) as Hmw.
      set (ov1 := ov1_f st c) in *. set (ovm := upd (f_ov st) (c_trip c) ov1) in *.
      assert (HX1 : FXI (f_tau st) ovm).
      { intros t0 b Hb. subst ovm. destruct (Nat.eq_dec t0 (c_trip c)) as [Et|Et].
        - subst t0. rewrite upd_same in Hb. destruct Hex as [[Hex _]|(Hnone & _ & Hnew & _)].
          + rewrite Hex in Hb. apply (HX _ _ Hb).
          + rewrite Hnew in Hb. inversion Hb; subst b. split; [exact Hc|]. split; [reflexivity|].
            destruct Hq as [Hq|Hq]; [rewrite Hnone in Hq; discriminate|lia].
        - rewrite upd_other in Hb by exact Et. apply (HX _ _ Hb). }
      assert (HO1 : ford ovm rest).
      { intros c' b Hc' Hb. subst ovm. destruct (Nat.eq_dec (c_trip c') (c_trip c)) as [Et|Et].
        - rewrite Et, upd_same in Hb. destruct Hex as [[Hex _]|(_ & _ & Hnew & _)].
          + rewrite Hex, <- Et in Hb. apply (HO c' b); [right; exact Hc'|exact Hb].
          + rewrite Hnew in Hb. inversion Hb; subst b.
            rewrite Forall_forall in Hsorted. apply (Hsorted c' Hc'). symmetry. exact Et.
        - rewrite upd_other in Hb by exact Et. apply (HO c' b); [right; exact Hc'|exact Hb]. }
      destruct Hrest as [(E1 & E2)|(b & Eb & Ef)].
      + split.
        * unfold FSInv. rewrite E1, E2, Eov. split; [exact HX1|]. split; [exact HO1|exact HN].
        * exists stamp. rewrite E1, E2. apply (FTI_weaken t); [lia|exact HT].
      + assert (Hovm : o_enter (ovm (c_trip c)) = Some b) by (subst ovm; rewrite upd_same; exact Eb).
        destruct (HX1 _ _ Hovm) as (Hb & Etrip & Hdep).
        assert (Hseq : (c_seq b <= c_seq c)%nat).
        { destruct Hex as [[Hex _]|(_ & _ & Hnew & _)].
          - rewrite Hex in Eb. apply (HO c b); [left; reflexivity|exact Eb].
          - rewrite Hnew in Eb. inversion Eb; subst b. apply le_n. }
        pose proof (proj1 Hmono b c Hb Hc (eq_sym Etrip) Hseq) as Hde.
        assert (Hrows : forall r, In r (fp_of d (c_to c)) -> 0 <= fp_time r).
        { intros r Hr. exact (Hwalk c r Hc Hr). }
        assert (Hnodes : forall r, In r (fp_of d (c_to c)) -> In (fp_node r) (d_nodes d)).
        { intros r Hr. exact (Hknown c r Hc Hr). }
        assert (HF : FFI (S t) b (f_tau st) (f_steps st) stamp).
        { split; [apply (FTI_weaken t); [lia|exact HT]|]. split; [exact Hdep|].
          intros b' Hb'. pose proof (fti_stamp _ _ _ _ HT _ _ Hb'). lia. }
        destruct (FFI_fold (S t) c b Hde (fp_of d (c_to c)) Hrows (f_tau st) (f_steps st) (f_egr st) stamp HF)
          as (stamp' & HF').
        pose proof (ffp_fold_tau_antimono c b (fp_of d (c_to c)) (f_tau st) (f_steps st) (f_egr st)) as M.
        pose proof (ffp_fold_ni c b (fp_of d (c_to c)) Hnodes (f_tau st) (f_steps st) (f_egr st) HN) as HN'.
        rewrite <- Ef in HF', M, HN'. cbn [fst snd] in HF', M, HN'.
        split.
        * unfold FSInv. rewrite Eov. split; [apply (FXI_antimono (f_tau st)); [exact M|exact HX1]|].
          split; [exact HO1|exact HN'].
        * exists stamp'. exact (proj1 HF').
  Qed.

  Lemma fwd_scan_sinv : forall L st t, (forall c, In c L -> In c (all_conns d)) -> StronglySorted seq_asc L ->
    FSInv L st -> FTInv t st ->
    exists t', FSInv [] (fold_left (fwd_step d p k all) L st) /\ FTInv t' (fold_left (fwd_step d p k all) L st).
  Proof.
    induction L as [|c L IH]; intros st t HG HS HR HT; cbn [fold_left]; [exists t; split; assumption|].
    apply StronglySorted_inv in HS. destruct HS as [HS1 HS2].
    destruct (fwd_step_sinv c L st t (HG c (or_introl eq_refl)) HS2 HR HT) as [HR' HT'].
    apply (IH _ (S t)); [intros c' Hc'; apply HG; right; exact Hc'|exact HS1|exact HR'|exact HT'].
  Qed.

  (* a well-founded chain inside a finite set of stops is followed to its end *)
  Definition fklt (tau : nat -> Z) (stamp : nat -> nat) (v n : nat) : Prop :=
    tau n < tau v \/ (tau n = tau v /\ (stamp n < stamp v)%nat).

  Lemma ctf_stop' fuel steps cur n0 :
    js_enter cur = None \/ js_exit cur = None -> count_transfers_fwd fuel d steps cur n0 = Some n0.
  Proof.
    intros H. destruct fuel; cbn [count_transfers_fwd]; destruct (js_enter cur); destruct (js_exit cur);
      try reflexivity; destruct H; discriminate.
  Qed.

  Lemma ctf_step' f steps cur n0 b e : js_enter cur = Some b -> js_exit cur = Some e ->
    exists n1, count_transfers_fwd (S f) d steps cur n0 = count_transfers_fwd f d steps (steps (c_from b)) n1.
  Proof. intros H1 H2. cbn [count_transfers_fwd]. rewrite H1, H2. eexists. reflexivity. Qed.

  Lemma count_fuel_ok nodes t tau steps stamp :
    FTI t tau steps stamp ->
    (forall n b e, js_enter (steps n) = Some b -> js_exit (steps n) = Some e -> In n nodes) ->
    forall fuel n visited n0,
      NoDup visited -> incl visited nodes ->
      (forall b e, js_enter (steps n) = Some b -> js_exit (steps n) = Some e ->
                   forall v, In v visited -> fklt tau stamp v n) ->
      (length nodes < fuel + length visited)%nat ->
      exists r, count_transfers_fwd fuel d steps (steps n) n0 = Some r.
  Proof.
    intros HT Hnodes. induction fuel as [|f IH]; intros n visited n0 Hnd Hincl Hlt Hlen.
    - destruct (js_enter (steps n)) as [b|] eqn:Eb;
        [|exists n0; apply ctf_stop'; left; exact Eb].
      destruct (js_exit (steps n)) as [e|] eqn:Ee;
        [|exists n0; apply ctf_stop'; right; exact Ee].
      exfalso.
      assert (Hnot : ~ In n visited).
      { intros Hin. destruct (Hlt b e eq_refl eq_refl n Hin) as [X|[_ X]]; lia. }
      assert (Hnd' : NoDup (n :: visited)) by (constructor; assumption).
      assert (Hincl' : incl (n :: visited) nodes).
      { intros x [Hx|Hx]; [subst x; apply (Hnodes n b e Eb Ee)|apply Hincl; exact Hx]. }
      pose proof (NoDup_incl_length Hnd' Hincl') as Hl. cbn [length] in Hl. lia.
    - destruct (js_enter (steps n)) as [b|] eqn:Eb;
        [|exists n0; apply ctf_stop'; left; exact Eb].
      destruct (js_exit (steps n)) as [e|] eqn:Ee;
        [|exists n0; apply ctf_stop'; right; exact Ee].
      assert (Hnot : ~ In n visited).
      { intros Hin. destruct (Hlt b e eq_refl eq_refl n Hin) as [X|[_ X]]; lia. }
      assert (Hnd' : NoDup (n :: visited)) by (constructor; assumption).
      assert (Hincl' : incl (n :: visited) nodes).
      { intros x [Hx|Hx]; [subst x; apply (Hnodes n b e Eb Ee)|apply Hincl; exact Hx]. }
      destruct (ctf_step' f steps (steps n) n0 b e Eb Ee) as (n1 & E). rewrite E.
      apply (IH (c_from b) (n :: visited)); [exact Hnd'|exact Hincl'| |cbn [length]; lia].
      intros b' e' Hb' He' v Hv.
      pose proof (fti_chain _ _ _ _ HT n b e b' Eb Ee Hb') as Hstep.
      destruct Hv as [Hv|Hv].
      + subst v. exact Hstep.
      + pose proof (Hlt b e eq_refl eq_refl v Hv) as Hvn. unfold fklt in *. lia.
  Qed.

End FChain.

(* ---------------------------------------------------------------------------------------------- *)
(* A4. the theorem                                                                                  *)

(* what the argument needs of the calculator (part of FwdOpt.fwd_pre) *)
Record fwd_pre_chain (d : data) (s : scenario) (k : calc) : Prop := {
  fc_set : k_set k = conn_set d s;
  fc_ov : forall t, o_enter (k_ov k t) = None;
  fc_steps : forall n, js_enter (k_fsteps k n) = None }.

Lemma fwd_scan_tinv_mono d s p k all fs :
  times_monotone d -> fwalks_nonneg d -> ffp_nodes_known d -> 0 <= q_minw p -> fwd_pre_chain d s k ->
  fwd_scan d p k all = Ok fs ->
  (exists t stamp, FTI t (f_tau fs) (f_steps fs) stamp) /\ FNI d (f_steps fs).
Proof.
  intros Hmono Hwalk Hknown Hminw Hpre Hscan.
  unfold fwd_scan in Hscan. destruct (fwd_entry (k_set k) (hour_of (k_dep k))) as [i|]; [|discriminate].
  rewrite (fc_set _ _ _ Hpre) in Hscan. inversion Hscan as [Hst]. clear Hscan.
  set (L := skipn i (cs_fwd (conn_set d s))).
  assert (HG : forall c, In c L -> In c (all_conns d)).
  { intros c Hc. subst L. apply in_skipn in Hc. apply cs_fwd_iff in Hc. exact (proj1 Hc). }
  assert (HS : StronglySorted seq_asc L).
  { subst L. apply StronglySorted_skipn. apply cs_fwd_seq_sorted_mono. exact Hmono. }
  assert (H0 : FSInv d L (fwd_init k)).
  { unfold FSInv, fwd_init. cbn [f_tau f_steps f_ov]. split; [|split].
    - intros t b Hb. rewrite (fc_ov _ _ _ Hpre) in Hb. discriminate.
    - intros c' b _ Hb. rewrite (fc_ov _ _ _ Hpre) in Hb. discriminate.
    - intros n b Hb. rewrite (fc_steps _ _ _ Hpre) in Hb. discriminate. }
  assert (T0 : FTInv 0 (fwd_init k)).
  { exists (fun _ => 0%nat). unfold fwd_init. cbn [f_tau f_steps].
    constructor; intros n b; rewrite (fc_steps _ _ _ Hpre); discriminate. }
  destruct (fwd_scan_sinv d p k all Hmono Hwalk Hknown Hminw L (fwd_init k) 0%nat HG HS H0 T0)
    as (t' & (_ & _ & HN) & (stamp & HT)).
  split; [exists t', stamp; exact HT|exact HN].
Qed.

(* from any starting label, following the forward labels of the final state ends within |d_nodes| + 1 steps *)
Theorem count_transfers_fwd_terminates_mono : forall d s p k all fs start n0,
  times_monotone d -> fwalks_nonneg d -> ffp_nodes_known d -> 0 <= q_minw p -> fwd_pre_chain d s k ->
  fwd_scan d p k all = Ok fs ->
  exists r, count_transfers_fwd (REBUILD_FUEL d) d (f_steps fs) start n0 = Some r.
Proof.
  intros d s p k all fs start n0 Hmono Hwalk Hknown Hminw Hpre Hscan.
  destruct (fwd_scan_tinv_mono d s p k all fs Hmono Hwalk Hknown Hminw Hpre Hscan) as ((t & stamp & HT) & HN).
  destruct (js_enter start) as [b0|] eqn:Eb;
    [|exists n0; apply ctf_stop'; left; exact Eb].
  destruct (js_exit start) as [e0|] eqn:Ee;
    [|exists n0; apply ctf_stop'; right; exact Ee].
  rewrite REBUILD_FUEL_S.
  destruct (ctf_step' d (4 * length (d_nodes d) + 63) (f_steps fs) start n0 b0 e0 Eb Ee) as (n1 & E). rewrite E.
  apply (count_fuel_ok d (d_nodes d) t (f_tau fs) (f_steps fs) stamp HT) with (visited := []).
  - intros n b e Hb _. apply (HN n b Hb).
  - constructor.
  - intros x Hx. destruct Hx.
  - intros b e _ _ v Hv. destruct Hv.
  - cbn [length]. lia.
Qed.

(* forwardJourneyStepAllNodes never exhausts the fuel of its transfer count *)
Corollary fwd_allnodes_loop_no_hang_mono : forall d s p k all fs,
  times_monotone d -> fwalks_nonneg d -> ffp_nodes_known d -> 0 <= q_minw p -> fwd_pre_chain d s k ->
  fwd_scan d p k all = Ok fs ->
  forall nodes, fwd_allnodes_loop d p k fs nodes <> Hang.
Proof.
  intros d s p k all fs Hmono Hwalk Hknown Hminw Hpre Hscan.
  induction nodes as [|n r IH]; cbn [fwd_allnodes_loop]; [discriminate|].
  destruct (f_egr fs n) as [j|]; [|exact IH].
  destruct (count_transfers_fwd_terminates_mono d s p k all fs j (-1) Hmono Hwalk Hknown Hminw Hpre Hscan) as (ntr & E).
  rewrite E.
  destruct (fwd_allnodes_loop d p k fs r) as [rest| | | | | | | |]; cbn [bind]; try discriminate;
    [|exfalso; apply IH; reflexivity].
  destruct (js_enter j); [|discriminate]. destruct (js_exit j) as [e|]; [|discriminate].
  destruct (c_arr e - k_dep k <=? q_maxtt p); discriminate.
Qed.

(* the old hypotheses give the new ones *)
Lemma wf_fwalks_nonneg d : wf_data_b d = true -> fwalks_nonneg d.
Proof.
  intros Hwf c r Hc Hr.
  assert (Hn : In (c_to c) (d_nodes d)).
  { destruct (all_conns_in d c Hc) as (tr & Htr & Hin).
    destruct (RevInv.wf_trip d Hwf tr Htr) as (pth & Hp & _ & _).
    unfold trip_conns in Hin. apply LoaderProofs.mk_conns_stops_in in Hin. destruct Hin as [_ Hin].
    unfold trip_nodes in Hin. rewrite Hp in Hin.
    unfold find_path in Hp. apply find_some in Hp. destruct Hp as [Hp _].
    apply (wf_path_nodes d Hwf pth Hp). exact Hin. }
  exact (proj1 (wf_fp_rows d Hwf (c_to c) Hn) r Hr).
Qed.

(* ---------------------------------------------------------------------------------------------- *)
(* B. loaded data                                                                                   *)

Lemma fp_of_in : forall d n r, In r (fp_of d n) -> exists rows, assoc n (d_fp d) = Some rows /\ In r rows.
Proof.
  intros d n r Hr. unfold fp_of in Hr. destruct (assoc n (d_fp d)) as [rows|]; [|destruct Hr].
  exists rows. split; [reflexivity|exact Hr].
Qed.

Theorem loaded_fwalks_nonneg : forall m, loaded_inv m -> fwalks_nonneg (data_of m).
Proof.
  intros m Hinv c r _ Hr.
  destruct (fp_of_in (data_of m) (c_to c) r Hr) as (rows & Ha & Hin).
  apply assoc_in in Ha. destruct Ha as [k Hk].
  exact (proj1 (loaded_footpath_times_nonneg m Hinv) k rows r Hk Hin).
Qed.

Theorem loaded_ffp_nodes_known : forall m, loaded_inv m -> ffp_nodes_known (data_of m).
Proof.
  intros m [_ _ H3 _] c r _ Hr.
  destruct (fp_of_in (data_of m) (c_to c) r Hr) as (rows & Ha & Hin).
  unfold data_of in Ha. cbn [d_fp] in Ha. unfold data_of. cbn [d_nodes].
  destruct H3 as [_ [_ [Hfp _]]].
  apply memb_true_in. exact (table_known_assoc _ _ (c_to c) rows r Hfp Ha Hin).
Qed.

(* the calculators built by mk_calc satisfy the chain precondition, whatever the tables *)
Lemma mk_calc_fwd_pre_chain : forall d s p acc egr ho hd, fwd_pre_chain d s (mk_calc d p (conn_set d s) acc egr ho hd).
Proof.
  intros d s p acc egr ho hd. constructor.
  - reflexivity.
  - intros t. reflexivity.
  - intros n. unfold mk_calc. cbn [k_fsteps]. destruct ho; [apply seed_steps_enter|reflexivity].
Qed.

(* Whatever files were loaded and refreshed, the transfer count of the forward accessibility calculation ends within
   its fuel: only 0 <= q_minw p is asked of the request *)
Theorem loaded_count_transfers_fwd_terminates : forall m s p k all fs start n0,
  loaded_inv m -> 0 <= q_minw p -> fwd_pre_chain (data_of m) s k ->
  fwd_scan (data_of m) p k all = Ok fs ->
  exists r, count_transfers_fwd (REBUILD_FUEL (data_of m)) (data_of m) (f_steps fs) start n0 = Some r.
Proof.
  intros m s p k all fs start n0 Hinv Hminw Hpre Hscan.
  exact (count_transfers_fwd_terminates_mono (data_of m) s p k all fs start n0 (loaded_times_monotone m Hinv)
           (loaded_fwalks_nonneg m Hinv) (loaded_ffp_nodes_known m Hinv) Hminw Hpre Hscan).
Qed.

Lemma fwd_scan_not_hang d p k a : fwd_scan d p k a <> Hang.
Proof. unfold fwd_scan. destruct (fwd_entry (k_set k) (hour_of (k_dep k))); discriminate. Qed.

(* calculateAllNodes in the forward direction never hangs on a loaded state *)
Theorem loaded_calc_allnodes_fwd_no_hang : forall m s p rows,
  loaded_inv m -> 0 <= q_minw p -> q_fwd p = true ->
  calc_allnodes (data_of m) (conn_set (data_of m) s) p rows <> Hang.
Proof.
  intros m s p rows Hinv Hminw Hfwd. unfold calc_allnodes. cbv zeta. rewrite Hfwd.
  destruct (access_reason (nonempty rows) true); [discriminate|].
  set (k := mk_calc (data_of m) p (conn_set (data_of m) s) rows [] true false).
  destruct (k_dep k >? -1); [|discriminate].
  pose proof (fwd_scan_not_hang (data_of m) p k true) as Hnh.
  destruct (fwd_scan (data_of m) p k true) as [fs| | | | | | | |] eqn:Hscan; cbn [bind]; try discriminate;
    [|exfalso; apply Hnh; reflexivity].
  destruct (f_count fs =? 0); [discriminate|].
  pose proof (fwd_allnodes_loop_no_hang_mono (data_of m) s p k true fs (loaded_times_monotone m Hinv)
                (loaded_fwalks_nonneg m Hinv) (loaded_ffp_nodes_known m Hinv) Hminw
                (mk_calc_fwd_pre_chain (data_of m) s p rows [] true false) Hscan (d_nodes (data_of m))) as Hloop.
  destruct (fwd_allnodes_loop (data_of m) p k fs (d_nodes (data_of m))) as [l| | | | | | | |]; cbn [bind];
    try discriminate. exfalso. apply Hloop. reflexivity.
Qed.

Corollary server_calc_allnodes_fwd_no_hang : forall f0 l s p rows,
  let d := data_of (sv_mem (refreshes l {| sv_mem := fst (load_all f0); sv_dangling := [] |})) in
  0 <= q_minw p -> q_fwd p = true -> calc_allnodes d (conn_set d s) p rows <> Hang.
Proof.
  intros f0 l s p rows d Hminw Hfwd.
  exact (loaded_calc_allnodes_fwd_no_hang _ s p rows (server_loaded_inv f0 l) Hminw Hfwd).
Qed.

(* ---------------------------------------------------------------------------------------------- *)
(* C. the reverse calculation on a loaded state: rebuild AND optimize end within their fuel          *)

(* C1. the rebuild loop returns at most |stops| + 2 legs (weak hypotheses; Compose.rebuild_legs_bound under wf_data_b) *)
Lemma rebuild_chain_bound : forall d s p k st start,
  times_monotone d -> walks_nonneg d -> rfp_nodes_known d -> 0 <= q_minw p -> rev_pre_chain d s k ->
  rev_scan d p k false = Ok st ->
  exists legs last, rebuild (REBUILD_FUEL d) (r_steps st) start [] None = Some (legs, last) /\
                    (length legs <= S (S (length (d_nodes d))))%nat.
Proof.
  intros d s p k st start Hmono Hwalk Hknown Hminw Hpre Hscan.
  destruct (rev_scan_chain d s p k st Hmono Hwalk Hknown Hminw Hpre Hscan) as ((t & stamp & HT) & HN & _).
  set (n := length (d_nodes d)).
  assert (Hsmall : exists legs' last', rebuild (S (S n)) (r_steps st) start [] None = Some (legs', last')).
  { destruct (js_enter start) as [b0|] eqn:Eb; [|exists [], None; apply rebuild_stop; left; exact Eb].
    destruct (js_exit start) as [e0|] eqn:Ee; [|exists [], None; apply rebuild_stop; right; exact Ee].
    rewrite (rebuild_step _ (r_steps st) start [] None b0 e0 Eb Ee).
    apply (rebuild_fuel_ok (d_nodes d) t (r_taur st) (r_steps st) stamp HT) with (visited := []).
    - intros m b e Hb _. apply (HN m b Hb).
    - constructor.
    - intros x Hx. destruct Hx.
    - intros b e _ _ v Hv. destruct Hv.
    - cbn [length]. subst n. lia. }
  destruct Hsmall as (legs' & last' & Hs).
  pose proof (rebuild_more_fuel _ _ _ _ _ _ Hs (REBUILD_FUEL d - S (S n))%nat) as Hm.
  replace (S (S n) + (REBUILD_FUEL d - S (S n)))%nat with (REBUILD_FUEL d) in Hm
    by (unfold REBUILD_FUEL; subst n; lia).
  exists legs', last'. split; [exact Hm|].
  apply rebuild_length in Hs. cbn [length] in Hs. lia.
Qed.

(* C2. what optimize needs of the data, from the loaders: mem_ok (every trip resolves to a loaded path whose stops are
   loaded stops) and loaded_inv.  Both hold after start-up and after /updateCache?names=all (Loader2Proofs.load_all_ok,
   update_all_ok); loaded_inv alone survives partial refreshes, mem_ok does not (a refreshed stop collection may drop
   stops a kept path still names: the C++ then reads through dangling references, Loader2.refs_safe). *)
Lemma NoDup_nodup_nat : forall l, NoDup l -> nodup_nat l = true.
Proof.
  induction l as [|x l IH]; intros H; [reflexivity|].
  inversion H as [|x' l' Hx Hl]; subst x' l'. cbn [nodup_nat].
  rewrite (IH Hl), andb_true_r. apply negb_true_iff.
  destruct (memb x l) eqn:E; [|reflexivity]. exfalso. apply Hx. apply memb_true_in. exact E.
Qed.

Lemma loaded_nodup_trips : forall m, loaded_inv m -> nodup_nat (map t_id (d_trips (data_of m))) = true.
Proof.
  intros m Hinv. unfold data_of. cbn [d_trips]. apply NoDup_nodup_nat. apply ssorted_nodup. exact (li_ids m Hinv).
Qed.

Lemma loaded_conn_to_known : forall m, mem_ok m -> conn_to_known (data_of m).
Proof.
  intros m Hok c Hc. destruct (all_conns_in (data_of m) c Hc) as (tr & Htr & Hin).
  unfold data_of in Htr. cbn [d_trips] in Htr.
  exact (proj2 (proj2 (mem_ok_conns_safe m tr Hok Htr) c Hin)).
Qed.

Lemma is_walk_walk_step : forall r, is_walk (walk_step r) = true.
Proof. intros r. reflexivity. Qed.

Section LoadedReverse.
  Variables (m : mem) (s : scenario) (p : params) (k : calc).
  Hypothesis Hok : mem_ok m.
  Hypothesis Hinv : loaded_inv m.
  Hypothesis Hminw : 0 <= q_minw p.
  Hypothesis Hpre : rev_pre_chain (data_of m) s k.
  Let d := data_of m.

  (* every journey the rebuild loop hands to optimizeJourney is structurally valid and short *)
  Lemma loaded_rebuild_struct : forall st start,
    rev_scan d p k false = Ok st -> lab_struct d start ->
    exists legs last, rebuild (REBUILD_FUEL d) (r_steps st) start [] None = Some (legs, last) /\
                      (length legs <= S (S (length (d_nodes d))))%nat /\ sjs d legs.
  Proof.
    intros st start Hscan Hstart.
    pose proof (loaded_times_monotone m Hinv) as Hmono.
    pose proof (loaded_walks_nonneg m Hinv) as Hwalk.
    pose proof (loaded_rfp_nodes_known m Hinv) as Hknown.
    pose proof (loaded_nodup_trips m Hinv) as Hnd.
    destruct (rebuild_chain_bound d s p k st start Hmono Hwalk Hknown Hminw Hpre Hscan) as (legs & last & Hreb & Hlen).
    destruct (rev_scan_chain d s p k st Hmono Hwalk Hknown Hminw Hpre Hscan) as (_ & _ & HL & _).
    exists legs, last. split; [exact Hreb|]. split; [exact Hlen|].
    eapply (rebuild_Forall (selem d) (selem_set_walk d)); [| | |exact Hreb].
    - intros n b Hb. apply (lab_struct_selem d Hnd). apply (HL n b Hb).
    - intros b _. apply (lab_struct_selem d Hnd). exact Hstart.
    - constructor.
  Qed.

  Lemma loaded_optimize_done : forall js, sjs d js -> (length js <= 4 * S (length (d_nodes d)))%nat ->
    exists js' used, optimize (OPT_FUEL d) d js [] [] = OptDone js' used.
  Proof.
    intros js Hs Hlen.
    exact (optimize_total_struct d (loaded_nodup_trips m Hinv) (loaded_times_monotone m Hinv)
             (loaded_conn_to_known m Hok) js Hs Hlen).
  Qed.

  (* reverseJourneyStep: neither the rebuild loop nor optimizeJourney exhausts its fuel *)
  Theorem loaded_rev_journey_no_hang : forall st best,
    rev_scan d p k false = Ok st -> rev_journey d p k st best <> Hang.
  Proof.
    intros st best Hscan. unfold rev_journey.
    destruct best as [[bestdep node]|]; [|discriminate].
    destruct (r_acc st node) as [start|] eqn:Hstart; [|discriminate].
    assert (Hlab : lab_struct d start).
    { destruct (rev_scan_chain d s p k st (loaded_times_monotone m Hinv) (loaded_walks_nonneg m Hinv)
                  (loaded_rfp_nodes_known m Hinv) Hminw Hpre Hscan) as (_ & _ & _ & HA).
      exact (HA node start Hstart). }
    destruct (loaded_rebuild_struct st start Hscan Hlab) as (legs & last & Hreb & Hlen & Hlegs).
    rewrite Hreb.
    destruct (row_of node (k_accfp k)) as [ar|]; [|discriminate].
    destruct last as [ln|]; [|discriminate].
    destruct (row_of ln (k_egrfp k)) as [er|]; [|discriminate].
    destruct (loaded_optimize_done (walk_step ar :: legs ++ [walk_step er])) as (js' & used & Hopt).
    - constructor; [left; apply is_walk_walk_step|]. apply Forall_app. split; [exact Hlegs|].
      constructor; [left; apply is_walk_walk_step|constructor].
    - cbn [length]. rewrite app_length. cbn [length]. lia.
    - cbv zeta. rewrite Hopt. discriminate.
  Qed.

  Theorem loaded_calc_reverse_no_hang : calc_reverse d p k <> Hang.
  Proof.
    unfold calc_reverse.
    pose proof (rev_scan_not_hang d p k false) as Hnh.
    destruct (rev_scan d p k false) as [st| | | | | | | |] eqn:Hscan; cbn [bind]; try discriminate;
      [|exfalso; apply Hnh; reflexivity].
    destruct (r_count st =? 0); [discriminate|].
    apply loaded_rev_journey_no_hang. exact Hscan.
  Qed.
End LoadedReverse.

(* reverseJourneyStepAllNodes *)
Lemma rev_pre_chain_allnodes : forall d s k, rev_pre_chain d s k -> rev_pre_chain d s (allnodes_calc k).
Proof. intros d s k [H1 H2 H3]. constructor; assumption. Qed.

Theorem loaded_rev_allnodes_loop_no_hang : forall m s p k st,
  mem_ok m -> loaded_inv m -> 0 <= q_minw p -> rev_pre_chain (data_of m) s k ->
  rev_scan (data_of m) p k true = Ok st ->
  forall nodes, rev_allnodes_loop (data_of m) p k st nodes <> Hang.
Proof.
  intros m s p k st Hok Hinv Hminw Hpre Hscan.
  destruct (rev_scan_allnodes_sim (data_of m) p k st Hscan) as (st' & Hscan' & (_ & Esteps & _ & Eacc & _)).
  pose proof (rev_pre_chain_allnodes _ _ _ Hpre) as Hpre'.
  destruct (rev_scan_chain (data_of m) s p (allnodes_calc k) st' (loaded_times_monotone m Hinv)
              (loaded_walks_nonneg m Hinv) (loaded_rfp_nodes_known m Hinv) Hminw Hpre' Hscan') as (_ & _ & _ & HA).
  induction nodes as [|n r IH]; cbn [rev_allnodes_loop]; [discriminate|].
  destruct (r_acc st n) as [start|] eqn:Hstart; [|exact IH].
  assert (Hlab : lab_struct (data_of m) start) by (apply (HA n start); rewrite <- Eacc; exact Hstart).
  destruct (loaded_rebuild_struct m s p (allnodes_calc k) Hinv Hminw Hpre' st' start Hscan' Hlab)
    as (legs & last & Hreb & Hlen & Hlegs).
  rewrite Esteps, Hreb.
  destruct last as [ln|]; [|discriminate].
  destruct (row_of ln (k_egrfp k)) as [er|]; [|discriminate].
  destruct (loaded_optimize_done m Hok Hinv (legs ++ [walk_step er])) as (js' & used & Hopt).
  - apply Forall_app. split; [exact Hlegs|]. constructor; [left; apply is_walk_walk_step|constructor].
  - rewrite app_length. cbn [length]. lia.
  - rewrite Hopt.
    destruct (rev_allnodes_loop (data_of m) p k st r) as [rest| | | | | | | |]; cbn [bind]; try discriminate;
      [|exfalso; apply IH; reflexivity].
    destruct (js_enter start) as [b|]; [|discriminate].
    destruct (k_arr k - (c_dep b - minw_eff p b) <=? q_maxtt p); discriminate.
Qed.

(* C3. the calculators of calc_single / calc_allnodes *)
Lemma mk_calc_rev_pre_chain_arrival : forall d s p acc egr ho hd,
  let k := mk_calc d p (conn_set d s) acc egr ho hd in
  rev_pre_chain d s (with_rev k (k_arr k) (-1) (k_taur k) (set_usable (k_ov k))).
Proof.
  intros d s p acc egr ho hd k. constructor.
  - reflexivity.
  - intros n. subst k. unfold with_rev, mk_calc. cbn [k_rsteps]. destruct hd; [apply seed_steps_enter|reflexivity].
  - intros t. reflexivity.
Qed.

Lemma mk_calc_rev_pre_chain_departure : forall d s p acc egr ho hd all fs best dep taur,
  let k := mk_calc d p (conn_set d s) acc egr ho hd in
  fwd_scan d p k all = Ok fs ->
  rev_pre_chain d s (with_rev k best dep taur (f_ov fs)).
Proof.
  intros d s p acc egr ho hd all fs best dep taur k Hscan. constructor.
  - reflexivity.
  - intros n. subst k. unfold with_rev, mk_calc. cbn [k_rsteps]. destruct hd; [apply seed_steps_enter|reflexivity].
  - unfold with_rev. cbn [k_ov]. apply (fwd_scan_no_exit d p k all fs); [|exact Hscan]. intros t. reflexivity.
Qed.

(* calculateSingle never hangs on a loaded state: any scenario, any tables, any request with q_minw >= 0 *)
Theorem loaded_calc_single_no_hang : forall m s p acc egr fresh,
  mem_ok m -> loaded_inv m -> 0 <= q_minw p ->
  calc_single (data_of m) (conn_set (data_of m) s) p acc egr fresh <> Hang.
Proof.
  intros m s p acc egr fresh Hok Hinv Hminw. unfold calc_single.
  destruct (access_reason (negb fresh || nonempty acc) (negb fresh || nonempty egr)); [discriminate|].
  cbv zeta.
  set (k := mk_calc (data_of m) p (conn_set (data_of m) s) acc egr true true).
  destruct ((k_dep k >? -1) && q_fwd p).
  - pose proof (fwd_scan_not_hang (data_of m) p k false) as Hnh.
    destruct (fwd_scan (data_of m) p k false) as [fs| | | | | | | |] eqn:Hscan; cbn [bind]; try discriminate;
      [|exfalso; apply Hnh; reflexivity].
    destruct (f_count fs =? 0); [discriminate|].
    destruct (best_egress p k fs) as [[best bn]|]; [|discriminate].
    apply (loaded_calc_reverse_no_hang m s p _ Hok Hinv Hminw).
    apply (mk_calc_rev_pre_chain_departure (data_of m) s p acc egr true true false fs). exact Hscan.
  - destruct (k_arr k >? -1); [|discriminate].
    apply (loaded_calc_reverse_no_hang m s p _ Hok Hinv Hminw).
    apply (mk_calc_rev_pre_chain_arrival (data_of m) s p acc egr true true).
Qed.

(* calculateAllNodes never hangs on a loaded state, in either direction *)
Theorem loaded_calc_allnodes_no_hang : forall m s p rows,
  mem_ok m -> loaded_inv m -> 0 <= q_minw p ->
  calc_allnodes (data_of m) (conn_set (data_of m) s) p rows <> Hang.
Proof.
  intros m s p rows Hok Hinv Hminw.
  destruct (q_fwd p) eqn:Hfwd; [apply loaded_calc_allnodes_fwd_no_hang; assumption|].
  unfold calc_allnodes. cbv zeta. rewrite Hfwd.
  destruct (access_reason true (nonempty rows)); [discriminate|].
  set (k0 := mk_calc (data_of m) p (conn_set (data_of m) s) [] rows false true).
  set (k := with_rev k0 (k_arr k0) (-1) (k_taur k0) (set_usable (k_ov k0))).
  destruct (k_arr k >? -1); [|discriminate].
  pose proof (rev_scan_not_hang (data_of m) p k true) as Hnh.
  destruct (rev_scan (data_of m) p k true) as [st| | | | | | | |] eqn:Hscan; cbn [bind]; try discriminate;
    [|exfalso; apply Hnh; reflexivity].
  destruct (r_count st =? 0); [discriminate|].
  pose proof (loaded_rev_allnodes_loop_no_hang m s p k st Hok Hinv Hminw
                (mk_calc_rev_pre_chain_arrival (data_of m) s p [] rows false true) Hscan (d_nodes (data_of m))) as Hloop.
  destruct (rev_allnodes_loop (data_of m) p k st (d_nodes (data_of m))) as [l| | | | | | | |]; cbn [bind];
    try discriminate. exfalso. apply Hloop. reflexivity.
Qed.

(* alternativesRouting: its loop performs calculateSingle with other excepted lines and travel-time caps only *)
Lemma alt_loop_no_hang : forall d cs p acc egr,
  (forall ap, q_minw ap = q_minw p -> calc_single d cs ap acc egr false <> Hang) ->
  forall fuel altp base st i, alt_loop fuel d cs p altp acc egr base st i <> Hang.
Proof.
  intros d cs p acc egr Hcs. induction fuel as [|f IH]; intros altp base st i; cbn [alt_loop]; [discriminate|].
  destruct (nth_error (a_all st) i) as [comb|]; [|discriminate].
  destruct ((a_count st <? MAX_ALTERNATIVES) && (a_seq st - 1 <? MAX_VALID_ALTERNATIVES)); [|discriminate].
  cbv zeta.
  pose proof (Hcs (with_alt p altp (base ++ comb)) eq_refl) as Hne.
  destruct (calc_single d cs (with_alt p altp (base ++ comb)) acc egr false) as [[r u]| | | | | | | |];
    try discriminate; try apply IH.
  exfalso. apply Hne. reflexivity.
Qed.

Theorem loaded_alternatives_no_hang : forall m s p acc egr,
  mem_ok m -> loaded_inv m -> 0 <= q_minw p ->
  alternatives (data_of m) (conn_set (data_of m) s) p acc egr <> Hang.
Proof.
  intros m s p acc egr Hok Hinv Hminw. unfold alternatives.
  pose proof (loaded_calc_single_no_hang m s p acc egr true Hok Hinv Hminw) as H1.
  destruct (calc_single (data_of m) (conn_set (data_of m) s) p acc egr true) as [first| | | | | | | |];
    cbn [bind]; try discriminate; [|exfalso; apply H1; reflexivity].
  cbv zeta.
  match goal with |- bind ?x _ <> _ => pose proof (alt_loop_no_hang (data_of m) (conn_set (data_of m) s) p acc egr
      (fun ap Hap => loaded_calc_single_no_hang m s ap acc egr false Hok Hinv ltac:(rewrite Hap; exact Hminw))
      ALT_FUEL (alt_maxtt p (fst first)) (q_except_lines p)) as H2; destruct x eqn:E end;
    cbn [bind]; try discriminate.
  exfalso. eapply H2. exact E.
Qed.

(* the server of Loader2 after start-up on ANY files, or after /updateCache?names=all with ANY files from any state *)
Corollary started_server_never_hangs : forall f s p acc egr rows,
  let d := data_of (fst (load_all f)) in
  0 <= q_minw p ->
  (forall fresh, calc_single d (conn_set d s) p acc egr fresh <> Hang) /\
  alternatives d (conn_set d s) p acc egr <> Hang /\
  calc_allnodes d (conn_set d s) p rows <> Hang.
Proof.
  intros f s p acc egr rows d Hminw.
  pose proof (load_all_ok f) as Hok. pose proof (load_all_loaded_inv f) as Hinv.
  split; [intros fresh; apply loaded_calc_single_no_hang; assumption|].
  split; [apply loaded_alternatives_no_hang; assumption|apply loaded_calc_allnodes_no_hang; assumption].
Qed.

Corollary refreshed_server_never_hangs : forall f sv0 s p acc egr rows,
  let d := data_of (sv_mem (update f [CAll] sv0)) in
  0 <= q_minw p ->
  (forall fresh, calc_single d (conn_set d s) p acc egr fresh <> Hang) /\
  alternatives d (conn_set d s) p acc egr <> Hang /\
  calc_allnodes d (conn_set d s) p rows <> Hang.
Proof.
  intros f sv0 s p acc egr rows d Hminw.
  pose proof (update_all_ok f sv0) as Hok.
  assert (Hinv : loaded_inv (sv_mem (update f [CAll] sv0))).
  { rewrite update_all_mem.
    apply mem_ok_loaded_inv; [apply full_mem_ok|apply full_mem_times_in_order|apply full_mem_walks_nonneg]. }
  split; [intros fresh; apply loaded_calc_single_no_hang; assumption|].
  split; [apply loaded_alternatives_no_hang; assumption|apply loaded_calc_allnodes_no_hang; assumption].
Qed.

(* ---------------------------------------------------------------------------------------------- *)
(* D. the hypotheses of the wf_data_b theorems that loaded data violates                            *)

(* a stop file may list the stop itself with a positive walking time (wf_data_b: self rows are 0 s), and the loader puts
   no upper bound on walking times or clock times; with such a file in place of stop 2's, w_data of LoadedTimes.v loads
   into a dataset that is not well formed (its tables hold a 50 s transfer from stop 2 to itself), and the request is answered *)
Definition v_files : fs :=
  let f := encode_all w_data in
  {| f_nodes := f_nodes f;
     f_stop := fun n => if Nat.eqb n 2 then FDecoded [ {| fm_node := Some 2%nat; fm_time := 50; fm_dist := 0 |} ]
                        else Loader2.f_stop f n;
     f_datasources := f_datasources f; f_agencies := f_agencies f; f_services := f_services f;
     f_lines := f_lines f; f_paths := f_paths f; f_scenarios := f_scenarios f; f_line := f_line f |}.
Definition v_loaded : data := data_of (fst (load_all v_files)).

Example v_not_wf :
  snd (load_all v_files) = ST_READY /\ wf_data_b v_loaded = false /\ footpaths_ok v_loaded = false /\
  match route_answer v_loaded scen_all w_params w_acc w_egr with
  | Ok (r, _) => rt_dep r = 85 /\ rt_arr r = 210
  | _ => False
  end.
Proof. vm_compute. repeat split; reflexivity. Qed.

(* zero-duration hops (arr[i+1] = dep[i]) pass the loader's stop-time check: pos_hops_b, which FwdOpt.F_count_terminates
   assumes, fails on the loaded Termination.z_data (its healthy files); forward accessibility is answered *)
Definition z_loaded : data := data_of (fst (load_all (encode_all z_data))).
Definition z_fwd_params : params :=
  {| q_scenario := 1; q_time := 50; q_minw := 0; q_maxtt := MAX_INT; q_maxacc := 1200; q_maxegr := 1200;
     q_maxtr := 1200; q_maxfw := -1; q_fwd := true; q_except_lines := [] |}.

Example z_zero_hops :
  pos_hops_b z_loaded = false /\
  match access_answer z_loaded scen_all z_fwd_params z_acc with
  | Ok (l, _) => map an_node l = [1; 2; 3]%nat
  | _ => False
  end.
Proof. vm_compute. repeat split; reflexivity. Qed.

Print Assumptions count_transfers_fwd_terminates_mono.
Print Assumptions fwd_allnodes_loop_no_hang_mono.
Print Assumptions loaded_count_transfers_fwd_terminates.
Print Assumptions loaded_calc_allnodes_fwd_no_hang.
Print Assumptions server_calc_allnodes_fwd_no_hang.
Print Assumptions rebuild_chain_bound.
Print Assumptions loaded_rev_journey_no_hang.
Print Assumptions loaded_calc_reverse_no_hang.
Print Assumptions loaded_rev_allnodes_loop_no_hang.
Print Assumptions loaded_calc_single_no_hang.
Print Assumptions loaded_calc_allnodes_no_hang.
Print Assumptions loaded_alternatives_no_hang.
Print Assumptions started_server_never_hangs.
Print Assumptions refreshed_server_never_hangs.
Print Assumptions v_not_wf.
Print Assumptions z_zero_hops.

(* E. OPEN
   1. Only Hang is excluded.  The other abnormal outcomes of the calculations on loaded data (UB U_INDEX of the hour index,
      Exn of rev_journey's table lookups) are excluded by Compose.v under wf_data_b only; OptStruct shows that optimize
      itself returns OptDone (neither OptUB nor OptHang) on loaded data.
   2. States reached by PARTIAL /updateCache requests keep loaded_inv (LoadedTimes.update_loaded_inv), so the rebuild loop
      and count_transfers_fwd terminate there too; mem_ok can fail there (a kept path may name a dropped stop), which
      optimize_total_struct needs for its measure (ignored stops are stops of d_nodes): not covered.  The C++ is undefined in
      those states anyway (dangling references: Loader2.refs_safe = false).
   3. The validity / optimality theorems (C01-C09) still assume wf_data_b: loaded data outside wf_data_b is routed on,
      terminates, but nothing is claimed about the itinerary (v_not_wf: the tables hold a 50 s "transfer" from a stop to itself). *)
