(* SkelTie.v — the model's scan step functions compute what the interpreter of Skel.v computes on the control
   skeletons tools/gen_skel.py reads from the current C++ sources (gen/Skel.v, regenerated on every run).

   GuardsTie.v ties the model to a HAND-WRITTEN skeleton (`fwd_step_sk`, `rev_step_sk`, ...) instantiated with the
   generated guards; here that hand-written skeleton is replaced by the generated one:

     fwd_step d p k false st c  ==  run_fwd fwd_code    d p k c gen_fwd_skel    l0 st     (forwardCalculation)
     fwd_step d p k true  st c  ==  run_fwd fwdall_code d p k c gen_fwdall_skel l0 st     (forwardCalculationAllNodes)
     rev_step d p k false st c  ==  run_rev rev_code    d p k c gen_rev_skel    l0 st     (reverseCalculation)
     rev_step d p k true  st c  ==  run_rev revall_code d p k c gen_revall_skel l0 st     (reverseCalculationAllNodes)

   for ALL values `l0` the function-level locals may hold when the iteration starts; and for the whole scans
   (`fwd_scan_skel_tie`, ...: entry slot of gen/Guards.v, then the machine - state and locals - threaded through the
   connection list).  `==` is equality of every scalar
   component and of every VALUE of the per-stop / per-trip tables (`fstate_eq`, `rstate_eq`); for the three tables
   the footpath loop writes it is plain equality.

   What breaks these proofs: a statement moved into or out of an `if`, two guarded blocks swapped, a `break` or
   `continue` moved, a dropped or moved `footpathIndex++` (the interpreter reads the walking time and the distance
   through the index, as the source does), a bookkeeping assignment moved out of its condition, a local read before
   it is written.  What does not: logging, comments, braces, renamed locals, reordered independent assignments. *)
From Coq Require Import List ZArith Bool Lia.
From TrV Require Import Scan.
Require Import TrV.Skel.
Require TrV.gen.Skel.
From TrV Require Import Proofs.GuardsTie.
Local Open Scope Z_scope.
Local Open Scope bool_scope.

Module GS := TrV.gen.Skel.

Lemma fstate_eq_refl s : fstate_eq s s.
Proof. unfold fstate_eq. repeat split; reflexivity. Qed.
Lemma rstate_eq_refl s : rstate_eq s s.
Proof. unfold rstate_eq. repeat split; reflexivity. Qed.

Lemma upd_at k {A} (m : nat -> A) v : upd m k v k = v.
Proof. unfold upd. rewrite Nat.eqb_refl. reflexivity. Qed.

(* the three tables the footpath loop writes *)
Definition f_triple (s : fstate) := (f_tau s, f_steps s, f_egr s).
Definition f_set_triple (s : fstate) (t : (nat -> Z) * (nat -> jstep) * (nat -> option jstep)) : fstate :=
  {| f_tau := fst (fst t); f_steps := snd (fst t); f_ov := f_ov s; f_egr := snd t; f_count := f_count s;
     f_reached := f_reached s; f_tent := f_tent s; f_stop := f_stop s |}.
Definition r_triple (s : rstate) := (r_taur s, r_steps s, r_acc s).
Definition r_set_triple (s : rstate) (t : (nat -> Z) * (nat -> jstep) * (nat -> option jstep)) : rstate :=
  {| r_taur := fst (fst t); r_steps := snd (fst t); r_ov := r_ov s; r_acc := snd t; r_count := r_count s;
     r_reached := r_reached s; r_tent := r_tent s; r_stop := r_stop s |}.

(* symbolic evaluation of the interpreter on a closed skeleton: only the interpreter, the meaning of guards and
   actions, and record projections / field updates are unfolded (never arithmetic, never the generated guards) *)
Ltac fsem :=
  cbn [fwd_guard fwd_act fm_on_st fm_on_l fm_st fm_l ls_enter ls_tdep ls_accessed ls_tm ls_idx ls_w ls_dist ls_row
       l_enter l_tdep l_accessed l_tm l_idx l_w l_dist l_row fs_tau fs_steps fs_ov fs_egr fs_count fs_reached fs_tent
       fs_stop f_tau f_steps f_ov f_egr f_count f_reached f_tent f_stop f_triple f_set_triple fst snd].
Ltac rsem :=
  cbn [rev_guard rev_act rm_on_st rm_on_l rm_st rm_l rls_exit rls_tarr rls_jminw rls_idx rls_w rls_dist rls_row
       rl_exit rl_tarr rl_jminw rl_idx rl_w rl_dist rl_row rs_taur rs_steps rs_ov rs_acc rs_count rs_reached rs_tent
       rs_stop r_taur r_steps r_ov r_acc r_count r_reached r_tent r_stop r_triple r_set_triple fst snd].

(* ---------------------------------------------------------------------------------------------- *)
(* forward                                                                                          *)

Section Fwd.
  Variables (V : fwd_guards) (d : data) (p : params) (k : calc) (c : conn).

  (* one row of the footpath loop, as `run` executes it *)
  Definition fwd_loop_step (body : skel) (acc : fmach * bool) (r : fprow) : fmach * bool :=
    if snd acc then acc
    else run fmach (fwd_guard V p k c) (fwd_act V d p k c) (fwd_rows d c) (fun r => fm_on_l (ls_row r)) body
             (fmach * bool)%type (fun m' => (m', false)) (fun m' => (m', true)) (fun m' => (m', false))
             (fm_on_l (ls_row r) (fst acc)).

  Definition fwd_sk_fp_step (enter : option conn) :=
    fwd_fp_step_sk (fg_fp_skip V) (fg_fp_maxtr V) (fg_fp_improve V) (fg_fp_label V) (fg_newtau V) p c enter.

  (* what one row does, for a footpath-loop body `body`: the row is the one the index points at; afterwards the index
     points at the next row, no `break` happened, and the tables are those of the model's footpath step *)
  Definition fwd_fp_row_ok (body : skel) : Prop := forall m r,
    nth (l_idx (fm_l m)) (fwd_rows d c) row_default = r ->
    snd (fwd_loop_step body (m, false) r) = false /\
    l_idx (fm_l (fst (fwd_loop_step body (m, false) r))) = S (l_idx (fm_l m)) /\
    fm_st (fst (fwd_loop_step body (m, false) r)) =
    f_set_triple (fm_st m) (fwd_sk_fp_step (o_enter (f_ov (fm_st m) (c_trip c))) (f_triple (fm_st m)) r).

  Ltac fp_leaf := fsem; repeat split; reflexivity.

  Lemma fwd_fp_row_gen : fwd_fp_row_ok GS.gen_fwd_fp.
  Proof.
    intros m r Hr. destruct m as [st l]. destruct st as [tau steps ov egr cnt reached tent stop].
    destruct l as [en td ac tm idx w dist row].
    cbn [fm_l fm_st l_idx] in *.
    unfold fwd_loop_step, fwd_sk_fp_step, fwd_fp_step_sk, GS.gen_fwd_fp.
    cbn [run snd fst]. fsem. rewrite Hr.
    destruct (fg_fp_skip V _ _ _); [fp_leaf|].
    destruct (fg_fp_maxtr V _ _); [|fp_leaf].
    destruct (fg_fp_improve V _ _ _);
      (destruct (egr (fp_node r)) as [j|]; [destruct (js_exit j) as [e|]|]);
      (destruct (fg_fp_label V _ _ _ _); fp_leaf).
  Qed.

  Lemma fwd_fp_row_genall : fwd_fp_row_ok GS.gen_fwdall_fp.
  Proof.
    intros m r Hr. destruct m as [st l]. destruct st as [tau steps ov egr cnt reached tent stop].
    destruct l as [en td ac tm idx w dist row].
    cbn [fm_l fm_st l_idx] in *.
    unfold fwd_loop_step, fwd_sk_fp_step, fwd_fp_step_sk, GS.gen_fwdall_fp.
    cbn [run snd fst]. fsem. rewrite Hr.
    destruct (fg_fp_skip V _ _ _); [fp_leaf|].
    destruct (fg_fp_maxtr V _ _); [|fp_leaf].
    destruct (fg_fp_improve V _ _ _);
      (destruct (egr (fp_node r)) as [j|]; [destruct (js_exit j) as [e|]|]);
      (destruct (fg_fp_label V _ _ _ _); fp_leaf).
  Qed.

  (* the whole footpath loop *)
  Lemma fwd_fp_loop body : fwd_fp_row_ok body -> forall suf pre m,
    fwd_rows d c = pre ++ suf -> l_idx (fm_l m) = length pre ->
    snd (fold_left (fwd_loop_step body) suf (m, false)) = false /\
    fm_st (fst (fold_left (fwd_loop_step body) suf (m, false))) =
    f_set_triple (fm_st m) (fold_left (fwd_sk_fp_step (o_enter (f_ov (fm_st m) (c_trip c)))) suf (f_triple (fm_st m))).
  Proof.
    intros Hbody. induction suf as [|r suf IH]; intros pre m Hrows Hidx; cbn [fold_left].
    - cbn [fst snd]. split; [reflexivity|].
      destruct m as [st l]. destruct st. reflexivity.
    - assert (Hnth : nth (l_idx (fm_l m)) (fwd_rows d c) row_default = r).
      { rewrite Hrows, Hidx. apply nth_middle. }
      destruct (Hbody m r Hnth) as (Hb & Hi & Hs).
      rewrite (surjective_pairing (fwd_loop_step body (m, false) r)), Hb.
      assert (Hrows' : fwd_rows d c = (pre ++ [r]) ++ suf) by (rewrite <- app_assoc; exact Hrows).
      assert (Hidx' : l_idx (fm_l (fst (fwd_loop_step body (m, false) r))) = length (pre ++ [r])).
      { rewrite Hi, Hidx, app_length. cbn [length]. lia. }
      destruct (IH (pre ++ [r]) (fst (fwd_loop_step body (m, false) r)) Hrows' Hidx') as (Hb2 & Hs2).
      split; [exact Hb2|]. rewrite Hs2, Hs.
      destruct (fwd_sk_fp_step (o_enter (f_ov (fm_st m) (c_trip c))) (f_triple (fm_st m)) r) as [[t1 s1] e1].
      reflexivity.
  Qed.

  Lemma fwd_fp_loop_all body : fwd_fp_row_ok body -> forall m, l_idx (fm_l m) = 0%nat ->
    fm_st (fst (fold_left (fwd_loop_step body) (fwd_rows d c) (m, false))) =
    f_set_triple (fm_st m) (fold_left (fwd_sk_fp_step (o_enter (f_ov (fm_st m) (c_trip c)))) (fwd_rows d c) (f_triple (fm_st m))).
  Proof. intros Hbody m Hidx. exact (proj2 (fwd_fp_loop body Hbody (fwd_rows d c) [] m eq_refl Hidx)). Qed.

  (* the hand-written skeleton of GuardsTie.v with this copy's guards *)
  Definition fwd_sk (route : bool) (st : fstate) : fstate :=
    fwd_step_sk (fg_first V) (fg_enabled V) (fg_break V) (fg_accessed V) (fg_reach V) (fg_board V) (fg_unboard V)
                (fg_egr_reached V) (fg_fp_skip V) (fg_fp_maxtr V) (fg_fp_improve V) (fg_fp_label V) (fg_newtau V)
                (fg_tent V) route d p k st c.

  (* reads of the current trip's overlay through the writes made so far *)
  Ltac ov_norm := unfold at_key; rewrite ?upd_at;
    cbn [ov_usable ov_enter ov_enter_w ov_exit ov_exit_w o_usable o_enter o_enter_w o_exit o_exit_w].
  Ltac f_leaf := fsem; unfold fstate_eq; fsem; repeat split; try reflexivity;
    intros t; ov_norm; unfold upd; destruct (Nat.eqb_spec t (c_trip c)) as [Et|Et]; rewrite ?Et; reflexivity.
  Ltac f_loop row_lemma body :=
    match goal with |- context [fold_left ?f (fwd_rows d c) (?m0, false)] =>
      change f with (fwd_loop_step body); rewrite (fwd_fp_loop_all _ row_lemma m0 eq_refl) end;
    fsem; ov_norm; unfold fwd_sk_fp_step, fwd_rows; fsem;
    destruct (fold_left _ _ _) as [[t1 s1] e1]; f_leaf.

  (* forwardCalculation *)
  Lemma fwd_route_skel l0 st : fstate_eq (fwd_sk true st) (run_fwd V d p k c GS.gen_fwd_skel l0 st).
  Proof.
    unfold fwd_sk, fwd_step_sk, run_fwd.
    destruct st as [tau steps ov egr cnt reached tent stop]. destruct l0 as [en td ac tm idx w dist row].
    cbn [f_stop]. destruct stop; [apply fstate_eq_refl|].
    unfold GS.gen_fwd_skel. cbn [run]. fsem.
    destruct (fg_first V _ _ _ _); [|f_leaf].
    destruct (fg_enabled V _); [|f_leaf].
    destruct (fg_break V _ _ _ _ _ _); [f_leaf|].
    destruct (row_of (c_from c) (k_accfp k)) as [ar|];
      (destruct (fg_reach V _ _ _ _ _ _); [|f_leaf]).
    all: destruct (fg_board V _ _); fsem; ov_norm.
    all: destruct (fg_unboard V _ _); [|f_leaf].
    all: destruct (row_of (c_to c) (k_egrfp k)) as [er|]; cbn [andb].
    all: destruct (fg_egr_reached V _ _ _).
    all: f_loop fwd_fp_row_gen GS.gen_fwd_fp.
  Qed.

  (* forwardCalculationAllNodes *)
  Lemma fwd_all_skel l0 st : fstate_eq (fwd_sk false st) (run_fwd V d p k c GS.gen_fwdall_skel l0 st).
  Proof.
    unfold fwd_sk, fwd_step_sk, run_fwd.
    destruct st as [tau steps ov egr cnt reached tent stop]. destruct l0 as [en td ac tm idx w dist row].
    cbn [f_stop]. destruct stop; [apply fstate_eq_refl|].
    unfold GS.gen_fwdall_skel. cbn [run]. fsem.
    destruct (fg_first V _ _ _ _); [|f_leaf].
    destruct (fg_enabled V _); [|f_leaf].
    destruct (fg_break V _ _ _ _ _ _); [f_leaf|].
    destruct (row_of (c_from c) (k_accfp k)) as [ar|];
      (destruct (fg_reach V _ _ _ _ _ _); [|f_leaf]).
    all: destruct (fg_board V _ _); fsem; ov_norm.
    all: destruct (fg_unboard V _ _); [|f_leaf].
    all: destruct (row_of (c_to c) (k_egrfp k)) as [er|]; cbn [andb].
    all: f_loop fwd_fp_row_genall GS.gen_fwdall_fp.
  Qed.
End Fwd.

(* the model's forward step (route query) computes what the interpreter computes on the skeleton of forwardCalculation
   as it is written now, with the guards of forwardCalculation as they are written now *)
Theorem fwd_step_skel_tie : forall d p k st c l0,
  fstate_eq (fwd_step d p k false st c) (run_fwd fwd_code d p k c GS.gen_fwd_skel l0 st).
Proof. intros. rewrite <- fwd_step_tie. exact (fwd_route_skel fwd_code d p k c l0 st). Qed.

(* ... and for accessibility queries, forwardCalculationAllNodes *)
Theorem fwdall_step_skel_tie : forall d p k st c l0,
  fstate_eq (fwd_step d p k true st c) (run_fwd fwdall_code d p k c GS.gen_fwdall_skel l0 st).
Proof. intros. rewrite <- fwdall_step_tie. exact (fwd_all_skel fwdall_code d p k c l0 st). Qed.

(* the inner footpath loop of the forward scans, row by row: the tables after one pass of the generated loop body
   are those of the model's footpath step (plain equality), the index moves to the next row, the loop is not left *)
Theorem fwd_fp_step_skel_tie : forall d p k c m r,
  nth (l_idx (fm_l m)) (fwd_rows d c) row_default = r ->
  let res := fwd_loop_step fwd_code d p k c GS.gen_fwd_fp (m, false) r in
  snd res = false /\ l_idx (fm_l (fst res)) = S (l_idx (fm_l m)) /\
  fm_st (fst res) = f_set_triple (fm_st m) (fwd_fp_step p c (o_enter (f_ov (fm_st m) (c_trip c))) (f_triple (fm_st m)) r).
Proof.
  intros d p k c m r Hr. cbv zeta.
  destruct (fwd_fp_row_gen fwd_code d p k c m r Hr) as (H1 & H2 & H3). split; [exact H1|]. split; [exact H2|].
  rewrite H3. unfold fwd_sk_fp_step. f_equal.
  apply fwd_fp_step_sk_eq; intros.
  - apply gen_fwd_fp_skip_spec. - apply gen_fwd_fp_maxtr_spec. - apply gen_fwd_fp_improve_spec.
  - apply gen_fwd_fp_label_spec. - apply gen_fwd_newtau_spec.
Qed.
Theorem fwdall_fp_step_skel_tie : forall d p k c m r,
  nth (l_idx (fm_l m)) (fwd_rows d c) row_default = r ->
  let res := fwd_loop_step fwdall_code d p k c GS.gen_fwdall_fp (m, false) r in
  snd res = false /\ l_idx (fm_l (fst res)) = S (l_idx (fm_l m)) /\
  fm_st (fst res) = f_set_triple (fm_st m) (fwd_fp_step p c (o_enter (f_ov (fm_st m) (c_trip c))) (f_triple (fm_st m)) r).
Proof.
  intros d p k c m r Hr. cbv zeta.
  destruct (fwd_fp_row_genall fwdall_code d p k c m r Hr) as (H1 & H2 & H3). split; [exact H1|]. split; [exact H2|].
  rewrite H3. unfold fwd_sk_fp_step. f_equal.
  apply fwd_fp_step_sk_eq; intros.
  - apply gen_fwdall_fp_skip_spec. - apply gen_fwdall_fp_maxtr_spec. - apply gen_fwdall_fp_improve_spec.
  - apply gen_fwdall_fp_label_spec. - apply gen_fwdall_newtau_spec.
Qed.

(* ---------------------------------------------------------------------------------------------- *)
(* reverse                                                                                          *)

Section Rev.
  Variables (V : rev_guards) (d : data) (p : params) (k : calc) (c : conn).
  (* `.value()` of an absent boarding is never evaluated: the replace test fails first *)
  Hypothesis H_replace_none : forall w ew, rg_exit_replace V false w ew = false.

  Definition rev_loop_step (body : skel) (acc : rmach * bool) (r : fprow) : rmach * bool :=
    if snd acc then acc
    else run rmach (rev_guard V p k c) (rev_act V d p c) (rev_rows d c) (fun r => rm_on_l (rls_row r)) body
             (rmach * bool)%type (fun m' => (m', false)) (fun m' => (m', true)) (fun m' => (m', false))
             (rm_on_l (rls_row r) (fst acc)).

  Definition rev_sk_fp_step (exitc : option conn) :=
    rev_fp_step_sk (rg_fp_skip V) (rg_fp_maxtr V) (rg_fp_improve V) (rg_fp_label V) (rg_acc_after_dep V) (rg_acc_cap V)
                   (rg_newtaur V) p k c (minw_eff p c) exitc.

  Definition rev_fp_row_ok (body : skel) : Prop := forall m r,
    nth (rl_idx (rm_l m)) (rev_rows d c) row_default = r ->
    snd (rev_loop_step body (m, false) r) = false /\
    rl_idx (rm_l (fst (rev_loop_step body (m, false) r))) = S (rl_idx (rm_l m)) /\
    rm_st (fst (rev_loop_step body (m, false) r)) =
    r_set_triple (rm_st m) (rev_sk_fp_step (o_exit (r_ov (rm_st m) (c_trip c))) (r_triple (rm_st m)) r).

  Ltac rfp_leaf := rsem; repeat split; reflexivity.

  Lemma rev_fp_row_gen : rev_fp_row_ok GS.gen_rev_fp.
  Proof.
    intros m r Hr. destruct m as [st l]. destruct st as [taur steps ov acc cnt reached tent stop].
    destruct l as [ex ta jm idx w dist row].
    cbn [rm_l rm_st rl_idx] in *.
    unfold rev_loop_step, rev_sk_fp_step, rev_fp_step_sk, GS.gen_rev_fp.
    cbn [run snd fst]. rsem. rewrite Hr.
    destruct (rg_fp_skip V _ _ _ _); [rfp_leaf|].
    destruct (rg_fp_maxtr V _ _); [|rfp_leaf].
    destruct (row_of (c_from c) (k_accfp k)) as [ar|];
      destruct (rg_fp_improve V _ _ _ _);
      (destruct (acc (fp_node r)) as [j|]; [destruct (js_enter j) as [b|]|]);
      (destruct (rg_fp_label V _ _ _ _ _ _); [|rfp_leaf]);
      (destruct (rg_acc_after_dep V _ _ _ _ _); [|rfp_leaf]);
      (destruct (rg_acc_cap V _ _ _ _); rfp_leaf).
  Qed.

  Lemma rev_fp_row_genall : rev_fp_row_ok GS.gen_revall_fp.
  Proof.
    intros m r Hr. destruct m as [st l]. destruct st as [taur steps ov acc cnt reached tent stop].
    destruct l as [ex ta jm idx w dist row].
    cbn [rm_l rm_st rl_idx] in *.
    unfold rev_loop_step, rev_sk_fp_step, rev_fp_step_sk, GS.gen_revall_fp.
    cbn [run snd fst]. rsem. rewrite Hr.
    destruct (rg_fp_skip V _ _ _ _); [rfp_leaf|].
    destruct (rg_fp_maxtr V _ _); [|rfp_leaf].
    destruct (row_of (c_from c) (k_accfp k)) as [ar|];
      destruct (rg_fp_improve V _ _ _ _);
      (destruct (acc (fp_node r)) as [j|]; [destruct (js_enter j) as [b|]|]);
      (destruct (rg_fp_label V _ _ _ _ _ _); [|rfp_leaf]);
      (destruct (rg_acc_after_dep V _ _ _ _ _); [|rfp_leaf]);
      (destruct (rg_acc_cap V _ _ _ _); rfp_leaf).
  Qed.

  Lemma rev_fp_loop body : rev_fp_row_ok body -> forall suf pre m,
    rev_rows d c = pre ++ suf -> rl_idx (rm_l m) = length pre ->
    snd (fold_left (rev_loop_step body) suf (m, false)) = false /\
    rm_st (fst (fold_left (rev_loop_step body) suf (m, false))) =
    r_set_triple (rm_st m) (fold_left (rev_sk_fp_step (o_exit (r_ov (rm_st m) (c_trip c)))) suf (r_triple (rm_st m))).
  Proof.
    intros Hbody. induction suf as [|r suf IH]; intros pre m Hrows Hidx; cbn [fold_left].
    - cbn [fst snd]. split; [reflexivity|].
      destruct m as [st l]. destruct st. reflexivity.
    - assert (Hnth : nth (rl_idx (rm_l m)) (rev_rows d c) row_default = r).
      { rewrite Hrows, Hidx. apply nth_middle. }
      destruct (Hbody m r Hnth) as (Hb & Hi & Hs).
      rewrite (surjective_pairing (rev_loop_step body (m, false) r)), Hb.
      assert (Hrows' : rev_rows d c = (pre ++ [r]) ++ suf) by (rewrite <- app_assoc; exact Hrows).
      assert (Hidx' : rl_idx (rm_l (fst (rev_loop_step body (m, false) r))) = length (pre ++ [r])).
      { rewrite Hi, Hidx, app_length. cbn [length]. lia. }
      destruct (IH (pre ++ [r]) (fst (rev_loop_step body (m, false) r)) Hrows' Hidx') as (Hb2 & Hs2).
      split; [exact Hb2|]. rewrite Hs2, Hs.
      destruct (rev_sk_fp_step (o_exit (r_ov (rm_st m) (c_trip c))) (r_triple (rm_st m)) r) as [[t1 s1] e1].
      reflexivity.
  Qed.

  Lemma rev_fp_loop_all body : rev_fp_row_ok body -> forall m, rl_idx (rm_l m) = 0%nat ->
    rm_st (fst (fold_left (rev_loop_step body) (rev_rows d c) (m, false))) =
    r_set_triple (rm_st m) (fold_left (rev_sk_fp_step (o_exit (r_ov (rm_st m) (c_trip c)))) (rev_rows d c) (r_triple (rm_st m))).
  Proof. intros Hbody m Hidx. exact (proj2 (rev_fp_loop body Hbody (rev_rows d c) [] m eq_refl Hidx)). Qed.

  Definition rev_sk (route : bool) (st : rstate) : rstate :=
    rev_step_sk (rg_first V) (rg_enabled V) (rg_break V) (rg_reach V) (rg_unboard V) (rg_exit_first V) (rg_exit_replace V)
                (rg_exit_replace_time V) (rg_board V) (rg_acc_reached V) (rg_fp_skip V) (rg_fp_maxtr V) (rg_fp_improve V)
                (rg_fp_label V) (rg_acc_after_dep V) (rg_acc_cap V) (rg_newtaur V) (rg_tent V) route d p k st c.

  Ltac ov_norm := unfold at_key; rewrite ?upd_at;
    cbn [ov_usable ov_enter ov_enter_w ov_exit ov_exit_w o_usable o_enter o_enter_w o_exit o_exit_w].
  Ltac r_leaf := rsem; unfold rstate_eq; rsem; repeat split; try reflexivity;
    intros t; ov_norm; unfold upd; destruct (Nat.eqb_spec t (c_trip c)) as [Et|Et]; rewrite ?Et; reflexivity.
  Ltac r_loop row_lemma body :=
    match goal with |- context [fold_left ?f (rev_rows d c) (?m0, false)] =>
      change f with (rev_loop_step body); rewrite (rev_fp_loop_all _ row_lemma m0 eq_refl) end;
    rsem; ov_norm; unfold rev_sk_fp_step, rev_rows; rsem;
    destruct (fold_left _ _ _) as [[t1 s1] e1]; r_leaf.

  Lemma rev_route_skel l0 st : rg_route V = true -> rstate_eq (rev_sk true st) (run_rev V d p k c GS.gen_rev_skel l0 st).
  Proof.
    intros Hroute. unfold rev_sk, rev_step_sk, run_rev.
    destruct st as [taur steps ov acc cnt reached tent stop]. destruct l0 as [ex ta jm idx w dist row].
    cbn [r_stop]. destruct stop; [apply rstate_eq_refl|].
    unfold GS.gen_rev_skel. cbn [run]. rsem. rewrite Hroute.
    destruct (rg_first V _ _ _ _); [|r_leaf].
    destruct (rg_enabled V _ _); [|r_leaf].
    destruct (rg_break V _ _ _ _ _ _); [r_leaf|].
    destruct (rg_reach V _ _ _); [|r_leaf].
    destruct (rg_unboard V _);
      [destruct (rg_exit_first V _);
         [|destruct (js_enter (steps (c_to c))) as [b|]; cbn [is_some];
             [destruct (rg_exit_replace V true _ _); cbn [andb]; [destruct (rg_exit_replace_time V _ _ _)|]
             |rewrite H_replace_none]]|].
    all: rsem; ov_norm.
    all: destruct (rg_board V _ _); [|r_leaf].
    all: destruct (row_of (c_from c) (k_accfp k)) as [ar|]; cbn [andb].
    all: destruct (rg_acc_reached V _ _ _).
    all: r_loop rev_fp_row_gen GS.gen_rev_fp.
  Qed.

  Lemma rev_all_skel l0 st : rg_route V = false -> rstate_eq (rev_sk false st) (run_rev V d p k c GS.gen_revall_skel l0 st).
  Proof.
    intros Hroute. unfold rev_sk, rev_step_sk, run_rev.
    destruct st as [taur steps ov acc cnt reached tent stop]. destruct l0 as [ex ta jm idx w dist row].
    cbn [r_stop]. destruct stop; [apply rstate_eq_refl|].
    unfold GS.gen_revall_skel. cbn [run]. rsem. rewrite Hroute.
    destruct (rg_first V _ _ _ _); [|r_leaf].
    destruct (rg_enabled V _ _); [|r_leaf].
    destruct (rg_break V _ _ _ _ _ _); [r_leaf|].
    destruct (rg_reach V _ _ _); [|r_leaf].
    destruct (rg_unboard V _);
      [destruct (rg_exit_first V _);
         [|destruct (js_enter (steps (c_to c))) as [b|]; cbn [is_some];
             [destruct (rg_exit_replace V true _ _); cbn [andb]; [destruct (rg_exit_replace_time V _ _ _)|]
             |rewrite H_replace_none]]|].
    all: rsem; ov_norm.
    all: destruct (rg_board V _ _); [|r_leaf].
    all: destruct (row_of (c_from c) (k_accfp k)) as [ar|]; cbn [andb].
    all: r_loop rev_fp_row_genall GS.gen_revall_fp.
  Qed.
End Rev.

Lemma rev_code_replace_none : forall w ew, rg_exit_replace rev_code false w ew = false.
Proof. intros. cbn [rg_exit_replace rev_code]. rewrite gen_rev_exit_replace_spec. reflexivity. Qed.
Lemma revall_code_replace_none : forall w ew, rg_exit_replace revall_code false w ew = false.
Proof. intros. cbn [rg_exit_replace revall_code]. rewrite gen_revall_exit_replace_spec. reflexivity. Qed.

(* the model's reverse step (route query) computes what the interpreter computes on the skeleton of reverseCalculation as
   it is written now, with the guards of reverseCalculation as they are written now *)
Theorem rev_step_skel_tie : forall d p k st c l0,
  rstate_eq (rev_step d p k false st c) (run_rev rev_code d p k c GS.gen_rev_skel l0 st).
Proof. intros. rewrite <- rev_step_tie. exact (rev_route_skel rev_code d p k c rev_code_replace_none l0 st eq_refl). Qed.

(* ... and for accessibility queries, reverseCalculationAllNodes *)
Theorem revall_step_skel_tie : forall d p k st c l0,
  rstate_eq (rev_step d p k true st c) (run_rev revall_code d p k c GS.gen_revall_skel l0 st).
Proof. intros. rewrite <- revall_step_tie. exact (rev_all_skel revall_code d p k c revall_code_replace_none l0 st eq_refl). Qed.

(* the inner footpath loop of the reverse scans, row by row *)
Theorem rev_fp_step_skel_tie : forall d p k c m r,
  nth (rl_idx (rm_l m)) (rev_rows d c) row_default = r ->
  let res := rev_loop_step rev_code d p k c GS.gen_rev_fp (m, false) r in
  snd res = false /\ rl_idx (rm_l (fst res)) = S (rl_idx (rm_l m)) /\
  rm_st (fst res) =
  r_set_triple (rm_st m) (rev_fp_step p k c (minw_eff p c) (o_exit (r_ov (rm_st m) (c_trip c))) (r_triple (rm_st m)) r).
Proof.
  intros d p k c m r Hr. cbv zeta.
  destruct (rev_fp_row_gen rev_code d p k c m r Hr) as (H1 & H2 & H3). split; [exact H1|]. split; [exact H2|].
  rewrite H3. unfold rev_sk_fp_step. f_equal.
  apply (rev_fp_step_sk_eq G.gen_rev_first G.gen_rev_break G.gen_rev_acc_reached _ _ _ _ _ _ _ G.gen_rev_tent true); intros.
  - apply gen_rev_tent_spec. - apply gen_rev_first_spec. - rewrite gen_rev_break_spec. reflexivity.
  - apply gen_rev_acc_reached_spec.
  - apply gen_rev_fp_skip_spec. - apply gen_rev_fp_maxtr_spec. - apply gen_rev_fp_improve_spec.
  - apply gen_rev_fp_label_spec. - apply gen_rev_acc_after_dep_spec. - apply gen_rev_acc_cap_spec.
  - apply gen_rev_newtaur_spec.
Qed.
Theorem revall_fp_step_skel_tie : forall d p k c m r,
  nth (rl_idx (rm_l m)) (rev_rows d c) row_default = r ->
  let res := rev_loop_step revall_code d p k c GS.gen_revall_fp (m, false) r in
  snd res = false /\ rl_idx (rm_l (fst res)) = S (rl_idx (rm_l m)) /\
  rm_st (fst res) =
  r_set_triple (rm_st m) (rev_fp_step p k c (minw_eff p c) (o_exit (r_ov (rm_st m) (c_trip c))) (r_triple (rm_st m)) r).
Proof.
  intros d p k c m r Hr. cbv zeta.
  destruct (rev_fp_row_genall revall_code d p k c m r Hr) as (H1 & H2 & H3). split; [exact H1|]. split; [exact H2|].
  rewrite H3. unfold rev_sk_fp_step. f_equal.
  apply (rev_fp_step_sk_eq G.gen_revall_first G.gen_revall_break (fun _ _ _ => false) _ _ _ _ _ _ _ (fun x _ => x) false); intros.
  - discriminate. - rewrite gen_revall_first_spec. lia. - rewrite gen_revall_break_spec. reflexivity.
  - discriminate.
  - apply gen_revall_fp_skip_spec. - apply gen_revall_fp_maxtr_spec. - apply gen_revall_fp_improve_spec.
  - apply gen_revall_fp_label_spec. - apply gen_revall_acc_after_dep_spec. - apply gen_revall_acc_cap_spec.
  - apply gen_revall_newtaur_spec.
Qed.

(* ---------------------------------------------------------------------------------------------- *)
(* whole scans: the connection loop threads the machine (model state AND the function-level locals) through the
   connections from the entry slot; the model's scan ends in the same state.  Needs: the interpreter commutes with
   a map over its continuations (`run_map`); the model's steps do not tell two ways of writing the same tables
   apart (`fwd_step_cong`, `rev_step_cong`). *)

(* the interpreter commutes with a function applied to all three continuations *)
Lemma run_map (M : Type) guard act rows set_row (sk : skel) : forall (R R' : Type) (f : R -> R')
    (kont kbrk kcnt : M -> R) (kont' kbrk' kcnt' : M -> R'),
  (forall m, kont' m = f (kont m)) -> (forall m, kbrk' m = f (kbrk m)) -> (forall m, kcnt' m = f (kcnt m)) ->
  forall m, run M guard act rows set_row sk R' kont' kbrk' kcnt' m = f (run M guard act rows set_row sk R kont kbrk kcnt m).
Proof.
  induction sk as [g th IHth el IHel k IHk | a k IHk | body IHbody k IHk | | |];
    intros R R' f kont kbrk kcnt kont' kbrk' kcnt' Hk Hb Hc m; cbn [run].
  - destruct (guard g m).
    + apply IHth; [intros m'; apply IHk; assumption | assumption | assumption].
    + apply IHel; [intros m'; apply IHk; assumption | assumption | assumption].
  - apply IHk; assumption.
  - apply IHk; assumption.
  - apply Hb.
  - apply Hc.
  - apply Hk.
Qed.

Lemma fstate_eq_sym a b : fstate_eq a b -> fstate_eq b a.
Proof. unfold fstate_eq. intros (H1 & H2 & H3 & H4 & H5 & H6 & H7 & H8). repeat split; intros; symmetry; auto. Qed.
Lemma fstate_eq_trans a b c : fstate_eq a b -> fstate_eq b c -> fstate_eq a c.
Proof.
  unfold fstate_eq. intros (H1 & H2 & H3 & H4 & H5 & H6 & H7 & H8) (K1 & K2 & K3 & K4 & K5 & K6 & K7 & K8).
  repeat split; intros; etransitivity; eauto.
Qed.

Definition triple_eq (a b : (nat -> Z) * (nat -> jstep) * (nat -> option jstep)) : Prop :=
  (forall n, fst (fst a) n = fst (fst b) n) /\ (forall n, snd (fst a) n = snd (fst b) n) /\ (forall n, snd a n = snd b n).

Lemma upd_ext {A} (m m' : nat -> A) k v : (forall n, m n = m' n) -> forall n, upd m k v n = upd m' k v n.
Proof. intros H n. unfold upd. destruct (Nat.eqb n k); [reflexivity|apply H]. Qed.

Lemma fwd_fp_step_cong p c en a b r : triple_eq a b -> triple_eq (fwd_fp_step p c en a r) (fwd_fp_step p c en b r).
Proof.
  destruct a as [[t s] e]. destruct b as [[t' s'] e']. intros (Ht & Hs & He). cbn [fst snd] in Ht, Hs, He.
  unfold fwd_fp_step. rewrite (Ht (fp_node r)), (He (fp_node r)).
  destruct (negb (Nat.eqb (c_to c) (fp_node r)) && (t' (fp_node r) <? c_arr c)); [repeat split; assumption|].
  destruct (fp_time r <=? q_maxtr p); [|repeat split; assumption].
  destruct (fp_time r + c_arr c <? t' (fp_node r));
    match goal with |- context [if ?b then upd e _ _ else e] => destruct b end;
    repeat split; cbn [fst snd]; try assumption; apply upd_ext; assumption.
Qed.

Lemma fwd_fp_fold_cong p c en : forall rows a b, triple_eq a b ->
  triple_eq (fold_left (fwd_fp_step p c en) rows a) (fold_left (fwd_fp_step p c en) rows b).
Proof.
  induction rows as [|r rows IH]; intros a b H; cbn [fold_left]; [exact H|].
  apply IH. apply fwd_fp_step_cong. exact H.
Qed.

(* the model's forward step does not tell two ways of writing the same tables apart *)
Lemma fwd_step_cong d p k an a b c : fstate_eq a b -> fstate_eq (fwd_step d p k an a c) (fwd_step d p k an b c).
Proof.
  intros H. pose proof H as (Ht & Hs & Ho & He & Hc & Hr & Hte & Hst).
  destruct a as [tau steps ov egr cnt reached tent stop]. destruct b as [tau' steps' ov' egr' cnt' reached' tent' stop'].
  cbn [f_tau f_steps f_ov f_egr f_count f_reached f_tent f_stop] in Ht, Hs, Ho, He, Hc, Hr, Hte, Hst.
  subst cnt' reached' tent' stop'.
  unfold fwd_step. cbn [f_tau f_steps f_ov f_egr f_count f_reached f_tent f_stop].
  rewrite (Ho (c_trip c)), (Ht (c_from c)), (Hs (c_from c)).
  destruct stop; [exact H|].
  destruct (c_dep c >=? k_dep k + k_minAcc k); [|exact H].
  destruct (k_disabled k (c_trip c)); [exact H|].
  match goal with |- fstate_eq (if ?b then _ else _) _ => destruct b end.
  { unfold fstate_eq; cbn [f_tau f_steps f_ov f_egr f_count f_reached f_tent f_stop]. repeat split; auto. }
  match goal with |- fstate_eq (if ?b then _ else _) _ => destruct b end; [|exact H].
  match goal with |- fstate_eq (if ?b then _ else _) _ => destruct b end.
  - match goal with |- fstate_eq (let '(_, _) := ?x in _) _ => destruct x as [r1 t1] end.
    match goal with |- context [upd ov (c_trip c) ?v] => set (ov1 := v) end.
    pose proof (fwd_fp_fold_cong p c (o_enter ov1) (fp_of d (c_to c)) (tau, steps, egr) (tau', steps', egr')
                  (conj Ht (conj Hs He))) as Hf.
    destruct (fold_left (fwd_fp_step p c (o_enter ov1)) (fp_of d (c_to c)) (tau, steps, egr)) as [[ta sa] ea].
    destruct (fold_left (fwd_fp_step p c (o_enter ov1)) (fp_of d (c_to c)) (tau', steps', egr')) as [[tb sb] eb].
    destruct Hf as (H1 & H2 & H3). cbn [fst snd] in H1, H2, H3.
    unfold fstate_eq; cbn [f_tau f_steps f_ov f_egr f_count f_reached f_tent f_stop].
    repeat split; auto. apply upd_ext; assumption.
  - unfold fstate_eq; cbn [f_tau f_steps f_ov f_egr f_count f_reached f_tent f_stop].
    repeat split; auto. apply upd_ext; assumption.
Qed.

(* the threaded machine: its model state after one iteration is `run_fwd` started with the locals it carried *)
Lemma run_fwd_m_st V d p k sk m c : fm_st (run_fwd_m V d p k sk m c) = run_fwd V d p k c sk (fm_l m) (fm_st m).
Proof.
  destruct m as [st l]. unfold run_fwd_m, run_fwd. cbn [fm_st fm_l].
  destruct (f_stop st); [reflexivity|].
  symmetry. apply run_map; intros m; reflexivity.
Qed.

Section FwdScan.
  Variables (V : fwd_guards) (sk : skel) (an : bool) (d : data) (p : params) (k : calc).
  Hypothesis H_step : forall st c l0, fstate_eq (fwd_step d p k an st c) (run_fwd V d p k c sk l0 st).

  Lemma fwd_fold_skel : forall cs a m, fstate_eq a (fm_st m) ->
    fstate_eq (fold_left (fwd_step d p k an) cs a) (fm_st (fold_left (run_fwd_m V d p k sk) cs m)).
  Proof.
    induction cs as [|c cs IH]; intros a m H; cbn [fold_left]; [exact H|].
    apply IH. rewrite run_fwd_m_st.
    eapply fstate_eq_trans; [apply fwd_step_cong; exact H | apply H_step].
  Qed.

  Lemma fwd_scan_skel_eq hour l_init : hour = hour_of (k_dep k) ->
    outcome_rel fstate_eq (fwd_scan d p k an) (fwd_scan_skel V sk hour l_init d p k).
  Proof.
    intros ->. unfold fwd_scan, fwd_scan_skel.
    destruct (fwd_entry (k_set k) (hour_of (k_dep k))) as [i|]; cbn [outcome_rel]; [|reflexivity].
    apply fwd_fold_skel. apply fstate_eq_refl.
  Qed.
End FwdScan.

Theorem fwd_scan_skel_tie : forall d p k l_init,
  outcome_rel fstate_eq (fwd_scan d p k false)
    (fwd_scan_skel fwd_code GS.gen_fwd_skel
       (G.gen_fwd_entry_hour (k_dep k) (k_arr k) (k_minAcc k) (k_minEgr k) (q_minw p) (k_maxAcc k) (k_maxEgr k)) l_init d p k).
Proof. intros. apply fwd_scan_skel_eq; [intros; apply fwd_step_skel_tie | apply gen_fwd_entry_hour_spec]. Qed.
Theorem fwdall_scan_skel_tie : forall d p k l_init,
  outcome_rel fstate_eq (fwd_scan d p k true)
    (fwd_scan_skel fwdall_code GS.gen_fwdall_skel
       (G.gen_fwdall_entry_hour (k_dep k) (k_arr k) (k_minAcc k) (k_minEgr k) (q_minw p) (k_maxAcc k) (k_maxEgr k)) l_init d p k).
Proof. intros. apply fwd_scan_skel_eq; [intros; apply fwdall_step_skel_tie | apply gen_fwdall_entry_hour_spec]. Qed.

Lemma rstate_eq_trans a b c : rstate_eq a b -> rstate_eq b c -> rstate_eq a c.
Proof.
  unfold rstate_eq. intros (H1 & H2 & H3 & H4 & H5 & H6 & H7 & H8) (K1 & K2 & K3 & K4 & K5 & K6 & K7 & K8).
  repeat split; intros; etransitivity; eauto.
Qed.

Lemma rev_fp_step_cong p k c minw ex a b r : triple_eq a b -> triple_eq (rev_fp_step p k c minw ex a r) (rev_fp_step p k c minw ex b r).
Proof.
  destruct a as [[t s] e]. destruct b as [[t' s'] e']. intros (Ht & Hs & He). cbn [fst snd] in Ht, Hs, He.
  unfold rev_fp_step. rewrite (Ht (fp_node r)), (He (fp_node r)).
  destruct (negb (Nat.eqb (c_from c) (fp_node r)) && (t' (fp_node r) >? c_dep c - minw)); [repeat split; assumption|].
  destruct (fp_time r <=? q_maxtr p); [|repeat split; assumption].
  destruct (c_dep c - fp_time r - minw >? t' (fp_node r));
    (match goal with |- context [if ?b then (if ?b1 then (if ?b2 then upd e _ _ else e) else e) else e] =>
       destruct b; [destruct b1; [destruct b2|]|] end);
    repeat split; cbn [fst snd]; try assumption; apply upd_ext; assumption.
Qed.

Lemma rev_fp_fold_cong p k c minw ex : forall rows a b, triple_eq a b ->
  triple_eq (fold_left (rev_fp_step p k c minw ex) rows a) (fold_left (rev_fp_step p k c minw ex) rows b).
Proof.
  induction rows as [|r rows IH]; intros a b H; cbn [fold_left]; [exact H|].
  apply IH. apply rev_fp_step_cong. exact H.
Qed.

Lemma rev_step_cong d p k an a b c : rstate_eq a b -> rstate_eq (rev_step d p k an a c) (rev_step d p k an b c).
Proof.
  intros H. pose proof H as (Ht & Hs & Ho & He & Hc & Hr & Hte & Hst).
  destruct a as [taur steps ov acc cnt reached tent stop]. destruct b as [taur' steps' ov' acc' cnt' reached' tent' stop'].
  cbn [r_taur r_steps r_ov r_acc r_count r_reached r_tent r_stop] in Ht, Hs, Ho, He, Hc, Hr, Hte, Hst.
  subst cnt' reached' tent' stop'.
  unfold rev_step. cbn [r_taur r_steps r_ov r_acc r_count r_reached r_tent r_stop].
  rewrite (Ho (c_trip c)), (Ht (c_to c)), (Hs (c_to c)).
  destruct stop; [exact H|].
  match goal with |- rstate_eq (if ?b then _ else _) _ => destruct b end; [|exact H].
  match goal with |- rstate_eq (if ?b then _ else _) _ => destruct b end; [|exact H].
  match goal with |- rstate_eq (if ?b then _ else _) _ => destruct b end.
  { unfold rstate_eq; cbn [r_taur r_steps r_ov r_acc r_count r_reached r_tent r_stop]. repeat split; auto. }
  match goal with |- rstate_eq (if ?b then _ else _) _ => destruct b end; [|exact H].
  match goal with |- context [upd ov (c_trip c) ?v] => set (ov1 := v) end.
  match goal with |- rstate_eq (if ?b then _ else _) _ => destruct b end.
  - match goal with |- rstate_eq (let '(_, _) := ?x in _) _ => destruct x as [r1 t1] end.
    pose proof (rev_fp_fold_cong p k c (minw_eff p c) (o_exit ov1) (rfp_of d (c_from c)) (taur, steps, acc) (taur', steps', acc')
                  (conj Ht (conj Hs He))) as Hf.
    destruct (fold_left (rev_fp_step p k c (minw_eff p c) (o_exit ov1)) (rfp_of d (c_from c)) (taur, steps, acc)) as [[ta sa] ea].
    destruct (fold_left (rev_fp_step p k c (minw_eff p c) (o_exit ov1)) (rfp_of d (c_from c)) (taur', steps', acc')) as [[tb sb] eb].
    destruct Hf as (H1 & H2 & H3). cbn [fst snd] in H1, H2, H3.
    unfold rstate_eq; cbn [r_taur r_steps r_ov r_acc r_count r_reached r_tent r_stop].
    repeat split; auto. apply upd_ext; assumption.
  - unfold rstate_eq; cbn [r_taur r_steps r_ov r_acc r_count r_reached r_tent r_stop].
    repeat split; auto. apply upd_ext; assumption.
Qed.

Lemma run_rev_m_st V d p k sk m c : rm_st (run_rev_m V d p k sk m c) = run_rev V d p k c sk (rm_l m) (rm_st m).
Proof.
  destruct m as [st l]. unfold run_rev_m, run_rev. cbn [rm_st rm_l].
  destruct (r_stop st); [reflexivity|].
  symmetry. apply run_map; intros m; reflexivity.
Qed.

Section RevScan.
  Variables (V : rev_guards) (sk : skel) (an : bool) (d : data) (p : params) (k : calc).
  Hypothesis H_step : forall st c l0, rstate_eq (rev_step d p k an st c) (run_rev V d p k c sk l0 st).

  Lemma rev_fold_skel : forall cs a m, rstate_eq a (rm_st m) ->
    rstate_eq (fold_left (rev_step d p k an) cs a) (rm_st (fold_left (run_rev_m V d p k sk) cs m)).
  Proof.
    induction cs as [|c cs IH]; intros a m H; cbn [fold_left]; [exact H|].
    apply IH. rewrite run_rev_m_st.
    eapply rstate_eq_trans; [apply rev_step_cong; exact H | apply H_step].
  Qed.

  Lemma rev_scan_skel_eq hour l_init : hour = hour_of (k_arr k) + 1 ->
    outcome_rel rstate_eq (rev_scan d p k an) (rev_scan_skel V sk hour l_init d p k).
  Proof.
    intros ->. unfold rev_scan, rev_scan_skel.
    destruct (rev_entry (k_set k) (hour_of (k_arr k) + 1)) as [i|]; cbn [outcome_rel]; [|reflexivity].
    apply rev_fold_skel. apply rstate_eq_refl.
  Qed.
End RevScan.

Theorem rev_scan_skel_tie : forall d p k l_init,
  outcome_rel rstate_eq (rev_scan d p k false)
    (rev_scan_skel rev_code GS.gen_rev_skel
       (G.gen_rev_entry_hour (k_dep k) (k_arr k) (k_minAcc k) (k_minEgr k) (q_minw p) (k_maxAcc k) (k_maxEgr k)) l_init d p k).
Proof. intros. apply rev_scan_skel_eq; [intros; apply rev_step_skel_tie | apply gen_rev_entry_hour_spec]. Qed.
Theorem revall_scan_skel_tie : forall d p k l_init,
  outcome_rel rstate_eq (rev_scan d p k true)
    (rev_scan_skel revall_code GS.gen_revall_skel
       (G.gen_revall_entry_hour (k_dep k) (k_arr k) (k_minAcc k) (k_minEgr k) (q_minw p) (k_maxAcc k) (k_maxEgr k)) l_init d p k).
Proof. intros. apply rev_scan_skel_eq; [intros; apply revall_step_skel_tie | apply gen_revall_entry_hour_spec]. Qed.
