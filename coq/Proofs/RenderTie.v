(* RenderTie.v — the hand model of the JSON answers (RenderJson.v: json_of_step, json_of_route, json_of_access_node,
   json_of_line, json_of_summary, json_of_body, the reason strings) IS what the interpreter of RenderJson.v builds from
   the (key, selector) tables tools/gen_render.py reads from result_to_v2.cpp, result_to_v2_accessibility.cpp and
   result_to_v2_summary.cpp AS THEY ARE NOW (gen/Render.v, regenerated on every run).

   An object is a key-sorted association list with one binding per key (std::map semantics of nlohmann::json), so the
   order of INDEPENDENT assignments in the source does not matter; what breaks a tie below: a key fed from another
   member, a dropped / added key, a key written twice with a different last writer, a changed constant, a changed
   guard (`readyToBoardAt`), a changed row of a reason switch, a changed coordinate order.

   Then the property-level corollaries, stated on the WIRE FORMAT (numbers found under keys of the rendered object):
     json_totals_are_route_totals    every documented total key of a route object carries the model's field; keys distinct
     json_C06_identities             the identities of C06 between the numbers under the JSON keys (and the sums over the
                                     step objects of "steps"), for every route with totals_ok_b - hence for every answer
     json_summary_counts             "nbRoutes" and, per line object, "alternativeCount" = Render.summary_lines (C19)
     json_access_nodes               every node object carries the row's time, total travel time and transfers (C08/C09) *)
From Coq Require Import Strings.String.
From Coq Require Import List ZArith Bool Lia.
From TrV Require Import Journey Calc Spec Render Http.
Require Import TrV.RenderJson.
Require TrV.gen.Render.
From TrV Require Import Proofs.Compose.
Import ListNotations.
Local Open Scope string_scope.
Local Open Scope list_scope.
Local Open Scope Z_scope.

Module GR := TrV.gen.Render.

(* ---------------------------------------------------------------------------------------------- *)
(* the generated tables, bundled *)

Definition gen_step_tables : step_tables :=
  {| tb_walk := GR.gen_render_walk; tb_board := GR.gen_render_board; tb_unboard := GR.gen_render_unboard |}.
Definition gen_route_tables : route_tables :=
  {| rt_steps_tb := gen_step_tables; rt_route_tb := GR.gen_render_route; rt_query_tb := GR.gen_render_route_query |}.

(* what the source renders, from model values *)
Definition code_step (st : Journey.step) : json := render_step gen_step_tables st.
Definition code_route (r : route) : json := render_route gen_step_tables GR.gen_render_route r.
Definition code_route_answer_alt (rs : list route) (total : Z) (q : query_echo) : json :=
  render_route_alt gen_route_tables GR.gen_render_alt_top GR.gen_render_alt_result rs total q.
Definition code_route_answer_single (r : route) (q : query_echo) : json :=
  render_route_single gen_route_tables GR.gen_render_single_top GR.gen_render_single_result r q.
Definition code_noroute (reason : nat) (q : query_echo) : json :=
  render_noroute GR.gen_render_route_query GR.gen_render_noroute_top GR.gen_render_noroute_reasons
                 GR.gen_render_noroute_reason_default reason q.
Definition code_access_node (fwd : bool) (a : accnode) : json := render_node_obj GR.gen_render_access_node fwd a.
Definition code_access_answer (nodes : list accnode) (total : Z) (q : query_echo) : json :=
  render_access GR.gen_render_access_query GR.gen_render_access_node GR.gen_render_access_top GR.gen_render_access_result
                nodes total q.
Definition code_access_noroute (reason : nat) (q : query_echo) : json :=
  render_noroute GR.gen_render_access_query GR.gen_render_access_noroute_top GR.gen_render_access_noroute_reasons
                 GR.gen_render_access_noroute_reason_default reason q.
Definition code_line (l : nat * Z) : json := render_line GR.gen_render_summary_line l.
Definition code_summary_alt (d : data) (rs : list route) (q : query_echo) : json :=
  render_summary GR.gen_render_summary_query GR.gen_render_summary_line GR.gen_render_summary_alt_top
                 GR.gen_render_summary_alt_result d false rs q.
Definition code_summary_single (d : data) (r : route) (q : query_echo) : json :=
  render_summary GR.gen_render_summary_query GR.gen_render_summary_line GR.gen_render_summary_single_top
                 GR.gen_render_summary_single_result d true [r] q.
Definition code_summary_noroute (d : data) (q : query_echo) : json :=
  render_summary GR.gen_render_summary_query GR.gen_render_summary_line GR.gen_render_summary_noroute_top
                 GR.gen_render_summary_noroute_result d false [] q.

(* ---------------------------------------------------------------------------------------------- *)
(* ties: steps *)

Lemma walk_step_tie : forall kind travel dist dep arr ready,
  json_of_step (SWalk kind travel dist dep arr ready) = code_step (SWalk kind travel dist dep arr ready).
Proof. intros [|[|[|k]]] travel dist dep arr ready; reflexivity. Qed.

Lemma board_step_tie : forall trip legseq stopseq node dep wait,
  json_of_step (SBoard trip legseq stopseq node dep wait) = code_step (SBoard trip legseq stopseq node dep wait).
Proof. intros; reflexivity. Qed.

Lemma unboard_step_tie : forall trip legseq stopseq node arr ivt ivd,
  json_of_step (SUnboard trip legseq stopseq node arr ivt ivd) = code_step (SUnboard trip legseq stopseq node arr ivt ivd).
Proof. intros; reflexivity. Qed.

Theorem step_tie : forall st, json_of_step st = code_step st.
Proof. intros [k t ds dp ar rd|t l s n dp w|t l s n ar iv id]; [apply walk_step_tie|apply board_step_tie|apply unboard_step_tie]. Qed.

(* ---------------------------------------------------------------------------------------------- *)
(* ties: the route object *)

Theorem route_tie : forall r, json_of_route r = code_route r.
Proof.
  intro r. unfold code_route, render_route, json_of_route.
  rewrite (map_ext _ _ step_tie).
  set (steps := map (render_step gen_step_tables) (rt_steps r)).
  change (map code_step (rt_steps r)) with steps. clearbody steps. reflexivity.
Qed.

(* ---------------------------------------------------------------------------------------------- *)
(* ties: query echoes, points, reason strings *)

Lemma route_query_tie : forall q, json_of_route_query q = render_query GR.gen_render_route_query q.
Proof. intros [t [|]]; reflexivity. Qed.
Lemma summary_query_tie : forall q, json_of_route_query q = render_query GR.gen_render_summary_query q.
Proof. intros [t [|]]; reflexivity. Qed.
Lemma access_query_tie : forall q, json_of_access_query q = render_query GR.gen_render_access_query q.
Proof. intros [t [|]]; reflexivity. Qed.

Lemma points_tie :
  render_point GR.gen_render_route_point = Some json_of_point /\
  render_point GR.gen_render_access_point = Some json_of_point /\
  render_point GR.gen_render_summary_point = Some json_of_point.
Proof. repeat split; reflexivity. Qed.

Lemma route_reason_tie : forall r,
  reason_text_string (route_reason_text r) = reason_string GR.gen_render_noroute_reasons GR.gen_render_noroute_reason_default r.
Proof. intros [|[|[|[|[|[|r]]]]]]; reflexivity. Qed.
Lemma access_reason_tie : forall r,
  reason_text_string (access_reason_text r) =
  reason_string GR.gen_render_access_noroute_reasons GR.gen_render_access_noroute_reason_default r.
Proof. intros [|[|[|[|[|[|r]]]]]]; reflexivity. Qed.

(* ---------------------------------------------------------------------------------------------- *)
(* ties: whole answers of /v2/route *)

Theorem route_alt_body_tie : forall rs total q,
  json_of_body false (HRoute rs total q) = Some (code_route_answer_alt rs total q).
Proof.
  intros rs total q. unfold code_route_answer_alt, render_route_alt, json_of_body. cbn [rt_steps_tb rt_route_tb rt_query_tb gen_route_tables].
  rewrite <- route_query_tie. rewrite (map_ext _ _ route_tie).
  set (routes := map (render_route gen_step_tables GR.gen_render_route) rs).
  change (map code_route rs) with routes. clearbody routes.
  generalize (json_of_route_query q). intros query. reflexivity.
Qed.

Theorem route_single_body_tie : forall r q,
  json_of_body false (HRoute [r] 1 q) = Some (code_route_answer_single r q).
Proof.
  intros r q. unfold code_route_answer_single, render_route_single, json_of_body. cbn [rt_steps_tb rt_route_tb rt_query_tb gen_route_tables map].
  rewrite <- route_query_tie. rewrite route_tie.
  set (route := render_route gen_step_tables GR.gen_render_route r).
  change (code_route r) with route. clearbody route.
  generalize (json_of_route_query q). intros query. reflexivity.
Qed.

Theorem noroute_body_tie : forall reason q,
  json_of_body false (HNoRouting (route_reason_text reason) q) = Some (code_noroute reason q).
Proof.
  intros reason q. unfold code_noroute, render_noroute, json_of_body.
  rewrite <- route_query_tie, <- route_reason_tie.
  generalize (reason_text_string (route_reason_text reason)) (json_of_route_query q). intros s query. reflexivity.
Qed.

(* ---------------------------------------------------------------------------------------------- *)
(* ties: /v2/accessibility *)

Theorem access_node_tie : forall fwd a, json_of_access_node fwd a = code_access_node fwd a.
Proof. intros [|] a; reflexivity. Qed.

Lemma hnode_tie : forall fwd a, json_of_hnode (render_node fwd a) = json_of_access_node fwd a.
Proof. intros fwd a. reflexivity. Qed.

Theorem access_body_tie : forall nodes total q,
  json_of_body true (HAccess (map (render_node (qe_fwd q)) nodes) total q) = Some (code_access_answer nodes total q).
Proof.
  intros nodes total q. unfold code_access_answer, render_access, json_of_body.
  rewrite <- access_query_tie. rewrite map_map.
  rewrite (map_ext (fun a => json_of_hnode (render_node (qe_fwd q) a)) (render_node_obj GR.gen_render_access_node (qe_fwd q)))
    by (intro a; rewrite hnode_tie; apply access_node_tie).
  generalize (map (render_node_obj GR.gen_render_access_node (qe_fwd q)) nodes) (json_of_access_query q). intros ns query. reflexivity.
Qed.

Theorem access_noroute_body_tie : forall reason q,
  json_of_body true (HNoRouting (access_reason_text reason) q) = Some (code_access_noroute reason q).
Proof.
  intros reason q. unfold code_access_noroute, render_noroute, json_of_body.
  rewrite <- access_query_tie, <- access_reason_tie.
  generalize (reason_text_string (access_reason_text reason)) (json_of_access_query q). intros s query. reflexivity.
Qed.

(* ---------------------------------------------------------------------------------------------- *)
(* ties: /v2/summary *)

Theorem summary_line_tie : forall l, json_of_line l = code_line l.
Proof. intros [l c]. reflexivity. Qed.

Theorem summary_alt_tie : forall d rs q,
  json_of_summary (Z.of_nat (length rs)) (summary_lines d rs) q = code_summary_alt d rs q.
Proof.
  intros d rs q. unfold code_summary_alt, render_summary, json_of_summary.
  rewrite <- summary_query_tie. rewrite (map_ext _ _ summary_line_tie).
  set (ls := map (render_line GR.gen_render_summary_line) (summary_lines d rs)).
  change (map code_line (summary_lines d rs)) with ls. clearbody ls.
  generalize (json_of_route_query q) (Z.of_nat (length rs)). intros query n. reflexivity.
Qed.

Theorem summary_single_tie : forall d r q,
  json_of_summary 1 (summary_lines d [r]) q = code_summary_single d r q.
Proof.
  intros d r q. unfold code_summary_single, render_summary, json_of_summary.
  rewrite <- summary_query_tie. rewrite (map_ext _ _ summary_line_tie).
  set (ls := map (render_line GR.gen_render_summary_line) (summary_lines d [r])).
  change (map code_line (summary_lines d [r])) with ls. clearbody ls.
  generalize (json_of_route_query q). intros query. reflexivity.
Qed.

Theorem summary_noroute_tie : forall d q, json_of_summary 0 [] q = code_summary_noroute d q.
Proof.
  intros d q. unfold code_summary_noroute, render_summary, json_of_summary.
  rewrite <- summary_query_tie.
  generalize (json_of_route_query q). intros query. reflexivity.
Qed.

(* ---------------------------------------------------------------------------------------------- *)
(* the handler model (Http.render) composed with the renderers: the JSON of every 200 answer that carries a result *)

Theorem http_render_json : forall d q,
  (forall x, json_of_body false (resp_body (render d false q (ARoute (Ok x)))) = Some (code_route_answer_single (fst x) q)) /\
  (forall x, json_of_body false (resp_body (render d false q (AAlt (Ok x)))) = Some (code_route_answer_alt (fst x) (snd x) q)) /\
  (forall r, json_of_body false (resp_body (render d false q (ARoute (NoRouting r)))) = Some (code_noroute r q)) /\
  (forall r, json_of_body false (resp_body (render d false q (AAlt (NoRouting r)))) = Some (code_noroute r q)) /\
  (forall x, json_of_body false (resp_body (render d true q (ARoute (Ok x)))) = Some (code_summary_single d (fst x) q)) /\
  (forall x, json_of_body false (resp_body (render d true q (AAlt (Ok x)))) = Some (code_summary_alt d (fst x) q)) /\
  (forall r, json_of_body false (resp_body (render d true q (ARoute (NoRouting r)))) = Some (code_summary_noroute d q)) /\
  (forall r, json_of_body false (resp_body (render d true q (AAlt (NoRouting r)))) = Some (code_summary_noroute d q)) /\
  (forall x, json_of_body true (resp_body (render d false q (AAccess (Ok x)))) = Some (code_access_answer (fst x) (snd x) q)) /\
  (forall r, json_of_body true (resp_body (render d false q (AAccess (NoRouting r)))) = Some (code_access_noroute r q)).
Proof.
  intros d q. repeat split; intros; cbn [render render_outcome resp_body].
  - apply route_single_body_tie.
  - apply route_alt_body_tie.
  - apply noroute_body_tie.
  - apply noroute_body_tie.
  - cbn [json_of_body]. f_equal. apply summary_single_tie.
  - cbn [json_of_body]. f_equal. apply summary_alt_tie.
  - cbn [json_of_body]. f_equal. apply summary_noroute_tie.
  - cbn [json_of_body]. f_equal. apply summary_noroute_tie.
  - apply access_body_tie.
  - apply access_noroute_body_tie.
Qed.

(* ---------------------------------------------------------------------------------------------- *)
(* property level: the totals of a route object *)

Fixpoint nodupb (l : list string) : bool :=
  match l with
  | [] => true
  | x :: r => negb (existsb (String.eqb x) r) && nodupb r
  end.
Lemma nodupb_sound : forall l, nodupb l = true -> NoDup l.
Proof.
  induction l as [|x r IH]; intro H; [constructor|].
  cbn in H. apply andb_true_iff in H. destruct H as [Hx Hr]. constructor; [|auto].
  intro Hin. apply negb_true_iff in Hx. assert (existsb (String.eqb x) r = true) as E; [|congruence].
  apply existsb_exists. exists x. split; [exact Hin|apply String.eqb_refl].
Qed.

Theorem json_totals_are_route_totals : forall r,
  let j := code_route r in
  jnum "totalTravelTime" j = Some (rt_ttt r) /\
  jnum "totalInVehicleTime" j = Some (rt_tivt r) /\
  jnum "totalWaitingTime" j = Some (rt_twait r) /\
  jnum "firstWaitingTime" j = Some (rt_fwait r) /\
  jnum "transferWaitingTime" j = Some (rt_trwait r) /\
  jnum "totalNonTransitTravelTime" j = Some (rt_tnt r) /\
  jnum "accessTravelTime" j = Some (rt_acc r) /\
  jnum "egressTravelTime" j = Some (rt_egr r) /\
  jnum "transferWalkingTime" j = Some (rt_trwalk r) /\
  jnum "numberOfBoardings" j = Some (rt_nboard r) /\
  jnum "numberOfTransfers" j = Some (rt_ntransf r) /\
  jnum "departureTime" j = Some (rt_dep r) /\
  jnum "arrivalTime" j = Some (rt_arr r) /\
  jnum "totalDistance" j = Some (rt_tdist r) /\
  jnum "totalInVehicleDistance" j = Some (rt_tivd r) /\
  jnum "totalNonTransitDistance" j = Some (rt_tntd r) /\
  jnum "transferWalkingDistance" j = Some (rt_trdist r) /\
  jnum "accessDistance" j = Some (rt_accd r) /\
  jnum "egressDistance" j = Some (rt_egrd r) /\
  jget "steps" j = Some (JArr (map code_step (rt_steps r))) /\
  NoDup (jkeys j) /\
  jkeys j = ["accessDistance"; "accessTravelTime"; "arrivalTime"; "departureTime"; "egressDistance"; "egressTravelTime";
             "firstWaitingTime"; "numberOfBoardings"; "numberOfTransfers"; "steps"; "totalDistance"; "totalInVehicleDistance";
             "totalInVehicleTime"; "totalNonTransitDistance"; "totalNonTransitTravelTime"; "totalTravelTime"; "totalWaitingTime";
             "transferWaitingTime"; "transferWalkingDistance"; "transferWalkingTime"].
Proof.
  intro r. cbv zeta. rewrite <- route_tie.
  repeat (split; [reflexivity|]).
  split; [unfold json_of_route; rewrite (map_ext _ _ step_tie); reflexivity|].
  split; [apply nodupb_sound; reflexivity|].
  reflexivity.
Qed.

(* ---------------------------------------------------------------------------------------------- *)
(* property level: C06 on the wire *)

(* sums over the model's steps *)
Definition st_ivt (s : Journey.step) : Z := match s with SUnboard _ _ _ _ _ ivt _ => ivt | _ => 0 end.
Definition st_wait (s : Journey.step) : Z := match s with SBoard _ _ _ _ _ w => w | _ => 0 end.
Definition st_walk (s : Journey.step) : Z := match s with SWalk _ w _ _ _ _ => w | _ => 0 end.
Definition st_board (s : Journey.step) : Z := match s with SBoard _ _ _ _ _ _ => 1 | _ => 0 end.
Definition zsum (f : Journey.step -> Z) (l : list Journey.step) : Z := fold_right (fun s a => f s + a) 0 l.

Lemma steps_chain_sums : forall d p l prev bdep first a a',
  steps_chain d p prev bdep first l a = Some a' ->
  sm_ivt a' = sm_ivt a + zsum st_ivt l /\ sm_wait a' = sm_wait a + zsum st_wait l /\
  sm_walk a' = sm_walk a + zsum st_walk l /\ sm_boards a' = sm_boards a + zsum st_board l.
Proof.
  induction l as [|s l IH]; intros prev bdep first a a' H.
  - cbn in H. inversion H; subst. cbn. lia.
  - destruct s as [k w ds dp ar rd|t lg sq n dp w|t lg sq n ar iv ivd]; cbn [steps_chain] in H.
    + match type of H with (if ?c then _ else _) = _ => destruct c; [|discriminate] end.
      apply IH in H. cbn [sm_ivt sm_wait sm_walk sm_boards] in H. cbn [zsum fold_right st_ivt st_wait st_walk st_board].
      fold (zsum st_ivt l) (zsum st_wait l) (zsum st_walk l) (zsum st_board l). lia.
    + match type of H with (if ?c then _ else _) = _ => destruct c; [|discriminate] end.
      apply IH in H. cbn [sm_ivt sm_wait sm_walk sm_boards] in H. cbn [zsum fold_right st_ivt st_wait st_walk st_board].
      fold (zsum st_ivt l) (zsum st_wait l) (zsum st_walk l) (zsum st_board l). lia.
    + match type of H with (if ?c then _ else _) = _ => destruct c; [|discriminate] end.
      apply IH in H. cbn [sm_ivt sm_wait sm_walk sm_boards] in H. cbn [zsum fold_right st_ivt st_wait st_walk st_board].
      fold (zsum st_ivt l) (zsum st_wait l) (zsum st_walk l) (zsum st_board l). lia.
Qed.

(* the same sums read from the step OBJECTS *)
Lemma jnum_step : forall s,
  jnum "inVehicleTime" (json_of_step s) = (match s with SUnboard _ _ _ _ _ ivt _ => Some ivt | _ => None end) /\
  jnum "waitingTime" (json_of_step s) = (match s with SBoard _ _ _ _ _ w => Some w | _ => None end) /\
  jnum "travelTime" (json_of_step s) = (match s with SWalk _ w _ _ _ _ => Some w | _ => None end) /\
  jget "action" (json_of_step s) =
    Some (JStr (match s with SWalk _ _ _ _ _ _ => "walking" | SBoard _ _ _ _ _ _ => "boarding" | SUnboard _ _ _ _ _ _ _ => "unboarding" end)).
Proof.
  intros [k w ds dp ar rd|t lg sq n dp w|t lg sq n ar iv ivd]; [|repeat split; reflexivity|repeat split; reflexivity].
  unfold json_of_step. destruct (Nat.eqb k 1); repeat split; reflexivity.
Qed.

Lemma jsum_steps : forall l,
  jsum "inVehicleTime" (map json_of_step l) = zsum st_ivt l /\
  jsum "waitingTime" (map json_of_step l) = zsum st_wait l /\
  jsum "travelTime" (map json_of_step l) = zsum st_walk l /\
  Z.of_nat (length (jfilter_str "action" "boarding" (map json_of_step l))) = zsum st_board l.
Proof.
  induction l as [|s l (I1 & I2 & I3 & I4)]; [repeat split; reflexivity|].
  destruct (jnum_step s) as (E1 & E2 & E3 & E4).
  unfold jsum, jfilter_str in *. cbn [map fold_right filter zsum]. rewrite E1, E2, E3, E4, I1, I2, I3.
  fold (zsum st_ivt l) (zsum st_wait l) (zsum st_walk l) (zsum st_board l).
  destruct s as [k w ds dp ar rd|t lg sq n dp w|t lg sq n ar iv ivd]; cbn [st_ivt st_wait st_walk st_board];
    (repeat split; try lia).
  - change (String.eqb "walking" "boarding") with false. cbv iota. lia.
  - change (String.eqb "boarding" "boarding") with true. cbv iota. cbn [length]. lia.
  - change (String.eqb "unboarding" "boarding") with false. cbv iota. lia.
Qed.

Theorem json_C06_identities : forall d p r, totals_ok_b d p r = true -> json_C06_ok d r (code_route r).
Proof.
  intros d p r H. unfold json_C06_ok. cbv zeta.
  destruct (json_totals_are_route_totals r) as
    (T1 & T2 & T3 & T4 & T5 & T6 & T7 & T8 & T9 & T10 & T11 & T12 & T13 & T14 & T15 & T16 & T17 & T18 & T19 & TS & _ & _).
  cbv zeta in *. unfold jval. rewrite T1, T2, T3, T4, T5, T6, T10, T11, T12, T13, TS. cbn [jelems].
  rewrite <- (map_ext _ _ step_tie).
  destruct (jsum_steps (rt_steps r)) as (S1 & S2 & S3 & S4). rewrite S1, S2, S3, S4.
  split.
  { intros k Hk. unfold route_total_keys in Hk. cbn [In] in Hk.
    repeat (destruct Hk as [<-|Hk]; [eexists; eassumption|]). destruct Hk. }
  unfold totals_ok_b in H.
  destruct (steps_chain d p (rt_dep r) 0 true (rt_steps r) _) as [a|] eqn:Hc; [|discriminate].
  apply steps_chain_sums in Hc. cbn [sm_ivt sm_wait sm_walk sm_boards] in Hc. destruct Hc as (C1 & C2 & C3 & C4).
  repeat (apply andb_true_iff in H; destruct H as [H ?]).
  repeat match goal with E : (_ =? _) = true |- _ => apply Z.eqb_eq in E end.
  split; [lia|]. split; [lia|]. split; [lia|]. split; [lia|]. split; [lia|].
  intro Hrt.
  match goal with E : (if rides_transferable _ _ then _ else _) = true |- _ => rewrite Hrt in E;
    repeat (apply andb_true_iff in E; destruct E as [E ?]) end.
  repeat match goal with E : (_ =? _) = true |- _ => apply Z.eqb_eq in E end.
  repeat split; lia.
Qed.

(* ... for every answer of the model on well-formed data *)
Theorem json_C06_identities_single : forall d s p acc egr fresh r used,
  wf_data_b d = true -> wf_tables_b d p acc egr = true -> wf_params_b p = true ->
  calc_single d (conn_set d s) p acc egr fresh = Ok (r, used) -> json_C06_ok d r (code_route r).
Proof. intros. eapply json_C06_identities, calc_single_totals; eauto. Qed.

Theorem json_C06_identities_alternatives : forall d s p acc egr rs total,
  wf_data_b d = true -> wf_tables_b d p acc egr = true -> wf_params_b p = true ->
  alternatives d (conn_set d s) p acc egr = Ok (rs, total) ->
  forall r, In r rs -> json_C06_ok d r (code_route r).
Proof.
  intros d s p acc egr rs total H1 H2 H3 H r Hr.
  eapply json_C06_identities. exact (proj2 (proj2 (alternatives_all_ok d s p acc egr rs total H1 H2 H3 H r Hr))).
Qed.

(* ---------------------------------------------------------------------------------------------- *)
(* property level: C19 on the wire *)

Lemma summary_wire : forall nb lines q, summary_wire_ok (json_of_summary nb lines q) nb lines.
Proof.
  intros nb lines q. unfold summary_wire_ok, json_of_summary.
  eexists; eexists. split; [reflexivity|]. split; [reflexivity|]. split; [reflexivity|]. split; [|reflexivity].
  rewrite map_map. apply map_ext. intros [l c]. reflexivity.
Qed.

Theorem json_summary_counts : forall d,
  (forall rs q, summary_wire_ok (code_summary_alt d rs q) (Z.of_nat (length rs)) (summary_lines d rs)) /\
  (forall r q, summary_wire_ok (code_summary_single d r q) 1 (summary_lines d [r])) /\
  (forall q, summary_wire_ok (code_summary_noroute d q) 0 []).
Proof.
  intro d. repeat split; intros.
  - rewrite <- summary_alt_tie. apply summary_wire.
  - rewrite <- summary_single_tie. apply summary_wire.
  - rewrite <- summary_noroute_tie. apply summary_wire.
Qed.

(* ---------------------------------------------------------------------------------------------- *)
(* property level: accessibility node objects *)

Theorem json_access_nodes : forall fwd a,
  let j := code_access_node fwd a in
  jnum "nodeTime" j = Some (if fwd then an_time a else an_time a - an_ttt a) /\
  jnum "totalTravelTime" j = Some (an_ttt a) /\
  jnum "numberOfTransfers" j = Some (an_ntr a) /\
  jget "nodeUuid" j = Some (JOpaque ONodeUuid (an_node a)) /\
  jkeys j = ["nodeCode"; "nodeCoordinates"; "nodeName"; "nodeTime"; "nodeUuid"; "numberOfTransfers"; "totalTravelTime"].
Proof. intros fwd a. cbv zeta. rewrite <- access_node_tie. repeat split; reflexivity. Qed.

(* ... and the answer carries exactly one such object per row of the model's result, in order, and the stop count *)
Theorem json_access_answer : forall nodes total q,
  exists res, jget "result" (code_access_answer nodes total q) = Some res /\
    jget "nodes" res = Some (JArr (map (code_access_node (qe_fwd q)) nodes)) /\
    jnum "totalNodeCount" res = Some total.
Proof.
  intros nodes total q. unfold code_access_answer, render_access.
  set (ns := map (render_node_obj GR.gen_render_access_node (qe_fwd q)) nodes).
  change (map (code_access_node (qe_fwd q)) nodes) with ns. clearbody ns.
  generalize (render_query GR.gen_render_access_query q). intros query.
  eexists. split; [reflexivity|]. split; reflexivity.
Qed.
