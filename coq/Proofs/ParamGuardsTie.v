(* ParamGuardsTie.v — the model's parameter factories (Params.v) ARE the factories that tools/gen_param_guards.py translated
   from the current C++ sources (gen/ParamGuards.v, regenerated on every run):

     parameters.hpp            ParameterException::Type = the model's E_* codes; the DEFAULT_* values behind the factory's locals
     common_parameters.cpp     getIntegerValue: std::stoi, every failure -> INVALID_NUMERICAL_DATA
                               createCommonParameter:
       1. per key, the string the source compares the key with = `key_name` (the table the differential driver uses,
          ocaml/driver.ml `key_of`; the generator compares the two tables and reports `driver_key_table`)
       2. per numeric key: the value the branch writes, as a function of the previous value and the parsed number
          (`gen_upd_*`), does not depend on the previous value (`*_uncond`: the source ASSIGNS, it does not assign
          conditionally) and is the model's normalisation (`*_spec`); the whole effect of the branch on the locals
          (`gen_step_*`) is `set_field` (`*_tie`: no other local is touched); time_type / scenario_id likewise
       3. one round of the loop, on the raw key string, is `cstep` on `key_of_str` of it (`common_body_is_code`)
       4. the initial values are `common_default`; the tests after the loop, in source order, are those of `create_common`
     route_parameters.cpp / accessibility_parameters.cpp
       5. the lon,lat rule (`point_ok`), one round of each loop (`rstep`, `pstep`), the missing-parameter tests in source
          order, and loop -> tests -> common factory composed in source order: `create_route`, `create_access` on the
          keyed list = `gen_create_route`, `gen_create_access` on the raw list

   A dropped or changed normalisation, an assignment made conditional, a renamed key, a changed default, a changed
   error type, two swapped tests change gen/ParamGuards.v and one of these lemmas stops compiling; comments, log lines,
   renamed locals do not change the generated file. *)
From Coq Require Import List ZArith Bool Lia ZifyBool Arith String Ascii.
Import ListNotations.
From TrV Require Import Params Proofs.ParamsProofs.
From TrV Require Proofs.AltProofs.
From TrV Require gen.ParamGuards.

Module G := TrV.gen.ParamGuards.

(* ============================================================================================== *)
(* 0. key strings: the model's `key` is an enumeration; this is the string behind each (as ocaml/driver.ml `key_of`) *)

Definition codes_of (s : string) : str := map nat_of_ascii (list_ascii_of_string s).

Definition key_name (k : key) : str :=
  match k with
  | KOrigin => codes_of "origin"
  | KDestination => codes_of "destination"
  | KPlace => codes_of "place"
  | KAlternatives => codes_of "alternatives"
  | KTime => codes_of "time_of_trip"
  | KTimeType => codes_of "time_type"
  | KScenario => codes_of "scenario_id"
  | KMinWait => codes_of "min_waiting_time"
  | KMaxTT => codes_of "max_travel_time"
  | KMaxAcc => codes_of "max_access_travel_time"
  | KMaxEgr => codes_of "max_egress_travel_time"
  | KMaxTr => codes_of "max_transfer_travel_time"
  | KMaxFW => codes_of "max_first_waiting_time"
  | KOther => codes_of ""
  end.

Local Open Scope Z_scope.
Local Open Scope bool_scope.

Definition all_keys : list key :=
  [KOrigin; KDestination; KPlace; KAlternatives; KTime; KTimeType; KScenario; KMinWait; KMaxTT; KMaxAcc; KMaxEgr; KMaxTr; KMaxFW].

(* the key a raw string stands for *)
Definition key_of_str (ks : str) : key :=
  match find (fun k => list_eqb ks (key_name k)) all_keys with Some k => k | None => KOther end.

(* a request as the server receives it -> as the model's factories take it *)
Definition keyed (q : list (str * str)) : list (key * str) := map (fun kv => (key_of_str (fst kv), snd kv)) q.

Lemma str_eqb_eq : forall a b, G.str_eqb a b = true <-> a = b.
Proof.
  induction a as [|x r IH]; intros [|y t]; cbn [G.str_eqb]; split; intro H; try reflexivity; try discriminate H.
  - apply andb_true_iff in H. destruct H as [Hx Hr]. apply Nat.eqb_eq in Hx. apply IH in Hr. subst. reflexivity.
  - injection H as -> ->. apply andb_true_iff. split; [apply Nat.eqb_refl | apply IH; reflexivity].
Qed.

Lemma str_eqb_list_eqb : forall a b, G.str_eqb a b = list_eqb a b.
Proof.
  intros a b. destruct (G.str_eqb a b) eqn:E1, (list_eqb a b) eqn:E2; try reflexivity.
  - apply str_eqb_eq in E1. subst b. rewrite AltProofs.list_eqb_refl in E2. discriminate E2.
  - apply AltProofs.list_eqb_eq in E2. subst b. assert (Ht : G.str_eqb a a = true) by (apply str_eqb_eq; reflexivity).
    rewrite Ht in E1. discriminate E1.
Qed.

Lemma key_of_name : forall k, key_of_str (key_name k) = k.
Proof. intros k. destruct k; vm_compute; reflexivity. Qed.

(* a raw string is the name of exactly one key, or of none *)
Lemma key_cases : forall ks,
  (exists k, In k all_keys /\ ks = key_name k) \/
  (key_of_str ks = KOther /\ forall k, In k all_keys -> G.str_eqb ks (key_name k) = false).
Proof.
  intros ks. unfold key_of_str. destruct (find (fun k => list_eqb ks (key_name k)) all_keys) as [k|] eqn:Hf.
  - left. apply find_some in Hf. destruct Hf as [Hin Heq]. apply AltProofs.list_eqb_eq in Heq. exists k. split; assumption.
  - right. split; [reflexivity|]. intros k Hk. rewrite str_eqb_list_eqb.
    exact (find_none _ _ Hf k Hk).
Qed.

(* ============================================================================================== *)
(* 1. ParameterException::Type, key strings, the integer conversion                                 *)

Lemma gen_error_types_spec :
  G.gen_E_MISSING_SCENARIO = E_MISSING_SCENARIO /\ G.gen_E_MISSING_ORIGIN = E_MISSING_ORIGIN /\
  G.gen_E_MISSING_DESTINATION = E_MISSING_DESTINATION /\ G.gen_E_MISSING_TIME_OF_TRIP = E_MISSING_TIME_OF_TRIP /\
  G.gen_E_MISSING_PLACE = E_MISSING_PLACE /\ G.gen_E_EMPTY_SCENARIO = E_EMPTY_SCENARIO /\
  G.gen_E_INVALID_ORIGIN = E_INVALID_ORIGIN /\ G.gen_E_INVALID_DESTINATION = E_INVALID_DESTINATION /\
  G.gen_E_INVALID_PLACE = E_INVALID_PLACE /\ G.gen_E_INVALID_NUMERICAL_DATA = E_INVALID_NUMERICAL_DATA.
Proof. repeat split; reflexivity. Qed.

Lemma gen_int_conversion_spec :
  G.gen_int_conversion_is_stoi = true /\ G.gen_int_conversion_error = E_INVALID_NUMERICAL_DATA.
Proof. split; reflexivity. Qed.

Lemma gen_key_time_of_trip_spec : G.gen_key_time_of_trip = [key_name KTime]. Proof. reflexivity. Qed.
Lemma gen_key_time_type_spec : G.gen_key_time_type = [key_name KTimeType]. Proof. reflexivity. Qed.
Lemma gen_key_scenario_id_spec : G.gen_key_scenario_id = [key_name KScenario]. Proof. reflexivity. Qed.
Lemma gen_key_min_waiting_time_spec : G.gen_key_min_waiting_time = [key_name KMinWait]. Proof. reflexivity. Qed.
Lemma gen_key_max_travel_time_spec : G.gen_key_max_travel_time = [key_name KMaxTT]. Proof. reflexivity. Qed.
Lemma gen_key_max_access_travel_time_spec : G.gen_key_max_access_travel_time = [key_name KMaxAcc]. Proof. reflexivity. Qed.
Lemma gen_key_max_egress_travel_time_spec : G.gen_key_max_egress_travel_time = [key_name KMaxEgr]. Proof. reflexivity. Qed.
Lemma gen_key_max_transfer_travel_time_spec : G.gen_key_max_transfer_travel_time = [key_name KMaxTr]. Proof. reflexivity. Qed.
Lemma gen_key_max_first_waiting_time_spec : G.gen_key_max_first_waiting_time = [key_name KMaxFW]. Proof. reflexivity. Qed.
Lemma gen_key_origin_spec : G.gen_key_origin = [key_name KOrigin]. Proof. reflexivity. Qed.
Lemma gen_key_destination_spec : G.gen_key_destination = [key_name KDestination]. Proof. reflexivity. Qed.
Lemma gen_key_alternatives_spec : G.gen_key_alternatives = [key_name KAlternatives]. Proof. reflexivity. Qed.
Lemma gen_key_place_spec : G.gen_key_place = [key_name KPlace]. Proof. reflexivity. Qed.

Theorem parameter_keys_are_code :
  G.gen_key_time_of_trip = [codes_of "time_of_trip"] /\ key_of_str (codes_of "time_of_trip") = KTime /\
  G.gen_key_time_type = [codes_of "time_type"] /\ key_of_str (codes_of "time_type") = KTimeType /\
  G.gen_key_scenario_id = [codes_of "scenario_id"] /\ key_of_str (codes_of "scenario_id") = KScenario /\
  G.gen_key_min_waiting_time = [codes_of "min_waiting_time"] /\ key_of_str (codes_of "min_waiting_time") = KMinWait /\
  G.gen_key_max_travel_time = [codes_of "max_travel_time"] /\ key_of_str (codes_of "max_travel_time") = KMaxTT /\
  G.gen_key_max_access_travel_time = [codes_of "max_access_travel_time"] /\
    key_of_str (codes_of "max_access_travel_time") = KMaxAcc /\
  G.gen_key_max_egress_travel_time = [codes_of "max_egress_travel_time"] /\
    key_of_str (codes_of "max_egress_travel_time") = KMaxEgr /\
  G.gen_key_max_transfer_travel_time = [codes_of "max_transfer_travel_time"] /\
    key_of_str (codes_of "max_transfer_travel_time") = KMaxTr /\
  G.gen_key_max_first_waiting_time = [codes_of "max_first_waiting_time"] /\
    key_of_str (codes_of "max_first_waiting_time") = KMaxFW /\
  G.gen_key_origin = [codes_of "origin"] /\ key_of_str (codes_of "origin") = KOrigin /\
  G.gen_key_destination = [codes_of "destination"] /\ key_of_str (codes_of "destination") = KDestination /\
  G.gen_key_alternatives = [codes_of "alternatives"] /\ key_of_str (codes_of "alternatives") = KAlternatives /\
  G.gen_key_place = [codes_of "place"] /\ key_of_str (codes_of "place") = KPlace /\
  (* a string that is none of these is no parameter of the model *)
  (forall ks, (forall k, In k all_keys -> ks <> key_name k) -> key_of_str ks = KOther).
Proof.
  repeat (split; [vm_compute; reflexivity|]).
  intros ks Hno. destruct (key_cases ks) as [[k [Hin Heq]] | [Ho _]]; [|exact Ho].
  exfalso. exact (Hno k Hin Heq).
Qed.

(* ============================================================================================== *)
(* 2. the branches of createCommonParameter                                                          *)

Definition g_of (c : common) : G.gcommon :=
  {| G.g_time := cm_time c; G.g_minw := cm_minw c; G.g_maxtt := cm_maxtt c; G.g_maxacc := cm_maxacc c;
     G.g_maxegr := cm_maxegr c; G.g_maxtr := cm_maxtr c; G.g_maxfw := cm_maxfw c; G.g_fwd := cm_fwd c; G.g_scen := cm_scen c |}.

Definition gres_of {A C : Type} (f : A -> C) (p : parsed A) : G.gres C :=
  match p with POk a => G.GOk (f a) | PErr e => G.GErr e | PExn => G.GExn end.

Ltac ptie := intros; cbv beta delta [
  G.gen_upd_time_of_trip G.gen_norm_time_of_trip G.gen_upd_min_waiting_time G.gen_norm_min_waiting_time
  G.gen_upd_max_travel_time G.gen_norm_max_travel_time G.gen_upd_max_access_travel_time G.gen_norm_max_access_travel_time
  G.gen_upd_max_egress_travel_time G.gen_norm_max_egress_travel_time G.gen_upd_max_transfer_travel_time
  G.gen_norm_max_transfer_travel_time G.gen_upd_max_first_waiting_time G.gen_norm_max_first_waiting_time G.MAX_INT MAX_INT norm];
  (repeat match goal with |- context [if ?b then _ else _] => destruct b eqn:?E end); first [reflexivity | lia].

(* the normalisation each numeric key applies to the parsed number *)
Lemma gen_norm_time_of_trip_spec v : G.gen_norm_time_of_trip v = norm KTime v. Proof. ptie. Qed.
Lemma gen_norm_min_waiting_time_spec v : G.gen_norm_min_waiting_time v = norm KMinWait v. Proof. ptie. Qed.
Lemma gen_norm_max_travel_time_spec v : G.gen_norm_max_travel_time v = norm KMaxTT v. Proof. ptie. Qed.
Lemma gen_norm_max_access_travel_time_spec v : G.gen_norm_max_access_travel_time v = norm KMaxAcc v. Proof. ptie. Qed.
Lemma gen_norm_max_egress_travel_time_spec v : G.gen_norm_max_egress_travel_time v = norm KMaxEgr v. Proof. ptie. Qed.
Lemma gen_norm_max_transfer_travel_time_spec v : G.gen_norm_max_transfer_travel_time v = norm KMaxTr v. Proof. ptie. Qed.
Lemma gen_norm_max_first_waiting_time_spec v : G.gen_norm_max_first_waiting_time v = norm KMaxFW v. Proof. ptie. Qed.

(* the statement shape: what is written does not depend on what the local held (assign, then normalise - never
   "assign only when ...") *)
Lemma gen_upd_time_of_trip_uncond old v : G.gen_upd_time_of_trip old v = G.gen_norm_time_of_trip v. Proof. ptie. Qed.
Lemma gen_upd_min_waiting_time_uncond old v : G.gen_upd_min_waiting_time old v = G.gen_norm_min_waiting_time v. Proof. ptie. Qed.
Lemma gen_upd_max_travel_time_uncond old v : G.gen_upd_max_travel_time old v = G.gen_norm_max_travel_time v. Proof. ptie. Qed.
Lemma gen_upd_max_access_travel_time_uncond old v :
  G.gen_upd_max_access_travel_time old v = G.gen_norm_max_access_travel_time v. Proof. ptie. Qed.
Lemma gen_upd_max_egress_travel_time_uncond old v :
  G.gen_upd_max_egress_travel_time old v = G.gen_norm_max_egress_travel_time v. Proof. ptie. Qed.
Lemma gen_upd_max_transfer_travel_time_uncond old v :
  G.gen_upd_max_transfer_travel_time old v = G.gen_norm_max_transfer_travel_time v. Proof. ptie. Qed.
Lemma gen_upd_max_first_waiting_time_uncond old v :
  G.gen_upd_max_first_waiting_time old v = G.gen_norm_max_first_waiting_time v. Proof. ptie. Qed.

(* the generated functions, by key *)
Definition gen_norm_of (k : key) : Z -> Z :=
  match k with
  | KTime => G.gen_norm_time_of_trip | KMinWait => G.gen_norm_min_waiting_time | KMaxTT => G.gen_norm_max_travel_time
  | KMaxAcc => G.gen_norm_max_access_travel_time | KMaxEgr => G.gen_norm_max_egress_travel_time
  | KMaxTr => G.gen_norm_max_transfer_travel_time | KMaxFW => G.gen_norm_max_first_waiting_time
  | _ => fun _ => 0
  end.
Definition gen_upd_of (k : key) : Z -> Z -> Z :=
  match k with
  | KTime => G.gen_upd_time_of_trip | KMinWait => G.gen_upd_min_waiting_time | KMaxTT => G.gen_upd_max_travel_time
  | KMaxAcc => G.gen_upd_max_access_travel_time | KMaxEgr => G.gen_upd_max_egress_travel_time
  | KMaxTr => G.gen_upd_max_transfer_travel_time | KMaxFW => G.gen_upd_max_first_waiting_time
  | _ => fun _ _ => 0
  end.
Definition gen_step_of (k : key) : G.gcommon -> Z -> G.gcommon :=
  match k with
  | KTime => G.gen_step_time_of_trip | KMinWait => G.gen_step_min_waiting_time | KMaxTT => G.gen_step_max_travel_time
  | KMaxAcc => G.gen_step_max_access_travel_time | KMaxEgr => G.gen_step_max_egress_travel_time
  | KMaxTr => G.gen_step_max_transfer_travel_time | KMaxFW => G.gen_step_max_first_waiting_time
  | _ => fun s _ => s
  end.

Lemma gen_norm_of_spec : forall k v, is_numeric_key k = true -> gen_norm_of k v = norm k v.
Proof.
  intros k v Hk. destruct k; try discriminate Hk; cbn [gen_norm_of].
  - apply gen_norm_time_of_trip_spec.
  - apply gen_norm_min_waiting_time_spec.
  - apply gen_norm_max_travel_time_spec.
  - apply gen_norm_max_access_travel_time_spec.
  - apply gen_norm_max_egress_travel_time_spec.
  - apply gen_norm_max_transfer_travel_time_spec.
  - apply gen_norm_max_first_waiting_time_spec.
Qed.

Lemma gen_upd_of_uncond : forall k old v, is_numeric_key k = true -> gen_upd_of k old v = gen_norm_of k v.
Proof.
  intros k old v Hk. destruct k; try discriminate Hk; cbn [gen_upd_of gen_norm_of].
  - apply gen_upd_time_of_trip_uncond.
  - apply gen_upd_min_waiting_time_uncond.
  - apply gen_upd_max_travel_time_uncond.
  - apply gen_upd_max_access_travel_time_uncond.
  - apply gen_upd_max_egress_travel_time_uncond.
  - apply gen_upd_max_transfer_travel_time_uncond.
  - apply gen_upd_max_first_waiting_time_uncond.
Qed.

(* the model's update of the record for a numeric key is the generated effect of that key's branch on the locals: the
   local behind that key receives the generated value, every other local keeps its value *)
Lemma gen_step_of_tie : forall k c x, is_numeric_key k = true -> gen_step_of k (g_of c) x = g_of (set_field c k x).
Proof.
  intros k c x Hk.
  destruct k; try discriminate Hk; cbn [gen_step_of];
    cbv beta delta [G.gen_step_time_of_trip G.gen_step_min_waiting_time G.gen_step_max_travel_time
      G.gen_step_max_access_travel_time G.gen_step_max_egress_travel_time G.gen_step_max_transfer_travel_time
      G.gen_step_max_first_waiting_time];
    unfold g_of, set_field;
    cbn [G.g_time G.g_minw G.g_maxtt G.g_maxacc G.g_maxegr G.g_maxtr G.g_maxfw G.g_fwd G.g_scen
         cm_time cm_minw cm_maxtt cm_maxacc cm_maxegr cm_maxtr cm_maxfw cm_fwd cm_scen].
  - rewrite gen_upd_time_of_trip_uncond, gen_norm_time_of_trip_spec. reflexivity.
  - rewrite gen_upd_min_waiting_time_uncond, gen_norm_min_waiting_time_spec. reflexivity.
  - rewrite gen_upd_max_travel_time_uncond, gen_norm_max_travel_time_spec. reflexivity.
  - rewrite gen_upd_max_access_travel_time_uncond, gen_norm_max_access_travel_time_spec. reflexivity.
  - rewrite gen_upd_max_egress_travel_time_uncond, gen_norm_max_egress_travel_time_spec. reflexivity.
  - rewrite gen_upd_max_transfer_travel_time_uncond, gen_norm_max_transfer_travel_time_spec. reflexivity.
  - rewrite gen_upd_max_first_waiting_time_uncond, gen_norm_max_first_waiting_time_spec. reflexivity.
Qed.

(* time_type: the value is compared with "1"; scenario_id: a scenario that is found replaces the local, one that is not
   found leaves it *)
Lemma gen_step_time_type_tie : forall c v,
  G.gen_step_time_type (g_of c) v = g_of (if list_eqb v [49%nat] then set_fwd c false else c).
Proof.
  intros c v. unfold G.gen_step_time_type. rewrite ?str_eqb_list_eqb.
  destruct (list_eqb v [49%nat]); reflexivity.
Qed.

Lemma gen_step_scenario_id_tie : forall c r,
  G.gen_step_scenario_id (g_of c) r = g_of (match r with Some sid => set_scen c (Some sid) | None => c end).
Proof. intros c r. unfold G.gen_step_scenario_id. destruct r as [sid|]; reflexivity. Qed.

(* ============================================================================================== *)
(* 3. one round of the loop of createCommonParameter                                                 *)

Ltac key_tests :=
  repeat match goal with
  | |- context [G.str_eqb (key_name ?a) (key_name ?b)] =>
      let r := eval vm_compute in (G.str_eqb (key_name a) (key_name b)) in
      change (G.str_eqb (key_name a) (key_name b)) with r
  end.

Ltac no_key H :=
  repeat match goal with
  | |- context [G.str_eqb ?ks (key_name ?b)] =>
      rewrite (H b) by (vm_compute; tauto)
  end.

Section Tie.
  Variable rs : str -> option (option nat).
  Variable so : nat -> nat.

  Theorem common_body_is_code : forall ks v c,
    G.gen_common_body stoi rs ks v (g_of c) = gres_of g_of (cstep rs (key_of_str ks) v c).
  Proof.
    intros ks v c. unfold G.gen_common_body.
    rewrite gen_key_time_of_trip_spec, gen_key_time_type_spec, gen_key_scenario_id_spec, gen_key_min_waiting_time_spec,
      gen_key_max_travel_time_spec, gen_key_max_access_travel_time_spec, gen_key_max_egress_travel_time_spec,
      gen_key_max_transfer_travel_time_spec, gen_key_max_first_waiting_time_spec.
    cbn [G.in_strs existsb].
    destruct (key_cases ks) as [[k [Hin ->]] | [Ho Hno]].
    - rewrite key_of_name.
      assert (Hnum : forall x, G.GOk (gen_step_of k (g_of c) x) = gres_of g_of (POk (set_field c k x)) \/ is_numeric_key k = false).
      { intros x. destruct (is_numeric_key k) eqn:Hk; [left | right; reflexivity].
        cbn [gres_of]. rewrite gen_step_of_tie by exact Hk. reflexivity. }
      cbn [In all_keys] in Hin.
      repeat (destruct Hin as [<- | Hin]); try (exfalso; exact Hin);
        key_tests; cbn [orb]; unfold cstep; cbn [is_numeric_key];
        try (destruct (stoi v) as [x|]; [destruct (Hnum x) as [Hx | Hx]; [exact Hx | discriminate Hx] | reflexivity]);
        try reflexivity.
      + (* time_type *) cbn [gres_of]. rewrite gen_step_time_type_tie. reflexivity.
      + (* scenario_id *) destruct (rs v) as [r|]; [|reflexivity]. cbn [gres_of]. rewrite gen_step_scenario_id_tie.
        destruct r as [sid|]; reflexivity.
    - rewrite Ho. no_key Hno. cbn [orb]. reflexivity.
  Qed.

  Lemma common_loop_is_code : forall q c,
    G.gen_loop (G.gen_common_body stoi rs) q (g_of c) = gres_of g_of (common_loop rs (keyed q) c).
  Proof.
    induction q as [|[ks v] r IH]; intros c.
    - reflexivity.
    - cbn [keyed map fst snd G.gen_loop]. fold (keyed r). rewrite common_loop_cons, common_body_is_code.
      destruct (cstep rs (key_of_str ks) v c) as [c1| |]; cbn [gres_of G.gbind pbind]; [apply IH | reflexivity | reflexivity].
  Qed.

  (* ---- 4. initial values, the tests after the loop ---- *)
  Lemma common_init_is_code : G.gen_common_init = g_of common_default.
  Proof. reflexivity. Qed.

  Theorem parameter_defaults_are_code :
    G.gen_common_init = g_of common_default /\
    G.gen_common_init = {| G.g_time := -1; G.g_minw := 180; G.g_maxtt := MAX_INT; G.g_maxacc := 1200; G.g_maxegr := 1200;
                           G.g_maxtr := 1200; G.g_maxfw := 1800; G.g_fwd := true; G.g_scen := None |} /\
    G.gen_route_init = {| G.r_origin := false; G.r_destination := false; G.r_alt := false |} /\
    G.gen_access_init = {| G.a_place := false |}.
  Proof. repeat split; reflexivity. Qed.

  (* the tests between the loop and the constructor call: which ParameterException a finished loop ends in *)
  Lemma common_checks_are_code : forall c,
    G.first_throw (G.gen_common_check_rules (g_of c) (match cm_scen c with Some sid => so sid | None => 0%nat end)) =
    match cm_scen c with
    | None => Some E_MISSING_SCENARIO
    | Some sid => if Nat.eqb (so sid) 0 then Some E_EMPTY_SCENARIO
                  else if cm_time c <? 0 then Some E_MISSING_TIME_OF_TRIP else None
    end.
  Proof.
    intros c. unfold G.gen_common_check_rules, g_of. cbn [G.g_scen G.g_time G.first_throw].
    destruct (cm_scen c) as [sid|]; cbn [G.gis_some negb]; [|reflexivity].
    destruct (so sid) as [|n]; cbn [Nat.leb Nat.eqb]; [reflexivity|].
    destruct (cm_time c <? 0); reflexivity.
  Qed.

  Theorem create_common_is_code : forall q,
    G.gen_create_common stoi rs so q = gres_of g_of (create_common rs so (keyed q)).
  Proof.
    intros q. unfold G.gen_create_common, create_common. rewrite common_init_is_code, common_loop_is_code.
    destruct (common_loop rs (keyed q) common_default) as [c| |]; cbn [gres_of G.gbind]; [|reflexivity|reflexivity].
    unfold G.gcheck. change (G.g_scen (g_of c)) with (cm_scen c). rewrite common_checks_are_code.
    destruct (cm_scen c) as [sid|]; [|reflexivity].
    destruct (Nat.eqb (so sid) 0); [reflexivity|]. destruct (cm_time c <? 0); reflexivity.
  Qed.

  (* ============================================================================================ *)
  (* 5. createRouteODParameter, createAccessibilityParameter                                        *)

  (* boost::split(parts, value, boost::is_any_of(seps)) for the separator sets the factories use: one character *)
  Definition split1 (seps : list nat) (s : str) : list str :=
    match seps with [c] => split_on c s [] | _ => [] end.

  Ltac ptok :=
    intros v; cbv beta delta [G.gen_origin_point_ok G.gen_origin_separators G.gen_origin_count_bad G.gen_origin_stod_indices
      G.gen_destination_point_ok G.gen_destination_separators G.gen_destination_count_bad G.gen_destination_stod_indices
      G.gen_place_point_ok G.gen_place_separators G.gen_place_count_bad G.gen_place_stod_indices split1 point_ok];
    destruct (split_on 44 v []) as [|a [|b [|c l]]]; cbn [length Nat.eqb negb andb forallb nth]; try reflexivity;
    destruct (stod_ok b); destruct (stod_ok a); reflexivity.

  (* exactly two components, both accepted by std::stod *)
  Lemma gen_origin_point_ok_spec : forall v, G.gen_origin_point_ok stod_ok (split1 G.gen_origin_separators v) = point_ok v.
  Proof. ptok. Qed.
  Lemma gen_destination_point_ok_spec : forall v,
    G.gen_destination_point_ok stod_ok (split1 G.gen_destination_separators v) = point_ok v.
  Proof. ptok. Qed.
  Lemma gen_place_point_ok_spec : forall v, G.gen_place_point_ok stod_ok (split1 G.gen_place_separators v) = point_ok v.
  Proof. ptok. Qed.

  Definition gr_of (st : bool * bool * bool) : G.groute :=
    let '(o, d, a) := st in {| G.r_origin := o; G.r_destination := d; G.r_alt := a |}.
  Definition ga_of (p : bool) : G.gaccess := {| G.a_place := p |}.

  Lemma gen_step_alternatives_tie : forall o d a v,
    G.gen_step_alternatives (gr_of (o, d, a)) v =
    gr_of (o, d, a || list_eqb v [116; 114; 117; 101]%nat || list_eqb v [49%nat]).
  Proof.
    intros o d a v. unfold G.gen_step_alternatives, gr_of. cbn [G.r_origin G.r_destination G.r_alt].
    rewrite ?str_eqb_list_eqb.
    destruct a; destruct (list_eqb v [116; 114; 117; 101]%nat); destruct (list_eqb v [49%nat]); reflexivity.
  Qed.

  Theorem route_body_is_code : forall ks v st,
    G.gen_route_body split1 stod_ok ks v (gr_of st) = gres_of gr_of (rstep (key_of_str ks) v st).
  Proof.
    intros ks v [[o d] a]. unfold G.gen_route_body.
    rewrite gen_key_origin_spec, gen_key_destination_spec, gen_key_alternatives_spec.
    cbn [G.in_strs existsb].
    destruct (key_cases ks) as [[k [Hin ->]] | [Ho Hno]].
    - rewrite key_of_name. cbn [In all_keys] in Hin.
      repeat (destruct Hin as [<- | Hin]); try (exfalso; exact Hin);
        key_tests; cbn [orb]; unfold rstep; try reflexivity.
      + rewrite gen_origin_point_ok_spec. destruct (point_ok v); reflexivity.
      + rewrite gen_destination_point_ok_spec. destruct (point_ok v); reflexivity.
      + cbn [gres_of]. rewrite gen_step_alternatives_tie. reflexivity.
    - rewrite Ho. no_key Hno. cbn [orb]. reflexivity.
  Qed.

  Theorem access_body_is_code : forall ks v p,
    G.gen_access_body split1 stod_ok ks v (ga_of p) = gres_of ga_of (pstep (key_of_str ks) v p).
  Proof.
    intros ks v p. unfold G.gen_access_body. rewrite gen_key_place_spec. cbn [G.in_strs existsb].
    destruct (key_cases ks) as [[k [Hin ->]] | [Ho Hno]].
    - rewrite key_of_name. cbn [In all_keys] in Hin.
      repeat (destruct Hin as [<- | Hin]); try (exfalso; exact Hin);
        key_tests; cbn [orb]; unfold pstep; try reflexivity.
      rewrite gen_place_point_ok_spec. destruct (point_ok v); reflexivity.
    - rewrite Ho. no_key Hno. cbn [orb]. reflexivity.
  Qed.

  Lemma route_loop_is_code : forall q st,
    G.gen_loop (G.gen_route_body split1 stod_ok) q (gr_of st) = gres_of gr_of (route_loop3 (keyed q) st).
  Proof.
    induction q as [|[ks v] r IH]; intros st.
    - destruct st as [[o d] a]. reflexivity.
    - cbn [keyed map fst snd G.gen_loop]. fold (keyed r). rewrite route_loop_cons, route_body_is_code.
      destruct (rstep (key_of_str ks) v st) as [st1| |]; cbn [gres_of G.gbind pbind]; [apply IH | reflexivity | reflexivity].
  Qed.

  Lemma place_loop_is_code : forall q p,
    G.gen_loop (G.gen_access_body split1 stod_ok) q (ga_of p) = gres_of ga_of (place_loop (keyed q) p).
  Proof.
    induction q as [|[ks v] r IH]; intros p.
    - reflexivity.
    - cbn [keyed map fst snd G.gen_loop]. fold (keyed r). rewrite place_loop_cons, access_body_is_code.
      destruct (pstep (key_of_str ks) v p) as [p1| |]; cbn [gres_of G.gbind pbind]; [apply IH | reflexivity | reflexivity].
  Qed.

  (* the missing-parameter tests, in source order *)
  Lemma route_checks_are_code : forall o d a,
    G.first_throw (G.gen_route_check_rules (gr_of (o, d, a))) =
    if negb o then Some E_MISSING_ORIGIN else if negb d then Some E_MISSING_DESTINATION else None.
  Proof. intros o d a. destruct o; destruct d; reflexivity. Qed.

  Lemma access_checks_are_code : forall p,
    G.first_throw (G.gen_access_check_rules (ga_of p)) = if negb p then Some E_MISSING_PLACE else None.
  Proof. intros p. destruct p; reflexivity. Qed.

  (* loop, then the tests, then the common factory - composed in the order the source has them *)
  Theorem create_route_is_code : forall q,
    G.gen_create_route split1 stod_ok stoi rs so q =
    gres_of (fun x : common * bool => (g_of (fst x), snd x)) (create_route rs so (keyed q)).
  Proof.
    intros q. unfold G.gen_create_route, create_route.
    change G.gen_route_init with (gr_of (false, false, false)).
    change (route_loop (keyed q) false false false) with (route_loop3 (keyed q) (false, false, false)).
    rewrite route_loop_is_code.
    destruct (route_loop3 (keyed q) (false, false, false)) as [[[o d] a]| |]; cbn [gres_of G.gbind]; [|reflexivity|reflexivity].
    unfold G.gcheck. rewrite route_checks_are_code.
    destruct o; cbn [negb]; [|reflexivity]. destruct d; cbn [negb]; [|reflexivity].
    rewrite create_common_is_code.
    destruct (create_common rs so (keyed q)) as [c| |]; reflexivity.
  Qed.

  Theorem create_access_is_code : forall q,
    G.gen_create_access split1 stod_ok stoi rs so q = gres_of g_of (create_access rs so (keyed q)).
  Proof.
    intros q. unfold G.gen_create_access, create_access.
    change G.gen_access_init with (ga_of false). rewrite place_loop_is_code.
    destruct (place_loop (keyed q) false) as [p| |]; cbn [gres_of G.gbind]; [|reflexivity|reflexivity].
    unfold G.gcheck. rewrite access_checks_are_code.
    destruct p; cbn [negb]; [|reflexivity].
    rewrite create_common_is_code.
    destruct (create_common rs so (keyed q)) as [c| |]; reflexivity.
  Qed.

  (* ============================================================================================ *)
  (* the statements the property file quotes                                                        *)

  Theorem parameter_normalisation_is_code :
    (* the documented normalisations are what the source computes from the parsed number ... *)
    (forall v, G.gen_norm_time_of_trip v = if v <? 0 then -1 else v) /\
    (forall v, G.gen_norm_min_waiting_time v = if v <? 0 then 0 else v) /\
    (forall v, G.gen_norm_max_travel_time v = if v <=? 0 then MAX_INT else v) /\
    (forall v, G.gen_norm_max_access_travel_time v = if v <=? 0 then MAX_INT else v) /\
    (forall v, G.gen_norm_max_egress_travel_time v = if v <=? 0 then MAX_INT else v) /\
    (forall v, G.gen_norm_max_transfer_travel_time v = if v <=? 0 then MAX_INT else v) /\
    (forall v, G.gen_norm_max_first_waiting_time v = if v <=? 0 then -1 else v) /\
    (* ... the source assigns that value whatever the local held, to the local behind that key and to no other, and
       that is the model's update of the record *)
    (forall k old v, is_numeric_key k = true -> gen_upd_of k old v = gen_norm_of k v /\ gen_norm_of k v = norm k v) /\
    (forall k c x, is_numeric_key k = true -> gen_step_of k (g_of c) x = g_of (set_field c k x)) /\
    (* a failed conversion is INVALID_NUMERICAL_DATA; time_type compares with "1"; a scenario that is not found leaves
       the earlier one *)
    G.gen_int_conversion_is_stoi = true /\ G.gen_int_conversion_error = E_INVALID_NUMERICAL_DATA /\
    (forall c v, G.gen_step_time_type (g_of c) v = g_of (if list_eqb v (codes_of "1") then set_fwd c false else c)) /\
    (forall c r, G.gen_step_scenario_id (g_of c) r = g_of (match r with Some sid => set_scen c (Some sid) | None => c end)) /\
    (* one round of the loop on the raw key string is the model's step on the key it names *)
    (forall ks v c, G.gen_common_body stoi rs ks v (g_of c) = gres_of g_of (cstep rs (key_of_str ks) v c)).
  Proof.
    split; [intro v; rewrite gen_norm_time_of_trip_spec; reflexivity|].
    split; [intro v; rewrite gen_norm_min_waiting_time_spec; reflexivity|].
    split; [intro v; rewrite gen_norm_max_travel_time_spec; reflexivity|].
    split; [intro v; rewrite gen_norm_max_access_travel_time_spec; reflexivity|].
    split; [intro v; rewrite gen_norm_max_egress_travel_time_spec; reflexivity|].
    split; [intro v; rewrite gen_norm_max_transfer_travel_time_spec; reflexivity|].
    split; [intro v; rewrite gen_norm_max_first_waiting_time_spec; reflexivity|].
    split; [intros k old v Hk; split; [apply gen_upd_of_uncond | apply gen_norm_of_spec]; exact Hk|].
    split; [intros k c x Hk; apply gen_step_of_tie; exact Hk|].
    split; [reflexivity|]. split; [reflexivity|].
    split; [exact gen_step_time_type_tie|].
    split; [exact gen_step_scenario_id_tie|].
    exact common_body_is_code.
  Qed.

  Theorem factory_check_order_is_code :
    (* the order of the tests, as the ParameterException types they raise *)
    (forall s n, map snd (G.gen_common_check_rules s n) = [E_MISSING_SCENARIO; E_EMPTY_SCENARIO; E_MISSING_TIME_OF_TRIP]) /\
    (forall st, map snd (G.gen_route_check_rules st) = [E_MISSING_ORIGIN; E_MISSING_DESTINATION]) /\
    (forall st, map snd (G.gen_access_check_rules st) = [E_MISSING_PLACE]) /\
    (* a coordinate pair that does not have exactly two std::stod-readable components is INVALID_* *)
    G.gen_origin_invalid_error = E_INVALID_ORIGIN /\ G.gen_destination_invalid_error = E_INVALID_DESTINATION /\
    G.gen_place_invalid_error = E_INVALID_PLACE /\
    (forall v, G.gen_origin_point_ok stod_ok (split1 G.gen_origin_separators v) = point_ok v) /\
    (forall v, G.gen_destination_point_ok stod_ok (split1 G.gen_destination_separators v) = point_ok v) /\
    (forall v, G.gen_place_point_ok stod_ok (split1 G.gen_place_separators v) = point_ok v) /\
    (* the factories of the source, on the request as received, are the model's factories on the keyed request *)
    (forall q, G.gen_create_common stoi rs so q = gres_of g_of (create_common rs so (keyed q))) /\
    (forall q, G.gen_create_route split1 stod_ok stoi rs so q =
               gres_of (fun x : common * bool => (g_of (fst x), snd x)) (create_route rs so (keyed q))) /\
    (forall q, G.gen_create_access split1 stod_ok stoi rs so q = gres_of g_of (create_access rs so (keyed q))).
  Proof.
    split; [intros s n; reflexivity|]. split; [intros st; reflexivity|]. split; [intros st; reflexivity|].
    split; [reflexivity|]. split; [reflexivity|]. split; [reflexivity|].
    split; [exact gen_origin_point_ok_spec|]. split; [exact gen_destination_point_ok_spec|].
    split; [exact gen_place_point_ok_spec|].
    split; [exact create_common_is_code|]. split; [exact create_route_is_code|]. exact create_access_is_code.
  Qed.
End Tie.
