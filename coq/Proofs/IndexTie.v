(* IndexTie.v — the two hour tables of a connection set (Data.fwd_index, Data.rev_index: closed forms per connection) ARE what
   the interpreter of coq/ScenCode.v computes from the statements of ConnectionSet::generateConnectionsIteratorCache as
   tools/gen_scenario.py reads them NOW (gen/Scenario.v: gen_index_code) - the start hour, the loop over the connections with
   its inner `while` (which time, which comparison with currentHour * 3600, the extra bound on the hour, push_back /
   insert at begin, ++ / --), the fill loop with its test and the end iterator it stores.

     fwd_while_tie, rev_while_tie    one connection: the `while` runs Index.fwd_k / rev_k rounds (the fuel suffices)
     index_tables_are_code           run_index gen_index_code fwd rev = (fwd_index fwd, rev_index rev), for ALL lists
     connset_tables_are_code         the tables of Data.mk_connset (hence of conn_set d s) are those *)
From Coq Require Import List ZArith Bool Arith Lia.
From TrV Require Import Render Proofs.Index.
Require Import TrV.ScenCode.
Require TrV.gen.Scenario.
Import ListNotations.
Local Open Scope Z_scope.

Module GS := TrV.gen.Scenario.

Ltac Zify.zify_post_hook ::= Z.div_mod_to_equations.

Definition w_fwd : iwhile :=
  {| iw_src := SForward; iw_time := ITDeparture; iw_cmp := ICGe; iw_scale := 3600; iw_bound := None;
     iw_table := SForward; iw_place := IPushBack; iw_dir := 1 |}.
Definition w_rev : iwhile :=
  {| iw_src := SReverse; iw_time := ITArrival; iw_cmp := ICLe; iw_scale := 3600; iw_bound := Some (ICGt, BEGIN_HOUR);
     iw_table := SReverse; iw_place := IInsertFront; iw_dir := -1 |}.
Definition f_fwd : ifill :=
  {| if_cmp := ICLt; if_bound := END_HOUR; if_table := SForward; if_place := IPushBack; if_end_of := SForward; if_dir := 1 |}.
Definition f_rev : ifill :=
  {| if_cmp := ICGe; if_bound := BEGIN_HOUR; if_table := SReverse; if_place := IInsertFront; if_end_of := SReverse; if_dir := -1 |}.

(* what the translator reads today *)
Lemma gen_index_shape :
  GS.gen_index_code = [ISetHour BEGIN_HOUR; IWhileLoop w_fwd; IFill f_fwd; ISetHour (END_HOUR - 1); IWhileLoop w_rev; IFill f_rev].
Proof. reflexivity. Qed.

(* ---------- forward ---------- *)

Lemma fwd_k_step : forall c h,
  (if c_dep c >=? h * 3600 then fwd_k c h = S (fwd_k c (h + 1)) else fwd_k c h = 0%nat).
Proof.
  intros c h. unfold fwd_k. destruct (Z.geb_spec (c_dep c) (h * 3600)) as [H|H]; [|reflexivity].
  destruct (Z.geb_spec (c_dep c) ((h + 1) * 3600)) as [H1|H1].
  - rewrite <- Z2Nat.inj_succ by lia. f_equal. lia.
  - replace (c_dep c / 3600 - h + 1) with 1 by lia. reflexivity.
Qed.

Lemma repeat_snoc : forall (x : nat) k, repeat x k ++ [x] = x :: repeat x k.
Proof. induction k; cbn [repeat app]; [reflexivity | now rewrite IHk]. Qed.

Lemma fwd_while_tie : forall fuel c pos h ft rt,
  (fwd_k c h <= fuel)%nat ->
  iw_inner fuel w_fwd c pos {| i_hour := h; i_ftab := ft; i_rtab := rt |} =
  {| i_hour := h + Z.of_nat (fwd_k c h); i_ftab := ft ++ repeat pos (fwd_k c h); i_rtab := rt |}.
Proof.
  induction fuel as [|f IH]; intros c pos h ft rt Hk.
  - assert (fwd_k c h = 0%nat) as -> by lia. cbn [iw_inner Z.of_nat repeat]. now rewrite Z.add_0_r, app_nil_r.
  - cbn [iw_inner]. unfold iw_cond. cbn [w_fwd iw_cmp iw_time iw_scale iw_bound icmp_holds itime_of i_hour].
    fold w_fwd. rewrite andb_true_r. pose proof (fwd_k_step c h) as Hs.
    destruct (c_dep c >=? h * 3600).
    + cbn [w_fwd i_place iw_table iw_place iw_dir iplace_do i_hour i_ftab i_rtab]. fold w_fwd.
      rewrite IH by lia. rewrite Hs. cbn [repeat]. rewrite <- app_assoc. cbn [app].
      f_equal; try lia; try (now rewrite <- repeat_snoc, <- app_assoc).
    + rewrite Hs. cbn [Z.of_nat repeat]. now rewrite Z.add_0_r, app_nil_r.
Qed.

Lemma fwd_fuel_enough : forall c h, (fwd_k c h <= iw_fuel w_fwd c h)%nat.
Proof.
  intros c h. unfold iw_fuel, fwd_k. cbn [w_fwd iw_time itime_of].
  destruct (Z.geb_spec (c_dep c) (h * 3600)); [|lia]. apply Z2Nat.inj_le; lia.
Qed.

Lemma fwd_outer_tie : forall cs pos h ft rt,
  iw_outer w_fwd cs pos {| i_hour := h; i_ftab := ft; i_rtab := rt |} =
  {| i_hour := snd (fwd_index_loop cs pos h ft); i_ftab := fst (fwd_index_loop cs pos h ft); i_rtab := rt |}.
Proof.
  induction cs as [|c r IH]; intros pos h ft rt; [reflexivity|].
  cbn [iw_outer i_hour]. rewrite fwd_while_tie by apply fwd_fuel_enough. rewrite IH, fwd_index_loop_cons. reflexivity.
Qed.

Lemma fwd_fill_tie : forall fuel endpos h ft rt,
  (Z.to_nat (END_HOUR - h) <= fuel)%nat ->
  if_inner fuel f_fwd endpos {| i_hour := h; i_ftab := ft; i_rtab := rt |} =
  {| i_hour := h + Z.of_nat (Z.to_nat (END_HOUR - h)); i_ftab := ft ++ repeat endpos (Z.to_nat (END_HOUR - h)); i_rtab := rt |}.
Proof.
  induction fuel as [|f IH]; intros endpos h ft rt Hk.
  - assert (Z.to_nat (END_HOUR - h) = 0%nat) as -> by lia. cbn [if_inner Z.of_nat repeat]. now rewrite Z.add_0_r, app_nil_r.
  - cbn [if_inner f_fwd if_cmp if_bound icmp_holds i_hour]. fold f_fwd. destruct (Z.ltb_spec h END_HOUR) as [H|H].
    + cbn [f_fwd i_place if_table if_place if_dir iplace_do i_hour i_ftab i_rtab]. fold f_fwd.
      rewrite IH by lia.
      replace (Z.to_nat (END_HOUR - h)) with (S (Z.to_nat (END_HOUR - (h + 1)))) by lia.
      cbn [repeat]. rewrite <- app_assoc. cbn [app]. f_equal; try lia; try (now rewrite <- repeat_snoc, <- app_assoc).
    + replace (Z.to_nat (END_HOUR - h)) with 0%nat by lia. cbn [Z.of_nat repeat]. now rewrite Z.add_0_r, app_nil_r.
Qed.

(* ---------- reverse ---------- *)

Lemma rev_k_step : forall c h,
  (if (c_arr c <=? h * 3600) && (h >? 0) then rev_k c h = S (rev_k c (h - 1)) else rev_k c h = 0%nat).
Proof.
  intros c h. unfold rev_k.
  destruct (Z.leb_spec (c_arr c) (h * 3600)) as [H|H]; destruct (Z.gtb_spec h 0) as [P|P]; cbn [andb]; try reflexivity.
  destruct (Z.leb_spec (c_arr c) ((h - 1) * 3600)) as [H1|H1]; destruct (Z.gtb_spec (h - 1) 0) as [P1|P1]; cbn [andb].
  - rewrite <- Z2Nat.inj_succ by lia. f_equal. lia.
  - replace (h - Z.max 1 ((c_arr c + 3599) / 3600) + 1) with 1 by lia. reflexivity.
  - replace (h - Z.max 1 ((c_arr c + 3599) / 3600) + 1) with 1 by lia. reflexivity.
  - replace (h - Z.max 1 ((c_arr c + 3599) / 3600) + 1) with 1 by lia. reflexivity.
Qed.

Lemma repeat_cons_app : forall (x : nat) k l, x :: repeat x k ++ l = repeat x k ++ x :: l.
Proof. induction k; intro l; cbn [repeat app]; [reflexivity | now rewrite IHk]. Qed.

Lemma rev_while_tie : forall fuel c pos h ft rt,
  (rev_k c h <= fuel)%nat ->
  iw_inner fuel w_rev c pos {| i_hour := h; i_ftab := ft; i_rtab := rt |} =
  {| i_hour := h - Z.of_nat (rev_k c h); i_ftab := ft; i_rtab := repeat pos (rev_k c h) ++ rt |}.
Proof.
  induction fuel as [|f IH]; intros c pos h ft rt Hk.
  - assert (rev_k c h = 0%nat) as -> by lia. cbn [iw_inner Z.of_nat repeat app]. now rewrite Z.sub_0_r.
  - cbn [iw_inner]. unfold iw_cond. cbn [w_rev iw_cmp iw_time iw_scale iw_bound icmp_holds itime_of i_hour].
    fold w_rev. pose proof (rev_k_step c h) as Hs. change BEGIN_HOUR with 0.
    destruct ((c_arr c <=? h * 3600) && (h >? 0)).
    + cbn [w_rev i_place iw_table iw_place iw_dir iplace_do i_hour i_ftab i_rtab]. fold w_rev.
      replace (h + -1) with (h - 1) by lia.
      rewrite IH by lia. rewrite Hs. cbn [repeat app]. f_equal; try lia; try (now rewrite repeat_cons_app).
    + rewrite Hs. cbn [Z.of_nat repeat app]. now rewrite Z.sub_0_r.
Qed.

Lemma rev_fuel_enough : forall c h, (rev_k c h <= iw_fuel w_rev c h)%nat.
Proof.
  intros c h. unfold iw_fuel, rev_k. cbn [w_rev iw_time itime_of].
  destruct (Z.leb_spec (c_arr c) (h * 3600)); destruct (Z.gtb_spec h 0); cbn [andb]; try lia; apply Z2Nat.inj_le; lia.
Qed.

Lemma rev_outer_tie : forall cs pos h ft rt,
  iw_outer w_rev cs pos {| i_hour := h; i_ftab := ft; i_rtab := rt |} =
  {| i_hour := snd (rev_index_loop cs pos h rt); i_ftab := ft; i_rtab := fst (rev_index_loop cs pos h rt) |}.
Proof.
  induction cs as [|c r IH]; intros pos h ft rt; [reflexivity|].
  cbn [iw_outer i_hour]. rewrite rev_while_tie by apply rev_fuel_enough. rewrite IH, rev_index_loop_cons. reflexivity.
Qed.

Lemma rev_fill_tie : forall fuel endpos h ft rt,
  (Z.to_nat (h - BEGIN_HOUR + 1) <= fuel)%nat ->
  if_inner fuel f_rev endpos {| i_hour := h; i_ftab := ft; i_rtab := rt |} =
  {| i_hour := h - Z.of_nat (Z.to_nat (h - BEGIN_HOUR + 1)); i_ftab := ft;
     i_rtab := repeat endpos (Z.to_nat (h - BEGIN_HOUR + 1)) ++ rt |}.
Proof.
  change BEGIN_HOUR with 0.
  induction fuel as [|f IH]; intros endpos h ft rt Hk.
  - assert (Z.to_nat (h - 0 + 1) = 0%nat) as -> by lia. cbn [if_inner Z.of_nat repeat app]. now rewrite Z.sub_0_r.
  - cbn [if_inner f_rev if_cmp if_bound icmp_holds i_hour]. fold f_rev. change BEGIN_HOUR with 0. destruct (Z.geb_spec h 0) as [H|H].
    + cbn [f_rev i_place if_table if_place if_dir iplace_do i_hour i_ftab i_rtab]. fold f_rev.
      replace (h + -1) with (h - 1) by lia. rewrite IH by lia.
      replace (Z.to_nat (h - 0 + 1)) with (S (Z.to_nat (h - 1 - 0 + 1))) by lia.
      cbn [repeat app]. f_equal; try lia; try (now rewrite repeat_cons_app).
    + replace (Z.to_nat (h - 0 + 1)) with 0%nat by lia. cbn [Z.of_nat repeat app]. now rewrite Z.sub_0_r.
Qed.

(* ---------- the function ---------- *)

Theorem index_tables_are_code : forall fwd rev,
  run_index GS.gen_index_code fwd rev = (fwd_index fwd, rev_index rev).
Proof.
  intros fwd rev. unfold run_index. rewrite gen_index_shape. cbn [fold_left run_istmt i_hour i_ftab i_rtab w_fwd w_rev f_fwd f_rev iw_src if_end_of if_bound].
  fold w_fwd w_rev f_fwd f_rev.
  rewrite fwd_outer_tie. cbn [i_hour].
  rewrite fwd_fill_tie by (change END_HOUR with 32; lia). cbn [i_hour i_ftab i_rtab].
  rewrite rev_outer_tie. cbn [i_hour].
  rewrite rev_fill_tie by (change BEGIN_HOUR with 0; lia). cbn [i_ftab i_rtab].
  unfold fwd_index, rev_index.
  destruct (fwd_index_loop fwd 0 BEGIN_HOUR []) as [acc cur].
  destruct (rev_index_loop rev 0 (END_HOUR - 1) []) as [racc rcur]. reflexivity.
Qed.

Theorem connset_tables_are_code : forall trips fwd rev,
  (cs_fidx (mk_connset trips fwd rev), cs_ridx (mk_connset trips fwd rev)) = run_index GS.gen_index_code fwd rev.
Proof. intros. now rewrite index_tables_are_code. Qed.
