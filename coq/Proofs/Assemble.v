(* Assemble.v — the full statements of C01, C02, C10 (structure/validity part) assembled from the theorems of
   RouteValid, Limits, Compose, AltProofs.  The statements themselves stay in Properties/Properties_Cxx.v. *)
From TrV Require Import Properties.Common.
From TrV Require Import Proofs.RouteValid Proofs.Limits Proofs.Compose Proofs.AltProofs.
Local Open Scope Z_scope.

Lemma in_domain_parts d s p acc egr : in_domain d s p acc egr ->
  wf_data_b d = true /\ wf_tables_b d p acc egr = true /\ wf_params_b p = true.
Proof. intros (H1 & _ & H3 & H4 & _). auto. Qed.

Lemma C01_assembled : forall d s p acc egr, in_domain d s p acc egr ->
    (forall r used, answer_route d s p acc egr = Ok (r, used) -> valid_itinerary_b d s p acc egr r = true) /\
    (forall rs n, answer_alt d s p acc egr = Ok (rs, n) -> forall r, In r rs -> valid_itinerary_b d s p acc egr r = true) /\
    is_bad (answer_route d s p acc egr) = false.
Proof.
  intros d s p acc egr Hd. destruct (in_domain_parts _ _ _ _ _ Hd) as (Hwf & Htab & Hp).
  split; [|split].
  - intros r used H. exact (calc_single_valid d s p acc egr true r used Hwf Htab Hp H).
  - intros rs n H r Hr. exact (proj1 (alternatives_all_ok d s p acc egr rs n Hwf Htab Hp H r Hr)).
  - unfold answer_route.
    destruct (calc_single_outcome d s p acc egr true Hwf Htab Hp) as [(r & used & E)|(reason & E)];
      rewrite E; reflexivity.
Qed.

Lemma C02_assembled : forall d s p acc egr, in_domain d s p acc egr ->
    (forall r used, answer_route d s p acc egr = Ok (r, used) -> limits_ok_b d s p r = true) /\
    (forall rs n, answer_alt d s p acc egr = Ok (rs, n) -> forall r, In r rs -> limits_ok_b d s p r = true).
Proof.
  intros d s p acc egr Hd. destruct (in_domain_parts _ _ _ _ _ Hd) as (Hwf & Htab & Hp).
  split.
  - intros r used H. exact (calc_single_limits d s p acc egr true r used Hwf Htab Hp H).
  - intros rs n H r Hr. exact (proj1 (proj2 (alternatives_all_ok d s p acc egr rs n Hwf Htab Hp H r Hr))).
Qed.

(* C10 without the no-better clause (that clause is part of the optimality statements, Optimal.v) *)
Lemma C10_assembled : forall d s p acc egr, in_domain d s p acc egr ->
    match answer_alt d s p acc egr with
    | Ok (rs, total) =>
        (exists used, answer_route d s p acc egr = Ok (hd (emit d p 0 []) rs, used)) /\
        (forall r, In r rs -> valid_itinerary_b d s p acc egr r = true /\ limits_ok_b d s p r = true /\ totals_ok_b d p r = true) /\
        NoDup (map (fun r => sort_nat (route_lines d r)) rs) /\
        Z.of_nat (length rs) <= 50 /\ Z.of_nat (length rs) <= total
    | NoRouting reason => answer_route d s p acc egr = NoRouting reason
    | _ => False
    end.
Proof.
  intros d s p acc egr Hd. destruct (in_domain_parts _ _ _ _ _ Hd) as (Hwf & Htab & Hp).
  unfold answer_alt, answer_route.
  destruct (alternatives_outcome d s p acc egr Hwf Htab Hp) as [(rs & total & E)|(reason & E)]; rewrite E.
  - split; [|split; [|split; [|split]]].
    + destruct (alt_first_is_plain _ _ _ _ _ _ _ E) as (r & used & tl0 & E1 & E2).
      exists used. subst rs. cbn [hd]. exact E1.
    + exact (alternatives_all_ok d s p acc egr rs total Hwf Htab Hp E).
    + exact (alt_distinct _ _ _ _ _ _ _ E).
    + exact (proj1 (proj2 (alt_caps _ _ _ _ _ _ _ E))).
    + pose proof (proj1 (proj2 (proj2 (alt_caps _ _ _ _ _ _ _ E)))). lia.
  - (* alternatives failed: the plain query failed with the same reason *)
    destruct (calc_single_outcome d s p acc egr true Hwf Htab Hp) as [(r1 & used1 & E1)|(reason1 & E1)].
    + exfalso. rewrite alternatives_unfold in E. rewrite E1, bind_Ok_eq in E. cbv beta in E. cbn [fst] in E.
      destruct (alt_loop_answers d (conn_set d s) p (alt_maxtt p r1) acc egr (q_except_lines p)) with
        (fuel := ALT_FUEL) (st := alt_st0 d r1) (i := 0%nat) as (st' & El).
      * intros comb.
        destruct (recalc_wf d s p acc egr r1 used1 comb Hwf Htab Hp E1) as [Htab' Hp'].
        apply (calc_single_answers d s _ acc egr false Hwf Htab' Hp').
      * rewrite El, bind_Ok_eq in E. discriminate E.
    + rewrite E1. rewrite alternatives_unfold in E. rewrite E1, bind_NoRouting_eq in E. inversion E. reflexivity.
Qed.
