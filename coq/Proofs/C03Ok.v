(* Proofs/C03Ok.v — the Ok case of C03_decl in full: ValidAdm (attained; answer <= forward pass's best) +
   FwdOpt (best is the minimum over the admissible arrivals). *)
From Coq Require Import List ZArith Bool Arith Lia.
From TrV Require Import Spec Admissible Optimal Proofs.ValidAdm Proofs.FwdOpt.
Import ListNotations.
Local Open Scope Z_scope.

Theorem C03_ok_case : forall d s p acc egr r used,
  opt_domain d s p acc egr -> pos_hops_b d = true -> q_fwd p = true -> q_maxfw p <= 0 ->
  route_answer d s p acc egr = Ok (r, used) ->
  (exists rides, admissible_fwd d s p acc egr rides (rt_arr r)) /\
  (forall rides t, admissible_fwd d s p acc egr rides t -> rt_arr r <= t).
Proof.
  intros d s p acc egr r used Hdom Hpos Hf Hfw E.
  pose proof (C03_attained d s p acc egr Hdom Hf) as Hatt. unfold C03_attained_prop in Hatt. rewrite E in Hatt.
  destruct Hdom as (Hwf & _ & Htab & Hp & _). unfold route_answer in E.
  destruct (calc_single_fwd_best d s p acc egr true r used Hwf Htab Hp E Hf) as (fs & best & n0 & Hscan & Hbest & Hle).
  destruct (F_best_optimal d s p acc egr Hwf Htab Hp Hpos Hf Hfw false fs best n0 Hscan Hbest) as [_ Hmin].
  split; [exact Hatt|]. intros rides t Hadm. pose proof (Hmin rides t Hadm). lia.
Qed.
Print Assumptions C03_ok_case.
