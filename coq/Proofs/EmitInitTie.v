(* The initial values of the running totals of the step-emission loop are the ones the source declares
   (gen/Consts.v, regenerated from reverse_journey.cpp on every run). *)
From Coq Require Import ZArith List.
From TrV Require Import gen.Consts Journey.
Local Open Scope Z_scope.

Lemma emit_init_is_code :
  emit_init =
  {| e_tivt := GEN_EMIT_INIT_totalInVehicleTime; e_twalk := GEN_EMIT_INIT_totalWalkingTime;
     e_twait := GEN_EMIT_INIT_totalWaitingTime; e_ttrwalk := GEN_EMIT_INIT_totalTransferWalkingTime;
     e_ttrwait := GEN_EMIT_INIT_totalTransferWaitingTime; e_tdist := GEN_EMIT_INIT_totalDistance;
     e_tivd := GEN_EMIT_INIT_totalInVehicleDistance; e_twalkd := GEN_EMIT_INIT_totalWalkingDistance;
     e_ttrd := GEN_EMIT_INIT_totalTransferDistance; e_accd := GEN_EMIT_INIT_accessDistance;
     e_egrd := GEN_EMIT_INIT_egressDistance;
     e_tarr := GEN_EMIT_INIT_transferArrivalTime; e_ntr := GEN_EMIT_INIT_numberOfTransfers;
     e_arr := GEN_EMIT_INIT_arrivalTime;
     e_accw := GEN_EMIT_INIT_accessWalkingTime; e_egrw := GEN_EMIT_INIT_egressWalkingTime;
     e_accwait := GEN_EMIT_INIT_accessWaitingTime;
     e_steps := nil |}.
Proof. reflexivity. Qed.
