(* Proofs/HttpAccess.v — /v2/accessibility at the level of the HTTP exchange WITHOUT HttpProofs.http_access_extra.

   HttpProofs.http_access_classification needs http_access_extra (pos_hops_b d, and max_first_waiting_time <= 0 for a
   departure query) because the termination of count_transfers_fwd (forwardJourneyStepAllNodes) was only known from
   FwdOpt.F_count_terminates.  LoadedLoops.count_transfers_fwd_terminates_mono proves it from
       times_monotone d, fwalks_nonneg d, ffp_nodes_known d, 0 <= q_minw p, fwd_pre_chain d s k
   for ANY q_maxfw and with zero-duration hops allowed.  All of these follow from wf_data_b d / wf_params_b p
   (Termination.wf_times_monotone, LoadedLoops.wf_fwalks_nonneg, wf_ffp_nodes_known below,
   RevInv.wf_params_minw, LoadedLoops.mk_calc_fwd_pre_chain): NOTHING beyond wf_data_b is needed of the data.

   Contents
     1. wf_ffp_nodes_known, wf_calc_allnodes_fwd_no_hang (no table hypothesis), wf_calc_allnodes_no_hang,
        wf_calc_allnodes_answers (Ok or NoRouting, both directions)
     2. access_dom_wf (the domain without pos_hops_b / the first-waiting cap), http_access_dom_wf,
        http_access_classification_full, http_access_never_bad, http_access_parsed_200
     3. non-vacuity: a departure-time accessibility request on Examples.ex_data that OMITS max_first_waiting_time
        (the default cap of 1800 s is in force: outside http_access_extra) is answered 200 with its map. *)
From Coq Require Import List ZArith Bool Arith Lia.
From TrV Require Import Spec Admissible Optimal Http Examples.
From TrV Require Import Properties.Common.
From TrV.Proofs Require Import ParamsProofs ServerInv RenderProofs EndToEnd HttpProofs.
From TrV Require Proofs.Compose Proofs.RevInv Proofs.Termination Proofs.FwdOpt Proofs.LoadedLoops
                 Proofs.FullStatements.
Import ListNotations.
Local Open Scope Z_scope.

(* ============================================================================================== *)
(* 1. calculateAllNodes never hangs on well-formed data                                             *)

(* the forward footpath rows the scan reads name stops of the data *)
Lemma wf_ffp_nodes_known : forall d, wf_data_b d = true -> LoadedLoops.ffp_nodes_known d.
Proof.
  intros d Hwf c r Hc Hr.
  pose proof (FwdOpt.conn_to_node d c Hwf Hc) as Hn.
  pose proof (RevInv.wf_data_parts d Hwf) as (_ & W & _ & _).
  unfold footpaths_ok in W. rewrite forallb_forall in W. specialize (W (c_to c) Hn).
  apply andb_prop in W. destruct W as [W _]. apply andb_prop in W. destruct W as [W _].
  apply andb_prop in W. destruct W as [W _]. apply andb_prop in W. destruct W as [W _].
  apply andb_prop in W. destruct W as [W _]. apply andb_prop in W. destruct W as [W _].
  apply andb_prop in W. destruct W as [W _].
  unfold rows_ok in W. rewrite forallb_forall in W. specialize (W r Hr).
  apply andb_prop in W. destruct W as [W _]. apply andb_prop in W. destruct W as [W _].
  apply andb_prop in W. destruct W as [W _].
  apply SortFilter.memb_In. exact W.
Qed.

(* the departure-time calculation: no hypothesis on the table, the first-waiting cap or the hop durations *)
Theorem wf_calc_allnodes_fwd_no_hang : forall d s p rows,
  wf_data_b d = true -> 0 <= q_minw p -> q_fwd p = true ->
  calc_allnodes d (conn_set d s) p rows <> Hang.
Proof.
  intros d s p rows Hwf Hminw Hfwd. unfold calc_allnodes. cbv zeta. rewrite Hfwd.
  destruct (access_reason (nonempty rows) true); [discriminate|].
  set (k := mk_calc d p (conn_set d s) rows [] true false).
  destruct (k_dep k >? -1); [|discriminate].
  pose proof (LoadedLoops.fwd_scan_not_hang d p k true) as Hnh.
  destruct (fwd_scan d p k true) as [fs| | | | | | | |] eqn:Hscan; cbn [bind]; try discriminate;
    [|exfalso; apply Hnh; reflexivity].
  destruct (f_count fs =? 0); [discriminate|].
  pose proof (LoadedLoops.fwd_allnodes_loop_no_hang_mono d s p k true fs (Termination.wf_times_monotone d Hwf)
                (LoadedLoops.wf_fwalks_nonneg d Hwf) (wf_ffp_nodes_known d Hwf) Hminw
                (LoadedLoops.mk_calc_fwd_pre_chain d s p rows [] true false) Hscan (d_nodes d)) as Hloop.
  destruct (fwd_allnodes_loop d p k fs (d_nodes d)) as [l| | | | | | | |]; cbn [bind];
    try discriminate. exfalso. apply Hloop. reflexivity.
Qed.

(* both directions: Ok or NoRouting (the table hypothesis is only used by the arrival-time calculation) *)
Theorem wf_calc_allnodes_answers : forall d s p rows,
  wf_data_b d = true -> wf_params_b p = true ->
  wf_tables_b d p (if q_fwd p then rows else []) (if q_fwd p then [] else rows) = true ->
  Compose.answers (calc_allnodes d (conn_set d s) p rows).
Proof.
  intros d s p rows Hwf Hp Htab. destruct (q_fwd p) eqn:Hf.
  - destruct (calc_allnodes_fwd_no_exn d s p rows Hwf Hp Hf) as [A|E]; [exact A|].
    exfalso. exact (wf_calc_allnodes_fwd_no_hang d s p rows Hwf (RevInv.wf_params_minw p Hp) Hf E).
  - exact (calc_allnodes_rev_answers d s p rows Hwf Htab Hp Hf).
Qed.

Theorem wf_calc_allnodes_no_hang : forall d s p rows,
  wf_data_b d = true -> wf_params_b p = true ->
  wf_tables_b d p (if q_fwd p then rows else []) (if q_fwd p then [] else rows) = true ->
  calc_allnodes d (conn_set d s) p rows <> Hang.
Proof.
  intros d s p rows Hwf Hp Htab E.
  destruct (wf_calc_allnodes_answers d s p rows Hwf Hp Htab) as [[x A]|[r A]]; rewrite A in E; discriminate E.
Qed.

(* ============================================================================================== *)
(* 2. the HTTP exchange                                                                             *)

(* HttpProofs.access_dom without its last two clauses *)
Definition access_dom_wf (d : data) (s : scenario) (p : params) (rows : list fprow) : Prop :=
  wf_data_b d = true /\ find_scenario d (q_scenario p) = Some s /\
  wf_tables_b d p (if q_fwd p then rows else []) (if q_fwd p then [] else rows) = true /\
  wf_params_b p = true.

Lemma access_dom_of_wf : forall d s p rows, access_dom_wf d s p rows ->
  pos_hops_b d = true -> (q_fwd p = true -> q_maxfw p <= 0) -> access_dom d s p rows.
Proof.
  intros d s p rows (Hwf & Hs & Htab & Hp) Hpos Hfw. repeat split; assumption.
Qed.

Section Classification.
Variable uuid_of : Params.str -> option nat.

Lemma http_access_dom_wf : forall d kvs acc egr c alt, wf_data_b d = true ->
  http_domain uuid_of d EAccess kvs acc egr -> parse uuid_of d EAccess kvs = POk (c, alt) ->
  exists sid s, alt = false /\ cm_scen c = Some sid /\ find_scenario d sid = Some s /\
    access_dom_wf d s (params_with sid c) (if cm_fwd c then acc else egr).
Proof.
  intros d kvs acc egr c alt Hwf Hdom EP.
  destruct (http_in_domain uuid_of d EAccess kvs acc egr c alt Hwf Hdom EP) as (sid & s & ES & Hs & _ & _ & HD).
  destruct HD as (_ & _ & Htab & Hp & _).
  exists sid, s. split; [exact (proj1 (parse_access_alt uuid_of d kvs c alt EP))|]. split; [exact ES|].
  split; [exact Hs|]. split; [exact Hwf|]. split; [exact Hs|]. split; [|exact Hp].
  cbn [params_with q_fwd]. destruct (wf_tables_split _ _ _ _ Htab) as [Ta Te]. destruct (cm_fwd c); assumption.
Qed.

(* (a) for /v2/accessibility on well-formed data and domain tables, for EVERY data status, key/value list and
   first-waiting cap, whether or not hops take time.  Exactly one of
     1. 200 data_error with the status
     2. 400 query_error with a code whose defect is present in the key/value list, and the factory failed
     3. 200 success (the map) / no_routing_found, the parameters parsed to p, the echoed query is p's;
        the outcome o is the calculation's answer; and IF every hop of the data takes time and a departure query
        carries no first-waiting cap (the domain of C08 / C09) the map is exactly the reachable stops with their
        earliest arrivals / latest departures. *)
Theorem http_access_classification_full : forall sv status kvs acc egr,
  wf_data_b (sv_data sv) = true -> cache_inv (sv_data sv) (sv_cache sv) ->
  http_domain uuid_of (sv_data sv) EAccess kvs acc egr ->
  let d := sv_data sv in
  let resp := fst (http_serve uuid_of sv status EAccess kvs acc egr) in
  (status <> 0%nat /\ resp = HttpR 200 (HDataError status)) \/
  (status = 0%nat /\ (forall x, parse uuid_of d EAccess kvs <> POk x) /\
   exists code, resp = HttpR 400 (HQueryError code) /\
                access_defect (resolve uuid_of d) (services_of d) (fun _ _ => false) kvs code) \/
  (status = 0%nat /\
   exists c sid s, parse uuid_of d EAccess kvs = POk (c, false) /\ cm_scen c = Some sid /\ find_scenario d sid = Some s /\
     let p := params_with sid c in
     let rows := if q_fwd p then acc else egr in
     access_dom_wf d s p rows /\
     exists o, o = access_answer d s p rows /\ is_bad o = false /\
       (pos_hops_b d = true -> (q_fwd p = true -> q_maxfw p <= 0) ->
        access_dom d s p rows /\ (if q_fwd p then C08_of d s p rows o else C09_of d s p rows o)) /\
       ((exists l total, o = Ok (l, total) /\
           resp = HttpR 200 (HAccess (map (render_node (q_fwd p)) l) total (echo_of_params p))) \/
        (exists reason, o = NoRouting reason /\
           resp = HttpR 200 (HNoRouting (access_reason_text reason) (echo_of_params p))))).
Proof.
  intros sv status kvs acc egr Hwf Hc Hdom. cbv zeta.
  destruct (Nat.eq_dec status 0) as [->|Hs].
  2:{ left. split; [exact Hs|]. rewrite (http_serve_status uuid_of sv status EAccess kvs acc egr Hs). reflexivity. }
  right.
  destruct (parse uuid_of (sv_data sv) EAccess kvs) as [[c alt]|e|] eqn:EP.
  - right. split; [reflexivity|].
    destruct (http_access_dom_wf (sv_data sv) kvs acc egr c alt Hwf Hdom EP) as (sid & s & -> & ES & Hs & HD).
    exists c, sid, s. split; [reflexivity|]. split; [exact ES|]. split; [exact Hs|].
    cbn [params_with q_fwd]. split; [exact HD|].
    rewrite (http_serve_parsed uuid_of sv EAccess kvs acc egr c false sid Hc EP ES).
    cbn [params_with q_fwd is_summary].
    set (p := params_with sid c) in *.
    set (rows := if cm_fwd c then acc else egr) in *.
    assert (Ea : fresh_answer (sv_data sv) (QAccess p rows) = AAccess (access_answer (sv_data sv) s p rows)).
    { apply fresh_access_is. exact (proj1 (proj2 HD)). }
    rewrite Ea. exists (access_answer (sv_data sv) s p rows). split; [reflexivity|].
    destruct HD as (_ & Hs' & Htab & Hp).
    pose proof (wf_calc_allnodes_answers (sv_data sv) s p rows Hwf Hp Htab) as Hans.
    change (calc_allnodes (sv_data sv) (conn_set (sv_data sv) s) p rows) with (access_answer (sv_data sv) s p rows) in Hans.
    split; [destruct Hans as [[x A]|[r A]]; rewrite A; reflexivity|]. split.
    + intros Hpos Hfw.
      assert (HD' : access_dom (sv_data sv) s p rows) by (repeat split; assumption).
      split; [exact HD'|].
      destruct (direct_access_correct (sv_data sv) s p rows HD') as (o & Eo & _ & Hcor).
      rewrite Ea in Eo. injection Eo as <-. exact Hcor.
    + destruct Hans as [[[l total] A]|[r A]]; rewrite A; cbn [render render_outcome fst snd].
      * left. exists l, total. split; reflexivity.
      * right. exists r. split; reflexivity.
  - left. split; [reflexivity|]. split; [intros x H; discriminate H|].
    exists (response_code e). rewrite (http_serve_perr uuid_of sv EAccess kvs acc egr e EP). split; [reflexivity|].
    apply C18_class_access. unfold handle_access. cbn [Nat.eqb negb]. cbn [parse] in EP.
    destruct (create_access (resolve uuid_of (sv_data sv)) (services_of (sv_data sv)) kvs) as [c'| |]; try discriminate EP.
    injection EP as ->. reflexivity.
  - left. split; [reflexivity|]. split; [intros x H; discriminate H|].
    exists C_PARAM_ERROR_UNKNOWN. rewrite (http_serve_pexn uuid_of sv EAccess kvs acc egr EP). split; [reflexivity|].
    apply C18_class_access. unfold handle_access. cbn [Nat.eqb negb]. cbn [parse] in EP.
    destruct (create_access (resolve uuid_of (sv_data sv)) (services_of (sv_data sv)) kvs) as [c'| |]; try discriminate EP.
    reflexivity.
Qed.

(* never an outcome that is no HTTP answer (in particular never HBad BK_Hang) *)
Corollary http_access_never_bad : forall sv status kvs acc egr,
  wf_data_b (sv_data sv) = true -> cache_inv (sv_data sv) (sv_cache sv) ->
  http_domain uuid_of (sv_data sv) EAccess kvs acc egr ->
  is_hbad (fst (http_serve uuid_of sv status EAccess kvs acc egr)) = false.
Proof.
  intros sv status kvs acc egr Hwf Hc Hdom.
  destruct (http_access_classification_full sv status kvs acc egr Hwf Hc Hdom)
    as [[_ E]|[(_ & _ & code & E & _)|(_ & c & sid & s & _ & _ & _ & _ & o & _ & _ & _ & Sh)]];
    try (rewrite E; reflexivity).
  destruct Sh as [(l & total & _ & E)|(reason & _ & E)]; rewrite E; reflexivity.
Qed.

(* parameters that parse are answered 200 with a body that echoes the parsed query: HttpProofs.http_access_parsed
   without its second alternative *)
Corollary http_access_parsed_200 : forall sv kvs acc egr c alt,
  wf_data_b (sv_data sv) = true -> cache_inv (sv_data sv) (sv_cache sv) ->
  http_domain uuid_of (sv_data sv) EAccess kvs acc egr ->
  parse uuid_of (sv_data sv) EAccess kvs = POk (c, alt) ->
  exists b, fst (http_serve uuid_of sv 0 EAccess kvs acc egr) = HttpR 200 b /\ body_echo b = Some (echo_of_common c).
Proof.
  intros sv kvs acc egr c alt Hwf Hc Hdom EP.
  destruct (http_access_parsed uuid_of sv kvs acc egr c alt Hwf Hc Hdom EP) as [H|[_ E]]; [exact H|].
  pose proof (http_access_never_bad sv 0 kvs acc egr Hwf Hc Hdom) as Hb. rewrite E in Hb. discriminate Hb.
Qed.

End Classification.

(* ============================================================================================== *)
(* 3. non-vacuity: the default first-waiting cap                                                    *)

(* place=1,2  origin=1,2  destination=3,4  scenario_id=1  min_waiting_time=60  time_of_trip=35000 — and NO
   max_first_waiting_time: the factory's default of 1800 s applies (common_parameters.cpp:81) *)
Definition kv_place_default : list (key * str) :=
  [(KPlace, [49; 44; 50]%nat); (KOrigin, [49; 44; 50]%nat); (KDestination, [51; 44; 52]%nat); (KScenario, [49]%nat);
   (KMinWait, [54; 48]%nat); (KTime, dec 35000)].

(* the request parses to a departure query with the cap 1800 in force; it is in the domain of the theorems of
   this file and outside http_access_extra *)
Example ex_default_cap_domain :
  (exists c, parse ex_uuid ex_data EAccess kv_place_default = POk (c, false) /\ cm_fwd c = true /\ cm_maxfw c = 1800) /\
  wf_data_b ex_data = true /\
  http_domain ex_uuid ex_data EAccess kv_place_default ex_acc ex_egr /\
  ~ http_access_extra ex_uuid ex_data kv_place_default.
Proof.
  split; [eexists; vm_compute; repeat split; reflexivity|]. split; [vm_compute; reflexivity|]. split.
  - intros c alt p EP Hp. vm_compute in EP. inversion EP; subst c alt. vm_compute in Hp. inversion Hp; subst p.
    split; vm_compute; reflexivity.
  - intros [_ H].
    assert (EP : exists c, parse ex_uuid ex_data EAccess kv_place_default = POk (c, false) /\ cm_fwd c = true /\
                           cm_maxfw c = 1800) by (eexists; vm_compute; repeat split; reflexivity).
    destruct EP as (c & EP & Hf & Hm). specialize (H c false EP Hf). rewrite Hm in H. lia.
Qed.

Example ex_default_cap_answer :
  match fst (http_serve ex_uuid ex_sv 0 EAccess kv_place_default ex_acc ex_egr) with
  | HttpR 200 (HAccess ns 4 q) =>
      map (fun n => (hn_node n, hn_time n)) ns = [(2%nat, 36300); (3%nat, 36900); (4%nat, 36700)] /\
      q = {| qe_time := 35000; qe_fwd := true |}
  | _ => False
  end.
Proof. vm_compute. repeat split; reflexivity. Qed.

(* with a cap that bites (max_first_waiting_time=100: the first departure at the place is more than 100 s after the
   arrival there) the answer changes to no_routing_found: the cap is really in force in the model *)
Example ex_small_cap_answer :
  fst (http_serve ex_uuid ex_sv 0 EAccess ((KMaxFW, [49; 48; 48]%nat) :: kv_place_default) ex_acc ex_egr)
  = HttpR 200 (HNoRouting RT_NO_SERVICE_AT_PLACE {| qe_time := 35000; qe_fwd := true |}).
Proof. vm_compute. reflexivity. Qed.

Print Assumptions wf_ffp_nodes_known.
Print Assumptions wf_calc_allnodes_fwd_no_hang.
Print Assumptions wf_calc_allnodes_answers.
Print Assumptions wf_calc_allnodes_no_hang.
Print Assumptions http_access_classification_full.
Print Assumptions http_access_never_bad.
Print Assumptions http_access_parsed_200.
Print Assumptions ex_default_cap_domain.
Print Assumptions ex_default_cap_answer.
Print Assumptions ex_small_cap_answer.

(* REMARKS
   - wf_data_b gives every dataset condition of LoadedLoops.count_transfers_fwd_terminates_mono: nothing is missing.
     The table hypothesis is used only by the arrival-time direction (HttpProofs.calc_allnodes_rev_answers).
   - This closes the OPEN item "(a) for /v2/accessibility" of HttpProofs.v: a departure accessibility query with the
     default first-waiting cap, or on data with zero-duration hops, is never answered HBad BK_Hang.
   - The C08_of / C09_of conjunct (the map lists exactly the reachable stops with earliest arrivals / latest
     departures) stays under pos_hops_b d and "no first-waiting cap for a departure query": the domain of
     FullStatements.C08/C09_decl_any_except. *)
