(* Proofs/Limits.v — C02: every route calculateSingle returns honours the limits of the query.

     calc_single_limits : wf_data_b d = true -> wf_tables_b d p acc egr = true -> wf_params_b p = true ->
                          calc_single d (conn_set d s) p acc egr fresh = Ok (r, used) ->
                          limits_ok_b d s p r = true

   Composition
   - Proofs/RevInv.v  [calc_single_ok_cap]: the journey handed to optimizeJourney is valid (journey_ok_b),
     departs no earlier than asked, spans at most max_travel_time up to the time `arr` the reverse scan was
     seeded with, and its first boarding respects the first-waiting cap (the test made in rev_fp_step before
     a boarding is stored as an access candidate).
   - Proofs/Rewrites.v [optimize_preserves], [optimize_ends]: the clean-up rewrites keep validity, the two
     walk steps and the first boarding connection; the last alighting connection arrives at the same stop,
     no later.
   - here: [best_egress_bound] (the forward pass only selects an arrival within max_travel_time),
     [emit_shape] (what parse_route / rt_dep / rt_arr read back from the emitted route; built on
     emit_legs_parse of Proofs/EmitValid.v) and [emit_limits] (journey-level facts ==> limits_ok_b). *)
From TrV Require Import Spec Proofs.EmitValid Proofs.Rewrites Proofs.RevInv Proofs.RouteValid.
From TrV Require Import Proofs.Totals.
Local Open Scope Z_scope.

(* ---------------------------------------------------------------------------------------------- *)
(* 1. the forward pass's best arrival lies within max_travel_time of the requested departure        *)

Lemma best_egress_bound : forall p k fs t n,
  best_egress p k fs = Some (t, n) -> t - k_dep k <= q_maxtt p.
Proof.
  intros p k fs t n. unfold best_egress.
  set (P := fun o : option (Z * nat) =>
              match o with Some (t0, _) => t0 - k_dep k <= q_maxtt p | None => True end).
  match goal with
  | |- fold_left ?f _ _ = _ -> _ =>
      assert (G : forall rows best, P best -> P (fold_left f rows best))
  end.
  { induction rows as [|r rows IH]; intros best HB; cbn [fold_left]; [exact HB|].
    apply IH. cbv beta.
    destruct (f_egr fs (fp_node r)) as [j|]; [|exact HB].
    destruct (js_exit j) as [e|]; [|exact HB].
    destruct (row_of (fp_node r) (k_egrfp k)) as [er|]; [|exact HB].
    cbv zeta.
    match goal with |- P (if ?c then _ else _) => destruct c eqn:E end; [|exact HB].
    apply andb_true_iff in E. destruct E as [E _].
    apply andb_true_iff in E. destruct E as [E _].
    apply andb_true_iff in E. destruct E as [_ E].
    apply Z.leb_le in E. unfold P. exact E. }
  intros H. specialize (G (k_egrfp k) None I). rewrite H in G. exact G.
Qed.

(* ---------------------------------------------------------------------------------------------- *)
(* 2. the tables respect the access / egress maxima                                                 *)

Lemma wf_tables_max : forall d p acc egr, wf_tables_b d p acc egr = true ->
  (forall r, In r acc -> fp_time r <= q_maxacc p) /\ (forall r, In r egr -> fp_time r <= q_maxegr p).
Proof.
  intros d p acc egr H. unfold wf_tables_b in H.
  apply andb_true_iff in H. destruct H as [H He].
  apply andb_true_iff in H. destruct H as [_ Ha].
  rewrite forallb_forall in Ha, He.
  split; intros r Hr; apply Z.leb_le; [apply Ha|apply He]; exact Hr.
Qed.

(* ---------------------------------------------------------------------------------------------- *)
(* 3. what the checker reads back from an emitted route                                             *)

Lemma emit_legs_arr : forall d p bd count e, is_walk e = true ->
  forall legs st i el,
    (forall j, In j legs -> is_leg j) -> (1 <= i)%nat ->
    last_alight legs = Some el ->
    e_arr (emit_loop d p bd count st i (legs ++ [e])) = c_arr el + js_walk e.
Proof.
  intros d p bd count e He.
  induction legs as [|j legs IH]; intros st i el Hall Hi Hla.
  - unfold last_alight in Hla. cbn [rev] in Hla. discriminate Hla.
  - destruct (Hall j (or_introl eq_refl)) as (b & x & t & Hb & Hx & Ht).
    cbn [app emit_loop].
    remember (hd_error (legs ++ [e])) as nxt eqn:Enxt.
    destruct (emit_leg d p bd count st i j nxt b x t Hb Hx Ht)
      as (ivd & _ & _ & _ & _ & _ & Harr & _).
    remember (emit_step d p bd count st i j nxt) as st1 eqn:Est1.
    destruct legs as [|j2 legs2].
    + cbn [app emit_loop hd_error].
      destruct (emit_egress d p bd count st1 (S i) e None He ltac:(lia))
        as (_ & _ & _ & _ & _ & _ & Harr2 & _).
      rewrite Harr2, Harr. rewrite last_alight_one, Hx in Hla. injection Hla as <-. reflexivity.
    + rewrite last_alight_cons in Hla by discriminate.
      apply IH; [intros j' Hj'; apply Hall; right; exact Hj'|lia|exact Hla].
Qed.

Lemma emit_shape : forall d p bd a legs e el,
  is_walk a = true -> is_walk e = true -> (forall j, In j legs -> is_leg j) ->
  last_alight legs = Some el ->
  parse_route (emit d p bd (a :: legs ++ [e])) = Some (js_walk a, bd, legs_of legs, js_walk e) /\
  rt_dep (emit d p bd (a :: legs ++ [e])) = bd /\
  rt_arr (emit d p bd (a :: legs ++ [e])) = c_arr el + js_walk e.
Proof.
  intros d p bd a legs e el Ha He Hlegs Hla.
  assert (Hne : legs <> []).
  { intro E. subst legs. unfold last_alight in Hla. cbn [rev] in Hla. discriminate Hla. }
  unfold parse_route, emit. cbv zeta. cbn [rt_steps rt_dep rt_arr].
  remember (length (a :: legs ++ [e])) as count eqn:Ecount.
  assert (Hcount : (1 + length legs + 1 = count)%nat).
  { subst count. cbn [length]. rewrite app_length. cbn [length]. lia. }
  cbn [emit_loop].
  destruct (emit_access d p bd count a (hd_error (legs ++ [e])) Ha) as (Hs0 & _).
  remember (emit_step d p bd count emit_init 0 a (hd_error (legs ++ [e]))) as st1 eqn:Est1.
  destruct (emit_legs_parse d p bd count e He legs st1 1%nat Hne Hlegs Hcount) as (news & Hs & Hp).
  rewrite Hs, Hs0. cbn [app]. rewrite Hp.
  split; [reflexivity|]. split; [reflexivity|].
  apply (emit_legs_arr d p bd count e He legs st1 1%nat el Hlegs (le_n 1) Hla).
Qed.

(* transfer walks within the maximum, from the chain *)
Lemma legs_walks_ok : forall d p legs r, jchain_ok d p r legs = true ->
  forallb (fun l => match lg_walk l with Some (w, _) => w <=? q_maxtr p | None => true end)
          (legs_of legs) = true.
Proof.
  intros d p. induction legs as [|x R IH]; intros r H; [reflexivity|].
  apply jchain_step in H. destruct H as (b & e & Hb & He & Hbd & Hrest).
  destruct R as [|y R'].
  - reflexivity.
  - destruct Hrest as [Hnil|(b' & Hfb & Hl & Hc)]; [discriminate Hnil|].
    change (legs_of (x :: y :: R')) with (leg_of x (Some (js_walk x, js_dist x)) :: legs_of (y :: R')).
    cbn [forallb lg_walk leg_of]. rewrite (IH _ Hc).
    unfold linkb in Hl. apply andb_true_iff in Hl. destruct Hl as [_ Hl]. rewrite Hl. reflexivity.
Qed.

(* ridden trips admitted, from the per-leg predicate *)
Lemma legs_admitted : forall d s p legs, forallb (jleg_ok d s p) legs = true ->
  forallb (fun l => match find_trip d (lg_trip l) with
                    | Some tr => trip_admitted d s p tr
                    | None => false
                    end) (legs_of legs) = true.
Proof.
  intros d s p. induction legs as [|x R IH]; intros H; [reflexivity|].
  cbn [forallb] in H. apply andb_true_iff in H. destruct H as [Hx HR].
  destruct (jleg_ok_inv d s p x Hx)
    as (b & e & t & tr & Hb & He & Ht & Tb & Te & Db & De & Ft & Ad & Cb & Cu & Le).
  cbn [legs_of forallb leg_of lg_trip]. unfold jt. rewrite Ht, Ft, Ad. cbn [andb]. apply IH. exact HR.
Qed.

(* ---------------------------------------------------------------------------------------------- *)
(* 4. journey-level facts give the limits of the emitted route                                      *)

Lemma emit_limits : forall d s p acc egr bd a legs e b1 el,
  journey_ok_b d s p acc egr bd (a :: legs ++ [e]) = true ->
  first_board legs = Some b1 -> last_alight legs = Some el ->
  (if q_fwd p
   then q_time p <= bd /\ c_arr el + js_walk e - q_time p <= q_maxtt p
   else c_arr el + js_walk e <= q_time p /\ q_time p - bd <= q_maxtt p) ->
  js_walk a <= q_maxacc p -> js_walk e <= q_maxegr p ->
  (q_fwd p = true -> 0 < q_maxfw p -> c_dep b1 - (q_time p + js_walk a) <= q_maxfw p) ->
  limits_ok_b d s p (emit d p bd (a :: legs ++ [e])) = true.
Proof.
  intros d s p acc egr bd a legs e b1 el Hok Hfb Hla Hspan Hacc Hegr Hfw.
  apply journey_ok_iff in Hok.
  destruct Hok as (Ha & He & Hall & b1' & el' & Hfb' & Hla' & _ & _ & Hch).
  assert (Hlegs : forall j, In j legs -> is_leg j).
  { intros j Hj. rewrite forallb_forall in Hall.
    destruct (jleg_ok_inv d s p j (Hall j Hj)) as (b & x & t & tr & Hb & Hx & Ht & _).
    exists b, x, t. auto. }
  destruct (emit_shape d p bd a legs e el Ha He Hlegs Hla) as (Hparse & Hdep & Harr).
  unfold limits_ok_b. rewrite Hparse, Hdep, Harr.
  repeat (apply andb_true_iff; split).
  - destruct (q_fwd p); destruct Hspan as [H1 H2]; apply andb_true_iff; split; apply Z.leb_le; assumption.
  - apply Z.leb_le. exact Hacc.
  - apply Z.leb_le. exact Hegr.
  - apply (legs_walks_ok d p legs _ Hch).
  - destruct legs as [|x R]; [discriminate Hfb|].
    cbn [first_board] in Hfb.
    cbn [legs_of lg_bdep leg_of]. unfold jb. rewrite Hfb.
    destruct (q_fwd p && (q_maxfw p >? 0)) eqn:E; [|reflexivity].
    apply andb_true_iff in E. destruct E as [E1 E2]. apply Z.gtb_lt in E2.
    apply Z.leb_le. apply Hfw; [exact E1|lia].
  - apply (legs_admitted d s p legs Hall).
Qed.

(* ---------------------------------------------------------------------------------------------- *)
(* 5. C02 for calculateSingle                                                                       *)

Theorem calc_single_limits : forall d s p acc egr fresh r used,
  wf_data_b d = true -> wf_tables_b d p acc egr = true -> wf_params_b p = true ->
  calc_single d (conn_set d s) p acc egr fresh = Ok (r, used) ->
  limits_ok_b d s p r = true.
Proof.
  intros d s p acc egr fresh r used Hwf Htab Hp Hcalc.
  destruct (calc_single_ok_cap d s p acc egr fresh (r, used) Hwf Htab Hp Hcalc)
    as (arr & bestdep & ar & legs & er & el & js1 & used' & Hj & Hopt & Hres & H0 & Hspan & Har & Her &
        Hla & Harr & Hdir & (b1 & Hfb & Hfrom & Hcap)).
  inversion Hres; subst r used'. clear Hres.
  pose proof (wf_params_minw p Hp) as Hmw.
  pose proof (wf_params_time p Hp) as Htime.
  destruct (wf_tables_max d p acc egr Htab) as [Hmaxa Hmaxe].
  destruct (optimize_ends (OPT_FUEL d) d s p acc egr bestdep (walk_step ar) legs (walk_step er) b1 el js1 used
                          Hwf Hmw Hj Hfb Hla Hopt)
    as (legs' & el' & Ejs & Hfb' & Hla' & Harr' & Hto').
  pose proof (optimize_preserves (OPT_FUEL d) d s p acc egr bestdep _ js1 used Hwf Hmw Hj Hopt) as Hj'.
  subst js1.
  apply (emit_limits d s p acc egr bestdep (walk_step ar) legs' (walk_step er) b1 el' Hj' Hfb' Hla');
    cbn [walk_step js_walk].
  - destruct (q_fwd p) eqn:Hf.
    + destruct Hdir as (Hq & fs & n0 & Hscan & Hbest).
      apply best_egress_bound in Hbest.
      unfold mk_calc in Hbest. cbn [k_dep] in Hbest. rewrite Hf in Hbest.
      split; [exact Hq|lia].
    + subst arr. split; lia.
  - apply Hmaxa. exact Har.
  - apply Hmaxe. exact Her.
  - intros Hf Hpos. destruct (Hcap Hf) as [Hc|Hc]; lia.
Qed.

Print Assumptions calc_single_limits.

(* non-vacuity: the hypotheses hold and calc_single answers for a departure query with a positive
   first-waiting cap (the boarding at 36000 is 900 s after the traveller reaches stop 1 at 35100: allowed
   with a cap of 1000 s, refused with 800 s) and for an arrival query *)
From TrV Require Import Examples.
Definition lim_params (fwd : bool) (t fw : Z) : params :=
  {| q_scenario := 1; q_time := t; q_minw := 60; q_maxtt := 7200; q_maxacc := 1200; q_maxegr := 1200;
     q_maxtr := 1200; q_maxfw := fw; q_fwd := fwd; q_except_lines := [] |}.
Example calc_single_limits_nonvacuous :
  wf_data_b ex_data = true /\
  wf_tables_b ex_data (lim_params true 35000 1000) ex_acc ex_egr = true /\
  wf_params_b (lim_params true 35000 1000) = true /\ wf_params_b (lim_params false 37000 (-1)) = true /\
  match calc_single ex_data (conn_set ex_data scen_all) (lim_params true 35000 1000) ex_acc ex_egr true with
  | Ok (r, _) => rt_dep r = 35840 /\ rt_arr r = 36750 /\
                 limits_ok_b ex_data scen_all (lim_params true 35000 1000) r = true
  | _ => False
  end /\
  calc_single ex_data (conn_set ex_data scen_all) (lim_params true 35000 800) ex_acc ex_egr true
    = NoRouting R_NO_SERVICE_FROM_ORIGIN /\
  match calc_single ex_data (conn_set ex_data scen_all) (lim_params false 37000 (-1)) ex_acc ex_egr true with
  | Ok (r, _) => rt_dep r = 35840 /\ rt_arr r = 36950 /\
                 limits_ok_b ex_data scen_all (lim_params false 37000 (-1)) r = true
  | _ => False
  end.
Proof. vm_compute. repeat split; reflexivity. Qed.
