(* RouteValid.v — composition: whatever calculateSingle answers is an executable itinerary (C01).
   reverse-scan invariant + rebuild (RevInv) ; clean-up rewrites (Rewrites) ; emission (EmitValid). *)
From TrV Require Import Spec Proofs.EmitValid Proofs.Rewrites Proofs.RevInv.
Local Open Scope Z_scope.

Lemma wf_params_minw p : wf_params_b p = true -> 0 <= q_minw p.
Proof.
  unfold wf_params_b. intros H.
  repeat (apply andb_true_iff in H; destruct H as [H ?]).
  apply Z.leb_le. assumption.
Qed.

Theorem calc_single_valid : forall d s p acc egr fresh r used,
  wf_data_b d = true -> wf_tables_b d p acc egr = true -> wf_params_b p = true ->
  calc_single d (conn_set d s) p acc egr fresh = Ok (r, used) ->
  valid_itinerary_b d s p acc egr r = true.
Proof.
  intros d s p acc egr fresh r used Hwf Htab Hp Hcalc.
  destruct (calc_single_ok d s p acc egr fresh (r, used) Hwf Htab Hp Hcalc)
    as (arr & bestdep & ar & legs & er & el & js1 & used' & Hj & Hopt & Hres & _).
  inversion Hres; subst r used'.
  eapply optimize_emit_valid; [exact Hwf | apply wf_params_minw; exact Hp | exact Hj | exact Hopt].
Qed.
Print Assumptions calc_single_valid.
