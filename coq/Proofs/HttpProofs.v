(* Proofs/HttpProofs.v — the properties at the level of the HTTP exchange (Http.v): what arrives is a data status,
   an endpoint, a key/value list of strings and the rows the walking router answered; what leaves is an HTTP code
   and an abstract JSON body.  Composes ParamsProofs (C18), ServerInv (C13), RenderProofs (C19), Compose / Assemble
   / ReasonIff / RevOptCompose / OptCompose / FullStatements (C01-C10) and Shift (C12).

   Contents (every theorem is stated for a server `sv` with  wf_data_b (sv_data sv) = true  and the cache invariant
   `cache_inv`; http_inv_after / http_loaded_server_ok: every server reached by an HTTP history has them)
     0. parse_ok_params, create_route_scenario_set   a successful factory has set the scenario: params_of_common
                                                      cannot fail (validation order scenario, empty scenario, time)
     1. http_serve_refines_handle                     http_serve refines Params.handle_route / handle_access with
                                                      calc_throws := "the calculation's outcome is Exn";
        http_class_route / http_class_access          C18_class_* transferred
     2. direct_route_correct / _alt_ / _access_       EndToEnd's response predicates for a server on d itself
     3. (a) http_route_classification, http_access_classification, http_route_never_bad, http_route_parsed_200,
            http_access_parsed (no extra hypotheses; calc_allnodes_fwd_no_exn, calc_allnodes_rev_answers)
     4. (b) http_route_success, http_route_no_routing, http_summary_of_route, http_summary_lines_meaning,
            parse_documented
     5. (c) http_every_position, http_history_independent, http_histories_agree, http_inv_after,
            http_route_success_any_history
     6. (d) stoi_dec, parse_shift, http_time_shift, http_time_shift_wf;
        6.5 http_loaded_server_ok, http_route_success_loaded (files -> start-up -> history -> /v2/route, against d)
     7. non-vacuity on Examples.ex_data with concrete key/value lists
   DOMAIN (http_domain): whenever the parameters parse, time_of_trip < 32 h (CLOCK_MAX) and the router's rows satisfy
   Spec.wf_tables_b for the PARSED limits.  Accessibility additionally (http_access_extra): pos_hops_b and, for a
   departure query, max_first_waiting_time <= 0 in the request — NOTE the default of that parameter is 1800 s
   (common_parameters.cpp:81, DEFAULT_FIRST_WAITING_TIME), so a request that omits it is outside the accessibility and the
   optimality (first_route_optimal, forward clause) statements. *)
From Coq Require Import List ZArith Bool Arith Lia.
From TrV Require Import Spec Admissible Optimal Http Examples.
From TrV Require Import Properties.Common.
From TrV.Proofs Require Import ParamsProofs ServerInv RenderProofs EndToEnd.
From TrV Require Proofs.Compose Proofs.Assemble Proofs.ReasonIff Proofs.RevOptCompose Proofs.OptCompose
                 Proofs.FullStatements Proofs.Shift Proofs.FwdOpt.
From TrV Require Proofs.Index Proofs.SortFilter Proofs.RevInv Proofs.Termination Proofs.RevOpt.
Import ListNotations.
Local Open Scope Z_scope.

(* ============================================================================================== *)
(* 0. small facts about the pieces                                                                  *)

Lemma serve_invalid : forall sv c, serve sv (QInvalid c) = (AError c, sv).
Proof. intros sv c. reflexivity. Qed.

Lemma serve_is_fresh : forall sv r, cache_inv (sv_data sv) (sv_cache sv) ->
  fst (serve sv r) = fresh_answer (sv_data sv) r.
Proof. intros sv r H. exact (proj1 (serve_fresh sv r H)). Qed.

Lemma response_code_unknown : response_code E_UNKNOWN = C_PARAM_ERROR_UNKNOWN.
Proof. reflexivity. Qed.

(* the calculation's parameters of parsed parameters with scenario sid *)
Definition params_with (sid : nat) (c : common) : params :=
  {| q_scenario := sid; q_time := cm_time c; q_minw := cm_minw c; q_maxtt := cm_maxtt c;
     q_maxacc := cm_maxacc c; q_maxegr := cm_maxegr c; q_maxtr := cm_maxtr c;
     q_maxfw := cm_maxfw c; q_fwd := cm_fwd c; q_except_lines := [] |}.

Lemma params_of_common_some : forall c sid, cm_scen c = Some sid -> params_of_common c = Some (params_with sid c).
Proof. intros c sid H. unfold params_of_common. rewrite H. reflexivity. Qed.

Lemma params_of_common_inv : forall c p, params_of_common c = Some p ->
  exists sid, cm_scen c = Some sid /\ p = params_with sid c.
Proof.
  intros c p H. unfold params_of_common in H. destruct (cm_scen c) as [sid|] eqn:E; [|discriminate H].
  injection H as <-. exists sid. split; reflexivity.
Qed.

Lemma echo_params_common : forall c p, params_of_common c = Some p -> echo_of_params p = echo_of_common c.
Proof. intros c p H. destruct (params_of_common_inv c p H) as (sid & _ & ->). reflexivity. Qed.

Section HttpFacts.
Variable uuid_of : str -> option nat.

Lemma services_known : forall d sid, services_of d sid <> 0%nat ->
  exists s, find_scenario d sid = Some s /\ s_services s <> [].
Proof.
  intros d sid H. unfold services_of in H. destruct (find_scenario d sid) as [s|]; [|contradiction].
  exists s. split; [reflexivity|]. intro E. rewrite E in H. apply H. reflexivity.
Qed.

(* a successful factory: the common factory succeeded on the same list *)
Lemma parse_common : forall d ep kvs c alt, parse uuid_of d ep kvs = POk (c, alt) ->
  create_common (resolve uuid_of d) (services_of d) kvs = POk c.
Proof.
  intros d ep kvs c alt H. destruct ep; cbn [parse] in H.
  - exact (proj2 (proj1 (create_route_ok _ _ _ _ _) H)).
  - exact (proj2 (proj1 (create_route_ok _ _ _ _ _) H)).
  - destruct (create_access (resolve uuid_of d) (services_of d) kvs) as [c'| |] eqn:E; try discriminate H.
    injection H as <- _. exact (proj2 (proj1 (create_access_ok _ _ _ _) E)).
Qed.

(* ... so the scenario is set, is a scenario of the data with at least one service, and the numbers are in
   their ranges: `params_of_common` cannot fail after a successful factory (validation order of
   createCommonParameter: scenario, empty scenario, time) *)
Lemma parse_ok_params : forall d ep kvs c alt, parse uuid_of d ep kvs = POk (c, alt) ->
  exists sid s, cm_scen c = Some sid /\ find_scenario d sid = Some s /\ s_services s <> [] /\
    params_of_common c = Some (params_with sid c) /\ params_ok (services_of d) c /\
    common_loop (resolve uuid_of d) kvs common_default = POk c.
Proof.
  intros d ep kvs c alt H. apply parse_common in H.
  pose proof (create_common_params_ok _ _ _ _ H) as P.
  apply create_common_ok in H. destruct H as (EL & sid & ES & E0 & ET).
  destruct (services_known d sid E0) as (s & Hs & Hne).
  exists sid, s. split; [exact ES|]. split; [exact Hs|]. split; [exact Hne|].
  split; [exact (params_of_common_some c sid ES)|]. split; [exact P|exact EL].
Qed.

Theorem create_route_scenario_set : forall d kvs c alt,
  create_route (resolve uuid_of d) (services_of d) kvs = POk (c, alt) -> exists sid, cm_scen c = Some sid.
Proof.
  intros d kvs c alt H. destruct (parse_ok_params d ERoute kvs c alt H) as (sid & _ & ES & _). exists sid. exact ES.
Qed.

Lemma params_ok_wf : forall so c sid, params_ok so c -> cm_time c < CLOCK_MAX ->
  wf_params_b (params_with sid c) = true.
Proof.
  intros so c sid (P1 & P2 & P3 & P4 & P5 & P6 & [P7 _] & _) Ht.
  unfold wf_params_b, params_with. cbn [q_time q_minw q_maxtt q_maxtr q_maxacc q_maxegr q_maxfw].
  repeat (apply andb_true_intro; split); try (apply Z.leb_le; lia); try (apply Z.ltb_lt; lia).
  apply orb_true_iff. destruct P7 as [E|E]; [left; apply Z.eqb_eq; exact E|right; apply Z.ltb_lt; exact E].
Qed.

End HttpFacts.

(* ============================================================================================== *)
(* 1. http_serve refines Params.handle_route / handle_access                                        *)

Section Refinement.
Variable uuid_of : str -> option nat.

(* the answer to a request with a known scenario is computed by `respond` with some connection set *)
Lemma serve_known_scenario : forall sv r sid s, req_scenario r = Some sid ->
  find_scenario (sv_data sv) sid = Some s -> exists cs, fst (serve sv r) = respond (sv_data sv) cs r.
Proof.
  intros sv r sid s Hr Hs. unfold serve. rewrite Hr, Hs.
  destruct (reaches_filters r).
  - destruct (cache_get (sv_cache sv) sid) as [cs|]; eexists; reflexivity.
  - eexists; reflexivity.
Qed.

Definition kind_of (ep : endpoint) : nat := match ep with EAccess => 1%nat | _ => 0%nat end.

(* Params.handle_route / handle_access, instantiated, in one shape for the three endpoints *)
Lemma handle_of_parse : forall sv status ep kvs acc egr,
  handle_of uuid_of sv status ep kvs acc egr =
  if negb (Nat.eqb status 0) then Http 200 (BDataError status)
  else match parse uuid_of (sv_data sv) ep kvs with
       | POk (c, alt) => if calc_throws_of sv ep acc egr c alt then Http 400 (BQueryError C_PARAM_ERROR_UNKNOWN)
                         else Http 200 (BAnswer (kind_of ep) c alt)
       | PErr e => Http 400 (BQueryError (response_code e))
       | PExn => Http 400 (BQueryError C_PARAM_ERROR_UNKNOWN)
       end.
Proof.
  intros sv status ep kvs acc egr. destruct ep; unfold handle_of, handle_route, handle_access; cbn [parse kind_of];
    destruct (negb (Nat.eqb status 0)); try reflexivity.
  destruct (create_access (resolve uuid_of (sv_data sv)) (services_of (sv_data sv)) kvs) as [c| |]; reflexivity.
Qed.

(* what the renderers make of the answer `respond` computes for parsed parameters *)
Lemma render_respond_cases : forall d cs ep c alt acc egr p, params_of_common c = Some p ->
  let r := request_of_common ep c alt acc egr in
  let a := respond d cs r in
  let resp := render d (is_summary ep) (echo_of_request r) a in
  (response_throws a = true /\ resp = HttpR 400 (HQueryError C_PARAM_ERROR_UNKNOWN)) \/
  (response_throws a = false /\ exists b, resp = HttpR 200 b /\ body_echo b = Some (echo_of_common c)) \/
  (response_throws a = false /\ is_hbad resp = true).
Proof.
  intros d cs ep c alt acc egr p Hp. cbv zeta. unfold request_of_common. rewrite Hp.
  pose proof (echo_params_common c p Hp) as Eq.
  destruct ep; [destruct alt|destruct alt|]; cbn [respond render is_summary echo_of_request]; rewrite Eq.
  - generalize (alternatives d cs p acc egr). intros o.
    destruct o; cbn [render_outcome response_throws is_hbad];
      first [left; split; reflexivity | right; left; split; [reflexivity|eexists; split; reflexivity]
            | right; right; split; reflexivity].
  - generalize (calc_single d cs p acc egr true). intros o.
    destruct o; cbn [render_outcome response_throws is_hbad];
      first [left; split; reflexivity | right; left; split; [reflexivity|eexists; split; reflexivity]
            | right; right; split; reflexivity].
  - generalize (alternatives d cs p acc egr). intros o.
    destruct o; cbn [render_outcome response_throws is_hbad];
      first [left; split; reflexivity | right; left; split; [reflexivity|eexists; split; reflexivity]
            | right; right; split; reflexivity].
  - generalize (calc_single d cs p acc egr true). intros o.
    destruct o; cbn [render_outcome response_throws is_hbad];
      first [left; split; reflexivity | right; left; split; [reflexivity|eexists; split; reflexivity]
            | right; right; split; reflexivity].
  - generalize (calc_allnodes d cs p (if q_fwd p then acc else egr)). intros o.
    destruct o; cbn [render_outcome response_throws is_hbad];
      first [left; split; reflexivity | right; left; split; [reflexivity|eexists; split; reflexivity]
            | right; right; split; reflexivity].
Qed.

(* http_serve with the fast path taken or the factory failing *)
Lemma http_serve_status : forall sv status ep kvs acc egr, status <> 0%nat ->
  http_serve uuid_of sv status ep kvs acc egr = (HttpR 200 (HDataError status), sv).
Proof.
  intros sv status ep kvs acc egr H. unfold http_serve. apply Nat.eqb_neq in H. rewrite H. reflexivity.
Qed.

Lemma http_serve_perr : forall sv ep kvs acc egr e, parse uuid_of (sv_data sv) ep kvs = PErr e ->
  http_serve uuid_of sv 0 ep kvs acc egr = (HttpR 400 (HQueryError (response_code e)), sv).
Proof.
  intros sv ep kvs acc egr e H. unfold http_serve, request_of. cbn [Nat.eqb negb]. rewrite H.
  rewrite serve_invalid. reflexivity.
Qed.

Lemma http_serve_pexn : forall sv ep kvs acc egr, parse uuid_of (sv_data sv) ep kvs = PExn ->
  http_serve uuid_of sv 0 ep kvs acc egr = (HttpR 400 (HQueryError C_PARAM_ERROR_UNKNOWN), sv).
Proof.
  intros sv ep kvs acc egr H. unfold http_serve, request_of. cbn [Nat.eqb negb]. rewrite H.
  rewrite serve_invalid. reflexivity.
Qed.

Lemma http_serve_pok : forall sv ep kvs acc egr c alt, parse uuid_of (sv_data sv) ep kvs = POk (c, alt) ->
  let r := request_of_common ep c alt acc egr in
  http_serve uuid_of sv 0 ep kvs acc egr =
  (render (sv_data sv) (is_summary ep) (echo_of_request r) (fst (serve sv r)), snd (serve sv r)).
Proof.
  intros sv ep kvs acc egr c alt H. cbv zeta. unfold http_serve, request_of. cbn [Nat.eqb negb]. rewrite H.
  destruct (serve sv (request_of_common ep c alt acc egr)) as [a sv1]. reflexivity.
Qed.

Lemma request_of_common_scenario : forall ep c alt acc egr p, params_of_common c = Some p ->
  req_scenario (request_of_common ep c alt acc egr) = Some (q_scenario p).
Proof.
  intros ep c alt acc egr p Hp. unfold request_of_common. rewrite Hp. destruct ep; reflexivity.
Qed.

(* THE REFINEMENT.  Unless the calculation ends in an outcome that is no HTTP answer (HBad; excluded on
   well-formed input by http_route_classification / http_access_classification below), the response of
   http_serve is the response of Params.handle_route / handle_access with
       resolve_scenario := resolve uuid_of (data in force),  services_of := services_of (data in force),
       calc_throws c alt := the calculation the server performs for c, alt and the router's tables ends in Exn,
   with the body made concrete: same code, same error code, and for an answer the echoed query is the parsed one.
   Every C18 theorem of ParamsProofs about handle_route / handle_access therefore speaks about http_serve. *)
Theorem http_serve_refines_handle : forall sv status ep kvs acc egr,
  is_hbad (fst (http_serve uuid_of sv status ep kvs acc egr)) = false ->
  refines (handle_of uuid_of sv status ep kvs acc egr) (fst (http_serve uuid_of sv status ep kvs acc egr)).
Proof.
  intros sv status ep kvs acc egr Hb. rewrite handle_of_parse.
  destruct (Nat.eqb status 0) eqn:Es; cbn [negb].
  - apply Nat.eqb_eq in Es. subst status.
    destruct (parse uuid_of (sv_data sv) ep kvs) as [[c alt]|e|] eqn:EP.
    + destruct (parse_ok_params uuid_of _ _ _ _ _ EP) as (sid & s & ES & Hs & _ & Hp & _).
      rewrite (http_serve_pok sv ep kvs acc egr c alt EP) in *. cbn [fst] in *.
      unfold calc_throws_of.
      destruct (serve_known_scenario sv (request_of_common ep c alt acc egr) sid s
                  (request_of_common_scenario ep c alt acc egr _ Hp) Hs) as (cs & Ea).
      rewrite Ea in *.
      destruct (render_respond_cases (sv_data sv) cs ep c alt acc egr _ Hp) as [[T R]|[(T & b & R & Q)|[T R]]].
      * rewrite T, R. apply RefQuery.
      * rewrite T, R. apply RefAnswer. exact Q.
      * rewrite R in Hb. discriminate Hb.
    + rewrite (http_serve_perr sv ep kvs acc egr e EP). cbn [fst]. apply RefQuery.
    + rewrite (http_serve_pexn sv ep kvs acc egr EP). cbn [fst]. apply RefQuery.
  - apply Nat.eqb_neq in Es. rewrite (http_serve_status sv status ep kvs acc egr Es). cbn [fst]. apply RefData.
Qed.

(* C18 transferred: a 400 answer of http_serve names a defect of the request *)
Corollary http_class_route : forall sv ep kvs acc egr code, ep <> EAccess ->
  fst (http_serve uuid_of sv 0 ep kvs acc egr) = HttpR 400 (HQueryError code) ->
  route_defect (resolve uuid_of (sv_data sv)) (services_of (sv_data sv)) (calc_throws_of sv ep acc egr) kvs code.
Proof.
  intros sv ep kvs acc egr code Hep H.
  assert (Hb : is_hbad (fst (http_serve uuid_of sv 0 ep kvs acc egr)) = false) by (rewrite H; reflexivity).
  pose proof (http_serve_refines_handle sv 0 ep kvs acc egr Hb) as R. rewrite H in R.
  inversion R as [| e E1 E2 |]; subst.
  apply C18_class_route. destruct ep; [| |contradiction]; unfold handle_of in *; symmetry; assumption.
Qed.

Corollary http_class_access : forall sv kvs acc egr code,
  fst (http_serve uuid_of sv 0 EAccess kvs acc egr) = HttpR 400 (HQueryError code) ->
  access_defect (resolve uuid_of (sv_data sv)) (services_of (sv_data sv)) (calc_throws_of sv EAccess acc egr) kvs code.
Proof.
  intros sv kvs acc egr code H.
  assert (Hb : is_hbad (fst (http_serve uuid_of sv 0 EAccess kvs acc egr)) = false) by (rewrite H; reflexivity).
  pose proof (http_serve_refines_handle sv 0 EAccess kvs acc egr Hb) as R. rewrite H in R.
  inversion R as [| e E1 E2 |]; subst.
  apply C18_class_access. unfold handle_of in *. symmetry. assumption.
Qed.

End Refinement.

(* ============================================================================================== *)
(* 2. what a server answers on data d (directly, without the loader's re-layout)                    *)

(* EndToEnd.fresh_route_correct / fresh_alt_correct / fresh_access_correct are stated for the loaded copy
   `canon d`; the same holds of a server whose data is d itself. *)
Theorem direct_route_correct : forall d s p acc egr, in_domain d s p acc egr ->
  route_response_correct d s p acc egr (fresh_answer d (QRoute p false acc egr)).
Proof.
  intros d s p acc egr HD. pose proof HD as (Hwf & Hs & Htab & Hp & Hex).
  rewrite (fresh_route_is d s p acc egr Hs).
  exists (answer_route d s p acc egr). split; [reflexivity|].
  split; [exact (Compose.calc_single_outcome d s p acc egr true Hwf Htab Hp)|].
  split; [exact (proj2 (proj2 (Assemble.C01_assembled d s p acc egr HD)))|].
  split; [|split; [|split]].
  - intros r used Ho. split; [|split].
    + exact (proj1 (Assemble.C01_assembled d s p acc egr HD) r used Ho).
    + exact (proj1 (Assemble.C02_assembled d s p acc egr HD) r used Ho).
    + exact (Compose.calc_single_totals d s p acc egr true r used Hwf Htab Hp Ho).
  - intros reason Ho. exact (ReasonIff.C07_reason d s p acc egr Hwf Hs Hp Htab reason Ho).
  - intros Hpos Hf Hfw. split.
    + exact (RevOptCompose.C03_decl_proved d s p acc egr HD Hpos Hf Hfw).
    + exact (RevOptCompose.C05_decl_strong d s p acc egr HD Hpos Hf Hfw).
  - intros Hpos Hf. exact (RevOptCompose.C04_decl_strong d s p acc egr HD Hpos Hf).
Qed.

Theorem direct_alt_correct : forall d s p acc egr, in_domain d s p acc egr ->
  alt_response_correct d s p acc egr (fresh_answer d (QRoute p false acc egr)) (fresh_answer d (QRoute p true acc egr)).
Proof.
  intros d s p acc egr HD. pose proof HD as (Hwf & Hs & Htab & Hp & Hex).
  rewrite (fresh_route_is d s p acc egr Hs), (fresh_alt_is d s p acc egr Hs).
  pose proof (Assemble.C10_assembled d s p acc egr HD) as H10.
  unfold alt_response_correct.
  destruct (answer_alt d s p acc egr) as [[rs total]|reason| | | | | | |] eqn:Ea; try exact H10.
  - destruct H10 as ([used Hfirst] & Hall & Hdist & Hcap & Htot).
    split; [|split; [|split; [|split; [|split]]]].
    + exists used. rewrite Hfirst. reflexivity.
    + exact Hall.
    + exact Hdist.
    + exact Hcap.
    + exact Htot.
    + intros Hpos Hfw r0 r Hr.
      exact (OptCompose.C10_no_better_proved d s p acc egr rs total r0 HD Hpos Hfw Ea r Hr).
  - rewrite H10. reflexivity.
Qed.

(* the domain of the accessibility statements, without the two hypotheses of EndToEnd.access_domain that the
   proofs do not use (q_except_lines p = [], uniform_wait_b d): FullStatements.C08/C09_decl_any_except *)
Definition access_dom (d : data) (s : scenario) (p : params) (rows : list fprow) : Prop :=
  wf_data_b d = true /\ find_scenario d (q_scenario p) = Some s /\
  wf_tables_b d p (if q_fwd p then rows else []) (if q_fwd p then [] else rows) = true /\
  wf_params_b p = true /\ pos_hops_b d = true /\ (q_fwd p = true -> q_maxfw p <= 0).

Theorem direct_access_correct : forall d s p rows, access_dom d s p rows ->
  access_response_correct d s p rows (fresh_answer d (QAccess p rows)).
Proof.
  intros d s p rows (Hwf & Hs & Htab & Hp & Hpos & Hfw).
  rewrite (fresh_access_is d s p rows Hs).
  exists (access_answer d s p rows). split; [reflexivity|].
  destruct (q_fwd p) eqn:Hf.
  - pose proof (FullStatements.C08_decl_any_except d s p rows Hwf Hs Htab Hp Hpos Hf (Hfw eq_refl)) as H8.
    rewrite C08_decl_is_of in H8. split; [|exact H8].
    destruct (access_answer d s p rows); try reflexivity; destruct H8.
  - pose proof (FullStatements.C09_decl_any_except d s p rows Hwf Hs Htab Hp Hpos Hf) as H9.
    rewrite C09_decl_is_of in H9. split; [|exact H9].
    destruct (access_answer d s p rows); try reflexivity; destruct H9.
Qed.

(* ---- calculateAllNodes without the hypotheses of C08 / C09 (no pos_hops_b, any first-waiting cap):
   an arrival query answers a map or a no-routing reason; a departure query does the same or exhausts the fuel of
   count_transfers_fwd (Hang) — it never throws, indexes past a table or dereferences an empty optional ---- *)
Lemma fwd_allnodes_loop_ok_or_hang : forall d p k fs nodes,
  (exists l, fwd_allnodes_loop d p k fs nodes = Ok l) \/ fwd_allnodes_loop d p k fs nodes = Hang.
Proof.
  intros d p k fs. induction nodes as [|n r IH]; cbn [fwd_allnodes_loop]; [left; eexists; reflexivity|].
  destruct (f_egr fs n) as [j|]; [|exact IH].
  destruct (count_transfers_fwd (REBUILD_FUEL d) d (f_steps fs) j (-1)) as [ntr|]; [|right; reflexivity].
  destruct IH as [[rest E]|E]; rewrite E; cbn [bind]; [|right; reflexivity].
  left. destruct (js_enter j); [|eexists; reflexivity]. destruct (js_exit j) as [e|]; [|eexists; reflexivity].
  destruct (c_arr e - k_dep k <=? q_maxtt p); eexists; reflexivity.
Qed.

Theorem calc_allnodes_fwd_no_exn : forall d s p rows,
  wf_data_b d = true -> wf_params_b p = true -> q_fwd p = true ->
  Compose.answers (calc_allnodes d (conn_set d s) p rows) \/ calc_allnodes d (conn_set d s) p rows = Hang.
Proof.
  intros d s p rows Hwf Hp Hf. unfold calc_allnodes. rewrite Hf.
  destruct (access_reason (nonempty rows) true) as [r0|]; [left; right; exists r0; reflexivity|]. cbv zeta.
  set (K := mk_calc d p (conn_set d s) rows [] true false).
  assert (Ek : k_dep K = q_time p) by (unfold K, mk_calc; cbn [k_dep]; rewrite Hf; reflexivity).
  pose proof (RevInv.wf_params_time p Hp) as Htime.
  assert (Eg : (k_dep K >? -1) = true) by (apply Z.gtb_lt; lia). rewrite Eg.
  destruct (FwdOpt.F_scan_total d s p rows [] Hwf false true) as (fs & Hscan). fold K in Hscan. rewrite Hscan. cbn [bind].
  destruct (f_count fs =? 0); [left; right; eexists; reflexivity|].
  destruct (fwd_allnodes_loop_ok_or_hang d p K fs (d_nodes d)) as [[l E]|E]; rewrite E; cbn [bind].
  - left. left. eexists. reflexivity.
  - right. reflexivity.
Qed.

Theorem calc_allnodes_rev_answers : forall d s p rows,
  wf_data_b d = true -> wf_tables_b d p [] rows = true -> wf_params_b p = true -> q_fwd p = false ->
  Compose.answers (calc_allnodes d (conn_set d s) p rows).
Proof.
  intros d s p rows Hwf Htab Hp Hf. unfold calc_allnodes. rewrite Hf.
  destruct (access_reason true (nonempty rows)) as [r0|]; [right; exists r0; reflexivity|]. cbv zeta.
  set (k0 := mk_calc d p (conn_set d s) [] rows false true).
  set (k := with_rev k0 (k_arr k0) (-1) (k_taur k0) (set_usable (k_ov k0))).
  pose proof (RevOpt.calc_allnodes_rev_pre d s p rows Htab) as Hpre. cbv zeta in Hpre. fold k0 in Hpre. fold k in Hpre.
  assert (Ek : k_arr k = q_time p) by (unfold k, k0, with_rev, mk_calc; cbn [k_arr]; rewrite Hf; reflexivity).
  pose proof (RevInv.wf_params_time p Hp) as Htime.
  assert (Eg : (k_arr k >? -1) = true) by (apply Z.gtb_lt; lia). rewrite Eg.
  destruct (Index.rev_scan_total d p k true) as (st & Hscan).
  { rewrite (RevInv.rp_set _ _ _ _ _ _ Hpre). unfold Index.arr_sorted_desc. apply SortFilter.conn_set_rev_sorted. }
  { rewrite (RevInv.rp_set _ _ _ _ _ _ Hpre). apply (proj2 (SortFilter.conn_set_indexes d s)). }
  rewrite Hscan. cbn [bind].
  destruct (r_count st =? 0); [right; eexists; reflexivity|].
  destruct (RevOpt.rev_scan_allnodes_simc d p k st Hscan) as (st' & Hscan' & ((_ & Esteps & _ & Eacc & _) & _)).
  destruct (RevOptCompose.allnodes_loop_spec d p k st (d_nodes d)) as (l & El & _).
  { intros n start _ Hstart. rewrite Eacc in Hstart.
    destruct (RevOptCompose.allnodes_node_ok d s p [] rows (Termination.allnodes_calc k) st' n start Hwf Hp
                (Termination.rev_pre_allnodes d s p [] rows k Hpre) Hscan' Hstart)
      as (b & legs & ln & er & js1 & used & _ & N2 & N3 & N4).
    exists legs, ln, er, js1, used. rewrite Esteps. split; [exact N2|]. split; [exact N3|exact N4]. }
  rewrite El. cbn [bind]. left. eexists. reflexivity.
Qed.

(* ============================================================================================== *)
(* 3. (a) totality and classification of the HTTP answers, with the real calculation                *)

Section Classification.
Variable uuid_of : str -> option nat.

(* THE DOMAIN of the HTTP statements, on top of well-formed data: whenever the parameters parse,
   - the requested time is a clock time of the service day: time_of_trip < 32 h (Spec.wf_params_b; the factory
     accepts every int, the calculation theorems are proved for clock times below CLOCK_MAX);
   - the rows the walking router answered are well-formed for the PARSED limits (Spec.wf_tables_b: stops of the
     data, 0 <= time < 32768, one row per stop, times within max_access / max_egress_travel_time). *)
Definition http_domain (d : data) (ep : endpoint) (kvs : list (key * str)) (acc egr : list fprow) : Prop :=
  forall c alt p, parse uuid_of d ep kvs = POk (c, alt) -> params_of_common c = Some p ->
    q_time p < CLOCK_MAX /\ wf_tables_b d p acc egr = true.

Lemma http_in_domain : forall d ep kvs acc egr c alt, wf_data_b d = true ->
  http_domain d ep kvs acc egr -> parse uuid_of d ep kvs = POk (c, alt) ->
  exists sid s, cm_scen c = Some sid /\ find_scenario d sid = Some s /\ s_services s <> [] /\
    params_of_common c = Some (params_with sid c) /\ in_domain d s (params_with sid c) acc egr.
Proof.
  intros d ep kvs acc egr c alt Hwf Hdom EP.
  destruct (parse_ok_params uuid_of d ep kvs c alt EP) as (sid & s & ES & Hs & Hne & Hp & Pok & _).
  destruct (Hdom c alt _ EP Hp) as [Ht Htab].
  exists sid, s. split; [exact ES|]. split; [exact Hs|]. split; [exact Hne|]. split; [exact Hp|].
  split; [exact Hwf|]. split; [exact Hs|]. split; [exact Htab|]. split; [|reflexivity].
  exact (params_ok_wf _ c sid Pok Ht).
Qed.

(* the two shapes of a calculation answer of the domain, with or without alternatives *)
Lemma fresh_route_shape : forall d s p alt acc egr, in_domain d s p acc egr ->
  (alt = false /\ ((exists r used, fresh_answer d (QRoute p alt acc egr) = ARoute (Ok (r, used))) \/
                   (exists reason, fresh_answer d (QRoute p alt acc egr) = ARoute (NoRouting reason)))) \/
  (alt = true /\ ((exists r tl total, fresh_answer d (QRoute p alt acc egr) = AAlt (Ok (r :: tl, total))) \/
                  (exists reason, fresh_answer d (QRoute p alt acc egr) = AAlt (NoRouting reason)))).
Proof.
  intros d s p alt acc egr (Hwf & Hs & Htab & Hp & Hex). destruct alt.
  - right. split; [reflexivity|]. rewrite (fresh_alt_is d s p acc egr Hs). unfold answer_alt.
    destruct (Compose.alternatives_outcome d s p acc egr Hwf Htab Hp) as [(rs & total & E)|(reason & E)].
    + left. destruct (AltProofs.alt_first_is_plain _ _ _ _ _ _ _ E) as (r & used & tl & _ & ->).
      exists r, tl, total. rewrite E. reflexivity.
    + right. exists reason. rewrite E. reflexivity.
  - left. split; [reflexivity|]. rewrite (fresh_route_is d s p acc egr Hs). unfold answer_route.
    destruct (Compose.calc_single_outcome d s p acc egr true Hwf Htab Hp) as [(r & used & E)|(reason & E)].
    + left. exists r, used. rewrite E. reflexivity.
    + right. exists reason. rewrite E. reflexivity.
Qed.

(* the response of http_serve for parsed parameters, on a server that satisfies the cache invariant *)
Lemma http_serve_parsed : forall sv ep kvs acc egr c alt sid,
  cache_inv (sv_data sv) (sv_cache sv) ->
  parse uuid_of (sv_data sv) ep kvs = POk (c, alt) -> cm_scen c = Some sid ->
  let p := params_with sid c in
  let r := match ep with EAccess => QAccess p (if q_fwd p then acc else egr) | _ => QRoute p alt acc egr end in
  fst (http_serve uuid_of sv 0 ep kvs acc egr) =
  render (sv_data sv) (is_summary ep) (echo_of_params p) (fresh_answer (sv_data sv) r).
Proof.
  intros sv ep kvs acc egr c alt sid Hc EP ES. cbv zeta.
  rewrite (http_serve_pok uuid_of sv ep kvs acc egr c alt EP). cbn [fst].
  rewrite (serve_is_fresh sv _ Hc). unfold request_of_common. rewrite (params_of_common_some c sid ES).
  destruct ep; reflexivity.
Qed.

(* the shape of a /v2/route or /v2/summary answer for parsed parameters p (alternatives requested or not) *)
Definition route_answer_shape (ep : endpoint) (alt : bool) (q : query_echo) (resp : http_response) : Prop :=
  match ep with
  | ESummary => exists nb lines, resp = HttpR 200 (HSummary nb lines q)
  | _ => (exists r tl total, resp = HttpR 200 (HRoute (r :: tl) total q) /\ (alt = false -> tl = [] /\ total = 1)) \/
         (exists reason, resp = HttpR 200 (HNoRouting reason q))
  end.

(* (a) for /v2/route and /v2/summary.  For EVERY data status, key/value list and router tables, on well-formed data:
   exactly one of
     1. 200 data_error with the status                     (the data status is not READY)
     2. 400 query_error with a code whose defect is present in the key/value list, and the factory failed
        (PARAM_ERROR_UNKNOWN only for a scenario_id the uuid parser rejects: calc_throws := never)
     3. 200 success / no_routing_found, the parameters parsed to p, the echoed query is p's.
   The three shapes are distinct constructors, so at most one holds. *)
Theorem http_route_classification : forall sv status ep kvs acc egr, ep <> EAccess ->
  wf_data_b (sv_data sv) = true -> cache_inv (sv_data sv) (sv_cache sv) ->
  http_domain (sv_data sv) ep kvs acc egr ->
  let d := sv_data sv in
  let resp := fst (http_serve uuid_of sv status ep kvs acc egr) in
  (status <> 0%nat /\ resp = HttpR 200 (HDataError status)) \/
  (status = 0%nat /\ (forall x, parse uuid_of d ep kvs <> POk x) /\
   exists code, resp = HttpR 400 (HQueryError code) /\
                route_defect (resolve uuid_of d) (services_of d) (fun _ _ => false) kvs code) \/
  (status = 0%nat /\
   exists c alt sid s, parse uuid_of d ep kvs = POk (c, alt) /\ cm_scen c = Some sid /\
     find_scenario d sid = Some s /\ in_domain d s (params_with sid c) acc egr /\
     route_answer_shape ep alt (echo_of_params (params_with sid c)) resp).
Proof.
  intros sv status ep kvs acc egr Hep Hwf Hc Hdom. cbv zeta.
  destruct (Nat.eq_dec status 0) as [->|Hs].
  2:{ left. split; [exact Hs|]. rewrite (http_serve_status uuid_of sv status ep kvs acc egr Hs). reflexivity. }
  right.
  assert (Hpr : parse uuid_of (sv_data sv) ep kvs = create_route (resolve uuid_of (sv_data sv)) (services_of (sv_data sv)) kvs)
    by (destruct ep; [reflexivity|reflexivity|contradiction]).
  destruct (parse uuid_of (sv_data sv) ep kvs) as [[c alt]|e|] eqn:EP.
  - right. split; [reflexivity|].
    destruct (http_in_domain (sv_data sv) ep kvs acc egr c alt Hwf Hdom EP) as (sid & s & ES & Hs & _ & Hp & HD).
    exists c, alt, sid, s. split; [reflexivity|]. split; [exact ES|]. split; [exact Hs|]. split; [exact HD|].
    rewrite (http_serve_parsed sv ep kvs acc egr c alt sid Hc EP ES).
    set (p := params_with sid c) in *.
    assert (Er : match ep with EAccess => QAccess p (if q_fwd p then acc else egr) | _ => QRoute p alt acc egr end
                 = QRoute p alt acc egr) by (destruct ep; [reflexivity|reflexivity|contradiction]).
    rewrite Er.
    destruct (fresh_route_shape (sv_data sv) s p alt acc egr HD)
      as [[-> [(r & used & E)|(reason & E)]]|[-> [(r & tl & total & E)|(reason & E)]]]; rewrite E;
      destruct ep; try contradiction; cbn [route_answer_shape render is_summary render_outcome fst snd].
    + left. exists r, [], 1. split; [reflexivity|]. intros _. split; reflexivity.
    + eexists. eexists. reflexivity.
    + right. eexists. reflexivity.
    + eexists. eexists. reflexivity.
    + left. exists r, tl, total. split; [reflexivity|]. intros H. discriminate H.
    + eexists. eexists. reflexivity.
    + right. eexists. reflexivity.
    + eexists. eexists. reflexivity.
  - left. split; [reflexivity|]. split; [intros x H; discriminate H|].
    exists (response_code e). rewrite (http_serve_perr uuid_of sv ep kvs acc egr e EP). split; [reflexivity|].
    apply C18_class_route. unfold handle_route. cbn [Nat.eqb negb]. rewrite <- Hpr. reflexivity.
  - left. split; [reflexivity|]. split; [intros x H; discriminate H|].
    exists C_PARAM_ERROR_UNKNOWN. rewrite (http_serve_pexn uuid_of sv ep kvs acc egr EP). split; [reflexivity|].
    apply C18_class_route. unfold handle_route. cbn [Nat.eqb negb]. rewrite <- Hpr. reflexivity.
Qed.


(* consequences: never an outcome that is no HTTP answer, and never a 400 for parameters that parse *)
Corollary http_route_never_bad : forall sv status ep kvs acc egr, ep <> EAccess ->
  wf_data_b (sv_data sv) = true -> cache_inv (sv_data sv) (sv_cache sv) ->
  http_domain (sv_data sv) ep kvs acc egr ->
  is_hbad (fst (http_serve uuid_of sv status ep kvs acc egr)) = false.
Proof.
  intros sv status ep kvs acc egr Hep Hwf Hc Hdom.
  destruct (http_route_classification sv status ep kvs acc egr Hep Hwf Hc Hdom)
    as [[_ E]|[(_ & _ & code & E & _)|(_ & c & alt & sid & s & _ & _ & _ & _ & Sh)]]; try (rewrite E; reflexivity).
  destruct ep; [| |contradiction]; cbn [route_answer_shape] in Sh.
  - destruct Sh as [(r & tl & total & E & _)|(reason & E)]; rewrite E; reflexivity.
  - destruct Sh as (nb & lines & E). rewrite E. reflexivity.
Qed.

Corollary http_route_parsed_200 : forall sv ep kvs acc egr x, ep <> EAccess ->
  wf_data_b (sv_data sv) = true -> cache_inv (sv_data sv) (sv_cache sv) ->
  http_domain (sv_data sv) ep kvs acc egr ->
  parse uuid_of (sv_data sv) ep kvs = POk x ->
  resp_code (fst (http_serve uuid_of sv 0 ep kvs acc egr)) = 200%nat.
Proof.
  intros sv ep kvs acc egr x Hep Hwf Hc Hdom EP.
  destruct (http_route_classification sv 0 ep kvs acc egr Hep Hwf Hc Hdom)
    as [[Hs _]|[(_ & Hno & _)|(_ & c & alt & sid & s & _ & _ & _ & _ & Sh)]].
  - exfalso. apply Hs. reflexivity.
  - exfalso. exact (Hno x EP).
  - destruct ep; [| |contradiction]; cbn [route_answer_shape] in Sh.
    + destruct Sh as [(r & tl & total & E & _)|(reason & E)]; rewrite E; reflexivity.
    + destruct Sh as (nb & lines & E). rewrite E. reflexivity.
Qed.

(* ---- /v2/accessibility ---- *)
Lemma wf_tables_split : forall d p acc egr, wf_tables_b d p acc egr = true ->
  wf_tables_b d p acc [] = true /\ wf_tables_b d p [] egr = true.
Proof.
  intros d p acc egr H. unfold wf_tables_b in H.
  apply andb_true_iff in H. destruct H as [H T6]. apply andb_true_iff in H. destruct H as [H T5].
  apply andb_true_iff in H. destruct H as [H T4]. apply andb_true_iff in H. destruct H as [H T3].
  apply andb_true_iff in H. destruct H as [T1 T2].
  split; unfold wf_tables_b.
  - rewrite T1, T3, T5. reflexivity.
  - rewrite T2, T4, T6. reflexivity.
Qed.

Lemma parse_access_alt : forall d kvs c alt, parse uuid_of d EAccess kvs = POk (c, alt) ->
  alt = false /\ create_access (resolve uuid_of d) (services_of d) kvs = POk c.
Proof.
  intros d kvs c alt H. cbn [parse] in H.
  destruct (create_access (resolve uuid_of d) (services_of d) kvs) as [c'| |]; try discriminate H.
  injection H as <- <-. split; reflexivity.
Qed.

(* the additional domain of the accessibility statements (FullStatements.C08/C09_decl_any_except): every hop of
   the data takes time, and a departure query carries no first-waiting cap *)
Definition http_access_extra (d : data) (kvs : list (key * str)) : Prop :=
  pos_hops_b d = true /\
  forall c alt, parse uuid_of d EAccess kvs = POk (c, alt) -> cm_fwd c = true -> cm_maxfw c <= 0.

Lemma http_access_dom : forall d kvs acc egr c alt, wf_data_b d = true ->
  http_domain d EAccess kvs acc egr -> http_access_extra d kvs -> parse uuid_of d EAccess kvs = POk (c, alt) ->
  exists sid s, alt = false /\ cm_scen c = Some sid /\ find_scenario d sid = Some s /\
    access_dom d s (params_with sid c) (if cm_fwd c then acc else egr).
Proof.
  intros d kvs acc egr c alt Hwf Hdom [Hpos Hfw] EP.
  destruct (http_in_domain d EAccess kvs acc egr c alt Hwf Hdom EP) as (sid & s & ES & Hs & _ & _ & HD).
  destruct HD as (_ & _ & Htab & Hp & _).
  exists sid, s. split; [exact (proj1 (parse_access_alt d kvs c alt EP))|]. split; [exact ES|]. split; [exact Hs|].
  split; [exact Hwf|]. split; [exact Hs|]. split; [|split; [exact Hp|split; [exact Hpos|]]].
  - cbn [params_with q_fwd]. destruct (wf_tables_split _ _ _ _ Htab) as [Ta Te]. destruct (cm_fwd c); assumption.
  - cbn [params_with q_fwd q_maxfw]. exact (Hfw c alt EP).
Qed.

(* (a) for /v2/accessibility, with C08 / C09 for the answer *)
Theorem http_access_classification : forall sv status kvs acc egr,
  wf_data_b (sv_data sv) = true -> cache_inv (sv_data sv) (sv_cache sv) ->
  http_domain (sv_data sv) EAccess kvs acc egr -> http_access_extra (sv_data sv) kvs ->
  let d := sv_data sv in
  let resp := fst (http_serve uuid_of sv status EAccess kvs acc egr) in
  (status <> 0%nat /\ resp = HttpR 200 (HDataError status)) \/
  (status = 0%nat /\ (forall x, parse uuid_of d EAccess kvs <> POk x) /\
   exists code, resp = HttpR 400 (HQueryError code) /\
                access_defect (resolve uuid_of d) (services_of d) (fun _ _ => false) kvs code) \/
  (status = 0%nat /\
   exists c sid s, parse uuid_of d EAccess kvs = POk (c, false) /\ cm_scen c = Some sid /\ find_scenario d sid = Some s /\
     let p := params_with sid c in
     let rows := if q_fwd p then acc else egr in
     access_dom d s p rows /\
     exists o, is_bad o = false /\ (if q_fwd p then C08_of d s p rows o else C09_of d s p rows o) /\
       ((exists l total, o = Ok (l, total) /\
           resp = HttpR 200 (HAccess (map (render_node (q_fwd p)) l) total (echo_of_params p))) \/
        (exists reason, o = NoRouting reason /\
           resp = HttpR 200 (HNoRouting (access_reason_text reason) (echo_of_params p))))).
Proof.
  intros sv status kvs acc egr Hwf Hc Hdom Hext. cbv zeta.
  destruct (Nat.eq_dec status 0) as [->|Hs].
  2:{ left. split; [exact Hs|]. rewrite (http_serve_status uuid_of sv status EAccess kvs acc egr Hs). reflexivity. }
  right.
  destruct (parse uuid_of (sv_data sv) EAccess kvs) as [[c alt]|e|] eqn:EP.
  - right. split; [reflexivity|].
    destruct (http_access_dom (sv_data sv) kvs acc egr c alt Hwf Hdom Hext EP) as (sid & s & -> & ES & Hs & HD).
    exists c, sid, s. split; [reflexivity|]. split; [exact ES|]. split; [exact Hs|].
    cbn [params_with q_fwd]. split; [exact HD|].
    rewrite (http_serve_parsed sv EAccess kvs acc egr c false sid Hc EP ES).
    cbn [params_with q_fwd is_summary].
    destruct (direct_access_correct (sv_data sv) s (params_with sid c) (if cm_fwd c then acc else egr) HD)
      as (o & Ea & Hb & Hcor).
    cbn [params_with q_fwd] in Ea, Hcor.
    exists o. split; [exact Hb|]. split; [exact Hcor|].
    change (fresh_answer (sv_data sv) (QAccess (params_with sid c) (if cm_fwd c then acc else egr)) = AAccess o) in Ea.
    rewrite Ea. cbn [render].
    destruct o as [[l total]|reason| | | | | | |]; cbn [render_outcome fst snd echo_of_params params_with qe_fwd q_fwd].
    + left. exists l, total. split; reflexivity.
    + right. exists reason. split; reflexivity.
    + destruct (cm_fwd c); destruct Hcor.
    + destruct (cm_fwd c); destruct Hcor.
    + destruct (cm_fwd c); destruct Hcor.
    + discriminate Hb.
    + discriminate Hb.
    + discriminate Hb.
    + discriminate Hb.
  - left. split; [reflexivity|]. split; [intros x H; discriminate H|].
    exists (response_code e). rewrite (http_serve_perr uuid_of sv EAccess kvs acc egr e EP). split; [reflexivity|].
    apply C18_class_access. unfold handle_access. cbn [Nat.eqb negb]. cbn [parse] in EP.
    destruct (create_access (resolve uuid_of (sv_data sv)) (services_of (sv_data sv)) kvs) as [c'| |]; try discriminate EP.
    injection EP as ->. reflexivity.
  - left. split; [reflexivity|]. split; [intros x H; discriminate H|].
    exists C_PARAM_ERROR_UNKNOWN. rewrite (http_serve_pexn uuid_of sv EAccess kvs acc egr EP). split; [reflexivity|].
    apply C18_class_access. unfold handle_access. cbn [Nat.eqb negb]. cbn [parse] in EP.
    destruct (create_access (resolve uuid_of (sv_data sv)) (services_of (sv_data sv)) kvs) as [c'| |]; try discriminate EP.
    reflexivity.
Qed.

(* (a) for /v2/accessibility WITHOUT http_access_extra (any data with well-formed structure, any first-waiting cap,
   in particular the default request): parameters that parse are never answered 400; an arrival query always gets
   its 200 answer; a departure query gets its 200 answer or — in the model — exhausts the fuel of the transfer
   count of forwardJourneyStepAllNodes (HBad BK_Hang; excluded under http_access_extra by
   http_access_classification) *)
Theorem http_access_parsed : forall sv kvs acc egr c alt,
  wf_data_b (sv_data sv) = true -> cache_inv (sv_data sv) (sv_cache sv) ->
  http_domain (sv_data sv) EAccess kvs acc egr ->
  parse uuid_of (sv_data sv) EAccess kvs = POk (c, alt) ->
  let resp := fst (http_serve uuid_of sv 0 EAccess kvs acc egr) in
  (exists b, resp = HttpR 200 b /\ body_echo b = Some (echo_of_common c)) \/
  (cm_fwd c = true /\ resp = HttpR 0 (HBad BK_Hang)).
Proof.
  intros sv kvs acc egr c alt Hwf Hc Hdom EP. cbv zeta.
  destruct (http_in_domain (sv_data sv) EAccess kvs acc egr c alt Hwf Hdom EP) as (sid & s & ES & Hs & _ & Hp & HD).
  destruct HD as (_ & Hs' & Htab & Hpar & _).
  destruct (wf_tables_split _ _ _ _ Htab) as [_ Te].
  rewrite (http_serve_parsed sv EAccess kvs acc egr c alt sid Hc EP ES). cbn [params_with q_fwd is_summary].
  destruct (cm_fwd c) eqn:Hf.
  - rewrite (fresh_access_is (sv_data sv) s (params_with sid c) acc Hs'). unfold access_answer.
    assert (Hf' : q_fwd (params_with sid c) = true) by exact Hf.
    destruct (calc_allnodes_fwd_no_exn (sv_data sv) s (params_with sid c) acc Hwf Hpar Hf') as [[[x E]|[r E]]|E];
      rewrite E; cbn [render render_outcome].
    + left. eexists. split; [reflexivity|]. unfold body_echo, echo_of_params, echo_of_common.
      cbn [params_with q_time q_fwd]. rewrite Hf. reflexivity.
    + left. eexists. split; [reflexivity|]. unfold body_echo, echo_of_params, echo_of_common.
      cbn [params_with q_time q_fwd]. rewrite Hf. reflexivity.
    + right. split; reflexivity.
  - rewrite (fresh_access_is (sv_data sv) s (params_with sid c) egr Hs'). unfold access_answer.
    assert (Hf' : q_fwd (params_with sid c) = false) by exact Hf.
    destruct (calc_allnodes_rev_answers (sv_data sv) s (params_with sid c) egr Hwf Te Hpar Hf') as [[x E]|[r E]];
      rewrite E; cbn [render render_outcome].
    + left. eexists. split; [reflexivity|]. unfold body_echo, echo_of_params, echo_of_common.
      cbn [params_with q_time q_fwd]. rewrite Hf. reflexivity.
    + left. eexists. split; [reflexivity|]. unfold body_echo, echo_of_params, echo_of_common.
      cbn [params_with q_time q_fwd]. rewrite Hf. reflexivity.
Qed.

End Classification.

(* ============================================================================================== *)
(* 4. (b) the properties of the answers, at the level of the HTTP exchange                          *)

(* the numeric field of the calculation's parameters a key writes (ParamsProofs.field_of on the parsed record) *)
Definition pfield (k : key) (p : params) : Z :=
  match k with
  | KTime => q_time p | KMinWait => q_minw p | KMaxTT => q_maxtt p | KMaxAcc => q_maxacc p
  | KMaxEgr => q_maxegr p | KMaxTr => q_maxtr p | KMaxFW => q_maxfw p
  | _ => 0
  end.

Lemma pfield_params_with : forall k sid c, pfield k (params_with sid c) = field_of k c.
Proof. intros k sid c. destruct k; reflexivity. Qed.

(* THE DOCUMENTED NORMALISATIONS, restated from ParamsProofs (C18_defaults, C18_default_fwd, common_loop_field_bound,
   C18_nodup_value, C18_norm, common_loop_scen_some) on the parameters the calculation receives.
   `ParamsProofs.norm` is the documented rule: time < 0 -> -1 (then rejected), min_waiting_time < 0 -> 0,
   max_*_travel_time <= 0 -> MAX_INT (no limit), max_first_waiting_time <= 0 -> -1 (no limit). *)
Definition documented_params (rs : str -> option (option nat)) (kvs : list (key * str)) (p : params) : Prop :=
  (* an omitted optional parameter has its default *)
  (forall k, (forall v, ~ In (k, v) kvs) -> pfield k p = field_of k common_default) /\
  ((forall v, ~ In (KTimeType, v) kvs) -> q_fwd p = true) /\
  (* a given number is the normalised value of one of its bindings; without repeated keys, of THE binding *)
  (forall k, is_numeric_key k = true -> (exists v, In (k, v) kvs) ->
     exists v x, In (k, v) kvs /\ stoi v = Some x /\ pfield k p = norm k x) /\
  (NoDup (map fst kvs) -> forall k v x, In (k, v) kvs -> is_numeric_key k = true -> stoi v = Some x ->
     pfield k p = norm k x /\ (0 < x -> pfield k p = x)) /\
  (* non-positive limits mean "no limit" *)
  ((exists v, In (KMaxTT, v) kvs) -> (forall v x, In (KMaxTT, v) kvs -> stoi v = Some x -> x <= 0) -> q_maxtt p = MAX_INT) /\
  ((exists v, In (KMaxAcc, v) kvs) -> (forall v x, In (KMaxAcc, v) kvs -> stoi v = Some x -> x <= 0) -> q_maxacc p = MAX_INT) /\
  ((exists v, In (KMaxEgr, v) kvs) -> (forall v x, In (KMaxEgr, v) kvs -> stoi v = Some x -> x <= 0) -> q_maxegr p = MAX_INT) /\
  ((exists v, In (KMaxTr, v) kvs) -> (forall v x, In (KMaxTr, v) kvs -> stoi v = Some x -> x <= 0) -> q_maxtr p = MAX_INT) /\
  ((exists v, In (KMaxFW, v) kvs) -> (forall v x, In (KMaxFW, v) kvs -> stoi v = Some x -> x <= 0) -> q_maxfw p = -1) /\
  ((exists v, In (KMinWait, v) kvs) -> (forall v x, In (KMinWait, v) kvs -> stoi v = Some x -> x < 0) -> q_minw p = 0) /\
  (* the scenario is named by one of the scenario_id values; no line is excluded by a request *)
  (exists v, In (KScenario, v) kvs /\ rs v = Some (Some (q_scenario p))) /\
  q_except_lines p = [].

Section Properties.
Variable uuid_of : str -> option nat.

Lemma parse_documented : forall d ep kvs c alt sid, parse uuid_of d ep kvs = POk (c, alt) -> cm_scen c = Some sid ->
  documented_params (resolve uuid_of d) kvs (params_with sid c).
Proof.
  intros d ep kvs c alt sid EP ES.
  destruct (parse_ok_params uuid_of d ep kvs c alt EP) as (_ & _ & _ & _ & _ & _ & _ & EL).
  pose proof (C18_norm _ _ _ _ EL) as (N1 & N2 & N3 & N4 & N5 & N6 & _).
  unfold documented_params. cbn [params_with q_fwd q_maxtt q_maxacc q_maxegr q_maxtr q_maxfw q_minw q_scenario q_except_lines].
  split; [|split; [|split; [|split; [|split; [|split; [|split; [|split; [|split; [|split; [|split]]]]]]]]]];
    try assumption.
  - intros k Hno. rewrite pfield_params_with. exact (C18_defaults _ _ _ k EL Hno).
  - exact (C18_default_fwd _ _ _ EL).
  - intros k Hn Hex. rewrite pfield_params_with. exact (common_loop_field_bound _ _ _ _ k EL Hn Hex).
  - intros ND k v x Hin Hn Hx. rewrite pfield_params_with.
    destruct (C18_nodup_value _ _ _ _ k v x EL ND Hin Hn Hx) as (A & B & _). split; assumption.
  - destruct (common_loop_scen_some _ _ _ _ _ EL ES) as [Hd|Hv]; [discriminate Hd|exact Hv].
  - reflexivity.
Qed.

(* ---- C19 at the HTTP level: /v2/summary for the same key/value list ---- *)
Lemma serve_route_cases : forall sv p alt acc egr,
  (exists o, fst (serve sv (QRoute p alt acc egr)) = ARoute o) \/
  (exists o, fst (serve sv (QRoute p alt acc egr)) = AAlt o) \/
  fst (serve sv (QRoute p alt acc egr)) = AError 0.
Proof.
  intros sv p alt acc egr. unfold serve. cbn [req_scenario].
  destruct (find_scenario (sv_data sv) (q_scenario p)) as [s|]; [|right; right; reflexivity].
  destruct (reaches_filters (QRoute p alt acc egr)).
  - destruct (cache_get (sv_cache sv) (q_scenario p)) as [cs|]; destruct alt; cbn [fst respond];
      first [left; eexists; reflexivity | right; left; eexists; reflexivity].
  - destruct alt; cbn [fst respond]; first [left; eexists; reflexivity | right; left; eexists; reflexivity].
Qed.

Lemma request_of_summary : forall d kvs acc egr,
  request_of uuid_of d ESummary kvs acc egr = request_of uuid_of d ERoute kvs acc egr.
Proof. reflexivity. Qed.

(* the answer to /v2/summary, from the same server state, is determined by the answer to /v2/route for the same
   key/value list and tables: nbRoutes = the number of routes, lines = Render.summary_lines of THOSE routes;
   no_routing_found becomes success with 0 routes; the errors are the same *)
Theorem http_summary_of_route : forall sv kvs acc egr,
  let d := sv_data sv in
  let route := fst (http_serve uuid_of sv 0 ERoute kvs acc egr) in
  let summary := fst (http_serve uuid_of sv 0 ESummary kvs acc egr) in
  (forall rs total q, route = HttpR 200 (HRoute rs total q) ->
     summary = HttpR 200 (HSummary (Z.of_nat (length rs)) (summary_lines d rs) q)) /\
  (forall reason q, route = HttpR 200 (HNoRouting reason q) -> summary = HttpR 200 (HSummary 0 [] q)) /\
  (forall code e, route = HttpR code (HQueryError e) -> summary = HttpR code (HQueryError e)).
Proof.
  intros sv kvs acc egr. cbv zeta. unfold http_serve. cbn [Nat.eqb negb is_summary]. rewrite request_of_summary.
  set (r := request_of uuid_of (sv_data sv) ERoute kvs acc egr).
  assert (Hr : (exists p alt, r = QRoute p alt acc egr) \/ (exists c, r = QInvalid c)).
  { unfold r, request_of. destruct (parse uuid_of (sv_data sv) ERoute kvs) as [[c alt]|e|].
    - unfold request_of_common. destruct (params_of_common c) as [p|].
      + left. exists p, alt. reflexivity.
      + right. eexists. reflexivity.
    - right. eexists. reflexivity.
    - right. eexists. reflexivity. }
  assert (Ha : (exists o, fst (serve sv r) = ARoute o) \/ (exists o, fst (serve sv r) = AAlt o) \/
               (exists c, fst (serve sv r) = AError c)).
  { destruct Hr as [(p & alt & ->)|(c & ->)].
    - destruct (serve_route_cases sv p alt acc egr) as [H|[H|H]]; [left|right; left|right; right; exists 0%nat]; exact H.
    - right. right. exists c. rewrite serve_invalid. reflexivity. }
  destruct (serve sv r) as [a sv1]. cbn [fst] in *.
  destruct Ha as [(o & ->)|[(o & ->)|(c & ->)]]; cbn [render].
  - destruct o as [[r1 used]|reason| | | | | | |]; cbn [render_outcome fst snd];
      (split; [|split]); intros; try discriminate;
      match goal with H : HttpR _ _ = HttpR _ _ |- _ => inversion H; subst; reflexivity end.
  - destruct o as [[rs0 total0]|reason| | | | | | |]; cbn [render_outcome fst snd];
      (split; [|split]); intros; try discriminate;
      match goal with H : HttpR _ _ = HttpR _ _ |- _ => inversion H; subst; reflexivity end.
  - (split; [|split]); intros; try discriminate;
      match goal with H : HttpR _ _ = HttpR _ _ |- _ => inversion H; subst; reflexivity end.
Qed.

(* what the line list of a summary says (RenderProofs, C19): one entry per boarded line, ascending, each with
   the number of boardings of that line over all routes *)
Corollary http_summary_lines_meaning : forall d rs,
  (forall l c, In (l, c) (summary_lines d rs) <->
               c = Z.of_nat (count_occ Nat.eq_dec (flat_map (route_lines d) rs) l) /\ 0 < c) /\
  Sorted.StronglySorted (fun a b => (fst a < fst b)%nat) (summary_lines d rs) /\
  fold_right Z.add 0 (map snd (summary_lines d rs)) = Z.of_nat (length (flat_map (route_lines d) rs)).
Proof.
  intros d rs. split; [|split].
  - intros l c. split.
    + apply summary_lines_count.
    + intros [-> Hpos]. apply summary_lines_count_conv.
      destruct (in_dec Nat.eq_dec l (flat_map (route_lines d) rs)) as [Hin|Hnin]; [exact Hin|].
      apply (count_occ_not_In Nat.eq_dec) in Hnin. rewrite Hnin in Hpos. cbn in Hpos. lia.
  - apply summary_lines_sorted.
  - apply summary_lines_total.
Qed.

(* optimality of the first route of an answer, in the declarative vocabulary of Admissible.v / Optimal.v *)
Definition first_route_optimal (d : data) (s : scenario) (p : params) (acc egr : list fprow) (r1 : route) : Prop :=
  (* C03 + C05: departure queries without a first-waiting cap *)
  (pos_hops_b d = true -> q_fwd p = true -> q_maxfw p <= 0 ->
     (exists rides, admissible_fwd d s p acc egr rides (rt_arr r1)) /\
     (forall rides t, admissible_fwd d s p acc egr rides t -> rt_arr r1 <= t) /\
     q_time p <= rt_dep r1 /\
     (exists rides arr, journey d s p acc egr (rt_dep r1) rides arr /\ arr <= rt_arr r1) /\
     (forall dep0 rides arr, journey d s p acc egr dep0 rides arr -> arr <= rt_arr r1 -> q_time p <= dep0 ->
                             dep0 <= rt_dep r1)) /\
  (* C04: arrival queries *)
  (pos_hops_b d = true -> q_fwd p = false ->
     (exists rides, admissible_rev d s p acc egr (rt_dep r1) rides) /\
     (forall dep0 rides, admissible_rev d s p acc egr dep0 rides -> dep0 <= rt_dep r1)).

Lemma rrc_first_optimal : forall d s p acc egr r used,
  route_response_correct d s p acc egr (ARoute (Ok (r, used))) -> first_route_optimal d s p acc egr r.
Proof.
  intros d s p acc egr r used Hok. split.
  - intros Hpos Hf Hfw. exact (rrc_optimal_fwd d s p acc egr _ Hok Hpos Hf Hfw r used eq_refl).
  - intros Hpos Hf. exact (rrc_optimal_rev d s p acc egr _ Hok Hpos Hf r used eq_refl).
Qed.

(* (b) MAIN THEOREM for a 200 success answer of /v2/route *)
Theorem http_route_success : forall sv kvs acc egr rs total q,
  wf_data_b (sv_data sv) = true -> cache_inv (sv_data sv) (sv_cache sv) ->
  http_domain uuid_of (sv_data sv) ERoute kvs acc egr ->
  fst (http_serve uuid_of sv 0 ERoute kvs acc egr) = HttpR 200 (HRoute rs total q) ->
  let d := sv_data sv in
  exists c alt p s r1 tl,
    (* the parameters parsed, with the documented normalisations *)
    parse uuid_of d ERoute kvs = POk (c, alt) /\ params_of_common c = Some p /\
    find_scenario d (q_scenario p) = Some s /\ documented_params (resolve uuid_of d) kvs p /\
    wf_params_b p = true /\
    (* the echoed query is the parsed one *)
    q = echo_of_params p /\
    (* every route is a valid itinerary of the data within the limits of THAT p, with consistent totals *)
    rs = r1 :: tl /\
    (forall r, In r rs -> valid_itinerary_b d s p acc egr r = true /\ limits_ok_b d s p r = true /\
                          totals_ok_b d p r = true) /\
    (alt = false -> tl = [] /\ total = 1) /\
    (alt = true -> NoDup (map (fun r => sort_nat (route_lines d r)) rs) /\
                   Z.of_nat (length rs) <= 50 /\ Z.of_nat (length rs) <= total) /\
    (* the first route is optimal, and no other route of the answer is better *)
    first_route_optimal d s p acc egr r1 /\
    (pos_hops_b d = true -> (q_fwd p = true -> q_maxfw p <= 0) ->
       forall r, In r rs -> if q_fwd p then rt_arr r1 <= rt_arr r else rt_dep r <= rt_dep r1) /\
    (* /v2/summary for the same key/value list *)
    fst (http_serve uuid_of sv 0 ESummary kvs acc egr)
      = HttpR 200 (HSummary (Z.of_nat (length rs)) (summary_lines d rs) q).
Proof.
  intros sv kvs acc egr rs total q Hwf Hc Hdom H. cbv zeta.
  pose proof (proj1 (http_summary_of_route sv kvs acc egr) rs total q H) as Hsum.
  destruct (parse uuid_of (sv_data sv) ERoute kvs) as [[c alt]|e|] eqn:EP.
  2:{ rewrite (http_serve_perr uuid_of sv ERoute kvs acc egr e EP) in H. discriminate H. }
  2:{ rewrite (http_serve_pexn uuid_of sv ERoute kvs acc egr EP) in H. discriminate H. }
  destruct (http_in_domain uuid_of (sv_data sv) ERoute kvs acc egr c alt Hwf Hdom EP) as (sid & s & ES & Hs & _ & Hp & HD).
  rewrite (http_serve_parsed uuid_of sv ERoute kvs acc egr c alt sid Hc EP ES) in H. cbn [is_summary] in H.
  pose proof (parse_documented (sv_data sv) ERoute kvs c alt sid EP ES) as Hdoc.
  set (p := params_with sid c) in *.
  pose proof (direct_route_correct (sv_data sv) s p acc egr HD) as Hplain.
  destruct (fresh_route_shape (sv_data sv) s p alt acc egr HD)
    as [[-> [(r & used & E)|(reason & E)]]|[-> [(r & tl & total' & E)|(reason & E)]]];
    rewrite E in H; cbn [render render_outcome fst snd] in H; try discriminate H.
  - (* one route *)
    inversion H; subst rs total q. clear H.
    rewrite E in Hplain.
    exists c, false, p, s, r, []. split; [reflexivity|]. split; [exact Hp|]. split; [exact Hs|].
    split; [exact Hdoc|]. split; [exact (proj1 (proj2 (proj2 (proj2 HD))))|]. split; [reflexivity|].
    split; [reflexivity|]. split; [|split; [|split; [|split; [|split]]]].
    + intros r' [<-|[]]. exact (rrc_valid _ _ _ _ _ _ Hplain r used eq_refl).
    + intros _. split; reflexivity.
    + intros Hf. discriminate Hf.
    + exact (rrc_first_optimal _ _ _ _ _ r used Hplain).
    + intros _ _ r' [<-|[]]. destruct (q_fwd p); lia.
    + exact Hsum.
  - (* alternatives *)
    inversion H; subst rs total q. clear H.
    pose proof (direct_alt_correct (sv_data sv) s p acc egr HD) as Halt. rewrite E in Halt.
    cbn [alt_response_correct] in Halt. destruct Halt as ([used Hfirst] & Hall & Hdist & Hcap & Htot & Hbetter).
    cbn [hd] in Hfirst. rewrite Hfirst in Hplain.
    exists c, true, p, s, r, tl. split; [reflexivity|]. split; [exact Hp|]. split; [exact Hs|].
    split; [exact Hdoc|]. split; [exact (proj1 (proj2 (proj2 (proj2 HD))))|]. split; [reflexivity|].
    split; [reflexivity|]. split; [|split; [|split; [|split; [|split]]]].
    + exact Hall.
    + intros Hf. discriminate Hf.
    + intros _. split; [exact Hdist|]. split; [exact Hcap|exact Htot].
    + exact (rrc_first_optimal _ _ _ _ _ r used Hplain).
    + intros Hpos Hfw r' Hr'. exact (Hbetter Hpos Hfw r r' Hr').
    + exact Hsum.
Qed.

(* (b) for a 200 no_routing_found answer: the reason string is the one of the most specific true reason (C07),
   and no admissible journey exists (C03 / C04); the summary is success with 0 routes *)
Theorem http_route_no_routing : forall sv kvs acc egr rt q,
  wf_data_b (sv_data sv) = true -> cache_inv (sv_data sv) (sv_cache sv) ->
  http_domain uuid_of (sv_data sv) ERoute kvs acc egr ->
  fst (http_serve uuid_of sv 0 ERoute kvs acc egr) = HttpR 200 (HNoRouting rt q) ->
  let d := sv_data sv in
  exists c alt p s,
    parse uuid_of d ERoute kvs = POk (c, alt) /\ params_of_common c = Some p /\
    find_scenario d (q_scenario p) = Some s /\ documented_params (resolve uuid_of d) kvs p /\
    q = echo_of_params p /\
    rt = route_reason_text (ReasonIff.expected_reason d s p acc egr) /\
    (pos_hops_b d = true -> q_fwd p = true -> q_maxfw p <= 0 -> forall rides t, ~ admissible_fwd d s p acc egr rides t) /\
    (pos_hops_b d = true -> q_fwd p = false -> forall dep0 rides, ~ admissible_rev d s p acc egr dep0 rides) /\
    fst (http_serve uuid_of sv 0 ESummary kvs acc egr) = HttpR 200 (HSummary 0 [] q).
Proof.
  intros sv kvs acc egr rt q Hwf Hc Hdom H. cbv zeta.
  pose proof (proj1 (proj2 (http_summary_of_route sv kvs acc egr)) rt q H) as Hsum.
  destruct (parse uuid_of (sv_data sv) ERoute kvs) as [[c alt]|e|] eqn:EP.
  2:{ rewrite (http_serve_perr uuid_of sv ERoute kvs acc egr e EP) in H. discriminate H. }
  2:{ rewrite (http_serve_pexn uuid_of sv ERoute kvs acc egr EP) in H. discriminate H. }
  destruct (http_in_domain uuid_of (sv_data sv) ERoute kvs acc egr c alt Hwf Hdom EP) as (sid & s & ES & Hs & _ & Hp & HD).
  rewrite (http_serve_parsed uuid_of sv ERoute kvs acc egr c alt sid Hc EP ES) in H. cbn [is_summary] in H.
  pose proof (parse_documented (sv_data sv) ERoute kvs c alt sid EP ES) as Hdoc.
  set (p := params_with sid c) in *.
  pose proof (direct_route_correct (sv_data sv) s p acc egr HD) as Hplain.
  assert (Hreason : exists reason, fresh_answer (sv_data sv) (QRoute p false acc egr) = ARoute (NoRouting reason) /\
                                   rt = route_reason_text reason /\ q = echo_of_params p).
  { destruct (fresh_route_shape (sv_data sv) s p alt acc egr HD)
      as [[-> [(r & used & E)|(reason & E)]]|[-> [(r & tl & total' & E)|(reason & E)]]];
      rewrite E in H; cbn [render render_outcome fst snd] in H; try discriminate H.
    - inversion H; subst rt q. exists reason. split; [exact E|]. split; reflexivity.
    - inversion H; subst rt q. exists reason.
      pose proof (direct_alt_correct (sv_data sv) s p acc egr HD) as Halt. rewrite E in Halt.
      cbn [alt_response_correct] in Halt. split; [exact Halt|]. split; reflexivity. }
  destruct Hreason as (reason & E & -> & ->). rewrite E in Hplain.
  destruct (rrc_noroute _ _ _ _ _ _ Hplain reason eq_refl) as (R1 & R2 & R3).
  exists c, alt, p, s. split; [reflexivity|]. split; [exact Hp|]. split; [exact Hs|]. split; [exact Hdoc|].
  split; [reflexivity|]. split; [rewrite R1; reflexivity|]. split; [exact R2|]. split; [exact R3|exact Hsum].
Qed.

End Properties.

(* ============================================================================================== *)
(* 5. (c) history independence at the level of the HTTP exchange                                    *)

Section History.
Variable uuid_of : str -> option nat.

(* the response as a function of the data in force and the request alone: no server state *)
Definition http_fresh (d : data) (status : nat) (ep : endpoint) (kvs : list (key * str)) (acc egr : list fprow)
  : http_response :=
  if negb (Nat.eqb status 0) then HttpR 200 (HDataError status)
  else let r := request_of uuid_of d ep kvs acc egr in
       render d (is_summary ep) (echo_of_request r) (fresh_answer d r).

Definition http_fresh_req (d : data) (r : http_request) : http_response :=
  http_fresh d (hr_status r) (hr_ep r) (hr_kvs r) (hr_acc r) (hr_egr r).

Lemma http_serve_fresh : forall sv status ep kvs acc egr, cache_inv (sv_data sv) (sv_cache sv) ->
  fst (http_serve uuid_of sv status ep kvs acc egr) = http_fresh (sv_data sv) status ep kvs acc egr /\
  sv_data (snd (http_serve uuid_of sv status ep kvs acc egr)) = sv_data sv /\
  cache_inv (sv_data sv) (sv_cache (snd (http_serve uuid_of sv status ep kvs acc egr))).
Proof.
  intros sv status ep kvs acc egr Hc. unfold http_serve, http_fresh.
  destruct (negb (Nat.eqb status 0)).
  - cbn [fst snd]. auto.
  - cbv zeta.
    destruct (serve_fresh sv (request_of uuid_of (sv_data sv) ep kvs acc egr) Hc) as (H1 & H2 & H3).
    destruct (serve sv (request_of uuid_of (sv_data sv) ep kvs acc egr)) as [a sv1]. cbn [fst snd] in *.
    rewrite H1. auto.
Qed.

Lemma http_run_fresh : forall h sv, cache_inv (sv_data sv) (sv_cache sv) ->
  fst (http_run uuid_of sv h) = map (http_fresh_req (sv_data sv)) h /\
  sv_data (snd (http_run uuid_of sv h)) = sv_data sv /\
  cache_inv (sv_data sv) (sv_cache (snd (http_run uuid_of sv h))).
Proof.
  induction h as [|r h IH]; intros sv Hc.
  - cbn [http_run map fst snd]. auto.
  - cbn [http_run map]. unfold http_step.
    destruct (http_serve_fresh sv (hr_status r) (hr_ep r) (hr_kvs r) (hr_acc r) (hr_egr r) Hc) as (H1 & H2 & H3).
    destruct (http_serve uuid_of sv (hr_status r) (hr_ep r) (hr_kvs r) (hr_acc r) (hr_egr r)) as [a sv1].
    cbn [fst snd] in H1, H2, H3. rewrite <- H2 in H3. destruct (IH sv1 H3) as (I1 & I2 & I3).
    destruct (http_run uuid_of sv1 h) as [l sv2]. cbn [fst snd] in *.
    rewrite H2 in I1, I2, I3. subst a l. auto.
Qed.

(* C13 at the HTTP level: every response in a history of HTTP requests is the response a freshly started server
   gives to that request alone, in either cache mode *)
Theorem http_every_position : forall all d h,
  fst (http_run uuid_of (start all d) h) = map (http_fresh_req d) h.
Proof. intros all d h. exact (proj1 (http_run_fresh h (start all d) (start_inv all d))). Qed.

Theorem http_fresh_is_first : forall all d r, fst (http_step uuid_of (start all d) r) = http_fresh_req d r.
Proof.
  intros all d r. unfold http_step.
  exact (proj1 (http_serve_fresh (start all d) _ _ _ _ _ (start_inv all d))).
Qed.

(* the response to a request does not depend on the HTTP requests served before it *)
Theorem http_history_independent : forall all d h r dflt,
  last (fst (http_run uuid_of (start all d) (h ++ [r]))) dflt = fst (http_step uuid_of (start all d) r).
Proof.
  intros all d h r dflt. rewrite http_every_position, map_app, http_fresh_is_first. cbn [map]. apply last_last.
Qed.

Corollary http_histories_agree : forall all all' d h h' r dflt,
  last (fst (http_run uuid_of (start all d) (h ++ [r]))) dflt =
  last (fst (http_run uuid_of (start all' d) (h' ++ [r]))) dflt.
Proof.
  intros all all' d h h' r dflt. rewrite !http_every_position, !map_app. cbn [map]. rewrite !last_last. reflexivity.
Qed.

(* the server after any HTTP history still holds d and satisfies the cache invariant: the theorems of sections
   3 and 4 (stated for a server with the invariant) apply to every request of every history *)
Corollary http_inv_after : forall all d h,
  sv_data (snd (http_run uuid_of (start all d) h)) = d /\
  cache_inv d (sv_cache (snd (http_run uuid_of (start all d) h))).
Proof. intros all d h. destruct (http_run_fresh h (start all d) (start_inv all d)) as (_ & H2 & H3). auto. Qed.

(* e.g. (b) for a /v2/route request after ANY history, and its summary after ANY OTHER history *)
Corollary http_route_success_any_history : forall all d h h' kvs acc egr rs total q dflt,
  wf_data_b d = true -> http_domain uuid_of d ERoute kvs acc egr ->
  last (fst (http_run uuid_of (start all d)
               (h ++ [{| hr_status := 0; hr_ep := ERoute; hr_kvs := kvs; hr_acc := acc; hr_egr := egr |}]))) dflt
    = HttpR 200 (HRoute rs total q) ->
  (exists c alt p s, parse uuid_of d ERoute kvs = POk (c, alt) /\ params_of_common c = Some p /\
     find_scenario d (q_scenario p) = Some s /\ q = echo_of_params p /\ rs <> [] /\
     (forall r, In r rs -> valid_itinerary_b d s p acc egr r = true /\ limits_ok_b d s p r = true /\
                           totals_ok_b d p r = true) /\
     first_route_optimal d s p acc egr (hd (emit d p 0 []) rs)) /\
  last (fst (http_run uuid_of (start all d)
               (h' ++ [{| hr_status := 0; hr_ep := ESummary; hr_kvs := kvs; hr_acc := acc; hr_egr := egr |}]))) dflt
    = HttpR 200 (HSummary (Z.of_nat (length rs)) (summary_lines d rs) q).
Proof.
  intros all d h h' kvs acc egr rs total q dflt Hwf Hdom H.
  rewrite http_history_independent in H. rewrite http_history_independent. unfold http_step in *.
  cbn [hr_status hr_ep hr_kvs hr_acc hr_egr] in *.
  destruct (http_route_success uuid_of (start all d) kvs acc egr rs total q Hwf (start_inv all d) Hdom H)
    as (c & alt & p & s & r1 & tl & EP & Hp & Hs & _ & _ & Eq & Ers & Hall & _ & _ & Hopt & _ & Hsum).
  cbn [start sv_data] in *. split; [|exact Hsum].
  exists c, alt, p, s. split; [exact EP|]. split; [exact Hp|]. split; [exact Hs|]. split; [exact Eq|].
  split; [rewrite Ers; discriminate|]. split; [exact Hall|]. rewrite Ers. exact Hopt.
Qed.

End History.

(* ============================================================================================== *)
(* 6. (d) time shift at the level of the HTTP exchange (closes the open part of C12)                 *)

(* ---- 6.1 the decimal rendering of a non-negative int, and std::stoi of it ---- *)
Definition digit_char (m : Z) : nat := (48 + Z.to_nat m)%nat.

Fixpoint dec_aux (fuel : nat) (n : Z) (acc : str) : str :=
  match fuel with
  | O => acc
  | S f => let acc' := digit_char (n mod 10) :: acc in
           if n <? 10 then acc' else dec_aux f (n / 10) acc'
  end.

(* ten digits are enough for an int *)
Definition dec (n : Z) : str := dec_aux 10 n [].

Lemma digit_char_is_digit : forall m, 0 <= m < 10 -> is_digit (digit_char m) = true.
Proof.
  intros m Hm. unfold is_digit, digit_char.
  assert (H : (Z.to_nat m < 10)%nat) by lia.
  apply andb_true_intro. split; apply Nat.leb_le; lia.
Qed.

Lemma digit_char_val : forall m, 0 <= m < 10 -> digit_val (digit_char m) = m.
Proof. intros m Hm. unfold digit_val, digit_char. lia. Qed.

Lemma dval_snoc : forall ds x a, dval (ds ++ [x]) a = dval ds a * 10 + digit_val x.
Proof. intros ds x a. unfold dval. rewrite fold_left_app. reflexivity. Qed.

Lemma dec_aux_spec : forall f n acc, 0 <= n < 10 ^ Z.of_nat (S f) ->
  exists ds, dec_aux (S f) n acc = ds ++ acc /\ ds <> [] /\ forallb is_digit ds = true /\ dval ds 0 = n.
Proof.
  induction f as [|f IH]; intros n acc Hn.
  - change (10 ^ Z.of_nat 1) with 10 in Hn. cbn [dec_aux].
    assert (E : (n <? 10) = true) by (apply Z.ltb_lt; lia). rewrite E.
    assert (Em : n mod 10 = n) by (apply Z.mod_small; lia). rewrite Em.
    exists [digit_char n]. split; [reflexivity|]. split; [discriminate|]. split.
    + cbn [forallb]. rewrite (digit_char_is_digit n) by lia. reflexivity.
    + unfold dval. cbn [fold_left]. rewrite digit_char_val by lia. lia.
  - assert (Hm : 0 <= n mod 10 < 10) by (apply Z.mod_pos_bound; lia).
    change (dec_aux (S (S f)) n acc)
      with (if n <? 10 then digit_char (n mod 10) :: acc else dec_aux (S f) (n / 10) (digit_char (n mod 10) :: acc)).
    destruct (n <? 10) eqn:E.
    + apply Z.ltb_lt in E.
      assert (Em : n mod 10 = n) by (apply Z.mod_small; lia). rewrite Em.
      exists [digit_char n]. split; [reflexivity|]. split; [discriminate|]. split.
      * cbn [forallb]. rewrite (digit_char_is_digit n) by lia. reflexivity.
      * unfold dval. cbn [fold_left]. rewrite digit_char_val by lia. lia.
    + apply Z.ltb_ge in E.
      assert (Hq : 0 <= n / 10 < 10 ^ Z.of_nat (S f)).
      { split; [apply Z.div_pos; lia|]. apply Z.div_lt_upper_bound; [lia|].
        rewrite (Nat2Z.inj_succ (S f)), Z.pow_succ_r in Hn by lia. lia. }
      destruct (IH (n / 10) (digit_char (n mod 10) :: acc) Hq) as (ds & E1 & E2 & E3 & E4).
      exists (ds ++ [digit_char (n mod 10)]). split; [|split; [|split]].
      * rewrite E1, <- app_assoc. reflexivity.
      * intro H. apply app_eq_nil in H. destruct H as [_ H]. discriminate H.
      * rewrite forallb_app, E3. cbn [forallb]. rewrite (digit_char_is_digit _ Hm). reflexivity.
      * rewrite dval_snoc, E4, (digit_char_val _ Hm). pose proof (Z.div_mod n 10). lia.
Qed.

Theorem stoi_dec : forall n, 0 <= n <= MAX_INT -> stoi (dec n) = Some n.
Proof.
  intros n Hn. unfold dec.
  destruct (dec_aux_spec 9 n []) as (ds & E1 & E2 & E3 & E4).
  { change (10 ^ Z.of_nat 10) with 10000000000. unfold MAX_INT in Hn. lia. }
  rewrite E1, app_nil_r.
  destruct (C18_stoi_digits ds E2 E3) as (H & _). rewrite E4 in H. exact (H (proj2 Hn)).
Qed.

Example dec_examples : dec 0 = [48%nat] /\ dec 36000 = [51; 54; 48; 48; 48]%nat /\
                       dec 2147483647 = [50;49;52;55;52;56;51;54;52;55]%nat.
Proof. vm_compute. repeat split. Qed.

(* ---- 6.2 shifting time_of_trip in the key/value list ---- *)
(* every time_of_trip value is replaced by the decimal string of its number + dl *)
Definition shift_kv (dl : Z) (kv : key * str) : key * str :=
  match fst kv with
  | KTime => match stoi (snd kv) with Some x => (KTime, dec (x + dl)) | None => kv end
  | _ => kv
  end.
Definition shift_kvs (dl : Z) (kvs : list (key * str)) : list (key * str) := map (shift_kv dl) kvs.

(* the time_of_trip values are times (not negative) and stay ints that are times after the shift *)
Definition time_values_ok (dl : Z) (kvs : list (key * str)) : Prop :=
  forall v x, In (KTime, v) kvs -> stoi v = Some x -> 0 <= x /\ 0 <= x + dl <= MAX_INT.

Definition shift_common (dl : Z) (c : common) : common :=
  {| cm_time := cm_time c + dl; cm_minw := cm_minw c; cm_maxtt := cm_maxtt c; cm_maxacc := cm_maxacc c;
     cm_maxegr := cm_maxegr c; cm_maxtr := cm_maxtr c; cm_maxfw := cm_maxfw c; cm_fwd := cm_fwd c;
     cm_scen := cm_scen c |}.

(* the two runs of the parameter loop: no time yet on both sides, or a time on both sides, dl apart *)
Definition crel (dl : Z) (c c' : common) : Prop :=
  (cm_time c = -1 /\ c' = c) \/ (0 <= cm_time c /\ 0 <= cm_time c + dl /\ c' = shift_common dl c).

Lemma shift_kv_other : forall dl k v, k <> KTime -> shift_kv dl (k, v) = (k, v).
Proof. intros dl k v H. unfold shift_kv. cbn [fst snd]. destruct k; try reflexivity. contradiction. Qed.

Lemma cstep_other_crel : forall rs dl k v c c', k <> KTime -> crel dl c c' ->
  match ParamsProofs.cstep rs k v c with
  | POk c1 => exists c1', ParamsProofs.cstep rs k v c' = POk c1' /\ crel dl c1 c1'
  | PErr e => ParamsProofs.cstep rs k v c' = PErr e
  | PExn => ParamsProofs.cstep rs k v c' = PExn
  end.
Proof.
  intros rs dl k v c c' Hk [[Ht ->]|(H0 & H1 & ->)].
  - destruct (ParamsProofs.cstep rs k v c) as [c1| |] eqn:E; try reflexivity.
    exists c1. split; [reflexivity|]. left. split; [|reflexivity].
    change (cm_time c1) with (field_of KTime c1). rewrite (cstep_field_other rs k v c c1 KTime E); [exact Ht|].
    intro H. apply Hk. symmetry. exact H.
  - unfold ParamsProofs.cstep.
    destruct k; try contradiction; cbn [is_numeric_key].
    all: try (eexists; split; [reflexivity|]; right; repeat split; assumption).
    all: try (destruct (stoi v) as [x|]; [|reflexivity]; eexists; split; [reflexivity|]; right;
              cbn [set_field cm_time shift_common]; repeat split; assumption).
    + destruct (list_eqb v [49%nat]); eexists; (split; [reflexivity|]); right; repeat split; assumption.
    + destruct (rs v) as [[sid|]|]; try reflexivity; eexists; (split; [reflexivity|]); right; repeat split; assumption.
Qed.

Lemma cstep_time_crel : forall rs dl v c c', crel dl c c' ->
  (forall x, stoi v = Some x -> 0 <= x /\ 0 <= x + dl <= MAX_INT) ->
  match ParamsProofs.cstep rs KTime v c with
  | POk c1 => exists c1', ParamsProofs.cstep rs (fst (shift_kv dl (KTime, v))) (snd (shift_kv dl (KTime, v))) c' = POk c1' /\
                          crel dl c1 c1'
  | PErr e => ParamsProofs.cstep rs (fst (shift_kv dl (KTime, v))) (snd (shift_kv dl (KTime, v))) c' = PErr e
  | PExn => False
  end.
Proof.
  intros rs dl v c c' Hrel Hv. unfold shift_kv. cbn [fst snd]. unfold ParamsProofs.cstep. cbn [is_numeric_key].
  destruct (stoi v) as [x|] eqn:Ex; cbn [fst snd].
  - destruct (Hv x eq_refl) as (X0 & X1 & X2). rewrite (stoi_dec (x + dl)) by lia.
    eexists. split; [reflexivity|]. right. cbn [set_field cm_time].
    assert (E1 : (x <? 0) = false) by (apply Z.ltb_ge; lia).
    assert (E2 : (x + dl <? 0) = false) by (apply Z.ltb_ge; lia).
    rewrite E1, E2. split; [exact X0|]. split; [exact X1|].
    destruct Hrel as [[_ ->]|(_ & _ & ->)]; reflexivity.
  - rewrite Ex. reflexivity.
Qed.

Lemma common_loop_shift : forall rs dl kvs c c', time_values_ok dl kvs -> crel dl c c' ->
  match common_loop rs kvs c with
  | POk c1 => exists c1', common_loop rs (shift_kvs dl kvs) c' = POk c1' /\ crel dl c1 c1'
  | PErr e => common_loop rs (shift_kvs dl kvs) c' = PErr e
  | PExn => common_loop rs (shift_kvs dl kvs) c' = PExn
  end.
Proof.
  intros rs dl. induction kvs as [|[k v] r IH]; intros c c' Hok Hrel.
  - cbn [common_loop shift_kvs map]. exists c'. split; [reflexivity|exact Hrel].
  - assert (Hok' : time_values_ok dl r) by (intros v0 x0 Hin; apply Hok; right; exact Hin).
    cbn [shift_kvs map]. fold (shift_kvs dl r). rewrite common_loop_cons.
    rewrite (surjective_pairing (shift_kv dl (k, v))), common_loop_cons.
    destruct (key_eq_dec k KTime) as [->|Hk].
    + pose proof (cstep_time_crel rs dl v c c' Hrel (fun x Hx => Hok v x (or_introl eq_refl) Hx)) as Hs.
      destruct (ParamsProofs.cstep rs KTime v c) as [c1|e|]; cbn [pbind].
      * destruct Hs as (c1' & E & R). rewrite E. cbn [pbind]. exact (IH c1 c1' Hok' R).
      * rewrite Hs. reflexivity.
      * destruct Hs.
    + rewrite (shift_kv_other dl k v Hk). cbn [fst snd].
      pose proof (cstep_other_crel rs dl k v c c' Hk Hrel) as Hs.
      destruct (ParamsProofs.cstep rs k v c) as [c1|e|]; cbn [pbind].
      * destruct Hs as (c1' & E & R). rewrite E. cbn [pbind]. exact (IH c1 c1' Hok' R).
      * rewrite Hs. reflexivity.
      * rewrite Hs. reflexivity.
Qed.

Definition map_parsed {A B} (f : A -> B) (x : parsed A) : parsed B :=
  match x with POk a => POk (f a) | PErr e => PErr e | PExn => PExn end.

Lemma create_common_shift : forall rs so dl kvs, time_values_ok dl kvs ->
  create_common rs so (shift_kvs dl kvs) = map_parsed (shift_common dl) (create_common rs so kvs).
Proof.
  intros rs so dl kvs Hok. unfold create_common.
  pose proof (common_loop_shift rs dl kvs common_default common_default Hok (or_introl (conj eq_refl eq_refl))) as H.
  destruct (common_loop rs kvs common_default) as [c1|e|].
  - destruct H as (c1' & E & R). rewrite E.
    destruct R as [[Ht ->]|(H0 & H1 & ->)].
    + destruct (cm_scen c1) as [sid|]; [|reflexivity].
      destruct (Nat.eqb (so sid) 0); [reflexivity|].
      rewrite Ht. reflexivity.
    + cbn [shift_common cm_scen cm_time]. destruct (cm_scen c1) as [sid|]; [|reflexivity].
      destruct (Nat.eqb (so sid) 0); [reflexivity|].
      assert (E1 : (cm_time c1 <? 0) = false) by (apply Z.ltb_ge; lia).
      assert (E2 : (cm_time c1 + dl <? 0) = false) by (apply Z.ltb_ge; lia).
      rewrite E1, E2. reflexivity.
  - rewrite H. reflexivity.
  - rewrite H. reflexivity.
Qed.

Lemma route_loop_shift : forall dl kvs o dd a, route_loop (shift_kvs dl kvs) o dd a = route_loop kvs o dd a.
Proof.
  intros dl. induction kvs as [|[k v] r IH]; intros o dd a; [reflexivity|].
  cbn [shift_kvs map]. fold (shift_kvs dl r).
  destruct (key_eq_dec k KTime) as [->|Hk].
  - unfold shift_kv. cbn [fst snd]. destruct (stoi v); cbn [route_loop]; apply IH.
  - rewrite (shift_kv_other dl k v Hk). destruct k; cbn [route_loop]; try apply IH.
    + destruct (point_ok v); [apply IH|reflexivity].
    + destruct (point_ok v); [apply IH|reflexivity].
Qed.

Lemma place_loop_shift : forall dl kvs b, place_loop (shift_kvs dl kvs) b = place_loop kvs b.
Proof.
  intros dl. induction kvs as [|[k v] r IH]; intros b; [reflexivity|].
  cbn [shift_kvs map]. fold (shift_kvs dl r).
  destruct (key_eq_dec k KTime) as [->|Hk].
  - unfold shift_kv. cbn [fst snd]. destruct (stoi v); cbn [place_loop]; apply IH.
  - rewrite (shift_kv_other dl k v Hk). destruct k; cbn [place_loop]; try apply IH.
    destruct (point_ok v); [apply IH|reflexivity].
Qed.

Section ShiftHttp.
Variable uuid_of : str -> option nat.
Variable dl : Z.

Lemma resolve_shift : forall d, resolve uuid_of (Shift.shift_data dl d) = resolve uuid_of d.
Proof. reflexivity. Qed.
Lemma services_shift : forall d, services_of (Shift.shift_data dl d) = services_of d.
Proof. reflexivity. Qed.

(* (d) on the level of the parsed parameters: same outcome of the factory, time_of_trip + dl *)
Theorem parse_shift : forall d ep kvs, time_values_ok dl kvs ->
  parse uuid_of (Shift.shift_data dl d) ep (shift_kvs dl kvs) =
  map_parsed (fun x => (shift_common dl (fst x), snd x)) (parse uuid_of d ep kvs).
Proof.
  intros d ep kvs Hok. unfold parse. rewrite resolve_shift, services_shift.
  destruct ep.
  - unfold create_route. rewrite route_loop_shift, (create_common_shift _ _ dl kvs Hok).
    destruct (route_loop kvs false false false) as [[[o dd] a]|e|]; try reflexivity.
    destruct (negb o); [reflexivity|]. destruct (negb dd); [reflexivity|].
    destruct (create_common (resolve uuid_of d) (services_of d) kvs); reflexivity.
  - unfold create_route. rewrite route_loop_shift, (create_common_shift _ _ dl kvs Hok).
    destruct (route_loop kvs false false false) as [[[o dd] a]|e|]; try reflexivity.
    destruct (negb o); [reflexivity|]. destruct (negb dd); [reflexivity|].
    destruct (create_common (resolve uuid_of d) (services_of d) kvs); reflexivity.
  - unfold create_access. rewrite place_loop_shift, (create_common_shift _ _ dl kvs Hok).
    destruct (place_loop kvs false) as [b|e|]; try reflexivity.
    destruct (negb b); [reflexivity|].
    destruct (create_common (resolve uuid_of d) (services_of d) kvs); reflexivity.
Qed.

End ShiftHttp.

(* ---- 6.3 the shift of an HTTP response: every rendered clock and the echoed timeOfTrip move by dl, everything
   else (codes, statuses, reasons, durations, counts, stops, lines, summary) stays ---- *)
Definition shift_echo (dl : Z) (q : query_echo) : query_echo := {| qe_time := qe_time q + dl; qe_fwd := qe_fwd q |}.
Definition shift_hnode (dl : Z) (n : hnode) : hnode :=
  {| hn_node := hn_node n; hn_time := hn_time n + dl; hn_ttt := hn_ttt n; hn_ntr := hn_ntr n |}.
Definition shift_body (dl : Z) (b : http_body) : http_body :=
  match b with
  | HRoute rs total q => HRoute (map (Shift.shift_route dl) rs) total (shift_echo dl q)
  | HNoRouting r q => HNoRouting r (shift_echo dl q)
  | HAccess ns total q => HAccess (map (shift_hnode dl) ns) total (shift_echo dl q)
  | HSummary nb lines q => HSummary nb lines (shift_echo dl q)
  | HDataError s => HDataError s
  | HQueryError c => HQueryError c
  | HBad k => HBad k
  end.
Definition shift_response (dl : Z) (r : http_response) : http_response :=
  match r with HttpR code b => HttpR code (shift_body dl b) end.

(* the tables the calculation of the endpoint uses *)
Definition ep_tables (ep : endpoint) (fwd : bool) (acc egr : list fprow) : list fprow * list fprow :=
  match ep with
  | EAccess => (if fwd then acc else [], if fwd then [] else egr)
  | _ => (acc, egr)
  end.

Section ShiftHttp2.
Variable uuid_of : str -> option nat.
Variable dl : Z.

Lemma flat_lines_shift : forall d rs,
  flat_map (route_lines (Shift.shift_data dl d)) (map (Shift.shift_route dl) rs) = flat_map (route_lines d) rs.
Proof.
  intros d. induction rs as [|r rs IH]; [reflexivity|].
  cbn [map flat_map]. rewrite (Shift.route_lines_shift dl d r), IH. reflexivity.
Qed.

Lemma summary_lines_shift : forall d rs,
  summary_lines (Shift.shift_data dl d) (map (Shift.shift_route dl) rs) = summary_lines d rs.
Proof. intros d rs. unfold summary_lines. rewrite flat_lines_shift. reflexivity. Qed.

Lemma render_node_shift : forall fwd a,
  render_node fwd (Shift.shift_accnode dl a) = shift_hnode dl (render_node fwd a).
Proof.
  intros fwd a. unfold render_node, shift_hnode, Shift.shift_accnode.
  cbn [an_node an_time an_ttt an_ntr hn_node hn_time hn_ttt hn_ntr].
  destruct fwd; f_equal; lia.
Qed.

Lemma render_shift_route : forall d summary q o,
  render (Shift.shift_data dl d) summary (shift_echo dl q) (ARoute (Shift.map_outcome (Shift.shift_res dl) o)) =
  shift_response dl (render d summary q (ARoute o)).
Proof.
  intros d summary q o.
  destruct o as [[r used]|reason| | | | | | |]; destruct summary;
    cbn [render render_outcome Shift.map_outcome Shift.shift_res fst snd shift_response shift_body map]; try reflexivity.
  rewrite <- (summary_lines_shift d [r]). reflexivity.
Qed.

Lemma render_shift_alt : forall d summary q o,
  render (Shift.shift_data dl d) summary (shift_echo dl q) (AAlt (Shift.map_outcome (Shift.shift_alt_res dl) o)) =
  shift_response dl (render d summary q (AAlt o)).
Proof.
  intros d summary q o.
  destruct o as [[rs total]|reason| | | | | | |]; destruct summary;
    cbn [render render_outcome Shift.map_outcome Shift.shift_alt_res fst snd shift_response shift_body]; try reflexivity.
  rewrite (summary_lines_shift d rs), map_length. reflexivity.
Qed.

Lemma render_shift_access : forall d q o,
  render (Shift.shift_data dl d) false (shift_echo dl q) (AAccess (Shift.map_outcome (Shift.shift_acc_res dl) o)) =
  shift_response dl (render d false q (AAccess o)).
Proof.
  intros d q o.
  destruct o as [[l total]|reason| | | | | | |];
    cbn [render render_outcome Shift.map_outcome Shift.shift_acc_res fst snd shift_response shift_body]; try reflexivity.
  rewrite !map_map. cbn [shift_echo qe_fwd].
  f_equal. f_equal. apply map_ext. intros a. apply render_node_shift.
Qed.

(* (d) MAIN THEOREM.  Two servers, one on data d and one on the data with every scheduled time moved by dl; the
   same request with every time_of_trip value T replaced by the decimal string of T + dl.  Under the hypotheses
   of Shift.shift_calc_single / shift_alternatives / shift_calc_allnodes for the PARSED parameters (all clock
   values stay in [0, 32 h); for arrival-time /v2/route and /v2/summary requests the proviso shift_safe), the
   second response is the first with every clock — route departure / arrival, step times, nodeTime — and the
   echoed timeOfTrip moved by dl and nothing else changed.  This includes the error answers (same code). *)
Theorem http_time_shift : forall sv sv' status ep kvs acc egr,
  cache_inv (sv_data sv) (sv_cache sv) -> cache_inv (sv_data sv') (sv_cache sv') ->
  sv_data sv' = Shift.shift_data dl (sv_data sv) ->
  time_values_ok dl kvs ->
  (forall c alt sid s, parse uuid_of (sv_data sv) ep kvs = POk (c, alt) -> cm_scen c = Some sid ->
     find_scenario (sv_data sv) sid = Some s ->
     let p := params_with sid c in
     Shift.shift_dom (sv_data sv) s p (fst (ep_tables ep (q_fwd p) acc egr)) (snd (ep_tables ep (q_fwd p) acc egr)) dl = true /\
     (ep <> EAccess -> Shift.shift_safe (sv_data sv) s p acc dl = true)) ->
  fst (http_serve uuid_of sv' status ep (shift_kvs dl kvs) acc egr) =
  shift_response dl (fst (http_serve uuid_of sv status ep kvs acc egr)).
Proof.
  intros sv sv' status ep kvs acc egr Hc Hc' Hd Hok Hyp.
  rewrite (proj1 (http_serve_fresh uuid_of sv' status ep (shift_kvs dl kvs) acc egr Hc')).
  rewrite (proj1 (http_serve_fresh uuid_of sv status ep kvs acc egr Hc)).
  rewrite Hd. set (d := sv_data sv) in *. unfold http_fresh.
  destruct (negb (Nat.eqb status 0)); [reflexivity|]. cbv zeta.
  unfold request_of. rewrite (parse_shift uuid_of dl d ep kvs Hok).
  destruct (parse uuid_of d ep kvs) as [[c alt]|e|] eqn:EP; cbn [map_parsed fst snd]; [|reflexivity|reflexivity].
  destruct (parse_ok_params uuid_of d ep kvs c alt EP) as (sid & s & ES & Hs & _ & Hp & _).
  destruct (Hyp c alt sid s eq_refl ES Hs) as [Hdom Hsafe]. cbv zeta in Hdom.
  unfold request_of_common. rewrite Hp.
  rewrite (params_of_common_some (shift_common dl c) sid ES).
  change (params_with sid (shift_common dl c)) with (Shift.shift_params dl (params_with sid c)).
  set (p := params_with sid c) in *.
  change (echo_of_request (QRoute (Shift.shift_params dl p) alt acc egr)) with (shift_echo dl (echo_of_params p)).
  change (echo_of_request (QAccess (Shift.shift_params dl p) (if q_fwd (Shift.shift_params dl p) then acc else egr)))
    with (shift_echo dl (echo_of_params p)).
  assert (Hs' : find_scenario (Shift.shift_data dl d) (q_scenario (Shift.shift_params dl p)) = Some s) by exact Hs.
  assert (Hsp : find_scenario d (q_scenario p) = Some s) by exact Hs.
  destruct ep; cbn [is_summary echo_of_request ep_tables fst snd] in *.
  - specialize (Hsafe ltac:(discriminate)). destruct alt.
    + rewrite (fresh_alt_is _ s _ acc egr Hs'), (fresh_alt_is d s p acc egr Hsp). unfold answer_alt.
      rewrite (Shift.shift_alternatives dl d s p acc egr Hdom Hsafe).
      exact (render_shift_alt d _ (echo_of_params p) _).
    + rewrite (fresh_route_is _ s _ acc egr Hs'), (fresh_route_is d s p acc egr Hsp). unfold answer_route.
      rewrite (Shift.shift_calc_single dl d s p acc egr true Hdom Hsafe).
      exact (render_shift_route d _ (echo_of_params p) _).
  - specialize (Hsafe ltac:(discriminate)). destruct alt.
    + rewrite (fresh_alt_is _ s _ acc egr Hs'), (fresh_alt_is d s p acc egr Hsp). unfold answer_alt.
      rewrite (Shift.shift_alternatives dl d s p acc egr Hdom Hsafe).
      exact (render_shift_alt d _ (echo_of_params p) _).
    + rewrite (fresh_route_is _ s _ acc egr Hs'), (fresh_route_is d s p acc egr Hsp). unfold answer_route.
      rewrite (Shift.shift_calc_single dl d s p acc egr true Hdom Hsafe).
      exact (render_shift_route d _ (echo_of_params p) _).
  - change (q_fwd (Shift.shift_params dl p)) with (q_fwd p).
    rewrite (fresh_access_is _ s _ _ Hs'), (fresh_access_is d s p _ Hsp). unfold access_answer.
    assert (Hdom' : Shift.shift_dom d s p (if q_fwd p then (if q_fwd p then acc else egr) else [])
                                          (if q_fwd p then [] else (if q_fwd p then acc else egr)) dl = true)
      by (destruct (q_fwd p); exact Hdom).
    rewrite (Shift.shift_calc_allnodes dl d s p _ Hdom'). exact (render_shift_access d (echo_of_params p) _).
Qed.

End ShiftHttp2.

(* ---- 6.4 the same in the vocabulary of Spec.v: well-formed data before and after the shift, the HTTP domain,
   the requested time a clock time of the service day before and after the shift ---- *)
Section ShiftWf.
Variable uuid_of : str -> option nat.
Variable dl : Z.

Lemma params_ok_wf_shift : forall so c sid, params_ok so c -> 0 <= cm_time c + dl < CLOCK_MAX ->
  wf_params_b (Shift.shift_params dl (params_with sid c)) = true.
Proof.
  intros so c sid (P1 & P2 & P3 & P4 & P5 & P6 & [P7 _] & _) Ht.
  unfold wf_params_b, params_with, Shift.shift_params. cbn [q_time q_minw q_maxtt q_maxtr q_maxacc q_maxegr q_maxfw].
  repeat (apply andb_true_intro; split); try (apply Z.leb_le; lia); try (apply Z.ltb_lt; lia).
  apply orb_true_iff. destruct P7 as [E|E]; [left; apply Z.eqb_eq; exact E|right; apply Z.ltb_lt; exact E].
Qed.

Corollary http_time_shift_wf : forall sv sv' status ep kvs acc egr,
  cache_inv (sv_data sv) (sv_cache sv) -> cache_inv (sv_data sv') (sv_cache sv') ->
  sv_data sv' = Shift.shift_data dl (sv_data sv) ->
  wf_data_b (sv_data sv) = true -> wf_data_b (Shift.shift_data dl (sv_data sv)) = true ->
  http_domain uuid_of (sv_data sv) ep kvs acc egr ->
  time_values_ok dl kvs ->
  (forall c alt, parse uuid_of (sv_data sv) ep kvs = POk (c, alt) -> 0 <= cm_time c + dl < CLOCK_MAX) ->
  (* the proviso of Shift.v, needed for arrival-time /v2/route and /v2/summary requests only *)
  (forall c alt sid s, parse uuid_of (sv_data sv) ep kvs = POk (c, alt) -> cm_scen c = Some sid ->
     find_scenario (sv_data sv) sid = Some s -> ep <> EAccess -> cm_fwd c = false ->
     Shift.shift_safe (sv_data sv) s (params_with sid c) acc dl = true) ->
  fst (http_serve uuid_of sv' status ep (shift_kvs dl kvs) acc egr) =
  shift_response dl (fst (http_serve uuid_of sv status ep kvs acc egr)).
Proof.
  intros sv sv' status ep kvs acc egr Hc Hc' Hd Hwf Hwf' Hdom Hok Htime Hsafe.
  apply (http_time_shift uuid_of dl sv sv' status ep kvs acc egr Hc Hc' Hd Hok).
  intros c alt sid s EP ES Hs. cbv zeta.
  destruct (parse_ok_params uuid_of _ _ _ _ _ EP) as (sid' & s' & ES' & _ & _ & Hp & Pok & _).
  rewrite ES in ES'. injection ES' as <-.
  destruct (Hdom c alt _ EP Hp) as [Ht Htab].
  pose proof (params_ok_wf _ c sid Pok Ht) as Hpar.
  pose proof (params_ok_wf_shift _ c sid Pok (Htime c alt EP)) as Hpar'.
  destruct (wf_tables_split _ _ _ _ Htab) as [Ta Te].
  split.
  - apply Shift.wf_shift_dom; try assumption.
    destruct ep; cbn [ep_tables fst snd]; try exact Htab.
    cbn [params_with q_fwd]. destruct (cm_fwd c); assumption.
  - intros Hep. destruct (cm_fwd c) eqn:Hf.
    + apply Shift.shift_safe_fwd. exact Hf.
    + exact (Hsafe c alt sid s EP ES Hs Hep Hf).
Qed.

End ShiftWf.

(* ============================================================================================== *)
(* 6.5 the server started on cache files                                                            *)

(* EndToEnd: a server started on the cache files of a well-formed encodable dataset d holds `canon d`, which is
   well-formed.  After ANY history of HTTP requests it still holds it and satisfies the cache invariant: every
   theorem of sections 1-6 (stated for a server `sv` with  wf_data_b (sv_data sv)  and  cache_inv) applies to
   every request of every history of that server, with sv_data sv = canon d. *)
Theorem http_loaded_server_ok : forall uuid_of all d h,
  wf_data_b d = true -> Loader2Proofs.encodable_b d = true ->
  let sv := snd (http_run uuid_of (start all (loaded d)) h) in
  sv_data sv = Loader2.canon d /\ wf_data_b (sv_data sv) = true /\ cache_inv (sv_data sv) (sv_cache sv).
Proof.
  intros uuid_of all d h Hwf Hen. cbv zeta.
  destruct (http_inv_after uuid_of all (loaded d) h) as [H1 H2]. rewrite H1.
  split; [exact (loaded_is_canon d Hwf Hen)|]. split; [exact (loaded_wf d Hwf Hen)|exact H2].
Qed.

(* ... and (b) for that server, stated against d ITSELF (its trips, footpaths and declarative journeys), not
   against the loader's re-laid-out copy: files -> start-up -> any HTTP history -> /v2/route -> /v2/summary *)
Lemma canon_first_route_optimal : forall d s p acc egr r1, wf_data_b d = true ->
  first_route_optimal (Loader2.canon d) s p acc egr r1 -> first_route_optimal d s p acc egr r1.
Proof.
  intros d s p acc egr r1 Hwf [Hf Hr]. split.
  - intros Hpos Hfw Hmf. rewrite <- (canon_pos_hops d) in Hpos.
    destruct (Hf Hpos Hfw Hmf) as ([rides A1] & A2 & A3 & (rides' & arr & J & Le) & A5).
    split; [exists rides; apply (canon_admissible_fwd d s p acc egr rides _ Hwf); exact A1|].
    split; [intros rd t Ha; apply (A2 rd t); apply (canon_admissible_fwd d s p acc egr rd t Hwf); exact Ha|].
    split; [exact A3|]. split.
    + exists rides', arr. split; [apply (canon_journey d s p acc egr _ rides' arr Hwf); exact J|exact Le].
    + intros dep0 rd arr' J' L1 L2. apply (A5 dep0 rd arr'); try assumption.
      apply (canon_journey d s p acc egr dep0 rd arr' Hwf). exact J'.
  - intros Hpos Hfw. rewrite <- (canon_pos_hops d) in Hpos.
    destruct (Hr Hpos Hfw) as ([rides A1] & A2).
    split; [exists rides; apply (canon_admissible_rev d s p acc egr _ rides Hwf); exact A1|].
    intros dep0 rd Ha. apply (A2 dep0 rd). apply (canon_admissible_rev d s p acc egr dep0 rd Hwf). exact Ha.
Qed.

Theorem http_route_success_loaded : forall uuid_of all d h kvs acc egr rs total q,
  wf_data_b d = true -> Loader2Proofs.encodable_b d = true ->
  http_domain uuid_of d ERoute kvs acc egr ->
  let sv := snd (http_run uuid_of (start all (loaded d)) h) in
  fst (http_serve uuid_of sv 0 ERoute kvs acc egr) = HttpR 200 (HRoute rs total q) ->
  exists c alt p s r1 tl,
    parse uuid_of d ERoute kvs = POk (c, alt) /\ params_of_common c = Some p /\
    find_scenario d (q_scenario p) = Some s /\ documented_params (resolve uuid_of d) kvs p /\
    q = echo_of_params p /\ rs = r1 :: tl /\
    (forall r, In r rs -> valid_itinerary_b d s p acc egr r = true /\ limits_ok_b d s p r = true /\
                          totals_ok_b d p r = true) /\
    first_route_optimal d s p acc egr r1 /\
    fst (http_serve uuid_of sv 0 ESummary kvs acc egr)
      = HttpR 200 (HSummary (Z.of_nat (length rs)) (summary_lines d rs) q).
Proof.
  intros uuid_of all d h kvs acc egr rs total q Hwf Hen Hdom. cbv zeta.
  destruct (http_loaded_server_ok uuid_of all d h Hwf Hen) as (E & Hwf' & Hc).
  set (sv := snd (http_run uuid_of (start all (loaded d)) h)) in *.
  intros H.
  assert (Hdom' : http_domain uuid_of (sv_data sv) ERoute kvs acc egr).
  { rewrite E. intros c alt p EP Hp.
    change (parse uuid_of (Loader2.canon d) ERoute kvs) with (parse uuid_of d ERoute kvs) in EP.
    destruct (Hdom c alt p EP Hp) as [Ht Htab]. split; [exact Ht|]. rewrite canon_wf_tables. exact Htab. }
  destruct (http_route_success uuid_of sv kvs acc egr rs total q Hwf' Hc Hdom' H)
    as (c & alt & p & s & r1 & tl & EP & Hp & Hs & Hdoc & _ & Eq & Ers & Hall & _ & _ & Hopt & _ & Hsum).
  rewrite E in EP, Hs, Hdoc, Hall, Hopt, Hsum.
  exists c, alt, p, s, r1, tl.
  split; [exact EP|]. split; [exact Hp|]. split; [exact Hs|]. split; [exact Hdoc|]. split; [exact Eq|].
  split; [exact Ers|]. split; [|split].
  - intros r Hr. destruct (Hall r Hr) as (V & L & T).
    rewrite (canon_valid_itinerary d s p acc egr r Hwf) in V. rewrite (canon_limits d s p r) in L.
    rewrite (canon_totals d p r) in T. auto.
  - exact (canon_first_route_optimal d s p acc egr r1 Hwf Hopt).
  - exact Hsum.
Qed.

(* ============================================================================================== *)
(* 7. non-vacuity on Examples.ex_data                                                               *)

(* a toy uuid parser: one digit names the scenario with that id, anything else makes the parser throw *)
Definition ex_uuid (v : str) : option nat :=
  match v with [c] => if is_digit c then Some (c - 48)%nat else None | _ => None end.

(* origin=1,2  destination=3,4  scenario_id=1  min_waiting_time=60  max_first_waiting_time=0 *)
Definition kv_base : list (key * str) :=
  [(KOrigin, [49; 44; 50]%nat); (KDestination, [51; 44; 52]%nat); (KScenario, [49]%nat);
   (KMinWait, [54; 48]%nat); (KMaxFW, [48]%nat)].
(* ... time_of_trip=<t> *)
Definition kv_t (t : Z) : list (key * str) := kv_base ++ [(KTime, dec t)].
Definition kv_alt : list (key * str) :=
  (KAlternatives, [116; 114; 117; 101]%nat) :: (KMaxTT, [55; 50; 48; 48]%nat) :: kv_t 35000.   (* alternatives=true max_travel_time=7200 *)
Definition kv_place (t : Z) : list (key * str) := (KPlace, [49; 44; 50]%nat) :: kv_t t.
Definition ex_egr2 : list fprow := [row 4 50 60; row 3 100 100].
Definition ex_sv : server := start false ex_data.

(* the parsed parameters of kv_t 35000 are Examples.ex_params true 35000: the defaults 1200 / 1200 / 1200 for the
   omitted walking limits, MAX_INT for the omitted max_travel_time, max_first_waiting_time=0 read as "no limit" *)
Example ex_parse :
  parse ex_uuid ex_data ERoute (kv_t 35000) = POk ({| cm_time := 35000; cm_minw := 60; cm_maxtt := MAX_INT;
     cm_maxacc := 1200; cm_maxegr := 1200; cm_maxtr := 1200; cm_maxfw := -1; cm_fwd := true; cm_scen := Some 1%nat |}, false) /\
  request_of ex_uuid ex_data ERoute (kv_t 35000) ex_acc ex_egr = QRoute (ex_params true 35000) false ex_acc ex_egr.
Proof. vm_compute. split; reflexivity. Qed.

(* the hypotheses of the theorems hold for these requests *)
Example ex_http_domain :
  wf_data_b ex_data = true /\ pos_hops_b ex_data = true /\
  http_domain ex_uuid ex_data ERoute (kv_t 35000) ex_acc ex_egr /\
  http_domain ex_uuid ex_data ESummary (kv_t 35000) ex_acc ex_egr /\
  http_domain ex_uuid ex_data ERoute kv_alt ex_acc ex_egr2 /\
  http_domain ex_uuid ex_data EAccess (kv_place 35000) ex_acc ex_egr /\
  http_access_extra ex_uuid ex_data (kv_place 35000).
Proof.
  split; [vm_compute; reflexivity|]. split; [vm_compute; reflexivity|].
  split; [|split; [|split; [|split]]].
  - intros c alt p EP Hp. vm_compute in EP. inversion EP; subst c alt. vm_compute in Hp. inversion Hp; subst p.
    split; vm_compute; reflexivity.
  - intros c alt p EP Hp. vm_compute in EP. inversion EP; subst c alt. vm_compute in Hp. inversion Hp; subst p.
    split; vm_compute; reflexivity.
  - intros c alt p EP Hp. vm_compute in EP. inversion EP; subst c alt. vm_compute in Hp. inversion Hp; subst p.
    split; vm_compute; reflexivity.
  - intros c alt p EP Hp. vm_compute in EP. inversion EP; subst c alt. vm_compute in Hp. inversion Hp; subst p.
    split; vm_compute; reflexivity.
  - split; [vm_compute; reflexivity|].
    intros c alt EP _. vm_compute in EP. inversion EP; subst c alt. vm_compute. discriminate.
Qed.

(* /v2/route: one transfer at stop 2, as Examples.ex_forward_answer; /v2/summary: one route, lines 1 and 2 once each *)
Example ex_route_and_summary :
  match fst (http_serve ex_uuid ex_sv 0 ERoute (kv_t 35000) ex_acc ex_egr) with
  | HttpR 200 (HRoute [r] 1 q) => rt_dep r = 35840 /\ rt_arr r = 36750 /\ rt_nboard r = 2 /\ qe_time q = 35000 /\ qe_time_type q = 0
  | _ => False
  end /\
  fst (http_serve ex_uuid ex_sv 0 ESummary (kv_t 35000) ex_acc ex_egr)
    = HttpR 200 (HSummary 1 [(1%nat, 1); (2%nat, 1)] {| qe_time := 35000; qe_fwd := true |}).
Proof. vm_compute. repeat split; reflexivity. Qed.

(* alternatives: two routes (lines 1+2, line 1 alone), five calculations; the summary counts line 1 twice *)
Example ex_alternatives :
  match fst (http_serve ex_uuid ex_sv 0 ERoute kv_alt ex_acc ex_egr2) with
  | HttpR 200 (HRoute rs total q) =>
      map (fun r => (rt_dep r, rt_arr r, route_lines ex_data r)) rs = [(35840, 36750, [1; 2]%nat); (35840, 37000, [1%nat])] /\
      total = 5 /\ q = {| qe_time := 35000; qe_fwd := true |}
  | _ => False
  end /\
  fst (http_serve ex_uuid ex_sv 0 ESummary kv_alt ex_acc ex_egr2)
    = HttpR 200 (HSummary 2 [(1%nat, 2); (2%nat, 1)] {| qe_time := 35000; qe_fwd := true |}).
Proof. vm_compute. repeat split; reflexivity. Qed.

(* no_routing_found after the last departure; an arrival query; the two accessibility maps *)
Example ex_other_answers :
  fst (http_serve ex_uuid ex_sv 0 ERoute (kv_t 37000) ex_acc ex_egr)
    = HttpR 200 (HNoRouting RT_NO_SERVICE_FROM_ORIGIN {| qe_time := 37000; qe_fwd := true |}) /\
  fst (http_serve ex_uuid ex_sv 0 ESummary (kv_t 37000) ex_acc ex_egr)
    = HttpR 200 (HSummary 0 [] {| qe_time := 37000; qe_fwd := true |}) /\
  fst (http_serve ex_uuid ex_sv 0 ERoute (kv_t 35000) [] ex_egr)
    = HttpR 200 (HNoRouting RT_NO_ACCESS_AT_ORIGIN {| qe_time := 35000; qe_fwd := true |}) /\
  match fst (http_serve ex_uuid ex_sv 0 ERoute ((KTimeType, [49%nat]) :: kv_t 37500) ex_acc ex_egr) with
  | HttpR 200 (HRoute [r] 1 q) => rt_dep r = 35840 /\ rt_arr r = 36950 /\ qe_time q = 37500 /\ qe_time_type q = 1
  | _ => False
  end /\
  match fst (http_serve ex_uuid ex_sv 0 EAccess (kv_place 35000) ex_acc ex_egr) with
  | HttpR 200 (HAccess ns 4 q) => map (fun n => (hn_node n, hn_time n)) ns = [(2%nat, 36300); (3%nat, 36900); (4%nat, 36700)]
  | _ => False
  end /\
  match fst (http_serve ex_uuid ex_sv 0 EAccess ((KTimeType, [49%nat]) :: kv_place 37500) ex_acc ex_egr) with
  | HttpR 200 (HAccess ns 4 q) => map (fun n => (hn_node n, hn_time n)) ns = [(1%nat, 35940); (2%nat, 36540)]
  | _ => False
  end /\
  fst (http_serve ex_uuid ex_sv 0 EAccess (kv_place 35000) [] ex_egr)
    = HttpR 200 (HNoRouting RT_NO_ACCESS_AT_PLACE {| qe_time := 35000; qe_fwd := true |}).
Proof. vm_compute. repeat split; reflexivity. Qed.

(* the error answers: data status, missing origin, a scenario_id the uuid parser rejects, a well-formed unknown
   scenario, a non-numeric time, a negative time, a place on /v2/route's list does not help /v2/accessibility *)
Example ex_errors :
  fst (http_serve ex_uuid ex_sv 3 ERoute (kv_t 35000) ex_acc ex_egr) = HttpR 200 (HDataError 3) /\
  fst (http_serve ex_uuid ex_sv 0 ERoute (tl (kv_t 35000)) ex_acc ex_egr) = HttpR 400 (HQueryError C_MISSING_PARAM_ORIGIN) /\
  fst (http_serve ex_uuid ex_sv 0 ERoute ((KScenario, [120]%nat) :: kv_t 35000) ex_acc ex_egr)
    = HttpR 400 (HQueryError C_PARAM_ERROR_UNKNOWN) /\
  fst (http_serve ex_uuid ex_sv 0 ERoute [(KOrigin, [49; 44; 50]%nat); (KDestination, [51; 44; 52]%nat);
                                          (KScenario, [50]%nat); (KTime, dec 5)] ex_acc ex_egr)
    = HttpR 400 (HQueryError C_MISSING_PARAM_SCENARIO) /\
  fst (http_serve ex_uuid ex_sv 0 ERoute (kv_base ++ [(KTime, [97; 98]%nat)]) ex_acc ex_egr)
    = HttpR 400 (HQueryError C_INVALID_NUMERICAL_DATA) /\
  fst (http_serve ex_uuid ex_sv 0 ERoute (kv_base ++ [(KTime, [45; 53]%nat)]) ex_acc ex_egr)
    = HttpR 400 (HQueryError C_MISSING_PARAM_TIME_OF_TRIP) /\
  fst (http_serve ex_uuid ex_sv 0 EAccess (kv_t 35000) ex_acc ex_egr) = HttpR 400 (HQueryError C_MISSING_PARAM_PLACE).
Proof. vm_compute. repeat split; reflexivity. Qed.

(* history: the same request after errors, other endpoints and a repeat, in both cache modes *)
Definition hreq (status : nat) (ep : endpoint) (kvs : list (key * str)) : http_request :=
  {| hr_status := status; hr_ep := ep; hr_kvs := kvs; hr_acc := ex_acc; hr_egr := ex_egr |}.
Example ex_history :
  let h := [hreq 0 ERoute (tl (kv_t 35000)); hreq 0 EAccess (kv_place 35000); hreq 0 ERoute (kv_t 35000);
            hreq 0 ESummary (kv_t 35000); hreq 0 ERoute (kv_t 37000)] in
  last (fst (http_run ex_uuid (start false ex_data) (h ++ [hreq 0 ERoute (kv_t 35000)]))) (HttpR 0 (HBad BK_Hang))
    = fst (http_step ex_uuid (start false ex_data) (hreq 0 ERoute (kv_t 35000))) /\
  fst (http_run ex_uuid (start true ex_data) h) = fst (http_run ex_uuid (start false ex_data) h).
Proof. vm_compute. split; reflexivity. Qed.

(* time shift by +1 h: the hypotheses of http_time_shift hold, the key/value list carries "38600", and the
   response is the shifted one: departure 39440, arrival 40350, echoed timeOfTrip 38600 *)
Example ex_time_shift :
  shift_kvs 3600 (kv_t 35000) = kv_t 38600 /\
  time_values_ok 3600 (kv_t 35000) /\
  Shift.shift_dom ex_data scen_all (ex_params true 35000) ex_acc ex_egr 3600 = true /\
  Shift.shift_safe ex_data scen_all (ex_params true 35000) ex_acc 3600 = true /\
  fst (http_serve ex_uuid (start false (Shift.shift_data 3600 ex_data)) 0 ERoute (shift_kvs 3600 (kv_t 35000)) ex_acc ex_egr)
    = shift_response 3600 (fst (http_serve ex_uuid ex_sv 0 ERoute (kv_t 35000) ex_acc ex_egr)) /\
  match fst (http_serve ex_uuid (start false (Shift.shift_data 3600 ex_data)) 0 ERoute (kv_t 38600) ex_acc ex_egr) with
  | HttpR 200 (HRoute [r] 1 q) => rt_dep r = 39440 /\ rt_arr r = 40350 /\ qe_time q = 38600
  | _ => False
  end.
Proof.
  split; [vm_compute; reflexivity|]. split.
  - intros v x Hin Hx. vm_compute in Hin.
    destruct Hin as [H|[H|[H|[H|[H|[H|[]]]]]]]; try discriminate H.
    inversion H; subst v. vm_compute in Hx. inversion Hx; subst x. unfold MAX_INT. lia.
  - vm_compute. repeat split; reflexivity.
Qed.

(* ============================================================================================== *)
Print Assumptions create_route_scenario_set.
Print Assumptions http_serve_refines_handle.
Print Assumptions http_class_route.
Print Assumptions http_class_access.
Print Assumptions direct_route_correct.
Print Assumptions direct_alt_correct.
Print Assumptions direct_access_correct.
Print Assumptions http_route_classification.
Print Assumptions http_route_never_bad.
Print Assumptions http_route_parsed_200.
Print Assumptions http_access_classification.
Print Assumptions calc_allnodes_fwd_no_exn.
Print Assumptions calc_allnodes_rev_answers.
Print Assumptions http_access_parsed.
Print Assumptions parse_documented.
Print Assumptions http_summary_of_route.
Print Assumptions http_summary_lines_meaning.
Print Assumptions http_route_success.
Print Assumptions http_route_no_routing.
Print Assumptions http_every_position.
Print Assumptions http_history_independent.
Print Assumptions http_histories_agree.
Print Assumptions http_inv_after.
Print Assumptions http_route_success_any_history.
Print Assumptions stoi_dec.
Print Assumptions parse_shift.
Print Assumptions http_time_shift.
Print Assumptions http_time_shift_wf.
Print Assumptions http_loaded_server_ok.
Print Assumptions http_route_success_loaded.
Print Assumptions ex_http_domain.
Print Assumptions ex_route_and_summary.
Print Assumptions ex_alternatives.
Print Assumptions ex_other_answers.
Print Assumptions ex_errors.
Print Assumptions ex_history.
Print Assumptions ex_time_shift.

(* OPEN / REMARKS
   - (a) for /v2/accessibility: http_access_classification (with C08 / C09 for the answer) is proved under
     http_access_extra (every hop of the data takes time; a departure query carries max_first_waiting_time <= 0):
     the domain of FullStatements.C08/C09_decl_any_except.  Without it, http_access_parsed: parsed parameters are
     never answered 400, an arrival query always gets its 200 answer, a departure query gets its 200 answer or the
     model's transfer count runs out of fuel.  OPEN: count_transfers_fwd terminates within REBUILD_FUEL for a
     departure accessibility query WITH a first-waiting cap (the default request: 1800 s) or on data with
     zero-duration hops — FwdOpt.F_count_terminates uses pos_hops_b and q_maxfw <= 0.
     /v2/route and /v2/summary need neither hypothesis for (a), (b: validity, limits, totals, reason), (c), (d).
   - (a), (b) assume time_of_trip < CLOCK_MAX (32 h) for parsed parameters: the factory accepts every non-negative
     int, the calculation theorems (Spec.wf_params_b) are proved for clock times of the service day.  OPEN: the same
     for 115200 <= time_of_trip <= INT_MAX (on ex_data, time_of_trip=200000 is answered NO_SERVICE_FROM_ORIGIN).
   - (b) optimality of the first route: first_route_optimal carries the hypotheses of Optimal.C03/C04/C05
     (pos_hops_b; departure queries: q_maxfw p <= 0, i.e. the request says max_first_waiting_time=0 or negative).
   - (d) is proved at the level of the key/value STRINGS (stoi_dec: std::stoi of the decimal rendering) for all
     three endpoints, including the error answers; hypotheses as in Shift.v (shift_dom, and the proviso
     shift_safe for arrival-time route/summary requests, which Shift.shift_proviso_needed shows necessary).
   - The theorems are stated for a server holding well-formed data D.  For the server started on cache files
     D = canon d (http_loaded_server_ok); http_route_success_loaded transfers (b) back to d.  The same transfer
     for (a: accessibility C08/C09), http_route_no_routing and (d) uses EndToEnd's canon_* lemmas in the same
     way and is not repeated.
   - Http.v maps an Exn outcome to 400 PARAM_ERROR_UNKNOWN.  Calc.calc_single's Exn X_BAD_OPTIONAL for
     "time_of_trip < 0" is, in the /v2 handlers, a 200 answer with an EMPTY body (the result pointer is tested,
     transit_routing_http_server.cpp:341, :413, :477); unreachable after the factory (http_route_parsed_200). *)

