(* AllNodesTie.v — the model's all-nodes result builders (Calc.fwd_allnodes_loop, Calc.rev_allnodes_loop) compute what the
   interpreter of AllNodes.v computes on the loop bodies tools/gen_loops.py reads from forwardJourneyStepAllNodes
   (forward_journey.cpp) and reverseJourneyStepAllNodes (reverse_journey.cpp) AS THEY ARE NOW (gen/AllNodes.v).

   Per stop (`fwd_stop_tie`, `rev_stop_tie`): the nodes list after one pass of the generated loop body is the model's,
   whatever the locals hold when the iteration starts; for the whole list of stops (`fwd_allnodes_builder_tie`,
   `rev_allnodes_builder_tie`).  Hypothesis on the labels of the forward builder: a label has a boarding connection iff it
   has an alighting one (`label_ok`; the source tests the first and dereferences the second). *)
From Coq Require Import List ZArith Bool Lia ZifyBool.
From TrV Require Import Scan Journey Calc.
Require Import TrV.AllNodes.
Require TrV.gen.AllNodes.
Import ListNotations.
Local Open Scope Z_scope.
Local Open Scope bool_scope.

Module GN := TrV.gen.AllNodes.

Ltac neval :=
  lazy beta iota zeta delta
    [nrun ns_cur ns_journey ns_best ns_ntr ns_step ns_time ns_count ns_mk ns_nodes
     nb_cur nb_journey nb_best nb_ntr nb_step nb_time nb_count nb_mk nb_nodes
     ne_d ne_p ne_k ne_steps ne_labels ne_node x_label x_best x_enter_node x_exit_node x_copy_walk].
(* machines only *)
Ltac ncbn :=
  cbn [ns_cur ns_journey ns_best ns_ntr ns_step ns_time ns_count ns_mk ns_nodes
       nb_cur nb_journey nb_best nb_ntr nb_step nb_time nb_count nb_mk nb_nodes
       ne_d ne_p ne_k ne_steps ne_labels ne_node].

(* the interpreter, statement by statement *)
Section NrunEq.
  Variables (e : nenv) (fuel : nat) (R : Type) (kont kcont : nmach -> outcome R) (m : nmach).
  Lemma nrun_NSetNtr f k : nrun e fuel (NSetNtr f k) R kont kcont m = nrun e fuel k R kont kcont (ns_ntr (f e m) m). Proof. reflexivity. Qed.
  Lemma nrun_NSetCur f k : nrun e fuel (NSetCur f k) R kont kcont m = nrun e fuel k R kont kcont (ns_cur (f e m) m). Proof. reflexivity. Qed.
  Lemma nrun_NSetBest f k : nrun e fuel (NSetBest f k) R kont kcont m = nrun e fuel k R kont kcont (ns_best (f e m) m). Proof. reflexivity. Qed.
  Lemma nrun_NNewJourney k : nrun e fuel (NNewJourney k) R kont kcont m = nrun e fuel k R kont kcont (ns_journey [] m). Proof. reflexivity. Qed.
  Lemma nrun_NPushBack f k : nrun e fuel (NPushBack f k) R kont kcont m =
    nrun e fuel k R kont kcont (ns_journey (nb_journey m ++ [f e m]) m). Proof. reflexivity. Qed.
  Lemma nrun_NCheck g x k : nrun e fuel (NCheck g x k) R kont kcont m = if g e m then nrun e fuel k R kont kcont m else Exn x.
  Proof. reflexivity. Qed.
  Lemma nrun_NOptimize k : nrun e fuel (NOptimize k) R kont kcont m =
    match optimize (OPT_FUEL (ne_d e)) (ne_d e) (nb_journey m) [] [] with
    | OptDone js1 _ => nrun e fuel k R kont kcont (ns_journey js1 m)
    | OptUB => UB U_INDEX
    | OptHang => Hang
    end. Proof. reflexivity. Qed.
  Lemma nrun_NForJourney body k : nrun e fuel (NForJourney body k) R kont kcont m =
    match fold_left (nstep_run (fun mm => nrun e fuel body nmach (fun m2 => Ok m2) (fun m2 => Ok m2) mm)) (nb_journey m) (Ok m) with
    | Ok m' => nrun e fuel k R kont kcont m'
    | o => pass_err o
    end. Proof. reflexivity. Qed.
  Lemma nrun_NSetTime f k : nrun e fuel (NSetTime f k) R kont kcont m = nrun e fuel k R kont kcont (ns_time (f e m) m). Proof. reflexivity. Qed.
  Lemma nrun_NIncCount k : nrun e fuel (NIncCount k) R kont kcont m = nrun e fuel k R kont kcont (ns_count (nb_count m + 1) m). Proof. reflexivity. Qed.
  Lemma nrun_NMakeNode f k : nrun e fuel (NMakeNode f k) R kont kcont m = nrun e fuel k R kont kcont (ns_mk (f e m) m). Proof. reflexivity. Qed.
  Lemma nrun_NPushNode k : nrun e fuel (NPushNode k) R kont kcont m = nrun e fuel k R kont kcont (ns_nodes (nb_nodes m ++ [nb_mk m]) m). Proof. reflexivity. Qed.
  Lemma nrun_NIf g th el k : nrun e fuel (NIf g th el k) R kont kcont m =
    if g e m then nrun e fuel th R (nrun e fuel k R kont kcont) kcont m else nrun e fuel el R (nrun e fuel k R kont kcont) kcont m.
  Proof. reflexivity. Qed.
  Lemma nrun_NWhile g body k : nrun e fuel (NWhile g body k) R kont kcont m =
    nwhile (g e) (fun kk mm => nrun e fuel body R kk kcont mm) (nrun e fuel k R kont kcont) fuel m. Proof. reflexivity. Qed.
  Lemma nrun_NDone : nrun e fuel NDone R kont kcont m = kont m. Proof. reflexivity. Qed.
  Lemma nrun_NContinue : nrun e fuel NContinue R kont kcont m = kcont m. Proof. reflexivity. Qed.
End NrunEq.

Ltac nstep :=
  repeat first [rewrite nrun_NSetNtr | rewrite nrun_NSetCur | rewrite nrun_NSetBest | rewrite nrun_NNewJourney
               | rewrite nrun_NPushBack | rewrite nrun_NSetTime | rewrite nrun_NIncCount | rewrite nrun_NMakeNode
               | rewrite nrun_NPushNode | rewrite nrun_NDone | rewrite nrun_NContinue].

Definition omap {A B} (f : A -> B) (o : outcome A) : outcome B := bind o (fun a => Ok (f a)).

(* ---------------------------------------------------------------------------------------------- *)
(* forward: forwardJourneyStepAllNodes                                                               *)

Section Fwd.
  Variables (d : data) (p : params) (k : calc) (steps : nat -> jstep) (labels : nat -> option jstep).
  Notation env n := {| ne_d := d; ne_p := p; ne_k := k; ne_steps := steps; ne_labels := labels; ne_node := n |}.

  (* one step of the model's backwards walk (Calc.count_transfers_fwd), on the machine *)
  Definition fwd_walk_step (m : nmach) : nmach :=
    match js_enter (nb_cur m) with
    | Some en =>
        let t := match js_trip (nb_cur m) with Some t => t | None => c_trip en end in
        ns_cur (steps (c_from en)) (ns_best (Some (c_from en)) (ns_ntr (if is_transferable_trip d t then nb_ntr m else nb_ntr m + 1) m))
    | None => m
    end.
  Fixpoint fwd_walk_m (fuel : nat) (m : nmach) : option nmach :=
    if js_has_conns (nb_cur m) then match fuel with O => None | S f => fwd_walk_m f (fwd_walk_step m) end else Some m.

  Lemma count_is_walk_m : forall fuel m,
    count_transfers_fwd fuel d steps (nb_cur m) (nb_ntr m) = option_map nb_ntr (fwd_walk_m fuel m).
  Proof.
    induction fuel as [|f IH]; intros m; cbn [count_transfers_fwd fwd_walk_m]; unfold js_has_conns.
    - destruct (js_enter (nb_cur m)); [destruct (js_exit (nb_cur m))|]; reflexivity.
    - destruct (js_enter (nb_cur m)) as [en|] eqn:Een; [destruct (js_exit (nb_cur m)) as [ex|]|]; cbn [is_some andb option_map];
        try reflexivity.
      rewrite <- IH. unfold fwd_walk_step. rewrite Een. destruct m. reflexivity.
  Qed.

  Lemma fwd_walk_m_frame : forall fuel m m', fwd_walk_m fuel m = Some m' ->
    nb_nodes m' = nb_nodes m /\ nb_count m' = nb_count m.
  Proof.
    induction fuel as [|f IH]; intros m m' H; cbn [fwd_walk_m] in H.
    - destruct (js_has_conns (nb_cur m)); [discriminate|]. inversion H. auto.
    - destruct (js_has_conns (nb_cur m)); [|inversion H; auto].
      destruct (IH _ _ H) as [H1 H2]. rewrite H1, H2. unfold fwd_walk_step.
      destruct (js_enter (nb_cur m)); [|auto]. destruct m. auto.
  Qed.

  Lemma fwd_walk_body_tie n fuel R (kk kcont : nmach -> outcome R) m : js_has_conns (nb_cur m) = true ->
    nrun (env n) fuel GN.gen_fwdall_walk R kk kcont m = kk (fwd_walk_step m).
  Proof.
    intros Hc. destruct m as [cur jo be nt sp ti co mk no]. cbn [nb_cur] in Hc. unfold js_has_conns in Hc.
    destruct (js_enter cur) as [en|] eqn:Een; [|discriminate].
    unfold GN.gen_fwdall_walk, fwd_walk_step, x_cur_transferable. neval. rewrite ?Een. neval.
    destruct (is_transferable_trip d match js_trip cur with Some t => t | None => c_trip en end); cbn [negb]; neval;
      rewrite ?Een; reflexivity.
  Qed.

  Lemma fwd_while_tie n R (after kcont : nmach -> outcome R) : forall fuel0 fuel m,
    nwhile (fun m' => js_has_conns (nb_cur m')) (fun kk mm => nrun (env n) fuel0 GN.gen_fwdall_walk R kk kcont mm) after fuel m =
    match fwd_walk_m fuel m with Some m' => after m' | None => Hang end.
  Proof.
    intros fuel0. induction fuel as [|f IH]; intros m; cbn [nwhile fwd_walk_m].
    - destruct (js_has_conns (nb_cur m)); reflexivity.
    - destruct (js_has_conns (nb_cur m)) eqn:Hc; [|reflexivity].
      rewrite fwd_walk_body_tie by exact Hc. apply IH.
  Qed.

  (* one stop of the model's loop, appending to the nodes found so far *)
  Definition fwd_stop (fuel : nat) (n : nat) (acc : list accnode) : outcome (list accnode) :=
    match labels n with
    | None => Ok acc
    | Some j =>
        match count_transfers_fwd fuel d steps j (-1) with
        | None => Hang
        | Some ntr =>
            match js_enter j, js_exit j with
            | Some _, Some ex =>
                if c_arr ex - k_dep k <=? q_maxtt p
                then Ok (acc ++ [{| an_node := n; an_time := c_arr ex; an_ttt := c_arr ex - k_dep k; an_ntr := ntr |}])
                else Ok acc
            | _, _ => Ok acc
            end
        end
    end.

  Definition label_ok (j : jstep) : Prop := is_some (js_enter j) = is_some (js_exit j).

  Theorem fwd_stop_tie : forall fuel n m, (forall j, labels n = Some j -> label_ok j) ->
    omap nb_nodes (run_stop GN.gen_fwdall_stop (env n) fuel m) = fwd_stop fuel n (nb_nodes m).
  Proof.
    intros fuel n m Hok. unfold run_stop, fwd_stop, GN.gen_fwdall_stop. nstep. rewrite nrun_NIf. ncbn.
    destruct (labels n) as [j|] eqn:El; cbn [is_some negb]; nstep; [|reflexivity].
    rewrite nrun_NWhile, fwd_while_tie. unfold x_label. ncbn. rewrite El.
    replace (count_transfers_fwd fuel d steps j (-1))
      with (option_map nb_ntr (fwd_walk_m fuel (ns_best None (ns_cur j (ns_ntr (-1) m)))))
      by (rewrite <- count_is_walk_m; destruct m; reflexivity).
    destruct (fwd_walk_m fuel (ns_best None (ns_cur j (ns_ntr (-1) m)))) as [m'|] eqn:Ew; cbn [option_map]; [|reflexivity].
    destruct (fwd_walk_m_frame _ _ _ Ew) as [Hn _]. rewrite nrun_NIf. ncbn. rewrite El.
    specialize (Hok j eq_refl). unfold label_ok in Hok.
    destruct (js_enter j) as [en|] eqn:Een; destruct (js_exit j) as [ex|] eqn:Eex; cbn [is_some] in *; try discriminate; nstep.
    - rewrite nrun_NIf. ncbn. unfold x_exit_arr, x_label. ncbn. rewrite ?El, ?Eex.
      destruct (c_arr ex - k_dep k <=? q_maxtt p); nstep; cbn [omap bind]; ncbn; rewrite ?El, ?Eex, Hn; destruct m; reflexivity.
    - cbn [omap bind]. rewrite Hn. destruct m; reflexivity.
  Qed.
End Fwd.

(* the loop over the stops, generically: if one pass of the body is `stop`, the loop is the fold of `stop` *)
Section Stops.
  Variables (body : nskel) (d : data) (p : params) (k : calc) (steps : nat -> jstep) (labels : nat -> option jstep) (fuel : nat).
  Variable stop : nat -> list accnode -> outcome (list accnode).
  Hypothesis H_stop : forall n m,
    omap nb_nodes (run_stop body {| ne_d := d; ne_p := p; ne_k := k; ne_steps := steps; ne_labels := labels; ne_node := n |} fuel m)
    = stop n (nb_nodes m).

  Fixpoint stops_fold (nodes : list nat) (acc : list accnode) : outcome (list accnode) :=
    match nodes with
    | [] => Ok acc
    | n :: r => bind (stop n acc) (fun acc' => stops_fold r acc')
    end.

  Lemma run_stops_fold : forall nodes m,
    omap nb_nodes (run_stops body d p k steps labels fuel nodes m) = stops_fold nodes (nb_nodes m).
  Proof.
    induction nodes as [|n r IH]; intros m; cbn [run_stops stops_fold]; [reflexivity|].
    rewrite <- H_stop.
    destruct (run_stop body {| ne_d := d; ne_p := p; ne_k := k; ne_steps := steps; ne_labels := labels; ne_node := n |} fuel m)
      as [m'| | | | | | | |]; cbn [omap bind]; try reflexivity.
    apply IH.
  Qed.
End Stops.

Lemma bind_assoc {A B C} (o : outcome A) (f : A -> outcome B) (g : B -> outcome C) :
  bind (bind o f) g = bind o (fun a => bind (f a) g).
Proof. destruct o; reflexivity. Qed.
Lemma bind_ok_id {A} (o : outcome A) : bind o (fun a => Ok a) = o.
Proof. destruct o; reflexivity. Qed.
Lemma bind_ext {A B} (o : outcome A) (f g : A -> outcome B) : (forall a, f a = g a) -> bind o f = bind o g.
Proof. intros H. destruct o; cbn [bind]; auto. Qed.

(* Calc.fwd_allnodes_loop is the fold of `fwd_stop` over the stops *)
Lemma fwd_allnodes_loop_fold d p k fs : forall nodes acc,
  bind (fwd_allnodes_loop d p k fs nodes) (fun rest => Ok (acc ++ rest)) =
  stops_fold (fwd_stop d p k (f_steps fs) (f_egr fs) (REBUILD_FUEL d)) nodes acc.
Proof.
  induction nodes as [|n r IH]; intros acc; cbn [fwd_allnodes_loop stops_fold bind].
  - rewrite app_nil_r. reflexivity.
  - unfold fwd_stop. destruct (f_egr fs n) as [j|]; [|apply IH].
    destruct (count_transfers_fwd (REBUILD_FUEL d) d (f_steps fs) j (-1)) as [ntr|]; [|reflexivity].
    rewrite bind_assoc.
    destruct (js_enter j) as [en|]; [destruct (js_exit j) as [ex|]|]; try (cbn [bind]; apply IH).
    destruct (c_arr ex - k_dep k <=? q_maxtt p); cbn [bind]; [|apply IH].
    rewrite <- IH. apply bind_ext. intros rest. rewrite <- app_assoc. reflexivity.
  Qed.

(* forwardJourneyStepAllNodes: the nodes of the result are the model's *)
Theorem fwd_allnodes_builder_tie : forall d p k fs m0,
  (forall n j, f_egr fs n = Some j -> label_ok j) -> nb_nodes m0 = [] ->
  omap nb_nodes (run_stops GN.gen_fwdall_stop d p k (f_steps fs) (f_egr fs) (REBUILD_FUEL d) (d_nodes d) m0) =
  fwd_allnodes_loop d p k fs (d_nodes d).
Proof.
  intros d p k fs m0 Hok Hm.
  rewrite (run_stops_fold _ d p k (f_steps fs) (f_egr fs) (REBUILD_FUEL d) (fwd_stop d p k (f_steps fs) (f_egr fs) (REBUILD_FUEL d))).
  - rewrite Hm, <- fwd_allnodes_loop_fold. cbn [app]. apply bind_ok_id.
  - intros n m. apply fwd_stop_tie. intros j Hj. exact (Hok n j Hj).
Qed.

(* ---------------------------------------------------------------------------------------------- *)
(* reverse: reverseJourneyStepAllNodes                                                               *)

Section Rev.
  Variables (d : data) (p : params) (k : calc) (steps : nat -> jstep) (labels : nat -> option jstep).
  Notation env n := {| ne_d := d; ne_p := p; ne_k := k; ne_steps := steps; ne_labels := labels; ne_node := n |}.

  (* one iteration of the model's rebuild (Journey.rebuild), on the machine *)
  Definition rev_walk_step (m : nmach) : nmach :=
    match js_exit (nb_cur m) with
    | Some ex =>
        ns_cur (steps (c_to ex))
          (ns_best (Some (c_to ex))
             (ns_journey (match nb_journey m with
                          | [] => []
                          | _ => set_last_walk (nb_journey m) (js_walk (nb_cur m)) (js_dist (nb_cur m))
                          end ++ [nb_cur m]) m))
    | None => m
    end.
  Fixpoint rev_walk_m (fuel : nat) (m : nmach) : option nmach :=
    if js_has_conns (nb_cur m) then match fuel with O => None | S f => rev_walk_m f (rev_walk_step m) end else Some m.

  Lemma rebuild_is_walk_m : forall fuel m,
    rebuild fuel steps (nb_cur m) (nb_journey m) (nb_best m) =
    option_map (fun m' => (nb_journey m', nb_best m')) (rev_walk_m fuel m).
  Proof.
    induction fuel as [|f IH]; intros m; cbn [rebuild rev_walk_m]; unfold js_has_conns.
    - destruct (js_enter (nb_cur m)); [destruct (js_exit (nb_cur m))|]; reflexivity.
    - destruct (js_enter (nb_cur m)) as [en|]; [destruct (js_exit (nb_cur m)) as [ex|] eqn:Eex|]; cbn [is_some andb option_map];
        try reflexivity.
      rewrite <- IH. unfold rev_walk_step. rewrite Eex. destruct m. reflexivity.
  Qed.

  Lemma rev_walk_m_frame : forall fuel m m', rev_walk_m fuel m = Some m' -> nb_nodes m' = nb_nodes m.
  Proof.
    induction fuel as [|f IH]; intros m m' H; cbn [rev_walk_m] in H.
    - destruct (js_has_conns (nb_cur m)); [discriminate|]. inversion H. auto.
    - destruct (js_has_conns (nb_cur m)); [|inversion H; auto].
      rewrite (IH _ _ H). unfold rev_walk_step. destruct (js_exit (nb_cur m)); [|auto]. destruct m. auto.
  Qed.

  Lemma rev_walk_body_tie n fuel R (kk kcont : nmach -> outcome R) m : js_has_conns (nb_cur m) = true ->
    nrun (env n) fuel GN.gen_revall_walk R kk kcont m = kk (rev_walk_step m).
  Proof.
    intros Hc. destruct m as [cur jo be nt sp ti co mk no]. cbn [nb_cur] in Hc. unfold js_has_conns in Hc.
    destruct (js_enter cur) as [en|]; [|discriminate]. destruct (js_exit cur) as [ex|] eqn:Eex; [|discriminate].
    unfold GN.gen_revall_walk, rev_walk_step. neval. rewrite ?Eex.
    destruct jo as [|j0 jr].
    - cbn [length]. replace (Z.of_nat 0 >? 0) with false by lia. neval. rewrite ?Eex. reflexivity.
    - replace (Z.of_nat (length (j0 :: jr)) >? 0) with true by (cbn [length]; lia). neval. rewrite ?Eex. reflexivity.
  Qed.

  Lemma rev_while_tie n R (after kcont : nmach -> outcome R) : forall fuel0 fuel m,
    nwhile (fun m' => js_has_conns (nb_cur m')) (fun kk mm => nrun (env n) fuel0 GN.gen_revall_walk R kk kcont mm) after fuel m =
    match rev_walk_m fuel m with Some m' => after m' | None => Hang end.
  Proof.
    intros fuel0. induction fuel as [|f IH]; intros m; cbn [nwhile rev_walk_m].
    - destruct (js_has_conns (nb_cur m)); reflexivity.
    - destruct (js_has_conns (nb_cur m)) eqn:Hc; [|reflexivity].
      rewrite rev_walk_body_tie by exact Hc. apply IH.
  Qed.

  (* the count over the optimised journey (Calc.count_legs), from any starting value *)
  Definition count_f (n : Z) (j : jstep) : Z :=
    match js_enter j, js_exit j, js_trip j with
    | Some _, Some _, Some t => if is_transferable_trip d t then n else n + 1
    | _, _, _ => n
    end.
  Lemma count_legs_fold js : count_legs d js = fold_left count_f js (-1).
  Proof. reflexivity. Qed.

  Lemma rev_count_fold n fuel : forall js m, exists S,
    fold_left (nstep_run (fun mm => nrun (env n) fuel GN.gen_revall_count nmach (fun m2 => Ok m2) (fun m2 => Ok m2) mm)) js (Ok m) =
    Ok (ns_step S (ns_ntr (fold_left count_f js (nb_ntr m)) m)).
  Proof.
    induction js as [|j js IH]; intros m; cbn [fold_left].
    - exists (nb_step m). destruct m. reflexivity.
    - unfold nstep_run at 2.
      assert (E : nrun (env n) fuel GN.gen_revall_count nmach (fun m2 => Ok m2) (fun m2 => Ok m2) (ns_step j m) =
                  Ok (ns_step j (ns_ntr (count_f (nb_ntr m) j) m))).
      { destruct m as [cur jo be nt sp ti co mk no]. unfold GN.gen_revall_count, count_f, x_step_transferable, js_has_conns.
        neval. destruct (js_enter j); [destruct (js_exit j)|]; cbn [is_some andb]; neval; try reflexivity.
        destruct (js_trip j) as [t|]; cbn [negb]; neval; [|reflexivity].
        destruct (is_transferable_trip d t); cbn [negb]; neval; reflexivity. }
      rewrite E. destruct (IH (ns_step j (ns_ntr (count_f (nb_ntr m) j) m))) as (S & ->).
      exists S. destruct m. reflexivity.
  Qed.

  (* one stop of the model's loop *)
  Definition rev_stop (fuel : nat) (n : nat) (acc : list accnode) : outcome (list accnode) :=
    match labels n with
    | None => Ok acc
    | Some start =>
        match rebuild fuel steps start [] None with
        | None => Hang
        | Some (legs, last) =>
            match last with
            | None => Exn X_BAD_OPTIONAL
            | Some ln =>
                match row_of ln (k_egrfp k) with
                | None => Exn X_OUT_OF_RANGE
                | Some er =>
                    match optimize (OPT_FUEL d) d (legs ++ [walk_step er]) [] [] with
                    | OptUB => UB U_INDEX
                    | OptHang => Hang
                    | OptDone js1 _ =>
                        match js_enter start with
                        | Some b =>
                            let depd := c_dep b - minw_eff p b in
                            if k_arr k - depd <=? q_maxtt p
                            then Ok (acc ++ [{| an_node := n; an_time := k_arr k; an_ttt := k_arr k - depd;
                                                an_ntr := count_legs d js1 |}])
                            else Ok acc
                        | None => Ok acc
                        end
                    end
                end
            end
        end
    end.

  Theorem rev_stop_tie : forall fuel n m,
    omap nb_nodes (run_stop GN.gen_revall_stop (env n) fuel m) = rev_stop fuel n (nb_nodes m).
  Proof.
    intros fuel n m. unfold run_stop, rev_stop, GN.gen_revall_stop. nstep. rewrite nrun_NIf. ncbn.
    destruct (labels n) as [start|] eqn:El; cbn [is_some negb]; nstep; [|destruct m; reflexivity].
    rewrite nrun_NWhile, rev_while_tie. unfold x_label. ncbn. rewrite El.
    replace (rebuild fuel steps start [] None)
      with (option_map (fun m' => (nb_journey m', nb_best m')) (rev_walk_m fuel (ns_best None (ns_cur start (ns_journey [] m)))))
      by (rewrite <- rebuild_is_walk_m; destruct m; reflexivity).
    destruct (rev_walk_m fuel (ns_best None (ns_cur start (ns_journey [] m)))) as [m'|] eqn:Ew; cbn [option_map]; [|reflexivity].
    pose proof (rev_walk_m_frame _ _ _ Ew) as Hn.
    rewrite nrun_NCheck. unfold x_best. ncbn.
    destruct (nb_best m') as [ln|] eqn:Eb; cbn [is_some]; [|reflexivity].
    rewrite nrun_NCheck. unfold x_best. ncbn. rewrite Eb.
    destruct (row_of ln (k_egrfp k)) as [er|] eqn:Er; cbn [is_some]; [|reflexivity].
    nstep. rewrite nrun_NOptimize. unfold x_best. ncbn. rewrite Eb, Er.
    change (x_walk (x_row_time (Some er)) false (x_row_dist (Some er))) with (walk_step er).
    destruct (optimize (OPT_FUEL d) d (nb_journey m' ++ [walk_step er]) [] []) as [js1 used| |]; try reflexivity.
    nstep. rewrite nrun_NForJourney. ncbn.
    match goal with |- context [fold_left _ js1 (Ok ?m0)] => destruct (rev_count_fold n fuel js1 m0) as (S & ->) end.
    rewrite nrun_NIf. unfold x_label. ncbn. rewrite El.
    destruct (js_enter start) as [b|] eqn:Een; cbn [is_some]; nstep.
    - rewrite nrun_NIf. unfold x_enter_dep, x_enter_minw, x_label. ncbn. rewrite ?El, ?Een.
      rewrite count_legs_fold.
      destruct (k_arr k - (c_dep b - minw_eff p b) <=? q_maxtt p); nstep; cbn [omap bind]; ncbn;
        rewrite ?El, ?Een; cbn [nb_ntr ns_ntr]; rewrite Hn; destruct m'; destruct m; reflexivity.
    - cbn [omap bind]. ncbn. rewrite Hn. destruct m; reflexivity.
  Qed.
End Rev.

Lemma rev_allnodes_loop_fold d p k st : forall nodes acc,
  bind (rev_allnodes_loop d p k st nodes) (fun rest => Ok (acc ++ rest)) =
  stops_fold (rev_stop d p k (r_steps st) (r_acc st) (REBUILD_FUEL d)) nodes acc.
Proof.
  induction nodes as [|n r IH]; intros acc; cbn [rev_allnodes_loop stops_fold bind].
  - rewrite app_nil_r. reflexivity.
  - unfold rev_stop. destruct (r_acc st n) as [start|]; [|apply IH].
    destruct (rebuild (REBUILD_FUEL d) (r_steps st) start [] None) as [[legs last]|]; [|reflexivity].
    destruct last as [ln|]; [|reflexivity].
    destruct (row_of ln (k_egrfp k)) as [er|]; [|reflexivity].
    destruct (optimize (OPT_FUEL d) d (legs ++ [walk_step er]) [] []) as [js1 used| |]; try reflexivity.
    rewrite bind_assoc.
    destruct (js_enter start) as [b|]; [|cbn [bind]; apply IH].
    cbv zeta. destruct (k_arr k - (c_dep b - minw_eff p b) <=? q_maxtt p); cbn [bind]; [|apply IH].
    rewrite <- IH. apply bind_ext. intros rest. rewrite <- app_assoc. reflexivity.
Qed.

(* reverseJourneyStepAllNodes: the nodes of the result are the model's *)
Theorem rev_allnodes_builder_tie : forall d p k st m0, nb_nodes m0 = [] ->
  omap nb_nodes (run_stops GN.gen_revall_stop d p k (r_steps st) (r_acc st) (REBUILD_FUEL d) (d_nodes d) m0) =
  rev_allnodes_loop d p k st (d_nodes d).
Proof.
  intros d p k st m0 Hm.
  rewrite (run_stops_fold _ d p k (r_steps st) (r_acc st) (REBUILD_FUEL d) (rev_stop d p k (r_steps st) (r_acc st) (REBUILD_FUEL d))).
  - rewrite Hm, <- rev_allnodes_loop_fold. cbn [app]. apply bind_ok_id.
  - intros n m. apply rev_stop_tie.
Qed.
