(* Proofs/FullStatements.v — the ORIGINAL formal statements of C03, C04, C05, C08, C09 ("the implementation's answer
   equals what the executable reference solver of Spec.v computes"), proved from

     * the declarative optimality theorems (RevOptCompose.C03_decl_proved / C04_decl_proved / C05_decl_proved,
       FwdOpt's and RevOptCompose's lemmas behind C08_decl / C09_decl), and
     * the correctness of the reference solvers against the same declarative notions (RefSpec).

   Each theorem carries the body of the corresponding `C0x_full_statement` of Properties/Properties_C0x.v verbatim
   (with `in_domain`, `answer_route`, `answer_access` of Properties/Common.v), so the property file closes its
   statement with `exact`.  The only deviation: C09_original has the additional hypothesis  q_minw p < MAX_INT
   (see the comment there). *)
From Coq Require Import List ZArith Bool Arith Lia Sorted.
From TrV Require Import Spec Admissible Optimal.
From TrV.Proofs Require Import FwdOpt C03Ok.
From TrV.Proofs Require Import SortFilter Index Totals EmitValid Rewrites RevInv Termination RouteValid Limits
                               Compose OptTotal ValidAdm RevOpt RevOptCompose RefSpec.
From TrV.Properties Require Import Common.
Import ListNotations.
Local Open Scope Z_scope.

(* ---------------------------------------------------------------------------------------------- *)
(* 0. domain helpers                                                                                *)

Lemma in_domain_opt d s p acc egr : in_domain d s p acc egr -> opt_domain d s p acc egr.
Proof. intros H. exact H. Qed.

Lemma wf_tables_rows_acc d p acc egr : wf_tables_b d p acc egr = true -> rows_ok d acc = true.
Proof.
  unfold wf_tables_b. intros H.
  repeat (apply andb_prop in H; destruct H as [H _]). exact H.
Qed.

(* ---------------------------------------------------------------------------------------------- *)
(* 1. C03: earliest arrival                                                                         *)

Theorem C03_original :
  forall d s p acc egr, in_domain d s p acc egr -> pos_hops_b d = true -> q_fwd p = true -> q_maxfw p <= 0 ->
    match answer_route d s p acc egr with
    | Ok (r, _) => earliest_arrival_ref d s p acc egr = Some (rt_arr r)
    | NoRouting _ => earliest_arrival_ref d s p acc egr = None
    | _ => False
    end.
Proof.
  intros d s p acc egr Hdom Hpos Hfwd Hfw.
  pose proof (C03_decl_proved d s p acc egr (in_domain_opt _ _ _ _ _ Hdom) Hpos Hfwd Hfw) as HD.
  destruct Hdom as (Hwf & _ & _ & Hpar & _).
  pose proof (earliest_arrival_ref_correct d s p acc egr Hwf Hpar) as HR.
  unfold C03_decl, route_answer in HD. unfold answer_route.
  destruct (calc_single d (conn_set d s) p acc egr true) as [[r used]|reason| | | | | | |]; try exact HD.
  - destruct HD as [(ridesD & HattD) HminD].
    destruct (earliest_arrival_ref d s p acc egr) as [t|].
    + destruct HR as [(ridesR & HattR) HminR].
      pose proof (HminD ridesR t HattR) as H1. pose proof (HminR ridesD (rt_arr r) HattD) as H2.
      f_equal. lia.
    + exfalso. apply (HR ridesD (rt_arr r) HattD).
  - destruct (earliest_arrival_ref d s p acc egr) as [t|]; [|reflexivity].
    destruct HR as [(ridesR & HattR) _]. exfalso. apply (HD ridesR t HattR).
Qed.

(* ---------------------------------------------------------------------------------------------- *)
(* 2. C04: latest departure (uniform_wait_b is part of the original statement; it is not used)      *)

Theorem C04_original :
  forall d s p acc egr, in_domain d s p acc egr -> pos_hops_b d = true -> uniform_wait_b d = true -> q_fwd p = false ->
    match answer_route d s p acc egr with
    | Ok (r, _) => latest_departure_ref d s p (q_time p) 0 (q_time p) acc egr = Some (rt_dep r)
    | NoRouting _ => latest_departure_ref d s p (q_time p) 0 (q_time p) acc egr = None
    | _ => False
    end.
Proof.
  intros d s p acc egr Hdom Hpos _ Hfwd.
  pose proof (C04_decl_strong d s p acc egr (in_domain_opt _ _ _ _ _ Hdom) Hpos Hfwd) as HD.
  destruct Hdom as (Hwf & _ & Htab & Hpar & _).
  pose proof (latest_departure_ref_correct d s p acc egr Hwf Hpar (wf_tables_rows_acc d p acc egr Htab)) as HR.
  unfold C04_decl, route_answer in HD. unfold answer_route.
  destruct (calc_single d (conn_set d s) p acc egr true) as [[r used]|reason| | | | | | |]; try exact HD.
  - destruct HD as [(ridesD & HattD) HmaxD].
    destruct (latest_departure_ref d s p (q_time p) 0 (q_time p) acc egr) as [t|].
    + destruct HR as [(ridesR & HattR) HmaxR].
      pose proof (HmaxD t ridesR HattR) as H1. pose proof (HmaxR (rt_dep r) ridesD HattD) as H2.
      f_equal. lia.
    + exfalso. apply (HR (rt_dep r) ridesD HattD).
  - destruct (latest_departure_ref d s p (q_time p) 0 (q_time p) acc egr) as [t|]; [|reflexivity].
    destruct HR as [(ridesR & HattR) _]. exfalso. apply (HD t ridesR HattR).
Qed.

(* ---------------------------------------------------------------------------------------------- *)
(* 3. C05: the departure of a departure-time answer                                                 *)

Theorem C05_original :
  forall d s p acc egr, in_domain d s p acc egr -> pos_hops_b d = true -> uniform_wait_b d = true ->
    q_fwd p = true -> q_maxfw p <= 0 ->
    forall r used, answer_route d s p acc egr = Ok (r, used) ->
      latest_departure_ref d s p (rt_arr r) (q_time p) (q_time p) acc egr = Some (rt_dep r).
Proof.
  intros d s p acc egr Hdom Hpos _ Hfwd Hfw r used Hans.
  pose proof (C05_decl_strong d s p acc egr (in_domain_opt _ _ _ _ _ Hdom) Hpos Hfwd Hfw) as HD.
  destruct Hdom as (Hwf & _ & Htab & Hpar & _).
  pose proof (wf_params_fields p Hpar) as (Hq & _ & Hmaxtt & _).
  assert (Hlo : NEG < q_time p) by (unfold NEG, MAX_INT; lia).
  pose proof (latest_departure_ref_gen_correct d s p acc egr (rt_arr r) (q_time p) (q_time p)
                Hwf Hpar (wf_tables_rows_acc d p acc egr Htab) Hlo) as HR.
  unfold C05_decl, route_answer in HD. unfold answer_route in Hans.
  destruct (HD r used Hans) as (Hge & (ridesD & arrD & HjD & HarrD) & HmaxD).
  assert (HattD : admissible_rev_gen d s p acc egr (rt_arr r) (q_time p) (q_time p) (rt_dep r) ridesD).
  { exists arrD. split; [exact HjD|]. split; [exact HarrD|]. split; [exact Hge|lia]. }
  destruct (latest_departure_ref d s p (rt_arr r) (q_time p) (q_time p) acc egr) as [t|].
  - destruct HR as [(ridesR & arrR & HjR & HarrR & HloR & _) HmaxR].
    pose proof (HmaxD t ridesR arrR HjR HarrR HloR) as H1.
    pose proof (HmaxR (rt_dep r) ridesD HattD) as H2.
    f_equal. lia.
  - exfalso. apply (HR (rt_dep r) ridesD HattD).
Qed.

(* ---------------------------------------------------------------------------------------------- *)
(* 4. order: lists of (stop, value) pairs enumerated along one NoDup list of stops                   *)

Inductive subseq_of {A : Type} : list A -> list A -> Prop :=
| subseq_nil : forall L, subseq_of [] L
| subseq_skip : forall l x L, subseq_of l L -> subseq_of l (x :: L)
| subseq_take : forall l x L, subseq_of l L -> subseq_of (x :: l) (x :: L).

Lemma subseq_In {A : Type} (l L : list A) : subseq_of l L -> forall x, In x l -> In x L.
Proof.
  intros H. induction H as [L|l x L H IH|l x L H IH]; intros y Hy.
  - destruct Hy.
  - right. apply IH. exact Hy.
  - destruct Hy as [Hy|Hy]; [left; exact Hy|right; apply IH; exact Hy].
Qed.

Lemma subseq_nil_inv {A : Type} (m : list A) : subseq_of m [] -> m = [].
Proof. intros H. inversion H. reflexivity. Qed.

Lemma subseq_cons_inv {A : Type} (m : list A) x L :
  subseq_of m (x :: L) -> subseq_of m L \/ exists m', m = x :: m' /\ subseq_of m' L.
Proof.
  intros H. inversion H as [L0 E0|l0 x0 L0 H0 E0 E1|l0 x0 L0 H0 E0 E1]; subst.
  - left. constructor.
  - left. exact H0.
  - right. exists l0. split; [reflexivity|exact H0].
Qed.

(* two lists of pairs with the same elements, both enumerated in the order of one duplicate-free key list, are equal *)
Lemma subseq_keys_eq : forall L : list nat, NoDup L ->
  forall l1 l2 : list (nat * Z), subseq_of (map fst l1) L -> subseq_of (map fst l2) L ->
  (forall x, In x l1 <-> In x l2) -> l1 = l2.
Proof.
  induction L as [|x L IH]; intros Hnd l1 l2 S1 S2 Heq.
  - apply subseq_nil_inv in S1. apply subseq_nil_inv in S2.
    destruct l1 as [|a1 l1]; [|discriminate S1]. destruct l2 as [|a2 l2]; [|discriminate S2]. reflexivity.
  - inversion Hnd as [|x0 L0 Hx HndL]; subst x0 L0.
    assert (Hkey : forall (l : list (nat * Z)) y, subseq_of (map fst l) L -> In y l -> fst y <> x).
    { intros l y Sl Hy E. apply Hx. rewrite <- E. apply (subseq_In _ _ Sl). apply in_map. exact Hy. }
    destruct (subseq_cons_inv _ _ _ S1) as [T1|(m1 & E1 & T1)];
      destruct (subseq_cons_inv _ _ _ S2) as [T2|(m2 & E2 & T2)].
    + apply (IH HndL l1 l2 T1 T2 Heq).
    + exfalso. destruct l2 as [|a2 l2]; [discriminate E2|]. cbn [map] in E2. inversion E2 as [[Ea Em]].
      apply (Hkey l1 a2 T1); [|exact Ea]. apply Heq. left. reflexivity.
    + exfalso. destruct l1 as [|a1 l1]; [discriminate E1|]. cbn [map] in E1. inversion E1 as [[Ea Em]].
      apply (Hkey l2 a1 T2); [|exact Ea]. apply Heq. left. reflexivity.
    + destruct l1 as [|a1 l1]; [discriminate E1|]. destruct l2 as [|a2 l2]; [discriminate E2|].
      cbn [map] in E1, E2. inversion E1 as [[Ea1 Em1]]. inversion E2 as [[Ea2 Em2]].
      rewrite <- Em1 in T1. rewrite <- Em2 in T2.
      assert (Ea : a1 = a2).
      { assert (Hin : In a1 (a2 :: l2)) by (apply Heq; left; reflexivity).
        destruct Hin as [Hin|Hin]; [symmetry; exact Hin|]. exfalso. apply (Hkey l2 a1 T2 Hin Ea1). }
      subst a2. f_equal. apply (IH HndL l1 l2 T1 T2). intros y. split; intros Hy.
      * assert (Hin : In y (a1 :: l2)) by (apply Heq; right; exact Hy).
        destruct Hin as [Hin|Hin]; [|exact Hin]. exfalso. subst y. apply (Hkey l1 a1 T1 Hy Ea1).
      * assert (Hin : In y (a1 :: l1)) by (apply Heq; right; exact Hy).
        destruct Hin as [Hin|Hin]; [|exact Hin]. exfalso. subst y. apply (Hkey l2 a1 T2 Hy Ea1).
Qed.

(* the reference maps walk d_nodes front to back, at most one entry per stop *)
Lemma flat_map_opt_subseq (c : nat -> bool) (f : nat -> Z) : forall L,
  subseq_of (map fst (flat_map (fun n => if c n then [(n, f n)] else []) L)) L.
Proof.
  induction L as [|n L IH]; cbn [flat_map]; [constructor|].
  destruct (c n); cbn [app map fst].
  - apply subseq_take. exact IH.
  - apply subseq_skip. exact IH.
Qed.

Lemma reach_map_fwd_ref_subseq d s p acc : subseq_of (map fst (reach_map_fwd_ref d s p acc)) (d_nodes d).
Proof.
  unfold reach_map_fwd_ref. cbv zeta.
  exact (flat_map_opt_subseq
           (fun n => (snd (ref_fwd d s p acc) n <? INF) && (snd (ref_fwd d s p acc) n - q_time p <=? q_maxtt p))
           (snd (ref_fwd d s p acc)) (d_nodes d)).
Qed.

Lemma reach_map_rev_ref_subseq d s p egr : subseq_of (map fst (reach_map_rev_ref d s p egr)) (d_nodes d).
Proof.
  unfold reach_map_rev_ref. cbv zeta.
  exact (flat_map_opt_subseq
           (fun n => (snd (ref_rev d s p (q_time p) egr) n >? NEG) &&
                     (q_time p - snd (ref_rev d s p (q_time p) egr) n <=? q_maxtt p))
           (snd (ref_rev d s p (q_time p) egr)) (d_nodes d)).
Qed.

(* the model's loops (forward / reverseJourneyStepAllNodes) do the same *)
Lemma fwd_loop_subseq d p k fs : forall nodes l,
  fwd_allnodes_loop d p k fs nodes = Ok l -> subseq_of (map an_node l) nodes.
Proof.
  induction nodes as [|n r IH]; intros l H; cbn [fwd_allnodes_loop] in H.
  - inversion H. constructor.
  - destruct (f_egr fs n) as [j|].
    + destruct (count_transfers_fwd (REBUILD_FUEL d) d (f_steps fs) j (-1)) as [ntr|]; [|discriminate].
      destruct (fwd_allnodes_loop d p k fs r) as [rest| | | | | | | |] eqn:Er; try discriminate.
      cbn [bind] in H. specialize (IH rest eq_refl).
      destruct (js_enter j) as [b|]; [|inversion H; subst l; apply subseq_skip; exact IH].
      destruct (js_exit j) as [e|]; [|inversion H; subst l; apply subseq_skip; exact IH].
      destruct (c_arr e - k_dep k <=? q_maxtt p); inversion H; subst l.
      * cbn [map an_node]. apply subseq_take. exact IH.
      * apply subseq_skip. exact IH.
    + apply subseq_skip. apply IH. exact H.
Qed.

Lemma rev_loop_subseq d p k st : forall nodes l,
  rev_allnodes_loop d p k st nodes = Ok l -> subseq_of (map an_node l) nodes.
Proof.
  induction nodes as [|n r IH]; intros l H; cbn [rev_allnodes_loop] in H.
  - inversion H. constructor.
  - destruct (r_acc st n) as [start|].
    + destruct (rebuild (REBUILD_FUEL d) (r_steps st) start [] None) as [[legs last]|]; [|discriminate].
      destruct last as [ln|]; [|discriminate].
      destruct (row_of ln (k_egrfp k)) as [er|]; [|discriminate].
      destruct (optimize (OPT_FUEL d) d (legs ++ [walk_step er]) [] []) as [js1 used| |]; try discriminate.
      destruct (rev_allnodes_loop d p k st r) as [rest| | | | | | | |] eqn:Er; try discriminate.
      cbn [bind] in H. specialize (IH rest eq_refl).
      destruct (js_enter start) as [b|]; [|inversion H; subst l; apply subseq_skip; exact IH].
      destruct (k_arr k - (c_dep b - minw_eff p b) <=? q_maxtt p); inversion H; subst l.
      * cbn [map an_node]. apply subseq_take. exact IH.
      * apply subseq_skip. exact IH.
    + apply subseq_skip. apply IH. exact H.
Qed.

Lemma calc_allnodes_subseq d cs p rows l total :
  calc_allnodes d cs p rows = Ok (l, total) -> subseq_of (map an_node l) (d_nodes d).
Proof.
  unfold calc_allnodes. cbv zeta. intros H.
  destruct (q_fwd p).
  - destruct (access_reason (nonempty rows) true); [discriminate|].
    destruct (k_dep (mk_calc d p cs rows [] true false) >? -1); [|discriminate].
    destruct (fwd_scan d p (mk_calc d p cs rows [] true false) true) as [fs| | | | | | | |]; try discriminate.
    cbn [bind] in H. destruct (f_count fs =? 0); [discriminate|].
    destruct (fwd_allnodes_loop d p (mk_calc d p cs rows [] true false) fs (d_nodes d)) as [l0| | | | | | | |] eqn:El;
      try discriminate.
    cbn [bind] in H. inversion H; subst l0. apply (fwd_loop_subseq _ _ _ _ _ _ El).
  - destruct (access_reason true (nonempty rows)); [discriminate|].
    set (k := with_rev (mk_calc d p cs [] rows false true) _ _ _ _) in *.
    destruct (k_arr k >? -1); [|discriminate].
    destruct (rev_scan d p k true) as [st| | | | | | | |]; try discriminate.
    cbn [bind] in H. destruct (r_count st =? 0); [discriminate|].
    destruct (rev_allnodes_loop d p k st (d_nodes d)) as [l0| | | | | | | |] eqn:El; try discriminate.
    cbn [bind] in H. inversion H; subst l0. apply (rev_loop_subseq _ _ _ _ _ _ El).
Qed.

(* ---------------------------------------------------------------------------------------------- *)
(* 5. C08_decl / C09_decl WITHOUT the hypothesis  q_except_lines p = []  (and, for C09, without uniform_wait_b).
   The original statements C08_full_statement / C09_full_statement do not restrict the excepted lines; the
   theorems FwdOpt.C08_decl_proved / RevOptCompose.C09_decl_proved carry that hypothesis (it is part of
   Optimal.C0x_decl_statement) but never use it.  The two proofs below are those proofs, replayed verbatim
   without the unused hypotheses. *)

Theorem C08_decl_any_except : forall d s p rows, wf_data_b d = true -> find_scenario d (q_scenario p) = Some s ->
  wf_tables_b d p rows [] = true -> wf_params_b p = true ->
  pos_hops_b d = true -> q_fwd p = true -> q_maxfw p <= 0 -> C08_decl d s p rows.
Proof.
  intros d s p rows Hwf _ Htab Hpar Hpos Hfwd Hfw.
  unfold C08_decl, access_answer, calc_allnodes. rewrite Hfwd.
  destruct rows as [|r0 rows'].
  { cbn [nonempty access_reason negb andb]. intros n t (ra & _ & [] & _). }
  set (rows := r0 :: rows') in *.
  change (access_reason (nonempty rows) true) with (@None nat). cbv zeta.
  set (K := mk_calc d p (conn_set d s) rows [] true false).
  assert (Ek : k_dep K = q_time p) by (unfold K, mk_calc; cbn [k_dep]; rewrite Hfwd; reflexivity).
  pose proof (wf_params_fields p Hpar) as (Hq & _).
  assert (Eg : (k_dep K >? -1) = true) by (apply Z.gtb_lt; lia). rewrite Eg.
  destruct (F_scan_total d s p rows [] Hwf false true) as (fs & Hscan). fold K in Hscan. rewrite Hscan. cbn [bind].
  destruct (f_count fs =? 0) eqn:Ec.
  { apply Z.eqb_eq in Ec.
    apply (F_allnodes_count_zero d s p rows [] Hwf Htab Hpar Hpos Hfwd Hfw false fs Hscan Ec). }
  destruct (fwd_allnodes_loop_total d p K fs
              (fun n j Hj => F_count_terminates d s p rows [] Hwf Htab Hpar Hpos Hfwd Hfw false true fs n j Hscan Hj)
              (d_nodes d)) as (l & El).
  rewrite El. cbn [bind].
  destruct (fwd_allnodes_loop_spec d p K fs (d_nodes d) l El) as (S1 & S2 & S3).
  split; [reflexivity|]. split.
  { apply S3. apply nodup_nat_NoDup. unfold wf_data_b in Hwf.
    peel Hwf X10. peel Hwf X9. peel Hwf X8. peel Hwf X7. peel Hwf X6. peel Hwf X5. peel Hwf X4. peel Hwf X3.
    peel Hwf X2. exact Hwf. }
  split.
  { intros a Ha. destruct (S1 a Ha) as (_ & j & b & e & _ & _ & _ & E1 & E2 & _). rewrite E1, E2, Ek. reflexivity. }
  intros n t. unfold earliest_alight. split.
  - intros Hin. apply in_map_iff in Hin. destruct Hin as (a & Ea & Ha). inversion Ea; subst n t.
    destruct (S1 a Ha) as (_ & j & b & e & Hj & Hb & He & E1 & _ & Hsp). rewrite Ek in Hsp.
    destruct (proj1 (F_allnodes_exact d s p rows [] Hwf Htab Hpar Hpos Hfwd Hfw false fs (an_node a) (an_time a) Hscan))
      as (A1 & A2 & A3).
    { exists j, b, e. rewrite E1. repeat (split; [first [reflexivity|assumption]|]). exact Hsp. }
    split; [split; assumption|exact A3].
  - intros [[A1 A2] A3].
    destruct (proj2 (F_allnodes_exact d s p rows [] Hwf Htab Hpar Hpos Hfwd Hfw false fs n t Hscan)
                    (conj A1 (conj A2 A3))) as (j & b & e & Hj & Hb & He & Et & Hsp).
    destruct (F_sound_egr d s p rows [] Hwf Htab Hpar Hpos Hfwd Hfw false true fs n j Hscan Hj)
      as (b' & e' & _ & He' & Hn & Hin & _).
    rewrite He in He'. inversion He'; subst e'.
    assert (Hnode : In n (d_nodes d)) by (rewrite <- Hn; apply (conn_to_node d e Hwf Hin)).
    destruct (S2 n j b e Hnode Hj Hb He) as (a & Ha & E1 & E2); [rewrite Ek, Et; exact Hsp|].
    apply in_map_iff. exists a. split; [|exact Ha]. rewrite E1, E2, Et. reflexivity.
Qed.

Theorem C09_decl_any_except : forall d s p rows, wf_data_b d = true -> find_scenario d (q_scenario p) = Some s ->
  wf_tables_b d p [] rows = true -> wf_params_b p = true ->
  pos_hops_b d = true -> q_fwd p = false -> C09_decl d s p rows.
Proof.
  intros d s p rows Hwf _ Htab Hp Hpos Hf.
  unfold C09_decl, access_answer, calc_allnodes. rewrite Hf.
  destruct (access_reason true (nonempty rows)) as [r0|] eqn:Ea.
  { intros n t (re & rides & m & t' & Hre & _). destruct rows as [|x rows']; [destruct Hre|].
    unfold access_reason, nonempty in Ea. cbn [negb andb] in Ea. discriminate Ea. }
  cbv zeta.
  set (k0 := mk_calc d p (conn_set d s) [] rows false true).
  set (k := with_rev k0 (k_arr k0) (-1) (k_taur k0) (set_usable (k_ov k0))).
  pose proof (calc_allnodes_rev_pre d s p rows Htab) as Hpre. cbv zeta in Hpre. fold k0 in Hpre. fold k in Hpre.
  assert (Ek : k_arr k = q_time p) by (unfold k, k0, with_rev, mk_calc; cbn [k_arr]; rewrite Hf; reflexivity).
  pose proof (wf_params_time p Hp) as Htime.
  assert (Eg : (k_arr k >? -1) = true) by (apply Z.gtb_lt; lia).
  rewrite Eg.
  destruct (rev_scan_total d p k true) as (st & Hscan).
  { rewrite (rp_set _ _ _ _ _ _ Hpre). unfold arr_sorted_desc. apply conn_set_rev_sorted. }
  { rewrite (rp_set _ _ _ _ _ _ Hpre). apply (proj2 (conn_set_indexes d s)). }
  rewrite Hscan, bind_Ok_eq.
  destruct (r_count st =? 0) eqn:Hcnt.
  { apply Z.eqb_eq in Hcnt. intros n t Hb Hspan.
    apply (allnodes_none d s p rows st Hwf Hp Htab Hpos Hf Hscan Hcnt n t Hb Hspan). }
  destruct (rev_scan_allnodes_simc d p k st Hscan) as (st' & Hscan' & ((_ & Esteps & _ & Eacc & _) & _)).
  destruct (allnodes_loop_spec d p k st (d_nodes d)) as (l & El & Em).
  { intros n start _ Hstart. rewrite Eacc in Hstart.
    destruct (allnodes_node_ok d s p [] rows (allnodes_calc k) st' n start Hwf Hp
                               (rev_pre_allnodes d s p [] rows k Hpre) Hscan' Hstart)
      as (b & legs & ln & er & js1 & used & _ & N2 & N3 & N4).
    exists legs, ln, er, js1, used. rewrite Esteps. split; [exact N2|]. split; [exact N3|exact N4]. }
  rewrite El, bind_Ok_eq.
  split; [reflexivity|].
  assert (Hkeys : map an_node l = map (fun x : nat * Z * Z => fst (fst x)) (flat_map (node_rows p k st) (d_nodes d))).
  { rewrite <- Em. rewrite map_map. reflexivity. }
  assert (Hkey_in : forall a, In a l ->
            exists start b, r_acc st (an_node a) = Some start /\ js_enter start = Some b /\
                            k_arr k - (c_dep b - minw_eff p b) <= q_maxtt p /\
                            an_time a = k_arr k /\ an_ttt a = k_arr k - (c_dep b - minw_eff p b)).
  { intros a Ha.
    assert (Hin : In (an_key a) (flat_map (node_rows p k st) (d_nodes d))) by (rewrite <- Em; apply in_map; exact Ha).
    apply in_flat_map in Hin. destruct Hin as (n0 & _ & Hx).
    destruct (node_rows_in p k st n0 (an_key a) Hx) as (start & b & A1 & A2 & A3 & A4).
    pose proof (f_equal (fun x : nat * Z * Z => fst (fst x)) A4) as B1.
    pose proof (f_equal (fun x : nat * Z * Z => snd (fst x)) A4) as B2.
    pose proof (f_equal (fun x : nat * Z * Z => snd x) A4) as B3.
    unfold an_key in B1, B2, B3. cbn [fst snd] in B1, B2, B3.
    exists start, b. rewrite B1. repeat split; assumption. }
  split; [|split].
  - rewrite Hkeys. apply node_rows_NoDup. apply nodup_nat_NoDup. apply wf_nodup_nodes. exact Hwf.
  - intros a Ha. destruct (Hkey_in a Ha) as (_ & _ & _ & _ & _ & T & _). rewrite T. exact Ek.
  - intros n t. split.
    + intros Hin. apply in_map_iff in Hin. destruct Hin as (a & Ea2 & Ha).
      destruct (Hkey_in a Ha) as (start & b & A1 & A2 & A3 & A4 & A5).
      pose proof (f_equal fst Ea2) as B1. pose proof (f_equal snd Ea2) as B2. cbn [fst snd] in B1, B2.
      rewrite B1 in A1.
      assert (Et : t = c_dep b - minw_eff p b) by lia.
      destruct (allnodes_latest d s p rows st n start b Hwf Hp Htab Hpos Hf Hscan A1 A2) as [S1 S2].
      rewrite Ek in A3. split; [split|].
      * rewrite Et. exact S1.
      * intros t1 Ht1. destruct (Z_le_gt_dec (q_time p - t1) (q_maxtt p)) as [Hw|Hw].
        -- rewrite Et. apply (S2 t1 Ht1 Hw).
        -- lia.
      * lia.
    + intros [[Hb Hmax] Hspan].
      destruct (allnodes_complete d s p rows st n t Hwf Hp Htab Hpos Hf Hscan Hb Hspan)
        as (_ & j & b & J1 & J2 & J3 & J4).
      destruct (allnodes_sound d s p rows st n j b Hwf Hp Htab Hf Hscan J1 J2) as [Hn Hs].
      pose proof (Hmax _ Hs) as Hle.
      assert (Et : t = c_dep b - minw_eff p b) by lia.
      assert (Hnode : In n (d_nodes d)) by (rewrite <- Hn; apply (conn_from_node d b Hwf J3)).
      assert (Hw : k_arr k - (c_dep b - minw_eff p b) <= q_maxtt p) by (rewrite Ek; lia).
      pose proof (node_rows_intro p k st n j b J1 J2 Hw) as Hrow.
      assert (Hin : In (n, k_arr k, k_arr k - (c_dep b - minw_eff p b)) (map an_key l)).
      { rewrite Em. apply in_flat_map. exists n. split; [exact Hnode|exact Hrow]. }
      apply in_map_iff in Hin. destruct Hin as (a & Ka & Ha).
      apply in_map_iff. exists a. split; [|exact Ha].
      pose proof (f_equal (fun x : nat * Z * Z => fst (fst x)) Ka) as B1.
      pose proof (f_equal (fun x : nat * Z * Z => snd (fst x)) Ka) as B2.
      pose proof (f_equal (fun x : nat * Z * Z => snd x) Ka) as B3.
      unfold an_key in B1, B2, B3. cbn [fst snd] in B1, B2, B3.
      rewrite B1. f_equal. lia.
Qed.

(* ---------------------------------------------------------------------------------------------- *)
(* 6. C08: the departure accessibility map IS the reference map (same entries, same order)           *)

Theorem C08_original :
  forall d s p rows, wf_data_b d = true -> find_scenario d (q_scenario p) = Some s ->
    wf_tables_b d p rows [] = true -> wf_params_b p = true -> pos_hops_b d = true -> q_fwd p = true -> q_maxfw p <= 0 ->
    match answer_access d s p rows with
    | Ok (l, total) => map (fun a => (an_node a, an_time a)) l = reach_map_fwd_ref d s p rows /\
                       total = Z.of_nat (length (d_nodes d)) /\
                       forall a, In a l -> an_ttt a = an_time a - q_time p
    | NoRouting _ => reach_map_fwd_ref d s p rows = []
    | _ => False
    end.
Proof.
  intros d s p rows Hwf Hsc Htab Hpar Hpos Hfwd Hfw.
  pose proof (C08_decl_any_except d s p rows Hwf Hsc Htab Hpar Hpos Hfwd Hfw) as HD.
  pose proof (reach_map_fwd_ref_correct d s p rows Hwf Hpar) as [_ HR].
  unfold C08_decl, access_answer in HD. unfold answer_access.
  destruct (calc_allnodes d (conn_set d s) p rows) as [[l total]|reason| | | | | | |] eqn:Ecalc; try exact HD.
  - destruct HD as (Htot & _ & Httt & Hiff).
    split; [|split; [exact Htot|exact Httt]].
    apply (subseq_keys_eq (d_nodes d)).
    + apply RevOptCompose.nodup_nat_NoDup. apply wf_nodup_nodes. exact Hwf.
    + rewrite map_map. cbn [fst]. apply (calc_allnodes_subseq _ _ _ _ _ _ Ecalc).
    + apply reach_map_fwd_ref_subseq.
    + intros [n t]. rewrite Hiff, HR. reflexivity.
  - destruct (reach_map_fwd_ref d s p rows) as [|[n t] m] eqn:E; [reflexivity|]. exfalso.
    destruct (proj1 (HR n t) (or_introl eq_refl)) as [[Ha _] Hsp]. apply (HD n t Ha Hsp).
Qed.

(* ---------------------------------------------------------------------------------------------- *)
(* 7. C09: the arrival accessibility map IS the reference map (same entries, same order).

   EXTRA HYPOTHESIS with respect to Properties_C09.C09_full_statement:   q_minw p < MAX_INT.
   It is needed by RefSpec.reach_map_rev_ref_correct: the reference solver marks "no label" with NEG = - MAX_INT,
   and with an absurdly large minimum waiting time the boarding-ready times (departure - minimum waiting) fall
   below NEG and are swallowed by the solver although the stops are declaratively (and for the router) usable —
   RefSpec.minw_bound_needed is a concrete instance (q_minw = 2 * MAX_INT: reference map empty, stop 2 has a
   latest ready time within the limit).  Every C++ `int` request value other than INT_MAX itself satisfies it.
   uniform_wait_b is part of the original statement; it is not used. *)

Theorem C09_original :
  forall d s p rows, wf_data_b d = true -> find_scenario d (q_scenario p) = Some s ->
    wf_tables_b d p [] rows = true -> wf_params_b p = true -> pos_hops_b d = true -> uniform_wait_b d = true -> q_fwd p = false ->
    q_minw p < MAX_INT ->
    match answer_access d s p rows with
    | Ok (l, total) => map (fun a => (an_node a, an_time a - an_ttt a)) l = reach_map_rev_ref d s p rows /\
                       total = Z.of_nat (length (d_nodes d)) /\
                       forall a, In a l -> an_time a = q_time p
    | NoRouting _ => reach_map_rev_ref d s p rows = []
    | _ => False
    end.
Proof.
  intros d s p rows Hwf Hsc Htab Hpar Hpos _ Hfwd Hminw.
  pose proof (C09_decl_any_except d s p rows Hwf Hsc Htab Hpar Hpos Hfwd) as HD.
  pose proof (reach_map_rev_ref_correct d s p rows Hwf Hpar Hminw) as [_ HR].
  unfold C09_decl, access_answer in HD. unfold answer_access.
  destruct (calc_allnodes d (conn_set d s) p rows) as [[l total]|reason| | | | | | |] eqn:Ecalc; try exact HD.
  - destruct HD as (Htot & _ & Htime & Hiff).
    split; [|split; [exact Htot|exact Htime]].
    apply (subseq_keys_eq (d_nodes d)).
    + apply RevOptCompose.nodup_nat_NoDup. apply wf_nodup_nodes. exact Hwf.
    + rewrite map_map. cbn [fst]. apply (calc_allnodes_subseq _ _ _ _ _ _ Ecalc).
    + apply reach_map_rev_ref_subseq.
    + intros [n t]. rewrite Hiff, HR. reflexivity.
  - destruct (reach_map_rev_ref d s p rows) as [|[n t] m] eqn:E; [reflexivity|]. exfalso.
    destruct (proj1 (HR n t) (or_introl eq_refl)) as [[Ha _] Hsp]. apply (HD n t Ha Hsp).
Qed.

(* The extra hypothesis is necessary: WITHOUT  q_minw p < MAX_INT  the original C09_full_statement is false.
   On the example data with RefSpec.p_bigw (q_minw = 2 * MAX_INT, q_maxtt = 4 * MAX_INT; all domain hypotheses hold)
   the router lists stop 2 while the reference map is empty.  This is a defect of the reference solver's NEG
   sentinel (i.e. of the statement), not of the modelled code. *)
Example C09_original_needs_minw_bound :
  wf_data_b ex_data = true /\ find_scenario ex_data (q_scenario p_bigw) = Some scen_all /\
  wf_tables_b ex_data p_bigw [] ex_egr = true /\ wf_params_b p_bigw = true /\ pos_hops_b ex_data = true /\
  uniform_wait_b ex_data = true /\ q_fwd p_bigw = false /\ ~ q_minw p_bigw < MAX_INT /\
  reach_map_rev_ref ex_data scen_all p_bigw ex_egr = [] /\
  match answer_access ex_data scen_all p_bigw ex_egr with
  | Ok (l, _) => map (fun a => (an_node a, an_time a - an_ttt a)) l = [(2%nat, 36600 - 2 * MAX_INT)]
  | _ => False
  end.
Proof. vm_compute. repeat split; try reflexivity. intros H; discriminate H. Qed.

Print Assumptions C03_original.
Print Assumptions C04_original.
Print Assumptions C05_original.
Print Assumptions C08_original.
Print Assumptions C09_original.

(* Summary.
   Proved (all Qed, no axioms): C03_original, C04_original, C05_original, C08_original — the bodies of
   Properties_C0x.C0x_full_statement verbatim (close them with `exact`); C09_original — the body of
   C09_full_statement with the additional hypothesis  q_minw p < MAX_INT  (placed last), which is necessary
   (C09_original_needs_minw_bound).
   Remarks: uniform_wait_b is not used in C04 / C05 / C09; q_except_lines p = [] is not needed for C08 / C09
   (C08_decl_any_except, C09_decl_any_except); the order of the accessibility lists follows from both sides
   enumerating d_nodes d front to back (subseq_keys_eq, calc_allnodes_subseq).
   OPEN: nothing of the task list. *)
