(* HandlerGuardsTie.v — the model's PROCESS-LEVEL GLUE (Params.v handle_update / update_names / response_code, Loader2.v
   handler_order / update_name / update / load_steps / status_of, Server.v step, Http.v http_serve / render) IS what
   tools/gen_handler_guards.py translated from the current C++ sources (gen/HandlerGuards.v, regenerated on every run):

     transit_routing_http_server.cpp, the /updateCache handler
       1a. the parameter keys read as cache names / as the custom path (the model has no such notion: expected constants,
           `names_keys`, `path_keys`), every other key does nothing
       1b. the body of the loop over the names = one block per kind of Loader2.handler_order IN THAT ORDER, each selected by its
           name or "all", each setting the flag and calling its update with the custom path, then the flag test
           (`update_loop_code`); run on any list of names it makes the calls of Loader2.update (`update_calls_code`,
           `update_is_code`) and accepts the names Params.update_names accepts (`update_accepted_code`)
       1c. the status is recomputed from the collections after the loop, into the variable the /v2 handlers read by reference
       1d. success object iff the string of accepted names is non-empty = Params.handle_update (`update_response_code`)
     getFastErrorResponse / intializeResponse / getResponseCode
       2.  the text for every enumerator; READY (= Loader.ST_READY = 0, the status Http.http_serve tests) is the only status
           with the empty text, i.e. the only one that is not answered on the fast path; the error codes of
           Params.response_code
     transit_data.cpp
       3.  loadAllData = Loader2.load_steps (order, the test after each update, final status from the collections); which
           update clears the scenario connection cache (Server.step ORefresh), which rebuilds the connection lists
     the /v2 handlers
       4.  fast path, factory, calculator method, exception -> response builder, status codes = Http.http_serve / render

   A dropped `correctCacheName = true`, a removed alias, two swapped blocks, a table in another order, a dropped case, a
   dropped `clear()` change gen/HandlerGuards.v and one of these lemmas stops compiling; comments, log lines, renamed locals
   do not. *)
From Coq Require Import List ZArith Bool Lia Arith String Ascii.
Import ListNotations.
From TrV Require Import Params Http Loader2.
From TrV Require gen.HandlerGuards gen.LoaderGuards Proofs.Loader2Proofs.
Local Open Scope list_scope.
Local Open Scope string_scope.
Local Open Scope nat_scope.
Local Open Scope bool_scope.

Module H := TrV.gen.HandlerGuards.
Module LGd := TrV.gen.LoaderGuards.

(* ============================================================================================== *)
(* texts                                                                                            *)

Definition text_in (s : string) (l : list string) : bool := existsb (String.eqb s) l.
Definition holds (c : H.text_cond) (s : string) : bool :=
  match c with H.TextIn l => text_in s l | H.TextNotIn l => negb (text_in s l) end.

Fixpoint concat_text (l : list string) : string := match l with [] => "" | x :: r => x ++ concat_text r end.

Lemma append_nil_r : forall s : string, s ++ "" = s.
Proof. induction s as [|c s IH]; [reflexivity | cbn [append]; rewrite IH; reflexivity]. Qed.

Lemma append_assoc : forall a b c : string, (a ++ b) ++ c = a ++ (b ++ c).
Proof. induction a as [|x a IH]; intros b c; [reflexivity | cbn [append]; rewrite IH; reflexivity]. Qed.

Lemma length_append : forall a b : string, String.length (a ++ b) = String.length a + String.length b.
Proof. induction a as [|x a IH]; intro b; [reflexivity | cbn [append String.length]; rewrite IH; reflexivity]. Qed.

Lemma concat_text_app : forall l1 l2, concat_text (l1 ++ l2)%list = concat_text l1 ++ concat_text l2.
Proof.
  induction l1 as [|x l1 IH]; intro l2; [reflexivity|].
  cbn [concat_text app]. rewrite IH, append_assoc. reflexivity.
Qed.

(* ============================================================================================== *)
(* 1a. the parameter keys of /updateCache                                                           *)

Definition names_keys : list string := ["names"; "caches"; "cache_names"; "name"; "cache"; "cache_name"].
Definition path_keys : list string := ["path"; "custom_path"; "custom_cache_path"].

(* what the handler does with a parameter of key k: the rules in source order, a rule that ends in `continue` stops *)
Fixpoint key_actions (rules : list (H.text_cond * H.key_action * bool)) (k : string) : list H.key_action :=
  match rules with
  | [] => []
  | (c, a, stop) :: r => if holds c k then a :: (if stop then [] else key_actions r k) else key_actions r k
  end.

Lemma update_key_rules_code :
  H.gen_update_key_rules = [ (H.TextIn names_keys, H.KA_names, true); (H.TextIn path_keys, H.KA_path, true) ].
Proof. reflexivity. Qed.

Theorem update_keys_code : forall k,
  key_actions H.gen_update_key_rules k =
  if text_in k names_keys then [H.KA_names] else if text_in k path_keys then [H.KA_path] else [].
Proof.
  intro k. rewrite update_key_rules_code. cbn [key_actions holds].
  destruct (text_in k names_keys); [reflexivity|]. destruct (text_in k path_keys); reflexivity.
Qed.

Theorem update_separators_code : H.gen_update_key_value_separator = "=" /\ H.gen_update_names_separator = ",".
Proof. split; reflexivity. Qed.

(* ============================================================================================== *)
(* 1b. the loop over the cache names                                                                *)

(* the spelling of the kinds of Loader2.v in the requests and in TransitData (ocaml/driver.ml cname_of is the same table) *)
Definition kind_name (k : kind) : string :=
  match k with
  | KDataSources => "data_sources" | KPersons => "persons" | KOdTrips => "od_trips" | KAgencies => "agencies"
  | KServices => "services" | KNodes => "nodes" | KLines => "lines" | KPaths => "paths" | KScenarios => "scenarios"
  | KSchedules => "schedules"
  end.
Definition kind_method (k : kind) : string :=
  match k with
  | KDataSources => "updateDataSources" | KPersons => "updatePersons" | KOdTrips => "updateOdTrips"
  | KAgencies => "updateAgencies" | KServices => "updateServices" | KNodes => "updateNodes" | KLines => "updateLines"
  | KPaths => "updatePaths" | KScenarios => "updateScenarios" | KSchedules => "updateSchedules"
  end.
Definition all_name : string := "all".

Definition cname_of (s : string) : cname :=
  if String.eqb s all_name then CAll
  else match find (fun k => String.eqb s (kind_name k)) handler_order with Some k => CName k | None => CUnknown end.

Definition method_kind (m : string) : option kind := find (fun k => String.eqb m (kind_method k)) handler_order.

Definition block_of (k : kind) : H.loop_item := H.Block (H.TextIn [kind_name k; all_name]) true [(kind_method k, true)].

(* one block per kind, in the order of Loader2.handler_order, every block sets the flag and hands the custom path on; then
   the flag test *)
Lemma update_loop_code : H.gen_update_loop = (map block_of handler_order ++ [H.Append true ","])%list.
Proof. reflexivity. Qed.

Lemma update_flag_code : H.gen_update_flag_init = false /\ H.gen_update_flag_per_name = false.
Proof. split; reflexivity. Qed.

(* the loop as the source writes it *)
Record ustate := { u_flag : bool; u_calls : list string; u_accepted : string }.

Definition run_item (name : string) (st : ustate) (it : H.loop_item) : ustate :=
  match it with
  | H.Block c sets calls =>
      if holds c name
      then {| u_flag := u_flag st || sets; u_calls := (u_calls st ++ map fst calls)%list; u_accepted := u_accepted st |}
      else st
  | H.Append needs suffix =>
      if negb needs || u_flag st
      then {| u_flag := u_flag st; u_calls := u_calls st; u_accepted := u_accepted st ++ (name ++ suffix) |}
      else st
  end.

Definition run_name (items : list H.loop_item) (per_name : bool) (st : ustate) (name : string) : ustate :=
  fold_left (run_item name) items
            (if per_name then {| u_flag := false; u_calls := u_calls st; u_accepted := u_accepted st |} else st).

Definition run_names (items : list H.loop_item) (per_name init : bool) (names : list string) : ustate :=
  fold_left (run_name items per_name) names {| u_flag := init; u_calls := []; u_accepted := "" |}.

Definition update_code (names : list string) : ustate :=
  run_names H.gen_update_loop H.gen_update_flag_per_name H.gen_update_flag_init names.

(* --- the names --- *)
Lemma kind_name_eqb : forall a b, String.eqb (kind_name a) (kind_name b) = kind_eqb b a.
Proof. intros a b; destruct a; destruct b; reflexivity. Qed.

Lemma kind_name_not_all : forall k, String.eqb (kind_name k) all_name = false.
Proof. intro k; destruct k; reflexivity. Qed.

Lemma kind_in_order : forall k, In k handler_order.
Proof. intro k; destruct k; cbn; tauto. Qed.

Lemma find_kind_name : forall k, find (fun k' => String.eqb (kind_name k) (kind_name k')) handler_order = Some k.
Proof. intro k; destruct k; reflexivity. Qed.

Lemma method_kind_method : forall k, method_kind (kind_method k) = Some k.
Proof. intro k; destruct k; reflexivity. Qed.

Lemma cname_of_kind : forall k, cname_of (kind_name k) = CName k.
Proof. intro k. unfold cname_of. rewrite kind_name_not_all, find_kind_name. reflexivity. Qed.

Lemma cname_of_all : cname_of all_name = CAll.
Proof. reflexivity. Qed.

(* the test of block k on a name = Loader2.selects on the decoded name *)
Lemma block_selects : forall n k, text_in n [kind_name k; all_name] = selects (cname_of n) k.
Proof.
  intros n k. unfold text_in, cname_of. cbn [existsb].
  destruct (String.eqb n all_name) eqn:Ea.
  - cbn [selects]. rewrite orb_true_r. reflexivity.
  - cbn [orb]. rewrite orb_false_r.
    destruct (find (fun k' => String.eqb n (kind_name k')) handler_order) as [k0|] eqn:F.
    + apply find_some in F. destruct F as [_ F]. apply String.eqb_eq in F. subst n.
      cbn [selects]. apply kind_name_eqb.
    + cbn [selects]. exact (find_none _ _ F k (kind_in_order k)).
Qed.

Definition known (n : string) : bool := match cname_of n with CUnknown => false | _ => true end.

Lemma known_selects : forall n, known n = existsb (selects (cname_of n)) handler_order.
Proof.
  intro n. unfold known.
  destruct (cname_of n) as [k| |] eqn:E.
  - symmetry. apply existsb_exists. exists k. split; [apply kind_in_order|].
    cbn [selects]. unfold kind_eqb. apply Nat.eqb_refl.
  - reflexivity.
  - reflexivity.
Qed.

(* a name is known iff it is "all" or the name of one of the ten refreshable collections *)
Lemma known_iff : forall n, known n = true <-> n = all_name \/ exists k, n = kind_name k.
Proof.
  intro n. unfold known, cname_of. split.
  - destruct (String.eqb n all_name) eqn:Ea; [intros _; left; apply String.eqb_eq; exact Ea|].
    destruct (find (fun k => String.eqb n (kind_name k)) handler_order) as [k|] eqn:F; [|discriminate].
    intros _. right. exists k. apply find_some in F. apply String.eqb_eq. exact (proj2 F).
  - intros [-> | [k ->]]; [reflexivity|]. rewrite kind_name_not_all, find_kind_name. reflexivity.
Qed.

(* --- one name through the blocks --- *)
Lemma run_block : forall n k st,
  run_item n st (block_of k) =
  if selects (cname_of n) k
  then {| u_flag := true; u_calls := (u_calls st ++ [kind_method k])%list; u_accepted := u_accepted st |}
  else st.
Proof.
  intros n k st. unfold block_of. cbn [run_item holds]. rewrite block_selects.
  destruct (selects (cname_of n) k); [|reflexivity].
  cbn [map fst]. rewrite orb_true_r. reflexivity.
Qed.

Lemma run_blocks : forall n ks st,
  fold_left (run_item n) (map block_of ks) st =
  {| u_flag := u_flag st || existsb (selects (cname_of n)) ks;
     u_calls := (u_calls st ++ map kind_method (filter (selects (cname_of n)) ks))%list;
     u_accepted := u_accepted st |}.
Proof.
  intros n ks. induction ks as [|k ks IH]; intro st.
  - cbn [map fold_left existsb filter]. rewrite orb_false_r, app_nil_r. destruct st; reflexivity.
  - cbn [map fold_left]. rewrite IH, run_block. cbn [existsb filter].
    destruct (selects (cname_of n) k).
    + cbn [u_flag u_calls u_accepted map orb]. rewrite orb_true_r, <- app_assoc. reflexivity.
    + cbn [orb]. reflexivity.
Qed.

Definition calls_of (n : string) : list string := map kind_method (filter (selects (cname_of n)) handler_order).

Lemma run_name_code : forall n st,
  run_name H.gen_update_loop H.gen_update_flag_per_name st n =
  let fl := u_flag st || known n in
  {| u_flag := fl; u_calls := (u_calls st ++ calls_of n)%list;
     u_accepted := if fl then u_accepted st ++ (n ++ ",") else u_accepted st |}.
Proof.
  intros n st. unfold run_name. rewrite update_loop_code. change H.gen_update_flag_per_name with false.
  rewrite fold_left_app, run_blocks. cbn [fold_left run_item negb orb u_flag u_calls u_accepted].
  rewrite <- known_selects. unfold calls_of. cbv zeta.
  destruct (u_flag st || known n); reflexivity.
Qed.

(* everything below is proved for ANY step function with the behaviour of run_name_code (so that no proof term mentions the
   generated table) *)
Definition known_opt (n : string) : option nat := if known n then Some 0 else None.

Section Names.
  Variable step : ustate -> string -> ustate.
  Hypothesis step_code : forall n st,
    step st n =
    let fl := u_flag st || known n in
    {| u_flag := fl; u_calls := (u_calls st ++ calls_of n)%list;
       u_accepted := if fl then u_accepted st ++ (n ++ ",") else u_accepted st |}.

  (* the calls made for a list of names: for every name, the updates Loader2.selects, in the order of handler_order *)
  Lemma steps_calls : forall names st,
    u_calls (fold_left step names st) = (u_calls st ++ flat_map calls_of names)%list.
  Proof.
    induction names as [|n r IH]; intro st.
    - cbn [fold_left flat_map]. rewrite app_nil_r. reflexivity.
    - cbn [fold_left flat_map]. rewrite IH, step_code. cbn [u_calls]. rewrite app_assoc. reflexivity.
  Qed.

  Lemma update_names_ge : forall l s i0 i, In i (update_names l s i0) -> i0 <= i.
  Proof.
    induction l as [|x l IHl]; intros s i0 i Hi; [destruct Hi|].
    cbn [update_names] in Hi. destruct (s || is_some x).
    - destruct Hi as [<- | Hi]; [lia|]. apply IHl in Hi. lia.
    - apply IHl in Hi. lia.
  Qed.

  Lemma steps_accepted : forall names st idx,
    u_accepted (fold_left step names st) =
    u_accepted st ++ concat_text (map (fun i => nth (i - idx) names "" ++ ",") (update_names (map known_opt names) (u_flag st) idx)).
  Proof.
    induction names as [|n r IH]; intros st idx.
    - cbn [fold_left map update_names concat_text]. rewrite append_nil_r. reflexivity.
    - cbn [fold_left map update_names]. rewrite (IH _ (S idx)), step_code. cbv zeta. cbn [u_flag u_accepted].
      assert (Hk : is_some (known_opt n) = known n) by (unfold known_opt; destruct (known n); reflexivity).
      rewrite Hk.
      assert (Hshift : forall l, (forall i, In i l -> S idx <= i) ->
                map (fun i => nth (i - S idx) r "" ++ ",") l = map (fun i => nth (i - idx) (n :: r) "" ++ ",") l).
      { intros l Hl. apply map_ext_in. intros i Hi. specialize (Hl i Hi).
        replace (i - idx) with (S (i - S idx)) by lia. reflexivity. }
      rewrite (Hshift _ (update_names_ge _ _ _)).
      destruct (u_flag st || known n).
      + cbn [map concat_text]. rewrite Nat.sub_diag. cbn [nth]. rewrite append_assoc. reflexivity.
      + reflexivity.
  Qed.
End Names.

Theorem update_calls_code : forall names, u_calls (update_code names) = flat_map calls_of names.
Proof. intro names. unfold update_code, run_names. rewrite (steps_calls _ run_name_code). reflexivity. Qed.

(* "all" makes every call, in the order of the blocks; a known name makes its own; any other text none *)
Theorem update_calls_all : calls_of all_name = map kind_method handler_order.
Proof. reflexivity. Qed.

Theorem update_calls_kind : forall k, calls_of (kind_name k) = [kind_method k].
Proof. intro k; destruct k; reflexivity. Qed.

Theorem update_calls_unknown : forall n, known n = false -> calls_of n = [].
Proof.
  intros n Hn. unfold calls_of. rewrite known_selects in Hn.
  replace (filter (selects (cname_of n)) handler_order) with (@nil kind); [reflexivity|].
  symmetry. induction handler_order as [|k ks IH]; [reflexivity|].
  cbn [existsb] in Hn. apply orb_false_iff in Hn. destruct Hn as [Hk Hks].
  cbn [filter]. rewrite Hk. exact (IH Hks).
Qed.

(* --- the same calls are what Loader2.update performs --- *)
Definition apply_call (f : fs) (s : srv) (m : string) : srv :=
  match method_kind m with Some k => update_one f s k | None => s end.

Lemma update_name_filter : forall f ks n s,
  fold_left (fun s k => if selects n k then update_one f s k else s) ks s = fold_left (update_one f) (filter (selects n) ks) s.
Proof.
  intros f ks n. induction ks as [|k ks IH]; intro s; [reflexivity|].
  cbn [fold_left filter]. destruct (selects n k); [cbn [fold_left]|]; apply IH.
Qed.

Lemma apply_calls_methods : forall f ks s,
  fold_left (apply_call f) (map kind_method ks) s = fold_left (update_one f) ks s.
Proof.
  intros f ks. induction ks as [|k ks IH]; intro s; [reflexivity|].
  cbn [map fold_left]. unfold apply_call at 2. rewrite method_kind_method. apply IH.
Qed.

Theorem update_is_code : forall f names s,
  update f (map cname_of names) s = fold_left (apply_call f) (u_calls (update_code names)) s.
Proof.
  intros f names. rewrite update_calls_code. unfold update.
  induction names as [|n r IH]; intro s; [reflexivity|].
  cbn [map fold_left flat_map]. rewrite fold_left_app. rewrite IH. f_equal.
  unfold update_name, calls_of. rewrite update_name_filter, apply_calls_methods. reflexivity.
Qed.

(* --- the accepted names are the ones Params.update_names lists --- *)
Theorem update_accepted_code : forall names,
  u_accepted (update_code names) =
  concat_text (map (fun i => nth i names "" ++ ",") (update_names (map known_opt names) false 0)).
Proof.
  intro names. unfold update_code, run_names. rewrite (steps_accepted _ run_name_code names _ 0).
  change H.gen_update_flag_init with false. cbn [u_accepted u_flag append].
  f_equal. apply map_ext. intro i. rewrite Nat.sub_0_r. reflexivity.
Qed.

(* a name counts as known iff some block names it (its own name, or "all") AND that block sets the flag *)
Theorem update_known_code : forall n,
  known n = existsb (fun it => match it with H.Block c sets _ => holds c n && sets | H.Append _ _ => false end) H.gen_update_loop.
Proof.
  intro n. rewrite update_loop_code, existsb_app. cbn [existsb]. rewrite orb_false_r, known_selects.
  induction handler_order as [|k ks IH]; [reflexivity|].
  cbn [map existsb]. rewrite IH. f_equal.
  change (selects (cname_of n) k = text_in n [kind_name k; all_name] && true).
  rewrite block_selects, andb_true_r. reflexivity.
Qed.

(* ============================================================================================== *)
(* 1c. the status after the handler; 1d. the response                                               *)

Definition status_after_code (r : H.status_refresh) (success : bool) (old : nat) (s : srv) : nat :=
  match r with
  | H.SR_always => status_of s
  | H.SR_never => old
  | H.SR_then => if success then status_of s else old
  | H.SR_else => if success then old else status_of s
  end.

Theorem update_status_code : forall success old s,
  status_after_code H.gen_update_status_refresh success old s = status_of s /\
  H.gen_update_status_shared_by_reference = true.
Proof. intros; split; reflexivity. Qed.

Definition drop_last (s : string) : string := substring 0 (String.length s - 1) s.

(* the response text the handler builds for these names and this custom path *)
Definition update_response (names : list string) (path : string) : string :=
  let acc := u_accepted (update_code names) in
  if H.gen_update_success_test (String.length acc)
  then H.gen_update_body_then (if H.gen_update_then_pops_last then drop_last acc else acc) path
  else H.gen_update_body_else (if H.gen_update_else_pops_last then drop_last acc else acc) path.

Definition success_body (names path : string) : string :=
  "{""status"": ""success"", ""cache_names"": """ ++ names ++ """, ""custom_cache_path"": """ ++ path ++ """}".
Definition error_body : string := "{""status"": ""error"", ""error"": ""missing or wrong cache name""}".

Lemma concat_text_empty : forall (names : list string) l,
  String.length (concat_text (map (fun i => nth i names "" ++ ",") l)) = 0 <-> l = [].
Proof.
  intros names l. destruct l as [|i l]; [split; reflexivity|].
  cbn [map concat_text]. rewrite !length_append. cbn [String.length]. split; [lia | discriminate].
Qed.

Theorem update_response_code : forall names path,
  update_response names path =
  match handle_update (map known_opt names) with
  | UError => error_body
  | USuccess l => success_body (drop_last (concat_text (map (fun i => nth i names "" ++ ",") l))) path
  end /\ H.gen_update_status_line = "HTTP/1.1 200 OK".
Proof.
  intros names path. split; [|reflexivity].
  unfold update_response, handle_update. rewrite update_accepted_code.
  unfold H.gen_update_success_test.
  destruct (update_names (map known_opt names) false 0) as [|i l] eqn:E.
  - reflexivity.
  - assert (Hpos : Nat.ltb 0 (String.length (concat_text (map (fun i0 => nth i0 names "" ++ ",") (i :: l)))) = true).
    { apply Nat.ltb_lt. cbn [map concat_text]. rewrite !length_append. cbn [String.length]. lia. }
    rewrite Hpos. reflexivity.
Qed.

(* ============================================================================================== *)
(* 2. status -> text of the fast answer, exception type -> error code                               *)

Theorem data_status_enum_code :
  H.gen_DS_READY = ST_READY /\ H.gen_DS_NO_AGENCIES = ST_NO_AGENCIES /\ H.gen_DS_NO_LINES = ST_NO_LINES /\
  H.gen_DS_NO_PATHS = ST_NO_PATHS /\ H.gen_DS_NO_SERVICES = ST_NO_SERVICES /\ H.gen_DS_NO_SCENARIOS = ST_NO_SCENARIOS /\
  H.gen_DS_NO_SCHEDULES = ST_NO_SCHEDULES /\ H.gen_DS_NO_NODES = ST_NO_NODES /\
  (* the two translators read the same header *)
  H.gen_DS_READY = LGd.gen_ST_READY /\ H.gen_DS_DATA_READ_ERROR = LGd.gen_ST_DATA_READ_ERROR /\
  H.gen_DS_NO_AGENCIES = LGd.gen_ST_NO_AGENCIES /\ H.gen_DS_NO_LINES = LGd.gen_ST_NO_LINES /\
  H.gen_DS_NO_PATHS = LGd.gen_ST_NO_PATHS /\ H.gen_DS_NO_SERVICES = LGd.gen_ST_NO_SERVICES /\
  H.gen_DS_NO_SCENARIOS = LGd.gen_ST_NO_SCENARIOS /\ H.gen_DS_NO_SCHEDULES = LGd.gen_ST_NO_SCHEDULES /\
  H.gen_DS_NO_NODES = LGd.gen_ST_NO_NODES.
Proof. repeat split; reflexivity. Qed.

(* the documented error code of every status of the model (Loader.ST_*; 1 = DATA_READ_ERROR, which getDataStatus never
   returns) *)
Definition status_error_code (st : nat) : option string :=
  if Nat.eqb st ST_READY then None
  else if Nat.eqb st 1 then Some "DATA_ERROR"
  else if Nat.eqb st ST_NO_AGENCIES then Some "MISSING_DATA_AGENCIES"
  else if Nat.eqb st ST_NO_LINES then Some "MISSING_DATA_LINES"
  else if Nat.eqb st ST_NO_PATHS then Some "MISSING_DATA_PATHS"
  else if Nat.eqb st ST_NO_SERVICES then Some "MISSING_DATA_SERVICES"
  else if Nat.eqb st ST_NO_SCENARIOS then Some "MISSING_DATA_SCENARIOS"
  else if Nat.eqb st ST_NO_SCHEDULES then Some "MISSING_DATA_SCHEDULES"
  else if Nat.eqb st ST_NO_NODES then Some "MISSING_DATA_NODES"
  else None.

Definition data_error_body (code : string) : string := "{""status"": ""data_error"", ""errorCode"": """ ++ code ++ """}".

Definition fast_error_expected (st : nat) : string :=
  if Nat.eqb st ST_READY then ""
  else match status_error_code st with Some c => data_error_body c | None => "PARAM_ERROR_UNKNOWN" end.

Lemma nat_cases_9 : forall (P : nat -> Prop),
  P 0 -> P 1 -> P 2 -> P 3 -> P 4 -> P 5 -> P 6 -> P 7 -> P 8 -> (forall n, P (9 + n)) -> forall n, P n.
Proof.
  intros P H0 H1 H2 H3 H4 H5 H6 H7 H8 Hr n.
  do 9 (destruct n as [|n]; [assumption|]). exact (Hr n).
Qed.

Lemma nat_cases_10 : forall (P : nat -> Prop),
  P 0 -> P 1 -> P 2 -> P 3 -> P 4 -> P 5 -> P 6 -> P 7 -> P 8 -> P 9 -> (forall n, P (10 + n)) -> forall n, P n.
Proof.
  intros P H0 H1 H2 H3 H4 H5 H6 H7 H8 H9 Hr n.
  do 10 (destruct n as [|n]; [assumption|]). exact (Hr n).
Qed.

(* every status, documented or not *)
Theorem fast_error_code : forall st, H.gen_fast_error st = fast_error_expected st.
Proof. apply nat_cases_9; reflexivity. Qed.

(* READY is the only status that is not answered on the fast path: the test `!response.empty()` of the three handlers is
   the test `status <> 0` of Http.http_serve *)
Theorem fast_path_iff_not_ready : forall st,
  negb (String.eqb (H.gen_fast_error st) "") = negb (Nat.eqb st 0).
Proof. apply nat_cases_9; reflexivity. Qed.

(* the statuses Loader.data_status can produce: the data_error object with the code naming the missing collection *)
Theorem fast_error_of_data_status : forall z,
  data_status z <> ST_READY ->
  exists c, status_error_code (data_status z) = Some c /\ H.gen_fast_error (data_status z) = data_error_body c.
Proof.
  intros z Hnr. rewrite fast_error_code. unfold fast_error_expected.
  unfold data_status in *.
  repeat match goal with |- context [if Nat.eqb ?a 0 then _ else _] => destruct (Nat.eqb a 0) end;
    try (eexists; split; reflexivity).
  exfalso. apply Hnr. reflexivity.
Qed.

(* intializeResponse (not called by any handler): same statuses, the older error object *)
Definition init_error_body (what code : string) : string :=
  "{""status"": ""error"", ""error"": {""error"": ""No " ++ what ++ " found"", ""code"": """ ++ code ++ """}}".
Definition init_response_expected (st : nat) : string :=
  if Nat.eqb st ST_READY then ""
  else if Nat.eqb st 1 then "{""status"": ""data_error""}"
  else if Nat.eqb st ST_NO_AGENCIES then init_error_body "agencies" "MISSING_DATA_AGENCIES"
  else if Nat.eqb st ST_NO_LINES then init_error_body "lines" "MISSING_DATA_LINES"
  else if Nat.eqb st ST_NO_PATHS then init_error_body "paths" "MISSING_DATA_PATHS"
  else if Nat.eqb st ST_NO_SERVICES then init_error_body "services" "MISSING_DATA_SERVICES"
  else if Nat.eqb st ST_NO_SCENARIOS then init_error_body "scenarios" "MISSING_DATA_SCENARIOS"
  else if Nat.eqb st ST_NO_SCHEDULES then init_error_body "schedules" "MISSING_DATA_SCHEDULES"
  else if Nat.eqb st ST_NO_NODES then init_error_body "nodes" "MISSING_DATA_NODES"
  else "PARAM_ERROR_UNKNOWN".

Theorem init_response_code : forall st, H.gen_init_response st = init_response_expected st.
Proof. apply nat_cases_9; reflexivity. Qed.

(* getResponseCode: the enumerators of ParameterException::Type are the E_* of Params.v, the texts the C_* of response_code *)
Theorem parameter_exception_enum_code :
  H.gen_PE_MISSING_SCENARIO = E_MISSING_SCENARIO /\ H.gen_PE_MISSING_ORIGIN = E_MISSING_ORIGIN /\
  H.gen_PE_MISSING_DESTINATION = E_MISSING_DESTINATION /\ H.gen_PE_MISSING_TIME_OF_TRIP = E_MISSING_TIME_OF_TRIP /\
  H.gen_PE_MISSING_PLACE = E_MISSING_PLACE /\ H.gen_PE_EMPTY_SCENARIO = E_EMPTY_SCENARIO /\
  H.gen_PE_INVALID_ORIGIN = E_INVALID_ORIGIN /\ H.gen_PE_INVALID_DESTINATION = E_INVALID_DESTINATION /\
  H.gen_PE_INVALID_PLACE = E_INVALID_PLACE /\ H.gen_PE_INVALID_NUMERICAL_DATA = E_INVALID_NUMERICAL_DATA.
Proof. repeat split; reflexivity. Qed.

Definition errcode_text (c : errcode) : string :=
  match c with
  | C_EMPTY_SCENARIO => "EMPTY_SCENARIO" | C_MISSING_PARAM_SCENARIO => "MISSING_PARAM_SCENARIO"
  | C_MISSING_PARAM_ORIGIN => "MISSING_PARAM_ORIGIN" | C_MISSING_PARAM_DESTINATION => "MISSING_PARAM_DESTINATION"
  | C_MISSING_PARAM_TIME_OF_TRIP => "MISSING_PARAM_TIME_OF_TRIP" | C_INVALID_ORIGIN => "INVALID_ORIGIN"
  | C_INVALID_DESTINATION => "INVALID_DESTINATION" | C_INVALID_NUMERICAL_DATA => "INVALID_NUMERICAL_DATA"
  | C_MISSING_PARAM_PLACE => "MISSING_PARAM_PLACE" | C_INVALID_PLACE => "INVALID_PLACE"
  | C_PARAM_ERROR_UNKNOWN => "PARAM_ERROR_UNKNOWN"
  end.

Theorem response_code_code : forall e, H.gen_response_code e = errcode_text (response_code e).
Proof. apply nat_cases_10; reflexivity. Qed.

(* ============================================================================================== *)
(* 3. transit_data.cpp: loadAllData, the update functions                                          *)

(* what an update does to the collections of the model and the code it returns: persons and odTrips are not modelled, their
   loaders always return 0 (Loader2.v); the data sources matter through their return code only *)
Definition reload_rc (f : fs) (m : string) (mm : mem) : mem * rc :=
  match method_kind m with
  | Some KNodes => reload_nodes f mm
  | Some KAgencies => reload_agencies f mm
  | Some KServices => reload_services f mm
  | Some KLines => reload_lines f mm
  | Some KPaths => reload_paths f mm
  | Some KScenarios => reload_scenarios f mm
  | Some KSchedules => reload_schedules f mm
  | Some KDataSources => (mm, load_datasources (f_datasources f))
  | Some KPersons | Some KOdTrips | None => (mm, RC_OK)
  end.

(* the int a fetcher returns for a code of the model; RC_EOTHER is -errno of a failed open(), any negative int but -ENOENT *)
Inductive rc_is : rc -> Z -> Prop :=
| rc_is_ok : rc_is RC_OK 0%Z
| rc_is_enoent : rc_is RC_ENOENT (-2)%Z
| rc_is_ebadmsg : rc_is RC_EBADMSG (-74)%Z
| rc_is_einval : rc_is RC_EINVAL (-22)%Z
| rc_is_eother : forall z, (z < 0)%Z -> z <> (-2)%Z -> rc_is RC_EOTHER z.
Definition rc_repr (r : rc) : Z :=
  match r with RC_OK => 0 | RC_ENOENT => -2 | RC_EBADMSG => -74 | RC_EINVAL => -22 | RC_EOTHER => -13 end%Z.

Lemma rc_repr_is : forall r, rc_is r (rc_repr r).
Proof. intro r; destruct r; cbn [rc_repr]; constructor; lia. Qed.

(* loadAllData as the source writes it: the updates in order, after each the test on its return code; Some st = returned st *)
Fixpoint load_steps_code (steps : list (string * (Z -> bool) * nat)) (f : fs) (m : mem) : mem * option nat :=
  match steps with
  | [] => (m, None)
  | (meth, test, st) :: r =>
      let '(m1, rc) := reload_rc f meth m in
      if test (rc_repr rc) then (m1, Some st) else load_steps_code r f m1
  end.

Definition fatal_unless_missing (ret : Z) : bool := (ret <? 0)%Z && negb (ret =? -2)%Z.
Definition fatal_if_negative (ret : Z) : bool := (ret <? 0)%Z.

(* the order of the updates, the test after each (a missing file is tolerated for the eight modelled collections), the status
   returned when it fires *)
Lemma load_all_steps_code :
  H.gen_load_all_steps =
  map (fun mt => (fst mt, snd mt, H.gen_DS_DATA_READ_ERROR))
      [ ("updateNodes", fatal_unless_missing); ("updateDataSources", fatal_unless_missing);
        ("updatePersons", fatal_if_negative); ("updateOdTrips", fatal_if_negative);
        ("updateAgencies", fatal_unless_missing); ("updateServices", fatal_unless_missing);
        ("updateLines", fatal_unless_missing); ("updatePaths", fatal_unless_missing);
        ("updateScenarios", fatal_unless_missing); ("updateSchedules", fatal_unless_missing) ] /\
  H.gen_load_all_final = H.LF_data_status /\ H.gen_main_status_from_collections = true.
Proof. repeat split; reflexivity. Qed.

(* "ret < 0 && ret != -ENOENT" is Loader2.rc_fatal, for every int a loader can return *)
Lemma fatal_unless_missing_code : forall r z, rc_is r z -> fatal_unless_missing z = rc_fatal r.
Proof.
  intros r z Hr. destruct Hr as [ | | | | z Hneg Hne]; try reflexivity.
  unfold fatal_unless_missing. cbn [rc_fatal].
  apply andb_true_iff. split; [apply Z.ltb_lt; exact Hneg | apply negb_true_iff, Z.eqb_neq; exact Hne].
Qed.

Lemma load_step_code : forall meth st r f m,
  load_steps_code ((meth, fatal_unless_missing, st) :: r) f m =
  let '(m1, rc) := reload_rc f meth m in if rc_fatal rc then (m1, Some st) else load_steps_code r f m1.
Proof.
  intros meth st r f m. cbn [load_steps_code]. destruct (reload_rc f meth m) as [m1 rc].
  rewrite (fatal_unless_missing_code rc _ (rc_repr_is rc)). reflexivity.
Qed.

Lemma load_step_skip : forall meth st r f m, reload_rc f meth m = (m, RC_OK) ->
  load_steps_code ((meth, fatal_if_negative, st) :: r) f m = load_steps_code r f m.
Proof. intros meth st r f m E. cbn [load_steps_code]. rewrite E. reflexivity. Qed.

(* Loader2.load_steps IS that loop *)
Theorem load_steps_is_code : forall f,
  load_steps f = (fst (load_steps_code H.gen_load_all_steps f mem_empty),
                  is_some (snd (load_steps_code H.gen_load_all_steps f mem_empty))).
Proof.
  intro f. rewrite (proj1 load_all_steps_code). cbn [map fst snd]. unfold load_steps.
  rewrite load_step_code. change (reload_rc f "updateNodes" mem_empty) with (reload_nodes f mem_empty).
  destruct (reload_nodes f mem_empty) as [m1 r1]. destruct (rc_fatal r1); [reflexivity|].
  rewrite load_step_code. change (reload_rc f "updateDataSources" m1) with (m1, load_datasources (f_datasources f)).
  cbv iota beta. destruct (rc_fatal (load_datasources (f_datasources f))); [reflexivity|].
  rewrite load_step_skip by reflexivity. rewrite load_step_skip by reflexivity.
  rewrite load_step_code. change (reload_rc f "updateAgencies" m1) with (reload_agencies f m1).
  destruct (reload_agencies f m1) as [m2 r2]. destruct (rc_fatal r2); [reflexivity|].
  rewrite load_step_code. change (reload_rc f "updateServices" m2) with (reload_services f m2).
  destruct (reload_services f m2) as [m3 r3]. destruct (rc_fatal r3); [reflexivity|].
  rewrite load_step_code. change (reload_rc f "updateLines" m3) with (reload_lines f m3).
  destruct (reload_lines f m3) as [m4 r4]. destruct (rc_fatal r4); [reflexivity|].
  rewrite load_step_code. change (reload_rc f "updatePaths" m4) with (reload_paths f m4).
  destruct (reload_paths f m4) as [m5 r5]. destruct (rc_fatal r5); [reflexivity|].
  rewrite load_step_code. change (reload_rc f "updateScenarios" m5) with (reload_scenarios f m5).
  destruct (reload_scenarios f m5) as [m6 r6]. destruct (rc_fatal r6); [reflexivity|].
  rewrite load_step_code. change (reload_rc f "updateSchedules" m6) with (reload_schedules f m6).
  destruct (reload_schedules f m6) as [m7 r7]. destruct (rc_fatal r7); reflexivity.
Qed.

(* the status a started server answers from: main recomputes it from the collections (the value loadAllData returned to the
   constructor is only logged), and loadAllData's own final value is getDataStatus() too *)
Definition start_status_code (from_collections : bool) (final : H.load_final) (returned : option nat) (m : mem) : nat :=
  if from_collections then data_status (sizes_of m)
  else match returned with
       | Some st => st
       | None => match final with H.LF_data_status => data_status (sizes_of m) | H.LF_const c => c end
       end.

Theorem load_all_is_code : forall f,
  load_all f =
  let r := load_steps_code H.gen_load_all_steps f mem_empty in
  (fst r, start_status_code H.gen_main_status_from_collections H.gen_load_all_final (snd r) (fst r)).
Proof. intro f. unfold load_all. rewrite load_steps_is_code. reflexivity. Qed.

(* the refresh of everything: the calls the handler makes for "all", from any state, leave what a restart on the files now on
   disk builds (Loader2Proofs.update_all_is_restart, which needs that no loader reports a fatal read error) *)
Theorem refresh_all_is_restart_code : forall f s, snd (load_steps f) = false ->
  sv_mem (fold_left (apply_call f) (u_calls (update_code [all_name])) s) = fst (load_all f) /\
  status_of (fold_left (apply_call f) (u_calls (update_code [all_name])) s) = snd (load_all f).
Proof.
  intros f s Hok. rewrite <- (update_is_code f [all_name] s).
  change (map cname_of [all_name]) with [CAll].
  exact (Loader2Proofs.update_all_is_restart f s Hok).
Qed.

(* --- the update functions --- *)
Definition kind_fetcher (k : kind) : string :=
  match k with
  | KDataSources => "getDataSources" | KPersons => "getPersons" | KOdTrips => "getOdTrips" | KAgencies => "getAgencies"
  | KServices => "getServices" | KNodes => "getNodes" | KLines => "getLines" | KPaths => "getPaths"
  | KScenarios => "getScenarios" | KSchedules => "getSchedules"
  end.
Definition kind_target (k : kind) : string :=
  match k with
  | KDataSources => "dataSources" | KPersons => "persons" | KOdTrips => "odTrips" | KAgencies => "agencies"
  | KServices => "services" | KNodes => "nodes" | KLines => "lines" | KPaths => "paths" | KScenarios => "scenarios"
  | KSchedules => "trips"
  end.
(* updateScenarios and updateSchedules empty the per-scenario connection cache; every modelled collection is emptied before it
   is read again (odTrips, not modelled, is not); updateSchedules also empties the connections and then rebuilds the sorted
   connection lists unless the fetcher failed *)
Definition kind_clears_cache (k : kind) : bool := match k with KScenarios | KSchedules => true | _ => false end.
Definition update_fn_expected (k : kind) : H.update_fn :=
  {| H.uf_method := kind_method k; H.uf_fetcher := kind_fetcher k; H.uf_target := kind_target k;
     H.uf_clears_cache := kind_clears_cache k;
     H.uf_target_cleared := match k with KOdTrips => false | _ => true end;
     H.uf_also_cleared := match k with KSchedules => ["connections"] | _ => [] end;
     H.uf_rebuilds := match k with KSchedules => true | _ => false end;
     H.uf_rebuild_needs_ok := match k with KSchedules => true | _ => false end |}.

Lemma update_fns_code :
  H.gen_update_fns =
  map update_fn_expected [KAgencies; KDataSources; KLines; KNodes; KOdTrips; KPaths; KPersons; KScenarios; KSchedules; KServices].
Proof. reflexivity. Qed.

Definition method_clears_cache (m : string) : bool :=
  existsb (fun u => String.eqb (H.uf_method u) m && H.uf_clears_cache u) H.gen_update_fns.
Definition method_replaces (m : string) : bool :=
  existsb (fun u => String.eqb (H.uf_method u) m && H.uf_target_cleared u) H.gen_update_fns.

Theorem clears_cache_code : forall k, method_clears_cache (kind_method k) = kind_clears_cache k.
Proof. intro k; destruct k; reflexivity. Qed.

(* every collection Loader2.reload_kind replaces is emptied before it is read again: reload_* builds it from the file alone *)
Theorem reload_replaces_code : forall k, In k [KAgencies; KServices; KNodes; KLines; KPaths; KScenarios; KSchedules] ->
  method_replaces (kind_method k) = true.
Proof.
  intros k Hk. cbn [In] in Hk.
  destruct Hk as [<- | [<- | [<- | [<- | [<- | [<- | [<- | []]]]]]]]; reflexivity.
Qed.

(* the refresh of Server.v (ORefresh: the data is replaced AND the per-scenario cache is emptied) is what the calls of a
   request naming "all", "scenarios" or "schedules" do; a request naming only other collections leaves the cache as it is *)
Definition refresh_code (calls : list string) (sv : server) (d' : data) : server :=
  {| sv_data := d'; sv_cache := if existsb method_clears_cache calls then cache_clear (sv_cache sv) else sv_cache sv |}.

Theorem refresh_clears_cache_code : forall names sv d',
  (exists n, In n names /\ (n = "all" \/ n = "scenarios" \/ n = "schedules")) ->
  snd (step sv (ORefresh d')) = refresh_code (u_calls (update_code names)) sv d'.
Proof.
  intros names sv d' [n [Hin Hn]]. cbn [step snd]. unfold refresh_code.
  replace (existsb method_clears_cache (u_calls (update_code names))) with true; [reflexivity|].
  symmetry. rewrite update_calls_code. apply existsb_exists.
  assert (Hc : exists m, In m (calls_of n) /\ method_clears_cache m = true).
  { destruct Hn as [-> | [-> | ->]].
    - exists "updateScenarios". split; [cbn; tauto | reflexivity].
    - exists "updateScenarios". split; [cbn; tauto | reflexivity].
    - exists "updateSchedules". split; [cbn; tauto | reflexivity]. }
  destruct Hc as [m [Hm Hcl]]. exists m. split; [|exact Hcl].
  apply in_flat_map. exists n. split; assumption.
Qed.

Theorem refresh_keeps_cache_code : forall names sv d',
  (forall n, In n names -> n <> "all" /\ n <> "scenarios" /\ n <> "schedules") ->
  refresh_code (u_calls (update_code names)) sv d' = {| sv_data := d'; sv_cache := sv_cache sv |}.
Proof.
  intros names sv d' Hn. unfold refresh_code.
  replace (existsb method_clears_cache (u_calls (update_code names))) with false; [reflexivity|].
  symmetry. rewrite update_calls_code. apply not_true_is_false. intro Hex.
  apply existsb_exists in Hex. destruct Hex as [m [Hm Hcl]]. apply in_flat_map in Hm. destruct Hm as [n [Hin Hm]].
  destruct (Hn n Hin) as [Ha [Hs Hd]]. unfold calls_of in Hm. apply in_map_iff in Hm. destruct Hm as [k [<- Hk]].
  apply filter_In in Hk. destruct Hk as [_ Hsel]. rewrite clears_cache_code in Hcl.
  unfold cname_of in Hsel.
  destruct (String.eqb n all_name) eqn:Ea; [apply String.eqb_eq in Ea; exact (Ha Ea)|].
  destruct (find (fun k0 => String.eqb n (kind_name k0)) handler_order) as [k0|] eqn:F; [|discriminate Hsel].
  apply find_some in F. destruct F as [_ F]. apply String.eqb_eq in F. cbn [selects] in Hsel.
  assert (k = k0) by (destruct k; destruct k0; try reflexivity; discriminate Hsel). subst k0.
  destruct k; try discriminate Hcl; [exact (Hs F) | exact (Hd F)].
Qed.


(* ============================================================================================== *)
(* 4. the three /v2 handlers                                                                        *)

Definition query_error_body (code : string) : string := "{""status"": ""query_error"", ""errorCode"": """ ++ code ++ """}".

Definition v2_expected (factory : string) (alt : option string) (single renderer : string) : H.v2_handler :=
  {| H.h_fast_path := true; H.h_fast_status := "HTTP/1.1 200 OK"; H.h_factory := factory;
     H.h_alt := match alt with Some m => Some (m, renderer ++ "::resultToJsonString") | None => None end;
     H.h_single := (single, renderer ++ "::resultToJsonString"); H.h_null_guard := true;
     H.h_inner_catch := [ ("NoRoutingFoundException", renderer ++ "::noRoutingFoundResponse") ];
     H.h_ok_status := "HTTP/1.1 200 OK";
     H.h_outer_catch := [ ("ParameterException", query_error_body, "HTTP/1.1 400 OK");
                          ("...", (fun _ => query_error_body "PARAM_ERROR_UNKNOWN"), "HTTP/1.1 400 OK") ] |}.

(* fast path first (answered 200), the factory, alternativesRouting / calculateSingle (calculateAllNodes), the renderer class,
   NoRoutingFoundException -> that class's noRoutingFoundResponse (answered 200 like a result), ParameterException -> query error
   with getResponseCode (400), anything else -> PARAM_ERROR_UNKNOWN (400) *)
Lemma v2_handlers_code :
  H.gen_v2_route = v2_expected "RouteParameters::createRouteODParameter" (Some "alternativesRouting") "calculateSingle" "ResultToV2Response" /\
  H.gen_v2_summary = v2_expected "RouteParameters::createRouteODParameter" (Some "alternativesRouting") "calculateSingle" "ResultToV2SummaryResponse" /\
  H.gen_v2_accessibility = v2_expected "AccessibilityParameters::createAccessibilityParameter" None "calculateAllNodes" "ResultToV2AccessibilityResponse".
Proof. repeat split; reflexivity. Qed.

Definition handler_of (ep : endpoint) : H.v2_handler :=
  match ep with ERoute => H.gen_v2_route | ESummary => H.gen_v2_summary | EAccess => H.gen_v2_accessibility end.

(* "HTTP/1.1 400 OK" -> 400 *)
Definition digit_of (c : ascii) : nat := nat_of_ascii c - 48.
Definition code_of_line (l : string) : nat :=
  match substring 9 3 l with
  | String a (String b (String c EmptyString)) => 100 * digit_of a + 10 * digit_of b + digit_of c
  | _ => 0
  end.

Definition catch_of (h : H.v2_handler) (ty : string) : option ((string -> string) * string) :=
  match find (fun c => String.eqb (fst (fst c)) ty) (H.h_outer_catch h) with
  | Some c => Some (snd (fst c), snd c)
  | None => None
  end.

(* --- the fast path: Http.http_serve's test `status <> 0` is `!getFastErrorResponse(dataStatus).empty()`, answered with the
   status line of the fast-path branch --- *)
Section V2.
  Variable uuid_of : Params.str -> option nat.

  Theorem v2_fast_path_code : forall sv st ep kvs acc egr,
    http_serve uuid_of sv st ep kvs acc egr =
    if H.h_fast_path (handler_of ep) && negb (String.eqb (H.gen_fast_error st) "")
    then (HttpR (code_of_line (H.h_fast_status (handler_of ep))) (HDataError st), sv)
    else
      let r := request_of uuid_of (sv_data sv) ep kvs acc egr in
      let '(a, sv1) := serve sv r in
      (render (sv_data sv) (is_summary ep) (echo_of_request r) a, sv1).
  Proof.
    intros sv st ep kvs acc egr. rewrite fast_path_iff_not_ready. unfold http_serve.
    destruct ep; cbn [handler_of]; (destruct (negb (Nat.eqb st 0)); reflexivity).
  Qed.

  (* --- the factory and the renderer class of each endpoint --- *)
  Definition factory_is_access (f : string) : bool := String.eqb f "AccessibilityParameters::createAccessibilityParameter".
  Definition factory_is_route (f : string) : bool := String.eqb f "RouteParameters::createRouteODParameter".
  Definition renders_summary (r : string) : bool := String.eqb r "ResultToV2SummaryResponse::resultToJsonString".

  Theorem v2_factory_code : forall d ep kvs,
    parse uuid_of d ep kvs =
    if factory_is_access (H.h_factory (handler_of ep))
    then match create_access (resolve uuid_of d) (Http.services_of d) kvs with
         | POk c => POk (c, false) | PErr e => PErr e | PExn => PExn
         end
    else create_route (resolve uuid_of d) (Http.services_of d) kvs.
  Proof. intros d ep kvs. destruct ep; reflexivity. Qed.

  Theorem v2_renderer_code : forall ep,
    factory_is_route (H.h_factory (handler_of ep)) = negb (factory_is_access (H.h_factory (handler_of ep))) /\
    is_summary ep = renders_summary (snd (H.h_single (handler_of ep))) /\
    (forall m r, H.h_alt (handler_of ep) = Some (m, r) -> r = snd (H.h_single (handler_of ep))) /\
    (H.h_alt (handler_of ep) = None <-> ep = EAccess).
  Proof.
    intro ep. destruct ep; (split; [reflexivity|]); (split; [reflexivity|]); split;
      try (intros m r E; injection E as _ <-; reflexivity); try (intros m r E; discriminate E);
      split; intro E; try discriminate E; reflexivity.
  Qed.
End V2.

(* --- which calculation: Server.respond is the calculator method the handler calls --- *)
Definition method_response (m : string) (d : data) (cs : connset) (r : request) : option response :=
  match r with
  | QRoute p _ acc egr =>
      if String.eqb m "alternativesRouting" then Some (AAlt (alternatives d cs p acc egr))
      else if String.eqb m "calculateSingle" then Some (ARoute (calc_single d cs p acc egr true))
      else None
  | QAccess p rows => if String.eqb m "calculateAllNodes" then Some (AAccess (calc_allnodes d cs p rows)) else None
  | QInvalid _ => None
  end.

Definition handler_method (h : H.v2_handler) (alt : bool) : string :=
  if alt then match H.h_alt h with Some (m, _) => m | None => fst (H.h_single h) end else fst (H.h_single h).

Theorem v2_calculation_code :
  (forall ep d cs p alt acc egr, ep <> EAccess ->
     method_response (handler_method (handler_of ep) alt) d cs (QRoute p alt acc egr) = Some (respond d cs (QRoute p alt acc egr))) /\
  (forall d cs p rows alt,
     method_response (handler_method (handler_of EAccess) alt) d cs (QAccess p rows) = Some (respond d cs (QAccess p rows))).
Proof.
  split.
  - intros ep d cs p alt acc egr Hep. destruct ep; [| |exfalso; apply Hep; reflexivity]; destruct alt; reflexivity.
  - intros d cs p rows alt. destruct alt; reflexivity.
Qed.

(* --- which exception gives which answer: Http.render / render_outcome --- *)
Theorem v2_exceptions_code : forall ep,
  (* a result: the status line sent after the inner try *)
  (forall (A : Type) (x : A) ok nr, render_outcome (Ok x) ok nr = HttpR (code_of_line (H.h_ok_status (handler_of ep))) (ok x)) /\
  (* NoRoutingFoundException is caught inside: the class's noRoutingFoundResponse, sent like a result *)
  (exists r, H.h_inner_catch (handler_of ep) = [("NoRoutingFoundException", r)]) /\
  (forall (A : Type) reason (ok : A -> http_body) nr,
     render_outcome (NoRouting reason) ok nr = HttpR (code_of_line (H.h_ok_status (handler_of ep))) (nr reason)) /\
  (* ParameterException: query error with the code of getResponseCode *)
  (exists body line, catch_of (handler_of ep) "ParameterException" = Some (body, line) /\
     (forall d summary q c, render d summary q (AError c) = HttpR (code_of_line line) (HQueryError (response_code c))) /\
     (forall c, body (H.gen_response_code c) = query_error_body (errcode_text (response_code c)))) /\
  (* anything else: PARAM_ERROR_UNKNOWN *)
  (exists body line, catch_of (handler_of ep) "..." = Some (body, line) /\
     (forall (A : Type) t (ok : A -> http_body) nr,
        render_outcome (Exn t) ok nr = HttpR (code_of_line line) (HQueryError C_PARAM_ERROR_UNKNOWN)) /\
     (forall c, body c = query_error_body (errcode_text C_PARAM_ERROR_UNKNOWN))).
Proof.
  intro ep.
  split; [intros; destruct ep; reflexivity|].
  split; [destruct ep; eexists; reflexivity|].
  split; [intros; destruct ep; reflexivity|].
  split.
  - exists query_error_body, "HTTP/1.1 400 OK". split; [destruct ep; reflexivity|]. split; [reflexivity|].
    intro c. rewrite response_code_code. reflexivity.
  - exists (fun _ => query_error_body "PARAM_ERROR_UNKNOWN"), "HTTP/1.1 400 OK".
    split; [destruct ep; reflexivity|]. split; reflexivity.
Qed.


Print Assumptions update_keys_code.
Print Assumptions update_is_code.
Print Assumptions update_accepted_code.
Print Assumptions update_response_code.
Print Assumptions fast_error_code.
Print Assumptions response_code_code.
Print Assumptions load_steps_is_code.
Print Assumptions load_all_is_code.
Print Assumptions refresh_clears_cache_code.
Print Assumptions refresh_keeps_cache_code.
Print Assumptions refresh_all_is_restart_code.
Print Assumptions v2_fast_path_code.
Print Assumptions v2_factory_code.
Print Assumptions v2_calculation_code.
Print Assumptions v2_exceptions_code.
