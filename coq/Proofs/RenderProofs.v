(* RenderProofs.v — C19: the /v2/summary aggregation (Render.v).
   The aggregated line list is sorted strictly by line id, names exactly the lines boarded, counts the
   boardings of each, conserves the total, is a function of the route answer and does not depend on the
   order of the routes. *)
From Coq Require Import List ZArith Bool Arith Lia Sorting.Sorted Permutation.
From TrV Require Import Render.
Import ListNotations.
Local Open Scope Z_scope.

Local Notation klt := (fun a b : nat * Z => (fst a < fst b)%nat).

(* ---------- one insertion ---------- *)

Lemma acc_line_keys : forall k m l,
  In l (map fst (acc_line k m)) <-> l = k \/ In l (map fst m).
Proof.
  intros k m l. induction m as [|[k' c] r IH]; cbn [acc_line].
  - cbn [map fst In]. intuition congruence.
  - destruct (Nat.eqb k k') eqn:E.
    + apply Nat.eqb_eq in E. subst k'. cbn [map fst In]. intuition congruence.
    + destruct (Nat.ltb k k') eqn:L.
      * cbn [map fst In]. intuition congruence.
      * cbn [map fst In]. rewrite IH. intuition congruence.
Qed.

Lemma acc_line_sorted : forall k m,
  StronglySorted klt m -> StronglySorted klt (acc_line k m).
Proof.
  intros k m H. induction H as [|[k' c] r Hs IH Hf]; cbn [acc_line].
  - constructor; constructor.
  - destruct (Nat.eqb k k') eqn:E.
    + constructor; [exact Hs|]. exact Hf.
    + destruct (Nat.ltb k k') eqn:L.
      * apply Nat.ltb_lt in L. constructor.
        -- constructor; assumption.
        -- constructor; [cbn [fst]; exact L|].
           eapply Forall_impl; [|exact Hf]. intros [k2 c2] H2. cbn [fst] in *. lia.
      * apply Nat.eqb_neq in E. apply Nat.ltb_ge in L.
        constructor; [exact IH|].
        apply Forall_forall. intros [k2 c2] Hin. cbn [fst].
        assert (Hk : In k2 (map fst (acc_line k r))).
        { apply in_map_iff. exists (k2, c2). split; [reflexivity|exact Hin]. }
        apply acc_line_keys in Hk. destruct Hk as [Hk|Hk]; [lia|].
        apply in_map_iff in Hk. destruct Hk as [[k3 c3] [Heq Hin3]].
        cbn [fst] in Heq. subst k3.
        rewrite Forall_forall in Hf. specialize (Hf _ Hin3). cbn [fst] in Hf. exact Hf.
Qed.

(* the count stored for a line: sum over the entries with that key (a single one when sorted) *)
Fixpoint get (l : nat) (m : list (nat * Z)) : Z :=
  match m with
  | [] => 0
  | (k, c) :: r => (if Nat.eqb l k then c else 0) + get l r
  end.

Definition tot (m : list (nat * Z)) : Z := fold_right Z.add 0 (map snd m).

Lemma get_acc_line : forall k m l,
  get l (acc_line k m) = get l m + (if Nat.eqb l k then 1 else 0).
Proof.
  intros k m l. induction m as [|[k' c] r IH]; cbn [acc_line].
  - cbn [get]. destruct (Nat.eqb l k); lia.
  - destruct (Nat.eqb k k') eqn:E.
    + apply Nat.eqb_eq in E. subst k'. cbn [get]. destruct (Nat.eqb l k); lia.
    + destruct (Nat.ltb k k') eqn:L.
      * cbn [get]. destruct (Nat.eqb l k); destruct (Nat.eqb l k'); lia.
      * cbn [get]. rewrite IH. destruct (Nat.eqb l k); destruct (Nat.eqb l k'); lia.
Qed.

Lemma tot_acc_line : forall k m, tot (acc_line k m) = tot m + 1.
Proof.
  intros k m. unfold tot. induction m as [|[k' c] r IH]; cbn [acc_line].
  - cbn [map snd fold_right]. lia.
  - destruct (Nat.eqb k k') eqn:E.
    + cbn [map snd fold_right]. lia.
    + destruct (Nat.ltb k k') eqn:L.
      * cbn [map snd fold_right]. lia.
      * cbn [map snd fold_right]. rewrite IH. lia.
Qed.

Lemma get_notin : forall l m, ~ In l (map fst m) -> get l m = 0.
Proof.
  intros l m. induction m as [|[k c] r IH]; intros Hn; cbn [get].
  - reflexivity.
  - cbn [map fst In] in Hn.
    destruct (Nat.eqb l k) eqn:E.
    + apply Nat.eqb_eq in E. exfalso. apply Hn. left. symmetry. exact E.
    + rewrite IH; [lia|]. intros Hin. apply Hn. right. exact Hin.
Qed.

Lemma sorted_head_notin : forall k c r,
  Forall (klt (k, c)) r -> ~ In k (map fst r).
Proof.
  intros k c r Hf Hin. apply in_map_iff in Hin. destruct Hin as [[k2 c2] [Heq Hin]].
  cbn [fst] in Heq. subst k2. rewrite Forall_forall in Hf. specialize (Hf _ Hin).
  cbn [fst] in Hf. lia.
Qed.

Lemma get_sorted_in : forall m l c,
  StronglySorted klt m -> In (l, c) m -> get l m = c.
Proof.
  intros m l c H. induction H as [|[k c'] r Hs IH Hf]; intros Hin.
  - destruct Hin.
  - cbn [get]. destruct Hin as [Heq|Hin].
    + inversion Heq. subst k c'. rewrite Nat.eqb_refl.
      rewrite (get_notin l r); [lia|]. eapply sorted_head_notin. exact Hf.
    + rewrite Forall_forall in Hf. pose proof (Hf _ Hin) as Hlt. cbn [fst] in Hlt.
      assert (E : Nat.eqb l k = false) by (apply Nat.eqb_neq; lia).
      rewrite E. rewrite (IH Hin). lia.
Qed.

(* ---------- the fold, over any accumulator ---------- *)

Definition accs (ls : list nat) (m : list (nat * Z)) : list (nat * Z) :=
  fold_left (fun m l => acc_line l m) ls m.

Lemma accs_sorted : forall ls m, StronglySorted klt m -> StronglySorted klt (accs ls m).
Proof.
  unfold accs. induction ls as [|a ls IH]; intros m Hm; cbn [fold_left].
  - exact Hm.
  - apply IH. apply acc_line_sorted. exact Hm.
Qed.

Lemma accs_keys : forall ls m l,
  In l (map fst (accs ls m)) <-> In l ls \/ In l (map fst m).
Proof.
  unfold accs. induction ls as [|a ls IH]; intros m l; cbn [fold_left In].
  - tauto.
  - rewrite IH. rewrite acc_line_keys. intuition congruence.
Qed.

Lemma accs_get : forall ls m l,
  get l (accs ls m) = get l m + Z.of_nat (count_occ Nat.eq_dec ls l).
Proof.
  unfold accs. induction ls as [|a ls IH]; intros m l; cbn [fold_left].
  - cbn [count_occ]. lia.
  - rewrite IH. rewrite get_acc_line.
    destruct (Nat.eq_dec a l) as [Heq|Hne].
    + rewrite (count_occ_cons_eq Nat.eq_dec ls Heq). subst a. rewrite Nat.eqb_refl. lia.
    + rewrite (count_occ_cons_neq Nat.eq_dec ls Hne).
      assert (E : Nat.eqb l a = false) by (apply Nat.eqb_neq; congruence).
      rewrite E. lia.
Qed.

Lemma accs_tot : forall ls m, tot (accs ls m) = tot m + Z.of_nat (length ls).
Proof.
  unfold accs. induction ls as [|a ls IH]; intros m; cbn [fold_left length].
  - lia.
  - rewrite IH. rewrite tot_acc_line. lia.
Qed.

(* characterisation of the entries of the aggregate *)
Lemma accs_entries : forall ls l c,
  In (l, c) (accs ls []) <-> c = Z.of_nat (count_occ Nat.eq_dec ls l) /\ 0 < c.
Proof.
  intros ls l c.
  assert (Hs : StronglySorted klt (accs ls [])) by (apply accs_sorted; constructor).
  split.
  - intros Hin.
    assert (Hc : c = Z.of_nat (count_occ Nat.eq_dec ls l)).
    { rewrite <- (get_sorted_in _ _ _ Hs Hin). rewrite accs_get. cbn [get]. lia. }
    split; [exact Hc|].
    assert (Hk : In l (map fst (accs ls []))).
    { apply in_map_iff. exists (l, c). split; [reflexivity|exact Hin]. }
    apply accs_keys in Hk. destruct Hk as [Hk|Hk]; [|destruct Hk].
    apply (count_occ_In Nat.eq_dec) in Hk. lia.
  - intros [Hc Hpos].
    assert (Hk : In l ls) by (apply (count_occ_In Nat.eq_dec); lia).
    assert (Hk' : In l (map fst (accs ls []))) by (apply accs_keys; left; exact Hk).
    apply in_map_iff in Hk'. destruct Hk' as [[l' c'] [Heq Hin]]. cbn [fst] in Heq. subst l'.
    assert (Hc' : c' = Z.of_nat (count_occ Nat.eq_dec ls l)).
    { rewrite <- (get_sorted_in _ _ _ Hs Hin). rewrite accs_get. cbn [get]. lia. }
    rewrite Hc. rewrite <- Hc'. exact Hin.
Qed.

(* a strictly sorted association list is determined by its set of entries *)
Lemma sorted_ext : forall m m' : list (nat * Z),
  StronglySorted klt m -> StronglySorted klt m' ->
  (forall p, In p m <-> In p m') -> m = m'.
Proof.
  intros m m' H. revert m'. induction H as [|a r Hs IH Hf]; intros m' Hs' Hext.
  - destruct m' as [|b r']; [reflexivity|].
    exfalso. apply (proj2 (Hext b)). left. reflexivity.
  - destruct m' as [|b r'].
    + exfalso. apply (proj1 (Hext a)). left. reflexivity.
    + apply StronglySorted_inv in Hs'. destruct Hs' as [Hs' Hf'].
      rewrite Forall_forall in Hf, Hf'.
      assert (Hab : a = b).
      { destruct (proj1 (Hext a) (or_introl eq_refl)) as [Hba|Hin1]; [symmetry; exact Hba|].
        destruct (proj2 (Hext b) (or_introl eq_refl)) as [Hab|Hin2]; [exact Hab|].
        pose proof (Hf' _ Hin1) as H1. pose proof (Hf _ Hin2) as H2. cbn beta in H1, H2. lia. }
      subst b. f_equal. apply IH; [exact Hs'|].
      intros p. split; intros Hin.
      * destruct (proj1 (Hext p) (or_intror Hin)) as [Hap|Hin']; [|exact Hin'].
        subst p. pose proof (Hf _ Hin) as H1. cbn beta in H1. lia.
      * destruct (proj2 (Hext p) (or_intror Hin)) as [Hap|Hin']; [|exact Hin'].
        subst p. pose proof (Hf' _ Hin) as H1. cbn beta in H1. lia.
Qed.

(* ---------- the theorems ---------- *)

Lemma summary_lines_accs : forall d rs, summary_lines d rs = accs (flat_map (route_lines d) rs) [].
Proof. reflexivity. Qed.

Theorem summary_lines_sorted : forall d rs,
  StronglySorted (fun a b => (fst a < fst b)%nat) (summary_lines d rs).
Proof.
  intros d rs. rewrite summary_lines_accs. apply accs_sorted. constructor.
Qed.

Theorem summary_lines_keys : forall d rs l,
  In l (map fst (summary_lines d rs)) <-> In l (flat_map (route_lines d) rs).
Proof.
  intros d rs l. rewrite summary_lines_accs. rewrite accs_keys. cbn [map In]. tauto.
Qed.

Theorem summary_lines_count : forall d rs l c, In (l, c) (summary_lines d rs) ->
  c = Z.of_nat (count_occ Nat.eq_dec (flat_map (route_lines d) rs) l) /\ 0 < c.
Proof.
  intros d rs l c Hin. rewrite summary_lines_accs in Hin. apply accs_entries. exact Hin.
Qed.

(* the converse: every boarded line has its entry (with summary_lines_count: an equivalence) *)
Theorem summary_lines_count_conv : forall d rs l,
  In l (flat_map (route_lines d) rs) ->
  In (l, Z.of_nat (count_occ Nat.eq_dec (flat_map (route_lines d) rs) l)) (summary_lines d rs).
Proof.
  intros d rs l Hin. rewrite summary_lines_accs. apply accs_entries.
  split; [reflexivity|]. apply (count_occ_In Nat.eq_dec) in Hin. lia.
Qed.

Theorem summary_lines_total : forall d rs,
  fold_right Z.add 0 (map snd (summary_lines d rs)) = Z.of_nat (length (flat_map (route_lines d) rs)).
Proof.
  intros d rs. rewrite summary_lines_accs.
  change (tot (accs (flat_map (route_lines d) rs) []) = Z.of_nat (length (flat_map (route_lines d) rs))).
  rewrite accs_tot. unfold tot. cbn [map fold_right]. lia.
Qed.

Theorem C19_summary_of_route_answer : forall d a n ls, summary_of d a = Some (n, ls) ->
  n = Z.of_nat (length (routes_of a)) /\ ls = summary_lines d (routes_of a).
Proof.
  intros d a n ls H. unfold summary_of in H.
  destruct a as [o|o|o|code].
  - destruct o as [[r x]|rr|cc|cc|t| | |t| ]; try discriminate H.
    + inversion H. subst n ls. cbn [routes_of length]. split; reflexivity.
    + inversion H. subst n ls. cbn [routes_of length]. split; reflexivity.
  - destruct o as [[rs x]|rr|cc|cc|t| | |t| ]; try discriminate H.
    + inversion H. subst n ls. cbn [routes_of]. split; reflexivity.
    + inversion H. subst n ls. cbn [routes_of length]. split; reflexivity.
  - discriminate H.
  - discriminate H.
Qed.

Theorem summary_lines_perm : forall d rs rs',
  Permutation rs rs' -> summary_lines d rs = summary_lines d rs'.
Proof.
  intros d rs rs' HP. rewrite !summary_lines_accs.
  assert (HP' : Permutation (flat_map (route_lines d) rs) (flat_map (route_lines d) rs')).
  { apply Permutation_flat_map. exact HP. }
  apply sorted_ext.
  - apply accs_sorted. constructor.
  - apply accs_sorted. constructor.
  - intros [l c]. rewrite !accs_entries.
    rewrite (proj1 (Permutation_count_occ Nat.eq_dec _ _) HP' l). tauto.
Qed.

(* more generally: the summary depends on the multiset of boarded lines only *)
Theorem summary_lines_multiset : forall d rs rs',
  Permutation (flat_map (route_lines d) rs) (flat_map (route_lines d) rs') ->
  summary_lines d rs = summary_lines d rs'.
Proof.
  intros d rs rs' HP'. rewrite !summary_lines_accs.
  apply sorted_ext.
  - apply accs_sorted. constructor.
  - apply accs_sorted. constructor.
  - intros [l c]. rewrite !accs_entries.
    rewrite (proj1 (Permutation_count_occ Nat.eq_dec _ _) HP' l). tauto.
Qed.

Print Assumptions summary_lines_sorted.
Print Assumptions summary_lines_keys.
Print Assumptions summary_lines_count.
Print Assumptions summary_lines_count_conv.
Print Assumptions summary_lines_total.
Print Assumptions C19_summary_of_route_answer.
Print Assumptions summary_lines_perm.
Print Assumptions summary_lines_multiset.
