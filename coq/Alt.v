(* Alt.v — Calculator::alternativesRouting (alternatives_routing.cpp) as data, and its interpreter.

   tools/gen_loops.py parses the function into a statement tree (gen/Alt.v, type `askel`): the counters and their
   initial values, the first calculation, the derivation of the maximum travel time of the recalculations, the
   construction of the recalculation parameters, the initial combinations, the loop over `allCombinations` (which grows
   while it is traversed) with its caps, `try { calculateSingle } catch (NoRoutingFoundException)`, the duplicate test
   against `alreadyFoundLines`, what is pushed where, and the result.  Conditions and operands are TRANSLATED source
   expressions over the machine.  The float expression `ratio * t + s` is translated the way Calc.alt_maxtt models it:
   the ratio is GEN_ALT_RATIO_QUARTERS / 4 (gen/Consts.v), so the value is (Q * t + 4 * s) / 4 exactly (no rounding below
   2^22 s), and the conversion to int truncates toward zero: Z.quot (Q * t + 4 * s) 4.

   Recognised as one statement each (their inner text is compared with the expected one; anything else is a fallback):
   the two nested loops that compute `combinationMatchesWithAtLeastOneFailed` (AMatchFailed), the loop that appends the
   combination to the except-lines of the recalculation parameters, `for k / Combinations(lines, k) / for newCombination`
   (AForCombs), log-only loops (dropped).

   Proofs/LoopsTie.v proves that the model (Calc.alt_maxtt, alt_loop, alternatives) computes what this interpreter
   computes on the generated tree. *)
From Coq Require Import List ZArith Bool.
From TrV Require Import gen.Consts Scan Journey Calc.
Import ListNotations.
Local Open Scope Z_scope.
Local Open Scope bool_scope.

(* field updates of the model's loop state (Calc.alt_st: alternatives.alternatives, allCombinations, failedCombinations,
   alreadyCalculatedCombinations, alreadyFoundLines, alternativeSequence, alternativesCalculatedCount) *)
Definition ss_a_routes (v : list route) (s : alt_st) : alt_st :=
  {| a_routes := v; a_all := a_all s; a_failed := a_failed s; a_calculated := a_calculated s; a_found := a_found s; a_seq := a_seq s; a_count := a_count s |}.
Definition ss_a_all (v : list (list nat)) (s : alt_st) : alt_st :=
  {| a_routes := a_routes s; a_all := v; a_failed := a_failed s; a_calculated := a_calculated s; a_found := a_found s; a_seq := a_seq s; a_count := a_count s |}.
Definition ss_a_failed (v : list (list nat)) (s : alt_st) : alt_st :=
  {| a_routes := a_routes s; a_all := a_all s; a_failed := v; a_calculated := a_calculated s; a_found := a_found s; a_seq := a_seq s; a_count := a_count s |}.
Definition ss_a_calculated (v : list (list nat)) (s : alt_st) : alt_st :=
  {| a_routes := a_routes s; a_all := a_all s; a_failed := a_failed s; a_calculated := v; a_found := a_found s; a_seq := a_seq s; a_count := a_count s |}.
Definition ss_a_found (v : list (list nat)) (s : alt_st) : alt_st :=
  {| a_routes := a_routes s; a_all := a_all s; a_failed := a_failed s; a_calculated := a_calculated s; a_found := v; a_seq := a_seq s; a_count := a_count s |}.
Definition ss_a_seq (v : Z) (s : alt_st) : alt_st :=
  {| a_routes := a_routes s; a_all := a_all s; a_failed := a_failed s; a_calculated := a_calculated s; a_found := a_found s; a_seq := v; a_count := a_count s |}.
Definition ss_a_count (v : Z) (s : alt_st) : alt_st :=
  {| a_routes := a_routes s; a_all := a_all s; a_failed := a_failed s; a_calculated := a_calculated s; a_found := a_found s; a_seq := a_seq s; a_count := v |}.

(* the other variables of the function *)
Record alocals := {
  al_maxtt : Z;                   (* maxTravelTime *)
  al_maxalt : Z;                  (* maxAlternatives *)
  al_lastfound : Z;               (* lastFoundedAtNum *)
  al_fl : list nat;               (* foundLines *)
  al_comb : list nat;             (* combination *)
  al_nc : list nat;               (* newCombination *)
  al_ex : list nat;               (* alternativeParameters.exceptLines *)
  al_flag : bool;                 (* combinationMatchesWithAtLeastOneFailed *)
  al_first : route;               (* routingResult (the first result) *)
  al_res : route;                 (* *result *)
  al_altp : Z;                    (* the maximum travel time alternativeParameters was constructed with *)
  al_i : nat;                     (* i *)
  al_total : Z                    (* alternatives.totalAlternativesCalculated *) }.
Definition ls_al_maxtt (v : Z) (s : alocals) : alocals :=
  {| al_maxtt := v; al_maxalt := al_maxalt s; al_lastfound := al_lastfound s; al_fl := al_fl s; al_comb := al_comb s; al_nc := al_nc s; al_ex := al_ex s; al_flag := al_flag s; al_first := al_first s; al_res := al_res s; al_altp := al_altp s; al_i := al_i s; al_total := al_total s |}.
Definition ls_al_maxalt (v : Z) (s : alocals) : alocals :=
  {| al_maxtt := al_maxtt s; al_maxalt := v; al_lastfound := al_lastfound s; al_fl := al_fl s; al_comb := al_comb s; al_nc := al_nc s; al_ex := al_ex s; al_flag := al_flag s; al_first := al_first s; al_res := al_res s; al_altp := al_altp s; al_i := al_i s; al_total := al_total s |}.
Definition ls_al_lastfound (v : Z) (s : alocals) : alocals :=
  {| al_maxtt := al_maxtt s; al_maxalt := al_maxalt s; al_lastfound := v; al_fl := al_fl s; al_comb := al_comb s; al_nc := al_nc s; al_ex := al_ex s; al_flag := al_flag s; al_first := al_first s; al_res := al_res s; al_altp := al_altp s; al_i := al_i s; al_total := al_total s |}.
Definition ls_al_fl (v : list nat) (s : alocals) : alocals :=
  {| al_maxtt := al_maxtt s; al_maxalt := al_maxalt s; al_lastfound := al_lastfound s; al_fl := v; al_comb := al_comb s; al_nc := al_nc s; al_ex := al_ex s; al_flag := al_flag s; al_first := al_first s; al_res := al_res s; al_altp := al_altp s; al_i := al_i s; al_total := al_total s |}.
Definition ls_al_comb (v : list nat) (s : alocals) : alocals :=
  {| al_maxtt := al_maxtt s; al_maxalt := al_maxalt s; al_lastfound := al_lastfound s; al_fl := al_fl s; al_comb := v; al_nc := al_nc s; al_ex := al_ex s; al_flag := al_flag s; al_first := al_first s; al_res := al_res s; al_altp := al_altp s; al_i := al_i s; al_total := al_total s |}.
Definition ls_al_nc (v : list nat) (s : alocals) : alocals :=
  {| al_maxtt := al_maxtt s; al_maxalt := al_maxalt s; al_lastfound := al_lastfound s; al_fl := al_fl s; al_comb := al_comb s; al_nc := v; al_ex := al_ex s; al_flag := al_flag s; al_first := al_first s; al_res := al_res s; al_altp := al_altp s; al_i := al_i s; al_total := al_total s |}.
Definition ls_al_ex (v : list nat) (s : alocals) : alocals :=
  {| al_maxtt := al_maxtt s; al_maxalt := al_maxalt s; al_lastfound := al_lastfound s; al_fl := al_fl s; al_comb := al_comb s; al_nc := al_nc s; al_ex := v; al_flag := al_flag s; al_first := al_first s; al_res := al_res s; al_altp := al_altp s; al_i := al_i s; al_total := al_total s |}.
Definition ls_al_flag (v : bool) (s : alocals) : alocals :=
  {| al_maxtt := al_maxtt s; al_maxalt := al_maxalt s; al_lastfound := al_lastfound s; al_fl := al_fl s; al_comb := al_comb s; al_nc := al_nc s; al_ex := al_ex s; al_flag := v; al_first := al_first s; al_res := al_res s; al_altp := al_altp s; al_i := al_i s; al_total := al_total s |}.
Definition ls_al_first (v : route) (s : alocals) : alocals :=
  {| al_maxtt := al_maxtt s; al_maxalt := al_maxalt s; al_lastfound := al_lastfound s; al_fl := al_fl s; al_comb := al_comb s; al_nc := al_nc s; al_ex := al_ex s; al_flag := al_flag s; al_first := v; al_res := al_res s; al_altp := al_altp s; al_i := al_i s; al_total := al_total s |}.
Definition ls_al_res (v : route) (s : alocals) : alocals :=
  {| al_maxtt := al_maxtt s; al_maxalt := al_maxalt s; al_lastfound := al_lastfound s; al_fl := al_fl s; al_comb := al_comb s; al_nc := al_nc s; al_ex := al_ex s; al_flag := al_flag s; al_first := al_first s; al_res := v; al_altp := al_altp s; al_i := al_i s; al_total := al_total s |}.
Definition ls_al_altp (v : Z) (s : alocals) : alocals :=
  {| al_maxtt := al_maxtt s; al_maxalt := al_maxalt s; al_lastfound := al_lastfound s; al_fl := al_fl s; al_comb := al_comb s; al_nc := al_nc s; al_ex := al_ex s; al_flag := al_flag s; al_first := al_first s; al_res := al_res s; al_altp := v; al_i := al_i s; al_total := al_total s |}.
Definition ls_al_i (v : nat) (s : alocals) : alocals :=
  {| al_maxtt := al_maxtt s; al_maxalt := al_maxalt s; al_lastfound := al_lastfound s; al_fl := al_fl s; al_comb := al_comb s; al_nc := al_nc s; al_ex := al_ex s; al_flag := al_flag s; al_first := al_first s; al_res := al_res s; al_altp := al_altp s; al_i := v; al_total := al_total s |}.
Definition ls_al_total (v : Z) (s : alocals) : alocals :=
  {| al_maxtt := al_maxtt s; al_maxalt := al_maxalt s; al_lastfound := al_lastfound s; al_fl := al_fl s; al_comb := al_comb s; al_nc := al_nc s; al_ex := al_ex s; al_flag := al_flag s; al_first := al_first s; al_res := al_res s; al_altp := al_altp s; al_i := al_i s; al_total := v |}.

Record amach := { am_st : alt_st; am_l : alocals }.
Definition on_st (f : alt_st -> alt_st) (m : amach) : amach := {| am_st := f (am_st m); am_l := am_l m |}.
Definition on_l (f : alocals -> alocals) (m : amach) : amach := {| am_st := am_st m; am_l := f (am_l m) |}.

(* what the function is given *)
Record aenv := { ae_d : data; ae_cs : connset; ae_p : params; ae_acc : list fprow; ae_egr : list fprow }.

Inductive avar := VSeq | VCount | VMaxtt | VMaxalt | VLastFound.        (* the int variables *)
Inductive alvar := LFound | LComb | LNew | LExcept.                      (* foundLines, combination, newCombination, exceptLines *)
Inductive acoll := CAll | CFailed | CCalculated | CFoundLines.           (* the collections of line lists *)

Definition set_z (x : avar) (v : Z) (m : amach) : amach :=
  match x with
  | VSeq => on_st (ss_a_seq v) m | VCount => on_st (ss_a_count v) m
  | VMaxtt => on_l (ls_al_maxtt v) m | VMaxalt => on_l (ls_al_maxalt v) m | VLastFound => on_l (ls_al_lastfound v) m
  end.
Definition set_list (x : alvar) (v : list nat) (m : amach) : amach :=
  match x with
  | LFound => on_l (ls_al_fl v) m | LComb => on_l (ls_al_comb v) m | LNew => on_l (ls_al_nc v) m
  | LExcept => on_l (ls_al_ex v) m
  end.
(* push_back on a vector; `m[key] = true` on a map used as a set *)
Definition push_coll (c : acoll) (v : list nat) (m : amach) : amach :=
  match c with
  | CAll => on_st (fun s => ss_a_all (a_all s ++ [v]) s) m
  | CFailed => on_st (fun s => ss_a_failed (a_failed s ++ [v]) s) m
  | CCalculated => on_st (fun s => ss_a_calculated (a_calculated s ++ [v]) s) m
  | CFoundLines => on_st (fun s => ss_a_found (a_found s ++ [v]) s) m
  end.

Inductive askel :=
| ASetZ (x : avar) (f : aenv -> amach -> Z) (k : askel)
| ASetList (x : alvar) (f : aenv -> amach -> list nat) (k : askel)
| APush (c : acoll) (f : aenv -> amach -> list nat) (k : askel)
| APushRoute (f : aenv -> amach -> route) (k : askel)        (* alternatives.alternatives.push_back(std::move(result)) *)
| ACalcFirst (k : askel)                                      (* result = calculateSingle(parameters); routingResult = *result *)
| ANewAltParams (f : aenv -> amach -> Z) (k : askel)         (* alternativeParameters: the request with max travel time f *)
| ATryCalc (body handler : askel) (k : askel)
    (* try { result = calculateSingle(alternativeParameters, false, true); body } catch (NoRoutingFoundException&) { handler } *)
| AIf (g : aenv -> amach -> bool) (th el : askel) (k : askel)
| AForCombs (src : aenv -> amach -> list nat) (body : askel) (k : askel)
    (* for k in 1 .. src.size(): for newCombination in Combinations(src, k): body *)
| AMatchFailed (k : askel)      (* combinationMatchesWithAtLeastOneFailed = newCombination contains a failed combination *)
| AForAll (body : askel) (k : askel)                          (* for (i = 0; i < allCombinations.size(); i++) body *)
| AResultCount (f : aenv -> amach -> Z) (k : askel)          (* alternatives.totalAlternativesCalculated = f *)
| ASeq (a : askel) (k : askel)                                (* a named group of statements, then k *)
| ADone.

(* the loop over allCombinations; as in the model the fuel only bounds the recursion (ALT_FUEL is never exhausted: at most
   MAX_ALTERNATIVES calculations happen) and running out of it ends the loop *)
Fixpoint aforall {R : Type} (body : (amach -> outcome R) -> amach -> outcome R) (after : amach -> outcome R)
         (fuel : nat) (m : amach) {struct fuel} : outcome R :=
  match fuel with
  | O => after m
  | S f =>
      if Nat.ltb (al_i (am_l m)) (length (a_all (am_st m)))
      then body (fun m' => aforall body after f (on_l (fun l => ls_al_i (S (al_i l)) l) m')) m
      else after m
  end.

(* one new combination: the range-for variable is set, the body runs to its end *)
Definition acomb_step (runbody : amach -> outcome amach) (o : outcome amach) (nc0 : list nat) : outcome amach :=
  match o with
  | Ok m1 => runbody (on_l (ls_al_nc nc0) m1)
  | err => err
  end.

(* an exception other than NoRoutingFound leaves the function *)
Definition pass_error {A R : Type} (o : outcome A) : outcome R :=
  match o with
  | Ok _ => Crash | NoRouting r => NoRouting r | ParamErr c => ParamErr c | DataErr c => DataErr c | Exn t => Exn t
  | NoReply => NoReply | Crash => Crash | UB t => UB t | Hang => Hang
  end.

Fixpoint arun (e : aenv) (fuel : nat) (s : askel) (R : Type) (kont : amach -> outcome R) (m : amach) {struct s} : outcome R :=
  match s with
  | ADone => kont m
  | ASetZ x f k => arun e fuel k R kont (set_z x (f e m) m)
  | ASetList x f k => arun e fuel k R kont (set_list x (f e m) m)
  | APush c f k => arun e fuel k R kont (push_coll c (f e m) m)
  | APushRoute f k => arun e fuel k R kont (on_st (fun s => ss_a_routes (a_routes s ++ [f e m]) s) m)
  | ACalcFirst k =>
      match calc_single (ae_d e) (ae_cs e) (ae_p e) (ae_acc e) (ae_egr e) true with
      | Ok (r, _) => arun e fuel k R kont (on_l (fun l => ls_al_res r (ls_al_first r l)) m)
      | o => pass_error o
      end
  | ANewAltParams f k => arun e fuel k R kont (on_l (ls_al_altp (f e m)) m)
  | ATryCalc body handler k =>
      match calc_single (ae_d e) (ae_cs e) (with_alt (ae_p e) (al_altp (am_l m)) (al_ex (am_l m))) (ae_acc e) (ae_egr e) false with
      | Ok (r, _) => arun e fuel body R (arun e fuel k R kont) (on_l (ls_al_res r) m)
      | NoRouting _ => arun e fuel handler R (arun e fuel k R kont) m
      | o => pass_error o
      end
  | AIf g th el k => if g e m then arun e fuel th R (arun e fuel k R kont) m else arun e fuel el R (arun e fuel k R kont) m
  | AForCombs src body k =>
      match fold_left (acomb_step (fun mm => arun e fuel body amach (fun m2 => Ok m2) mm)) (all_combs (src e m)) (Ok m) with
      | Ok m' => arun e fuel k R kont m'
      | o => pass_error o
      end
  | AMatchFailed k => arun e fuel k R kont (on_l (ls_al_flag (matches_failed (a_failed (am_st m)) (al_nc (am_l m)))) m)
  | AForAll body k =>
      aforall (fun kk mm => arun e fuel body R kk mm) (arun e fuel k R kont) fuel (on_l (ls_al_i 0%nat) m)
  | AResultCount f k => arun e fuel k R kont (on_l (ls_al_total (f e m)) m)
  | ASeq a k => arun e fuel a R (arun e fuel k R kont) m
  end.

(* the function's result: the routes and totalAlternativesCalculated *)
Definition run_alt (sk : askel) (e : aenv) (fuel : nat) (m : amach) : outcome (list route * Z) :=
  arun e fuel sk (list route * Z)%type (fun m' => Ok (a_routes (am_st m'), al_total (am_l m'))) m.

(* every container is declared empty *)
Definition alt_st_empty : alt_st :=
  {| a_routes := []; a_all := []; a_failed := []; a_calculated := []; a_found := []; a_seq := 0; a_count := 0 |}.
