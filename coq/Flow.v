(* Flow.v — the top-level flow of Calculator::calculateSingle (with calculateSingleReverse inlined) and
   Calculator::calculateAllNodes (calculator.cpp) as data, and its interpreter.

   tools/gen_loops.py parses the two functions into statement trees (gen/Flow.v, type `cskel`): the call of reset(), the
   test that selects the forward pass, the hand-over to the reverse pass (the arrival time it gets, the re-seeding of
   nodesReverseTentativeTime from the egress footpaths), the arrival-time path (departure time cleared, every trip marked
   usable), which result is returned.  Conditions and operands are TRANSLATED source expressions.

   The calls are statements with a fixed meaning (the model's functions): reset() = `ce_reset` (Proofs/ResetTie.v),
   forwardCalculation = fwd_scan + the `no connection parsed` exception + best_egress (Proofs/GuardsTie.v, SkelTie.v),
   reverseCalculation = rev_scan + exception + best_access, reverseJourneyStep = Calc.rev_journey (LoopsTie.v, EmitTie.v),
   the all-nodes scans and builders (AllNodesTie.v).  The NoRoutingReason each of them throws is read from the source
   (`flow_reasons`, gen/Flow.v).

   Proofs/FlowTie.v proves that the model (Calc.calc_single, Calc.calc_allnodes) computes what this interpreter computes on
   the generated trees. *)
From Coq Require Import List ZArith Bool.
From TrV Require Import Scan Journey Calc.
Import ListNotations.
Local Open Scope Z_scope.
Local Open Scope bool_scope.

(* the reasons the callees throw, as the source writes them now *)
Record flow_reasons := {
  fr_fwd_empty : nat;        (* forwardCalculation: no connection parsed *)
  fr_fwdall_empty : nat;     (* forwardCalculationAllNodes *)
  fr_rev_empty : nat;        (* reverseCalculation *)
  fr_revall_empty : nat;     (* reverseCalculationAllNodes *)
  fr_fwd_journey : nat;      (* forwardJourneyStep without a best egress stop *)
  fr_rev_journey : nat }.    (* reverseJourneyStep without a best access stop *)

Record cenv := { ce_d : data; ce_p : params; ce_reasons : flow_reasons;
                 ce_reset : outcome calc;            (* what reset(...) does: a NO_ACCESS_* exception or the seeded Calculator *)
                 ce_egrfp : list fprow }.            (* egressFootpaths after reset() *)
Record cmach := {
  c_dep : Z;                        (* departureTimeSeconds *)
  c_arr : Z;                        (* arrivalTimeSeconds *)
  c_taur : nat -> Z;                (* nodesReverseTentativeTime *)
  c_ov : nat -> tqd;                (* tripsQueryOverlay *)
  c_k0 : calc;                      (* the Calculator as reset() left it (the tables the flow does not write) *)
  c_best_arr : Z;                   (* bestArrivalTime *)
  c_best_dep : Z;                   (* bestDepartureTime *)
  c_best_node : option nat;         (* bestEgressNode / bestAccessNode *)
  c_res : option (Z * nat);         (* resultCalculation *)
  c_fs : fstate;                    (* what forwardCalculation left (labels, overlay, forwardEgressJourneysSteps) *)
  c_st : rstate;                    (* what reverseCalculation left *)
  c_row : fprow;                    (* egressFootpath (range-for variable) *)
  c_result : option (route * list nat); (* result (calculateSingle) *)
  c_result_all : option (list accnode * Z)  (* result (calculateAllNodes) *) }.
Definition cs_dep (v : Z) (s : cmach) : cmach :=
  {| c_dep := v; c_arr := c_arr s; c_taur := c_taur s; c_ov := c_ov s; c_k0 := c_k0 s; c_best_arr := c_best_arr s; c_best_dep := c_best_dep s; c_best_node := c_best_node s; c_res := c_res s; c_fs := c_fs s; c_st := c_st s; c_row := c_row s; c_result := c_result s; c_result_all := c_result_all s |}.
Definition cs_arr (v : Z) (s : cmach) : cmach :=
  {| c_dep := c_dep s; c_arr := v; c_taur := c_taur s; c_ov := c_ov s; c_k0 := c_k0 s; c_best_arr := c_best_arr s; c_best_dep := c_best_dep s; c_best_node := c_best_node s; c_res := c_res s; c_fs := c_fs s; c_st := c_st s; c_row := c_row s; c_result := c_result s; c_result_all := c_result_all s |}.
Definition cs_taur (v : nat -> Z) (s : cmach) : cmach :=
  {| c_dep := c_dep s; c_arr := c_arr s; c_taur := v; c_ov := c_ov s; c_k0 := c_k0 s; c_best_arr := c_best_arr s; c_best_dep := c_best_dep s; c_best_node := c_best_node s; c_res := c_res s; c_fs := c_fs s; c_st := c_st s; c_row := c_row s; c_result := c_result s; c_result_all := c_result_all s |}.
Definition cs_ov (v : nat -> tqd) (s : cmach) : cmach :=
  {| c_dep := c_dep s; c_arr := c_arr s; c_taur := c_taur s; c_ov := v; c_k0 := c_k0 s; c_best_arr := c_best_arr s; c_best_dep := c_best_dep s; c_best_node := c_best_node s; c_res := c_res s; c_fs := c_fs s; c_st := c_st s; c_row := c_row s; c_result := c_result s; c_result_all := c_result_all s |}.
Definition cs_k0 (v : calc) (s : cmach) : cmach :=
  {| c_dep := c_dep s; c_arr := c_arr s; c_taur := c_taur s; c_ov := c_ov s; c_k0 := v; c_best_arr := c_best_arr s; c_best_dep := c_best_dep s; c_best_node := c_best_node s; c_res := c_res s; c_fs := c_fs s; c_st := c_st s; c_row := c_row s; c_result := c_result s; c_result_all := c_result_all s |}.
Definition cs_best_arr (v : Z) (s : cmach) : cmach :=
  {| c_dep := c_dep s; c_arr := c_arr s; c_taur := c_taur s; c_ov := c_ov s; c_k0 := c_k0 s; c_best_arr := v; c_best_dep := c_best_dep s; c_best_node := c_best_node s; c_res := c_res s; c_fs := c_fs s; c_st := c_st s; c_row := c_row s; c_result := c_result s; c_result_all := c_result_all s |}.
Definition cs_best_dep (v : Z) (s : cmach) : cmach :=
  {| c_dep := c_dep s; c_arr := c_arr s; c_taur := c_taur s; c_ov := c_ov s; c_k0 := c_k0 s; c_best_arr := c_best_arr s; c_best_dep := v; c_best_node := c_best_node s; c_res := c_res s; c_fs := c_fs s; c_st := c_st s; c_row := c_row s; c_result := c_result s; c_result_all := c_result_all s |}.
Definition cs_best_node (v : option nat) (s : cmach) : cmach :=
  {| c_dep := c_dep s; c_arr := c_arr s; c_taur := c_taur s; c_ov := c_ov s; c_k0 := c_k0 s; c_best_arr := c_best_arr s; c_best_dep := c_best_dep s; c_best_node := v; c_res := c_res s; c_fs := c_fs s; c_st := c_st s; c_row := c_row s; c_result := c_result s; c_result_all := c_result_all s |}.
Definition cs_res (v : option (Z * nat)) (s : cmach) : cmach :=
  {| c_dep := c_dep s; c_arr := c_arr s; c_taur := c_taur s; c_ov := c_ov s; c_k0 := c_k0 s; c_best_arr := c_best_arr s; c_best_dep := c_best_dep s; c_best_node := c_best_node s; c_res := v; c_fs := c_fs s; c_st := c_st s; c_row := c_row s; c_result := c_result s; c_result_all := c_result_all s |}.
Definition cs_fs (v : fstate) (s : cmach) : cmach :=
  {| c_dep := c_dep s; c_arr := c_arr s; c_taur := c_taur s; c_ov := c_ov s; c_k0 := c_k0 s; c_best_arr := c_best_arr s; c_best_dep := c_best_dep s; c_best_node := c_best_node s; c_res := c_res s; c_fs := v; c_st := c_st s; c_row := c_row s; c_result := c_result s; c_result_all := c_result_all s |}.
Definition cs_st (v : rstate) (s : cmach) : cmach :=
  {| c_dep := c_dep s; c_arr := c_arr s; c_taur := c_taur s; c_ov := c_ov s; c_k0 := c_k0 s; c_best_arr := c_best_arr s; c_best_dep := c_best_dep s; c_best_node := c_best_node s; c_res := c_res s; c_fs := c_fs s; c_st := v; c_row := c_row s; c_result := c_result s; c_result_all := c_result_all s |}.
Definition cs_row (v : fprow) (s : cmach) : cmach :=
  {| c_dep := c_dep s; c_arr := c_arr s; c_taur := c_taur s; c_ov := c_ov s; c_k0 := c_k0 s; c_best_arr := c_best_arr s; c_best_dep := c_best_dep s; c_best_node := c_best_node s; c_res := c_res s; c_fs := c_fs s; c_st := c_st s; c_row := v; c_result := c_result s; c_result_all := c_result_all s |}.
Definition cs_result (v : option (route * list nat)) (s : cmach) : cmach :=
  {| c_dep := c_dep s; c_arr := c_arr s; c_taur := c_taur s; c_ov := c_ov s; c_k0 := c_k0 s; c_best_arr := c_best_arr s; c_best_dep := c_best_dep s; c_best_node := c_best_node s; c_res := c_res s; c_fs := c_fs s; c_st := c_st s; c_row := c_row s; c_result := v; c_result_all := c_result_all s |}.
Definition cs_result_all (v : option (list accnode * Z)) (s : cmach) : cmach :=
  {| c_dep := c_dep s; c_arr := c_arr s; c_taur := c_taur s; c_ov := c_ov s; c_k0 := c_k0 s; c_best_arr := c_best_arr s; c_best_dep := c_best_dep s; c_best_node := c_best_node s; c_res := c_res s; c_fs := c_fs s; c_st := c_st s; c_row := c_row s; c_result := c_result s; c_result_all := v |}.

(* the Calculator the scans see *)
Definition cur_calc (m : cmach) : calc := with_rev (c_k0 m) (c_arr m) (c_dep m) (c_taur m) (c_ov m).

(* std::get<0> / std::get<1> of *resultCalculation *)
Definition x_res_time (m : cmach) : Z := match c_res m with Some (t, _) => t | None => 0 end.
Definition x_res_node (m : cmach) : option nat := match c_res m with Some (_, n) => Some n | None => None end.

Inductive cvar := CDep | CArr | CBestArr | CBestDep.
Definition set_cvar (x : cvar) (v : Z) (m : cmach) : cmach :=
  match x with CDep => cs_dep v m | CArr => cs_arr v m | CBestArr => cs_best_arr v m | CBestDep => cs_best_dep v m end.

Inductive cskel :=
| CNewResult (k : cskel)                                          (* std::unique_ptr<...> result; *)
| CReset (k : cskel)                                              (* reset(parameters, ...) *)
| CSetZ (x : cvar) (f : cenv -> cmach -> Z) (k : cskel)
| CSetNode (f : cenv -> cmach -> option nat) (k : cskel)          (* bestEgressNode / bestAccessNode = f *)
| CForward (k : cskel)                 (* resultCalculation = forwardCalculation(parameters, forwardEgressJourneysSteps) *)
| CForwardAll (k : cskel)              (* forwardCalculationAllNodes(parameters, forwardEgressJourneysSteps) *)
| CReverse (k : cskel)                 (* resultCalculation = reverseCalculation(parameters, reverseAccessJourneysSteps) *)
| CReverseAll (k : cskel)              (* reverseCalculationAllNodes(parameters, reverseAccessJourneysSteps) *)
| CForEgress (key : cenv -> cmach -> nat) (f : cenv -> cmach -> Z) (k : cskel)
    (* for (auto & egressFootpath : egressFootpaths) nodesReverseTentativeTime[key] = f *)
| CMarkUsable (k : cskel)              (* for every trip: tripsQueryOverlay[trip.uid].usable = true *)
| CForwardJourney (k : cskel)          (* result = forwardJourneyStep(parameters, bestEgressNode, ...) *)
| CReverseJourney (k : cskel)          (* result = reverseJourneyStep(parameters, bestDepartureTime, bestAccessNode, ...) *)
| CForwardJourneyAll (k : cskel)       (* result = forwardJourneyStepAllNodes(parameters, ...) *)
| CReverseJourneyAll (k : cskel)       (* result = reverseJourneyStepAllNodes(parameters, ...) *)
| CAssertFalse (k : cskel)             (* assert(false) *)
| CIf (g : cenv -> cmach -> bool) (th el : cskel) (k : cskel)
| CSeq (a : cskel) (k : cskel)        (* the statements of a called function of this file, then k *)
| CDone.

Definition cpass {A R : Type} (o : outcome A) : outcome R :=
  match o with
  | Ok _ => Crash | NoRouting r => NoRouting r | ParamErr c => ParamErr c | DataErr c => DataErr c | Exn t => Exn t
  | NoReply => NoReply | Crash => Crash | UB t => UB t | Hang => Hang
  end.

Fixpoint crun (e : cenv) (s : cskel) (R : Type) (kont : cmach -> outcome R) (m : cmach) {struct s} : outcome R :=
  match s with
  | CDone => kont m
  | CNewResult k => crun e k R kont (cs_result_all None (cs_result None m))
  | CReset k =>
      match ce_reset e with
      | Ok k0 => crun e k R kont (cs_ov (k_ov k0) (cs_taur (k_taur k0) (cs_arr (k_arr k0) (cs_dep (k_dep k0) (cs_k0 k0 m)))))
      | o => cpass o
      end
  | CSetZ x f k => crun e k R kont (set_cvar x (f e m) m)
  | CSetNode f k => crun e k R kont (cs_best_node (f e m) m)
  | CForward k =>
      match fwd_scan (ce_d e) (ce_p e) (cur_calc m) false with
      | Ok fs =>
          if f_count fs =? 0 then NoRouting (fr_fwd_empty (ce_reasons e))
          else crun e k R kont (cs_res (best_egress (ce_p e) (cur_calc m) fs) (cs_ov (f_ov fs) (cs_fs fs m)))
      | o => cpass o
      end
  | CForwardAll k =>
      match fwd_scan (ce_d e) (ce_p e) (cur_calc m) true with
      | Ok fs =>
          if f_count fs =? 0 then NoRouting (fr_fwdall_empty (ce_reasons e))
          else crun e k R kont (cs_ov (f_ov fs) (cs_fs fs m))
      | o => cpass o
      end
  | CReverse k =>
      match rev_scan (ce_d e) (ce_p e) (cur_calc m) false with
      | Ok st =>
          if r_count st =? 0 then NoRouting (fr_rev_empty (ce_reasons e))
          else crun e k R kont (cs_res (best_access (ce_p e) (cur_calc m) st) (cs_st st m))
      | o => cpass o
      end
  | CReverseAll k =>
      match rev_scan (ce_d e) (ce_p e) (cur_calc m) true with
      | Ok st =>
          if r_count st =? 0 then NoRouting (fr_revall_empty (ce_reasons e))
          else crun e k R kont (cs_st st m)
      | o => cpass o
      end
  | CForEgress key f k =>
      crun e k R kont
        (fold_left (fun m1 r => cs_taur (upd (c_taur m1) (key e (cs_row r m1)) (f e (cs_row r m1))) (cs_row r m1)) (ce_egrfp e) m)
  | CMarkUsable k => crun e k R kont (cs_ov (set_usable (c_ov m)) m)
  | CForwardJourney k =>
      match c_best_node m with
      | None => NoRouting (fr_fwd_journey (ce_reasons e))
      | Some _ => Crash        (* not modelled: calculateSingle never calls it with a stop (and asserts so) *)
      end
  | CReverseJourney k =>
      match c_best_node m with
      | None => NoRouting (fr_rev_journey (ce_reasons e))
      | Some n =>
          match rev_journey (ce_d e) (ce_p e) (cur_calc m) (c_st m) (Some (c_best_dep m, n)) with
          | Ok r => crun e k R kont (cs_result (Some r) m)
          | o => cpass o
          end
      end
  | CForwardJourneyAll k =>
      match fwd_allnodes_loop (ce_d e) (ce_p e) (cur_calc m) (c_fs m) (d_nodes (ce_d e)) with
      | Ok l => crun e k R kont (cs_result_all (Some (l, Z.of_nat (length (d_nodes (ce_d e))))) m)
      | o => cpass o
      end
  | CReverseJourneyAll k =>
      match rev_allnodes_loop (ce_d e) (ce_p e) (cur_calc m) (c_st m) (d_nodes (ce_d e)) with
      | Ok l => crun e k R kont (cs_result_all (Some (l, Z.of_nat (length (d_nodes (ce_d e))))) m)
      | o => cpass o
      end
  | CAssertFalse k => Crash
  | CIf g th el k => if g e m then crun e th R (crun e k R kont) m else crun e el R (crun e k R kont) m
  | CSeq a k => crun e a R (crun e k R kont) m
  end.

(* `return result`: a null result is dereferenced by the caller *)
Definition run_single (sk : cskel) (e : cenv) (m : cmach) : outcome (route * list nat) :=
  crun e sk _ (fun m' => match c_result m' with Some r => Ok r | None => Exn X_BAD_OPTIONAL end) m.
Definition run_allnodes (sk : cskel) (e : cenv) (m : cmach) : outcome (list accnode * Z) :=
  crun e sk _ (fun m' => match c_result_all m' with Some r => Ok r | None => Exn X_BAD_OPTIONAL end) m.
