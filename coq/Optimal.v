(* Optimal.v — the optimality / exactness halves of C03, C04, C05, C08, C09 stated DECLARATIVELY, against the
   inductive journeys of Admissible.v (no reference algorithm in the statement).  These are the statements the
   proofs in Proofs/{FwdOpt,RevOpt,OptCompose}.v aim at; the executable reference solvers of Spec.v are the
   search tool of the checks and are tied to the same declarative notions in Proofs/RefSpec.v. *)
From TrV Require Export Admissible.
Local Open Scope Z_scope.

Definition route_answer (d : data) (s : scenario) (p : params) (acc egr : list fprow) : outcome (route * list nat) :=
  calc_single d (conn_set d s) p acc egr true.
Definition access_answer (d : data) (s : scenario) (p : params) (rows : list fprow) : outcome (list accnode * Z) :=
  calc_allnodes d (conn_set d s) p rows.

Definition opt_domain (d : data) (s : scenario) (p : params) (acc egr : list fprow) : Prop :=
  wf_data_b d = true /\ find_scenario d (q_scenario p) = Some s /\
  wf_tables_b d p acc egr = true /\ wf_params_b p = true /\ q_except_lines p = [].

(* C03: success exactly when an admissible journey exists; the arrival is the minimum over all of them *)
Definition C03_decl (d : data) (s : scenario) (p : params) (acc egr : list fprow) : Prop :=
  match route_answer d s p acc egr with
  | Ok (r, _) => (exists rides, admissible_fwd d s p acc egr rides (rt_arr r)) /\
                 (forall rides t, admissible_fwd d s p acc egr rides t -> rt_arr r <= t)
  | NoRouting _ => forall rides t, ~ admissible_fwd d s p acc egr rides t
  | _ => False
  end.

(* C04: success exactly when an admissible journey exists; the departure is the latest moment one can leave
   the origin (= max over journeys of first boarding - minimum waiting - access walk, because a journey
   leaving at dep0 exists exactly when dep0 + access walk + minimum waiting <= first boarding) *)
Definition C04_decl (d : data) (s : scenario) (p : params) (acc egr : list fprow) : Prop :=
  match route_answer d s p acc egr with
  | Ok (r, _) => (exists rides, admissible_rev d s p acc egr (rt_dep r) rides) /\
                 (forall dep0 rides, admissible_rev d s p acc egr dep0 rides -> dep0 <= rt_dep r)
  | NoRouting _ => forall dep0 rides, ~ admissible_rev d s p acc egr dep0 rides
  | _ => False
  end.

(* C05: the reported departure of a departure-time answer is the latest one, not before the requested time,
   from which the reported arrival can still be met *)
Definition C05_decl (d : data) (s : scenario) (p : params) (acc egr : list fprow) : Prop :=
  forall r used, route_answer d s p acc egr = Ok (r, used) ->
    q_time p <= rt_dep r /\
    (exists rides arr, journey d s p acc egr (rt_dep r) rides arr /\ arr <= rt_arr r) /\
    (forall dep0 rides arr, journey d s p acc egr dep0 rides arr -> arr <= rt_arr r -> q_time p <= dep0 ->
                            dep0 <= rt_dep r).

(* C08: the departure accessibility map lists exactly the stops where some journey prefix alights a vehicle
   within max_travel_time, once each, with the earliest such alighting time *)
Definition earliest_alight (d : data) (s : scenario) (p : params) (acc : list fprow) (n : nat) (t : Z) : Prop :=
  alights_at d s p acc n t /\ forall t', alights_at d s p acc n t' -> t <= t'.

Definition C08_decl (d : data) (s : scenario) (p : params) (rows : list fprow) : Prop :=
  match access_answer d s p rows with
  | Ok (l, total) =>
      total = Z.of_nat (length (d_nodes d)) /\ NoDup (map an_node l) /\
      (forall a, In a l -> an_ttt a = an_time a - q_time p) /\
      (forall n t, In (n, t) (map (fun a => (an_node a, an_time a)) l) <->
                   (earliest_alight d s p rows n t /\ t - q_time p <= q_maxtt p))
  | NoRouting _ => forall n t, alights_at d s p rows n t -> ~ (t - q_time p <= q_maxtt p)
  | _ => False
  end.

(* C09: the arrival accessibility map lists exactly the stops where some journey reaching the place by the
   requested time boards a vehicle, with the latest ready time (boarding departure - minimum waiting) *)
Definition latest_board (d : data) (s : scenario) (p : params) (egr : list fprow) (n : nat) (t : Z) : Prop :=
  boards_at d s p egr n t /\ forall t', boards_at d s p egr n t' -> t' <= t.

Definition C09_decl (d : data) (s : scenario) (p : params) (rows : list fprow) : Prop :=
  match access_answer d s p rows with
  | Ok (l, total) =>
      total = Z.of_nat (length (d_nodes d)) /\ NoDup (map an_node l) /\
      (forall a, In a l -> an_time a = q_time p) /\
      (forall n t, In (n, t) (map (fun a => (an_node a, an_time a - an_ttt a)) l) <->
                   (latest_board d s p rows n t /\ q_time p - t <= q_maxtt p))
  | NoRouting _ => forall n t, boards_at d s p rows n t -> ~ (q_time p - t <= q_maxtt p)
  | _ => False
  end.

(* the full statements: for every dataset, scenario, query and router tables of the properties' domains *)
Definition C03_decl_statement : Prop :=
  forall d s p acc egr, opt_domain d s p acc egr -> pos_hops_b d = true -> q_fwd p = true -> q_maxfw p <= 0 ->
    C03_decl d s p acc egr.
Definition C04_decl_statement : Prop :=
  forall d s p acc egr, opt_domain d s p acc egr -> pos_hops_b d = true -> uniform_wait_b d = true -> q_fwd p = false ->
    C04_decl d s p acc egr.
Definition C05_decl_statement : Prop :=
  forall d s p acc egr, opt_domain d s p acc egr -> pos_hops_b d = true -> uniform_wait_b d = true ->
    q_fwd p = true -> q_maxfw p <= 0 -> C05_decl d s p acc egr.
Definition C08_decl_statement : Prop :=
  forall d s p rows, wf_data_b d = true -> find_scenario d (q_scenario p) = Some s ->
    wf_tables_b d p rows [] = true -> wf_params_b p = true -> q_except_lines p = [] ->
    pos_hops_b d = true -> q_fwd p = true -> q_maxfw p <= 0 -> C08_decl d s p rows.
Definition C09_decl_statement : Prop :=
  forall d s p rows, wf_data_b d = true -> find_scenario d (q_scenario p) = Some s ->
    wf_tables_b d p [] rows = true -> wf_params_b p = true -> q_except_lines p = [] ->
    pos_hops_b d = true -> uniform_wait_b d = true -> q_fwd p = false -> C09_decl d s p rows.
