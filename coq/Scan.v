(* Scan.v — Calculator::reset seeding and the four scans.
   Mirrors connection_scan_algorithm/src/{resets,forward_calculation,reverse_calculation}.cpp.
   Each scan is a fold_left over the connection list from the hour-index entry point; `break` is a
   `stopped` flag.  Per-query vectors indexed by uid are total maps. *)
From TrV Require Export Data.
Local Open Scope Z_scope.

(* query parameters after normalisation (CommonParameters) *)
Record params := { q_scenario : nat; q_time : Z; q_minw : Z; q_maxtt : Z; q_maxacc : Z; q_maxegr : Z;
                   q_maxtr : Z; q_maxfw : Z; q_fwd : bool; q_except_lines : list nat }.

(* JourneyStep (journey_step.hpp) *)
Record jstep := { js_enter : option conn; js_exit : option conn; js_trip : option nat;
                  js_walk : Z; js_same : bool; js_dist : Z }.
Definition js_default : jstep :=
  {| js_enter := None; js_exit := None; js_trip := None; js_walk := -1; js_same := false; js_dist := -1 |}.
Definition js_has_conns (j : jstep) : bool := is_some (js_enter j) && is_some (js_exit j).

(* TripQueryData (trip.hpp:68-85) *)
Record tqd := { o_usable : bool; o_enter : option conn; o_enter_w : Z; o_exit : option conn; o_exit_w : Z }.
Definition tqd_default : tqd :=
  {| o_usable := false; o_enter := None; o_enter_w := MAX_INT; o_exit := None; o_exit_w := MAX_INT |}.

(* Connection::getMinWaitingTimeOrDefault(int): the connection's own value when it has one, else the request's *)
Definition minw_eff (p : params) (c : conn) : Z :=
  if c_minw c >=? 0 then c_minw c else q_minw p.

(* nodesAccess / nodesEgress are filled with emplace: the first row for a stop wins *)
Fixpoint row_of (n : nat) (l : list fprow) : option fprow :=
  match l with
  | [] => None
  | r :: rs => if Nat.eqb (fp_node r) n then Some r else row_of n rs
  end.

(* the part of the Calculator a scan reads and writes *)
Record calc := { k_dep : Z; k_arr : Z;
                 k_minAcc : Z; k_maxAcc : Z; k_minEgr : Z; k_maxEgr : Z;
                 k_accfp : list fprow; k_egrfp : list fprow;
                 k_tau : nat -> Z; k_taur : nat -> Z;
                 k_fsteps : nat -> jstep; k_rsteps : nat -> jstep;
                 k_ov : nat -> tqd;
                 k_disabled : nat -> bool;
                 k_set : connset }.

Definition walk_step (r : fprow) : jstep :=
  {| js_enter := None; js_exit := None; js_trip := None; js_walk := fp_time r; js_same := false; js_dist := fp_dist r |}.

(* resets.cpp:61-142: seeding from the access/egress rows (walking speed factor is the constant 1.0) *)
Definition seed_tau (dep : Z) (rows : list fprow) : nat -> Z :=
  fold_left (fun m r => upd m (fp_node r) (dep + fp_time r)) rows (fun _ => MAX_INT).
Definition seed_taur (arr : Z) (rows : list fprow) : nat -> Z :=
  fold_left (fun m r => upd m (fp_node r) (arr - fp_time r)) rows (fun _ => -1).
Definition seed_steps (rows : list fprow) : nat -> jstep :=
  fold_left (fun m r => upd m (fp_node r) (walk_step r)) rows (fun _ => js_default).
Definition min_time (rows : list fprow) : Z := fold_left (fun a r => if fp_time r <? a then fp_time r else a) rows MAX_INT.
Definition max_time (rows : list fprow) : Z := fold_left (fun a r => if fp_time r >? a then fp_time r else a) rows (-1).

(* resetFilters (resets.cpp:221-325): only exceptLines can be non-empty for a request *)
Definition disabled_of (d : data) (p : params) (cs : connset) : nat -> bool :=
  fun t => match q_except_lines p with
           | [] => false
           | ex => memb t (cs_trips cs) &&
                   match find_trip d t with Some tr => memb (trip_line d tr) ex | None => false end
           end.

(* origin / destination presence: route queries have both; accessibility has one *)
Definition mk_calc (d : data) (p : params) (cs : connset) (acc egr : list fprow)
           (has_origin has_dest : bool) : calc :=
  let dep := if q_fwd p then q_time p else -1 in
  let arr := if q_fwd p then -1 else q_time p in
  {| k_dep := dep; k_arr := arr;
     k_minAcc := if has_origin then min_time acc else MAX_INT;
     k_maxAcc := if has_origin then max_time acc else -1;
     k_minEgr := if has_dest then min_time egr else MAX_INT;
     k_maxEgr := if has_dest then max_time egr else -1;
     k_accfp := if has_origin then acc else [];
     k_egrfp := if has_dest then egr else [];
     k_tau := if has_origin then seed_tau dep acc else (fun _ => MAX_INT);
     k_taur := if has_dest then seed_taur arr egr else (fun _ => -1);
     k_fsteps := if has_origin then seed_steps acc else (fun _ => js_default);
     k_rsteps := if has_dest then seed_steps egr else (fun _ => js_default);
     k_ov := fun _ => tqd_default;
     k_disabled := disabled_of d p cs;
     k_set := cs |}.

(* ---------------------------------------------------------------------------------------------- *)
(* forward scan (forward_calculation.cpp:36-162 and 225-338)                                      *)

Record fstate := { f_tau : nat -> Z; f_steps : nat -> jstep; f_ov : nat -> tqd;
                   f_egr : nat -> option jstep;        (* forwardEgressJourneysSteps *)
                   f_count : Z; f_reached : bool; f_tent : Z; f_stop : bool }.

Definition mk_js (en ex : option conn) (t : nat) (w : Z) (same : bool) (dist : Z) : jstep :=
  {| js_enter := en; js_exit := ex; js_trip := Some t; js_walk := w; js_same := same; js_dist := dist |}.

(* one iteration of the transferable-nodes loop, lines 114-156 *)
Definition fwd_fp_step (p : params) (c : conn) (enter : option conn)
           (st : (nat -> Z) * (nat -> jstep) * (nat -> option jstep)) (r : fprow)
  : (nat -> Z) * (nat -> jstep) * (nat -> option jstep) :=
  let '(tau, steps, egr) := st in
  let a := c_to c in
  let m := fp_node r in
  let tm := tau m in
  if negb (Nat.eqb a m) && (tm <? c_arr c) then st
  else if fp_time r <=? q_maxtr p then
    let '(tau1, steps1) :=
      if fp_time r + c_arr c <? tm
      then (upd tau m (fp_time r + c_arr c),
            upd steps m (mk_js enter (Some c) (c_trip c) (fp_time r) (Nat.eqb a m) (fp_dist r)))
      else (tau, steps) in
    let egr1 :=
      if Nat.eqb a m &&
         match egr m with
         | None => true
         | Some j => match js_exit j with Some e => c_arr e >? c_arr c | None => false end
         end
      then upd egr m (Some (mk_js enter (Some c) (c_trip c) (fp_time r) true (fp_dist r)))
      else egr in
    (tau1, steps1, egr1)
  else st.

(* all_nodes = true is forwardCalculationAllNodes: no early-egress break, no egress bookkeeping *)
Definition fwd_step (d : data) (p : params) (k : calc) (all_nodes : bool) (st : fstate) (c : conn) : fstate :=
  if f_stop st then st else
  if c_dep c >=? k_dep k + k_minAcc k then
    if k_disabled k (c_trip c) then st else
    let minw := minw_eff p c in
    if (negb all_nodes && f_reached st && (k_maxEgr k >=? 0) && (f_tent st <? MAX_INT)
          && (c_dep c >? f_tent st + k_maxEgr k))
       || (c_dep c - k_dep k >? q_maxtt p)
    then {| f_tau := f_tau st; f_steps := f_steps st; f_ov := f_ov st; f_egr := f_egr st;
            f_count := f_count st; f_reached := f_reached st; f_tent := f_tent st; f_stop := true |}
    else
      let ov := f_ov st (c_trip c) in
      let enter := o_enter ov in
      let tdep := f_tau st (c_from c) in
      let accessed :=
        (q_maxfw p >? 0) &&
        match row_of (c_from c) (k_accfp k) with Some r => fp_time r >=? 0 | None => false end &&
        negb (is_some (js_enter (f_steps st (c_from c)))) in
      if (is_some enter || (tdep <=? c_dep c - minw))
         && (negb accessed || (c_dep c - tdep <=? q_maxfw p))
      then
        let ov1 :=
          if c_cb c && negb (is_some enter)
          then {| o_usable := true; o_enter := Some c; o_enter_w := js_walk (f_steps st (c_from c));
                  o_exit := o_exit ov; o_exit_w := o_exit_w ov |}
          else ov in
        let ovm := upd (f_ov st) (c_trip c) ov1 in
        if c_cu c && is_some (o_enter ov1) then
          let '(reached1, tent1) :=
            if negb all_nodes && negb (f_reached st) &&
               match row_of (c_to c) (k_egrfp k) with Some r => negb (fp_time r =? -1) | None => false end
            then (true, c_arr c) else (f_reached st, f_tent st) in
          let '(tau1, steps1, egr1) :=
            fold_left (fwd_fp_step p c (o_enter ov1)) (fp_of d (c_to c)) (f_tau st, f_steps st, f_egr st) in
          {| f_tau := tau1; f_steps := steps1; f_ov := ovm; f_egr := egr1;
             f_count := f_count st + 1; f_reached := reached1; f_tent := tent1; f_stop := false |}
        else
          {| f_tau := f_tau st; f_steps := f_steps st; f_ov := ovm; f_egr := f_egr st;
             f_count := f_count st + 1; f_reached := f_reached st; f_tent := f_tent st; f_stop := false |}
      else st
  else st.

Definition fwd_init (k : calc) : fstate :=
  {| f_tau := k_tau k; f_steps := k_fsteps k; f_ov := k_ov k; f_egr := fun _ => None;
     f_count := 0; f_reached := false; f_tent := MAX_INT; f_stop := false |}.

(* C++ integer division truncates toward zero *)
Definition hour_of (t : Z) : Z := Z.quot t 3600.

Definition fwd_scan (d : data) (p : params) (k : calc) (all_nodes : bool) : outcome fstate :=
  match fwd_entry (k_set k) (hour_of (k_dep k)) with
  | None => UB U_INDEX
  | Some i => Ok (fold_left (fwd_step d p k all_nodes) (skipn i (cs_fwd (k_set k))) (fwd_init k))
  end.

(* best egress selection, forward_calculation.cpp:170-201 *)
Definition best_egress (p : params) (k : calc) (st : fstate) : option (Z * nat) :=
  fold_left (fun best r =>
    match f_egr st (fp_node r) with
    | Some j =>
        match js_exit j, row_of (fp_node r) (k_egrfp k) with
        | Some e, Some er =>
            let t := c_arr e + fp_time er in
            let b := match best with Some (bt, _) => bt | None => MAX_INT end in
            if (t >=? 0) && (t - k_dep k <=? q_maxtt p) && (t <? b) && (t <? MAX_INT)
            then Some (t, fp_node er) else best
        | _, _ => best
        end
    | None => best
    end) (k_egrfp k) None.

(* ---------------------------------------------------------------------------------------------- *)
(* reverse scan (reverse_calculation.cpp:41-183 and 249-380)                                      *)

Record rstate := { r_taur : nat -> Z; r_steps : nat -> jstep; r_ov : nat -> tqd;
                   r_acc : nat -> option jstep;        (* reverseAccessJourneysSteps *)
                   r_count : Z; r_reached : bool; r_tent : Z; r_stop : bool }.

Definition rev_fp_step (p : params) (k : calc) (c : conn) (minw : Z) (exitc : option conn)
           (st : (nat -> Z) * (nat -> jstep) * (nat -> option jstep)) (r : fprow)
  : (nat -> Z) * (nat -> jstep) * (nat -> option jstep) :=
  let '(taur, steps, acc) := st in
  let a := c_from c in
  let m := fp_node r in
  if negb (Nat.eqb a m) && (taur m >? c_dep c - minw) then st
  else if fp_time r <=? q_maxtr p then
    let '(taur1, steps1) :=
      if c_dep c - fp_time r - minw >? taur m
      then (upd taur m (c_dep c - fp_time r - minw),
            upd steps m (mk_js (Some c) exitc (c_trip c) (fp_time r) (Nat.eqb a m) (fp_dist r)))
      else (taur, steps) in
    let acc1 :=
      if Nat.eqb a m &&
         match acc m with
         | None => true
         | Some j => match js_enter j with Some b => c_dep b - minw_eff p b <=? c_dep c - minw | None => false end
         end
      then
        let accrow := row_of a (k_accfp k) in
        if (k_dep k =? -1) ||
           match accrow with Some ar => c_dep c - fp_time ar - minw >=? k_dep k | None => false end
        then
          if (k_dep k =? -1) || (q_maxfw p <=? 0) ||
             match accrow with Some ar => c_dep c - k_dep k - fp_time ar <=? q_maxfw p | None => false end
          then upd acc m (Some (mk_js (Some c) exitc (c_trip c) 0 true 0))
          else acc
        else acc
      else acc in
    (taur1, steps1, acc1)
  else st.

Definition rev_step (d : data) (p : params) (k : calc) (all_nodes : bool) (st : rstate) (c : conn) : rstate :=
  if r_stop st then st else
  if c_arr c <=? k_arr k - (if all_nodes then 0 else k_minEgr k) then
    let ov := r_ov st (c_trip c) in
    if o_usable ov && negb (k_disabled k (c_trip c)) then
      if (negb all_nodes && r_reached st && (k_maxAcc k >=? 0) && (c_arr c <? r_tent st - k_maxAcc k))
         || (k_arr k - c_arr c >? q_maxtt p)
      then {| r_taur := r_taur st; r_steps := r_steps st; r_ov := r_ov st; r_acc := r_acc st;
              r_count := r_count st; r_reached := r_reached st; r_tent := r_tent st; r_stop := true |}
      else
        let exitc := o_exit ov in
        let tarr := r_taur st (c_to c) in
        if is_some exitc || (tarr >=? c_arr c) then
          let ov1 :=
            if c_cu c then
              let rs := r_steps st (c_to c) in
              if negb (is_some exitc)
              then {| o_usable := o_usable ov; o_enter := o_enter ov; o_enter_w := o_enter_w ov;
                      o_exit := Some c; o_exit_w := js_walk rs |}
              else match js_enter rs with
                   | Some b =>
                       if (js_walk rs >=? 0) && (js_walk rs <? o_exit_w ov) && (c_arr c + minw_eff p b <=? tarr)
                       then {| o_usable := o_usable ov; o_enter := o_enter ov; o_enter_w := o_enter_w ov;
                               o_exit := Some c; o_exit_w := js_walk rs |}
                       else ov
                   | None => ov
                   end
            else ov in
          let ovm := upd (r_ov st) (c_trip c) ov1 in
          if c_cb c && is_some (o_exit ov1) then
            let minw := minw_eff p c in
            let '(reached1, tent1) :=
              if negb all_nodes && negb (r_reached st) &&
                 match row_of (c_from c) (k_accfp k) with Some r => negb (fp_time r =? -1) | None => false end
              then (true, c_dep c - minw) else (r_reached st, r_tent st) in
            let '(taur1, steps1, acc1) :=
              fold_left (rev_fp_step p k c minw (o_exit ov1)) (rfp_of d (c_from c))
                        (r_taur st, r_steps st, r_acc st) in
            {| r_taur := taur1; r_steps := steps1; r_ov := ovm; r_acc := acc1;
               r_count := r_count st + 1; r_reached := reached1; r_tent := tent1; r_stop := false |}
          else
            {| r_taur := r_taur st; r_steps := r_steps st; r_ov := ovm; r_acc := r_acc st;
               r_count := r_count st + 1; r_reached := r_reached st; r_tent := r_tent st; r_stop := false |}
        else st
    else st
  else st.

Definition rev_init (k : calc) : rstate :=
  {| r_taur := k_taur k; r_steps := k_rsteps k; r_ov := k_ov k; r_acc := fun _ => None;
     r_count := 0; r_reached := false; r_tent := -1; r_stop := false |}.

Definition rev_scan (d : data) (p : params) (k : calc) (all_nodes : bool) : outcome rstate :=
  match rev_entry (k_set k) (hour_of (k_arr k) + 1) with
  | None => UB U_INDEX
  | Some i => Ok (fold_left (rev_step d p k all_nodes) (skipn i (cs_rev (k_set k))) (rev_init k))
  end.

(* best access selection, reverse_calculation.cpp:191-221 *)
Definition best_access (p : params) (k : calc) (st : rstate) : option (Z * nat) :=
  fold_left (fun best r =>
    match r_acc st (fp_node r) with
    | Some j =>
        match js_enter j, row_of (fp_node r) (k_accfp k) with
        | Some b, Some ar =>
            let t := c_dep b - fp_time ar - minw_eff p b in
            let bt := match best with Some (x, _) => x | None => -1 end in
            if (t >=? 0) && (k_arr k - t <=? q_maxtt p) && (t >? bt) && (t <? MAX_INT)
            then Some (t, fp_node ar) else best
        | _, _ => best
        end
    | None => best
    end) (k_accfp k) None.
