(* CollCode.v — the COLLECTION loaders as data, and their interpreters.

   tools/gen_coll_loaders.py reads CacheFetcher::getAgencies / getServices / getNodes (collection part) / getLines / getPaths /
   getScenarios / getDataSources from the current sources and writes, for each, a `loader_code` (coq/gen/CollLoaders.v):

     lc_frame   the function body as a statement tree (`fstmt`): `ts.clear()`, the declaration of `ret`, which file is opened,
                the `if (fd < 0)` block with what it returns, the `try` with its handlers IN SOURCE ORDER (declared type and
                what each does to `ret` / returns), the loop over the entries, `close`, the final `return`
     lc_pre     the statements inside `try` before the loop other than the reader (vectors declared ONCE for all entries)
     lc_item    the body of the loop (`istmt`): which capnp getter feeds which member, which look-ups are made in which
                already loaded collection with `at` (throws) or behind `count` (skips), which vectors are declared / cleared,
                what is pushed where, the insertion (`emplace` = first wins / `operator[]` = last wins)

   This file interprets them on Loader2.v's decoded messages; Proofs/CollLoadersTie.v proves Loader2's loaders equal to the
   interpretation of the regenerated code.

   Conventions of the interpreters (the part that stays hand-written):
   * the getter table: `capnpT.getUuid()` is the message's id (`am_id`, `lm_id`, ...), getAgencyUuid -> lm_agency, getMode ->
     lm_mode, getLineUuid -> pm_line, getNodesUuids -> pm_nodes, getData -> pm_segs, the nine scenario getters -> the nine
     cm_ fields; every other getter is a plain value (`VPlain`) that plays no role
   * `uuidGenerator(text)` throws exactly when the text is `None`; `c.at(k)` throws exactly when k is not in c; for the
     id-only collections (agencies, services, stops, data sources) every OTHER throwing conversion of the entry (simulation
     uuid, dates) is the message's single `*_rest_ok` flag: the first such conversion met throws when the flag is false
   * C++ locals: vectors are numbered in declaration order and start the loader with ARBITRARY contents (`vs0`); the value of
     `ret` before its declaration is arbitrary (`r0`); the map starts with ARBITRARY contents (`s0`: a reload) - the ties
     quantify over all three, so a vector that is not fresh, a missing `ts.clear()` or a missing initialisation shows
   * an exception no handler catches, falling off the end, a statement the interpreter has no meaning for: `None` (the model
     always produces a state, so the tie fails)
   * evaluation order inside one statement is immaterial: a throwing argument leaves the map as it was before the statement *)
From Coq Require Import List ZArith Bool Arith.
Import ListNotations.
From TrV Require Export Loader2.

(* ---- vocabulary ---------------------------------------------------------------------------------------- *)
Inductive coll := CAgencies | CServices | CNodes | CLines | CPaths | CScenarios | CDataSources | CModes.
Definition coll_idx (c : coll) : nat :=
  match c with CAgencies => 0 | CServices => 1 | CNodes => 2 | CLines => 3 | CPaths => 4 | CScenarios => 5
             | CDataSources => 6 | CModes => 7 end.
Definition coll_eqb (a b : coll) : bool := Nat.eqb (coll_idx a) (coll_idx b).

Inductive getter := GUuid | GSimulationUuid | GAgencyUuid | GMode | GLineUuid | GNodesUuids | GData
  | GServicesUuids | GOnlyLinesUuids | GOnlyAgenciesUuids | GOnlyNodesUuids | GOnlyModesShortnames
  | GExceptLinesUuids | GExceptAgenciesUuids | GExceptNodesUuids | GExceptModesShortnames
  | GStartDate | GEndDate | GOnlyDates | GExceptDates.

Inductive member := MUuid | MSimulationUuid | MAgency | MMode | MLine | MNodesRef | MTripsRef | MTravelTimes | MDistances
  | MServicesList | MOnlyLines | MOnlyAgencies | MOnlyNodes | MOnlyModes
  | MExceptLines | MExceptAgencies | MExceptNodes | MExceptModes
  | MStartDate | MEndDate | MOnlyDates | MExceptDates | MOther.
Definition member_idx (m : member) : nat :=
  match m with MUuid => 0 | MSimulationUuid => 1 | MAgency => 2 | MMode => 3 | MLine => 4 | MNodesRef => 5 | MTripsRef => 6
             | MTravelTimes => 7 | MDistances => 8 | MServicesList => 9 | MOnlyLines => 10 | MOnlyAgencies => 11
             | MOnlyNodes => 12 | MOnlyModes => 13 | MExceptLines => 14 | MExceptAgencies => 15 | MExceptNodes => 16
             | MExceptModes => 17 | MStartDate => 18 | MEndDate => 19 | MOnlyDates => 20 | MExceptDates => 21 | MOther => 22 end.
Definition member_eqb (a b : member) : bool := Nat.eqb (member_idx a) (member_idx b).

Inductive vexp :=
| VPlain                                 (* a value no conversion of which can throw: another getter, a local, a constant *)
| VGet (g : getter)                      (* capnpT.getX() of a tracked getter *)
| VElem                                  (* the element of the enclosing range-for *)
| VUuidOf (e : vexp)                     (* uuidGenerator(e): std::runtime_error on a text that is not a uuid *)
| VOptUuidOf (e : vexp)                  (* e.empty() ? uuidNilGenerator() : uuidGenerator(e) *)
| VDateOf (e : vexp)                     (* boost::gregorian::from_string(e): throws on a text that is not a date *)
| VAt (c : coll) (k : vexp)              (* c.at(k): std::out_of_range when absent *)
| VVec (v : nat)                         (* a local vector *)
| VMember (m : member)                   (* t.m of the local object *)
| VCond (c : coll) (k : vexp) (a b : vexp)   (* c.count(k) != 0 ? a : b *)
| VFirst (c : coll).                     (* c.begin()->second *)

Inductive target := TObj | TEntry (key : vexp).      (* t.m = ...  |  ts[key].m = ... *)
Inductive ins_kind := InsFirst | InsLast.            (* emplace / insert / try_emplace  |  insert_or_assign, operator[] = *)
Inductive jfield := JDistance | JTravelTime | JOtherField.

Inductive istmt :=
| IPlain                                                     (* neither throws nor touches the map, the object or a vector *)
| IObjDecl                                                   (* T t; *)
| IVecDecl (v : nat)                                         (* std::vector<...> v;  - empty *)
| IVecClear (v : nat)                                        (* v.clear() *)
| IEval (e : vexp)                                           (* a declaration / assignment of a local: evaluated here *)
| ISet (t : target) (m : member) (e : vexp)                  (* member assignment *)
| ISetIfNonEmpty (t : target) (m : member) (g : vexp) (e : vexp)   (* if (g.length() > 0) t.m = e *)
| IForPush (g : getter) (k : vexp) (guard : option coll) (v : nat) (e : vexp)
                                 (* for (x : capnpT.g()) { [if (guard.count(k) != 0)] v.push_back(e); }  - k, e over VElem *)
| IJson (g : getter)                                         (* auto jsonData = nlohmann::json::parse(capnpT.g()) *)
| ISegLoop (bound : nat) (pushes : list (jfield * nat))      (* for (i < bound.size()) if (json["segments"][i][f] != nullptr) v.push_back(it) *)
| IEmplace (k : ins_kind) (key : vexp) (args : list (member * vexp))   (* ts.emplace(key, T(args)): arg -> the member it initialises *)
| IStore (key : vexp).                                       (* ts[key] = t *)

Inductive errno := E_NOENT | E_BADMSG | E_INVAL | E_OTHER.
Inductive rval := RvZero | RvNeg (e : errno) | RvNegErrno | RvRet | RvOther.
Inductive xdecl := XKj | XStd | XAll.         (* catch (const kj::Exception&) | catch (const std::exception&) | catch (...) *)
Inductive xk := KKj | KStd.                   (* what is thrown: by the decoder | by a conversion / look-up (all derive from std::exception) *)
Definition catches (d : xdecl) (k : xk) : bool :=
  match d, k with XAll, _ => true | XKj, KKj => true | XStd, KStd => true | _, _ => false end.

Inductive fstmt :=
| FPlain | FLog | FClose
| FClear                                      (* ts.clear() *)
| FRetDecl (v : rval)                         (* int ret = v *)
| FSetRet (v : rval)                          (* ret = v *)
| FOpen (c : coll)                            (* fd = open(<the file of collection c>) *)
| FIfOpenFailed (body : list fstmt)           (* if (fd < 0) *)
| FIfEnoent (th el : list fstmt)              (* if (errno == ENOENT) *)
| FReturn (v : rval)
| FReader                                     (* PackedFdMessageReader(fd) + getRoot *)
| FLoop (c : coll)                            (* lc_pre; for (entry : root.get<C>()) lc_item *)
| FTry (body : list fstmt) (handlers : list (xdecl * list fstmt))
| FRest.                                      (* nodes only: the per-stop phase follows (LoaderGuardsTie) *)

Record loader_code := { lc_frame : list fstmt; lc_pre : list istmt; lc_item : list istmt }.

(* ---- the frame ------------------------------------------------------------------------------------------ *)
Inductive fres (S : Type) := FFall (s : S) (ret : rval) | FRet (s : S) (r : rc) | FThrow (k : xk) (s : S) (ret : rval) | FStuck.
Arguments FFall {S}. Arguments FRet {S}. Arguments FThrow {S}. Arguments FStuck {S}.

Definition open_failed {A} (f : fstate A) : bool := match f with FMissing | FUnreadable => true | _ => false end.
Definition is_missing {A} (f : fstate A) : bool := match f with FMissing => true | _ => false end.

Definition rc_of {A} (file : fstate A) (ret v : rval) : rc :=
  match (match v with RvRet => ret | _ => v end) with
  | RvZero => RC_OK
  | RvNeg E_NOENT => RC_ENOENT | RvNeg E_BADMSG => RC_EBADMSG | RvNeg E_INVAL => RC_EINVAL | RvNeg E_OTHER => RC_EOTHER
  | RvNegErrno => if is_missing file then RC_ENOENT else RC_EOTHER
  | RvRet | RvOther => RC_EOTHER
  end.

Section Frame.
  Context {S M : Type}.
  Variable self : coll.
  Variable clear : S -> S.
  Variable pre : S -> S.
  Variable step : S -> M -> S * bool.
  Variable file : fstate (list M).

  Definition run_loop (s : S) : S * option xk :=
    match file with
    | FDecoded msg => let '(s1, ok) := fold_entries step msg (pre s) in (s1, if ok then None else Some KStd)
    | FGarbled p => let '(s1, ok) := fold_entries step p (pre s) in (s1, Some (if ok then KKj else KStd))
    | _ => (s, Some KKj)
    end.

  Fixpoint run_f (x : fstmt) (s : S) (ret : rval) {struct x} : fres S :=
    let run_fs := (fix go (l : list fstmt) (s : S) (ret : rval) {struct l} : fres S :=
                     match l with
                     | [] => FFall s ret
                     | y :: r => match run_f y s ret with FFall s1 r1 => go r s1 r1 | o => o end
                     end) in
    match x with
    | FPlain | FLog | FClose => FFall s ret
    | FClear => FFall (clear s) ret
    | FRetDecl v | FSetRet v => FFall s (match v with RvRet => ret | _ => v end)
    | FOpen c => if coll_eqb c self then FFall s ret else FStuck
    | FIfOpenFailed b => if open_failed file then run_fs b s ret else FFall s ret
    | FIfEnoent th el => if is_missing file then run_fs th s ret else run_fs el s ret
    | FReturn v => FRet s (rc_of file ret v)
    | FReader => if open_failed file then FThrow KKj s ret else FFall s ret
    | FLoop c => if coll_eqb c self
                 then match run_loop s with (s1, None) => FFall s1 ret | (s1, Some k) => FThrow k s1 ret end
                 else FStuck
    | FTry b hs =>
        match run_fs b s ret with
        | FThrow k s1 r1 =>
            (fix goh (hs : list (xdecl * list fstmt)) {struct hs} : fres S :=
               match hs with
               | [] => FThrow k s1 r1
               | h :: r => if catches (fst h) k then run_fs (snd h) s1 r1 else goh r
               end) hs
        | o => o
        end
    | FRest => FRet s RC_OK
    end.

  Fixpoint run_fs (l : list fstmt) (s : S) (ret : rval) {struct l} : fres S :=
    match l with
    | [] => FFall s ret
    | y :: r => match run_f y s ret with FFall s1 r1 => run_fs r s1 r1 | o => o end
    end.

  Definition run_frame (code : list fstmt) (s0 : S) (r0 : rval) : option (S * rc) :=
    match run_fs code s0 r0 with FRet s r => Some (s, r) | _ => None end.
End Frame.

(* ---- loops that push looked-up references --------------------------------------------------------------- *)
(* per element: the key is computed (may throw), tested against `guard` (skip), the pushed value computed (may throw) and
   looked up with at() (throws when absent) *)
Fixpoint for_push (kev pev : uref -> option nat) (guard at_ok : nat -> bool) (l : list uref) : option (list nat) :=
  match l with
  | [] => Some []
  | x :: r =>
      match kev x with
      | None => None
      | Some k =>
          if guard k
          then match pev x with
               | None => None
               | Some p => if at_ok p then match for_push kev pev guard at_ok r with Some t => Some (p :: t) | None => None end
                           else None
               end
          else for_push kev pev guard at_ok r
      end
  end.

(* the key / pushed expression over one element: uuid texts must go through uuidGenerator, mode names are used as they are *)
Definition elem_eval (is_uuid : bool) (k : vexp) (x : uref) : option nat :=
  match k with
  | VUuidOf VElem => if is_uuid then x else None
  | VElem => if is_uuid then None else x
  | _ => None
  end.

Definition upd {A} (f : nat -> A) (v : nat) (a : A) : nat -> A := fun w => if Nat.eqb w v then a else f w.

Definition is_some {A} (o : option A) : bool := match o with Some _ => true | None => false end.

Fixpoint arg_of (m : member) (args : list (member * vexp)) : option vexp :=
  match args with
  | [] => None
  | (m', e) :: r => if member_eqb m m' then Some e else arg_of m r
  end.

Definition ins_by {A} (kf : A -> nat) (k : ins_kind) (x : A) (l : list A) : list A :=
  match k with InsFirst => ins_first kf x l | InsLast => ins_last kf x l end.

(* the statements of an entry one after the other; `false` = an exception left the loop body *)
Fixpoint run_stmts {St : Type} (f : istmt -> St -> St * bool) (l : list istmt) (st : St) : St * bool :=
  match l with
  | [] => (st, true)
  | x :: r => let '(st1, ok) := f x st in if ok then run_stmts f r st1 else (st1, false)
  end.

(* ---- id-only collections: agencies, services, stops (collection file), data sources ------------------------ *)
Section Simple.
  Variable id : uref.
  Variable rest_ok : bool.

  Definition seval (e : vexp) : option nat :=
    match e with
    | VPlain => Some 0%nat
    | VGet _ => Some 0%nat
    | VUuidOf (VGet GUuid) => id
    | VUuidOf (VGet _) | VOptUuidOf (VGet _) | VDateOf (VGet _) | VDateOf VElem => if rest_ok then Some 0%nat else None
    | VVec _ => Some 0%nat
    | _ => None
    end.

  (* state: t.uuid (None before it is assigned), the map *)
  Definition sstmt (x : istmt) (st : option nat * list nat) : (option nat * list nat) * bool :=
    let '(k, s) := st in
    match x with
    | IPlain | IVecDecl _ | IVecClear _ => (st, true)
    | IObjDecl => ((None, s), true)
    | IEval e => (st, is_some (seval e))
    | ISet TObj MUuid e => match seval e with Some n => ((Some n, s), true) | None => (st, false) end
    | ISet TObj _ e => (st, is_some (seval e))
    | ISetIfNonEmpty TObj _ _ e => (st, is_some (seval e))
    | IForPush _ _ None _ e => (st, is_some (seval e))
    | IStore (VMember MUuid) => match k with Some n => ((k, ins_last (fun a => a) n s), true) | None => (st, false) end
    | IEmplace ik (VMember MUuid) [] =>          (* ts.emplace(t.uuid, t) *)
        match k with Some n => ((k, ins_by (fun a => a) ik n s), true) | None => (st, false) end
    | IEmplace ik key args =>
        match seval key with
        | Some n => if forallb (fun a => is_some (seval (snd a))) args
                    then ((k, ins_by (fun a => a) ik n s), true) else (st, false)
        | None => (st, false)
        end
    | _ => (st, false)
    end.

  Definition simple_step (code : list istmt) (s : list nat) : list nat * bool :=
    let '((_, s1), ok) := run_stmts sstmt code (None, s) in (s1, ok).
End Simple.

Definition run_simple {M : Type} (self : coll) (idf : M -> uref) (okf : M -> bool) (c : loader_code)
           (file : fstate (list M)) (s0 : list nat) (r0 : rval) : option (list nat * rc) :=
  run_frame self (fun _ => []) (fun s => s) (fun s m => simple_step (idf m) (okf m) (lc_item c) s) file (lc_frame c) s0 r0.

(* ---- lines ------------------------------------------------------------------------------------------------- *)
Section LineI.
  Variable agencies : list nat.
  Variable m : line_msg.

  Definition lknown (c : coll) (n : nat) : bool :=
    match c with CAgencies => memb n agencies | CModes => mode_known n | _ => false end.

  Fixpoint leval (e : vexp) : option nat :=
    match e with
    | VPlain => Some 0%nat
    | VGet GMode => Some (lm_mode m)
    | VGet _ => Some 0%nat
    | VUuidOf (VGet GUuid) => lm_id m
    | VUuidOf (VGet GAgencyUuid) => lm_agency m
    | VAt c k => match leval k with Some a => if lknown c a then Some a else None | None => None end
    | VCond c k a b => match leval k with Some n => if lknown c n then leval a else leval b | None => None end
    | VFirst CAgencies => match agencies with a :: _ => Some a | [] => None end
    | _ => None
    end.

  Definition lstmt (x : istmt) (s : list line) : list line * bool :=
    match x with
    | IPlain => (s, true)
    | IEval e => (s, is_some (leval e))
    | IEmplace ik key args =>
        match leval key, arg_of MAgency args, arg_of MMode args with
        | Some l, Some ea, Some em =>
            if forallb (fun a => is_some (leval (snd a))) args
            then match leval ea, leval em with
                 | Some a, Some md => (ins_by l_id ik {| l_id := l; l_agency := a; l_mode := md |} s, true)
                 | _, _ => (s, false)
                 end
            else (s, false)
        | _, _, _ => (s, false)
        end
    | _ => (s, false)
    end.
End LineI.

Definition line_item (code : list istmt) (agencies : list nat) (s : list line) (m : line_msg) : list line * bool :=
  run_stmts (lstmt agencies m) code s.

Definition run_lines (c : loader_code) (agencies : list nat) (file : fstate (list line_msg)) (s0 : list line) (r0 : rval)
  : option (list line * rc) :=
  run_frame CLines (fun _ => []) (fun s => s) (line_item (lc_item c) agencies) file (lc_frame c) s0 r0.

(* ---- paths ------------------------------------------------------------------------------------------------- *)
Record pstate := { ps_vn : nat -> list nat; ps_vz : nat -> list Z; ps_json : option (list seg); ps_map : list path }.

Section PathI.
  Variables (lines nodes : list nat).
  Variable m : path_msg.

  Definition pknown (c : coll) (n : nat) : bool :=
    match c with CLines => memb n lines | CNodes => memb n nodes | _ => false end.

  Fixpoint peval (e : vexp) : option nat :=
    match e with
    | VPlain => Some 0%nat
    | VGet _ => Some 0%nat
    | VVec _ => Some 0%nat
    | VUuidOf (VGet GUuid) => pm_id m
    | VUuidOf (VGet GLineUuid) => pm_line m
    | VAt c k => match peval k with Some a => if pknown c a then Some a else None | None => None end
    | _ => None
    end.

  Definition with_map (st : pstate) (s : list path) : pstate :=
    {| ps_vn := ps_vn st; ps_vz := ps_vz st; ps_json := ps_json st; ps_map := s |}.

  Definition pstmt (x : istmt) (st : pstate) : pstate * bool :=
    match x with
    | IPlain => (st, true)
    | IVecDecl v | IVecClear v =>
        ({| ps_vn := upd (ps_vn st) v []; ps_vz := upd (ps_vz st) v []; ps_json := ps_json st; ps_map := ps_map st |}, true)
    | IEval e => (st, is_some (peval e))
    | IForPush GNodesUuids k guard v (VAt c k2) =>
        match for_push (elem_eval true (match guard with Some _ => k | None => k2 end)) (elem_eval true k2)
                       (match guard with Some g => pknown g | None => fun _ => true end) (pknown c) (pm_nodes m) with
        | Some t => ({| ps_vn := upd (ps_vn st) v (ps_vn st v ++ t); ps_vz := ps_vz st; ps_json := ps_json st;
                        ps_map := ps_map st |}, true)
        | None => (st, false)
        end
    | IJson GData =>
        match pm_segs m with
        | Some segs => ({| ps_vn := ps_vn st; ps_vz := ps_vz st; ps_json := Some segs; ps_map := ps_map st |}, true)
        | None => (st, false)
        end
    | ISegLoop bound pushes =>
        match ps_json st with
        | Some segs =>
            match seg_dists (length (ps_vn st bound)) segs with
            | Some ds =>
                ({| ps_vn := ps_vn st;
                    ps_vz := fold_left (fun vz p => match fst p with
                                                    | JDistance => upd vz (snd p) (vz (snd p) ++ ds)
                                                    | _ => vz          (* travel times: not in the model *)
                                                    end) pushes (ps_vz st);
                    ps_json := ps_json st; ps_map := ps_map st |}, true)
            | None => (st, false)
            end
        | None => (st, false)
        end
    | IEmplace ik key args =>
        match peval key, arg_of MLine args, arg_of MNodesRef args, arg_of MDistances args with
        | Some p, Some el, Some (VVec a), Some (VVec b) =>
            if forallb (fun a => is_some (peval (snd a))) args
            then match peval el with
                 | Some l => (with_map st (ins_by p_id ik {| p_id := p; p_line := l; p_nodes := ps_vn st a; p_dists := ps_vz st b |}
                                                  (ps_map st)), true)
                 | None => (st, false)
                 end
            else (st, false)
        | _, _, _, _ => (st, false)
        end
    | _ => (st, false)
    end.
End PathI.

(* the vectors and the parsed JSON are locals of the loop body: what they hold when an entry starts is whatever the
   previous entry left (or vn0 / vz0 for the first) *)
Definition path_item (code : list istmt) (lines nodes : list nat) (st : pstate) (m : path_msg) : pstate * bool :=
  run_stmts (pstmt lines nodes m) code {| ps_vn := ps_vn st; ps_vz := ps_vz st; ps_json := None; ps_map := ps_map st |}.

Definition run_paths (c : loader_code) (lines nodes : list nat) (file : fstate (list path_msg))
           (s0 : list path) (vn0 : nat -> list nat) (vz0 : nat -> list Z) (r0 : rval) : option (list path * rc) :=
  match run_frame CPaths (fun st => {| ps_vn := ps_vn st; ps_vz := ps_vz st; ps_json := None; ps_map := [] |})
                  (fun st => fst (run_stmts (pstmt lines nodes {| pm_id := None; pm_line := None; pm_nodes := []; pm_segs := None |})
                                            (lc_pre c) st))
                  (path_item (lc_item c) lines nodes) file (lc_frame c)
                  {| ps_vn := vn0; ps_vz := vz0; ps_json := None; ps_map := s0 |} r0 with
  | Some (st, r) => Some (ps_map st, r)
  | None => None
  end.

(* ---- scenarios --------------------------------------------------------------------------------------------- *)
Definition entry_or_blank (k : nat) (s : list scenario) : scenario :=
  match find (fun c => Nat.eqb (s_id c) k) s with Some c => c | None => scenario_blank k end.
(* ts[k].m = v : the entry is created when absent, then one member is written *)
Definition upsert (k : nat) (g : scenario -> scenario) (s : list scenario) : list scenario :=
  ins_last s_id (g (entry_or_blank k s)) s.

Definition scen_setter (m : member) : option (scenario -> list nat -> scenario) :=
  match m with
  | MServicesList => Some set_s_services
  | MOnlyLines => Some set_s_onlyLines | MOnlyAgencies => Some set_s_onlyAgencies
  | MOnlyNodes => Some set_s_onlyNodes | MOnlyModes => Some set_s_onlyModes
  | MExceptLines => Some set_s_exceptLines | MExceptAgencies => Some set_s_exceptAgencies
  | MExceptNodes => Some set_s_exceptNodes | MExceptModes => Some set_s_exceptModes
  | _ => None
  end.

Section ScenI.
  Variable e : scen_env.
  Variable m : scenario_msg.

  Definition sknown (c : coll) (n : nat) : bool :=
    match c with
    | CServices => memb n (se_services e) | CLines => memb n (se_lines e) | CAgencies => memb n (se_agencies e)
    | CNodes => memb n (se_nodes e) | CModes => mode_known n | _ => false
    end.

  (* the capnp list a getter returns: (are the elements uuid texts, the elements) *)
  Definition selems (g : getter) : option (bool * list uref) :=
    match g with
    | GServicesUuids => Some (true, cm_services m)
    | GOnlyLinesUuids => Some (true, cm_onlyLines m) | GOnlyAgenciesUuids => Some (true, cm_onlyAgencies m)
    | GOnlyNodesUuids => Some (true, cm_onlyNodes m) | GOnlyModesShortnames => Some (false, map (@Some nat) (cm_onlyModes m))
    | GExceptLinesUuids => Some (true, cm_exceptLines m) | GExceptAgenciesUuids => Some (true, cm_exceptAgencies m)
    | GExceptNodesUuids => Some (true, cm_exceptNodes m) | GExceptModesShortnames => Some (false, map (@Some nat) (cm_exceptModes m))
    | _ => None
    end.

  Definition ceval (x : vexp) : option nat :=
    match x with
    | VPlain => Some 0%nat
    | VGet _ => Some 0%nat
    | VUuidOf (VGet GUuid) => cm_id m
    | VOptUuidOf (VGet GSimulationUuid) => if cm_sim_ok m then Some 0%nat else None
    | _ => None
    end.

  Definition cstmt (x : istmt) (st : (nat -> list nat) * list scenario) : ((nat -> list nat) * list scenario) * bool :=
    let '(vs, s) := st in
    match x with
    | IPlain => (st, true)
    | IVecDecl v | IVecClear v => ((upd vs v [], s), true)
    | IEval x => (st, is_some (ceval x))
    | ISet (TEntry key) mm x =>
        match ceval key with
        | Some k =>
            match scen_setter mm, x with
            | Some set, VVec v => ((vs, upsert k (fun c => set c (vs v)) s), true)
            | Some _, _ => (st, false)
            | None, _ => if is_some (ceval x) then ((vs, upsert k (fun c => c) s), true) else (st, false)
            end
        | None => (st, false)
        end
    | IForPush g k guard v (VAt c k2) =>
        match selems g with
        | Some (is_uuid, l) =>
            match for_push (elem_eval is_uuid (match guard with Some _ => k | None => k2 end)) (elem_eval is_uuid k2)
                           (match guard with Some gc => sknown gc | None => fun _ => true end) (sknown c) l with
            | Some t => ((upd vs v (vs v ++ t), s), true)
            | None => (st, false)
            end
        | None => (st, false)
        end
    | _ => (st, false)
    end.
End ScenI.

Definition scen_item (code : list istmt) (e : scen_env) (st : (nat -> list nat) * list scenario) (m : scenario_msg)
  : ((nat -> list nat) * list scenario) * bool :=
  run_stmts (cstmt e m) code st.

Definition blank_scen_msg : scenario_msg :=
  {| cm_id := None; cm_sim_ok := true; cm_services := []; cm_onlyLines := []; cm_onlyAgencies := []; cm_onlyNodes := [];
     cm_onlyModes := []; cm_exceptLines := []; cm_exceptAgencies := []; cm_exceptNodes := []; cm_exceptModes := [] |}.

Definition run_scenarios (c : loader_code) (e : scen_env) (file : fstate (list scenario_msg))
           (s0 : list scenario) (vs0 : nat -> list nat) (r0 : rval) : option (list scenario * rc) :=
  match run_frame CScenarios (fun st => (fst st, [])) (fun st => fst (run_stmts (cstmt e blank_scen_msg) (lc_pre c) st))
                  (scen_item (lc_item c) e) file (lc_frame c) (vs0, s0) r0 with
  | Some (st, r) => Some (snd st, r)
  | None => None
  end.

(* ---- what the scenario code says about its nine lists, read off the statements ------------------------------ *)
(* for every `ts[key].member = vector`: (member, the getter whose loop pushes into that vector, the collection looked up) *)
Fixpoint pushes_into (v : nat) (l : list istmt) : list (getter * option coll * coll) :=
  match l with
  | [] => []
  | IForPush g _ guard w (VAt c _) :: r => if Nat.eqb w v then (g, guard, c) :: pushes_into v r else pushes_into v r
  | _ :: r => pushes_into v r
  end.
Fixpoint list_feeds (all l : list istmt) : list (member * list (getter * option coll * coll)) :=
  match l with
  | [] => []
  | ISet (TEntry _) mm (VVec v) :: r => (mm, pushes_into v all) :: list_feeds all r
  | _ :: r => list_feeds all r
  end.
(* every vector that is pushed into or stored is declared (or cleared) earlier in the SAME entry *)
Fixpoint vecs_fresh (declared : list nat) (l : list istmt) : bool :=
  match l with
  | [] => true
  | IVecDecl v :: r | IVecClear v :: r => vecs_fresh (v :: declared) r
  | IForPush _ _ _ v _ :: r => memb v declared && vecs_fresh declared r
  | ISet _ _ (VVec v) :: r => memb v declared && vecs_fresh declared r
  | _ :: r => vecs_fresh declared r
  end.
