(* AllNodes.v — the per-stop loop body of the two ALL-NODES result builders, Calculator::forwardJourneyStepAllNodes
   (forward_journey.cpp) and Calculator::reverseJourneyStepAllNodes (reverse_journey.cpp), as data, and its interpreter.

   tools/gen_loops.py parses the body of `for (nodeIte = transitData.getNodes().begin(); ...)` of each function into a
   statement tree (gen/AllNodes.v, type `nskel`): the `continue` for stops without a label, the backwards walk over the
   labels (forward: counting the boardings; reverse: rebuilding the journey, appending the egress walk, optimizeJourney,
   counting the legs), the listing condition, the time of the stop, the max-travel-time filter, the node that is
   pushed.  Conditions and operands are TRANSLATED source expressions over the machine (`nb_*`) and the environment.

   Proofs/AllNodesTie.v proves that the model (Calc.fwd_allnodes_loop / rev_allnodes_loop) computes what this
   interpreter computes on the generated trees, stop by stop and for the whole list of stops. *)
From Coq Require Import List ZArith Bool.
From TrV Require Import Scan Journey Calc.
Import ListNotations.
Local Open Scope Z_scope.
Local Open Scope bool_scope.

(* what one iteration is given *)
Record nenv := { ne_d : data; ne_p : params; ne_k : calc;
                 ne_steps : nat -> jstep;             (* forwardJourneysSteps / reverseJourneysSteps *)
                 ne_labels : nat -> option jstep;     (* forwardEgressJourneysSteps / reverseAccessJourneysSteps *)
                 ne_node : nat }.                     (* resultingNode.uid *)
(* what it writes *)
Record nmach := {
  nb_cur : jstep;               (* resultingNodeJourneyStep *)
  nb_journey : list jstep;      (* journey *)
  nb_best : option nat;         (* bestAccessNode / bestEgressNode *)
  nb_ntr : Z;                   (* numberOfTransfers *)
  nb_step : jstep;              (* journeyStep (range-for variable) *)
  nb_time : Z;                  (* arrivalTime / departureTimeD *)
  nb_count : Z;                 (* reachableNodesCount *)
  nb_mk : accnode;              (* node *)
  nb_nodes : list accnode       (* allNodesResult->nodes *) }.
Definition ns_cur (v : jstep) (s : nmach) : nmach :=
  {| nb_cur := v; nb_journey := nb_journey s; nb_best := nb_best s; nb_ntr := nb_ntr s; nb_step := nb_step s; nb_time := nb_time s; nb_count := nb_count s; nb_mk := nb_mk s; nb_nodes := nb_nodes s |}.
Definition ns_journey (v : list jstep) (s : nmach) : nmach :=
  {| nb_cur := nb_cur s; nb_journey := v; nb_best := nb_best s; nb_ntr := nb_ntr s; nb_step := nb_step s; nb_time := nb_time s; nb_count := nb_count s; nb_mk := nb_mk s; nb_nodes := nb_nodes s |}.
Definition ns_best (v : option nat) (s : nmach) : nmach :=
  {| nb_cur := nb_cur s; nb_journey := nb_journey s; nb_best := v; nb_ntr := nb_ntr s; nb_step := nb_step s; nb_time := nb_time s; nb_count := nb_count s; nb_mk := nb_mk s; nb_nodes := nb_nodes s |}.
Definition ns_ntr (v : Z) (s : nmach) : nmach :=
  {| nb_cur := nb_cur s; nb_journey := nb_journey s; nb_best := nb_best s; nb_ntr := v; nb_step := nb_step s; nb_time := nb_time s; nb_count := nb_count s; nb_mk := nb_mk s; nb_nodes := nb_nodes s |}.
Definition ns_step (v : jstep) (s : nmach) : nmach :=
  {| nb_cur := nb_cur s; nb_journey := nb_journey s; nb_best := nb_best s; nb_ntr := nb_ntr s; nb_step := v; nb_time := nb_time s; nb_count := nb_count s; nb_mk := nb_mk s; nb_nodes := nb_nodes s |}.
Definition ns_time (v : Z) (s : nmach) : nmach :=
  {| nb_cur := nb_cur s; nb_journey := nb_journey s; nb_best := nb_best s; nb_ntr := nb_ntr s; nb_step := nb_step s; nb_time := v; nb_count := nb_count s; nb_mk := nb_mk s; nb_nodes := nb_nodes s |}.
Definition ns_count (v : Z) (s : nmach) : nmach :=
  {| nb_cur := nb_cur s; nb_journey := nb_journey s; nb_best := nb_best s; nb_ntr := nb_ntr s; nb_step := nb_step s; nb_time := nb_time s; nb_count := v; nb_mk := nb_mk s; nb_nodes := nb_nodes s |}.
Definition ns_mk (v : accnode) (s : nmach) : nmach :=
  {| nb_cur := nb_cur s; nb_journey := nb_journey s; nb_best := nb_best s; nb_ntr := nb_ntr s; nb_step := nb_step s; nb_time := nb_time s; nb_count := nb_count s; nb_mk := v; nb_nodes := nb_nodes s |}.
Definition ns_nodes (v : list accnode) (s : nmach) : nmach :=
  {| nb_cur := nb_cur s; nb_journey := nb_journey s; nb_best := nb_best s; nb_ntr := nb_ntr s; nb_step := nb_step s; nb_time := nb_time s; nb_count := nb_count s; nb_mk := nb_mk s; nb_nodes := v |}.

(* the meaning of the sub-expressions the translator treats as atoms; `.value()` of something absent throws in the source:
   where the model has an outcome for it the translator emits an explicit NCheck, elsewhere a default stands in (the
   ties say under which condition on the labels) *)
Definition x_label (e : nenv) : jstep := match ne_labels e (ne_node e) with Some j => j | None => js_default end.
Definition x_best (m : nmach) : nat := match nb_best m with Some n => n | None => 0%nat end.
Definition x_enter_node (j : jstep) : option nat := match js_enter j with Some c => Some (c_from c) | None => None end.
Definition x_exit_node (j : jstep) : option nat := match js_exit j with Some c => Some (c_to c) | None => None end.
Definition x_exit_arr (j : jstep) : Z := match js_exit j with Some c => c_arr c | None => 0 end.
Definition x_enter_dep (j : jstep) : Z := match js_enter j with Some c => c_dep c | None => 0 end.
Definition x_enter_minw (p : params) (j : jstep) : Z := match js_enter j with Some c => minw_eff p c | None => 0 end.
(* journeyStepTrip = resultingNodeJourneyStep.getFinalTrip().value().get() in the forward walk: the trip of the label *)
Definition x_cur_transferable (e : nenv) (m : nmach) : bool :=
  is_transferable_trip (ne_d e)
    match js_trip (nb_cur m) with
    | Some t => t
    | None => match js_enter (nb_cur m) with Some c => c_trip c | None => 0%nat end
    end.
(* journeyStepTrip = journeyStep.getFinalTrip().value().get() in the count over the optimised journey: a step without a
   trip counts nothing in the model (the source would throw; every label with connections carries its trip) *)
Definition x_step_transferable (e : nenv) (m : nmach) : bool :=
  match js_trip (nb_step m) with Some t => is_transferable_trip (ne_d e) t | None => true end.
Definition x_row_time (o : option fprow) : Z := match o with Some r => fp_time r | None => 0 end.
Definition x_row_dist (o : option fprow) : Z := match o with Some r => fp_dist r | None => 0 end.
Definition x_walk (t : Z) (same : bool) (dist : Z) : jstep :=
  {| js_enter := None; js_exit := None; js_trip := None; js_walk := t; js_same := same; js_dist := dist |}.
Definition x_copy_walk (l : list jstep) (j : jstep) : list jstep := set_last_walk l (js_walk j) (js_dist j).

Inductive nskel :=
| NSetNtr (f : nenv -> nmach -> Z) (k : nskel)                   (* numberOfTransfers = f *)
| NSetCur (f : nenv -> nmach -> jstep) (k : nskel)               (* resultingNodeJourneyStep = f *)
| NSetBest (f : nenv -> nmach -> option nat) (k : nskel)         (* bestAccessNode / bestEgressNode = f *)
| NNewJourney (k : nskel)                                        (* std::deque<JourneyStep> journey; *)
| NPushBack (f : nenv -> nmach -> jstep) (k : nskel)             (* journey.push_back(f) *)
| NCopyWalk (f : nenv -> nmach -> jstep) (k : nskel)             (* journey[last].copyTransferTimeDistance(f) *)
| NCheck (g : nenv -> nmach -> bool) (exn : nat) (k : nskel)     (* a .value() / .at() of the next statement throws unless g *)
| NOptimize (k : nskel)                                          (* optimizeJourney(journey) *)
| NForJourney (body : nskel) (k : nskel)                         (* for (auto & journeyStep : journey) body *)
| NSetTime (f : nenv -> nmach -> Z) (k : nskel)                  (* int arrivalTime / departureTimeD = f *)
| NIncCount (k : nskel)                                          (* reachableNodesCount++ *)
| NMakeNode (f : nenv -> nmach -> accnode) (k : nskel)           (* AccessibleNodes node = AccessibleNodes(...) *)
| NPushNode (k : nskel)                                          (* allNodesResult->nodes.push_back(node) *)
| NIf (g : nenv -> nmach -> bool) (th el : nskel) (k : nskel)
| NWhile (g : nenv -> nmach -> bool) (body : nskel) (k : nskel)
| NContinue                                                      (* next stop *)
| NDone.

(* while (g) body, then `after`; the loop that does not end within the fuel hangs (the model's REBUILD_FUEL) *)
Fixpoint nwhile {R : Type} (g : nmach -> bool) (body : (nmach -> outcome R) -> nmach -> outcome R)
         (after : nmach -> outcome R) (fuel : nat) (m : nmach) {struct fuel} : outcome R :=
  if g m then match fuel with O => Hang | S f => body (nwhile g body after f) m end
  else after m.

(* one step of the journey: the range-for variable is set, the body runs to its end *)
Definition nstep_run (runbody : nmach -> outcome nmach) (o : outcome nmach) (j : jstep) : outcome nmach :=
  match o with
  | Ok m1 => runbody (ns_step j m1)
  | err => err
  end.

Definition pass_err {A R : Type} (o : outcome A) : outcome R :=
  match o with
  | Ok _ => Crash | NoRouting r => NoRouting r | ParamErr c => ParamErr c | DataErr c => DataErr c | Exn t => Exn t
  | NoReply => NoReply | Crash => Crash | UB t => UB t | Hang => Hang
  end.

(* kont: the body ended; kcont: `continue` *)
Fixpoint nrun (e : nenv) (fuel : nat) (s : nskel) (R : Type) (kont kcont : nmach -> outcome R) (m : nmach) {struct s}
  : outcome R :=
  match s with
  | NDone => kont m
  | NContinue => kcont m
  | NSetNtr f k => nrun e fuel k R kont kcont (ns_ntr (f e m) m)
  | NSetCur f k => nrun e fuel k R kont kcont (ns_cur (f e m) m)
  | NSetBest f k => nrun e fuel k R kont kcont (ns_best (f e m) m)
  | NNewJourney k => nrun e fuel k R kont kcont (ns_journey [] m)
  | NPushBack f k => nrun e fuel k R kont kcont (ns_journey (nb_journey m ++ [f e m]) m)
  | NCopyWalk f k => nrun e fuel k R kont kcont (ns_journey (x_copy_walk (nb_journey m) (f e m)) m)
  | NCheck g exn k => if g e m then nrun e fuel k R kont kcont m else Exn exn
  | NOptimize k =>
      match optimize (OPT_FUEL (ne_d e)) (ne_d e) (nb_journey m) [] [] with
      | OptDone js1 _ => nrun e fuel k R kont kcont (ns_journey js1 m)
      | OptUB => UB U_INDEX
      | OptHang => Hang
      end
  | NForJourney body k =>
      match fold_left (nstep_run (fun mm => nrun e fuel body nmach (fun m2 => Ok m2) (fun m2 => Ok m2) mm)) (nb_journey m) (Ok m) with
      | Ok m' => nrun e fuel k R kont kcont m'
      | o => pass_err o
      end
  | NSetTime f k => nrun e fuel k R kont kcont (ns_time (f e m) m)
  | NIncCount k => nrun e fuel k R kont kcont (ns_count (nb_count m + 1) m)
  | NMakeNode f k => nrun e fuel k R kont kcont (ns_mk (f e m) m)
  | NPushNode k => nrun e fuel k R kont kcont (ns_nodes (nb_nodes m ++ [nb_mk m]) m)
  | NIf g th el k =>
      if g e m then nrun e fuel th R (nrun e fuel k R kont kcont) kcont m
      else nrun e fuel el R (nrun e fuel k R kont kcont) kcont m
  | NWhile g body k =>
      nwhile (g e) (fun kk mm => nrun e fuel body R kk kcont mm) (nrun e fuel k R kont kcont) fuel m
  end.

(* one stop: the loop body; `continue` and the end of the body both go to the next stop *)
Definition run_stop (body : nskel) (e : nenv) (fuel : nat) (m : nmach) : outcome nmach :=
  nrun e fuel body nmach (fun m' => Ok m') (fun m' => Ok m') m.

(* for (nodeIte = transitData.getNodes().begin(); nodeIte != ...end(); nodeIte++) body *)
Fixpoint run_stops (body : nskel) (d : data) (p : params) (k : calc) (steps : nat -> jstep) (labels : nat -> option jstep)
         (fuel : nat) (nodes : list nat) (m : nmach) : outcome nmach :=
  match nodes with
  | [] => Ok m
  | n :: r =>
      match run_stop body {| ne_d := d; ne_p := p; ne_k := k; ne_steps := steps; ne_labels := labels; ne_node := n |} fuel m with
      | Ok m' => run_stops body d p k steps labels fuel r m'
      | o => o
      end
  end.
