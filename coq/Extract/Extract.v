(* the single place with extraction directives: ExtrOcamlBasic only (bool, option, unit, list, prod,
   sumbool mapped to OCaml's); nat, positive, Z stay the extracted inductives; no Extract Constant. *)
From TrV Require Import Calc.
Require Import Extraction ExtrOcamlBasic.
Extraction Language OCaml.

Extraction "Extract/model.ml" conn_set calc_single alternatives calc_allnodes find_scenario fwd_entry rev_entry
  fwd_index rev_index sorted_fwd sorted_rev all_combs mk_connset.
