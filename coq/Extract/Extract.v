(* the single place with extraction directives: ExtrOcamlBasic only (bool, option, unit, list, prod,
   sumbool mapped to OCaml's); nat, positive, Z stay the extracted inductives; no Extract Constant. *)
From TrV Require Import Calc Spec SpecDist Params Render Osrm Loader Loader2.
Require Import Extraction ExtrOcamlBasic.
Extraction Language OCaml.

Extraction "Extract/model.ml" conn_set calc_single alternatives calc_allnodes find_scenario fwd_entry rev_entry
  fwd_index rev_index sorted_fwd sorted_rev all_combs mk_connset
  wf_data_b pos_hops_b uniform_wait_b wf_tables_b wf_params_b valid_itinerary_b limits_ok_b totals_ok_b walk_dists_ok_b vehicle_dists_ok_b
  earliest_arrival_ref latest_departure_ref reach_map_fwd_ref reach_map_rev_ref
  service_from_origin_b service_to_destination_b route_lines sort_nat list_eqb
  optimize OPT_FUEL find_conn emit minw_true delete_excluded all_inclusive
  create_route create_access handle_route handle_access handle_update response_code stoi stod_ok
  summary_lines osrm_rows handle_lookups load_nodes derive_rfp load_schedules data_status
  encode_all load_steps load_all data_of sizes_of update status_of refs_safe.
