(* C06, walking DISTANCE totals: totalNonTransitDistance, accessDistance, egressDistance and transferWalkingDistance are
   the sums of the distances of the corresponding walking steps.  Kept apart from Spec.totals_ok_b (the time identities).
   Like the walking-time totals it is claimed for routes that do not ride lines of mode 'transferable' (such legs are
   booked as walking only when segment distances exist).  The in-vehicle distance total is not stated: it mixes the -1
   "unknown" marker of paths without segment distances into the sum (result of reverse_journey.cpp as it is), which the
   property text does not fix.  transferWalkingDistance: true since /repo 811a817 (D16: the running total started at -1). *)
From Coq Require Import List ZArith Bool Arith.
From TrV Require Import Base Data Journey Spec.
Import ListNotations.
Local Open Scope Z_scope.

(* (all walks, access walks, egress walks, transfer walks) *)
Definition walk_dist_step (acc : Z * Z * Z * Z) (s : step) : Z * Z * Z * Z :=
  let '(w, a, e, t) := acc in
  match s with
  | SWalk k _ dist _ _ _ => (w + dist, (if Nat.eqb k 0 then a + dist else a), (if Nat.eqb k 1 then e + dist else e),
                             (if Nat.eqb k 2 then t + dist else t))
  | _ => (w, a, e, t)
  end.

Definition walk_dist_sums (steps : list step) : Z * Z * Z * Z := fold_left walk_dist_step steps (0, 0, 0, 0).

Definition walk_dists_ok_b (d : data) (r : route) : bool :=
  if rides_transferable d r then true
  else let '(w, a, e, t) := walk_dist_sums (rt_steps r) in
       (rt_tntd r =? w) && (rt_accd r =? a) && (rt_egrd r =? e) && (rt_trdist r =? t).

(* in-vehicle and overall distance: -1 is "unknown" (a ridden path without segment distances); one unknown leg makes both
   totals unknown, otherwise they are the sums over the steps (true since /repo 3db4e3c, D17: a later leg with distances
   used to add its metres to the -1 marker). *)
Definition ivd_step (acc : Z * bool) (s : step) : Z * bool :=
  let '(sum, unk) := acc in
  match s with
  | SUnboard _ _ _ _ _ _ ivd => (sum + ivd, unk || (ivd =? -1))
  | _ => acc
  end.

Definition vehicle_dists_ok_b (d : data) (r : route) : bool :=
  if rides_transferable d r then true
  else let '(sv, unk) := fold_left ivd_step (rt_steps r) (0, false) in
       let '(w, _, _, _) := walk_dist_sums (rt_steps r) in
       if unk then (rt_tivd r =? -1) && (rt_tdist r =? -1)
       else (rt_tivd r =? sv) && (rt_tdist r =? sv + w).
