(* Rebuild.v — the journey REBUILD of Calculator::reverseJourneyStep (reverse_journey.cpp: from the declaration of
   `journey` to the call of optimizeJourney) as data, and its interpreter.

   tools/gen_loops.py parses that region into a statement tree (gen/Rebuild.v, type `rskel`): the declarations, the
   `while (resultingNodeJourneyStep.hasConnections())` loop with its body (the walk stored before a leg is copied onto
   the previous leg, the leg is pushed, the stop where it alights is remembered, the label of that stop is read next),
   and the two pushes after the loop (access walk in front, egress walk at the end).  Conditions and operands are
   TRANSLATED source expressions over the machine (`rb_*`) and the environment (`re_*`).

   Proofs/LoopsTie.v proves that the model (Journey.rebuild, and the journey Calc.rev_journey hands to optimizeJourney)
   computes what this interpreter computes on the generated tree.  The loop may not terminate: the interpreter takes the
   same fuel as the model (Proofs/Termination.v shows that REBUILD_FUEL suffices). *)
From Coq Require Import List ZArith Bool.
From TrV Require Import Scan Journey.
Import ListNotations.
Local Open Scope Z_scope.
Local Open Scope bool_scope.

(* what the region reads *)
Record renv := { re_steps : nat -> jstep;        (* reverseJourneysSteps *)
                 re_start : option jstep;         (* reverseAccessJourneysSteps at resultingNode, if any *)
                 re_node : nat;                   (* resultingNode.uid *)
                 re_acc : list fprow;             (* nodesAccess *)
                 re_egr : list fprow }.           (* nodesEgress *)
(* what it writes *)
Record rmach := { rb_cur : jstep;                 (* resultingNodeJourneyStep *)
                  rb_journey : list jstep;        (* journey *)
                  rb_best : option nat }.         (* bestEgressNode *)

(* the meaning of the sub-expressions the translator treats as atoms (`.at()` / `.value()` of something absent
   throws in the source; here it yields a default, and the tie is stated where the model succeeds) *)
Definition x_start (e : renv) : jstep := match re_start e with Some j => j | None => js_default end.
Definition x_best (m : rmach) : nat := match rb_best m with Some n => n | None => 0%nat end.
Definition x_exit_node (j : jstep) : option nat := match js_exit j with Some c => Some (c_to c) | None => None end.
Definition x_row_time (o : option fprow) : Z := match o with Some r => fp_time r | None => 0 end.
Definition x_row_dist (o : option fprow) : Z := match o with Some r => fp_dist r | None => 0 end.
(* JourneyStep(std::nullopt, std::nullopt, std::nullopt, time, sameNode, distance) *)
Definition x_walk (t : Z) (same : bool) (dist : Z) : jstep :=
  {| js_enter := None; js_exit := None; js_trip := None; js_walk := t; js_same := same; js_dist := dist |}.
(* journey[journey.size()-1].copyTransferTimeDistance(j) *)
Definition x_copy_walk (l : list jstep) (j : jstep) : list jstep := set_last_walk l (js_walk j) (js_dist j).

Inductive rskel :=
| RNewJourney (k : rskel)                                           (* std::deque<JourneyStep> journey; *)
| RNewBest (k : rskel)                                              (* std::optional<...> bestEgressNode; *)
| RSetCur (f : renv -> rmach -> jstep) (k : rskel)                  (* resultingNodeJourneyStep = f *)
| RSetBest (f : renv -> rmach -> option nat) (k : rskel)            (* bestEgressNode = f *)
| RPushBack (f : renv -> rmach -> jstep) (k : rskel)                (* journey.push_back(f) *)
| RPushFront (f : renv -> rmach -> jstep) (k : rskel)               (* journey.push_front(f) *)
| RCopyWalk (f : renv -> rmach -> jstep) (k : rskel)                (* journey[last].copyTransferTimeDistance(f) *)
| RIf (g : renv -> rmach -> bool) (th el : rskel) (k : rskel)
| RWhile (g : renv -> rmach -> bool) (body : rskel) (k : rskel)
| RDone.

(* while (g) body, then `after`; None = the fuel ran out *)
Fixpoint rwhile {R : Type} (g : rmach -> bool) (body : (rmach -> option R) -> rmach -> option R)
         (after : rmach -> option R) (fuel : nat) (m : rmach) {struct fuel} : option R :=
  if g m then match fuel with O => None | S f => body (rwhile g body after f) m end
  else after m.

Fixpoint rrun (e : renv) (fuel : nat) (s : rskel) (R : Type) (kont : rmach -> option R) (m : rmach) {struct s} : option R :=
  match s with
  | RDone => kont m
  | RNewJourney k => rrun e fuel k R kont {| rb_cur := rb_cur m; rb_journey := []; rb_best := rb_best m |}
  | RNewBest k => rrun e fuel k R kont {| rb_cur := rb_cur m; rb_journey := rb_journey m; rb_best := None |}
  | RSetCur f k => rrun e fuel k R kont {| rb_cur := f e m; rb_journey := rb_journey m; rb_best := rb_best m |}
  | RSetBest f k => rrun e fuel k R kont {| rb_cur := rb_cur m; rb_journey := rb_journey m; rb_best := f e m |}
  | RPushBack f k => rrun e fuel k R kont {| rb_cur := rb_cur m; rb_journey := rb_journey m ++ [f e m]; rb_best := rb_best m |}
  | RPushFront f k => rrun e fuel k R kont {| rb_cur := rb_cur m; rb_journey := f e m :: rb_journey m; rb_best := rb_best m |}
  | RCopyWalk f k =>
      rrun e fuel k R kont {| rb_cur := rb_cur m; rb_journey := x_copy_walk (rb_journey m) (f e m); rb_best := rb_best m |}
  | RIf g th el k => if g e m then rrun e fuel th R (rrun e fuel k R kont) m else rrun e fuel el R (rrun e fuel k R kont) m
  | RWhile g body k => rwhile (g e) (fun kk mm => rrun e fuel body R kk mm) (rrun e fuel k R kont) fuel m
  end.

Definition run_rebuild (sk : rskel) (e : renv) (fuel : nat) (m : rmach) : option rmach :=
  rrun e fuel sk rmach (fun m' => Some m') m.
