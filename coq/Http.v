(* Http.v — the three /v2 request handlers as ONE function from what arrives on the wire to what is sent back.
   Composes Params.v (parameter factories), Server.v (the calculation behind the connection-set cache) and
   Render.v (the /v2/summary aggregation).
   Mirrors connection_scan_algorithm/src/transit_routing_http_server.cpp:307-373 (/v2/route), :377-444
   (/v2/summary), :448-507 (/v2/accessibility), getFastErrorResponse (:62-84), getResponseCode (:86-102), and the
   three renderers result_to_v2.cpp, result_to_v2_summary.cpp, result_to_v2_accessibility.cpp.

   What is modelled and what is not
   - an HTTP request is (endpoint, key/value list, access rows, egress rows): the walking router is external, what
     it answered for THIS request is part of the input (as in Server.request).  /v2/accessibility asks the router
     once, for the place: the access rows are used for a departure query, the egress rows for an arrival query.
   - the body is abstract JSON: the status, the error code, the echoed "query" object and the "result" object as
     model values (routes as Journey.route records, line counts as Render.summary_lines); JSON syntax, the names,
     uuids and coordinates of stops / lines / agencies and the echoed origin / destination / place coordinates are
     not modelled (the factories only decide whether the coordinates parse: Params.point_ok).
   - the status line: the handlers send "HTTP/1.1 400 OK" for the query errors (sic, :360, :370, :431, :441, :494,
     :504) and 200 otherwise;
     the code is modelled, the reason phrase is not.
   - the calculation's outcome type (Base.outcome) is shared by every modelled entry point.  Ok / NoRouting / Exn
     are what calculateSingle / alternativesRouting / calculateAllNodes can do at the level of the handler
     (a result, NoRoutingFoundException, any other std::exception -> the catch-all arm).  NoReply / Crash / UB /
     Hang are kept distinguishable as HBad.  ParamErr / DataErr are never produced by a calculation (they belong
     to the factories and the loader; Calc.alt_loop only passes them on): they are kept as HBad too rather than
     given an invented mapping.
   - Calc.calc_single models "time_of_trip < 0" as Exn X_BAD_OPTIONAL ("null unique_ptr dereferenced by the
     caller").  The /v2 handlers do test the pointer (:341, :413, :477): a null result would be a 200 answer with
     an EMPTY body.  The factories reject a negative or missing time before (MISSING_TIME_OF_TRIP), so neither
     behaviour is reachable through http_serve (HttpProofs.http_route_classification). *)
From TrV Require Export Params Server Render.
Local Open Scope Z_scope.

Inductive endpoint := ERoute | ESummary | EAccess.

Definition is_summary (ep : endpoint) : bool := match ep with ESummary => true | _ => false end.

(* ---- the "query" object of the three renderers (parametersToRouteQueryResponse, result_to_v2.cpp:102-111;
   parametersToQueryResponse, result_to_v2_summary.cpp:97-106; parametersToAccessibilityQueryResponse,
   result_to_v2_accessibility.cpp:17-25): timeOfTrip and timeType (0 = departure, 1 = arrival) ---- *)
Record query_echo := { qe_time : Z; qe_fwd : bool }.
Definition qe_time_type (q : query_echo) : Z := if qe_fwd q then 0 else 1.

(* ---- the "reason" strings (result_constants.hpp) ---- *)
Inductive reason_text :=
| RT_NO_ROUTING_FOUND | RT_NO_ACCESS_AT_ORIGIN | RT_NO_ACCESS_AT_DESTINATION | RT_NO_ACCESS_AT_PLACE
| RT_NO_ACCESS_AT_ORIGIN_AND_DESTINATION | RT_NO_SERVICE_FROM_ORIGIN | RT_NO_SERVICE_TO_DESTINATION
| RT_NO_SERVICE_AT_PLACE.

(* ResultToV2Response::noRoutingFoundResponse, result_to_v2.cpp:147-179 *)
Definition route_reason_text (r : nat) : reason_text :=
  if Nat.eqb r R_NO_ACCESS_AT_ORIGIN then RT_NO_ACCESS_AT_ORIGIN
  else if Nat.eqb r R_NO_ACCESS_AT_DESTINATION then RT_NO_ACCESS_AT_DESTINATION
  else if Nat.eqb r R_NO_SERVICE_FROM_ORIGIN then RT_NO_SERVICE_FROM_ORIGIN
  else if Nat.eqb r R_NO_SERVICE_TO_DESTINATION then RT_NO_SERVICE_TO_DESTINATION
  else if Nat.eqb r R_NO_ACCESS_AT_ORIGIN_AND_DESTINATION then RT_NO_ACCESS_AT_ORIGIN_AND_DESTINATION
  else RT_NO_ROUTING_FOUND.

(* ResultToV2AccessibilityResponse::noRoutingFoundResponse, result_to_v2_accessibility.cpp:27-52: the two
   NO_ACCESS reasons share one string, the two NO_SERVICE reasons share one, everything else is the default *)
Definition access_reason_text (r : nat) : reason_text :=
  if Nat.eqb r R_NO_ACCESS_AT_ORIGIN || Nat.eqb r R_NO_ACCESS_AT_DESTINATION then RT_NO_ACCESS_AT_PLACE
  else if Nat.eqb r R_NO_SERVICE_FROM_ORIGIN || Nat.eqb r R_NO_SERVICE_TO_DESTINATION then RT_NO_SERVICE_AT_PLACE
  else RT_NO_ROUTING_FOUND.

(* one entry of "nodes" (nodeToJson, result_to_v2_accessibility.cpp:54-65): nodeTime is the arrival time for a
   departure query and arrival time - total travel time for an arrival query *)
Record hnode := { hn_node : nat; hn_time : Z; hn_ttt : Z; hn_ntr : Z }.
Definition render_node (fwd : bool) (a : accnode) : hnode :=
  {| hn_node := an_node a; hn_time := if fwd then an_time a else an_time a - an_ttt a;
     hn_ttt := an_ttt a; hn_ntr := an_ntr a |}.

(* outcomes that are no HTTP answer of the handler *)
Inductive badkind := BK_NoReply | BK_Crash | BK_UB (tag : nat) | BK_Hang
                   | BK_ParamErr (code : nat) | BK_DataErr (code : nat)    (* never produced by a calculation *)
                   | BK_Mismatch.                                          (* never produced by Server.respond *)

Inductive http_body :=
| HDataError (status : nat)                                (* {"status":"data_error","errorCode":...} *)
| HQueryError (c : errcode)                                (* {"status":"query_error","errorCode":...} *)
| HRoute (routes : list route) (total : Z) (q : query_echo)          (* status success: result.routes, result.totalRoutesCalculated *)
| HNoRouting (reason : reason_text) (q : query_echo)                 (* status no_routing_found, reason *)
| HAccess (nodes : list hnode) (total : Z) (q : query_echo)          (* status success: result.nodes, result.totalNodeCount *)
| HSummary (nb : Z) (lines : list (nat * Z)) (q : query_echo)        (* status success: result.nbRoutes, result.lines *)
| HBad (k : badkind).

(* code 0 = no HTTP answer *)
Inductive http_response := HttpR (code : nat) (b : http_body).

Definition resp_code (r : http_response) : nat := match r with HttpR c _ => c end.
Definition resp_body (r : http_response) : http_body := match r with HttpR _ b => b end.

Definition is_hbad (r : http_response) : bool := match r with HttpR _ (HBad _) => true | _ => false end.

(* the echoed query of a body *)
Definition body_echo (b : http_body) : option query_echo :=
  match b with
  | HRoute _ _ q | HNoRouting _ q | HAccess _ _ q | HSummary _ _ q => Some q
  | _ => None
  end.

(* ---- from the parsed parameters to the calculation's parameters ---- *)
Definition params_of_common (c : common) : option params :=
  match cm_scen c with
  | Some sid => Some {| q_scenario := sid; q_time := cm_time c; q_minw := cm_minw c; q_maxtt := cm_maxtt c;
                        q_maxacc := cm_maxacc c; q_maxegr := cm_maxegr c; q_maxtr := cm_maxtr c;
                        q_maxfw := cm_maxfw c; q_fwd := cm_fwd c; q_except_lines := [] |}
  | None => None
  end.

Definition echo_of_common (c : common) : query_echo := {| qe_time := cm_time c; qe_fwd := cm_fwd c |}.
Definition echo_of_params (p : params) : query_echo := {| qe_time := q_time p; qe_fwd := q_fwd p |}.

(* the code of the catch-all arm, outside ParameterException::Type: Params.response_code maps it to
   PARAM_ERROR_UNKNOWN *)
Definition E_UNKNOWN : nat := 10.

Section Http.
  (* boost::uuids::string_generator followed by the naming of scenarios by model ids: None = the parser throws.
     External: every theorem holds for every such function. *)
  Variable uuid_of : str -> option nat.

  (* scenarios.find(uuid) on the data in force (common_parameters.cpp:106-116) *)
  Definition resolve (d : data) (v : str) : option (option nat) :=
    match uuid_of v with
    | None => None
    | Some u => Some (match find_scenario d u with Some _ => Some u | None => None end)
    end.

  (* scenario.servicesList.size() *)
  Definition services_of (d : data) (sid : nat) : nat :=
    match find_scenario d sid with Some s => length (s_services s) | None => 0%nat end.

  (* the factory of the endpoint; /v2/accessibility has no alternatives *)
  Definition parse (d : data) (ep : endpoint) (kvs : list (key * str)) : parsed (common * bool) :=
    match ep with
    | ERoute | ESummary => create_route (resolve d) (services_of d) kvs
    | EAccess => match create_access (resolve d) (services_of d) kvs with
                 | POk c => POk (c, false)
                 | PErr e => PErr e
                 | PExn => PExn
                 end
    end.

  (* the calculation request of well-formed parameters *)
  Definition request_of_common (ep : endpoint) (c : common) (alt : bool) (acc egr : list fprow) : request :=
    match params_of_common c with
    | Some p => match ep with
                | EAccess => QAccess p (if q_fwd p then acc else egr)
                | _ => QRoute p alt acc egr
                end
    | None => QInvalid E_MISSING_SCENARIO      (* not reached: HttpProofs.parse_ok_params *)
    end.

  Definition request_of (d : data) (ep : endpoint) (kvs : list (key * str)) (acc egr : list fprow) : request :=
    match parse d ep kvs with
    | POk (c, alt) => request_of_common ep c alt acc egr
    | PErr e => QInvalid e
    | PExn => QInvalid E_UNKNOWN
    end.

  Definition echo_of_request (r : request) : query_echo :=
    match r with
    | QRoute p _ _ _ => echo_of_params p
    | QAccess p _ => echo_of_params p
    | QInvalid _ => {| qe_time := -1; qe_fwd := true |}      (* not rendered *)
    end.

  (* ---- response assembly ---- *)
  Definition render_outcome {A} (o : outcome A) (ok : A -> http_body) (nr : nat -> http_body) : http_response :=
    match o with
    | Ok x => HttpR 200 (ok x)
    | NoRouting r => HttpR 200 (nr r)                              (* catch (NoRoutingFoundException&) *)
    | Exn _ => HttpR 400 (HQueryError C_PARAM_ERROR_UNKNOWN)        (* catch (...) *)
    | ParamErr c => HttpR 0 (HBad (BK_ParamErr c))
    | DataErr c => HttpR 0 (HBad (BK_DataErr c))
    | NoReply => HttpR 0 (HBad BK_NoReply)
    | Crash => HttpR 0 (HBad BK_Crash)
    | UB t => HttpR 0 (HBad (BK_UB t))
    | Hang => HttpR 0 (HBad BK_Hang)
    end.

  (* `summary` selects ResultToV2SummaryResponse instead of ResultToV2Response.  The summary of a no-routing
     answer is status success with nbRoutes 0 and no lines (result_to_v2_summary.cpp:108-122). *)
  Definition render (d : data) (summary : bool) (q : query_echo) (a : response) : http_response :=
    match a with
    | AError c => HttpR 400 (HQueryError (response_code c))        (* catch (ParameterException&) *)
    | ARoute o =>
        if summary
        then render_outcome o (fun x => HSummary 1 (summary_lines d [fst x]) q) (fun _ => HSummary 0 [] q)
        else render_outcome o (fun x => HRoute [fst x] 1 q) (fun r => HNoRouting (route_reason_text r) q)
    | AAlt o =>
        if summary
        then render_outcome o (fun x => HSummary (Z.of_nat (length (fst x))) (summary_lines d (fst x)) q)
                              (fun _ => HSummary 0 [] q)
        else render_outcome o (fun x => HRoute (fst x) (snd x) q) (fun r => HNoRouting (route_reason_text r) q)
    | AAccess o =>
        if summary then HttpR 0 (HBad BK_Mismatch)
        else render_outcome o (fun x => HAccess (map (render_node (qe_fwd q)) (fst x)) (snd x) q)
                              (fun r => HNoRouting (access_reason_text r) q)
    end.

  (* the handler: data-status fast path, factory, calculation through the server's cache, response assembly.
     status = Loader.ST_READY = 0 is DataStatus::READY. *)
  Definition http_serve (sv : server) (status : nat) (ep : endpoint) (kvs : list (key * str))
             (acc egr : list fprow) : http_response * server :=
    if negb (Nat.eqb status 0) then (HttpR 200 (HDataError status), sv)
    else
      let r := request_of (sv_data sv) ep kvs acc egr in
      let '(a, sv1) := serve sv r in
      (render (sv_data sv) (is_summary ep) (echo_of_request r) a, sv1).

  (* a history of HTTP requests *)
  Record http_request := { hr_status : nat; hr_ep : endpoint; hr_kvs : list (key * str);
                           hr_acc : list fprow; hr_egr : list fprow }.

  Definition http_step (sv : server) (r : http_request) : http_response * server :=
    http_serve sv (hr_status r) (hr_ep r) (hr_kvs r) (hr_acc r) (hr_egr r).

  Fixpoint http_run (sv : server) (h : list http_request) : list http_response * server :=
    match h with
    | [] => ([], sv)
    | r :: rest =>
        let '(a, sv1) := http_step sv r in
        let '(l, sv2) := http_run sv1 rest in
        (a :: l, sv2)
    end.

  (* ---- the tie to Params.handle_route / handle_access ---- *)
  (* does the calculation's answer reach the catch-all arm? *)
  Definition response_throws (a : response) : bool :=
    match a with
    | ARoute (Exn _) | AAlt (Exn _) | AAccess (Exn _) => true
    | _ => false
    end.

  (* the instance of Params.calc_throws: the calculation the server performs for these parameters and tables *)
  Definition calc_throws_of (sv : server) (ep : endpoint) (acc egr : list fprow) (c : common) (alt : bool) : bool :=
    response_throws (fst (serve sv (request_of_common ep c alt acc egr))).

  Definition handle_of (sv : server) (status : nat) (ep : endpoint) (kvs : list (key * str))
             (acc egr : list fprow) : http :=
    match ep with
    | EAccess => handle_access (resolve (sv_data sv)) (services_of (sv_data sv))
                               (calc_throws_of sv ep acc egr) status kvs
    | _ => handle_route (resolve (sv_data sv)) (services_of (sv_data sv))
                        (calc_throws_of sv ep acc egr) status kvs
    end.

  (* the abstraction relation: Params.http forgets the result and remembers the parsed parameters *)
  Inductive refines : http -> http_response -> Prop :=
  | RefData : forall s, refines (Http 200 (BDataError s)) (HttpR 200 (HDataError s))
  | RefQuery : forall e, refines (Http 400 (BQueryError e)) (HttpR 400 (HQueryError e))
  | RefAnswer : forall kind c alt b,
      body_echo b = Some (echo_of_common c) ->
      refines (Http 200 (BAnswer kind c alt)) (HttpR 200 b).
End Http.
